"""C05 — sampling a spectrum from phi is exact binomial integration on every code path.

K  : the real implementation against the exact-rational Lean model (Model/FromPhi.lean, formulas regenerated from the
     source by tools/gen_FromPhi.py): `scipy.special.betainc` at integer arguments vs the binomial tail the theorems are
     about; `cached_dbeta` (cache miss and hit, over-shooting grids); `Spectrum.from_phi` through its public entry in 1-5
     dimensions on every path (semi-analytic, direct, `het_ascertained`, `admix_props`), including *which* private
     function is dispatched, `extrap_x`, guards and refusals; the private functions not reachable through the dispatch
     (`_from_phi_4D_direct(het_ascertained='aa')`, admix defaults); `from_phi_inbreeding` in 1-3 dimensions (ploidy 2..8,
     F clamp, all-zero delegation, divisibility guard); `Numerics.BetaBinomConvolution`, `Numerics.part`.
L3 : written from the property text with numpy only (no Lean, no dadi internals): Gauss-Legendre quadrature of
     (binomial probability) x (piecewise-multilinear interpolant) per grid cell; total = trapezoid mass; sample-n-then-
     project = sample-m; marginalise before/after; linearity; direct path = literal trapezoid sum; admix with identity
     proportions = direct; admixed / inbred sampling probabilities sum to one (mass identity for arbitrary proportions,
     sum of BetaBinomConvolution); inbreeding path = trapezoid of an independently convolved beta-binomial; F -> 0 limit
     (error proportional to F); mixed zero / non-zero F; grids over-shooting [0,1] by 1e-16; bookkeeping (mask_corners,
     pop_ids, extrap_x).
     Round 4: (i) the marginalisation clause for *sets* of populations listed in every order (`Spectrum.marginalize(over)`,
     1..d-1 of d = 2..5 populations, all permutations; values, shape, labels, extrap_x, mask; K against the model's
     `marginalize` whose iteration order is translated from the source); (ii) call-history independence: sessions of calls
     sharing (sample sizes, grid objects, F, ploidy) that run through the options (ascertained / plain / F = 0 / direct /
     semi-analytic / admix / look-alike grid / other F / other ploidy / repeats), every call checked on its own; the failing
     input carries the preceding calls (`history`) and the replay re-executes them first.
     Round 5 (theorems C05_inbreeding_vs_direct, C05_direct_vs_analytic_1D/_ND, C05_ND_clamp_exact, C05_clamp_table, C05_inb_dispatch):
     (i) grids over-shooting [0,1] by 1e-3 … 2^-8 on the semi-analytic path in 1-3 dimensions — at that size the two readings of
     the grid (1-D: every statement reads the clamped copy; 2-D…: slopes read the caller's array, betainc the clamped copy) differ
     measurably, so K checks the generated `clampTable` entry by entry and L3 compares with the exact integral over [0,1] of the
     interpolant the theorems name; (ii) the proved first-order bound |direct - semi-analytic| <= 2 C(n,d) n hmax * mass(|phi|) on
     fine grids; (iii) F -> 0 in ONE population while the others keep their F (limit = the mixed-zero call, which must not be
     delegated), and which private function `from_phi_inbreeding` ends up calling (K, delegation table).
"""
import math, itertools, warnings, json
import numpy as np
from fractions import Fraction
from . import common, gen
from .common import rat, fmt_list, fmt_nd, fmt_grids, parse_nd, parse_list, close

PROP = 'C05'
GENERATED = ['FromPhi']
NEEDS_BUILD = False
NEEDS_DRIVER = True
DRIVER_MODULES = ['FromPhi']

RTOL = 1e-9
HETKEYS = ['xx', 'yy', 'zz', 'aa']

def have_driver(ctx):
    d = ctx.get('driver')
    return d is not None and d.p is not None

# =========================================================================== independent oracles (property text)
def binom_pmf(n, x):
    """(n+1) x len(x) matrix of C(n,i) x^i (1-x)^(n-i), in float from exact binomials"""
    x = np.asarray(x, dtype=float)
    return np.array([math.comb(n, i) * x ** i * (1 - x) ** (n - i) for i in range(n + 1)])

_GL = {}
def gauss_legendre(q):
    if q not in _GL:
        _GL[q] = np.polynomial.legendre.leggauss(q)
    return _GL[q]

def hat_moments(n, xx):
    """H[i, k] = integral over [xx[0], xx[-1]] of C(n,i) x^i (1-x)^(n-i) * hat_k(x) dx  (hat_k = piecewise-linear basis),
    by Gauss-Legendre quadrature on every interval (exact for these polynomials up to round-off)"""
    xx = np.asarray(xx, dtype=float)
    N = len(xx)
    q = (n + 2) // 2 + 2
    t, w = gauss_legendre(q)
    H = np.zeros((n + 1, N))
    for k in range(N - 1):
        a, b = xx[k], xx[k + 1]
        h = b - a
        pts = a + (t + 1) * h / 2
        wt = w * h / 2
        B = binom_pmf(n, pts)                     # (n+1, q)
        lam = (pts - a) / h                       # weight of the right node
        H[:, k] += B @ (wt * (1 - lam))
        H[:, k + 1] += B @ (wt * lam)
    return H

def hat_moments_overshoot(n, xx):
    """like `hat_moments`, but for a grid that leaves [0,1]: the hats live on the grid as given (the density is piecewise linear
    between the caller's nodes) and only the part of every interval inside [0,1] is integrated (the sampling probability is
    defined there) — what C05_ND_clamp_exact says a stage of the 2-D…5-D versions computes"""
    xx = np.asarray(xx, dtype=float)
    N = len(xx)
    q = (n + 2) // 2 + 2
    t, w = gauss_legendre(q)
    H = np.zeros((n + 1, N))
    for k in range(N - 1):
        a, b = xx[k], xx[k + 1]
        lo, hi = min(max(a, 0.0), 1.0), min(max(b, 0.0), 1.0)
        if not hi > lo:
            continue
        pts = lo + (t + 1) * (hi - lo) / 2
        wt = w * (hi - lo) / 2
        B = binom_pmf(n, pts)
        lam = (pts - a) / (b - a)
        H[:, k] += B @ (wt * (1 - lam))
        H[:, k + 1] += B @ (wt * lam)
    return H

def trap_weights(xx):
    xx = np.asarray(xx, dtype=float)
    w = np.zeros(len(xx))
    d = np.diff(xx)
    w[:-1] += d / 2; w[1:] += d / 2
    return w

def contract(phi, mats):
    """Sum_k phi[k1..kd] prod_a mats[a][i_a, k_a]"""
    out = np.asarray(phi, dtype=float)
    for a, M in enumerate(mats):
        out = np.moveaxis(np.tensordot(M, out, axes=([1], [a])), 0, a)
    return out

def ref_analytic(phi, ns, grids):
    """exact integral of the binomial sampling probabilities against the multilinear interpolant (grids clamped to [0,1],
    as the sampling probability is only defined there)"""
    return contract(phi, [hat_moments(n, np.clip(g, 0, 1)) for n, g in zip(ns, grids)])

def ref_direct(phi, ns, grids, het=None):
    """literal trapezoid rule of (binomial probability [x ascertainment weight]) x phi"""
    mats = []
    for a, (n, g) in enumerate(zip(ns, grids)):
        g = np.asarray(g, dtype=float)
        B = binom_pmf(n, g)
        if het is not None and het == HETKEYS[a]:
            B = B * (g * (1 - g))
        mats.append(B * trap_weights(g))
    return contract(phi, mats)

def trap_mass(phi, grids, weights=None):
    out = np.asarray(phi, dtype=float)
    for a, g in enumerate(grids):
        w = trap_weights(g)
        if weights is not None and weights[a] is not None:
            w = w * weights[a]
        out = np.tensordot(w, out, axes=([0], [0]))
    return float(out)

def ref_admix(phi, ns, grids, props):
    d = len(ns)
    grids = [np.asarray(g, dtype=float) for g in grids]
    mesh = np.meshgrid(*grids, indexing='ij')
    W = np.ones(phi.shape)
    for a, g in enumerate(grids):
        sh = [1] * d; sh[a] = len(g)
        W = W * trap_weights(g).reshape(sh)
    xad = [sum(props[r][b] * mesh[b] for b in range(d)) for r in range(d)]
    facs = [[math.comb(ns[r], i) * xad[r] ** i * (1 - xad[r]) ** (ns[r] - i) for i in range(ns[r] + 1)] for r in range(d)]
    out = np.zeros([n + 1 for n in ns])
    base = W * phi
    for idx in itertools.product(*[range(n + 1) for n in ns]):
        f = base
        for r in range(d):
            f = f * facs[r][idx[r]]
        out[idx] = f.sum()
    return out

def betabinom_pmf(P, a, b):
    """pmf of one individual's allele count (ploidy P) under the beta-binomial(a, b), via log-gamma"""
    i = np.arange(P + 1)
    lg = math.lgamma
    return np.array([math.exp(lg(P + 1) - lg(k + 1) - lg(P - k + 1) + lg(k + a) + lg(P - k + b) - lg(P + a + b)
                              + lg(a + b) - lg(a) - lg(b)) for k in i])

def inbred_pmf(n, P, F, x):
    """P(i derived alleles among n chromosomes = n/P individuals | frequency x, inbreeding F): the n/P-fold convolution of
    the single-individual beta-binomial; point masses at x = 0, 1; binomial at F = 0"""
    if F == 0:
        return binom_pmf(n, np.array([x]))[:, 0]
    if x <= 0:
        out = np.zeros(n + 1); out[0] = 1.0; return out
    if x >= 1:
        out = np.zeros(n + 1); out[n] = 1.0; return out
    c = (1.0 - F) / F
    one = betabinom_pmf(P, x * c, (1 - x) * c)
    out = np.array([1.0])
    for _ in range(n // P):
        out = np.convolve(out, one)
    return out

def ref_inbreeding(phi, ns, grids, Fs, pls, het=None):
    mats = []
    for a, (n, g) in enumerate(zip(ns, grids)):
        g = np.asarray(g, dtype=float)
        B = np.array([inbred_pmf(n, pls[a], Fs[a], x if 0 < k < len(g) - 1 else (0.0 if k == 0 else 1.0)) for k, x in enumerate(g)]).T
        if het is not None and het == HETKEYS[a]:
            B = B * (g * (1 - g))
        mats.append(B * trap_weights(g))
    return contract(phi, mats)

def hyp_matrix(n, m):
    M = np.zeros((n + 1, m + 1))
    for i in range(n + 1):
        for j in range(max(0, m - (n - i)), min(i, m) + 1):
            M[i, j] = math.comb(m, j) * math.comb(n - m, i - j) / math.comb(n, i)
    return M

# =========================================================================== generators
DIMS_W = {'quick': [1, 1, 1, 2, 2, 2, 3, 3, 4, 5], 'thorough': [1, 1, 1, 2, 2, 2, 3, 3, 3, 4, 4, 5]}
NMAX = {'quick': {1: 40, 2: 16, 3: 6, 4: 3, 5: 2}, 'thorough': {1: 40, 2: 40, 3: 10, 4: 5, 5: 4}}
PTS = {'quick': {1: (3, 24), 2: (3, 10), 3: (3, 6), 4: (3, 4), 5: (3, 4)}, 'thorough': {1: (3, 40), 2: (3, 14), 3: (3, 8), 4: (3, 5), 5: (3, 5)}}

def gen_grid(rng, N, bits):
    kind = ['uniform', 'dadi', 'quadratic', 'random', 'random'][int(rng.integers(5))]
    if kind == 'dadi':
        crwd = 8.0
        unif = np.linspace(-1, 1, N)
        g = 1. / (1. + np.exp(-crwd * unif)); g = (g - g[0]) / (g[-1] - g[0])
    else:
        g, kind = gen.grid(rng, N, kind)
    g = np.array(g, dtype=float)
    if bits:
        g = gen.coarse(g, bits)
        g = np.maximum.accumulate(g)
        for k in range(1, N):                  # keep nodes distinct after coarsening
            if g[k] <= g[k - 1]:
                g[k] = g[k - 1] + 2.0 ** -bits
        g = g / g[-1] if g[-1] != 1.0 else g
        g = gen.coarse(g, bits)
    g[0] = 0.0; g[-1] = 1.0
    return g, kind

PHI_KINDS = ['random', 'random', 'smooth', 'spiky', 'neutral-like', 'const', 'signed', 'zero-edges']
def gen_phi(rng, grids, bits, kind=None):
    kind = kind or PHI_KINDS[int(rng.integers(len(PHI_KINDS)))]
    shape = [len(g) for g in grids]
    d = len(grids)
    if kind == 'random':
        phi = rng.uniform(0, 1, shape) ** 3 * 10
    elif kind == 'smooth':
        phi = np.ones(shape)
        for a, g in enumerate(grids):
            c = rng.uniform(0.2, 2.0, 3)
            sh = [1] * d; sh[a] = len(g)
            phi = phi * (c[0] + c[1] * g + c[2] * g * (1 - g)).reshape(sh)
    elif kind == 'spiky':
        phi = gen.density(rng, tuple(shape))
    elif kind == 'neutral-like':
        phi = np.ones(shape)
        for a, g in enumerate(grids):
            sh = [1] * d; sh[a] = len(g)
            v = 1.0 / np.maximum(g, g[1] / 2)
            phi = phi * v.reshape(sh)
    elif kind == 'const':
        phi = np.full(shape, float(rng.uniform(0.5, 3)))
    elif kind == 'signed':
        phi = rng.uniform(-1, 1, shape) * 5
    else:
        phi = rng.uniform(0, 5, shape)
        for a in range(d):
            sl = [slice(None)] * d; sl[a] = 0; phi[tuple(sl)] = 0
            sl[a] = -1; phi[tuple(sl)] = 0
    phi = np.ascontiguousarray(phi, dtype=float)
    if bits:
        phi = gen.coarse(phi, bits)
    return phi, kind

def gen_n(rng, hi):
    r = rng.random()
    if r < 0.12: return 1
    if r < 0.22: return 2
    if r < 0.32: return hi
    return int(rng.integers(1, hi + 1))

def overshoot(rng, g):
    """end points moved outside [0,1] by 1e-16 (what accumulated round-off in a grid constructor produces)"""
    g = np.array(g, dtype=float)
    mode = ['both', 'low', 'high'][int(rng.integers(3))]
    if mode in ('both', 'low'):
        g[0] = -1e-16
    if mode in ('both', 'high'):
        g[-1] = 1.0 + 2.220446049250313e-16
    return g, mode

def gen_case(rng, tier, d=None, path=None, big=False):
    """one `from_phi` call: dimension, sample sizes, grids, density, options"""
    if d is None:
        d = int(rng.choice(DIMS_W[tier]))
    if path is None:
        r = rng.random()
        if d == 5:
            path = 'analytic'
        elif d == 1:
            path = 'analytic' if r < 0.5 else ('direct' if r < 0.75 else 'het')
        else:
            path = 'analytic' if r < 0.4 else ('direct' if r < 0.6 else ('het' if r < 0.8 else 'admix'))
    full = bool(rng.random() < 0.12)              # full double precision grid/density (larger rationals in the model)
    bits = 0 if full else int(rng.choice([12, 16, 20]))
    lo, hi = PTS[tier][d]
    nmax = NMAX[tier][d]
    if path == 'admix':
        nmax = {2: min(nmax, 6), 3: 3, 4: 2}[d]; hi = {2: min(hi, 7), 3: 5, 4: 4}[d]
    if full:
        nmax = min(nmax, {1: 20, 2: 8, 3: 4, 4: 2, 5: 2}[d]); hi = min(hi, {1: 12, 2: 7, 3: 5, 4: 4, 5: 3}[d] + 0)
    if big and d <= 2:
        ns = [40] * d
    else:
        ns = [gen_n(rng, nmax) for _ in range(d)]
    N = int(rng.integers(lo, hi + 1))
    same = (path == 'analytic' and d >= 2) or rng.random() < 0.7
    g0, kind0 = gen_grid(rng, N, bits)
    grids = [g0.copy()]
    kinds = [kind0]
    for a in range(1, d):
        if same or (path == 'analytic' and a == 1):
            grids.append(g0.copy()); kinds.append(kind0)
        else:
            Na = int(rng.integers(lo, hi + 1))
            g, k = gen_grid(rng, Na, bits)
            grids.append(g); kinds.append(k)
    if path == 'analytic' and d >= 3 and rng.random() < 0.3:
        # axes 2.. may use their own grid (only xx == yy is required)
        for a in range(2, d):
            g, k = gen_grid(rng, int(rng.integers(lo, hi + 1)), bits)
            grids[a] = g; kinds[a] = k
    over = None
    if rng.random() < 0.15:
        a = int(rng.integers(d))
        g, over = overshoot(rng, grids[a])
        if path == 'analytic' and d >= 2 and a <= 1:
            grids[0] = g.copy(); grids[1] = g.copy()
        else:
            grids[a] = g
    phi, pk = gen_phi(rng, [np.clip(g, 0, 1) for g in grids], bits)
    het = None; props = None; force = False
    if path == 'direct':
        force = True
    elif path == 'het':
        het = HETKEYS[int(rng.integers(min(d, 3)))]
        force = bool(rng.random() < 0.3)
    elif path == 'admix':
        props = gen_props(rng, d)
        force = bool(rng.random() < 0.3)
    return dict(kind='from_phi', d=d, path=path, ns=ns, grids=grids, phi=phi, het=het, props=props, force=force,
                mask_corners=bool(rng.random() < 0.5), pop_ids=(['p%d' % k for k in range(d)] if rng.random() < 0.5 else None),
                grid_kinds=kinds, phi_kind=pk, overshoot=over, bits=bits)

def sibling_case(rng, c):
    """same call on a grid that shares length, end points, first and last interior point with the grid of `c` but differs in
    between (what a cheap cache key / fingerprint of the grid would confuse), same sample sizes, fresh density"""
    c2 = dict(c)
    grids = []
    for g in c['grids']:
        g = np.array(g, dtype=float)
        N = len(g)
        if N >= 5:
            h = g.copy()
            for k in range(2, N - 2):
                lo, hi = h[k - 1], g[k + 1]
                t = float(rng.uniform(0.25, 0.75))
                v = lo + t * (hi - lo)
                if c.get('bits'):
                    v = float(gen.round_sig(v, c['bits']))
                if lo < v < hi and v != g[k]:
                    h[k] = v
            grids.append(h)
        else:
            grids.append(g)
    if c['path'] == 'analytic' and c['d'] >= 2:
        grids[1] = grids[0].copy()
    c2['grids'] = grids
    c2['phi'], c2['phi_kind'] = gen_phi(rng, [np.clip(g, 0, 1) for g in grids], c.get('bits') or 0)
    c2['sibling'] = True
    c2['after_grids'] = [[float(v) for v in g] for g in c['grids']]     # the call that came first (replayed with the case)
    return c2

def gen_props(rng, d, identity=None):
    if identity is None:
        identity = rng.random() < 0.2
    if identity:
        return [[1.0 if i == j else 0.0 for j in range(d)] for i in range(d)]
    rows = []
    for i in range(d):
        r = rng.random()
        if r < 0.3:
            row = [1.0 if i == j else 0.0 for j in range(d)]
        else:
            # multiples of 1/16: rows sum to exactly 1 in floating point
            cuts = sorted(int(c) for c in rng.integers(0, 17, d - 1))
            parts = [b - a for a, b in zip([0] + cuts, cuts + [16])]
            row = [p / 16.0 for p in parts]
        rows.append(row)
    return rows

def small(c):
    out = {k: v for k, v in c.items() if not k.startswith('_')}
    if out.get('history'):
        out['history'] = [small(h) for h in out['history']]
    for k in ('phi',):
        if k in out: out[k] = np.asarray(out[k], dtype=float)
    out['grids'] = [[float(v) for v in g] for g in c['grids']]
    return out

def from_json(inp):
    c = dict(inp)
    def arr(o):
        return np.array(o['data'], dtype=float).reshape(o['shape']) if isinstance(o, dict) else np.array(o, dtype=float)
    if 'phi' in c: c['phi'] = arr(c['phi'])
    if 'psi' in c: c['psi'] = arr(c['psi'])
    if 'grids' in c: c['grids'] = [np.array(g, dtype=float) for g in c['grids']]
    if c.get('after_grids'): c['after_grids'] = [[float(v) for v in g] for g in c['after_grids']]
    if c.get('history'): c['history'] = [from_json(h) for h in c['history']]
    for k in ('over',):
        if c.get(k) is not None: c[k] = [int(v) for v in c[k]]
    return c

# =========================================================================== calling the implementation
class Recorder:
    """records which private `_from_phi_*` function `from_phi` dispatches to (first call only)"""
    def __init__(self, dadi):
        self.S = dadi.Spectrum_mod.Spectrum
        self.names = [n for n in dir(self.S) if n.startswith('_from_phi_')]
        self.orig = {}
        self.first = None
    def __enter__(self):
        for n in self.names:
            f = getattr(self.S, n)
            self.orig[n] = self.S.__dict__[n]
            def mk(n, f):
                def w(*a, **k):
                    if self.first is None:
                        self.first = n
                    return f(*a, **k)
                return staticmethod(w)
            setattr(self.S, n, mk(n, f))
        return self
    def __exit__(self, *a):
        for n, o in self.orig.items():
            setattr(self.S, n, o)

def call_from_phi(dadi, c, phi=None, record=False, mask_corners=None):
    """-> dict(fs=…, err=None, fn=…) or dict(fs=None, err='ValueError', msg=…)"""
    S = dadi.Spectrum
    props = tuple(tuple(r) for r in c['props']) if c.get('props') is not None else None
    kw = dict(mask_corners=c.get('mask_corners', False) if mask_corners is None else mask_corners, pop_ids=c.get('pop_ids'),
              admix_props=props, het_ascertained=c.get('het'), force_direct=bool(c.get('force')))
    ph = np.array(c['phi'] if phi is None else phi, dtype=float)
    # `_live_grids`: the caller's own grid objects, passed to every call of a session as a user script does
    grids = c['_live_grids'] if c.get('_live_grids') is not None else [np.array(g, dtype=float) for g in c['grids']]
    fn = None
    try:
        with np.errstate(all='ignore'):
            if record:
                with Recorder(dadi) as r:
                    fs = S.from_phi(ph, list(c['ns']), grids, **kw)
                fn = r.first
            else:
                fs = S.from_phi(ph, list(c['ns']), grids, **kw)
        return dict(fs=fs, err=None, fn=fn)
    except Exception as e:
        return dict(fs=None, err=type(e).__name__, msg=str(e)[:200], fn=fn)

def corner_mask(shape):
    m = np.zeros(shape, dtype=bool)
    m[tuple([0] * len(shape))] = True
    m[tuple([s - 1 for s in shape])] = True
    return m

# =========================================================================== the model
def props_tok(props):
    return fmt_nd(np.array(props, dtype=float)) if props is not None else '-'

def model_from_phi(drv, c):
    line = 'fromphi %s %d %s %s %s %s' % (c.get('het') or '-', int(bool(c.get('force'))), ','.join(str(int(n)) for n in c['ns']) or '-',
                                          fmt_grids(c['grids']), fmt_nd(c['phi']), props_tok(c.get('props')))
    out = drv.ask(line)
    if out.startswith('ok '):
        _, fn, ex, nd = out.split(' ')
        arr, _ = parse_nd(nd)
        return dict(fn=fn, extrap_x=float(Fraction(ex)), data=arr, err=None)
    return dict(err=out[4:] if out.startswith('err ') else out, data=None)

def err_class(e):
    return None if e is None else e.split(':')[0]

# =========================================================================== one from_phi case: K + L3
def check_from_phi(chk, ctx, c, do_model=True):
    dadi = ctx['dadi']
    inp = small(c)
    d = c['d']; ns = list(c['ns']); grids = c['grids']; phi = np.asarray(c['phi'], dtype=float)
    if c.get('after_grids'):
        # the same call on the look-alike grid that preceded this one in the run (warms every per-grid cache)
        g0 = [np.array(g, dtype=float) for g in c['after_grids']]
        call_from_phi(dadi, dict(c, grids=g0, phi=np.ones([len(g) for g in g0])))
    res = call_from_phi(dadi, c, record=True)
    key = ('from_phi', d, c['path'], c.get('het'), bool(c.get('force')), c.get('overshoot'), c.get('phi_kind'), max(ns) >= 20)
    chk.l3(key)
    chk.stat('dim:%d' % d); chk.stat('path:%s' % c['path']); chk.stat('phi:%s' % c.get('phi_kind'))
    if c.get('overshoot'): chk.stat('overshoot:%s' % c['overshoot'])
    if c.get('bits') == 0: chk.stat('full-precision')
    for n in ns:
        chk.stat('n:1' if n == 1 else ('n:2' if n == 2 else ('n:>=20' if n >= 20 else 'n:3..19')))
    for k in c.get('grid_kinds', []): chk.stat('grid:%s' % k)
    tag = '%dD:%s' % (d, c['path'])
    if res['err'] is not None:
        chk.fail('from_phi:%s:raises:%s' % (tag, res['err']), 'from_phi(%dD, ns=%r, path=%s, het=%r, force=%r) raises %s: %s'
                 % (d, ns, c['path'], c.get('het'), c.get('force'), res['err'], res.get('msg')), inp)
    else:
        fs = res['fs']
        data = np.asarray(fs.data, dtype=float)
        shape_ok = tuple(data.shape) == tuple(n + 1 for n in ns)
        if not shape_ok:
            chk.fail('from_phi:%s:shape' % tag, 'result shape %r for ns=%r' % (data.shape, ns), inp)
        elif not np.all(np.isfinite(data)):
            chk.fail('from_phi:%s:nonfinite' % tag, 'from_phi returns %d non-finite entries (ns=%r, grid over-shoot %r)'
                     % (int(np.sum(~np.isfinite(data))), ns, c.get('overshoot')), inp)
        else:
            l3_values(chk, ctx, c, data, inp, tag)
        # bookkeeping
        want_mask = corner_mask(data.shape) if c.get('mask_corners') else np.zeros(data.shape, dtype=bool)
        if shape_ok and not np.array_equal(np.ma.getmaskarray(fs), want_mask):
            chk.fail('from_phi:mask_corners', 'mask_corners=%r but masked entries are %r' % (c.get('mask_corners'),
                     np.argwhere(np.ma.getmaskarray(fs)).tolist()[:6]), inp)
        if fs.pop_ids != c.get('pop_ids'):
            chk.fail('from_phi:pop_ids', 'pop_ids %r, requested %r' % (fs.pop_ids, c.get('pop_ids')), inp)
        if not (fs.extrap_x == grids[0][1]):
            chk.fail('from_phi:extrap_x', 'extrap_x %r, first interior point of the first grid is %r' % (fs.extrap_x, grids[0][1]), inp)
        if getattr(fs, 'folded', False):
            chk.fail('from_phi:folded', 'a freshly sampled spectrum is marked folded', inp)
    # ---- K
    if do_model and have_driver(ctx):
        m = model_from_phi(ctx['driver'], c)
        op = 'from_phi:%s' % tag
        if m['err'] is not None or res['err'] is not None:
            if err_class(m['err']) == res['err']:
                chk.k_ok(op + ':refusal')
            else:
                chk.k_bad(op, inp, res['err'] or 'a spectrum', m['err'] or 'a spectrum', None)
        else:
            data = np.asarray(res['fs'].data, dtype=float)
            ok, err, scale = close(data, m['data'], rtol=RTOL)
            same_fn = (res['fn'] == m['fn'])
            same_ex = (float(res['fs'].extrap_x) == m['extrap_x'])
            if ok and same_fn and same_ex:
                chk.k_ok(op)
            else:
                chk.k_bad(op, inp, dict(fn=res['fn'], extrap_x=float(res['fs'].extrap_x), data=data),
                          dict(fn=m['fn'], extrap_x=m['extrap_x'], data=m['data']), err)
    chk.sample(dict(op='from_phi', d=d, ns=ns, pts=[len(g) for g in grids], path=c['path'], het=c.get('het'), force=c.get('force'),
                    overshoot=c.get('overshoot'), dispatched=res.get('fn'), error=res['err']))
    return res

def l3_values(chk, ctx, c, data, inp, tag):
    """the property statement on one result"""
    d = c['d']; ns = list(c['ns']); grids = c['grids']; phi = np.asarray(c['phi'], dtype=float)
    path = c['path']
    cg = [np.clip(np.asarray(g, dtype=float), 0, 1) for g in grids]
    if path == 'analytic':
        ref = ref_analytic(phi, ns, grids)
        what = 'the Gauss-Legendre integral of (binomial sampling probability) x (multilinear interpolant of phi)'
        mass = trap_mass(phi, cg)
    elif path in ('direct', 'het'):
        ref = ref_direct(phi, ns, grids, c.get('het'))
        what = 'the trapezoid rule of (binomial sampling probability%s) x phi' % (' x x(1-x) on the ascertained axis' if c.get('het') else '')
        wts = [None] * d
        if c.get('het'):
            a = HETKEYS.index(c['het'])
            if a < d:
                wts[a] = np.asarray(grids[a]) * (1 - np.asarray(grids[a]))
        mass = trap_mass(phi, grids, wts)
    else:
        ref = ref_admix(phi, ns, grids, c['props'])
        what = 'the trapezoid rule of (product of binomial probabilities at the admixed frequencies) x phi'
        mass = trap_mass(phi, grids)
    scale = float(np.max(np.abs(ref))) if ref.size else 0.0
    tol = RTOL * max(scale, float(np.max(np.abs(phi))) * 1e-3)
    err = float(np.max(np.abs(data - ref)))
    if err > tol:
        bad = np.unravel_index(int(np.argmax(np.abs(data - ref))), data.shape)
        chk.fail('from_phi:%s:value' % tag, 'entry %r is %r; %s gives %r (max error %.3g, scale %.3g)'
                 % (list(map(int, bad)), float(data[bad]), what, float(ref[bad]), err, scale), inp)
    # total = trapezoid mass (sampling probabilities sum to one at every frequency)
    tot = float(data.sum())
    mscale = max(abs(mass), float(np.sum(np.abs(data))), 1e-300)
    if abs(tot - mass) > RTOL * mscale * 10:
        chk.fail('from_phi:%s:mass' % tag, 'sum of all entries %r, trapezoid mass of phi%s %r' % (tot, ' x x(1-x)' if c.get('het') else '', mass), inp)

# =========================================================================== metamorphic L3 on the public entry
def l3_metamorphic(chk, ctx, c):
    """projection consistency, marginalisation, linearity (semi-analytic and direct paths)"""
    dadi = ctx['dadi']; rng = ctx['_rng']
    d = c['d']; ns = list(c['ns']); grids = c['grids']
    inp = small(c)
    base = call_from_phi(dadi, c, mask_corners=False)
    if base['err'] is not None:
        return
    fs = base['fs']
    data = np.asarray(fs.data, dtype=float)
    if not np.all(np.isfinite(data)):
        return
    scale = float(np.max(np.abs(data))) or 1.0
    tag = '%dD:%s' % (d, c['path'])
    # ---- linearity
    psi, _ = gen_phi(rng, [np.clip(g, 0, 1) for g in grids], c.get('bits') or 0)
    a, b = float(gen.round_sig(float(rng.uniform(-2, 3)), 12)), float(gen.round_sig(float(rng.uniform(-2, 3)), 12))
    r2 = call_from_phi(dadi, c, phi=psi, mask_corners=False)
    r3 = call_from_phi(dadi, c, phi=a * np.asarray(c['phi']) + b * psi, mask_corners=False)
    chk.l3(('linear', d, c['path']))
    if r2['err'] or r3['err']:
        chk.fail('from_phi:%s:linear:raises' % tag, 'from_phi raises on a linear combination of densities: %r %r' % (r2['err'], r3['err']), dict(inp, psi=psi, a=a, b=b, kind='linear'))
    else:
        lin = a * data + b * np.asarray(r2['fs'].data)
        sc = max(float(np.max(np.abs(lin))), abs(a) * scale, abs(b) * float(np.max(np.abs(np.asarray(r2['fs'].data)))), 1e-300)
        e = float(np.max(np.abs(np.asarray(r3['fs'].data) - lin)))
        if not e <= 1e-9 * sc:
            chk.fail('from_phi:%s:linear' % tag, 'from_phi(a phi + b psi) differs from a from_phi(phi) + b from_phi(psi) by %.3g (scale %.3g)' % (e, sc),
                     dict(inp, psi=psi, a=a, b=b, kind='linear'))
    if c['path'] not in ('analytic',):
        return
    # ---- sample n then project to m = sample m
    ms = [int(rng.integers(1, n + 1)) if rng.random() < 0.7 else n for n in ns]
    if ms != ns:
        cm = dict(c, ns=ms)
        rm = call_from_phi(dadi, cm, mask_corners=False)
        chk.l3(('project', d, tuple(n == m for n, m in zip(ns, ms))))
        try:
            pr = fs.project(ms)
            perr = None
        except Exception as e:
            pr = None; perr = repr(e)
        if rm['err'] or pr is None:
            chk.fail('from_phi:%s:project:raises' % tag, 'sampling %r / projecting to %r raises (%r, %r)' % (ns, ms, rm['err'], perr), dict(inp, ms=ms, kind='project'))
        else:
            A = np.asarray(pr.data, dtype=float); B = np.asarray(rm['fs'].data, dtype=float)
            # independent projection (hypergeometric weights), so a defect of Spectrum.project does not mask one of from_phi
            ref = contract(data, [hyp_matrix(n, m).T for n, m in zip(ns, ms)])
            sc = float(np.max(np.abs(B))) or 1.0
            e1 = float(np.max(np.abs(ref - B)))
            if not e1 <= 1e-9 * max(sc, scale):
                bad = np.unravel_index(int(np.argmax(np.abs(ref - B))), B.shape)
                chk.fail('from_phi:%s:project' % tag, 'sampling %r and projecting (hypergeometrically) to %r differs from sampling %r at entry %r: %r vs %r (max %.3g, scale %.3g)'
                         % (ns, ms, ms, list(map(int, bad)), float(ref[bad]), float(B[bad]), e1, sc), dict(inp, ms=ms, kind='project'))
            e2 = float(np.max(np.abs(A - B)))
            if not e2 <= 1e-9 * max(sc, scale) and e1 <= 1e-9 * max(sc, scale):
                chk.notes.append('Spectrum.project disagrees with the hypergeometric projection by %.3g on %r -> %r (C08 territory)' % (e2, ns, ms))
    # ---- marginalise a population before / after sampling
    if d >= 2:
        a = int(rng.integers(d))
        keep = [k for k in range(d) if k != a]
        phim = np.trapezoid(np.asarray(c['phi'], dtype=float), np.clip(grids[a], 0, 1), axis=a)
        cm = dict(c, d=d - 1, ns=[ns[k] for k in keep], grids=[grids[k] for k in keep], phi=phim, pop_ids=None)
        ok_grids = (d - 1 == 1) or (len(cm['grids'][0]) == len(cm['grids'][1]) and np.allclose(cm['grids'][0], cm['grids'][1]))
        if ok_grids:
            rm = call_from_phi(dadi, cm, mask_corners=False)
            chk.l3(('marginal', d, a))
            summed = data.sum(axis=a)
            if rm['err']:
                chk.fail('from_phi:%s:marginal:raises' % tag, 'sampling the marginal density raises %s' % rm['err'], dict(inp, axis=a, kind='marginal'))
            else:
                B = np.asarray(rm['fs'].data, dtype=float)
                sc = max(float(np.max(np.abs(B))), float(np.max(np.abs(summed))), 1e-300)
                e = float(np.max(np.abs(summed - B)))
                if not e <= 1e-9 * sc:
                    chk.fail('from_phi:%s:marginal' % tag, 'summing the spectrum over population %d differs from sampling the density integrated over that axis by %.3g (scale %.3g)'
                             % (a, e, sc), dict(inp, axis=a, kind='marginal'))
            # and through Spectrum.marginalize (masked corners): the unmasked entries agree
            try:
                fm = dadi.Spectrum(data, mask_corners=False).marginalize([a])
                if not rm['err'] and float(np.max(np.abs(np.asarray(fm.data) - B))) > 1e-9 * sc:
                    chk.fail('from_phi:%s:marginalize' % tag, 'Spectrum.marginalize([%d]) of the sampled spectrum differs from sampling the marginal density' % a, dict(inp, axis=a, kind='marginal'))
            except Exception as e:
                chk.notes.append('Spectrum.marginalize raised %r' % (e,))

def l3_paths_agree(chk, ctx, rng, count):
    """admix with identity proportions = direct (same quadrature); direct -> semi-analytic under grid refinement"""
    dadi = ctx['dadi']
    for it in range(count):
        d = [2, 2, 3, 4][it % 4]
        c = gen_case(rng, ctx['tier'], d=d, path='admix')
        c['props'] = gen_props(rng, d, identity=True)
        c['mask_corners'] = False
        cd = dict(c, props=None, force=True, path='direct')
        ra = call_from_phi(dadi, c); rd = call_from_phi(dadi, cd)
        chk.l3(('admix-identity', d))
        inp = dict(small(c), kind='admix-identity')
        if ra['err'] or rd['err']:
            chk.fail('from_phi:admix-identity:raises', 'identity admix_props / force_direct raise %r / %r' % (ra['err'], rd['err']), inp)
            continue
        A = np.asarray(ra['fs'].data); D = np.asarray(rd['fs'].data)
        sc = float(np.max(np.abs(D))) or 1.0
        e = float(np.max(np.abs(A - D)))
        if not e <= 1e-9 * sc:
            chk.fail('from_phi:admix-identity', 'admix_props = identity differs from the direct path by %.3g (scale %.3g) in %d dimensions' % (e, sc, d), inp)
    # refinement: |direct - analytic| -> 0 like h^2 on a smooth density
    for it in range(max(2, count // 3)):
        d = [1, 2, 1, 3][it % 4]
        n = int(rng.integers(2, 9))
        N0 = {1: 33, 2: 17, 3: 9}[d]
        coef = [rng.uniform(0.3, 2.0, 3) for _ in range(d)]
        diffs = []
        for N in (N0, 2 * N0 - 1):
            g = dadi.Numerics.default_grid(N)
            phi = np.ones([N] * d)
            for a in range(d):
                sh = [1] * d; sh[a] = N
                phi = phi * (coef[a][0] + coef[a][1] * g + coef[a][2] * g * g).reshape(sh)
            cc = dict(kind='from_phi', d=d, path='analytic', ns=[n] * d, grids=[g] * d, phi=phi, het=None, props=None, force=False, mask_corners=False)
            ra = call_from_phi(dadi, cc); rd = call_from_phi(dadi, dict(cc, force=True))
            if ra['err'] or rd['err']:
                chk.fail('from_phi:refine:raises', 'raises %r / %r' % (ra['err'], rd['err']), dict(small(cc), kind='refine')); diffs = None; break
            A = np.asarray(ra['fs'].data); D = np.asarray(rd['fs'].data)
            diffs.append(float(np.max(np.abs(A - D))) / (float(np.max(np.abs(A))) or 1.0))
        chk.l3(('refine', d, n))
        if diffs is not None:
            if not (diffs[1] <= diffs[0] / 2.5 + 1e-12 and (d > 1 or diffs[1] < 0.05)):
                chk.fail('from_phi:direct-vs-analytic', 'direct and semi-analytic paths do not converge: relative difference %.3g at %d points, %.3g at %d points (n=%d, %dD)'
                         % (diffs[0], N0, diffs[1], 2 * N0 - 1, n, d), dict(kind='refine', d=d, n=n, N0=N0, coef=[list(map(float, cf)) for cf in coef]))

# =========================================================================== round 5: large over-shoot, proved bounds
def k_overshoot_big(chk, ctx, rng, count):
    """semi-analytic path on grids that leave [0,1] by 1e-3 … 2^-8 at one or both ends.  At 1e-16 the copy of the grid a statement
    reads makes no measurable difference; here it does, so K pins every entry of the generated `clampTable` (1-D: slopes and c1
    from the clamped copy; 2-D…: from the caller's array; betainc always on the clamped copy) and L3 compares with the integral
    the theorems name (C05_1D_exact on the clamped grid; C05_ND_clamp_exact: interpolant on the caller's grid, integrated over the
    part of each interval inside [0,1])."""
    for it in range(count):
        d = [1, 2, 1, 3, 2][it % 5]
        N = int(rng.integers(3, {1: 9, 2: 6, 3: 4}[d] + 1))
        g, _ = gen_grid(rng, N, 12)
        delta = [1e-3, 2.0 ** -8, 2.0 ** -10][it % 3]
        mode = ['both', 'low', 'high'][(it // 3) % 3]
        g = np.array(g, dtype=float)
        if mode in ('both', 'low'): g[0] = -delta
        if mode in ('both', 'high'): g[-1] = 1.0 + delta
        grids = [g.copy() for _ in range(d)]
        if d == 3 and it % 2:
            grids[2] = gen_grid(rng, N, 12)[0]                     # third axis on an ordinary grid
        ns = [int(rng.integers(1, {1: 12, 2: 6, 3: 3}[d] + 1)) for _ in range(d)]
        phi, pk = gen_phi(rng, [np.clip(x, 0, 1) for x in grids], 12, kind=['random', 'smooth', 'signed'][it % 3])
        c = dict(kind='overshoot-large', d=d, path='analytic', ns=ns, grids=grids, phi=phi, het=None, props=None, force=False,
                 mask_corners=False, pop_ids=None, overshoot='large:%s:%g' % (mode, delta), phi_kind=pk, bits=12)
        check_overshoot_big(chk, ctx, c)

def check_overshoot_big(chk, ctx, c):
    dadi = ctx['dadi']
    d = c['d']; ns = c['ns']; grids = c['grids']; phi = np.asarray(c['phi'], dtype=float)
    inp = small(c)
    res = call_from_phi(dadi, c, record=True)
    chk.l3(('overshoot-large', d, c['overshoot']))
    chk.stat('overshoot-large:%dD' % d)
    if res['err'] is not None:
        chk.fail('from_phi:%dD:analytic:overshoot-large:raises:%s' % (d, res['err']), 'from_phi on a grid leaving [0,1] (%s) raises %s: %s'
                 % (c['overshoot'], res['err'], res.get('msg')), inp)
        return
    data = np.asarray(res['fs'].data, dtype=float)
    if not np.all(np.isfinite(data)):
        chk.fail('from_phi:%dD:analytic:overshoot-large:nonfinite' % d, 'from_phi on a grid leaving [0,1] (%s) returns non-finite entries: a betainc argument '
                 'is not clamped' % c['overshoot'], inp)
    else:
        # The property text speaks of "the piecewise-linear interpolant of the density": on a grid leaving [0,1] that can be read on
        # the caller's nodes or on the clamped ones.  L3 accepts either reading (which one the code takes, statement by statement, is
        # pinned by K against the generated `clampTable`): 1-D takes the clamped grid, 2-D… the caller's (C05_ND_clamp_exact).
        refs = [contract(phi, [hat_moments(n, np.clip(g, 0, 1)) for n, g in zip(ns, grids)]),
                contract(phi, [hat_moments_overshoot(n, g) for n, g in zip(ns, grids)])]
        errs = [float(np.max(np.abs(data - r))) / (float(np.max(np.abs(r))) or 1.0) for r in refs]
        chk.stat('overshoot-large:reading:%s' % ('clamped' if errs[0] <= errs[1] else 'caller'))
        if not min(errs) <= 1e-9:
            chk.fail('from_phi:%dD:analytic:overshoot-large:value' % d, 'grid leaving [0,1] (%s): result differs by %.3g (relative) from the exact integral over [0,1] against the '
                     'interpolant on the clamped grid and by %.3g from the one on the caller\'s grid' % (c['overshoot'], errs[0], errs[1]), inp)
    if have_driver(ctx):
        m = model_from_phi(ctx['driver'], c)
        op = 'from_phi:%dD:analytic:overshoot-large' % d
        if m['err'] is not None:
            chk.k_bad(op, inp, 'a spectrum', m['err'], None)
        else:
            ok, err, _ = close(data, m['data'], rtol=RTOL)
            if ok and res['fn'] == m['fn']: chk.k_ok(op)
            else: chk.k_bad(op, inp, dict(fn=res['fn'], data=data), dict(fn=m['fn'], data=m['data']), err)

def l3_direct_bound(chk, ctx, rng, count):
    """the proved first-order bound between the direct and the semi-analytic path (C05_direct_vs_analytic_1D, _ND) on the real
    code: |direct[i] - analytic[i]| <= 2 C(n,i) n hmax * trapz(|phi|) in one dimension, and in two dimensions
    dvaErr = e0 (1 + e1) + e1 with e_a = 2 C(n_a, i_a) n_a hmax_a (entry-wise constants instead of the uniform 2^n)"""
    dadi = ctx['dadi']
    for it in range(count):
        d = 1 if it % 3 != 2 else 2
        N = {1: int(rng.integers(150, 500)), 2: int(rng.integers(30, 60))}[d]
        kind = ['uniform', 'dadi', 'random'][it % 3]
        if kind == 'dadi':
            g = dadi.Numerics.default_grid(N)
        elif kind == 'uniform':
            g = np.linspace(0, 1, N)
        else:
            g = np.sort(np.concatenate([[0.0, 1.0], rng.uniform(0, 1, N - 2)]))
            if np.any(np.diff(g) <= 0): g = np.linspace(0, 1, N)
        g = np.array(g, dtype=float); g[0] = 0.0; g[-1] = 1.0
        ns = [int(rng.integers(1, 7)) for _ in range(d)]
        phi, pk = gen_phi(rng, [g] * d, 0, kind=['random', 'signed', 'spiky', 'neutral-like'][it % 4])
        c = dict(kind='direct-bound', d=d, path='analytic', ns=ns, grids=[g.copy() for _ in range(d)], phi=phi, het=None, props=None, force=False, mask_corners=False)
        check_direct_bound(chk, ctx, c, (kind, pk))

def check_direct_bound(chk, ctx, c, tag=None):
    dadi = ctx['dadi']
    d = c['d']; ns = c['ns']; g = np.asarray(c['grids'][0], dtype=float); phi = np.asarray(c['phi'], dtype=float)
    ra = call_from_phi(dadi, dict(c, force=False, path='analytic')); rd = call_from_phi(dadi, dict(c, force=True, path='direct'))
    chk.l3(('direct-bound', d, tag))
    inp = small(c)
    if ra['err'] or rd['err']:
        chk.fail('from_phi:direct-bound:raises', 'raises %r / %r' % (ra['err'], rd['err']), inp); return
    A = np.asarray(ra['fs'].data, dtype=float); D = np.asarray(rd['fs'].data, dtype=float)
    hmax = float(np.max(np.diff(g)))
    mass = trap_mass(np.abs(phi), [g] * d)
    eps = [np.array([2.0 * math.comb(n, i) * n * hmax for i in range(n + 1)]) for n in ns]
    if d == 1:
        bound = eps[0] * mass
    else:
        bound = (eps[0][:, None] * (1 + eps[1][None, :]) + eps[1][None, :]) * mass
    viol = np.abs(A - D) - bound * (1 + 1e-9) - 1e-12 * mass
    if np.any(viol > 0):
        bad = np.unravel_index(int(np.argmax(viol)), A.shape)
        chk.fail('from_phi:%dD:direct-bound' % d, 'entry %r: direct %r, semi-analytic %r; the difference exceeds the proved bound %.3g (hmax %.3g, mass of |phi| %.3g, ns=%r)'
                 % (list(map(int, bad)), float(D[bad]), float(A[bad]), float(np.asarray(bound)[bad]), hmax, mass, ns), inp)

# =========================================================================== betainc, cached_dbeta
def k_betainc(chk, ctx, rng, count):
    """`scipy.special.betainc(a, b, x)` at the integer arguments the code uses = the binomial tail of the model"""
    if not have_driver(ctx): return
    from scipy.special import betainc
    drv = ctx['driver']
    for it in range(count):
        n = [1, 2, 5, 10, 20, 40, int(rng.integers(1, 41))][it % 7]
        dd = [0, n, n // 2, int(rng.integers(0, n + 1))][int(rng.integers(4))]
        second = bool(it % 2)
        a = dd + (2 if second else 1); b = n - dd + 1
        x = [0.0, 1.0, 2.0 ** -40, 1 - 2.0 ** -40, 0.5, float(rng.uniform(0, 1)), float(gen.round_sig(float(rng.uniform(0, 1)), 16)),
             float(np.exp(rng.uniform(-30, 0)))][int(rng.integers(8))]
        out = drv.ask('betainc %d %d %s' % (a, b, rat(x)))
        impl = float(betainc(a, b, x))
        inp = dict(kind='betainc', a=a, b=b, x=x)
        chk.l3(('betainc', n >= 20, x in (0.0, 1.0)))
        # the property needs: betainc = integral of the binomial density, i.e. the binomial tail
        tail = float(sum(Fraction(math.comb(a + b - 1, j)) * Fraction(x) ** j * (1 - Fraction(x)) ** (a + b - 1 - j) for j in range(a, a + b)))
        if not abs(impl - tail) <= 1e-9 * max(tail, 1e-300) + 1e-300:
            chk.fail('betainc:value', 'scipy.special.betainc(%d, %d, %r) = %r but the binomial tail is %r' % (a, b, x, impl, tail), inp)
        if out.startswith('ok '):
            mv = float(Fraction(out[3:]))
            if abs(impl - mv) <= 1e-9 * max(abs(mv), 1e-300) + 1e-300: chk.k_ok('betainc')
            else: chk.k_bad('betainc', inp, impl, mv, abs(impl - mv))
        else:
            chk.k_bad('betainc', inp, impl, out, None)

def k_dbeta(chk, ctx, rng, count):
    if not have_driver(ctx): return
    dadi = ctx['dadi']; SM = dadi.Spectrum_mod
    drv = ctx['driver']
    for it in range(count):
        n = [1, 2, 7, 20, int(rng.integers(1, 25))][it % 5]
        N = int(rng.integers(3, 12))
        g, _ = gen_grid(rng, N, int(rng.choice([12, 16, 20])))
        over = None
        if it % 3 == 0:
            g, over = overshoot(rng, g)
        miss = (n, tuple(g)) not in SM._dbeta_cache
        if it % 4 == 1:
            SM.cached_dbeta(n, g)            # warm: the compared call is a hit
            miss = False
        inp = dict(kind='dbeta', n=n, grid=[float(v) for v in g])
        try:
            d1, d2 = SM.cached_dbeta(n, g)
        except Exception as e:
            chk.fail('cached_dbeta:raises:%s' % type(e).__name__, 'cached_dbeta(%d, grid with over-shoot %r) raises %r' % (n, over, e), inp); continue
        chk.stat('dbeta_cache_miss' if miss else 'dbeta_cache_hit')
        if it % 2 == 0 and N >= 5 and over is None:
            # then a look-alike grid (same length, same first/last interior point): must get its own tables
            h = g.copy()
            for k in range(2, N - 2):
                h[k] = float(gen.round_sig(h[k - 1] + float(rng.uniform(0.3, 0.7)) * (g[k + 1] - h[k - 1]), 20))
            if np.all(np.diff(h) > 0):
                g = h
                inp = dict(kind='dbeta', n=n, grid=[float(v) for v in g], after_lookalike=True)
                d1, d2 = SM.cached_dbeta(n, g)
                chk.stat('dbeta_lookalike')
        out = drv.ask('dbeta %d %s' % (n, fmt_list(g)))
        if not out.startswith('ok '):
            chk.k_bad('cached_dbeta', inp, 'tables', out, None); continue
        t1, t2 = out[3:].split('|')
        m1 = np.array([[float(v) for v in parse_list(r)] for r in t1.split(';')])
        m2 = np.array([[float(v) for v in parse_list(r)] for r in t2.split(';')])
        ok1, e1, _ = close(d1, m1, rtol=RTOL, atol=1e-300); ok2, e2, _ = close(d2, m2, rtol=RTOL, atol=1e-300)
        if ok1 and ok2: chk.k_ok('cached_dbeta')
        else: chk.k_bad('cached_dbeta', inp, dict(dbeta1=np.asarray(d1), dbeta2=np.asarray(d2)), dict(dbeta1=m1, dbeta2=m2), max(e1, e2))

# =========================================================================== private functions outside the dispatch
def k_private(chk, ctx, rng, count):
    """functions / options `from_phi` cannot reach: 4-D direct with het 'aa', admix default (None) of the 3-D/4-D functions,
    the 1-D direct function with an option string of another axis"""
    if not have_driver(ctx): return
    dadi = ctx['dadi']; S = dadi.Spectrum; drv = ctx['driver']
    for it in range(count):
        mode = ['4D-aa', '3D-admix-none', '4D-admix-none', '1D-yy', '2D-direct-xx-grids-differ'][it % 5]
        if mode == '4D-aa':
            c = gen_case(rng, ctx['tier'], d=4, path='direct'); c['het'] = 'aa'; fname = '_from_phi_4D_direct'
            args = list(c['ns']) + c['grids'] + [c['phi']]; kw = dict(mask_corners=False, het_ascertained='aa')
        elif mode == '3D-admix-none':
            c = gen_case(rng, ctx['tier'], d=3, path='admix'); c['props'] = None; fname = '_from_phi_3D_admix_props'
            args = list(c['ns']) + c['grids'] + [c['phi']]; kw = dict(mask_corners=False, admix_props=None)
        elif mode == '4D-admix-none':
            c = gen_case(rng, ctx['tier'], d=4, path='admix'); c['props'] = None; fname = '_from_phi_4D_admix_props'
            args = list(c['ns']) + c['grids'] + [c['phi']]; kw = dict(mask_corners=False, admix_props=None)
        elif mode == '1D-yy':
            c = gen_case(rng, ctx['tier'], d=1, path='het'); c['het'] = 'yy'; fname = '_from_phi_1D_direct'
            args = [c['ns'][0], c['grids'][0], c['phi']]; kw = dict(mask_corners=False, het_ascertained='yy')
        else:
            c = gen_case(rng, ctx['tier'], d=2, path='het'); c['het'] = 'xx'; fname = '_from_phi_2D_direct'
            g2, _ = gen_grid(rng, len(c['grids'][1]), 16); c['grids'][1] = g2
            args = list(c['ns']) + c['grids'] + [c['phi']]; kw = dict(mask_corners=False, het_ascertained='xx')
        inp = dict(small(c), kind='private', fname=fname, mode=mode)
        try:
            with np.errstate(all='ignore'):
                fs = getattr(S, fname)(*args, **kw)
            impl = np.asarray(fs.data, dtype=float); ierr = None
        except Exception as e:
            impl = None; ierr = type(e).__name__
        out = drv.ask('call %s %s %s %s %s %s' % (fname, c.get('het') or '-', ','.join(map(str, c['ns'])), fmt_grids(c['grids']), fmt_nd(c['phi']), props_tok(c.get('props'))))
        chk.l3(('private', mode))
        if impl is not None:
            ref = ref_direct(c['phi'], c['ns'], c['grids'], c.get('het')) if 'direct' in fname else ref_admix(c['phi'], c['ns'], c['grids'], np.eye(c['d']).tolist())
            sc = float(np.max(np.abs(ref))) or 1.0
            if float(np.max(np.abs(impl - ref))) > 1e-9 * sc:
                chk.fail('%s:%s:value' % (fname, mode), '%s (%s) differs from the trapezoid rule by %.3g (scale %.3g)' % (fname, mode, float(np.max(np.abs(impl - ref))), sc), inp)
        else:
            chk.fail('%s:%s:raises:%s' % (fname, mode, ierr), '%s (%s) raises %s' % (fname, mode, ierr), inp)
        if out.startswith('ok ') and impl is not None:
            arr, _ = parse_nd(out[3:])
            ok, e, _ = close(impl, arr, rtol=RTOL)
            if ok: chk.k_ok('private:' + mode)
            else: chk.k_bad('private:' + mode, inp, impl, arr, e)
        else:
            chk.k_bad('private:' + mode, inp, ierr or 'array', out[:80], None)

# =========================================================================== refusals and dispatch corners
def k_refusals(chk, ctx, rng, count):
    dadi = ctx['dadi']
    for it in range(count):
        mode = ['grids-differ', 'dims-ns', 'dims-grids', 'het-bad', 'admix-and-het', 'admix-rows', '5D-option', 'admix-rows-close', '3D-zz-differs',
                'admix-1D', 'het-zz-2D'][it % 11]
        want = 'ValueError'
        if mode == 'grids-differ':
            d = int(rng.integers(2, 6)); c = gen_case(rng, ctx['tier'], d=d, path='analytic'); c['overshoot'] = None
            g, _ = gen_grid(rng, len(c['grids'][0]), 16)
            g[1:-1] = g[1:-1] * 0.9 + 0.03
            c['grids'][int(rng.integers(2))] = g
            phi, _ = gen_phi(rng, c['grids'], 16); c['phi'] = phi
        elif mode == '3D-zz-differs':
            c = gen_case(rng, ctx['tier'], d=3, path='analytic')
            g, _ = gen_grid(rng, int(rng.integers(3, 7)), 16); c['grids'][2] = g
            c['grids'][1] = c['grids'][0].copy()
            phi, _ = gen_phi(rng, [np.clip(x, 0, 1) for x in c['grids']], 16); c['phi'] = phi; want = None
        elif mode == 'dims-ns':
            c = gen_case(rng, ctx['tier'], d=int(rng.integers(1, 4))); c['ns'] = c['ns'] + [2]
        elif mode == 'dims-grids':
            c = gen_case(rng, ctx['tier'], d=int(rng.integers(2, 4))); c['grids'] = c['grids'][:-1]
        elif mode == 'het-bad':
            c = gen_case(rng, ctx['tier'], d=int(rng.integers(1, 5)), path='het'); c['het'] = ['aa', 'x', 'XX', 'bb'][int(rng.integers(4))]
        elif mode == 'admix-and-het':
            c = gen_case(rng, ctx['tier'], d=int(rng.integers(2, 5)), path='admix'); c['het'] = 'xx'; want = 'NotImplementedError'
        elif mode == 'admix-rows':
            c = gen_case(rng, ctx['tier'], d=int(rng.integers(2, 5)), path='admix')
            c['props'] = [list(r) for r in c['props']]; c['props'][0][0] += 0.25
        elif mode == 'admix-rows-close':
            c = gen_case(rng, ctx['tier'], d=2, path='admix')
            c['props'] = [[0.75, 0.25 + 2.0 ** -20], [0.0, 1.0]]; want = None      # inside numpy.allclose's tolerance
        elif mode == '5D-option':
            c = gen_case(rng, ctx['tier'], d=5, path='analytic'); c['force'] = True; want = 'UnboundLocalError'
        elif mode == 'admix-1D':
            c = gen_case(rng, ctx['tier'], d=1, path='analytic'); c['props'] = [[1.0]]; want = None      # ignored in one dimension
        else:
            c = gen_case(rng, ctx['tier'], d=2, path='het'); c['het'] = 'zz'; want = None                # valid string, no such axis: plain direct
        c['path'] = c.get('path') or 'analytic'
        inp = dict(small(c), kind='refusal', mode=mode)
        res = call_from_phi(dadi, c)
        chk.l3(('refusal', mode))
        chk.stat('refusal:' + mode)
        if mode == '5D-option':
            # no 5-D direct / admix / ascertained path exists: the call cannot succeed.  It fails with UnboundLocalError instead
            # of a clean error (recorded in the notes; not a violation of C05: no number is returned)
            if res['err'] is None:
                chk.fail('from_phi:5D-option:accepted', 'from_phi(5-D, force_direct=True) returned a spectrum although no 5-D direct path exists', inp)
        elif want is not None and res['err'] is None:
            chk.fail('from_phi:%s:accepted' % mode, 'from_phi accepted an invalid call (%s)' % mode, inp)
        elif want is not None and res['err'] != want:
            chk.fail('from_phi:%s:wrong-exception:%s' % (mode, res['err']), 'from_phi (%s) raised %s, documented refusal is %s' % (mode, res['err'], want), inp)
        elif want is None and res['err'] is not None:
            chk.fail('from_phi:%s:refused:%s' % (mode, res['err']), 'from_phi refused a valid call (%s): %s %s' % (mode, res['err'], res.get('msg')), inp)
        elif want is None:
            data = np.asarray(res['fs'].data, dtype=float)
            if mode == 'het-zz-2D':
                ref = ref_direct(c['phi'], c['ns'], c['grids'], None)
            elif mode == 'admix-1D' or mode == '3D-zz-differs':
                ref = ref_analytic(c['phi'], c['ns'], c['grids'])
            else:
                ref = ref_admix(c['phi'], c['ns'], c['grids'], c['props'])
            sc = float(np.max(np.abs(ref))) or 1.0
            if float(np.max(np.abs(data - ref))) > 1e-9 * sc:
                chk.fail('from_phi:%s:value' % mode, 'from_phi (%s) differs from its reference by %.3g (scale %.3g)' % (mode, float(np.max(np.abs(data - ref))), sc), inp)
        if have_driver(ctx):
            m = model_from_phi(ctx['driver'], c)
            if err_class(m['err']) == res['err'] and (m['err'] is not None or close(np.asarray(res['fs'].data), m['data'], rtol=RTOL)[0]):
                chk.k_ok('from_phi:refusal:' + mode)
            else:
                chk.k_bad('from_phi:refusal:' + mode, inp, res['err'] or 'a spectrum', m['err'] or 'a spectrum', None)

# =========================================================================== inbreeding
def gen_inb_case(rng, tier, d=None, mixed_zero=False, all_zero=False):
    if d is None:
        d = int(rng.choice([1, 1, 2, 2, 3]))
    bits = int(rng.choice([12, 16, 20]))
    pls = []
    ns = []
    ncap = {1: 16, 2: 8, 3: 6}[d] if tier == 'quick' else {1: 24, 2: 12, 3: 8}[d]
    for _ in range(d):
        P = int(rng.choice([2, 2, 2, 3, 4, 4, 6, 8]))
        kmax = max(1, ncap // P)
        ns.append(P * int(rng.integers(1, kmax + 1))); pls.append(P)
    N = int(rng.integers(3, {1: 12, 2: 7, 3: 5}[d] + 1))
    same = rng.random() < 0.6
    g0, k0 = gen_grid(rng, N, bits)
    grids = [g0.copy()] + [(g0.copy() if same else gen_grid(rng, int(rng.integers(3, {1: 12, 2: 7, 3: 5}[d] + 1)), bits)[0]) for _ in range(d - 1)]
    over = None
    if rng.random() < 0.12:
        a = int(rng.integers(d)); grids[a], over = overshoot(rng, grids[a])
    phi, pk = gen_phi(rng, [np.clip(g, 0, 1) for g in grids], bits)
    Fs = [float([0.5, 0.25, 0.125, 0.75, 2.0 ** -6, 0.9375, float(gen.round_sig(float(rng.uniform(0.01, 0.99)), 10))][int(rng.integers(7))]) for _ in range(d)]
    if rng.random() < 0.06:
        Fs[int(rng.integers(d))] = 1.0                 # clamped to 1 - 1e-10 by the code
    if all_zero:
        Fs = [0.0] * d
    elif mixed_zero and d >= 2:
        Fs[int(rng.integers(d))] = 0.0
    het = HETKEYS[int(rng.integers(min(d, 3)))] if rng.random() < 0.25 else None
    return dict(kind='inbreeding', d=d, ns=ns, grids=grids, phi=phi, Fs=Fs, pls=pls, het=het, overshoot=over, phi_kind=pk, bits=bits,
                mask_corners=bool(rng.random() < 0.5))

FIXED_PLOIDIES = [(2, 4), (4, 2), (2, 2, 4), (2, 4, 2), (4, 2, 2), (2, 4, 6), (2, 6, 4), (4, 2, 6), (4, 6, 2), (6, 2, 4), (6, 4, 2),
                  (2, 3), (3, 2), (2, 8), (8, 2), (3, 2, 4)]
def fixed_inb_cases(rng):
    """deterministic part of the quick tier: 2-D and 3-D inbreeding with pairwise different ploidies per population (every
    order), sample sizes = 1 or 2 individuals per population, a different F per population"""
    Fpool = [0.25, 0.5, 0.125, 0.75]
    out = []
    for j, pls in enumerate(FIXED_PLOIDIES):
        d = len(pls)
        ns = [P * (2 if (P <= 3 and (j + k) % 2 == 0) else 1) for k, P in enumerate(pls)]
        N = 5 if d == 2 else 4
        g, _ = gen_grid(rng, N, 12)
        grids = [g.copy() for _ in range(d)]
        if j % 3 == 1:
            grids[-1] = gen_grid(rng, N + 1, 12)[0]
        phi, pk = gen_phi(rng, grids, 12, kind=['random', 'smooth', 'spiky'][j % 3])
        phi = np.abs(phi) + 0.125
        Fs = [Fpool[(j + k) % 4] for k in range(d)]
        out.append(dict(kind='inbreeding', d=d, ns=ns, grids=grids, phi=phi, Fs=Fs, pls=list(pls), het=None, overshoot=None,
                        phi_kind=pk, bits=12, mask_corners=False, fixed=True))
    return out

def call_inb(dadi, c, Fs=None, record=False):
    S = dadi.Spectrum
    fn = None
    try:
        with np.errstate(all='ignore'):
            grids = c['_live_grids'] if c.get('_live_grids') is not None else [np.array(g, dtype=float) for g in c['grids']]
            args = (np.array(c['phi'], dtype=float), list(c['ns']), grids, list(c['Fs'] if Fs is None else Fs), list(c['pls']))
            kw = dict(mask_corners=c.get('mask_corners', False), het_ascertained=c.get('het'))
            if record:
                with Recorder(dadi) as r:
                    fs = S.from_phi_inbreeding(*args, **kw)
                fn = r.first
            else:
                fs = S.from_phi_inbreeding(*args, **kw)
        return dict(fs=fs, err=None, fn=fn)
    except Exception as e:
        return dict(fs=None, err=type(e).__name__, msg=str(e)[:200], fn=fn)

def check_inbreeding(chk, ctx, c):
    dadi = ctx['dadi']
    inp = small(c)
    d = c['d']; ns = c['ns']; grids = c['grids']; phi = np.asarray(c['phi'], dtype=float)
    Fs = list(c['Fs']); pls = list(c['pls'])
    res = call_inb(dadi, c, record=True)
    nzero = sum(1 for F in Fs if F == 0)
    mode = 'all-zero' if nzero == d else ('mixed-zero' if nzero else 'positive')
    chk.l3(('inbreeding', d, mode, c.get('het'), tuple(sorted(set(pls))), c.get('overshoot')))
    chk.stat('inb:dim:%d' % d); chk.stat('inb:F:%s' % mode)
    for P in pls: chk.stat('inb:ploidy:%d' % P)
    finite = False
    if res['err'] is not None:
        chk.fail('from_phi_inbreeding:%dD:raises:%s' % (d, res['err']), 'from_phi_inbreeding(ns=%r, Fs=%r, ploidys=%r) raises %s: %s' % (ns, Fs, pls, res['err'], res.get('msg')), inp)
    else:
        data = np.asarray(res['fs'].data, dtype=float)
        Fc = [min(F, 1 - 1e-10) for F in Fs]
        if not np.all(np.isfinite(data)):
            if mode == 'mixed-zero':
                chk.fail('from_phi_inbreeding:mixed-zero-F:nonfinite', 'from_phi_inbreeding with Fs=%r (F = 0 in one population, > 0 in another) returns %d non-finite entries; '
                         'F = 0 is random mating (binomial sampling) in that population' % (Fs, int(np.sum(~np.isfinite(data)))), inp)
            else:
                chk.fail('from_phi_inbreeding:%dD:nonfinite' % d, 'non-finite entries for Fs=%r ploidys=%r' % (Fs, pls), inp)
        else:
            finite = True
            want_fn = ('_from_phi_%dD_direct' % d) if mode == 'all-zero' else ('_from_phi_%dD_direct_inbreeding' % d)
            if res.get('fn') is not None and res['fn'] != want_fn:
                chk.fail('from_phi_inbreeding:%dD:dispatch' % d, 'Fs=%r: integrated by %s, expected %s (the call is handed to plain from_phi iff ALL inbreeding coefficients are 0)'
                         % (Fs, res['fn'], want_fn), inp)
            if mode == 'all-zero':
                ref = ref_direct(phi, ns, grids, c.get('het'))
            else:
                ref = ref_inbreeding(phi, ns, grids, Fc, pls, c.get('het'))
            sc = float(np.max(np.abs(ref))) or 1.0
            e = float(np.max(np.abs(data - ref)))
            # the code works in log space with betaln of arguments up to (1-F)/F: allow its cancellation error
            tol = 1e-9 + 4e-15 * max((1 - F) / F for F in Fc if F > 0) if mode != 'all-zero' else 1e-9
            if not e <= tol * sc:
                bad = np.unravel_index(int(np.argmax(np.abs(data - ref))), data.shape)
                chk.fail('from_phi_inbreeding:%dD:value' % d, 'entry %r is %r; trapezoid rule of the convolved beta-binomial sampling probabilities gives %r (max error %.3g, scale %.3g; Fs=%r ploidys=%r)'
                         % (list(map(int, bad)), float(data[bad]), float(ref[bad]), e, sc, Fs, pls), inp)
            wts = [None] * d
            if c.get('het') and HETKEYS.index(c['het']) < d:
                a = HETKEYS.index(c['het']); wts[a] = np.asarray(grids[a]) * (1 - np.asarray(grids[a]))
            mass = trap_mass(phi, grids, wts)
            tot = float(data.sum())
            if abs(tot - mass) > 10 * tol * max(abs(mass), float(np.sum(np.abs(data))), 1e-300):
                chk.fail('from_phi_inbreeding:%dD:mass' % d, 'sum of all entries %r but the trapezoid mass is %r: the inbred sampling probabilities do not sum to one' % (tot, mass), inp)
            want_mask = corner_mask(data.shape) if c.get('mask_corners') else np.zeros(data.shape, dtype=bool)
            if not np.array_equal(np.ma.getmaskarray(res['fs']), want_mask):
                chk.fail('from_phi_inbreeding:mask_corners', 'mask_corners=%r not honoured' % c.get('mask_corners'), inp)
            if not (res['fs'].extrap_x == grids[0][1]):
                chk.fail('from_phi_inbreeding:extrap_x', 'extrap_x %r vs %r' % (res['fs'].extrap_x, grids[0][1]), inp)
            # marginalise a population after sampling = sample the trapezoid-marginalised density (every axis in turn):
            # holds iff the sampling probabilities of the removed population sum to one at every grid point
            if d >= 2 and mode != 'all-zero' and (c.get('fixed') or c.get('marg')):
                for a in range(d):
                    if c.get('het') and HETKEYS.index(c['het']) < d:
                        continue
                    keep = [k for k in range(d) if k != a]
                    phim = np.trapezoid(phi, np.asarray(grids[a], dtype=float), axis=a)
                    cm = dict(c, d=d - 1, ns=[ns[k] for k in keep], grids=[grids[k] for k in keep], phi=phim,
                              Fs=[Fs[k] for k in keep], pls=[pls[k] for k in keep], mask_corners=False)
                    if all(F == 0 for F in cm['Fs']):
                        continue
                    rm = call_inb(dadi, cm)
                    chk.l3(('inbreeding-marginal', d, a, tuple(pls)))
                    if rm['err'] or not np.all(np.isfinite(np.asarray(rm['fs'].data))):
                        chk.fail('from_phi_inbreeding:%dD:marginal:raises' % d, 'sampling the density marginalised over population %d raises / is non-finite (%r)' % (a, rm['err']), inp)
                        continue
                    B = np.asarray(rm['fs'].data, dtype=float); A = data.sum(axis=a)
                    scm = max(float(np.max(np.abs(B))), float(np.max(np.abs(A))), 1e-300)
                    em = float(np.max(np.abs(A - B)))
                    if not em <= 10 * tol * scm:
                        chk.fail('from_phi_inbreeding:%dD:marginal' % d, 'summing the spectrum over population %d (ploidy %d, n=%d, F=%r) differs from sampling the density integrated over that axis by %.3g (scale %.3g): '
                                 'the sampling probabilities of that population do not sum to one (ploidys=%r)' % (a, pls[a], ns[a], Fs[a], em, scm, pls), inp)
    # ---- K
    if have_driver(ctx) and (finite or res['err'] is not None):
        line = 'inbreeding %s 1 %s %s %s - %s %s' % (c.get('het') or '-', ','.join(map(str, ns)), fmt_grids(grids), fmt_nd(phi), fmt_list(Fs), ','.join(map(str, pls)))
        out = ctx['driver'].ask(line)
        op = 'from_phi_inbreeding:%dD' % d
        if out.startswith('ok ') and res['err'] is None:
            _, fn, ex, nd = out.split(' ')
            arr, _ = parse_nd(nd)
            Fpos = [min(F, 1 - 1e-10) for F in Fs if F > 0]
            rt = 1e-9 + (4e-15 * max((1 - F) / F for F in Fpos) if Fpos else 0)
            ok, e, _ = close(np.asarray(res['fs'].data), arr, rtol=rt)
            # which private function integrated (the delegation test `inbDelegates` is read off the source)
            same_fn = (res.get('fn') is None) or (res['fn'] == fn)
            if ok and same_fn and float(Fraction(ex)) == float(res['fs'].extrap_x): chk.k_ok(op)
            else: chk.k_bad(op, inp, dict(fn=res.get('fn'), data=np.asarray(res['fs'].data)), dict(fn=fn, data=arr), e)
        elif out.startswith('err ') and err_class(out[4:]) == res['err']:
            chk.k_ok(op + ':refusal')
        else:
            chk.k_bad(op, inp, res['err'] or 'a spectrum', out[:80], None)
    elif have_driver(ctx):
        chk.k_skipped += 1
    chk.sample(dict(op='from_phi_inbreeding', d=d, ns=ns, Fs=Fs, ploidys=pls, het=c.get('het'), mode=mode, error=res['err']), cap=10)
    return res

def l3_inbreeding_limit(chk, ctx, rng, count):
    """F -> 0: the inbreeding path approaches the direct binomial path, error proportional to F"""
    dadi = ctx['dadi']
    for it in range(count):
        d = [1, 1, 2][it % 3]
        c = gen_inb_case(rng, ctx['tier'], d=d)
        c['het'] = None; c['mask_corners'] = False; c['overshoot'] = None
        c['grids'] = [np.clip(g, 0, 1) for g in c['grids']]
        c['phi'] = np.abs(np.asarray(c['phi'])) + 0.1
        base = call_from_phi(dadi, dict(c, path='direct', force=True, props=None))
        if base['err']:
            continue
        D = np.asarray(base['fs'].data, dtype=float); sc = float(np.max(np.abs(D))) or 1.0
        errs = []
        for F in (1e-2, 1e-3, 1e-4):
            r = call_inb(dadi, c, Fs=[F] * d)
            if r['err'] or not np.all(np.isfinite(np.asarray(r['fs'].data))):
                chk.fail('from_phi_inbreeding:limit:raises', 'F=%g raises / non-finite' % F, dict(small(c), kind='inb-limit')); errs = None; break
            errs.append(float(np.max(np.abs(np.asarray(r['fs'].data) - D))) / sc)
        chk.l3(('inb-limit', d, tuple(c['pls'])))
        if errs is None:
            continue
        P = max(c['pls']); n = max(c['ns'])
        bound = lambda F: 3.0 * P * n * F + 1e-7
        ok = all(e <= bound(F) for e, F in zip(errs, (1e-2, 1e-3, 1e-4)))
        ratio_ok = (errs[0] < 1e-12) or (0.03 <= errs[1] / max(errs[0], 1e-300) <= 0.3 and 0.03 <= errs[2] / max(errs[1], 1e-300) <= 0.3)
        if not (ok and ratio_ok):
            chk.fail('from_phi_inbreeding:F->0', 'inbreeding path does not approach the binomial path proportionally to F: relative differences %r at F = 1e-2, 1e-3, 1e-4 (ns=%r ploidys=%r)'
                     % (errs, c['ns'], c['pls']), dict(small(c), kind='inb-limit'))

def l3_inbreeding_limit_mixed(chk, ctx, rng, count):
    """F -> 0+ in ONE population while the others keep their inbreeding coefficient: the spectrum approaches, proportionally to F,
    the spectrum of the call with F exactly 0 in that population (C05_inbreeding_vs_direct with eps_a = 0 for F_a = 0;
    C05_inb_dispatch: that call is NOT handed to plain from_phi)"""
    dadi = ctx['dadi']
    for it in range(count):
        d = [2, 2, 3][it % 3]
        c = gen_inb_case(rng, ctx['tier'], d=d)
        c['het'] = None; c['mask_corners'] = False; c['overshoot'] = None
        c['grids'] = [np.clip(g, 0, 1) for g in c['grids']]
        c['phi'] = np.abs(np.asarray(c['phi'])) + 0.1
        a = int(rng.integers(d))
        Fs = [float(F) if 0 < F < 0.95 else 0.25 for F in c['Fs']]
        F0 = list(Fs); F0[a] = 0.0
        base = call_inb(dadi, c, Fs=F0)
        chk.l3(('inb-limit-mixed', d, a, tuple(c['pls'])))
        inp = dict(small(dict(c, Fs=F0)), kind='inbreeding')
        if base['err'] or not np.all(np.isfinite(np.asarray(base['fs'].data))):
            chk.fail('from_phi_inbreeding:mixed-zero-F:nonfinite', 'Fs=%r raises / is non-finite (%r)' % (F0, base['err']), inp); continue
        D = np.asarray(base['fs'].data, dtype=float); sc = float(np.max(np.abs(D))) or 1.0
        errs = []
        for F in (1e-2, 1e-3, 1e-4):
            Fx = list(Fs); Fx[a] = F
            r = call_inb(dadi, c, Fs=Fx)
            if r['err'] or not np.all(np.isfinite(np.asarray(r['fs'].data))):
                errs = None; break
            errs.append(float(np.max(np.abs(np.asarray(r['fs'].data) - D))) / sc)
        if errs is None:
            chk.fail('from_phi_inbreeding:limit:raises', 'small F in population %d raises / non-finite' % a, inp); continue
        P = c['pls'][a]; n = c['ns'][a]
        ok = all(e <= 3.0 * P * n * F + 1e-7 for e, F in zip(errs, (1e-2, 1e-3, 1e-4)))
        ratio_ok = (errs[0] < 1e-12) or (0.03 <= errs[1] / max(errs[0], 1e-300) <= 0.3 and 0.03 <= errs[2] / max(errs[1], 1e-300) <= 0.3)
        if not (ok and ratio_ok):
            chk.fail('from_phi_inbreeding:F->0:mixed', 'Fs=%r (F = 0 in population %d) is not the limit of small F there: relative differences %r at F = 1e-2, 1e-3, 1e-4 '
                     '(ns=%r ploidys=%r)' % (F0, a, errs, c['ns'], c['pls']), inp)

def k_bbconv(chk, ctx, rng, count):
    dadi = ctx['dadi']; N = dadi.Numerics
    drv = ctx['driver'] if have_driver(ctx) else None
    for it in range(count):
        P = int(rng.choice([2, 2, 3, 4, 6, 8]))
        nInd = int(rng.integers(1, max(2, 16 // P) + 1))
        F = float([0.5, 0.25, 0.125, 0.75, 2.0 ** -6, 0.9][int(rng.integers(6))])
        x = float(gen.round_sig(float(rng.uniform(0.01, 0.99)), 12))
        cfac = (1 - F) / F
        a, b = x * cfac, (1 - x) * cfac
        if it % 9 == 0:
            a, b = 1.0e-20 * cfac, (1.0 - 1.0e-20) * cfac          # the patched end point
        inp = dict(kind='bbconv', P=P, nInd=nInd, a=a, b=b)
        tot = 0.0
        vals = []
        try:
            for i in range(P * nInd + 1):
                v = float(N.BetaBinomConvolution(i, float(nInd) if it % 2 else nInd, a, b, ploidy=P)); vals.append(v); tot += v
        except Exception as e:
            chk.fail('BetaBinomConvolution:raises:%s' % type(e).__name__, 'BetaBinomConvolution(…, n=%d, ploidy=%d) raises %r' % (nInd, P, e), inp); continue
        chk.l3(('bbconv', P, nInd))
        if not abs(tot - 1.0) <= 1e-9 + 4e-15 * cfac * P * nInd:
            chk.fail('BetaBinomConvolution:sum', 'sum over i of BetaBinomConvolution(i, %d, %r, %r, ploidy=%d) is %r, not 1' % (nInd, a, b, P, tot), inp)
        one = betabinom_pmf(P, a, b); ref = np.array([1.0])
        for _ in range(nInd): ref = np.convolve(ref, one)
        if float(np.max(np.abs(np.array(vals) - ref))) > 1e-9 + 4e-15 * cfac * P * nInd:
            chk.fail('BetaBinomConvolution:value', 'BetaBinomConvolution differs from the %d-fold convolution of the beta-binomial(ploidy %d) by %.3g' % (nInd, P, float(np.max(np.abs(np.array(vals) - ref)))), inp)
        if drv is not None:
            i = int(rng.integers(0, P * nInd + 1))
            out = drv.ask('bbconv %d %d %s %s %d' % (i, nInd, rat(a), rat(b), P))
            if out.startswith('ok ') and abs(float(Fraction(out[3:])) - vals[i]) <= 1e-9 + 4e-15 * cfac * P * nInd:
                chk.k_ok('BetaBinomConvolution')
            else:
                chk.k_bad('BetaBinomConvolution', dict(inp, i=i), vals[i], out[:80], None)
    # partitions
    for it in range(max(6, count // 3)):
        hi = int(rng.integers(1, 7)); n = int(rng.integers(0, 6)); lo = int(rng.integers(0, 2)) if it % 3 == 0 else 0
        x = int(rng.integers(0, n * hi + 2))
        impl = [list(p) for p in N.part(x, n, lo, hi)]
        want = sorted(list(p) for p in itertools.combinations_with_replacement(range(lo, hi + 1), n) if sum(p) == x)
        chk.l3(('part', n, hi))
        if sorted(impl) != want or len(impl) != len(want):
            chk.fail('part:value', 'part(%d, %d, %d, %d) lists %d vectors, the non-decreasing vectors with that sum are %d' % (x, n, lo, hi, len(impl), len(want)), dict(kind='part', x=x, n=n, lo=lo, hi=hi))
        if drv is not None:
            out = drv.ask('part %d %d %d %d' % (x, n, lo, hi))
            body = out[3:] if out.startswith('ok ') else None
            mp = [] if body in (None, '-') else [([] if t == 'e' else [int(v) for v in t.split(',')]) for t in body.split(';')]
            if body is not None and mp == impl: chk.k_ok('part')
            else: chk.k_bad('part', dict(kind='part', x=x, n=n, lo=lo, hi=hi), impl, out[:120], None)

def k_spec_vs_fast(chk, ctx, rng, count):
    """the pointwise definitions (what the theorems speak about) against the tabulated ones the driver runs — redundant with
    the theorems C05_fast_*, catches a driver that wires the wrong definition"""
    if not have_driver(ctx): return
    drv = ctx['driver']
    for it in range(count):
        d = [1, 2, 2, 3][it % 4]
        kind = ['linalg', 'direct', 'inb'][it % 3]
        N = {1: 5, 2: 4, 3: 3}[d]
        g, _ = gen_grid(rng, N, 10)
        grids = [g] * d
        ns = [int(rng.integers(1, 4)) for _ in range(d)]
        pls = [1] * d; Fs = [0.0] * d
        if kind == 'inb':
            pls = [2] * d; ns = [2 * int(rng.integers(1, 3)) for _ in range(d)]; Fs = [0.25] * d
        phi, _ = gen_phi(rng, grids, 10)
        het = 'xx' if (kind != 'linalg' and it % 2) else None
        a = drv.ask('specnd %s %s %s %s %s %s %s' % (kind, het or '-', ','.join(map(str, ns)), fmt_grids(grids), fmt_nd(phi), fmt_list(Fs), ','.join(map(str, pls))))
        if kind == 'linalg' and d == 1:
            b = drv.ask('analytic1d %d %s %s' % (ns[0], fmt_list(g), fmt_list(phi)))
            a2 = drv.ask('spec1d %d %s %s' % (ns[0], fmt_list(g), fmt_list(phi)))
            if a2 == b and a.split(':')[-1] == b[3:]: chk.k_ok('model:spec=fast')
            else: chk.k_bad('model:spec=fast', dict(kind='spec', d=d), a2[:80], b[:80], None)
            continue
        if kind == 'linalg':
            b = drv.ask('call _from_phi_%dD_linalg - %s %s %s -' % (d, ','.join(map(str, ns)), fmt_grids(grids), fmt_nd(phi)))
        elif kind == 'direct':
            b = drv.ask('call _from_phi_%dD_direct %s %s %s %s -' % (d, het or '-', ','.join(map(str, ns)), fmt_grids(grids), fmt_nd(phi)))
        else:
            b = drv.ask('inbreeding %s 1 %s %s %s - %s %s' % (het or '-', ','.join(map(str, ns)), fmt_grids(grids), fmt_nd(phi), fmt_list(Fs), ','.join(map(str, pls))))
            b = 'ok ' + b.split(' ')[-1] if b.startswith('ok ') else b
        if a == b and a.startswith('ok '): chk.k_ok('model:spec=fast')
        else: chk.k_bad('model:spec=fast', dict(kind='spec', d=d, which=kind), a[:80], b[:80], None)

# =========================================================================== marginalising populations, listed in any order
def marg_overs(rng, d, cap):
    """every way of listing 1..d-1 of the d populations, in every order; above `cap` all single populations and all ordered
    pairs plus a random subset of the longer lists"""
    allo = [p for r in range(1, d) for p in itertools.permutations(range(d), r)]
    if len(allo) <= cap:
        return [list(p) for p in allo]
    base = [p for p in allo if len(p) <= 2]
    rest = [p for p in allo if len(p) > 2]
    pick = rng.choice(len(rest), size=max(0, cap - len(base)), replace=False)
    return [list(p) for p in base + [rest[int(i)] for i in sorted(pick)]]

def order_class(over):
    over = list(over)
    if len(over) == 1: return 'single'
    if over == sorted(over): return 'ascending'
    if over == sorted(over, reverse=True): return 'descending'
    return 'mixed'

def distinct_sizes(rng, d, hi, mult=None):
    """sample sizes that differ between populations as far as `hi` allows (a result for the wrong population has the wrong
    shape or the wrong numbers); `mult`: per-population ploidy the size must be a multiple of"""
    if mult is None:
        pool = list(range(1, hi + 1))
        while len(pool) < d:
            pool = pool + pool
        return [int(v) for v in rng.permutation(pool)[:d]]
    out = []
    for a in range(d):
        ks = [k for k in range(1, max(1, hi // mult[a]) + 1)]
        cand = [mult[a] * k for k in ks if mult[a] * k not in out] or [mult[a] * ks[0]]
        out.append(int(cand[int(rng.integers(len(cand)))]))
    return out

def gen_marg_case(rng, tier, d, path):
    """a sampled spectrum whose populations are all different (sample size, marginal of the density, grid on the direct /
    inbreeding paths), labelled"""
    q = tier == 'quick'
    bits = int(rng.choice([12, 16]))
    c = dict(kind='marginalize', d=d, path=path, het=None, props=None, force=(path == 'direct'), bits=bits, mask_corners=False, overshoot=None)
    if path == 'inb':
        pls = [int(v) for v in rng.permutation([2, 3, 4, 2, 6])[:d]]
        c['pls'] = pls
        c['ns'] = distinct_sizes(rng, d, {2: 8, 3: 6}[d], mult=pls)
        Fp = [0.25, 0.5, 0.125, 0.75, 0.0625]
        c['Fs'] = [Fp[int(i)] for i in rng.permutation(5)[:d]]
        c['sampler'] = 'inbreeding'
    else:
        hi = {2: 7, 3: 5, 4: 4, 5: 3}[d] if q else {2: 12, 3: 6, 4: 4, 5: 3}[d]
        c['ns'] = distinct_sizes(rng, d, hi)
        c['sampler'] = 'from_phi'
    N = int(rng.integers(3, {2: 8, 3: 6, 4: 5, 5: 4}[d] + 1))
    g0, _ = gen_grid(rng, N, bits)
    if path == 'analytic':
        grids = [g0.copy() for _ in range(d)]
    else:
        grids = [g0.copy()] + [gen_grid(rng, int(rng.integers(3, {2: 8, 3: 6, 4: 5, 5: 4}[d] + 1)), bits)[0] for _ in range(d - 1)]
    if rng.random() < 0.15:
        a = int(rng.integers(d))
        g, c['overshoot'] = overshoot(rng, grids[a])
        if path == 'analytic':
            grids = [g.copy() for _ in range(d)]
        else:
            grids[a] = g
    c['grids'] = grids
    c['phi'], c['phi_kind'] = gen_phi(rng, [np.clip(g, 0, 1) for g in grids], bits, kind=['random', 'spiky', 'signed', 'random'][int(rng.integers(4))])
    if path in ('direct', 'inb') and rng.random() < 0.4:
        c['het'] = HETKEYS[int(rng.integers(min(d, 3)))]
        if path == 'direct': c['path'] = 'het'
    c['pop_ids'] = ['pop%c' % 'ABCDE'[k] for k in range(d)] if rng.random() < 0.8 else None
    c['over_form'] = ['tuple', 'list', 'array'][int(rng.integers(3))]
    c['marg_mask'] = bool(rng.random() < 0.5)
    return c

def marg_sample(dadi, c):
    if c['sampler'] == 'inbreeding':
        r = call_inb(dadi, c)
        if r['err'] is None and c.get('pop_ids') is not None:
            r['fs'].pop_ids = list(c['pop_ids'])
        return r
    return call_from_phi(dadi, c, mask_corners=False)

def marg_reduced_case(c, S):
    """the same sampling call on the density with the populations in S integrated out by the trapezoid rule (with the
    ascertainment weight x(1-x) if the ascertained population is one of them)"""
    d = c['d']
    keep = [k for k in range(d) if k not in S]
    hax = HETKEYS.index(c['het']) if c.get('het') else None
    phi = np.asarray(c['phi'], dtype=float)
    for a in sorted(S, reverse=True):
        g = np.asarray(c['grids'][a], dtype=float)
        if c['path'] == 'analytic':
            g = np.clip(g, 0, 1)
        f = phi
        if hax == a:
            sh = [1] * phi.ndim; sh[a] = len(g)
            f = phi * (g * (1 - g)).reshape(sh)
        phi = np.trapezoid(f, g, axis=a)
    het = HETKEYS[keep.index(hax)] if (hax is not None and hax in keep) else None
    cm = dict(c, d=len(keep), ns=[c['ns'][k] for k in keep], grids=[c['grids'][k] for k in keep], phi=phi, pop_ids=None, het=het,
              mask_corners=False)
    if c['sampler'] == 'inbreeding':
        cm['Fs'] = [c['Fs'][k] for k in keep]; cm['pls'] = [c['pls'][k] for k in keep]
    elif c['path'] == 'het' and het is None:
        cm['path'] = 'direct'; cm['force'] = True
    return cm, keep

def check_marginalize(chk, ctx, c, overs):
    """`Spectrum.marginalize(over)` of the sampled spectrum against sampling the density with those populations integrated
    out — for `over` listing the populations in any order (values, shape, labels, extrap_x, mask); K: against the model's
    `marginalize` whose iteration order is read off the source"""
    dadi = ctx['dadi']
    d = c['d']; ns = list(c['ns'])
    tag = '%dD:%s' % (d, c['path'])
    base = marg_sample(dadi, c)
    if base['err'] is not None or not np.all(np.isfinite(np.asarray(base['fs'].data, dtype=float))):
        chk.fail('marginalize:%s:sampling-raises' % tag, 'sampling the %d-population spectrum raises / is non-finite (%r %s)' % (d, base['err'], base.get('msg')), dict(small(c), over=None))
        return
    fs = base['fs']
    data0 = np.array(fs.data, dtype=float)
    ids = c.get('pop_ids')
    refs = {}
    nk = 0
    for over in overs:
        over = [int(v) for v in over]
        S = frozenset(over)
        inp = dict(small(c), over=over)
        oc = order_class(over)
        chk.l3(('marginalize', d, c['path'], len(over), oc, c.get('het') is not None))
        chk.stat('marg:order:%s' % oc); chk.stat('marg:dim:%d' % d)
        if S not in refs:
            cm, keep = marg_reduced_case(c, S)
            refs[S] = (marg_sample(dadi, cm), keep)
        rm, keep = refs[S]
        if rm['err'] is not None:
            chk.fail('marginalize:%s:marginal-density-raises' % tag, 'sampling the density integrated over populations %r raises %s' % (sorted(S), rm['err']), inp)
            continue
        B = np.asarray(rm['fs'].data, dtype=float)
        ov = tuple(over) if c.get('over_form') == 'tuple' else (np.array(over) if c.get('over_form') == 'array' else list(over))
        mc = bool(c.get('marg_mask'))
        try:
            out = fs.marginalize(ov, mask_corners=mc)
            oerr = None
        except Exception as e:
            out = None; oerr = type(e).__name__
            chk.fail('marginalize:%s:raises:%s' % (tag, oerr), 'marginalize(%r) of a %d-population spectrum raises %r (populations listed in %s order)' % (over, d, e, oc), inp)
        if out is not None:
            A = np.asarray(out.data, dtype=float)
            want_shape = tuple(ns[k] + 1 for k in keep)
            if tuple(A.shape) != want_shape:
                chk.fail('marginalize:%s:shape' % tag, 'marginalize(%r) of a spectrum with sample sizes %r has shape %r; the populations left are %r, shape %r'
                         % (over, ns, tuple(A.shape), keep, want_shape), inp)
            else:
                sc = max(float(np.max(np.abs(B))), float(np.max(np.abs(A))), 1e-300)
                tol = 1e-9
                if c['sampler'] == 'inbreeding':
                    tol = 1e-8 + 4e-14 * max((1 - F) / F for F in c['Fs'] if F > 0)
                e = float(np.max(np.abs(A - B)))
                if not e <= tol * sc:
                    bad = np.unravel_index(int(np.argmax(np.abs(A - B))), A.shape)
                    chk.fail('marginalize:%s:value' % tag, 'marginalize(%r) (populations listed in %s order) of the sampled spectrum differs from sampling the density integrated over populations %r: '
                             'entry %r is %r vs %r (max %.3g, scale %.3g)' % (over, oc, sorted(S), list(map(int, bad)), float(A[bad]), float(B[bad]), e, sc), inp)
                want_mask = corner_mask(A.shape) if mc else np.zeros(A.shape, dtype=bool)
                if not np.array_equal(np.ma.getmaskarray(out), want_mask):
                    chk.fail('marginalize:mask_corners', 'marginalize(%r, mask_corners=%r): masked entries %r' % (over, mc, np.argwhere(np.ma.getmaskarray(out)).tolist()[:6]), inp)
            want_ids = [ids[k] for k in keep] if ids is not None else None
            got_ids = list(out.pop_ids) if out.pop_ids is not None else None
            if got_ids != want_ids:
                chk.fail('marginalize:%s:pop_ids' % tag, 'marginalize(%r) of populations %r is labelled %r; the populations left are %r' % (over, ids, got_ids, want_ids), inp)
            if not (out.extrap_x == fs.extrap_x):
                chk.fail('marginalize:extrap_x', 'marginalize(%r) has extrap_x %r, the sampled spectrum %r' % (over, out.extrap_x, fs.extrap_x), inp)
            if getattr(out, 'folded', False):
                chk.fail('marginalize:folded', 'marginalize(%r) of an unfolded spectrum is marked folded' % (over,), inp)
        if not np.array_equal(np.asarray(fs.data), data0) or fs.pop_ids != ids:
            chk.fail('marginalize:modifies-input', 'marginalize(%r) changed the spectrum it was called on' % (over,), inp)
            fs = dadi.Spectrum(data0.copy(), mask_corners=False, pop_ids=ids); fs.extrap_x = base['fs'].extrap_x
        # ---- K
        if have_driver(ctx) and (data0.size <= 200 or oc in ('descending', 'mixed') or nk % 3 == 0):
            mo = ctx['driver'].ask('marginalize %s %s' % (','.join(map(str, over)), fmt_nd(data0)))
            op = 'marginalize:%dD' % d
            if mo.startswith('ok ') and out is not None:
                _, kept, nd = mo.split(' ')
                arr, _ = parse_nd(nd)
                mk = [] if kept == '-' else [int(v) for v in kept.split(',')]
                A = np.asarray(out.data, dtype=float)
                same = tuple(arr.shape) == tuple(A.shape) and close(A, arr, rtol=RTOL)[0]
                mids = [ids[k] for k in mk] if ids is not None else None
                if same and (ids is None or mids == (list(out.pop_ids) if out.pop_ids is not None else None)):
                    chk.k_ok(op)
                else:
                    chk.k_bad(op, inp, dict(pop_ids=out.pop_ids, data=A), dict(kept=mk, data=arr), None)
            elif mo.startswith('err ') and oerr is not None and mo[4:] == oerr:
                chk.k_ok(op + ':refusal')
            else:
                chk.k_bad(op, inp, oerr or 'a spectrum', mo[:80], None)
        nk += 1

def l3_marginalize_orders(chk, ctx, rng, reps):
    tier = ctx['tier']
    plan = [(2, 'analytic'), (3, 'analytic'), (4, 'analytic'), (5, 'analytic'), (2, 'direct'), (3, 'direct'), (4, 'direct'), (2, 'inb'), (3, 'inb')]
    for rep in range(reps):
        for d, path in plan:
            if rep > 0 and d == 5 and rep % 3:
                continue
            c = gen_marg_case(rng, tier, d, path)
            check_marginalize(chk, ctx, c, marg_overs(rng, d, 40))
            chk.stat('marg:path:%s' % c['path'])

# =========================================================================== call history: sessions of calls sharing arguments
def lookalike_grids(rng, grids, bits):
    """grids sharing length, end points, first and last interior point with the given ones, different in between"""
    out = []
    for g in grids:
        g = np.array(g, dtype=float)
        N = len(g)
        h = g.copy()
        for k in range(2, N - 2):
            lo, hi = h[k - 1], g[k + 1]
            v = lo + float(rng.uniform(0.25, 0.75)) * (hi - lo)
            if bits:
                v = float(gen.round_sig(v, bits))
            if lo < v < hi and v != g[k]:
                h[k] = v
        out.append(h)
    return out

def inb_session(rng, tier, d):
    """calls of `from_phi_inbreeding` (and the `from_phi` calls it delegates to) that share sample sizes, grids, F and
    ploidies and differ in ascertainment option / density / one look-alike argument; every one is checked on its own, so
    any dependence on the calls made before shows"""
    base = gen_inb_case(rng, tier, d=d)
    base['het'] = None; base['mask_corners'] = False
    if rng.random() < 0.6:
        base['grids'] = [base['grids'][0].copy() for _ in range(d)]
        base['phi'], base['phi_kind'] = gen_phi(rng, [np.clip(g, 0, 1) for g in base['grids']], base['bits'])
    cg = [np.clip(g, 0, 1) for g in base['grids']]
    fresh = lambda: gen_phi(rng, cg, base['bits'])[0]
    a = int(rng.integers(min(d, 3))); b = (a + 1) % d
    st = []
    st.append(dict(base, het=HETKEYS[a], step='het'))
    st.append(dict(base, het=HETKEYS[a], phi=fresh(), step='het-again'))
    st.append(dict(base, step='plain-after-het'))
    st.append(dict(base, het=HETKEYS[b], phi=fresh(), step='het-other-population'))
    st.append(dict(base, phi=fresh(), step='plain-again'))
    if d >= 2:
        Fz = list(base['Fs']); Fz[a] = 0.0
        st.append(dict(base, Fs=Fz, het=HETKEYS[a], step='het-on-F0-population'))
        st.append(dict(base, Fs=Fz, step='plain-F0-population'))
    st.append(dict(base, Fs=[0.0] * d, het=HETKEYS[a], step='all-F0-het'))
    st.append(dict(base, Fs=[0.0] * d, step='all-F0-plain'))
    if max(len(g) for g in base['grids']) >= 5 and base.get('overshoot') is None:
        st.append(dict(base, grids=lookalike_grids(rng, base['grids'], base['bits']), step='lookalike-grid'))
    pool = [0.5, 0.25, 0.125, 0.75, 2.0 ** -6, 0.9375]
    st.append(dict(base, Fs=[[F for F in pool if F != F0][int(rng.integers(5))] for F0 in base['Fs']], step='other-F'))
    P2 = []
    for n, P in zip(base['ns'], base['pls']):
        alt = [Q for Q in (2, 3, 4, 6, 8) if Q != P and n % Q == 0]
        P2.append(alt[int(rng.integers(len(alt)))] if alt else P)
    if P2 != list(base['pls']):
        st.append(dict(base, pls=P2, step='other-ploidy'))
    st.append(dict(base, step='plain-repeat', repeat_of='plain-after-het'))
    st.append(dict(base, het=HETKEYS[a], step='het-repeat', repeat_of='het'))
    return st

def fromphi_session(rng, tier, d):
    """calls of `from_phi` that share sample sizes and grids and run through the options (ascertained, direct, semi-analytic,
    admixture proportions) in turn"""
    base = gen_case(rng, tier, d=d, path=('admix' if d >= 2 else 'direct'))
    g0 = np.clip(base['grids'][0], 0, 1)
    base['grids'] = [g0.copy() for _ in range(d)]
    base['overshoot'] = None; base['grid_kinds'] = [base['grid_kinds'][0]] * d
    bits = base.get('bits') or 0
    fresh = lambda: gen_phi(rng, base['grids'], bits)[0]
    base.update(phi=fresh(), het=None, props=None, force=False, mask_corners=False, pop_ids=None)
    a = int(rng.integers(min(d, 3))); b = (a + 1) % min(d, 3)
    opt = lambda path, **kw: dict(base, path=path, **kw)
    st = [opt('het', het=HETKEYS[a], step='het'),
          opt('het', het=HETKEYS[a], phi=fresh(), force=True, step='het-again'),
          opt('direct', force=True, step='direct-after-het'),
          opt('analytic', step='analytic'),
          opt('het', het=HETKEYS[b], phi=fresh(), step='het-other-population'),
          opt('analytic', phi=fresh(), step='analytic-again')]
    if d >= 2:
        st.append(opt('admix', props=gen_props(rng, d, identity=False), step='admix'))
        st.append(opt('admix', props=gen_props(rng, d, identity=True), force=True, step='admix-identity'))
        st.append(opt('admix', props=gen_props(rng, d, identity=False), phi=fresh(), step='admix-other-proportions'))
    if len(g0) >= 5:
        lg = lookalike_grids(rng, [g0], bits)[0]
        st.append(opt('analytic', grids=[lg.copy() for _ in range(d)], step='analytic-lookalike-grid'))
        st.append(opt('direct', force=True, grids=[lg.copy() for _ in range(d)], step='direct-lookalike-grid'))
    st.append(opt('direct', force=True, step='direct-repeat', repeat_of='direct-after-het'))
    st.append(opt('analytic', step='analytic-repeat', repeat_of='analytic'))
    st.append(opt('het', het=HETKEYS[a], step='het-repeat', repeat_of='het'))
    return st

def run_history(ctx, hist):
    """the calls that preceded a case in its session, so a replay in a fresh process rebuilds the same module-level state"""
    for h in hist or []:
        if h.get('kind') == 'inbreeding':
            call_inb(ctx['dadi'], h)
        else:
            call_from_phi(ctx['dadi'], h)

def run_session(chk, ctx, steps, name):
    """every step through its full check (independent reference, mass, bookkeeping, K), with the same grid *objects* handed
    to every call; plus: identical calls return identical numbers, and no call changes the arrays it was given"""
    hist = []; seen = {}
    live = {}
    for c in steps:
        c = dict(c)
        c['history'] = list(hist)
        gkey = tuple(tuple(float(v) for v in g) for g in c['grids'])
        if gkey not in live:
            live[gkey] = [np.array(g, dtype=float) for g in c['grids']]
        c['_live_grids'] = live[gkey]
        chk.stat('session:%s:%s' % (name, c['step']))
        res = check_inbreeding(chk, ctx, c) if c['kind'] == 'inbreeding' else check_from_phi(chk, ctx, c)
        inp = small(c)
        chk.l3(('session', name, c['d'], c['step']))
        if any(not np.array_equal(l, np.asarray(g, dtype=float)) for l, g in zip(live[gkey], c['grids'])):
            chk.fail('history:%s:grid-modified' % name, 'the call (%s) changed the grid array it was given — the next call of the script samples on a different grid' % c['step'],
                     dict(inp, kind='args-modified'))
            live[gkey] = [np.array(g, dtype=float) for g in c['grids']]
        if res is not None and res['err'] is None:
            data = np.array(res['fs'].data, dtype=float)
            seen[c['step']] = data
            ro = c.get('repeat_of')
            if ro in seen and seen[ro].shape == data.shape and np.all(np.isfinite(data)) and np.all(np.isfinite(seen[ro])):
                sc = float(np.max(np.abs(seen[ro]))) or 1.0
                e = float(np.max(np.abs(seen[ro] - data)))
                if not e <= 1e-12 * sc:
                    chk.fail('history:%s:repeat' % name, 'the same call (%s) made again after %d other calls of the session returns different numbers (max difference %.3g, scale %.3g)'
                             % (ro, len(hist), e, sc), inp)
        hist.append({k: v for k, v in inp.items() if k != 'history'})

def l3_sessions(chk, ctx, rng, reps):
    tier = ctx['tier']
    for rep in range(reps):
        for d in (1, 2, 3):
            run_session(chk, ctx, inb_session(rng, tier, d), 'inbreeding')
        for d in (1, 2, 3, 4):
            run_session(chk, ctx, fromphi_session(rng, tier, d), 'from_phi')

def check_args_modified(chk, ctx, c):
    grids = [np.array(g, dtype=float) for g in c['grids']]
    c = dict(c, _live_grids=grids)
    (call_inb if c.get('kind') == 'inbreeding' or c.get('Fs') is not None else call_from_phi)(ctx['dadi'], c)
    chk.l3(('args-modified',))
    if any(not np.array_equal(l, np.asarray(g, dtype=float)) for l, g in zip(grids, c['grids'])):
        chk.fail('history:grid-modified', 'the call changed the grid array it was given', dict(small(c), kind='args-modified'))

# =========================================================================== entry points
def run(chk, ctx):
    tier = ctx['tier']
    rng = common.Rng(ctx['seed'], 'C05')
    ctx['_rng'] = rng
    q = tier == 'quick'
    chk.rule = ('from_phi: dimension from %r, path from {semi-analytic, direct (force_direct), het_ascertained (xx/yy/zz), admix_props (rows = multiples of 1/16, '
                'identity rows mixed in)}, sample sizes per population from {1, 2, max, uniform 1..max} with max %r (admix: 6/3/2), grids from {uniform, dadi '
                'default_grid, quadratic, random} with %r points, coarsened to 12/16/20 significant bits or (12%%) full double precision, 15%% with an end point '
                'moved outside [0,1] by 1e-16 / 1 ulp, densities from %r, mask_corners / pop_ids random; every 4th call is repeated with the same sizes on a look-alike grid (same length, end points, first and last interior point, different nodes in between — what a per-grid cache could confuse); inbreeding: 1-3 dimensions, ploidy from {2,3,4,6,8}, '
                'a deterministic block of 2-D/3-D cases with pairwise different ploidies and F per population in every order (FIXED_PLOIDIES), sample sizes multiples of the ploidy, F from {2^-6 … 0.9375, random, 1.0 (clamped)}, plus all-zero and mixed zero/non-zero F; refusals: every '
                'guard of from_phi once per cycle; non-trivial = distinct (dimension, path, option, over-shoot, density kind, size class)'
                % (sorted(set(DIMS_W[tier])), NMAX[tier], PTS[tier], PHI_KINDS))
    chk.rule += '; FIXED_PLOIDIES = %r' % (FIXED_PLOIDIES,)
    chk.rule += ('; marginalisation: per (dimension 2-5, path in {semi-analytic, direct (+ascertained), inbreeding}) one labelled spectrum with pairwise different populations '
                 '(sample size, grid, density), `Spectrum.marginalize(over)` for EVERY ordered list of 1..d-1 populations (d = 5: all singles and ordered pairs + a random subset, 40 lists), '
                 'as tuple / list / array, against sampling the density integrated over those populations; sessions: sequences of 10-14 calls of from_phi_inbreeding / from_phi sharing sample sizes, grid objects, F, '
                 'ploidies and running through the options (ascertained on each population, plain, F = 0 in one / all populations, direct, semi-analytic, admix_props, look-alike grid, other F, other ploidy, repeats), '
                 'each call checked on its own against the independent reference')
    chk.unproved = [
        'the F -> 0+ limit of the inbreeding path is proved with an explicit but crude constant (C05_inbreeding_vs_direct: (P+1)^m m 2^P P^2 F/(1-F) per population, plus 2^n n 1e-20 for the end-point patch); the sharp rate (about P n F, what L3 checks at F = 1e-2, 1e-3, 1e-4) is numerical',
        'BetaBinomln / multinomln work in log space through gammaln / betaln: the model evaluates their exponentials exactly (ratio of rising factorials, factorials); that scipy agrees is validated by correspondence (BetaBinomConvolution, 1e-9 + cancellation allowance), the sums C05_betabinom_sum / C05_conv_sum and the limit C05_conv_limit are proved for the exact values',
        'float round-off: the implementation agrees with the exact rational model to 1e-9 of the array scale (inbreeding: plus the cancellation error of betaln at arguments (1-F)/F); IEEE arithmetic is not modelled',
        'scipy.special.betainc / comb, numpy.trapz / dot / allclose are parameters of the model (betainc and comb are compared with their exact values on every run; trapz, dot through the correspondence of whole results)',
        'in d >= 2 dimensions with a grid over-shooting [0,1]: what a stage computes is proved exactly (C05_ND_clamp_exact, C05_ND_clamp_mass) and its distance to the clamped-grid computation is bounded per stage (C05_ND_overshoot: delta x total variation); the composition of that bound through all d stages, and C05_ND_mass / C05_ND_marginal / C05_ND_iterated on over-shooting grids, are not proved (K at 1e-16 and at 1e-3 … 2^-8, L3 quadrature)',
        'direct vs semi-analytic: proved to first order in the grid spacing for every density (C05_direct_vs_analytic_1D, _ND); the second-order rate for smooth densities is numerical (refinement check)']
    chk.assumptions += ['grids are strictly increasing (C05_mass, C05_ND_mass, C05_ND_marginal assume distinct nodes; C05_ND_* additionally assume nodes inside [0,1], the 1-D theorems hold for over-shooting grids through the clamp); C05_inbreeding_vs_direct assumes grids that start at 0 and end at 1 (the code patches the end points to 1e-20 / 1 - 1e-20 whatever the grid)',
                        'sample sizes 1..40 (K); the theorems hold for every size']
    # ---- parameters of the model
    k_betainc(chk, ctx, rng, 80 if q else 600)
    k_dbeta(chk, ctx, rng, 16 if q else 100)
    # ---- from_phi, every path
    ncase = 110 if q else 700
    for it in range(ncase):
        c = gen_case(rng, tier)
        check_from_phi(chk, ctx, c)
        if it % 3 == 0 and c['path'] in ('analytic', 'direct', 'het'):
            l3_metamorphic(chk, ctx, c)
        if it % 4 == 1 and max(len(g) for g in c['grids']) >= 5:
            # the same sizes on a look-alike grid right afterwards: stale per-grid caches would show here
            c2 = sibling_case(rng, c)
            check_from_phi(chk, ctx, c2)
            chk.stat('sibling-grid')
    for d in (1, 2):                                  # sample size 40
        for path in ('analytic', 'direct'):
            c = gen_case(rng, tier, d=d, path=path, big=True)
            check_from_phi(chk, ctx, c)
    for d in (1, 2, 3, 4, 5):                         # every dimension at least once per path
        for path in (['analytic', 'direct', 'het'] + (['admix'] if 2 <= d else [])) if d < 5 else ['analytic']:
            c = gen_case(rng, tier, d=d, path=path)
            check_from_phi(chk, ctx, c)
            if path != 'admix':
                l3_metamorphic(chk, ctx, c)
    k_private(chk, ctx, rng, 10 if q else 60)
    k_refusals(chk, ctx, rng, 22 if q else 110)
    l3_paths_agree(chk, ctx, rng, 8 if q else 40)
    l3_direct_bound(chk, ctx, rng, 6 if q else 30)
    k_overshoot_big(chk, ctx, rng, 15 if q else 90)
    # ---- inbreeding
    for c in fixed_inb_cases(rng):                     # pairwise different ploidies / F per population, every order
        check_inbreeding(chk, ctx, c)
        chk.stat('inb:fixed-ploidy-order')
    for it in range(40 if q else 300):
        c = gen_inb_case(rng, tier, mixed_zero=(it % 8 == 3), all_zero=(it % 8 == 5))
        c['marg'] = (it % 4 == 0)
        check_inbreeding(chk, ctx, c)
    # ploidy guard
    c = gen_inb_case(rng, tier, d=2); c['ns'][0] += 1
    r = call_inb(ctx['dadi'], c)
    chk.l3(('inbreeding', 'ploidy-guard'))
    if r['err'] != 'ValueError':
        chk.fail('from_phi_inbreeding:ploidy-guard', 'sample size %r not divisible by ploidy %r: %r' % (c['ns'], c['pls'], r['err']), small(c))
    if have_driver(ctx):
        out = ctx['driver'].ask('inbreeding - 1 %s %s %s - %s %s' % (','.join(map(str, c['ns'])), fmt_grids(c['grids']), fmt_nd(c['phi']), fmt_list(c['Fs']), ','.join(map(str, c['pls']))))
        if out.startswith('err ValueError') and r['err'] == 'ValueError': chk.k_ok('from_phi_inbreeding:refusal')
        else: chk.k_bad('from_phi_inbreeding:refusal', small(c), r['err'], out[:60], None)
    l3_inbreeding_limit(chk, ctx, rng, 6 if q else 40)
    l3_inbreeding_limit_mixed(chk, ctx, rng, 4 if q else 24)
    # ---- populations listed in any order; call history
    l3_sessions(chk, ctx, rng, 2 if q else 8)
    l3_marginalize_orders(chk, ctx, rng, 2 if q else 8)
    k_bbconv(chk, ctx, rng, 30 if q else 250)
    k_spec_vs_fast(chk, ctx, rng, 12 if q else 48)
    chk.notes.append('from_phi(5-D) with force_direct / het_ascertained / admix_props fails with UnboundLocalError (no 5-D direct path exists; no branch assigns `fs`): '
                     'recorded, not a violation of C05 (no spectrum is returned); the generated dispatch table shows the gap (C05_dispatch)')

def replay(chk, ctx, data):
    inp = data.get('input', {}) or {}
    kind = inp.get('kind')
    ctx['_rng'] = common.Rng(ctx['seed'], 'C05-replay')
    c = from_json(inp)
    if kind in ('from_phi', 'inbreeding') and c.get('history'):
        run_history(ctx, c['history'])        # the calls that came before it in its session
    if kind == 'marginalize':
        overs = [c['over']] if c.get('over') else marg_overs(ctx['_rng'], c['d'], 40)
        check_marginalize(chk, ctx, c, overs)
    elif kind == 'args-modified':
        run_history(ctx, c.get('history'))
        check_args_modified(chk, ctx, c)
    elif kind == 'from_phi':
        check_from_phi(chk, ctx, c)
    elif kind == 'overshoot-large':
        check_overshoot_big(chk, ctx, c)
    elif kind == 'direct-bound':
        check_direct_bound(chk, ctx, c)
    elif kind in ('linear', 'project', 'marginal'):
        check_from_phi(chk, ctx, c)
        for _ in range(5):
            l3_metamorphic(chk, ctx, c)
    elif kind == 'inbreeding':
        check_inbreeding(chk, ctx, c)
    elif kind == 'refusal':
        run(chk, ctx)
    else:
        run(chk, ctx)
