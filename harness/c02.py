"""C02 — every integration path solves the documented implicit scheme.
K: tridiag + 15 kernels + 5 precalc kernels vs the exact-rational Lean model.
L3: dense assembly of the documented scheme (numpy.linalg.solve) vs kernels; const vs fn drivers."""
import numpy as np, math, itertools
from . import common, gen
from .common import rat, fmt_list, fmt_nd, fmt_grids, parse_list, parse_nd, close

PROP = 'C02'
GENERATED = ['Coeffs', 'GridReal']
NEEDS_BUILD = True
DRIVER_MODULES = ['Integ']
AX = 'xyzab'

SIZES_Q = {1: (5, 24), 2: (4, 9), 3: (4, 6), 4: (3, 4), 5: (3, 3)}
SIZES_T = {1: (5, 40), 2: (4, 12), 3: (4, 7), 4: (3, 5), 5: (3, 4)}

def kernel(dadi, d, ax):
    return getattr(dadi.integration_c, 'implicit_%dD%s' % (d, AX[ax]))

def call_kernel(dadi, d, ax, phi, grids, nu, ms, gamma, h, beta, dt, use):
    phi = np.ascontiguousarray(phi.copy())
    f = kernel(dadi, d, ax)
    if d == 1:
        return f(phi, grids[0], nu, gamma, h, beta, dt, use_delj_trick=int(use))
    return f(phi, *grids, nu, *ms, gamma, h, dt, int(use))

# ---------- pieces of the documented scheme, written from the property statement (L3 oracle)
def V_doc(x, nu, beta=None):
    v = x * (1 - x) / nu
    if beta is not None:
        v = v * (beta + 1) ** 2 / (4 * beta)
    return v

def M_doc(x, ys, ms, gamma, h):
    return sum(m * (y - x) for m, y in zip(ms, ys)) + 2 * gamma * (h + (1 - 2 * h) * x) * x * (1 - x)

def delj_doc(use, x, ys, ms, gamma, h, nu, beta):
    N = len(x); dx = np.diff(x); xi = 0.5 * (x[1:] + x[:-1])
    MInt = np.array([M_doc(u, ys, ms, gamma, h) for u in xi]); VInt = V_doc(xi, nu, beta)
    if not use:
        return np.full(N - 1, 0.5), np.zeros(N - 1), np.ones(N - 1)
    wj = 2 * MInt * dx
    with np.errstate(all='ignore'):
        t = wj / VInt
        eps = np.exp(t)
        dj = (-eps * wj + eps * VInt - VInt) / (wj - eps * wj)
    dj = np.where((eps != 1.0) & (wj != 0), dj, 0.5)
    return dj, t, eps

def dense_line(x, phi_line, ys, ms, nu, gamma, h, beta, dt, delj):
    """solve the documented conservative implicit system for one line with a dense matrix"""
    N = len(x); dx = np.diff(x)
    V = V_doc(x, nu, beta)
    xi = 0.5 * (x[1:] + x[:-1])
    Mh = np.array([M_doc(u, ys, ms, gamma, h) for u in xi])
    Delta = np.empty(N); Delta[1:-1] = 2 / (dx[:-1] + dx[1:]); Delta[0] = 2 / dx[0]; Delta[-1] = 2 / dx[-1]
    A = np.zeros((N, N))
    for j in range(N):
        A[j, j] += 1 / dt
    # face k between nodes k-1 and k: F_k = Mh[k-1]*(delj*phi[k-1] + (1-delj)*phi[k]) - (V[k]phi[k]-V[k-1]phi[k-1])/(2dx[k-1])
    for k in range(1, N):
        cm = Mh[k-1] * delj[k-1] + V[k-1] / (2 * dx[k-1])       # coefficient of phi[k-1]
        cp = Mh[k-1] * (1 - delj[k-1]) - V[k] / (2 * dx[k-1])   # coefficient of phi[k]
        # row k-1 gets +Delta*F_k ; row k gets -Delta*F_k
        A[k-1, k-1] += Delta[k-1] * cm; A[k-1, k] += Delta[k-1] * cp
        A[k, k-1] -= Delta[k] * cm;     A[k, k] -= Delta[k] * cp
    M0 = M_doc(x[0], ys, ms, gamma, h); M1 = M_doc(x[-1], ys, ms, gamma, h)
    if all(y == 0 for y in ys) and M0 <= 0:
        A[0, 0] += (0.5 / nu - M0) * 2 / dx[0]
    if all(y == 1 for y in ys) and M1 >= 0:
        A[-1, -1] += (0.5 / nu + M1) * 2 / dx[-1]
    return np.linalg.solve(A, phi_line / dt), A

def dense_step(phi, grids, ax, nu, ms, gamma, h, beta, dt, use):
    d = phi.ndim
    out = np.empty_like(phi)
    others = [l for l in range(d) if l != ax]
    tmin, tmax = np.inf, 0.0
    for oi in itertools.product(*[range(phi.shape[l]) for l in others]):
        ys = [grids[l][i] for l, i in zip(others, oi)]
        sl = list(oi); sl.insert(ax, slice(None)); sl = tuple(sl)
        dj, t, eps = delj_doc(use, grids[ax], ys, ms, gamma, h, nu, beta)
        nz = np.abs(t[t != 0])
        if nz.size:
            tmin = min(tmin, nz.min()); tmax = max(tmax, nz.max())
        out[sl], _ = dense_line(grids[ax], phi[sl], ys, ms, nu, gamma, h, beta, dt, dj)
    return out, tmin, tmax

def eps_array(phi, grids, ax, nu, ms, gamma, h, beta):
    d = phi.ndim
    shape = list(phi.shape); shape[ax] -= 1
    E = np.ones(shape)
    others = [l for l in range(d) if l != ax]
    tmin, tmax = np.inf, 0.0
    for oi in itertools.product(*[range(phi.shape[l]) for l in others]):
        ys = [grids[l][i] for l, i in zip(others, oi)]
        sl = list(oi); sl.insert(ax, slice(None)); sl = tuple(sl)
        dj, t, eps = delj_doc(True, grids[ax], ys, ms, gamma, h, nu, beta)
        E[sl] = eps
        nz = np.abs(t[t != 0])
        if nz.size:
            tmin = min(tmin, nz.min()); tmax = max(tmax, nz.max())
    return E, tmin, tmax

def gen_case(rng, d, ax, tier, cube=True):
    lo, hi = (SIZES_T if tier == 'thorough' else SIZES_Q)[d]
    n0 = int(rng.integers(lo, hi + 1))
    shape = [n0] * d
    if not cube and d >= 4:
        shape = [int(rng.integers(lo, hi + 1)) for _ in range(d)]
    grids = []
    kinds = []
    if cube:
        g, kind = gen.grid(rng, n0)
        grids = [g.copy() for _ in range(d)]; kinds = [kind] * d
    else:
        for s in shape:
            g, kind = gen.grid(rng, s); grids.append(g); kinds.append(kind)
    phi = gen.density(rng, shape)
    nu, gamma, h, ms = gen.axis_params(rng, d)
    beta = gen.loguniform(rng, 0.2, 5) if d == 1 else None
    dt = gen.loguniform(rng, 1e-6, 1e-1)
    use = bool(rng.random() < 0.3)
    return dict(d=d, ax=ax, shape=shape, grids=grids, kinds=kinds, phi=phi, nu=nu, gamma=gamma, h=h, ms=ms,
                beta=beta, dt=dt, use=use)

def case_key(c):
    return (c['d'], c['ax'], tuple(c['shape']), c['kinds'][0], c['use'], c['gamma'] != 0, any(m != 0 for m in c['ms']))

def model_step(driver, c, eps=None):
    line = ' '.join(['step', '1' if c['use'] else '0', rat(c['dt']), str(c['ax']), rat(c['nu']), rat(c['gamma']),
                     rat(c['h']), rat(c['beta']) if c['beta'] is not None else '-', fmt_list(c['ms']),
                     fmt_grids(c['grids']), fmt_nd(eps) if eps is not None else '-', fmt_nd(c['phi'])])
    out = driver.ask(line)
    if not out.startswith('ok '):
        return None, out
    arr, _ = parse_nd(out[3:])
    return arr, out

def small(c):
    """JSON-able description of a case"""
    return dict(d=c['d'], ax=c['ax'], shape=c['shape'], kinds=c['kinds'], nu=c['nu'], gamma=c['gamma'], h=c['h'],
                ms=c['ms'], beta=c['beta'], dt=c['dt'], use=c['use'], grids=[g.tolist() for g in c['grids']],
                phi=c['phi'])

def check_kernel_case(chk, ctx, c, do_model=True):
    dadi = ctx['dadi']; driver = ctx['driver']
    d, ax = c['d'], c['ax']
    name = 'implicit_%dD%s' % (d, AX[ax])
    rtol = 1e-9
    eps = None
    if c['use']:
        eps, tmin, tmax = eps_array(c['phi'], c['grids'], ax, c['nu'], c['ms'], c['gamma'], c['h'], c['beta'])
        if tmax > 300 or (tmin < 1e-2):
            chk.k_skipped += 1; chk.stat('skipped_delj_illconditioned')
            return
        rtol = 1e-6
    try:
        impl = call_kernel(dadi, d, ax, c['phi'], c['grids'], c['nu'], c['ms'], c['gamma'], c['h'], c['beta'], c['dt'], c['use'])
    except Exception as e:
        chk.fail('%s:raises:%s' % (name, type(e).__name__), '%s raises %r' % (name, e), small(c)); return
    # L3 first: documented scheme, dense solve
    ref, _, _ = dense_step(c['phi'], c['grids'], ax, c['nu'], c['ms'], c['gamma'], c['h'], c['beta'], c['dt'], c['use'])
    ok, err, scale = close(impl, ref, rtol=max(rtol, 1e-9), atol=0)
    chk.l3(case_key(c))
    if not ok:
        chk.fail('%s:dense' % name, '%s differs from the documented scheme (dense solve) by %.3g (scale %.3g)' % (name, err, scale), small(c))
    if do_model and driver is not None and driver.p is not None:
        model, raw = model_step(driver, c, eps)
        if model is None:
            chk.k_bad('step:' + name, small(c), None, raw, None)
        else:
            ok2, err2, scale2 = close(impl, model, rtol=rtol)
            if ok2:
                chk.k_ok('step:' + name)
            else:
                chk.k_bad('step:' + name, small(c), impl, model, err2)
    chk.stat('grid:' + c['kinds'][0]); chk.stat('delj:%s' % c['use'])
    chk.sample(dict(op=name, shape=c['shape'], nu=c['nu'], gamma=c['gamma'], h=c['h'], ms=c['ms'], dt=c['dt'], use=c['use'], grid=c['kinds'][0]))

def k_thomas(chk, ctx, rng, n):
    dadi = ctx['dadi']; driver = ctx['driver']
    for it in range(n):
        N = int(rng.integers(2, 41))
        a = rng.uniform(-1, 0, N); c = rng.uniform(-1, 0, N)
        b = np.abs(a) + np.abs(c) + rng.uniform(0.1, 2, N)        # diagonally dominant
        r = rng.uniform(-5, 5, N)
        if it % 5 == 0:  # non-dominant but still non-singular: compare only if model pivots are fine
            b = rng.uniform(0.5, 3, N) * rng.choice([-1, 1], N)
        impl = dadi.tridiag_cython.tridiag(a.copy(), b.copy(), c.copy(), r.copy())
        # L3: dense
        A = np.diag(b) + np.diag(a[1:], -1) + np.diag(c[:-1], 1)
        chk.l3(('thomas', N, it % 5 == 0))
        if np.linalg.cond(A) < 1e6:
            ref = np.linalg.solve(A, r)
            ok, err, scale = close(impl, ref, rtol=1e-7)
            if not ok and np.all(np.isfinite(impl)):
                chk.fail('tridiag:dense', 'tridiag differs from dense solve by %.3g' % err, dict(a=a, b=b, c=c, r=r))
        if driver is not None and driver.p is not None:
            out = driver.ask('thomas %s %s %s %s' % (fmt_list(a), fmt_list(b), fmt_list(c), fmt_list(r)))
            if out.startswith('err zero_pivot'):
                chk.k_skipped += 1; continue
            if not out.startswith('ok '):
                chk.k_bad('thomas', dict(a=a, b=b, c=c, r=r), impl, out, None); continue
            model = np.array([float(v) for v in parse_list(out[3:])])
            cond_ok = np.linalg.cond(A) < 1e6
            if not cond_ok:
                chk.k_skipped += 1; continue
            ok, err, scale = close(impl, model, rtol=1e-8)
            if ok: chk.k_ok('thomas')
            else: chk.k_bad('thomas', dict(a=a, b=b, c=c, r=r), impl, model, err)

def l3_const_fn(chk, ctx, rng, n):
    """a parameter passed as a constant and as a function returning it give the same result (1–3 pops, both delj settings)"""
    dadi = ctx['dadi']; I = dadi.Integration
    old = I.use_delj_trick
    try:
        for it in range(n):
            d = 1 + it % 3
            use = bool((it // 3) % 2)
            I.use_delj_trick = use
            pts = int(rng.integers(8, 16)) if d < 3 else int(rng.integers(6, 10))
            xx = dadi.Numerics.default_grid(pts)
            phi = gen.density(rng, [pts] * d)
            T = float(rng.uniform(0.01, 0.05))
            nus = [gen.loguniform(rng, 0.1, 10) for _ in range(d)]
            gam = [float(rng.uniform(-5, 5)) for _ in range(d)]
            hs = [float(rng.uniform(0, 1)) for _ in range(d)]
            m = {(i, j): (float(rng.uniform(0, 3)) if rng.random() < 0.7 else 0.0) for i in range(d) for j in range(d) if i != j}
            if d > 1 and (it // 3) % 2 == 1:
                # some populations receive no migrants at all (isolation), the others keep theirs
                iso = [i for i in range(d) if rng.random() < 0.5] or [int(rng.integers(d))]
                for i in iso:
                    for j in range(d):
                        if j != i: m[i, j] = 0.0
            th = float(rng.uniform(0.5, 2))
            if d == 1:
                kw = dict(nu=nus[0], gamma=gam[0], h=hs[0], theta0=th)
                f = I.one_pop
            elif d == 2:
                kw = dict(nu1=nus[0], nu2=nus[1], m12=m[0, 1], m21=m[1, 0], gamma1=gam[0], gamma2=gam[1], h1=hs[0], h2=hs[1], theta0=th)
                f = I.two_pops
            else:
                kw = dict(nu1=nus[0], nu2=nus[1], nu3=nus[2], m12=m[0, 1], m13=m[0, 2], m21=m[1, 0], m23=m[1, 2], m31=m[2, 0], m32=m[2, 1],
                          gamma1=gam[0], gamma2=gam[1], gamma3=gam[2], h1=hs[0], h2=hs[1], h3=hs[2], theta0=th)
                f = I.three_pops
            # the integration may start at a non-zero initial_t (both drivers must integrate for T - initial_t)
            if rng.random() < 0.5:
                kw['initial_t'] = float(rng.uniform(0.2, 0.8)) * T
            inp = dict(d=d, pts=pts, T=T, kw=kw, use_delj_trick=use, phi=phi)
            chk.l3(('constfn', d, use, 'initial_t' in kw))
            key = 'constfn:%dD:delj=%s' % (d, use)
            try:
                r_const = f(phi.copy(), xx, T, **kw)
            except Exception as e:
                chk.fail(key + ':const-raises:' + type(e).__name__, 'constant-parameter driver raises %r (use_delj_trick=%s)' % (e, use), inp); continue
            name0 = sorted(k_ for k_ in kw if k_ != 'initial_t')[int(rng.integers(len(kw) - ('initial_t' in kw)))]
            kwf = dict(kw); v0 = kw[name0]; kwf[name0] = (lambda t, v=v0: v)
            try:
                r_fn = f(phi.copy(), xx, T, **kwf)
            except Exception as e:
                chk.fail(key + ':fn-raises:' + type(e).__name__, 'time-function driver raises %r' % (e,), inp); continue
            if 'initial_t' in kw:
                kw0 = {k_: v_ for k_, v_ in kw.items() if k_ != 'initial_t'}
                try:
                    r_shift = f(phi.copy(), xx, T - kw['initial_t'], **kw0)
                    ok0, err0, scale0 = close(r_const, r_shift, rtol=1e-9 if not use else 1e-6)
                    if not ok0:
                        chk.fail(key + ':initial_t', 'constant parameters: integrating from initial_t=%.4g to T=%.4g differs from integrating for T - initial_t from 0 by %.3g (scale %.3g)' % (kw['initial_t'], T, err0, scale0), inp)
                except Exception as e:
                    chk.fail(key + ':initial_t:raises:' + type(e).__name__, 'driver raises %r' % (e,), inp)
            ok, err, scale = close(r_fn, r_const, rtol=1e-9 if not use else 1e-6)
            if not ok:
                chk.fail(key + ':differ', 'const vs function-of-time parameter (%s) differ by %.3g (scale %.3g)' % (name0, err, scale), inp)
    finally:
        I.use_delj_trick = old


def l3_nonneg(chk, ctx, rng, n):
    """C02_nonneg_integrate_neutral(_fn) on the real code: without migration and selection a non-negative density stays non-negative
    at every grid point (1-5 populations, constant and function-of-time sizes, frozen flags, both delj settings, densities with
    exact zeros)"""
    dadi = ctx['dadi']; I = dadi.Integration
    fs = [I.one_pop, I.two_pops, I.three_pops, I.four_pops, I.five_pops]
    old = I.use_delj_trick
    try:
        for it in range(n):
            d = 1 + it % 5
            pts = [int(rng.integers(10, 24)), int(rng.integers(8, 14)), int(rng.integers(6, 9)), 5, 4][d - 1]
            kind = ['default', 'quadratic', 'uniform'][int(rng.integers(3))]
            if kind == 'default': xx = dadi.Numerics.default_grid(pts)
            elif kind == 'quadratic': xx = np.linspace(0, 1, pts) ** 2
            else: xx = np.linspace(0, 1, pts)
            phi = gen.density(rng, [pts] * d)
            phi = np.abs(phi) * (rng.random(phi.shape) < 0.6)          # exact zeros, isolated spikes
            use = bool(rng.integers(2)); I.use_delj_trick = use
            T = float(rng.uniform(0.005, 0.2))
            nus = [gen.loguniform(rng, 0.05, 20) for _ in range(d)]
            fn = bool(rng.integers(2))
            kw = {}
            for i, v in enumerate(nus):
                name = 'nu' if d == 1 else 'nu%d' % (i + 1)
                kw[name] = (lambda t, v=v: v * (1 + t)) if (fn and i == 0) else v
            kw['theta0'] = float(rng.uniform(0, 2))
            if d >= 2 and rng.random() < 0.3:
                kw['frozen%d' % (1 + int(rng.integers(d)))] = True
            inp = dict(d=d, pts=pts, grid=kind, T=T, nus=nus, fn=fn, theta0=kw['theta0'], use_delj_trick=use,
                       frozen=[k for k in kw if k.startswith('frozen')], phi=phi)
            chk.l3(('nonneg', d, fn, use, kind))
            try:
                out = fs[d - 1](phi.copy(), xx, T, **kw)
            except Exception as e:
                chk.fail('nonneg:%dD:raises:%s' % (d, type(e).__name__), 'neutral integration raises %r' % (e,), inp); continue
            lo = float(np.min(out)); sc = float(np.max(np.abs(out))) or 1.0
            if not np.all(np.isfinite(out)) or lo < -1e-10 * sc:
                chk.fail('nonneg:%dD:negative' % d, 'neutral integration without migration turned a non-negative density negative: min %.3g (scale %.3g)' % (lo, sc), inp)
    finally:
        I.use_delj_trick = old

def l3_layout(chk, ctx, rng, n):
    """'for arbitrary densities': a density handed over as a transposed / Fortran-ordered / strided view (what PhiManip.reorder_pops
    returns) is advanced exactly like its C-contiguous copy, and one step on it is the documented scheme — 2-5 populations,
    constant and function-of-time parameters, populations with different parameters"""
    dadi = ctx['dadi']; I = dadi.Integration
    fs = [None, I.one_pop, I.two_pops, I.three_pops, I.four_pops, I.five_pops]
    for it in range(n):
        d = 2 + it % 4
        pts = [0, 0, 10, 7, 6, 5][d]
        xx = dadi.Numerics.default_grid(pts)
        base = gen.density(rng, [pts] * d)
        kind = it // 4 % 3
        if kind == 0:
            perm = rng.permutation(d)
            while d > 1 and list(perm) == list(range(d)): perm = rng.permutation(d)
            view = np.transpose(np.ascontiguousarray(np.transpose(base, np.argsort(perm))), perm); lay = 'transposed'
        elif kind == 1:
            view = np.asfortranarray(base); lay = 'fortran'
        else:
            big = np.zeros([2 * pts] * d); big[tuple(slice(None, None, 2) for _ in range(d))] = base
            view = big[tuple(slice(None, None, 2) for _ in range(d))]; lay = 'strided'
        assert np.array_equal(view, base)
        nus = [gen.loguniform(rng, 0.2, 5) for _ in range(d)]
        gam = [float(rng.uniform(-3, 3)) for _ in range(d)]
        kw = {'nu%d' % (i + 1): nus[i] for i in range(d)}; kw.update({'gamma%d' % (i + 1): gam[i] for i in range(d)})
        kw['m12'] = float(rng.uniform(0, 2)); kw['m21'] = float(rng.uniform(0, 2))
        fn = bool(rng.integers(2))
        if fn: kw['nu1'] = (lambda t, v=nus[0]: v)
        T = float(rng.uniform(0.005, 0.03))
        inp = dict(d=d, pts=pts, layout=lay, nus=nus, gammas=gam, m12=kw['m12'], m21=kw['m21'], fn=fn, T=T, phi=base if base.size < 700 else None)
        chk.l3(('layout', d, lay, fn))
        key = 'layout:%dD:%s' % (d, lay)
        try:
            a = fs[d](view, xx, T, **kw)
            b = fs[d](np.ascontiguousarray(base), xx, T, **kw)
        except Exception as e:
            chk.fail(key + ':raises:' + type(e).__name__, 'integrator raises %r on a %s density' % (e, lay), inp); continue
        ok, err, scale = close(a, b, rtol=1e-12)
        if not ok:
            chk.fail(key + ':differs', 'integrating a %s view differs from integrating its C-contiguous copy by %.3g (scale %.3g)' % (lay, err, scale), inp)

def l3_default_grid(chk, ctx):
    """C02_default_grid_ok on the float grid: default_grid(pts) starts at exactly 0, ends at exactly 1 and is strictly increasing"""
    dadi = ctx['dadi']
    for pts in list(range(2, 130)) + [200, 500, 1000, 2001]:
        for crwd in (None, 2.0, 8.0, 20.0):
            xx = dadi.Numerics.default_grid(pts) if crwd is None else dadi.Numerics.exponential_grid(pts, crwd)
            chk.l3(('default-grid', pts > 10, crwd))
            if len(xx) != pts or xx[0] != 0.0 or xx[-1] != 1.0 or not np.all(np.diff(xx) > 0):
                chk.fail('default_grid:not-increasing-0-1', 'default_grid(%d%s) is not strictly increasing from exactly 0 to exactly 1' % (pts, '' if crwd is None else ', crwd=%g' % crwd),
                         dict(pts=pts, crwd=crwd, grid=xx))

def run(chk, ctx):
    tier = ctx['tier']
    rng = common.Rng(ctx['seed'], 'C02')
    chk.rule = ('kernel cases: (d, axis) over all 15 kernels x random grid kind (uniform/exponential/quadratic/random) x random '
                'nu, m (distinct per pair), gamma, h, beta, dt, delj switch; non-trivial = distinct (d, axis, shape, grid kind, delj, '
                'selection on/off, migration on/off); kernel bodies: the translated statement list of each of the 15 + 5 C kernels run on NON-cubic arrays '
                '(one grid per axis) against the C function called directly, against stepAxis/preSolve and against a dense solve per line; tridiag: random sizes 2..40; const-vs-fn drivers in 1-3 pops; whole short runs (constant, delj trick on '
                'through the C kernels with supplied exp values, every parameter time-dependent) vs the model and vs the translated time loop of the driver')
    chk.unproved = ['round-off: agreement of the float kernels with the exact scheme is established numerically at 1e-9 (1e-6 with the delj trick)',
                    'the interiors of compute_dx / compute_dfactor / compute_xInt / compute_delj / compute_abc_nobc are read pointwise (shape flags + K); '
                    'bounds of the tabulation loops and allocation lengths of the kernels are compared with the expected table, not interpreted',
                    'Cython wrappers with non-square arrays (F-02) are outside the public API and not exercised']
    chk.assumptions += ['symbolic walk of the kernel bodies in tools/translate.py (`_KernelTr`: which local holds what, loop variables by binding loop)',
                        'the shared helpers compute_dx / compute_dfactor / compute_xInt / compute_delj / compute_abc_nobc / tridiag_premalloc are given their '
                        'pointwise meaning (shape flags of `C02_wiring_kernels`)',
                        'Cython wrappers: the extent handed over as end of the outermost loop of the 2-D/3-D kernels is that of the solved axis (F-02); '
                        '`C02_kernel_program` assumes it equals the extent of the loop axis (true for the single-grid public API)']
    reps = 2 if tier == 'quick' else 12
    k_thomas(chk, ctx, rng, 40 if tier == 'quick' else 400)
    for rep in range(reps):
        for d in range(1, 6):
            for ax in range(d):
                c = gen_case(rng, d, ax, tier)
                check_kernel_case(chk, ctx, c)
    from . import c02_precalc
    c02_precalc.run(chk, ctx, rng)
    k_kernel_programs(chk, ctx, common.Rng(ctx['seed'], 'C02-kernel-programs'), 3 if tier == 'quick' else 8)
    from .integ_common import k_program
    k_program(chk, ctx, common.Rng(ctx['seed'], 'C02-program'), 1 if tier == 'quick' else 4, tier, modes=('const', 'delj', 'delj-one', 'vary'))
    l3_const_fn(chk, ctx, rng, 24 if tier == 'quick' else 90)
    # "every integration path solves the documented scheme": which parameter values each kernel call of each driver receives (every
    # migration rate by name, 1-5 populations), observed on the recorded calls against a schedule written from the documentation
    from .integ_common import l3_schedule
    l3_schedule(chk, ctx, common.Rng(ctx['seed'], 'C02-schedule'), 20 if tier == 'quick' else 100)
    l3_nonneg(chk, ctx, rng, 15 if tier == 'quick' else 100)
    l3_layout(chk, ctx, rng, 12 if tier == 'quick' else 72)
    l3_default_grid(chk, ctx)

def replay(chk, ctx, data):
    inp = data.get('input', {})
    if 'grids' in inp:
        c = dict(inp); c['grids'] = [np.array(g) for g in inp['grids']]
        c['phi'] = np.array(inp['phi']['data']).reshape(inp['phi']['shape'])
        check_kernel_case(chk, ctx, c)
    else:
        run(chk, ctx)

# ------------------------------------------------------------------ round 6: the interiors of the C kernels
def gen_case_box(rng, d, ax, tier):
    """NON-cubic array, one grid per axis (different sizes and kinds), otherwise as gen_case"""
    hi = {1: 12, 2: 7, 3: 5, 4: 4, 5: 3}[d] + (1 if tier == 'thorough' else 0)
    lo = 3 if d <= 3 else 2
    while True:
        shape = [int(rng.integers(lo, hi + 1)) for _ in range(d)]
        shape[ax] = max(shape[ax], 3)
        if d == 1 or len(set(shape)) > 1: break
    grids = []; kinds = []
    for s in shape:
        g, kind = gen.grid(rng, s); grids.append(g); kinds.append(kind)
    phi = gen.density(rng, shape)
    nu, gamma, h, ms = gen.axis_params(rng, d)
    beta = gen.loguniform(rng, 0.2, 5) if d == 1 else None
    dt = gen.loguniform(rng, 1e-5, 1e-1)
    return dict(d=d, ax=ax, shape=shape, grids=grids, kinds=kinds, phi=phi, nu=nu, gamma=gamma, h=h, ms=ms, beta=beta, dt=dt,
                use=bool(rng.random() < 0.25))

def model_kprog(driver, c, name, end_axis, eps=None):
    line = ' '.join(['kprog', name, '-' if end_axis is None else str(end_axis), '1' if c['use'] else '0', rat(c['dt']), rat(c['nu']),
                     rat(c['gamma']), rat(c['h']), rat(c['beta']) if c['beta'] is not None else '-', fmt_list(c['ms']),
                     fmt_grids(c['grids']), fmt_nd(eps) if eps is not None else '-', fmt_nd(c['phi'])])
    out = driver.ask(line)
    if not out.startswith('ok '): return None, out
    return parse_nd(out[3:])[0], out

def k_kernel_programs(chk, ctx, rng, reps):
    """K + L3 for the kernel BODIES (loop nests, flat indices, call arguments, guards):
       * `kprog`: the TRANSLATED body (Generated/Coeffs.lean `kernelProgs`, resolved, run by `KProg.run` on the flat array) against
         the compiled C function called directly on NON-cubic arrays with a different grid per axis, and against `stepAxis` (which
         `C02_kernel_program` proves it equals); the same through the Cython wrapper on a cubic array;
       * L3: the documented scheme line by line (dense solve, other coordinates in axis order) against that C call;
       * the five pre-computed-coefficient kernels: `kprogpre` against the C function, `preSolve`, and a dense solve per line."""
    from .integ_common import CKernels
    dadi = ctx['dadi']; driver = ctx['driver']
    ck = CKernels(ctx)
    if not ck.ok:
        chk.stat('ckernels:unavailable'); chk.notes.append('direct C calls unavailable: ' + ck.why)
    have_driver = driver is not None and driver.p is not None
    if have_driver:
        out = driver.ask('kprogtable')
        for item in (out[3:].split() if out.startswith('ok ') else []):
            nm, _, v = item.partition('=')
            chk.stat('kprog-table:%s' % ('canonical' if v == '1' else 'differs'))
    for rep in range(reps):
        for d in range(1, 6):
            for ax in range(d):
                name = 'implicit_%dD%s' % (d, AX[ax])
                others = [l for l in range(d) if l != ax]
                # ---- the C function itself, non-cubic
                c = gen_case_box(rng, d, ax, ctx['tier'])
                eps = None; rtol = 1e-9
                if c['use']:
                    eps, tmin, tmax = eps_array(c['phi'], c['grids'], ax, c['nu'], c['ms'], c['gamma'], c['h'], c['beta'])
                    if tmax > 300 or tmin < 1e-2:
                        c['use'] = False; eps = None
                    else:
                        rtol = 1e-6
                impl = ck.call(name, d, ax, c['phi'], grids=c['grids'], nu=c['nu'], ms=c['ms'], gamma=c['gamma'], h=c['h'],
                               beta=c['beta'], dt=c['dt'], use=c['use'])
                if impl is None:
                    chk.stat('ckernels:skipped')
                else:
                    ref, _, _ = dense_step(c['phi'], c['grids'], ax, c['nu'], c['ms'], c['gamma'], c['h'], c['beta'], c['dt'], c['use'])
                    chk.l3(('c-call', d, ax, tuple(c['shape']), c['use']))
                    ok, err, scale = close(impl, ref, rtol=rtol)
                    if not ok:
                        chk.fail('%s:c-call:dense' % name, 'the C function %s on a %s array (one grid per axis) differs from the documented scheme '
                                 'solved line by line by %.3g (scale %.3g)' % (name, 'x'.join(map(str, c['shape'])), err, scale), small(c))
                    if have_driver:
                        model, raw = model_kprog(driver, c, name, others[0] if others else None, eps)
                        step, raw2 = model_step(driver, c, eps)
                        if model is None or step is None:
                            chk.k_bad('kprog:' + name, small(c), None, raw if model is None else raw2, None)
                        else:
                            ok1, e1, _ = close(impl, model, rtol=rtol)
                            ok2, e2, _ = close(model, step, rtol=1e-12)
                            if ok1 and ok2: chk.k_ok('kprog:' + name)
                            elif not ok1: chk.k_bad('kprog:' + name, small(c), impl, model, e1)
                            else: chk.k_bad('kprog-vs-stepAxis:' + name, small(c), model, step, e2)
                # ---- through the Cython wrapper, cubic
                if have_driver and rep == 0:
                    c = gen_case(rng, d, ax, 'quick'); c['use'] = False
                    try:
                        impl = call_kernel(dadi, d, ax, c['phi'], c['grids'], c['nu'], c['ms'], c['gamma'], c['h'], c['beta'], c['dt'], False)
                    except Exception as e:
                        chk.fail('%s:raises:%s' % (name, type(e).__name__), '%s raises %r' % (name, e), small(c)); continue
                    model, raw = model_kprog(driver, c, name, None)
                    if model is None: chk.k_bad('kprog-wrapper:' + name, small(c), None, raw, None)
                    else:
                        ok1, e1, _ = close(impl, model, rtol=1e-9)
                        if ok1: chk.k_ok('kprog-wrapper:' + name)
                        else: chk.k_bad('kprog-wrapper:' + name, small(c), impl, model, e1)
        # ---- pre-computed-coefficient kernels
        for d in (2, 3):
            for ax in range(d):
                name = 'implicit_precalc_%dD%s' % (d, AX[ax])
                others = [l for l in range(d) if l != ax]
                while True:
                    shape = [int(rng.integers(3, 7 if d == 2 else 6)) for _ in range(d)]
                    if len(set(shape)) > 1: break
                a = -rng.uniform(0, 2, shape); cc = -rng.uniform(0, 2, shape)
                b = np.abs(a) + np.abs(cc) + rng.uniform(0.1, 1, shape)
                phi = gen.density(rng, shape); dt = gen.loguniform(rng, 1e-4, 1e-1)
                inp = dict(name=name, shape=shape, dt=dt, a=a, b=b, c=cc, phi=phi)
                impl = ck.call(name, d, ax, phi, dt=dt, coef=[np.ascontiguousarray(a), np.ascontiguousarray(b), np.ascontiguousarray(cc)])
                if impl is None:
                    chk.stat('ckernels:skipped'); continue
                ref = np.empty_like(phi); N = shape[ax]
                for oi in itertools.product(*[range(shape[l]) for l in others]):
                    sl = list(oi); sl.insert(ax, slice(None)); sl = tuple(sl)
                    A = np.diag(b[sl] + 1 / dt) + np.diag(a[sl][1:], -1) + np.diag(cc[sl][:-1], 1)
                    ref[sl] = np.linalg.solve(A, phi[sl] / dt)
                chk.l3(('c-call-pre', d, ax, tuple(shape)))
                ok, err, scale = close(impl, ref, rtol=1e-9)
                if not ok:
                    chk.fail('%s:c-call:dense' % name, 'the C function %s on a %s array differs from solving (a, b + 1/dt, c) x = phi/dt line by line '
                             'by %.3g (scale %.3g)' % (name, 'x'.join(map(str, shape)), err, scale), inp)
                if have_driver:
                    out = driver.ask(' '.join(['kprogpre', name, str(others[0]), rat(dt), fmt_nd(a), fmt_nd(b), fmt_nd(cc), fmt_nd(phi)]))
                    out2 = driver.ask(' '.join(['presolve', str(ax), rat(dt), fmt_nd(a), fmt_nd(b), fmt_nd(cc), fmt_nd(phi)]))
                    if not (out.startswith('ok ') and out2.startswith('ok ')):
                        chk.k_bad('kprogpre:' + name, inp, None, out if not out.startswith('ok ') else out2, None); continue
                    model = parse_nd(out[3:])[0]; pre = parse_nd(out2[3:])[0]
                    ok1, e1, _ = close(impl, model, rtol=1e-9); ok2, e2, _ = close(model, pre, rtol=1e-12)
                    if ok1 and ok2: chk.k_ok('kprogpre:' + name)
                    elif not ok1: chk.k_bad('kprogpre:' + name, inp, impl, model, e1)
                    else: chk.k_bad('kprogpre-vs-preSolve:' + name, inp, model, pre, e2)
