"""C01 — one-population SFS vs exact coalescent / selection-equilibrium theory.
Proved (Props/C01.lean): the discrete heterozygosity law, influx law, closed form and fixed point, scaling of the
equilibrium constructors.  Here: (A) those laws on the real kernel (moment correspondence) + K on 1-D steps;
(B-F) the numerical clauses against independent theory oracles (harness/c01_oracle.py)."""
import numpy as np, math
from . import common, gen
from .common import close
import importlib
from .c01_oracle import coalescent_sfs, coalescent_sfs_timedep, selection_equilibrium_sfs

PROP = 'C01'
GENERATED = ['Coeffs', 'Phi1D', 'Phi1DReal', 'Demog1D', 'Demog1DReal']
NEEDS_BUILD = True
DRIVER_MODULES = ['Integ', 'Demog1D']

class TF:
    """temporarily set Integration.timescale_factor"""
    def __init__(self, I, v): self.I = I; self.v = v
    def __enter__(self): self.old = self.I.timescale_factor; self.I.timescale_factor = self.v
    def __exit__(self, *a): self.I.timescale_factor = self.old

def trap_w(xx):
    w = np.zeros(len(xx)); dx = np.diff(xx); w[:-1] += dx / 2; w[1:] += dx / 2
    return w

# ---------------------------------------------------------------- A: moment laws on the real kernel
def moment_laws(chk, ctx, rng, n):
    dadi = ctx['dadi']; I = dadi.Integration; ic = dadi.integration_c
    for it in range(n):
        N = int(rng.integers(5, 40))
        xx, kind = gen.grid(rng, N)
        phi = gen.density(rng, [N])
        nu = gen.loguniform(rng, 1e-2, 1e2); beta = gen.loguniform(rng, 0.2, 5)
        dt = gen.loguniform(rng, 1e-6, 1e-1); th = float(rng.uniform(0.1, 3))
        h = float(rng.uniform(0, 1))
        w = trap_w(xx); g = xx * (1 - xx)
        H0 = float(np.sum(w * g * phi))
        inj = I._inject_mutations_1D(phi.copy(), dt, xx, th)
        H1 = float(np.sum(w * g * inj))
        out = ic.implicit_1Dx(inj.copy(), xx, nu, 0.0, h, beta, dt, use_delj_trick=int(it % 2))
        H2 = float(np.sum(w * g * out))
        kappa = (beta + 1) ** 2 / (4 * beta) / nu
        inp = dict(N=N, grid=kind, xx=xx, phi=phi, nu=nu, beta=beta, dt=dt, theta0=th, h=h)
        chk.l3(('het', kind, it % 2))
        want1 = H0 + dt * th * (1 - xx[1]) / 2
        if not math.isclose(H1, want1, rel_tol=1e-10):
            chk.fail('het-law:inject', 'heterozygosity after injection %.12g, law H + dt*theta0*(1-x1)/2 = %.12g' % (H1, want1), inp)
        want2 = H1 / (1 + kappa * dt)
        if not math.isclose(H2, want2, rel_tol=1e-9):
            chk.fail('het-law:step', 'heterozygosity after one neutral step %.12g, law H/(1+kappa*dt) = %.12g (kappa=(beta+1)^2/(4 beta nu))' % (H2, want2), inp)
        # mass law (C04_line_mass in 1-D): mass' = mass - dt*(bc0*w0*phi'_0 + bc1*w_{N-1}*phi'_{N-1}); for gamma=0: bc = (0.5/nu)*2/dx
        m1 = float(np.sum(w * inj)); m2 = float(np.sum(w * out))
        dx = np.diff(xx)
        absorbed = dt * ((0.5 / nu) * 2 / dx[0] * w[0] * out[0] + (0.5 / nu) * 2 / dx[-1] * w[-1] * out[-1])
        if not math.isclose(m2, m1 - absorbed, rel_tol=1e-9, abs_tol=1e-12 * abs(m1)):
            chk.fail('mass-law:step', 'mass after step %.12g, law mass - dt*absorbed = %.12g' % (m2, m1 - absorbed), inp)
        # l1-stability (C01_stability_neutral): a density of arbitrary sign is not amplified in the trapezoid-weighted l1 norm
        sg = phi * rng.choice([-1.0, 1.0], size=N)
        so = ic.implicit_1Dx(sg.copy(), xx, nu, 0.0, h, beta, dt, use_delj_trick=int(it % 2))
        n0 = float(np.sum(w * np.abs(sg))); n1 = float(np.sum(w * np.abs(so)))
        if not (n1 <= n0 * (1 + 1e-12)):
            chk.fail('stability:l1', 'one neutral step amplified the weighted l1 norm of a signed density: %.12g -> %.12g' % (n0, n1), dict(inp, signed=sg))
        # mean-frequency law (C01_mean_step): sum w x phi changes only through the absorbing term at x = 1
        f1 = float(np.sum(w * xx * inj)); f2 = float(np.sum(w * xx * out))
        fixed = dt * (0.5 / nu) * 2 / dx[-1] * w[-1] * out[-1]
        if not math.isclose(f2, f1 - fixed, rel_tol=1e-9, abs_tol=1e-12 * abs(f1)):
            chk.fail('mean-law:step', 'mean frequency after one neutral step %.12g, law mean - dt*w_last*bc_last*phi_last = %.12g' % (f2, f1 - fixed), inp)

# ---------------------------------------------------------------- B/C: coalescent convergence
_EQ = {}
def sfs_model(dadi, n, epochs, pts_l, tf, log=False, as_func=False, gamma=0.0, h=0.5, abs_axis=False):
    I = dadi.Integration
    def f(params, ns, pts):
        xx = dadi.Numerics.default_grid(pts)
        # the equilibrium density of a grid is computed once and the same array is handed to every history, as a user
        # scanning histories from a cached starting density does (the integrators must not modify it)
        key = (id(dadi), pts, gamma, h)
        if key not in _EQ:
            _EQ[key] = dadi.PhiManip.phi_1D(xx, gamma=gamma, h=h)
        phi = _EQ[key]
        t0 = 0.0
        for nu, T in epochs:
            # abs_axis: the history is run on ONE absolute time axis (epoch k from initial_t = its start to T = its end), the other
            # documented way of chaining epochs; the epoch lengths are the same numbers
            kw = dict(initial_t=t0) if abs_axis else {}
            Tend = t0 + T if abs_axis else T
            if as_func:
                phi = I.one_pop(phi, xx, Tend, (lambda t, v=nu: v), gamma=gamma, h=h, **kw)
            else:
                phi = I.one_pop(phi, xx, Tend, nu, gamma=gamma, h=h, **kw)
            if abs_axis: t0 = Tend
        return dadi.Spectrum.from_phi(phi, ns, (xx,))
    F = dadi.Numerics.make_extrap_log_func(f) if log else dadi.Numerics.make_extrap_func(f)
    with TF(I, tf):
        return np.asarray(F(None, (n,), pts_l))[1:-1]

def random_history(rng):
    k = int(rng.integers(1, 5))
    return [(gen.loguniform(rng, 0.05, 20), gen.loguniform(rng, 0.005, 3)) for _ in range(k)]

def far_size(rng):
    """a size of the box at least a factor 3 away from the reference size"""
    return gen.loguniform(rng, 0.05, 1 / 3.0) if rng.random() < 0.5 else gen.loguniform(rng, 3.0, 20)

def mid_time(rng, nu):
    """an epoch length of 0.2-1 coalescent units at size nu (kept inside the box): long enough for the epoch to matter, short enough
    for the population to be out of equilibrium at its end"""
    return float(min(3.0, max(0.005, nu * rng.uniform(0.2, 1.0))))

def special_history(rng, kind):
    """a random history of the property's box carrying one of the special values its quantifier contains ("all size histories"):
    an epoch at exactly the reference size 1 after a size change ('one'), two consecutive epochs of exactly the same size ('same')
    - both after an epoch that leaves the population out of equilibrium, and long enough to matter -, a first epoch at exactly 1
    ('first-one': the equilibrium continues), a zero-length epoch ('zero'), epoch lengths at the ends of the box ('ends').
    Such epochs are no-ops only where theory says so."""
    k = int(rng.integers(2, 5))
    ep = [[gen.loguniform(rng, 0.05, 20), gen.loguniform(rng, 0.005, 3)] for _ in range(k)]
    j = int(rng.integers(1, k))
    if kind in ('one', 'same'):
        v = far_size(rng)
        ep[j - 1] = [v, mid_time(rng, v)]
        w = 1.0 if kind == 'one' else v
        ep[j] = [w, mid_time(rng, w)]
    elif kind == 'first-one':
        ep[0][0] = 1.0
    elif kind == 'zero':
        ep[int(rng.integers(0, k))][1] = 0.0
    elif kind == 'ends':
        ep[j][1] = 0.005; ep[j - 1][1] = 3.0
    return [tuple(e) for e in ep]

SPECIAL_KINDS = ['one', 'same', 'first-one', 'zero', 'ends']

def grid_list(n, L):
    """a grid list 'at or above the sample size' of length L, fine enough for the refinement clause (calibrated on the unchanged
    tree: worst error 0.7 % over lengths 1…6)"""
    if L == 1: return [max(400, 20 * n)]
    if L == 2:
        b = max(6 * n, 120); return [b, b + 40]
    b = max(n + 10, 40); return [b + 10 * i for i in range(L)]

def nsteps(epochs, tf):
    return sum(T / (tf / (0.25 / nu)) for nu, T in epochs)

# ---- the library's own one-population models (the public way to get a one-population spectrum)
def _expo(a, b, T):
    return lambda t: a * math.exp(math.log(b / a) * t / T)

# name -> (module, number of sizes, number of times, parameter vector, size history stated by the model's documentation:
# epochs (nu, T) forward in time after the ancestral size 1, nu a number or a function of the time since the epoch began).
# Written from the docstrings; the *_sel models are run at gamma = 0, three_epoch_inbreeding at F = 0.
LIBRARY = {
    'snm_1d':                 ('Demographics1D', 0, 0, lambda S, X: None,                              lambda S, X: []),
    'two_epoch':              ('Demographics1D', 1, 1, lambda S, X: (S[0], X[0]),                      lambda S, X: [(S[0], X[0])]),
    'growth':                 ('Demographics1D', 1, 1, lambda S, X: (S[0], X[0]),                      lambda S, X: [(_expo(1.0, S[0], X[0]), X[0])]),
    'bottlegrowth_1d':        ('Demographics1D', 2, 1, lambda S, X: (S[0], S[1], X[0]),                lambda S, X: [(_expo(S[0], S[1], X[0]), X[0])]),
    'three_epoch':            ('Demographics1D', 2, 2, lambda S, X: (S[0], S[1], X[0], X[1]),          lambda S, X: [(S[0], X[0]), (S[1], X[1])]),
    'three_epoch_inbreeding': ('Demographics1D', 2, 2, lambda S, X: (S[0], S[1], X[0], X[1], 0.0),     lambda S, X: [(S[0], X[0]), (S[1], X[1])]),
    'equil':                  ('DFE.DemogSelModels', 0, 0, lambda S, X: (0.0,),                        lambda S, X: []),
    'two_epoch_sel':          ('DFE.DemogSelModels', 1, 1, lambda S, X: (S[0], X[0], 0.0),             lambda S, X: [(S[0], X[0])]),
    'three_epoch_sel':        ('DFE.DemogSelModels', 2, 2, lambda S, X: (S[0], S[1], X[0], X[1], 0.0), lambda S, X: [(S[0], X[0]), (S[1], X[1])]),
    'growth_sel':             ('DFE.DemogSelModels', 1, 1, lambda S, X: (S[0], X[0], 0.0),             lambda S, X: [(_expo(1.0, S[0], X[0]), X[0])]),
    'bottlegrowth_1d_sel':    ('DFE.DemogSelModels', 2, 1, lambda S, X: (S[0], S[1], X[0], 0.0),       lambda S, X: [(_expo(S[0], S[1], X[0]), X[0])]),
}
# special values per family (sizes | times): 'one' = exactly the reference size 1.0, 'same' = exactly the previous size (1.0 for the
# first), 'far' = at least a factor 3 from 1, 'lo'/'hi' = ends of the property's box, 'zero' = zero-length epoch, 'mid' = 0.2-1
# coalescent units at the epoch's (final) size, 'rnd' = drawn from the box
PATTERNS = {
    (0, 0): [((), ())],
    (1, 1): [(('one',), ('mid',)), (('rnd',), ('zero',)), (('rnd',), ('lo',)), (('rnd',), ('hi',)), (('lo',), ('rnd',)), (('hi',), ('rnd',)),
             (('far',), ('mid',)), (('rnd',), ('rnd',))],
    (2, 1): [(('one', 'far'), ('mid',)), (('far', 'one'), ('mid',)), (('far', 'same'), ('mid',)), (('one', 'one'), ('rnd',)),
             (('rnd', 'rnd'), ('zero',)), (('rnd', 'rnd'), ('lo',)), (('rnd', 'rnd'), ('hi',)), (('lo', 'rnd'), ('rnd',)),
             (('rnd', 'hi'), ('rnd',)), (('rnd', 'rnd'), ('rnd',))],
    (2, 2): [(('far', 'one'), ('mid', 'mid')), (('one', 'far'), ('rnd', 'mid')), (('far', 'same'), ('mid', 'mid')), (('one', 'one'), ('rnd', 'rnd')),
             (('rnd', 'rnd'), ('zero', 'rnd')), (('rnd', 'rnd'), ('rnd', 'zero')), (('far', 'one'), ('lo', 'hi')), (('rnd', 'rnd'), ('hi', 'lo')),
             (('lo', 'rnd'), ('rnd', 'rnd')), (('hi', 'lo'), ('rnd', 'rnd')), (('rnd', 'hi'), ('rnd', 'rnd')), (('rnd', 'rnd'), ('rnd', 'rnd'))],
}

def lib_function(dadi, name):
    return getattr(importlib.import_module(dadi.__name__ + '.' + LIBRARY[name][0]), name)

def lib_sfs(dadi, name, S, X, n, pts_l, tf, log=False):
    f = lib_function(dadi, name)
    F = dadi.Numerics.make_extrap_log_func(f) if log else dadi.Numerics.make_extrap_func(f)
    with TF(dadi.Integration, tf):
        return np.asarray(F(LIBRARY[name][3](S, X), (n,), pts_l))[1:-1]

def step_profile(segments, tf):
    """(number of time steps, largest |log size ratio| across one step of a time-dependent epoch) under the documented step rule
    dt = timescale_factor/(0.25/nu) evaluated at the start of each step"""
    k = 0; mx = 0.0
    for nu, T in segments:
        if T <= 0: continue
        if not callable(nu):
            k += int(math.ceil(T / (4 * nu * tf))); continue
        t = 0.0
        while t < T:
            v = nu(t); t2 = min(t + 4 * v * tf, T)
            mx = max(mx, abs(math.log(nu(t2) / v))); t = t2; k += 1
            if k > 5e6: break
    return k, mx

def draw_library_case(rng, name, pattern, cap):
    ns_, nt_ = LIBRARY[name][1], LIBRARY[name][2]
    for _ in range(400):
        S = []; X = []
        for tok in pattern[0]:
            prev = S[-1] if S else 1.0
            S.append(far_size(rng) if tok == 'far' else {'one': 1.0, 'same': prev, 'lo': 0.05, 'hi': 20.0}.get(tok) or gen.loguniform(rng, 0.05, 20))
        for i, tok in enumerate(pattern[1]):
            ref = S[i] if len(pattern[1]) == len(S) else S[-1]
            X.append(mid_time(rng, ref) if tok == 'mid' else {'zero': 0.0, 'lo': 0.005, 'hi': 3.0}[tok] if tok != 'rnd' else gen.loguniform(rng, 0.005, 3))
        if step_profile(LIBRARY[name][4](S, X), 1e-4)[0] <= cap:
            return S, X
    return None

def coalescent_case(chk, dadi, n, ep, pts, log, as_func, lib=None, abs_axis=False):
    """one history against the exact coalescent expectation at a tenth of the default step.  lib = None: the history `ep` is built from
    direct one_pop calls (sfs_model); lib = dict(model, sizes, times): the library's model function is run."""
    L = len(pts)
    tf = 1e-4
    if lib is None:
        th = coalescent_sfs(n, ep)
        inp = dict(n=n, epochs=ep, pts=pts, log=log, as_func=as_func, abs_axis=abs_axis)
        key = 'coalescent:%s:%s:grids=%d' % ('log' if log else 'lin', 'func' if as_func else 'const', L)
        run_it = lambda f, p=pts: sfs_model(dadi, n, ep, p, f, log=log, as_func=as_func, abs_axis=abs_axis)
        known_key = key
        where = 'one_pop history'
    else:
        name, S, X = lib['model'], list(lib['sizes']), list(lib['times'])
        segs = LIBRARY[name][4](S, X)
        th, M, ch = coalescent_sfs_timedep(n, segs)
        ep = [] if any(callable(nu) for nu, T in segs) else list(segs)
        inp = dict(n=n, model=name, sizes=S, times=X, params=LIBRARY[name][3](S, X), pts=pts, log=log, as_func=False, oracle_pieces=M)
        key = 'library:%s:%s:grids=%d' % (name, 'log' if log else 'lin', L)
        known_key = 'coalescent:%s:const:grids=%d' % ('log' if log else 'lin', L)
        # A continuously varying size is outside the letter of the 1.5 % clause (piecewise-constant histories).  The step rule sizes a
        # step by the size at its START; the clause is applied at a tenth of the default step when no step changes the size by more
        # than a factor e^0.5, and otherwise at the first further tenth of the step that resolves nu(t) that well ("converges as the
        # time step is refined"; calibrated on the unchanged tree: resolved histories are within 1 %, a 3-fold shrink inside ONE
        # step is 2-30 % off at 1e-4 and 0.4 % at 1e-6).
        while step_profile(segs, tf)[1] > 0.5 and tf > 1e-7:
            tf /= 10
        if tf < 1e-4:
            inp['timescale_factor'] = tf; chk.stats['library_growth_cases_refined'] = chk.stats.get('library_growth_cases_refined', 0) + 1
        run_it = lambda f, p=pts: lib_sfs(dadi, name, S, X, n, p, f, log=log)
        where = 'dadi.%s.%s%r' % (LIBRARY[name][0], name, LIBRARY[name][3](S, X))
    chk.l3((key, len(ep), n) if lib is None else (key, lib.get('pattern')))
    try:
        fine = run_it(tf)
    except Exception as e:
        chk.fail(key + ':raises:' + type(e).__name__, '%s raises %r' % (where, e), inp); return 0.0
    if fine.shape != th.shape or not np.all(np.isfinite(fine)) or np.any(fine < 0):
        chk.fail(key + ':nonfinite', 'spectrum of %s has non-finite or negative entries (or the wrong shape)' % where, inp); return 0.0
    err = float(np.max(np.abs(fine - th) / th))
    if err > 0.015:
        i = int(np.argmax(np.abs(fine - th) / th)) + 1
        suffix = ':1.5pct'; k_ = key
        # Known shortfall of the unchanged tree (F-01a, known_findings.json): right after an expansion by a factor >= 50 the step rule
        # dt ~ nu takes the whole new epoch in a few dozen steps, and the transient inherited from the bottleneck is under-resolved:
        # 1.6-2.4 % at a tenth of the default step (pure time-step error: it does not move with the grid and falls with dt).
        # Such a case gets its own key so that any other way of exceeding 1.5 % is still reported as a violation.
        # The spectrum is sampled while that transient is still there: the new epoch is covered by <= 64 steps, or (round 6: n = 30,
        # nu 0.075 -> 20 sampled 1.2 time units = 0.06 coalescent units = 151 steps later: 1.64 % on fully refined grids, 0.11 % at a
        # hundredth of the default step) no more than 0.1 coalescent units have passed since the expansion.
        steps = [T / (1e-4 * 4 * nu) for nu, T in ep]
        since = [sum(T / nu for nu, T in ep[k:]) for k in range(len(ep))]
        trans = [k for k in range(1, len(ep)) if ep[k][0] / ep[k - 1][0] >= 50 and (0 < steps[k] <= 64 or 0 < since[k] <= 0.1)]
        def transient(e, p):
            """F-01a pattern at grid list p: time-step dominated (a further tenth of the step brings it under 1.5 % and divides it by
            3 at least).  Below 3 % it is the recorded finding; between 3 and 6 % (round 6: at the very corner of the box, nu 0.05 -> 20,
            n = 30, 4-20 steps after the expansion: up to 4.3 % on converged grids) it is the same shortfall beyond what the finding
            records and gets its own key (pending_fixes/C01_transient_after_expansion_above_3pct.md)"""
            if not (trans and e <= 0.06): return None
            try:
                finer = run_it(1e-5, p)
                e2 = float(np.max(np.abs(finer - th) / th))
            except Exception:
                e2 = e
            return dict(err_at_tenth=e, err_at_hundredth=e2, steps_per_epoch=steps, pts_of_step_test=p) if (e2 <= e / 3 and e2 <= 0.015) else None
        tr = transient(err, pts)
        errs = [err]; lists = [list(pts)]
        if tr is None and chk.stats.get('coalescent_refinements_unresolved', 0) < 6:
            # "converges as grid and time step are refined": an error above the bound with the drawn grid list counts only if it stays
            # above it when every grid size is doubled and then quadrupled (a deep bottleneck followed by a large expansion needs finer
            # grids than grid_list draws: e.g. n = 17, nu 0.22 -> 0.062 -> 9.47: 1.66 % at pts 40,50,60, 0.27 % at 80,100,120).  A wrong
            # result does not go away under grid refinement.
            for mult in (2, 4):
                p2 = [int(q * mult) for q in pts]
                try:
                    f2 = run_it(tf, p2)
                    e2 = float(np.max(np.abs(f2 - th) / th)) if np.all(np.isfinite(f2)) else float('inf')
                except Exception:
                    e2 = float('inf')
                errs.append(e2); lists.append(p2)
                if e2 <= 0.015: break
            if errs[-1] <= 0.015:
                rec = dict(n=n, pts=lists, errors=[round(e, 5) for e in errs], **({'epochs': ep} if lib is None else dict(model=lib['model'], sizes=S, times=X)))
                chk.stats.setdefault('coalescent_grid_limited', []).append(rec)
                chk.sample(dict(clause='coalescent', grid_limited=True, log=log, as_func=as_func, **rec), cap=12)
                return errs[-1]
            chk.stats['coalescent_refinements_unresolved'] = chk.stats.get('coalescent_refinements_unresolved', 0) + 1
            tr = transient(errs[1], lists[1])       # the pattern may only show once the grid error is out of the way
        if tr is not None:
            inp = dict(inp, **tr); k_ = known_key
            suffix = ':1.5pct:transient-after-expansion:' + ('below-3pct' if tr['err_at_tenth'] <= 0.03 else 'above-3pct')
        ref = '' if len(errs) == 1 else '; with every grid size x2 / x4: %s' % ', '.join('%.2f%%' % (100 * e) for e in errs[1:])
        inp = dict(inp, errors_under_grid_refinement=errs, grid_lists=lists)
        chk.fail(k_ + suffix, '%s: entry %d is %.4g, exact coalescent expectation %.4g (%.2f%% off) at timescale_factor=%g (default 1e-3), pts=%s%s' % (where, i, fine[i-1], th[i-1], 100 * err, tf, pts, ref), inp)
    chk.sample(dict(clause='coalescent', n=n, epochs=ep, pts=pts, log=log, as_func=as_func, max_rel_err=err, **({} if lib is None else dict(model=lib['model'], sizes=S, times=X))))
    return err

# recorded inputs of listed findings (known_findings.json): re-evaluated on every run, so the KNOWN-FINDING line is printed while the
# finding is open and a change of its behaviour (worse than 3 %, or no longer time-step dominated) is reported as a violation
CORPUS = [dict(n=20, epochs=[(1.9712753538489214, 0.009960484102365889), (0.07120099208428853, 0.6906479947035272),
                             (12.881385478601226, 0.13278337171903462)], pts=[400], log=True, as_func=False),
          # F-01b: the same shortfall at the corner of the box (4.13 %)
          dict(n=30, epochs=[(0.05, 0.2), (20.0, 0.06)], pts=[80, 100, 120], log=False, as_func=False)]

def coalescent_convergence(chk, ctx, rng, n_cases, tier):
    dadi = ctx['dadi']
    worst = 0.0
    cap = 4e5 if tier == 'thorough' else 1.2e5
    for c in CORPUS:
        coalescent_case(chk, dadi, c['n'], c['epochs'], c['pts'], c['log'], c['as_func'])
    for it in range(n_cases):
        n = int(rng.integers(2, 31)) if tier == 'thorough' or it % 3 else int(rng.integers(2, 13))
        ep = random_history(rng)
        # keep the run time bounded: total steps at tf/10
        while nsteps(ep, 1e-4) > cap:
            ep = random_history(rng)
        # grid lists of every length the extrapolation wrappers accept (1 = no extrapolation, on a fine grid; 2…6 grids)
        L = [3, 1, 2, 4, 3, 6, 5, 1][(it + it // 8) % 8]
        pts = grid_list(n, L)
        log = bool(it % 2); as_func = bool((it // 2) % 2)
        worst = max(worst, coalescent_case(chk, dadi, n, ep, pts, log, as_func, abs_axis=bool(it % 3 == 1)))
    chk.stats['coalescent_worst_rel_err'] = worst

def special_histories(chk, ctx, rng, tier):
    dadi = ctx['dadi']; worst = 0.0
    cap = 4e5 if tier == 'thorough' else 1.2e5
    # histories carrying the special values of the box, each kind with constant and with time-function parameter passing
    reps = 1 if tier == 'quick' else 6
    it = 0
    for rep in range(reps):
        for kind in SPECIAL_KINDS:
            for as_func in (False, True):
                n = int(rng.integers(4, 31)) if tier == 'thorough' else int(rng.integers(4, 17))
                ep = special_history(rng, kind)
                while nsteps(ep, 1e-4) > cap / 2:
                    ep = special_history(rng, kind)
                pts = grid_list(n, [3, 2, 4, 1, 5, 6][it % 6]); it += 1
                chk.stat('special_history:' + kind)
                worst = max(worst, coalescent_case(chk, dadi, n, ep, pts, bool((it // 2) % 2), as_func, abs_axis=bool(it % 3 == 0)))
    chk.stats['special_history_worst_rel_err'] = worst

def library_models(chk, ctx, rng, tier):
    """every one-population model function of the library against the exact coalescent expectation of the history its documentation
    states, over the special values of the box and random draws"""
    dadi = ctx['dadi']
    worst = 0.0; it = 0
    reps = 1 if tier == 'quick' else 5
    cap = 5e4 if tier == 'quick' else 2e5
    known = set(LIBRARY)
    # one-population models the table above does not know (a new model is not a violation; it is listed in the evidence)
    try:
        D = importlib.import_module(dadi.__name__ + '.Demographics1D')
        covered = [lib_function(dadi, k) for k in LIBRARY]
        chk.stats['library_models_not_covered'] = sorted(k for k, v in vars(D).items() if callable(v) and hasattr(v, '__param_names__') and not any(v is c for c in covered))
    except Exception as e:
        chk.fail('library:import:' + type(e).__name__, 'dadi.Demographics1D cannot be imported: %r' % (e,), {})
        return
    for rep in range(reps):
        for name in LIBRARY:
            fam = (LIBRARY[name][1], LIBRARY[name][2])
            for pattern in PATTERNS[fam]:
                c = draw_library_case(rng, name, pattern, cap)
                if c is None: continue
                S, X = c
                n = int(rng.integers(2, 31)) if tier == 'thorough' or it % 3 else int(rng.integers(2, 13))
                L = [3, 2, 3, 4, 1, 3, 5, 6][it % 8]; log = bool((it // 3) % 2); it += 1
                pat = '/'.join(pattern[0]) + '|' + '/'.join(pattern[1])
                chk.stat('library:' + name)
                worst = max(worst, coalescent_case(chk, dadi, n, None, grid_list(n, L), log, False, lib=dict(model=name, sizes=S, times=X, pattern=pat)))
    chk.stats['library_worst_rel_err'] = worst
    # the library's equilibrium-with-selection model against the closed form (genic selection, nu = 1)
    for rep in range(2 if tier == 'quick' else 8):
        g = float(rng.choice([-1, 1])) * gen.loguniform(rng, 0.1, 20); n = int(rng.integers(4, 13))
        inp = dict(model='equil', gamma=g, n=n, pts=[160, 170, 180])
        chk.l3(('library:equil', g > 0))
        try:
            F = dadi.Numerics.make_extrap_func(lib_function(dadi, 'equil'))
            a = np.asarray(F((g,), (n,), inp['pts']))[1:-1]
        except Exception as e:
            chk.fail('library:equil:raises:' + type(e).__name__, 'DFE.DemogSelModels.equil((%.4g,)) raises %r' % (g, e), inp); continue
        th = selection_equilibrium_sfs(n, 1.0, g, 0.5)
        big = th >= 1e-6 * th.max()
        err = float(np.max(np.abs(a - th)[big] / th[big])) if np.all(np.isfinite(a)) else float('inf')
        if not err <= 0.015:
            chk.fail('library:equil:1.5pct', 'DFE.DemogSelModels.equil((%.4g,)) is %.2f%% from the closed-form drift-selection equilibrium' % (g, 100 * err), inp)

def dt_order(chk, ctx, rng, n_cases):
    """error proportional to dt: ||fs(dt)-fs(dt/10)|| / ||fs(dt/10)-fs(dt/100)|| in [4,25] on a fixed grid (>= 20 steps)"""
    dadi = ctx['dadi']
    ratios = []
    for it in range(n_cases):
        n = int(rng.integers(4, 16))
        ep = random_history(rng)
        tries = 0
        while not (40 <= nsteps(ep, 1e-3) and nsteps(ep, 1e-5) <= 4e5 and min(T / (1e-3 / (0.25 / nu)) for nu, T in ep) >= 8) and tries < 200:
            ep = random_history(rng); tries += 1
        if tries >= 200: continue
        pts = [max(n + 10, 40)]
        a = sfs_model(dadi, n, ep, pts, 1e-3); b = sfs_model(dadi, n, ep, pts, 1e-4); c = sfs_model(dadi, n, ep, pts, 1e-5)
        d1 = np.linalg.norm(a - b); d2 = np.linalg.norm(b - c)
        chk.l3(('dt-order', len(ep), n))
        inp = dict(n=n, epochs=ep, pts=pts)
        if d2 == 0 or d1 == 0:
            continue
        r = d1 / d2; ratios.append(r)
        if not (4.0 <= r <= 25.0):
            chk.fail('dt-order', 'refining the time step 10x twice changes the spectrum by %.3g then %.3g: ratio %.2f, expected ~10 (error proportional to dt)' % (d1, d2, r), inp)
    chk.stats['dt_order_ratios'] = [round(r, 2) for r in ratios]

# ---------------------------------------------------------------- K: the library's models against the Lean model of their histories
class Recorded:
    """run a library model once with Integration.one_pop and Spectrum.from_phi wrapped: the (T, nu, gamma) of every one_pop call and
    the density handed to the sampler"""
    def __init__(self, dadi):
        self.dadi = dadi; self.I = dadi.Integration
        self.SP = importlib.import_module(dadi.__name__ + '.Spectrum_mod').Spectrum
        self.calls = []; self.phi = None; self.xx = None
    def __enter__(self):
        import inspect
        self.o1 = self.I.one_pop; self.o2 = self.SP.__dict__['from_phi']
        sig = inspect.signature(self.o1)
        def op(*a, **k):
            b = sig.bind(*a, **k); b.apply_defaults()
            self.calls.append((b.arguments['T'], b.arguments['nu'], b.arguments['gamma']))
            return self.o1(*a, **k)
        raw = self.o2.__func__ if isinstance(self.o2, staticmethod) else self.o2
        def fp(phi, ns, xxs, *a, **k):
            self.phi = np.array(phi, dtype=float); self.xx = np.array(xxs[0], dtype=float)
            return raw(phi, ns, xxs, *a, **k)
        self.I.one_pop = op; self.SP.from_phi = staticmethod(fp)
        return self
    def __exit__(self, *a):
        self.I.one_pop = self.o1; setattr(self.SP, 'from_phi', self.o2)

def library_correspondence(chk, ctx, rng, tier):
    """K: (1) the one_pop calls each library model makes = the calls of the generated epoch program (Generated/Demog1D.lean) for the
    same parameter vector; (2) for the neutral piecewise-constant models, the heterozygosity of the density handed to the sampler =
    the Lean model's closed form over the documented history (`c01.het`, proved equal to the step-by-step recursion)."""
    dadi = ctx['dadi']; drv = ctx.get('driver')
    if drv is None or not drv.ok(): return
    r = drv.ask('c01.models')
    table = {}
    if r.startswith('ok '):
        for t in r[3:].split(';'):
            nm, npar, nep = t.split(':'); table[nm] = (int(npar), int(nep))
    # the table is exactly the set of one-population model functions the library has
    have = {}
    for modname in ('Demographics1D', 'DFE.DemogSelModels'):
        M = importlib.import_module(dadi.__name__ + '.' + modname)
        for k, v in vars(M).items():
            if callable(v) and hasattr(v, '__param_names__') and getattr(v, '__name__', None) == k and getattr(v, '__module__', '').endswith(modname):
                have[k] = (modname, len(v.__param_names__))
    for nm in LIBRARY:
        if nm not in table:
            chk.k_bad('c01.models', dict(model=nm), 'present in the library', 'absent from the generated table', 'missing'); continue
        if nm in have and have[nm][1] != table[nm][0]:
            chk.k_bad('c01.models', dict(model=nm), have[nm][1], table[nm][0], 'number of parameters')
        else:
            chk.k_ok('c01.models')
    for nm in table:
        if nm not in have:
            chk.k_bad('c01.models', dict(model=nm), 'absent from the library', 'in the generated table', 'extra')
    reps = 1 if tier == 'quick' else 4
    for rep in range(reps):
        for name in LIBRARY:
            if name not in table: continue
            fam = (LIBRARY[name][1], LIBRARY[name][2])
            for pattern in PATTERNS[fam]:
                c = draw_library_case(rng, name, pattern, 2e4)
                if c is None: continue
                S, X = c
                params = LIBRARY[name][3](S, X)
                pts = int(rng.integers(16, 36)); tf = [1e-3, 5e-4, 2e-3][int(rng.integers(0, 3))]
                inp = dict(model=name, params=params, pts=pts, timescale_factor=tf)
                try:
                    with TF(dadi.Integration, tf), Recorded(dadi) as R:
                        lib_function(dadi, name)(params, (4,), pts)
                except Exception as e:
                    chk.k_bad('c01.calls', inp, 'raises %r' % (e,), None, 'raises'); continue
                plist = [] if params is None else list(params)
                ans = drv.ask('c01.calls %s %s' % (name, common.fmt_list(plist)))
                impl = [(float(T), ('func' if callable(nu) else float(nu)), float(g)) for T, nu, g in R.calls]
                model = None
                if ans.startswith('ok '):
                    model = []
                    for t in ([] if ans[3:] == '-' else ans[3:].split(';')):
                        T, nu, g = t.split('|')
                        model.append((float(common.parse_list(T)[0]), 'func' if nu.startswith('func:') else float(common.parse_list(nu)[0]), float(common.parse_list(g)[0])))
                if model is None or len(model) != len(impl) or any(a != b for a, b in zip(impl, model)):
                    chk.k_bad('c01.calls', inp, impl, model if model is not None else ans, 'the one_pop calls made differ from the epochs of the model (T, nu, gamma)')
                else:
                    chk.k_ok('c01.calls')
                if any(callable(nu) for nu, T in LIBRARY[name][4](S, X)) or R.phi is None:
                    continue
                xx = R.xx; w = trap_w(xx); g = xx * (1 - xx)
                H = float(np.sum(w * g * R.phi))
                phi0 = dadi.PhiManip.phi_1D(xx)
                H0 = float(np.sum(w * g * phi0))
                ans = drv.ask('c01.het %s %s %s %s %s %s' % (name, common.rat(tf), common.rat(float(xx[1])), common.rat(1.0), common.rat(H0), common.fmt_list(plist)))
                if not ans.startswith('ok '):
                    chk.k_bad('c01.het', inp, H, ans, 'model refuses'); continue
                Hm = float(common.parse_list(ans[3:])[0])
                ok, err, scale = close([H], [Hm], rtol=1e-7)
                if ok: chk.k_ok('c01.het')
                else: chk.k_bad('c01.het', dict(inp, H0=H0, x1=float(xx[1])), H, Hm, err)

# ---------------------------------------------------------------- D: selection equilibrium vs closed form
def eq_fs(dadi, n, nu, g, h, pts_l, T=0.0, from_neutral=False, tf=None):
    I = dadi.Integration
    def f(params, ns, pts):
        xx = dadi.Numerics.default_grid(pts)
        phi = dadi.PhiManip.phi_1D(xx, nu=nu) if from_neutral else dadi.PhiManip.phi_1D(xx, nu=nu, gamma=g, h=h)
        if T > 0:
            phi = I.one_pop(phi, xx, T, nu, gamma=g, h=h)
        return dadi.Spectrum.from_phi(phi, ns, (xx,))
    F = dadi.Numerics.make_extrap_func(f)
    if tf is None:
        return np.asarray(F(None, (n,), pts_l))[1:-1]
    with TF(I, tf):
        return np.asarray(F(None, (n,), pts_l))[1:-1]

def selection_equilibrium(chk, ctx, rng, n_cases, tier):
    dadi = ctx['dadi']
    worst = 0.0; orders = []
    for it in range(n_cases):
        n = int(rng.integers(4, 17))
        nu = gen.loguniform(rng, 0.1, 10)
        G = float(rng.choice([-1, 1])) * gen.loguniform(rng, 0.1, 50)
        if G > 20: G = 20.0
        g = G / nu
        h = float(rng.uniform(0, 1)) if it % 3 else 0.5
        th = selection_equilibrium_sfs(n, nu, g, h)
        big = th >= 1e-6 * th.max()
        inp = dict(n=n, nu=nu, gamma=g, h=h, G=G)
        chk.l3(('sel-eq', h == 0.5, G > 0))
        e = []
        for base in (80, 160):
            a = eq_fs(dadi, n, nu, g, h, [base, base + 10, base + 20])
            if not np.all(np.isfinite(a)):
                chk.fail('sel-eq:nonfinite', 'equilibrium spectrum not finite', inp); e = None; break
            e.append(float(np.max(np.abs(a - th)[big] / th[big])))
        if e is None: continue
        worst = max(worst, e[1])
        if e[1] > 0.015:
            chk.fail('sel-eq:1.5pct', 'equilibrium spectrum (pts 160..180, extrapolated) is %.2f%% from the closed-form drift-selection equilibrium (nu=%.3g gamma=%.3g h=%.3g)' % (100 * e[1], nu, g, h), inp)
        elif e[1] > 2e-5:
            r = e[0] / e[1]; orders.append(r)
            if r < 2.0:
                chk.fail('sel-eq:convergence', 'error vs closed form does not shrink under grid refinement: %.3g at pts 80..100, %.3g at 160..180' % (e[0], e[1]), inp)
        # integrating a neutral start to equilibrium must reach the same closed form (ties the integrator to theory)
        if it % 4 == 0:
            T = 10 * nu if G < 0 else 6 * nu
            main = th >= 1e-3 * th.max()
            eb = []
            for base in (80, 160):
                b = eq_fs(dadi, n, nu, g, h, [base, base + 10, base + 20], T=T, from_neutral=True, tf=2e-4)
                eb.append((float(np.max(np.abs(b - th)[big] / th[big])), float(np.max(np.abs(b - th)[main] / th[main]))))
            chk.stats.setdefault('sel_eq_from_neutral_err', []).append([round(x, 5) for x in (eb[0][0], eb[1][0], eb[1][1])])
            # calibrated on the unchanged tree: the deviation is pure grid error (7-9x smaller per doubling of pts, independent of dt);
            # entries >= 1e-3 of the largest are within 0.3% at pts 160..180
            if eb[1][1] > 0.015:
                chk.fail('sel-eq:from-neutral', 'integrating a neutral start for T=%.3g under (nu=%.3g, gamma=%.3g, h=%.3g) ends %.2f%% from the closed-form equilibrium (pts 160..180, entries >= 1e-3 of the largest)' % (T, nu, g, h, 100 * eb[1][1]), inp)
            elif eb[1][0] > 5e-3 and eb[0][0] / eb[1][0] < 2.5:   # below 0.5% the residual is time-step/finite-T error, not grid error
                chk.fail('sel-eq:from-neutral-convergence', 'deviation from the closed-form equilibrium after integrating a neutral start does not shrink under grid refinement: %.3g at pts 80..100, %.3g at 160..180' % (eb[0][0], eb[1][0]), inp)
    chk.stats['sel_eq_worst_rel_err_pts160'] = worst
    chk.stats['sel_eq_refinement_ratios'] = [round(r, 2) for r in orders]

# ---------------------------------------------------------------- E: finiteness / continuity of the equilibrium density
def density_regularity(chk, ctx, rng, tier):
    dadi = ctx['dadi']; P = dadi.PhiManip
    xx = dadi.Numerics.default_grid(50)
    # deterministic sweep of the effective selection coefficient over the whole stated box, dense near the regime switches
    gs = [0.0, 1e-9, -1e-9, 1e-3, -1e-3, 1.0, -1.0, 30.0, 299.9, 300.1, 1e3, -10.0, -100.0, -299.9, -300.1, -354.0, -354.7, -354.8,
          -354.85, -354.9, -355.0, -356.0, -400.0, -1e3, -1e4, -1e5, -1e6]
    hs = [0.0, 0.2, 0.5 - 1e-9, 0.5, 0.5 + 1e-9, 0.8, 1.0]
    extra = [(float(-gen.loguniform(rng, 1, 1e6)), float(rng.uniform(0, 1))) for _ in range(20 if tier == 'quick' else 150)]
    extra += [(float(gen.loguniform(rng, 1e-3, 1e3)), float(rng.uniform(0, 1))) for _ in range(10 if tier == 'quick' else 60)]
    cases = [(g, h) for g in gs for h in hs] + extra
    for (G, h) in cases:
        for nu, beta in ((1.0, 1.0), (gen.loguniform(rng, 0.1, 10), gen.loguniform(rng, 0.3, 3))):
            keff = nu * 4 * beta / (beta + 1) ** 2
            g = G / keff                     # so that the effective coefficient is G
            if not (-1e6 <= g <= 1e3): continue
            chk.l3(('regular', round(math.copysign(math.log10(abs(G) + 1e-12), G), 1), h))
            inp = dict(gamma=g, h=h, nu=nu, beta=beta, effective_gamma=G)
            try:
                with np.errstate(all='ignore'):
                    phi = P.phi_1D(xx, nu=nu, gamma=g, h=h, beta=beta)
            except Exception as e:
                chk.fail('phi_1D:raises:' + type(e).__name__, 'phi_1D raises %r' % (e,), inp); continue
            if not np.all(np.isfinite(phi)):
                bad = int(np.sum(~np.isfinite(phi)))
                reg = 'overflow-window' if (-354.95 < G < -354.6 and h != 0.5) else 'other'
                chk.fail('phi_1D:nonfinite:%s' % reg, 'phi_1D(gamma=%.6g, h=%.3g, nu=%.3g, beta=%.3g) has %d non-finite entries' % (g, h, nu, beta, bad), inp); continue
            if np.any(phi < 0):
                chk.fail('phi_1D:negative', 'phi_1D(gamma=%.6g, h=%.3g) has negative entries (min %.3g)' % (g, h, float(phi.min())), inp)
    # continuity across the switches: parameters 1e-9 apart give densities within 1e-6 of the maximum
    pairs = []
    for h in (0.2, 0.5, 0.8):
        pairs += [((1e-9, h), (-1e-9, h)), ((0.0, h), (1e-9, h)), ((-300 + 1e-7, h), (-300 - 1e-7, h)), ((300 - 1e-7, h), (300 + 1e-7, h))]
    for g in (-20.0, -2.0, 0.0, 3.0):
        pairs += [((g, 0.5), (g, 0.5 + 1e-9)), ((g, 0.5), (g, 0.5 - 1e-9))]
    for (a, b) in pairs:
        chk.l3(('continuity', a, b))
        with np.errstate(all='ignore'):
            pa = P.phi_1D(xx, gamma=a[0], h=a[1]); pb = P.phi_1D(xx, gamma=b[0], h=b[1])
        if not (np.all(np.isfinite(pa)) and np.all(np.isfinite(pb))):
            continue
        jump = float(np.max(np.abs(pa - pb)) / np.max(np.abs(pa)))
        if jump > 1e-6:
            chk.fail('phi_1D:discontinuous', 'phi_1D jumps by %.3g of its maximum between (gamma,h)=%r and %r' % (jump, a, b), dict(a=a, b=b))

# ---------------------------------------------------------------- F: stationarity under further integration
def stationarity(chk, ctx, rng, n_cases):
    dadi = ctx['dadi']; I = dadi.Integration
    ratios = []
    for it in range(n_cases):
        nu = gen.loguniform(rng, 0.1, 10)
        G = [-50.0, -5.0, 3.0, 20.0, 0.0][it % 5] * float(rng.uniform(0.7, 1.3))
        g = G / nu
        h = [0.2, 0.5, 0.8][it % 3]
        n = 10
        # both settings of the Chang-Cooper option `Integration.use_delj_trick` (a configuration of the same integrator: the
        # equilibrium must be stationary under either; on the unchanged tree the option keeps ratios ~4 and <= 1.5 % at pts=240)
        for use_delj in (False, True):
            ch = []
            old_delj = I.use_delj_trick; I.use_delj_trick = use_delj
            try:
                for pts in (60, 120, 240):
                    xx = dadi.Numerics.default_grid(pts)
                    phi = dadi.PhiManip.phi_1D(xx, nu=nu, gamma=g, h=h)
                    fs0 = np.asarray(dadi.Spectrum.from_phi(phi, (n,), (xx,)))[1:-1]
                    phi2 = I.one_pop(phi, xx, 0.3 * nu, nu, gamma=g, h=h)
                    fs1 = np.asarray(dadi.Spectrum.from_phi(phi2, (n,), (xx,)))[1:-1]
                    big = fs0 >= 1e-6 * fs0.max()
                    ch.append(float(np.max(np.abs(fs1 - fs0)[big] / fs0[big])) if np.all(np.isfinite(fs1)) else float('inf'))
            finally:
                I.use_delj_trick = old_delj
            tag = ':delj' if use_delj else ''
            chk.l3(('stationary', it % 5, it % 3, use_delj))
            inp = dict(nu=nu, gamma=g, h=h, changes=ch, use_delj_trick=use_delj)
            # the change is grid error: it must shrink ~4x per doubling (order 2) and be small on the finest grid
            r1 = ch[0] / ch[1] if ch[1] > 0 else float('inf'); r2 = ch[1] / ch[2] if ch[2] > 0 else float('inf')
            ratios.append((round(r1, 2), round(r2, 2)))
            if ch[2] > 1e-9 and not (2.5 <= r2 <= 6.5):
                chk.fail('stationarity:order' + tag, 'change of the equilibrium spectrum under further integration does not vanish like a grid error: %.3g, %.3g, %.3g at pts=60,120,240 (nu=%.3g gamma=%.3g h=%.2g use_delj_trick=%s)' % (ch[0], ch[1], ch[2], nu, g, h, use_delj), inp)
            # the coarsest grid of the three is already in the asymptotic range on the unchanged tree (ratio 2.9-5.5 and change <= 59 % over
            # 360 draws x both options): an instability that only shows on the coarse grid must not hide behind the two finer ones
            if ch[1] > 1e-9 and not (2.0 <= r1 <= 8.0) or not (ch[0] <= 2.0):
                chk.fail('stationarity:coarse' + tag, 'change of the equilibrium spectrum under further integration at pts=60 is not grid error of the same order as at pts=120,240: %.3g, %.3g, %.3g (nu=%.3g gamma=%.3g h=%.2g use_delj_trick=%s)' % (ch[0], ch[1], ch[2], nu, g, h, use_delj), inp)
            if ch[2] > 0.15:
                chk.fail('stationarity:size' + tag, 'equilibrium spectrum changes by %.1f%% under further integration even at pts=240 (use_delj_trick=%s)' % (100 * ch[2], use_delj), inp)
    chk.stats['stationarity_refinement_ratios'] = ratios

def run(chk, ctx):
    tier = ctx['tier']; rng = common.Rng(ctx['seed'], 'C01'); q = tier == 'quick'
    chk.rule = ('A: random grids/densities/parameters for the discrete moment laws on implicit_1Dx; B: random 1-4 epoch histories over the stated box vs the exact '
                'coalescent expectation at a tenth of the default step on refined grids (lin/log extrapolation, constant/function parameters); C: time-step order; '
                'D: random (nu, gamma, h) vs closed-form equilibrium under grid refinement and from a neutral start; E: deterministic sweep of the equilibrium density over '
                'the whole gamma box incl. regime switches; F: stationarity order; B2: histories with the special values of the box (an epoch at exactly the reference size / exactly the '
                'previous size after a non-equilibrium epoch, first epoch at 1, zero-length epoch, lengths at the ends of the box), constant and time-function passing; '
                'L: every one-population model function of the library (Demographics1D, DFE.DemogSelModels at gamma = 0, inbreeding at F = 0) x a fixed list of special-value '
                'patterns + random draws vs the exact coalescent expectation of the documented history (exponential sizes: time-dependent death rates by refinement); an error '
                'above 1.5 % counts only if it persists with every grid size x2 and x4; K: one_pop calls and final heterozygosity of the library models vs the generated '
                'epoch programs. non-trivial = distinct (clause, regime) keys')
    chk.unproved = ['convergence of the scheme to the diffusion and of the diffusion to coalescent/equilibrium theory (clauses B, C, D, F) is NUMERICAL: thresholds are the '
                    "property's own 1.5% under the refinement it names, time-step ratio in [4,25], grid-refinement ratios calibrated on the unchanged tree",
                    'finiteness/non-negativity/continuity of phi_1D (clause E) involves exp and scipy.integrate.quad: evaluated, not proved',
                    'proved: heterozygosity/influx/mass laws per step for every grid and dt, closed form over any number of steps, fixed point, scaling of the equilibrium constructors']
    chk.assumptions.append('scipy.integrate.quad / scipy.linalg.expm in the theory oracles (harness/c01_oracle.py) are trusted to ~1e-9')
    chk.assumptions.append('exponential-size models (growth, bottlegrowth): the 1.5 % clause is applied at the first tenth-power of the step at which no single step changes the size by more than e^0.5 (the property states it for piecewise-constant histories)')
    from . import c02
    # K on the 1-D kernel (shared model op)
    for rep in range(6 if q else 40):
        c = c02.gen_case(rng, 1, 0, tier)
        c02.check_kernel_case(chk, ctx, c)
    library_correspondence(chk, ctx, common.Rng(ctx['seed'], 'C01/libK'), tier)
    moment_laws(chk, ctx, rng, 40 if q else 400)
    density_regularity(chk, ctx, rng, tier)
    coalescent_convergence(chk, ctx, rng, 10 if q else 80, tier)
    special_histories(chk, ctx, common.Rng(ctx['seed'], 'C01/special'), tier)
    library_models(chk, ctx, common.Rng(ctx['seed'], 'C01/library'), tier)
    dt_order(chk, ctx, rng, 3 if q else 20)
    selection_equilibrium(chk, ctx, rng, 6 if q else 40, tier)
    stationarity(chk, ctx, rng, 5 if q else 30)

def replay(chk, ctx, data):
    inp = data.get('input') or {}
    if str(data.get('key', '')).startswith(('coalescent:', 'library:')) and inp.get('model') in LIBRARY and inp['model'] != 'equil' and 'sizes' in inp:
        coalescent_case(chk, ctx['dadi'], int(inp['n']), None, list(inp['pts']), bool(inp['log']), False,
                        lib=dict(model=inp['model'], sizes=[float(v) for v in inp['sizes']], times=[float(v) for v in inp['times']]))
    elif str(data.get('key', '')).startswith('coalescent:') and 'epochs' in inp:
        coalescent_case(chk, ctx['dadi'], int(inp['n']), [tuple(e) for e in inp['epochs']], list(inp['pts']), bool(inp['log']), bool(inp['as_func']), abs_axis=bool(inp.get('abs_axis', False)))
    else:
        run(chk, ctx)
