"""C01 — one-population SFS vs exact coalescent / selection-equilibrium theory.
Proved (Props/C01.lean): the discrete heterozygosity law, influx law, closed form and fixed point, scaling of the
equilibrium constructors.  Here: (A) those laws on the real kernel (moment correspondence) + K on 1-D steps;
(B-F) the numerical clauses against independent theory oracles (harness/c01_oracle.py)."""
import numpy as np, math
from . import common, gen
from .common import close
from .c01_oracle import coalescent_sfs, selection_equilibrium_sfs

PROP = 'C01'
GENERATED = ['Coeffs', 'Phi1D', 'Phi1DReal']
NEEDS_BUILD = True
DRIVER_MODULES = ['Integ']

class TF:
    """temporarily set Integration.timescale_factor"""
    def __init__(self, I, v): self.I = I; self.v = v
    def __enter__(self): self.old = self.I.timescale_factor; self.I.timescale_factor = self.v
    def __exit__(self, *a): self.I.timescale_factor = self.old

def trap_w(xx):
    w = np.zeros(len(xx)); dx = np.diff(xx); w[:-1] += dx / 2; w[1:] += dx / 2
    return w

# ---------------------------------------------------------------- A: moment laws on the real kernel
def moment_laws(chk, ctx, rng, n):
    dadi = ctx['dadi']; I = dadi.Integration; ic = dadi.integration_c
    for it in range(n):
        N = int(rng.integers(5, 40))
        xx, kind = gen.grid(rng, N)
        phi = gen.density(rng, [N])
        nu = gen.loguniform(rng, 1e-2, 1e2); beta = gen.loguniform(rng, 0.2, 5)
        dt = gen.loguniform(rng, 1e-6, 1e-1); th = float(rng.uniform(0.1, 3))
        h = float(rng.uniform(0, 1))
        w = trap_w(xx); g = xx * (1 - xx)
        H0 = float(np.sum(w * g * phi))
        inj = I._inject_mutations_1D(phi.copy(), dt, xx, th)
        H1 = float(np.sum(w * g * inj))
        out = ic.implicit_1Dx(inj.copy(), xx, nu, 0.0, h, beta, dt, use_delj_trick=int(it % 2))
        H2 = float(np.sum(w * g * out))
        kappa = (beta + 1) ** 2 / (4 * beta) / nu
        inp = dict(N=N, grid=kind, xx=xx, phi=phi, nu=nu, beta=beta, dt=dt, theta0=th, h=h)
        chk.l3(('het', kind, it % 2))
        want1 = H0 + dt * th * (1 - xx[1]) / 2
        if not math.isclose(H1, want1, rel_tol=1e-10):
            chk.fail('het-law:inject', 'heterozygosity after injection %.12g, law H + dt*theta0*(1-x1)/2 = %.12g' % (H1, want1), inp)
        want2 = H1 / (1 + kappa * dt)
        if not math.isclose(H2, want2, rel_tol=1e-9):
            chk.fail('het-law:step', 'heterozygosity after one neutral step %.12g, law H/(1+kappa*dt) = %.12g (kappa=(beta+1)^2/(4 beta nu))' % (H2, want2), inp)
        # mass law (C04_line_mass in 1-D): mass' = mass - dt*(bc0*w0*phi'_0 + bc1*w_{N-1}*phi'_{N-1}); for gamma=0: bc = (0.5/nu)*2/dx
        m1 = float(np.sum(w * inj)); m2 = float(np.sum(w * out))
        dx = np.diff(xx)
        absorbed = dt * ((0.5 / nu) * 2 / dx[0] * w[0] * out[0] + (0.5 / nu) * 2 / dx[-1] * w[-1] * out[-1])
        if not math.isclose(m2, m1 - absorbed, rel_tol=1e-9, abs_tol=1e-12 * abs(m1)):
            chk.fail('mass-law:step', 'mass after step %.12g, law mass - dt*absorbed = %.12g' % (m2, m1 - absorbed), inp)
        # l1-stability (C01_stability_neutral): a density of arbitrary sign is not amplified in the trapezoid-weighted l1 norm
        sg = phi * rng.choice([-1.0, 1.0], size=N)
        so = ic.implicit_1Dx(sg.copy(), xx, nu, 0.0, h, beta, dt, use_delj_trick=int(it % 2))
        n0 = float(np.sum(w * np.abs(sg))); n1 = float(np.sum(w * np.abs(so)))
        if not (n1 <= n0 * (1 + 1e-12)):
            chk.fail('stability:l1', 'one neutral step amplified the weighted l1 norm of a signed density: %.12g -> %.12g' % (n0, n1), dict(inp, signed=sg))
        # mean-frequency law (C01_mean_step): sum w x phi changes only through the absorbing term at x = 1
        f1 = float(np.sum(w * xx * inj)); f2 = float(np.sum(w * xx * out))
        fixed = dt * (0.5 / nu) * 2 / dx[-1] * w[-1] * out[-1]
        if not math.isclose(f2, f1 - fixed, rel_tol=1e-9, abs_tol=1e-12 * abs(f1)):
            chk.fail('mean-law:step', 'mean frequency after one neutral step %.12g, law mean - dt*w_last*bc_last*phi_last = %.12g' % (f2, f1 - fixed), inp)

# ---------------------------------------------------------------- B/C: coalescent convergence
_EQ = {}
def sfs_model(dadi, n, epochs, pts_l, tf, log=False, as_func=False, gamma=0.0, h=0.5):
    I = dadi.Integration
    def f(params, ns, pts):
        xx = dadi.Numerics.default_grid(pts)
        # the equilibrium density of a grid is computed once and the same array is handed to every history, as a user
        # scanning histories from a cached starting density does (the integrators must not modify it)
        key = (id(dadi), pts, gamma, h)
        if key not in _EQ:
            _EQ[key] = dadi.PhiManip.phi_1D(xx, gamma=gamma, h=h)
        phi = _EQ[key]
        for nu, T in epochs:
            if as_func:
                phi = I.one_pop(phi, xx, T, (lambda t, v=nu: v), gamma=gamma, h=h)
            else:
                phi = I.one_pop(phi, xx, T, nu, gamma=gamma, h=h)
        return dadi.Spectrum.from_phi(phi, ns, (xx,))
    F = dadi.Numerics.make_extrap_log_func(f) if log else dadi.Numerics.make_extrap_func(f)
    with TF(I, tf):
        return np.asarray(F(None, (n,), pts_l))[1:-1]

def random_history(rng):
    k = int(rng.integers(1, 5))
    return [(gen.loguniform(rng, 0.05, 20), gen.loguniform(rng, 0.005, 3)) for _ in range(k)]

def grid_list(n, L):
    """a grid list 'at or above the sample size' of length L, fine enough for the refinement clause (calibrated on the unchanged
    tree: worst error 0.7 % over lengths 1…6)"""
    if L == 1: return [max(400, 20 * n)]
    if L == 2:
        b = max(6 * n, 120); return [b, b + 40]
    b = max(n + 10, 40); return [b + 10 * i for i in range(L)]

def nsteps(epochs, tf):
    return sum(T / (tf / (0.25 / nu)) for nu, T in epochs)

def coalescent_case(chk, dadi, n, ep, pts, log, as_func):
    L = len(pts)
    th = coalescent_sfs(n, ep)
    inp = dict(n=n, epochs=ep, pts=pts, log=log, as_func=as_func)
    key = 'coalescent:%s:%s:grids=%d' % ('log' if log else 'lin', 'func' if as_func else 'const', L)
    chk.l3((key, len(ep), n))
    try:
        fine = sfs_model(dadi, n, ep, pts, 1e-4, log=log, as_func=as_func)
    except Exception as e:
        chk.fail(key + ':raises:' + type(e).__name__, 'model raises %r' % (e,), inp); return 0.0
    if not np.all(np.isfinite(fine)) or np.any(fine < 0):
        chk.fail(key + ':nonfinite', 'spectrum has non-finite or negative entries', inp); return 0.0
    err = float(np.max(np.abs(fine - th) / th))
    if err > 0.015:
        i = int(np.argmax(np.abs(fine - th) / th)) + 1
        suffix = ':1.5pct'
        # Known shortfall of the unchanged tree (F-01a, known_findings.json): right after an expansion by a factor >= 50 the step rule
        # dt ~ nu takes the whole new epoch in a few dozen steps, and the transient inherited from the bottleneck is under-resolved:
        # 1.6-2.4 % at a tenth of the default step (pure time-step error: it does not move with the grid and falls with dt).
        # Such a case gets its own key so that any other way of exceeding 1.5 % is still reported as a violation.
        steps = [T / (1e-4 * 4 * nu) for nu, T in ep]
        trans = [k for k in range(1, len(ep)) if ep[k][0] / ep[k - 1][0] >= 50 and steps[k] <= 64]
        if trans and err <= 0.03:
            try:
                finer = sfs_model(dadi, n, ep, pts, 1e-5, log=log, as_func=as_func)
                err2 = float(np.max(np.abs(finer - th) / th))
            except Exception:
                err2 = err
            inp = dict(inp, err_at_tenth=err, err_at_hundredth=err2, steps_per_epoch=steps)
            if err2 <= err / 3 and err2 <= 0.015:
                suffix = ':1.5pct:transient-after-expansion:below-3pct'
        chk.fail(key + suffix, 'entry %d is %.4g, exact coalescent expectation %.4g (%.2f%% off) at a tenth of the default step, pts=%s' % (i, fine[i-1], th[i-1], 100 * err, pts), inp)
    chk.sample(dict(clause='coalescent', n=n, epochs=ep, pts=pts, log=log, as_func=as_func, max_rel_err=err))
    return err

# recorded inputs of listed findings (known_findings.json): re-evaluated on every run, so the KNOWN-FINDING line is printed while the
# finding is open and a change of its behaviour (worse than 3 %, or no longer time-step dominated) is reported as a violation
CORPUS = [dict(n=20, epochs=[(1.9712753538489214, 0.009960484102365889), (0.07120099208428853, 0.6906479947035272),
                             (12.881385478601226, 0.13278337171903462)], pts=[400], log=True, as_func=False)]

def coalescent_convergence(chk, ctx, rng, n_cases, tier):
    dadi = ctx['dadi']
    worst = 0.0
    for c in CORPUS:
        coalescent_case(chk, dadi, c['n'], c['epochs'], c['pts'], c['log'], c['as_func'])
    for it in range(n_cases):
        n = int(rng.integers(2, 31)) if tier == 'thorough' or it % 3 else int(rng.integers(2, 13))
        ep = random_history(rng)
        # keep the run time bounded: total steps at tf/10
        while nsteps(ep, 1e-4) > (4e5 if tier == 'thorough' else 1.2e5):
            ep = random_history(rng)
        # grid lists of every length the extrapolation wrappers accept (1 = no extrapolation, on a fine grid; 2…6 grids)
        L = [3, 1, 2, 4, 3, 6, 5, 1][(it + it // 8) % 8]
        pts = grid_list(n, L)
        log = bool(it % 2); as_func = bool((it // 2) % 2)
        worst = max(worst, coalescent_case(chk, dadi, n, ep, pts, log, as_func))
    chk.stats['coalescent_worst_rel_err'] = worst

def dt_order(chk, ctx, rng, n_cases):
    """error proportional to dt: ||fs(dt)-fs(dt/10)|| / ||fs(dt/10)-fs(dt/100)|| in [4,25] on a fixed grid (>= 20 steps)"""
    dadi = ctx['dadi']
    ratios = []
    for it in range(n_cases):
        n = int(rng.integers(4, 16))
        ep = random_history(rng)
        tries = 0
        while not (40 <= nsteps(ep, 1e-3) and nsteps(ep, 1e-5) <= 4e5 and min(T / (1e-3 / (0.25 / nu)) for nu, T in ep) >= 8) and tries < 200:
            ep = random_history(rng); tries += 1
        if tries >= 200: continue
        pts = [max(n + 10, 40)]
        a = sfs_model(dadi, n, ep, pts, 1e-3); b = sfs_model(dadi, n, ep, pts, 1e-4); c = sfs_model(dadi, n, ep, pts, 1e-5)
        d1 = np.linalg.norm(a - b); d2 = np.linalg.norm(b - c)
        chk.l3(('dt-order', len(ep), n))
        inp = dict(n=n, epochs=ep, pts=pts)
        if d2 == 0 or d1 == 0:
            continue
        r = d1 / d2; ratios.append(r)
        if not (4.0 <= r <= 25.0):
            chk.fail('dt-order', 'refining the time step 10x twice changes the spectrum by %.3g then %.3g: ratio %.2f, expected ~10 (error proportional to dt)' % (d1, d2, r), inp)
    chk.stats['dt_order_ratios'] = [round(r, 2) for r in ratios]

# ---------------------------------------------------------------- D: selection equilibrium vs closed form
def eq_fs(dadi, n, nu, g, h, pts_l, T=0.0, from_neutral=False, tf=None):
    I = dadi.Integration
    def f(params, ns, pts):
        xx = dadi.Numerics.default_grid(pts)
        phi = dadi.PhiManip.phi_1D(xx, nu=nu) if from_neutral else dadi.PhiManip.phi_1D(xx, nu=nu, gamma=g, h=h)
        if T > 0:
            phi = I.one_pop(phi, xx, T, nu, gamma=g, h=h)
        return dadi.Spectrum.from_phi(phi, ns, (xx,))
    F = dadi.Numerics.make_extrap_func(f)
    if tf is None:
        return np.asarray(F(None, (n,), pts_l))[1:-1]
    with TF(I, tf):
        return np.asarray(F(None, (n,), pts_l))[1:-1]

def selection_equilibrium(chk, ctx, rng, n_cases, tier):
    dadi = ctx['dadi']
    worst = 0.0; orders = []
    for it in range(n_cases):
        n = int(rng.integers(4, 17))
        nu = gen.loguniform(rng, 0.1, 10)
        G = float(rng.choice([-1, 1])) * gen.loguniform(rng, 0.1, 50)
        if G > 20: G = 20.0
        g = G / nu
        h = float(rng.uniform(0, 1)) if it % 3 else 0.5
        th = selection_equilibrium_sfs(n, nu, g, h)
        big = th >= 1e-6 * th.max()
        inp = dict(n=n, nu=nu, gamma=g, h=h, G=G)
        chk.l3(('sel-eq', h == 0.5, G > 0))
        e = []
        for base in (80, 160):
            a = eq_fs(dadi, n, nu, g, h, [base, base + 10, base + 20])
            if not np.all(np.isfinite(a)):
                chk.fail('sel-eq:nonfinite', 'equilibrium spectrum not finite', inp); e = None; break
            e.append(float(np.max(np.abs(a - th)[big] / th[big])))
        if e is None: continue
        worst = max(worst, e[1])
        if e[1] > 0.015:
            chk.fail('sel-eq:1.5pct', 'equilibrium spectrum (pts 160..180, extrapolated) is %.2f%% from the closed-form drift-selection equilibrium (nu=%.3g gamma=%.3g h=%.3g)' % (100 * e[1], nu, g, h), inp)
        elif e[1] > 2e-5:
            r = e[0] / e[1]; orders.append(r)
            if r < 2.0:
                chk.fail('sel-eq:convergence', 'error vs closed form does not shrink under grid refinement: %.3g at pts 80..100, %.3g at 160..180' % (e[0], e[1]), inp)
        # integrating a neutral start to equilibrium must reach the same closed form (ties the integrator to theory)
        if it % 4 == 0:
            T = 10 * nu if G < 0 else 6 * nu
            main = th >= 1e-3 * th.max()
            eb = []
            for base in (80, 160):
                b = eq_fs(dadi, n, nu, g, h, [base, base + 10, base + 20], T=T, from_neutral=True, tf=2e-4)
                eb.append((float(np.max(np.abs(b - th)[big] / th[big])), float(np.max(np.abs(b - th)[main] / th[main]))))
            chk.stats.setdefault('sel_eq_from_neutral_err', []).append([round(x, 5) for x in (eb[0][0], eb[1][0], eb[1][1])])
            # calibrated on the unchanged tree: the deviation is pure grid error (7-9x smaller per doubling of pts, independent of dt);
            # entries >= 1e-3 of the largest are within 0.3% at pts 160..180
            if eb[1][1] > 0.015:
                chk.fail('sel-eq:from-neutral', 'integrating a neutral start for T=%.3g under (nu=%.3g, gamma=%.3g, h=%.3g) ends %.2f%% from the closed-form equilibrium (pts 160..180, entries >= 1e-3 of the largest)' % (T, nu, g, h, 100 * eb[1][1]), inp)
            elif eb[1][0] > 5e-3 and eb[0][0] / eb[1][0] < 2.5:   # below 0.5% the residual is time-step/finite-T error, not grid error
                chk.fail('sel-eq:from-neutral-convergence', 'deviation from the closed-form equilibrium after integrating a neutral start does not shrink under grid refinement: %.3g at pts 80..100, %.3g at 160..180' % (eb[0][0], eb[1][0]), inp)
    chk.stats['sel_eq_worst_rel_err_pts160'] = worst
    chk.stats['sel_eq_refinement_ratios'] = [round(r, 2) for r in orders]

# ---------------------------------------------------------------- E: finiteness / continuity of the equilibrium density
def density_regularity(chk, ctx, rng, tier):
    dadi = ctx['dadi']; P = dadi.PhiManip
    xx = dadi.Numerics.default_grid(50)
    # deterministic sweep of the effective selection coefficient over the whole stated box, dense near the regime switches
    gs = [0.0, 1e-9, -1e-9, 1e-3, -1e-3, 1.0, -1.0, 30.0, 299.9, 300.1, 1e3, -10.0, -100.0, -299.9, -300.1, -354.0, -354.7, -354.8,
          -354.85, -354.9, -355.0, -356.0, -400.0, -1e3, -1e4, -1e5, -1e6]
    hs = [0.0, 0.2, 0.5 - 1e-9, 0.5, 0.5 + 1e-9, 0.8, 1.0]
    extra = [(float(-gen.loguniform(rng, 1, 1e6)), float(rng.uniform(0, 1))) for _ in range(20 if tier == 'quick' else 150)]
    extra += [(float(gen.loguniform(rng, 1e-3, 1e3)), float(rng.uniform(0, 1))) for _ in range(10 if tier == 'quick' else 60)]
    cases = [(g, h) for g in gs for h in hs] + extra
    for (G, h) in cases:
        for nu, beta in ((1.0, 1.0), (gen.loguniform(rng, 0.1, 10), gen.loguniform(rng, 0.3, 3))):
            keff = nu * 4 * beta / (beta + 1) ** 2
            g = G / keff                     # so that the effective coefficient is G
            if not (-1e6 <= g <= 1e3): continue
            chk.l3(('regular', round(math.copysign(math.log10(abs(G) + 1e-12), G), 1), h))
            inp = dict(gamma=g, h=h, nu=nu, beta=beta, effective_gamma=G)
            try:
                with np.errstate(all='ignore'):
                    phi = P.phi_1D(xx, nu=nu, gamma=g, h=h, beta=beta)
            except Exception as e:
                chk.fail('phi_1D:raises:' + type(e).__name__, 'phi_1D raises %r' % (e,), inp); continue
            if not np.all(np.isfinite(phi)):
                bad = int(np.sum(~np.isfinite(phi)))
                reg = 'overflow-window' if (-354.95 < G < -354.6 and h != 0.5) else 'other'
                chk.fail('phi_1D:nonfinite:%s' % reg, 'phi_1D(gamma=%.6g, h=%.3g, nu=%.3g, beta=%.3g) has %d non-finite entries' % (g, h, nu, beta, bad), inp); continue
            if np.any(phi < 0):
                chk.fail('phi_1D:negative', 'phi_1D(gamma=%.6g, h=%.3g) has negative entries (min %.3g)' % (g, h, float(phi.min())), inp)
    # continuity across the switches: parameters 1e-9 apart give densities within 1e-6 of the maximum
    pairs = []
    for h in (0.2, 0.5, 0.8):
        pairs += [((1e-9, h), (-1e-9, h)), ((0.0, h), (1e-9, h)), ((-300 + 1e-7, h), (-300 - 1e-7, h)), ((300 - 1e-7, h), (300 + 1e-7, h))]
    for g in (-20.0, -2.0, 0.0, 3.0):
        pairs += [((g, 0.5), (g, 0.5 + 1e-9)), ((g, 0.5), (g, 0.5 - 1e-9))]
    for (a, b) in pairs:
        chk.l3(('continuity', a, b))
        with np.errstate(all='ignore'):
            pa = P.phi_1D(xx, gamma=a[0], h=a[1]); pb = P.phi_1D(xx, gamma=b[0], h=b[1])
        if not (np.all(np.isfinite(pa)) and np.all(np.isfinite(pb))):
            continue
        jump = float(np.max(np.abs(pa - pb)) / np.max(np.abs(pa)))
        if jump > 1e-6:
            chk.fail('phi_1D:discontinuous', 'phi_1D jumps by %.3g of its maximum between (gamma,h)=%r and %r' % (jump, a, b), dict(a=a, b=b))

# ---------------------------------------------------------------- F: stationarity under further integration
def stationarity(chk, ctx, rng, n_cases):
    dadi = ctx['dadi']; I = dadi.Integration
    ratios = []
    for it in range(n_cases):
        nu = gen.loguniform(rng, 0.1, 10)
        G = [-50.0, -5.0, 3.0, 20.0, 0.0][it % 5] * float(rng.uniform(0.7, 1.3))
        g = G / nu
        h = [0.2, 0.5, 0.8][it % 3]
        n = 10
        ch = []
        for pts in (60, 120, 240):
            xx = dadi.Numerics.default_grid(pts)
            phi = dadi.PhiManip.phi_1D(xx, nu=nu, gamma=g, h=h)
            fs0 = np.asarray(dadi.Spectrum.from_phi(phi, (n,), (xx,)))[1:-1]
            phi2 = I.one_pop(phi, xx, 0.3 * nu, nu, gamma=g, h=h)
            fs1 = np.asarray(dadi.Spectrum.from_phi(phi2, (n,), (xx,)))[1:-1]
            big = fs0 >= 1e-6 * fs0.max()
            ch.append(float(np.max(np.abs(fs1 - fs0)[big] / fs0[big])))
        chk.l3(('stationary', it % 5, it % 3))
        inp = dict(nu=nu, gamma=g, h=h, changes=ch)
        # the change is grid error: it must shrink ~4x per doubling (order 2) and be small on the finest grid
        r1 = ch[0] / ch[1] if ch[1] > 0 else float('inf'); r2 = ch[1] / ch[2] if ch[2] > 0 else float('inf')
        ratios.append((round(r1, 2), round(r2, 2)))
        if ch[2] > 1e-9 and not (2.5 <= r2 <= 6.5):
            chk.fail('stationarity:order', 'change of the equilibrium spectrum under further integration does not vanish like a grid error: %.3g, %.3g, %.3g at pts=60,120,240 (nu=%.3g gamma=%.3g h=%.2g)' % (ch[0], ch[1], ch[2], nu, g, h), inp)
        if ch[2] > 0.15:
            chk.fail('stationarity:size', 'equilibrium spectrum changes by %.1f%% under further integration even at pts=240' % (100 * ch[2]), inp)
    chk.stats['stationarity_refinement_ratios'] = ratios

def run(chk, ctx):
    tier = ctx['tier']; rng = common.Rng(ctx['seed'], 'C01'); q = tier == 'quick'
    chk.rule = ('A: random grids/densities/parameters for the discrete moment laws on implicit_1Dx; B: random 1-4 epoch histories over the stated box vs the exact '
                'coalescent expectation at a tenth of the default step on refined grids (lin/log extrapolation, constant/function parameters); C: time-step order; '
                'D: random (nu, gamma, h) vs closed-form equilibrium under grid refinement and from a neutral start; E: deterministic sweep of the equilibrium density over '
                'the whole gamma box incl. regime switches; F: stationarity order. non-trivial = distinct (clause, regime) keys')
    chk.unproved = ['convergence of the scheme to the diffusion and of the diffusion to coalescent/equilibrium theory (clauses B, C, D, F) is NUMERICAL: thresholds are the '
                    "property's own 1.5% under the refinement it names, time-step ratio in [4,25], grid-refinement ratios calibrated on the unchanged tree",
                    'finiteness/non-negativity/continuity of phi_1D (clause E) involves exp and scipy.integrate.quad: evaluated, not proved',
                    'proved: heterozygosity/influx/mass laws per step for every grid and dt, closed form over any number of steps, fixed point, scaling of the equilibrium constructors']
    chk.assumptions.append('scipy.integrate.quad / scipy.linalg.expm in the theory oracles (harness/c01_oracle.py) are trusted to ~1e-9')
    from . import c02
    # K on the 1-D kernel (shared model op)
    for rep in range(6 if q else 40):
        c = c02.gen_case(rng, 1, 0, tier)
        c02.check_kernel_case(chk, ctx, c)
    moment_laws(chk, ctx, rng, 40 if q else 400)
    density_regularity(chk, ctx, rng, tier)
    coalescent_convergence(chk, ctx, rng, 10 if q else 80, tier)
    dt_order(chk, ctx, rng, 3 if q else 20)
    selection_equilibrium(chk, ctx, rng, 6 if q else 40, tier)
    stationarity(chk, ctx, rng, 5 if q else 30)

def replay(chk, ctx, data):
    inp = data.get('input') or {}
    if str(data.get('key', '')).startswith('coalescent:') and 'epochs' in inp:
        coalescent_case(chk, ctx['dadi'], int(inp['n']), [tuple(e) for e in inp['epochs']], list(inp['pts']), bool(inp['log']), bool(inp['as_func']))
    else:
        run(chk, ctx)
