import DadiVerif.Driver.Integ
/- Line protocol: one op per line on stdin, one answer per line on stdout.
   `ok …` | `err <kind>` | `bad-op`.  Run with `lake env lean --run Driver.lean`. -/
open DadiVerif

def dispatch (line : String) : String :=
  let toks := (line.trimAscii.toString.splitOn " ").filter (· ≠ "")
  match Driver.Integ.handle toks with
  | some r => r
  | none => "bad-op"

partial def loop (h : IO.FS.Stream) (out : IO.FS.Stream) : IO Unit := do
  let line ← h.getLine
  if line.isEmpty then return ()
  out.putStrLn (dispatch line)
  out.flush
  loop h out

def main : IO Unit := do loop (← IO.getStdin) (← IO.getStdout)
