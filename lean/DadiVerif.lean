import DadiVerif.Model.Prelude
import DadiVerif.Model.Tridiag
import DadiVerif.Model.Line
import DadiVerif.Model.ND
import DadiVerif.Generated.Coeffs
import DadiVerif.Model.Step
import DadiVerif.Model.Proto
import DadiVerif.Driver.Integ
