import DadiVerif.Props.C01
import DadiVerif.Driver.Integ
import DadiVerif.Props.C02
import DadiVerif.Props.C03
import DadiVerif.Props.C04
import DadiVerif.Props.C09
import DadiVerif.Driver.Fold
