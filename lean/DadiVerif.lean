import DadiVerif.Model.Prelude
