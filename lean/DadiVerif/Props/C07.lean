import DadiVerif.Lemmas.Extrap
/-!
# C07 — grid extrapolation is exact for polynomial grid dependence with 1–6 grid sizes

Property theorems only (helper lemmas are in `Lemmas/Extrap.lean`).  `linear_extrap … quintic_extrap`, `dispatch`,
`extrapFailed`, `formulaTable`, `fallbackMinLen`, the `…ShapeOk` flags are *generated from the current
`dadi/Numerics.py`* by tools/gen_Extrap.py on every run and are the definitions the driver executes (at `Rat`);
`argminIdx`, `failedExact`, `extrapEntry` are the hand-written rest of the executable model (Model/Extrap.lean).
The formulas are polymorphic, so every statement below is proved over an arbitrary field `K` (ℚ for the driver, ℝ for the
log variant), for all x-values (distinct), all y-values / coefficients, no bound on anything.

If a formula is missing from the source (pinned tree: `cubic_/quartic_/quintic_extrap`, finding F-07) the corresponding
`C07_*_4/5/6` statements cannot even be stated and fail to elaborate: the obligation is reported as not discharged.
-/
set_option autoImplicit false   -- a formula missing from the source must be an error, not an auto-bound variable
set_option linter.unusedTactic false
set_option linter.unusedSimpArgs false   -- the x-source proofs list every combinator the translator may emit
set_option linter.unreachableTactic false
namespace DadiVerif
open Gen.Extrap Extrap Finset Polynomial

section Field
variable {K : Type} [Field K]

/-- generic k (Mathlib's Lagrange interpolation): sampling any polynomial of degree < k at k distinct points and taking the
    canonical Lagrange combination at 0 returns the polynomial's value at 0, i.e. the value at infinitely fine grid. -/
theorem C07_lagrange {k : ℕ} (xs : Fin k → K) (hinj : Function.Injective xs) (f : K[X]) (hdeg : f.degree < k) :
    lagSum xs (fun i => f.eval (xs i)) = f.eval 0 :=
  lagSum_eval xs hinj f hdeg

example : lagSum (K := ℚ) ![1, 2, 4] (fun i => (X ^ 2 + C 7 : ℚ[X]).eval (![1, 2, 4] i)) = 7 := by
  have hinj : Function.Injective (![1, 2, 4] : Fin 3 → ℚ) := by decide
  rw [C07_lagrange _ hinj _ (by
    have : (X ^ 2 + C 7 : ℚ[X]).degree = 2 := by
      rw [degree_add_C (by simp)]; simp
    rw [this]; decide)]
  simp


/-- the generated 2-point formula (`linear_extrap` of Numerics.py) IS the canonical Lagrange value at 0 -/
theorem C07_form_2 (xs ys : Fin 2 → K) (hinj : Function.Injective xs) :
    linear_extrap (ys 0) (ys 1) (xs 0) (xs 1) = lagSum xs ys := by
  have _present := @linear_extrap K   -- stops here at once if the formula is missing from the source
  have hne := sub_ne_zero_of_injective xs hinj
  have h01 := hne 0 1 (by decide)
  have h10 := hne 1 0 (by decide)
  rw [lagSum_expand]
  simp only [Fin.sum_univ_two, Fin.prod_univ_two, linear_extrap, Fin.reduceEq, if_true, if_false, Fin.isValue]
  first
    | (congr 1
       all_goals (field_simp; try ring))
    | (field_simp; ring)

/-- the generated 3-point formula (`quadratic_extrap` of Numerics.py) IS the canonical Lagrange value at 0 -/
theorem C07_form_3 (xs ys : Fin 3 → K) (hinj : Function.Injective xs) :
    quadratic_extrap (ys 0) (ys 1) (ys 2) (xs 0) (xs 1) (xs 2) = lagSum xs ys := by
  have _present := @quadratic_extrap K   -- stops here at once if the formula is missing from the source
  have hne := sub_ne_zero_of_injective xs hinj
  have h01 := hne 0 1 (by decide)
  have h02 := hne 0 2 (by decide)
  have h10 := hne 1 0 (by decide)
  have h12 := hne 1 2 (by decide)
  have h20 := hne 2 0 (by decide)
  have h21 := hne 2 1 (by decide)
  rw [lagSum_expand]
  simp only [Fin.sum_univ_three, Fin.prod_univ_three, quadratic_extrap, Fin.reduceEq, if_true, if_false, Fin.isValue]
  first
    | (congr 1; congr 1
       all_goals (field_simp; try ring))
    | (field_simp; ring)

/-- the generated 4-point formula (`cubic_extrap` of Numerics.py) IS the canonical Lagrange value at 0 -/
theorem C07_form_4 (xs ys : Fin 4 → K) (hinj : Function.Injective xs) :
    cubic_extrap (ys 0) (ys 1) (ys 2) (ys 3) (xs 0) (xs 1) (xs 2) (xs 3) = lagSum xs ys := by
  have _present := @cubic_extrap K   -- stops here at once if the formula is missing from the source
  have hne := sub_ne_zero_of_injective xs hinj
  have h01 := hne 0 1 (by decide)
  have h02 := hne 0 2 (by decide)
  have h03 := hne 0 3 (by decide)
  have h10 := hne 1 0 (by decide)
  have h12 := hne 1 2 (by decide)
  have h13 := hne 1 3 (by decide)
  have h20 := hne 2 0 (by decide)
  have h21 := hne 2 1 (by decide)
  have h23 := hne 2 3 (by decide)
  have h30 := hne 3 0 (by decide)
  have h31 := hne 3 1 (by decide)
  have h32 := hne 3 2 (by decide)
  rw [lagSum_expand]
  simp only [Fin.sum_univ_four, Fin.prod_univ_four, cubic_extrap, Fin.reduceEq, if_true, if_false, Fin.isValue]
  first
    | (congr 1; congr 1; congr 1
       all_goals (field_simp; try ring))
    | (field_simp; ring)

/-- the generated 5-point formula (`quartic_extrap` of Numerics.py) IS the canonical Lagrange value at 0 -/
theorem C07_form_5 (xs ys : Fin 5 → K) (hinj : Function.Injective xs) :
    quartic_extrap (ys 0) (ys 1) (ys 2) (ys 3) (ys 4) (xs 0) (xs 1) (xs 2) (xs 3) (xs 4) = lagSum xs ys := by
  have _present := @quartic_extrap K   -- stops here at once if the formula is missing from the source
  have hne := sub_ne_zero_of_injective xs hinj
  have h01 := hne 0 1 (by decide)
  have h02 := hne 0 2 (by decide)
  have h03 := hne 0 3 (by decide)
  have h04 := hne 0 4 (by decide)
  have h10 := hne 1 0 (by decide)
  have h12 := hne 1 2 (by decide)
  have h13 := hne 1 3 (by decide)
  have h14 := hne 1 4 (by decide)
  have h20 := hne 2 0 (by decide)
  have h21 := hne 2 1 (by decide)
  have h23 := hne 2 3 (by decide)
  have h24 := hne 2 4 (by decide)
  have h30 := hne 3 0 (by decide)
  have h31 := hne 3 1 (by decide)
  have h32 := hne 3 2 (by decide)
  have h34 := hne 3 4 (by decide)
  have h40 := hne 4 0 (by decide)
  have h41 := hne 4 1 (by decide)
  have h42 := hne 4 2 (by decide)
  have h43 := hne 4 3 (by decide)
  rw [lagSum_expand]
  simp only [Fin.sum_univ_five, Fin.prod_univ_five, quartic_extrap, Fin.reduceEq, if_true, if_false, Fin.isValue]
  first
    | (congr 1; congr 1; congr 1; congr 1
       all_goals (field_simp; try ring))
    | (field_simp; ring)

/-- the generated 6-point formula (`quintic_extrap` of Numerics.py) IS the canonical Lagrange value at 0 -/
theorem C07_form_6 (xs ys : Fin 6 → K) (hinj : Function.Injective xs) :
    quintic_extrap (ys 0) (ys 1) (ys 2) (ys 3) (ys 4) (ys 5) (xs 0) (xs 1) (xs 2) (xs 3) (xs 4) (xs 5) = lagSum xs ys := by
  have _present := @quintic_extrap K   -- stops here at once if the formula is missing from the source
  have hne := sub_ne_zero_of_injective xs hinj
  have h01 := hne 0 1 (by decide)
  have h02 := hne 0 2 (by decide)
  have h03 := hne 0 3 (by decide)
  have h04 := hne 0 4 (by decide)
  have h05 := hne 0 5 (by decide)
  have h10 := hne 1 0 (by decide)
  have h12 := hne 1 2 (by decide)
  have h13 := hne 1 3 (by decide)
  have h14 := hne 1 4 (by decide)
  have h15 := hne 1 5 (by decide)
  have h20 := hne 2 0 (by decide)
  have h21 := hne 2 1 (by decide)
  have h23 := hne 2 3 (by decide)
  have h24 := hne 2 4 (by decide)
  have h25 := hne 2 5 (by decide)
  have h30 := hne 3 0 (by decide)
  have h31 := hne 3 1 (by decide)
  have h32 := hne 3 2 (by decide)
  have h34 := hne 3 4 (by decide)
  have h35 := hne 3 5 (by decide)
  have h40 := hne 4 0 (by decide)
  have h41 := hne 4 1 (by decide)
  have h42 := hne 4 2 (by decide)
  have h43 := hne 4 3 (by decide)
  have h45 := hne 4 5 (by decide)
  have h50 := hne 5 0 (by decide)
  have h51 := hne 5 1 (by decide)
  have h52 := hne 5 2 (by decide)
  have h53 := hne 5 3 (by decide)
  have h54 := hne 5 4 (by decide)
  rw [lagSum_expand]
  simp only [Fin.sum_univ_six, Fin.prod_univ_six, quintic_extrap, Fin.reduceEq, if_true, if_false, Fin.isValue]
  first
    | (congr 1; congr 1; congr 1; congr 1; congr 1
       all_goals (field_simp; try ring))
    | (field_simp; ring)

example : linear_extrap (α := ℚ) 5 7 1 2 = 3 := by norm_num [linear_extrap]
example : quadratic_extrap (α := ℚ) 8 13 20 1 2 3 = 5 := by norm_num [quadratic_extrap]   -- y = x² + 2x + 5

/-- 2 grids: the dispatch of `make_extrap_func` reaches `linear_extrap` and returns the constant coefficient exactly
    whenever the results depend on x as a polynomial of degree < 2 (a straight line), for all distinct x and all coefficients -/
theorem C07_exact_2 (xs : Fin 2 → K) (hinj : Function.Injective xs) (c : Fin 2 → K) :
    let ys : Fin 2 → K := fun i => ∑ p : Fin 2, c p * xs i ^ (p : ℕ)
    dispatch [ys 0, ys 1] [xs 0, xs 1] = .ok (c 0) := by
  intro ys
  have h := (C07_form_2 xs ys hinj).trans (lagSum_poly xs hinj c)
  simp only [dispatch, linear_extrapL, List.length_cons, List.length_nil]
  exact congrArg Except.ok h

/-- 3 grids: the dispatch of `make_extrap_func` reaches `quadratic_extrap` and returns the constant coefficient exactly
    whenever the results depend on x as a polynomial of degree < 3 (a parabola), for all distinct x and all coefficients -/
theorem C07_exact_3 (xs : Fin 3 → K) (hinj : Function.Injective xs) (c : Fin 3 → K) :
    let ys : Fin 3 → K := fun i => ∑ p : Fin 3, c p * xs i ^ (p : ℕ)
    dispatch [ys 0, ys 1, ys 2] [xs 0, xs 1, xs 2] = .ok (c 0) := by
  intro ys
  have h := (C07_form_3 xs ys hinj).trans (lagSum_poly xs hinj c)
  simp only [dispatch, quadratic_extrapL, List.length_cons, List.length_nil]
  exact congrArg Except.ok h

/-- 4 grids: the dispatch of `make_extrap_func` reaches `cubic_extrap` and returns the constant coefficient exactly
    whenever the results depend on x as a polynomial of degree < 4 (a cubic), for all distinct x and all coefficients -/
theorem C07_exact_4 (xs : Fin 4 → K) (hinj : Function.Injective xs) (c : Fin 4 → K) :
    let ys : Fin 4 → K := fun i => ∑ p : Fin 4, c p * xs i ^ (p : ℕ)
    dispatch [ys 0, ys 1, ys 2, ys 3] [xs 0, xs 1, xs 2, xs 3] = .ok (c 0) := by
  intro ys
  have h := (C07_form_4 xs ys hinj).trans (lagSum_poly xs hinj c)
  simp only [dispatch, cubic_extrapL, List.length_cons, List.length_nil]
  exact congrArg Except.ok h

/-- 5 grids: the dispatch of `make_extrap_func` reaches `quartic_extrap` and returns the constant coefficient exactly
    whenever the results depend on x as a polynomial of degree < 5 (a quartic), for all distinct x and all coefficients -/
theorem C07_exact_5 (xs : Fin 5 → K) (hinj : Function.Injective xs) (c : Fin 5 → K) :
    let ys : Fin 5 → K := fun i => ∑ p : Fin 5, c p * xs i ^ (p : ℕ)
    dispatch [ys 0, ys 1, ys 2, ys 3, ys 4] [xs 0, xs 1, xs 2, xs 3, xs 4] = .ok (c 0) := by
  intro ys
  have h := (C07_form_5 xs ys hinj).trans (lagSum_poly xs hinj c)
  simp only [dispatch, quartic_extrapL, List.length_cons, List.length_nil]
  exact congrArg Except.ok h

/-- 6 grids: the dispatch of `make_extrap_func` reaches `quintic_extrap` and returns the constant coefficient exactly
    whenever the results depend on x as a polynomial of degree < 6 (a quintic), for all distinct x and all coefficients -/
theorem C07_exact_6 (xs : Fin 6 → K) (hinj : Function.Injective xs) (c : Fin 6 → K) :
    let ys : Fin 6 → K := fun i => ∑ p : Fin 6, c p * xs i ^ (p : ℕ)
    dispatch [ys 0, ys 1, ys 2, ys 3, ys 4, ys 5] [xs 0, xs 1, xs 2, xs 3, xs 4, xs 5] = .ok (c 0) := by
  intro ys
  have h := (C07_form_6 xs ys hinj).trans (lagSum_poly xs hinj c)
  simp only [dispatch, quintic_extrapL, List.length_cons, List.length_nil]
  exact congrArg Except.ok h

example : dispatch (α := ℚ) [8, 13, 20] [1, 2, 3] = .ok 5 := by
  have hinj : Function.Injective (![1, 2, 3] : Fin 3 → ℚ) := by decide
  have := C07_exact_3 (K := ℚ) ![1, 2, 3] hinj ![5, 2, 1]
  have e1 : (![1, 2, 3] : Fin 3 → ℚ) 2 = 3 := rfl
  have e2 : (![5, 2, 1] : Fin 3 → ℚ) 2 = 1 := rfl
  norm_num [Fin.sum_univ_three, e1, e2] at this
  exact this

/-- order of the grid list: any simultaneous permutation of the 2 (x, y) pairs gives the same result -/
theorem C07_perm_2 (xs ys : Fin 2 → K) (hinj : Function.Injective xs) (σ : Equiv.Perm (Fin 2)) :
    linear_extrap (ys (σ 0)) (ys (σ 1)) (xs (σ 0)) (xs (σ 1))
      = linear_extrap (ys 0) (ys 1) (xs 0) (xs 1) := by
  have h1 := C07_form_2 (xs ∘ σ) (ys ∘ σ) (hinj.comp σ.injective)
  simp only [Function.comp] at h1
  rw [h1, C07_form_2 xs ys hinj]
  exact lagSum_perm xs ys σ

/-- order of the grid list: any simultaneous permutation of the 3 (x, y) pairs gives the same result -/
theorem C07_perm_3 (xs ys : Fin 3 → K) (hinj : Function.Injective xs) (σ : Equiv.Perm (Fin 3)) :
    quadratic_extrap (ys (σ 0)) (ys (σ 1)) (ys (σ 2)) (xs (σ 0)) (xs (σ 1)) (xs (σ 2))
      = quadratic_extrap (ys 0) (ys 1) (ys 2) (xs 0) (xs 1) (xs 2) := by
  have h1 := C07_form_3 (xs ∘ σ) (ys ∘ σ) (hinj.comp σ.injective)
  simp only [Function.comp] at h1
  rw [h1, C07_form_3 xs ys hinj]
  exact lagSum_perm xs ys σ

/-- order of the grid list: any simultaneous permutation of the 4 (x, y) pairs gives the same result -/
theorem C07_perm_4 (xs ys : Fin 4 → K) (hinj : Function.Injective xs) (σ : Equiv.Perm (Fin 4)) :
    cubic_extrap (ys (σ 0)) (ys (σ 1)) (ys (σ 2)) (ys (σ 3)) (xs (σ 0)) (xs (σ 1)) (xs (σ 2)) (xs (σ 3))
      = cubic_extrap (ys 0) (ys 1) (ys 2) (ys 3) (xs 0) (xs 1) (xs 2) (xs 3) := by
  have h1 := C07_form_4 (xs ∘ σ) (ys ∘ σ) (hinj.comp σ.injective)
  simp only [Function.comp] at h1
  rw [h1, C07_form_4 xs ys hinj]
  exact lagSum_perm xs ys σ

/-- order of the grid list: any simultaneous permutation of the 5 (x, y) pairs gives the same result -/
theorem C07_perm_5 (xs ys : Fin 5 → K) (hinj : Function.Injective xs) (σ : Equiv.Perm (Fin 5)) :
    quartic_extrap (ys (σ 0)) (ys (σ 1)) (ys (σ 2)) (ys (σ 3)) (ys (σ 4)) (xs (σ 0)) (xs (σ 1)) (xs (σ 2)) (xs (σ 3)) (xs (σ 4))
      = quartic_extrap (ys 0) (ys 1) (ys 2) (ys 3) (ys 4) (xs 0) (xs 1) (xs 2) (xs 3) (xs 4) := by
  have h1 := C07_form_5 (xs ∘ σ) (ys ∘ σ) (hinj.comp σ.injective)
  simp only [Function.comp] at h1
  rw [h1, C07_form_5 xs ys hinj]
  exact lagSum_perm xs ys σ

/-- order of the grid list: any simultaneous permutation of the 6 (x, y) pairs gives the same result -/
theorem C07_perm_6 (xs ys : Fin 6 → K) (hinj : Function.Injective xs) (σ : Equiv.Perm (Fin 6)) :
    quintic_extrap (ys (σ 0)) (ys (σ 1)) (ys (σ 2)) (ys (σ 3)) (ys (σ 4)) (ys (σ 5)) (xs (σ 0)) (xs (σ 1)) (xs (σ 2)) (xs (σ 3)) (xs (σ 4)) (xs (σ 5))
      = quintic_extrap (ys 0) (ys 1) (ys 2) (ys 3) (ys 4) (ys 5) (xs 0) (xs 1) (xs 2) (xs 3) (xs 4) (xs 5) := by
  have h1 := C07_form_6 (xs ∘ σ) (ys ∘ σ) (hinj.comp σ.injective)
  simp only [Function.comp] at h1
  rw [h1, C07_form_6 xs ys hinj]
  exact lagSum_perm xs ys σ

example : quadratic_extrap (α := ℚ) 20 8 13 3 1 2 = quadratic_extrap (α := ℚ) 8 13 20 1 2 3 := by
  norm_num [quadratic_extrap]

/-- one grid: the single result is returned unchanged (whatever x list is supplied) -/
theorem C07_k1 (y : K) (xs : List K) : dispatch [y] xs = .ok y := by
  simp [dispatch]

/-- the dispatch on the number of grids: k = 2…6 reach the k-point formulas in this order … -/
theorem C07_dispatch (y1 y2 y3 y4 y5 y6 x1 x2 x3 x4 x5 x6 : K) :
    dispatch [y1, y2] [x1, x2] = .ok (linear_extrap y1 y2 x1 x2)
    ∧ dispatch [y1, y2, y3] [x1, x2, x3] = .ok (quadratic_extrap y1 y2 y3 x1 x2 x3)
    ∧ dispatch [y1, y2, y3, y4] [x1, x2, x3, x4] = .ok (cubic_extrap y1 y2 y3 y4 x1 x2 x3 x4)
    ∧ dispatch [y1, y2, y3, y4, y5] [x1, x2, x3, x4, x5] = .ok (quartic_extrap y1 y2 y3 y4 y5 x1 x2 x3 x4 x5)
    ∧ dispatch [y1, y2, y3, y4, y5, y6] [x1, x2, x3, x4, x5, x6]
        = .ok (quintic_extrap y1 y2 y3 y4 y5 y6 x1 x2 x3 x4 x5 x6) := by
  refine ⟨?_, ?_, ?_, ?_, ?_⟩ <;>
    simp [dispatch, linear_extrapL, quadratic_extrapL, cubic_extrapL, quartic_extrapL, quintic_extrapL]

/-- … and every other number of grids (0, or 7 and more) is rejected with the documented ValueError -/
theorem C07_dispatch_range (ys xs : List K) (h : ys.length = 0 ∨ 7 ≤ ys.length) :
    dispatch ys xs = .error "ValueError:count" := by
  have h1 : ¬ ys.length = 1 := by omega
  have h2 : ¬ ys.length = 2 := by omega
  have h3 : ¬ ys.length = 3 := by omega
  have h4 : ¬ ys.length = 4 := by omega
  have h5 : ¬ ys.length = 5 := by omega
  have h6 : ¬ ys.length = 6 := by omega
  simp [dispatch, h1, h2, h3, h4, h5, h6]

example : dispatch (α := ℚ) [1, 2, 3, 4, 5, 6, 7] [1, 2, 3, 4, 5, 6, 7] = .error "ValueError:count" :=
  C07_dispatch_range _ _ (Or.inr (by decide))

/-- the x list must have as many entries as there are grids (tuple unpacking), otherwise ValueError -/
theorem C07_dispatch_unpack (y1 y2 x1 x2 x3 : K) :
    dispatch [y1, y2] [x1, x2, x3] = .error "ValueError:unpack" := by
  simp [dispatch, linear_extrapL]

/-- what the translator found in the source: every count 2…6 has its own k-point formula, count 1 is the identity, the
    results are one per grid, the fallback block and the log wrapping have the shape the model assumes -/
theorem C07_glue :
    formulaTable = [(2, "linear_extrap", 2), (3, "quadratic_extrap", 3), (4, "cubic_extrap", 4),
                    (5, "quartic_extrap", 5), (6, "quintic_extrap", 6)]
    ∧ identityCounts = [1] ∧ fallbackMinLen = 1 ∧ defaultFailMag = 10
    ∧ resultsPerGridShapeOk = true ∧ fallbackShapeOk = true ∧ logWrapShapeOk = true ∧ xSourceShapeOk = true := by
  decide

/-- `make_extrap_log_func` hands its model and its `extrap_x_l` on unchanged, switches the log mode on with the constant
    `True`, and leaves `fail_mag` at ten decades (left at the default, or its own argument whose default is 10) -/
theorem C07_log_wrapper :
    logWrapperBinding.lookup "func" = some "arg:func"
    ∧ (logWrapperBinding.lookup "extrap_x_l" = some "arg:extrap_x_l=None" ∨ logWrapperBinding.lookup "extrap_x_l" = some "arg:extrap_x_l")
    ∧ logWrapperBinding.lookup "extrap_log" = some "const:True"
    ∧ (logWrapperBinding.lookup "fail_mag" = some "const:10" ∨ logWrapperBinding.lookup "fail_mag" = some "arg:fail_mag=10")
    ∧ logWrapperBinding.length = 4 := by
  decide

end Field

section XSource
/-! Which x values the extrapolation runs in.  `xSelect` is generated from the statements of `extrap_func` that assign
`x_l`; `xsFor`, `xdispatch` (Model/Extrap.lean) are what the driver executes.  The rule, for every number of grids, for
ndarray results (`XAttr.missing`), Spectrum results with their own `extrap_x` (`XAttr.val`) and Spectrum results whose
`extrap_x` is None (`XAttr.pyNone`): an explicit `extrap_x_l` always wins; without it the attributes of the results are
used; without it and without attributes the documented ValueError is raised. -/
variable {α : Type}

/-- an explicit `extrap_x_l` decides the x values whatever the results carry -/
theorem C07_xsource_explicit (L : List α) (rs : List (XAttr α)) :
    xSelect (some L) rs = .ok (XVal.list (L.map some)) := by
  by_cases h : rs.any XAttr.isMissing = true <;>
    simp [xSelect, xIf, xTry, xSeq, xSkip, xRaise, xAssignExplicit, xAssignAttrs, xTruthy, h]

/-- without an explicit list the `.extrap_x` of the results are used (one per result, in the order of the grid list) -/
theorem C07_xsource_results (rs : List (XAttr α)) (h : ∀ r ∈ rs, r.isMissing = false) :
    xSelect none rs = .ok (XVal.list (rs.map XAttr.toOpt)) := by
  have h' : rs.any XAttr.isMissing = false := by
    rw [List.any_eq_false]; intro r hr; simp [h r hr]
  simp [xSelect, xIf, xTry, xSeq, xSkip, xRaise, xAssignExplicit, xAssignAttrs, xTruthy, h']

/-- without an explicit list and with a result that has no `.extrap_x` (plain arrays): the documented ValueError -/
theorem C07_xsource_missing (rs : List (XAttr α)) (h : ∃ r ∈ rs, r.isMissing = true) :
    xSelect none rs = .error "ValueError:no_extrap_x" := by
  have h' : rs.any XAttr.isMissing = true := by
    rw [List.any_eq_true]; exact h
  simp [xSelect, xIf, xTry, xSeq, xSkip, xRaise, xAssignExplicit, xAssignAttrs, xTruthy, h']

example : xSelect (some [(1 : ℚ), 2]) [.val 5, .val 7] = .ok (XVal.list [some 1, some 2]) := C07_xsource_explicit _ _
example : xSelect (none : Option (List ℚ)) [.val 5, .pyNone] = .ok (XVal.list [some 5, none]) :=
  C07_xsource_results _ (by simp [XAttr.isMissing])
example : xSelect (none : Option (List ℚ)) [.val 5, .missing] = .error "ValueError:no_extrap_x" :=
  C07_xsource_missing _ ⟨.missing, by simp, rfl⟩

/-- the counts whose branch reads `x_l` are exactly 2…6 -/
theorem C07_usesX (k : ℕ) : usesX k = true ↔ 2 ≤ k ∧ k ≤ 6 := by
  simp [usesX, formulaTable]; omega

/-- for every number of grids the pipeline works with the explicit list when one is given … -/
theorem C07_xs_explicit (L : List α) (rs : List (XAttr α)) (k : ℕ) : xsFor (some L) rs k = .ok L := by
  have hall : (L.map some).all Option.isSome = true := by simp
  have hfm : (L.map some).filterMap id = L := by simp [List.filterMap_map]
  unfold xsFor
  rw [C07_xsource_explicit]
  by_cases hk : usesX k = true <;> simp [hk, xValues, xLoose, hall, hfm]

/-- … and otherwise with the `extrap_x` values of the results … -/
theorem C07_xs_results (xs : List α) (k : ℕ) : xsFor none (xs.map XAttr.val) k = .ok xs := by
  have hsel := C07_xsource_results (xs.map XAttr.val) (by simp [XAttr.isMissing])
  have hmap : (xs.map XAttr.val).map XAttr.toOpt = xs.map some := by simp [XAttr.toOpt]
  have hall : (xs.map some).all Option.isSome = true := by simp
  have hfm : (xs.map some).filterMap id = xs := by simp [List.filterMap_map]
  unfold xsFor
  rw [hsel, hmap]
  by_cases hk : usesX k = true <;> simp [hk, xValues, xLoose, hall, hfm]

/-- … a Spectrum whose `extrap_x` is None cannot be extrapolated with 2…6 grids unless an explicit list is given
    (TypeError from the arithmetic with None), and plain arrays without an explicit list are refused for every count -/
theorem C07_xs_refused (rs : List (XAttr α)) (k : ℕ) :
    ((∃ r ∈ rs, r.isMissing = true) → xsFor none rs k = .error "ValueError:no_extrap_x")
    ∧ ((∀ r ∈ rs, r.isMissing = false) → (∃ r ∈ rs, r.toOpt = none) → 2 ≤ k → k ≤ 6 →
        xsFor none rs k = .error "TypeError:None") := by
  constructor
  · intro h
    unfold xsFor
    rw [C07_xsource_missing rs h]
  · intro hm hn h2 h6
    have hk : usesX k = true := (C07_usesX k).mpr ⟨h2, h6⟩
    have hall : (rs.map XAttr.toOpt).all Option.isSome = false := by
      rw [List.all_eq_false]
      obtain ⟨r, hr, hnone⟩ := hn
      exact ⟨r.toOpt, List.mem_map_of_mem hr, by simp [hnone]⟩
    unfold xsFor
    rw [C07_xsource_results rs hm]
    simp [hk, xValues, hall]

end XSource

section XPipeline
variable {K : Type} [Field K]

/-- with an explicit `extrap_x_l` the whole entry pipeline is the dispatch in those x values (so `C07_exact_k`,
    `C07_perm_k`, `C07_log_k` apply to them), also when the results are Spectra that carry another `extrap_x` -/
theorem C07_xdispatch_explicit (L : List K) (rs : List (XAttr K)) (ys : List K) :
    xdispatch (some L) rs ys = dispatch ys L := by
  unfold xdispatch
  rw [C07_xs_explicit]

/-- without it the pipeline is the dispatch in the `extrap_x` values of the results -/
theorem C07_xdispatch_results (xs ys : List K) :
    xdispatch none (xs.map XAttr.val) ys = dispatch ys xs := by
  unfold xdispatch
  rw [C07_xs_results]

/-- y = x² + 2x + 5 in the explicit x values 1, 2, 3; the Spectra are tagged 10, 20, 30: the answer is 5 -/
example : xdispatch (some [(1 : ℚ), 2, 3]) [.val 10, .val 20, .val 30] [8, 13, 20] = .ok 5 := by
  rw [C07_xdispatch_explicit]
  norm_num [dispatch, quadratic_extrapL, quadratic_extrap]

end XPipeline

section Log

/-- log variant, 2 grids: if the results are `exp` of a polynomial of degree < 2 in x (so their logarithm is that
    polynomial), extrapolating the logs and exponentiating returns `exp(c₀)`, the value at x = 0, exactly -/
theorem C07_log_2 (xs : Fin 2 → ℝ) (hinj : Function.Injective xs) (c : Fin 2 → ℝ) :
    let ys : Fin 2 → ℝ := fun i => Real.exp (∑ p : Fin 2, c p * xs i ^ (p : ℕ))
    (dispatch [Real.log (ys 0), Real.log (ys 1)] [xs 0, xs 1]).map Real.exp = .ok (Real.exp (c 0)) := by
  intro ys
  simp only [ys, Real.log_exp]
  have h := C07_exact_2 xs hinj c
  simp only at h
  rw [h]; rfl

/-- log variant, 3 grids: if the results are `exp` of a polynomial of degree < 3 in x (so their logarithm is that
    polynomial), extrapolating the logs and exponentiating returns `exp(c₀)`, the value at x = 0, exactly -/
theorem C07_log_3 (xs : Fin 3 → ℝ) (hinj : Function.Injective xs) (c : Fin 3 → ℝ) :
    let ys : Fin 3 → ℝ := fun i => Real.exp (∑ p : Fin 3, c p * xs i ^ (p : ℕ))
    (dispatch [Real.log (ys 0), Real.log (ys 1), Real.log (ys 2)] [xs 0, xs 1, xs 2]).map Real.exp = .ok (Real.exp (c 0)) := by
  intro ys
  simp only [ys, Real.log_exp]
  have h := C07_exact_3 xs hinj c
  simp only at h
  rw [h]; rfl

/-- log variant, 4 grids: if the results are `exp` of a polynomial of degree < 4 in x (so their logarithm is that
    polynomial), extrapolating the logs and exponentiating returns `exp(c₀)`, the value at x = 0, exactly -/
theorem C07_log_4 (xs : Fin 4 → ℝ) (hinj : Function.Injective xs) (c : Fin 4 → ℝ) :
    let ys : Fin 4 → ℝ := fun i => Real.exp (∑ p : Fin 4, c p * xs i ^ (p : ℕ))
    (dispatch [Real.log (ys 0), Real.log (ys 1), Real.log (ys 2), Real.log (ys 3)] [xs 0, xs 1, xs 2, xs 3]).map Real.exp = .ok (Real.exp (c 0)) := by
  intro ys
  simp only [ys, Real.log_exp]
  have h := C07_exact_4 xs hinj c
  simp only at h
  rw [h]; rfl

/-- log variant, 5 grids: if the results are `exp` of a polynomial of degree < 5 in x (so their logarithm is that
    polynomial), extrapolating the logs and exponentiating returns `exp(c₀)`, the value at x = 0, exactly -/
theorem C07_log_5 (xs : Fin 5 → ℝ) (hinj : Function.Injective xs) (c : Fin 5 → ℝ) :
    let ys : Fin 5 → ℝ := fun i => Real.exp (∑ p : Fin 5, c p * xs i ^ (p : ℕ))
    (dispatch [Real.log (ys 0), Real.log (ys 1), Real.log (ys 2), Real.log (ys 3), Real.log (ys 4)] [xs 0, xs 1, xs 2, xs 3, xs 4]).map Real.exp = .ok (Real.exp (c 0)) := by
  intro ys
  simp only [ys, Real.log_exp]
  have h := C07_exact_5 xs hinj c
  simp only at h
  rw [h]; rfl

/-- log variant, 6 grids: if the results are `exp` of a polynomial of degree < 6 in x (so their logarithm is that
    polynomial), extrapolating the logs and exponentiating returns `exp(c₀)`, the value at x = 0, exactly -/
theorem C07_log_6 (xs : Fin 6 → ℝ) (hinj : Function.Injective xs) (c : Fin 6 → ℝ) :
    let ys : Fin 6 → ℝ := fun i => Real.exp (∑ p : Fin 6, c p * xs i ^ (p : ℕ))
    (dispatch [Real.log (ys 0), Real.log (ys 1), Real.log (ys 2), Real.log (ys 3), Real.log (ys 4), Real.log (ys 5)] [xs 0, xs 1, xs 2, xs 3, xs 4, xs 5]).map Real.exp = .ok (Real.exp (c 0)) := by
  intro ys
  simp only [ys, Real.log_exp]
  have h := C07_exact_6 xs hinj c
  simp only at h
  rw [h]; rfl

end Log

section Fallback

/-- the generated fallback test, with log10 read as the real base-10 logarithm: for a positive ratio an entry is declared
    failed iff the extrapolated value is more than `m` decades above or below the best input value -/
theorem C07_fallback (ex best : ℝ) (hr : 0 < ex / best) (m : ℕ) :
    extrapFailed (Real.logb 10) ex best (m : ℝ) = true ↔ (10 : ℝ) ^ m < ex / best ∨ ex / best < ((10 : ℝ) ^ m)⁻¹ := by
  unfold extrapFailed gAbs
  rw [decide_eq_true_iff, ← abs_logb_gt_iff _ hr m]
  simp only [Nat.cast_zero, gt_iff_lt]
  by_cases h : Real.logb 10 (ex / best) < 0
  · rw [if_pos h, abs_of_neg h]
  · rw [if_neg h, abs_of_nonneg (not_lt.mp h)]

example : extrapFailed (Real.logb 10) (1e12 : ℝ) 1 ((10 : ℕ) : ℝ) = true :=
  (C07_fallback 1e12 1 (by norm_num) 10).mpr (Or.inl (by norm_num))

/-- the exact-rational decision the driver executes (`failedExact`) is that same test on rational inputs -/
theorem C07_fallback_exact (ex best : ℚ) (hr : 0 < ex / best) (m : ℕ) :
    failedExact ex best m = extrapFailed (Real.logb 10) (ex : ℝ) (best : ℝ) (m : ℝ) := by
  have hb : best ≠ 0 := by
    rintro rfl; simp at hr
  have hrR : (0 : ℝ) < (ex : ℝ) / (best : ℝ) := by exact_mod_cast hr
  rw [Bool.eq_iff_iff, C07_fallback _ _ hrR m]
  unfold failedExact
  have h1 : ¬ (ex / best < 0) := not_lt.mpr hr.le
  have h2 : ¬ (ex / best = 0) := hr.ne'
  simp only [beq_iff_eq, hb, if_false, h1, h2, Bool.or_eq_true, decide_eq_true_eq]
  constructor
  · rintro (h | h)
    · left; exact_mod_cast h
    · right
      have : ((ex / best : ℚ) : ℝ) < ((1 / (10 : ℚ) ^ m : ℚ) : ℝ) := by exact_mod_cast h
      simpa using this
  · rintro (h | h)
    · left; exact_mod_cast h
    · right
      have : ((ex / best : ℚ) : ℝ) < ((1 / (10 : ℚ) ^ m : ℚ) : ℝ) := by simpa using h
      exact_mod_cast this

example : failedExact (1/1000) 1 2 = true := by norm_num [failedExact]

/-- `numpy.argmin` of the model: the "best" result is taken at an index whose x is a minimum of the x list — so with
    distinct x values it is the result of the finest grid whatever the order of the grid list -/
theorem C07_best (xs : List ℚ) (hne : xs ≠ []) :
    argminIdx xs < xs.length ∧ ∀ x ∈ xs, xs.getD (argminIdx xs) 0 ≤ x :=
  argminIdx_spec xs hne

example : argminIdx [3, 1, 2, 1] = 1 := by norm_num [argminIdx, argminAux]

/-- entry-wise pipeline with more than one grid: the returned value is the extrapolation unless the fallback test fires, in
    which case it is the input value at the smallest x -/
theorem C07_entry (m : ℕ) (ys xs : List ℚ) (ex : ℚ) (hd : dispatch ys xs = .ok ex) (hk : 1 < ys.length) :
    extrapEntry m ys xs
      = .ok (if failedExact ex (ys.getD (argminIdx xs) 0) m then ys.getD (argminIdx xs) 0 else ex,
             failedExact ex (ys.getD (argminIdx xs) 0) m, nearThreshold ex (ys.getD (argminIdx xs) 0) m) := by
  have hk' : ys.length > fallbackMinLen := by simpa [fallbackMinLen] using hk
  simp only [extrapEntry, hd, hk', if_true]
  rfl

example : extrapEntry 10 [8, 13, 20] [1, 2, 3] = .ok (5, false, false) := by
  have hd : dispatch (α := ℚ) [8, 13, 20] [1, 2, 3] = .ok 5 := by
    norm_num [dispatch, quadratic_extrapL, quadratic_extrap]
  rw [C07_entry 10 _ _ 5 hd (by decide)]
  norm_num [argminIdx, argminAux, failedExact, nearThreshold, ratAbs]

/-- one grid: no fallback, the value is returned -/
theorem C07_entry_k1 (m : ℕ) (y : ℚ) (xs : List ℚ) : extrapEntry m [y] xs = .ok (y, false, false) := by
  have : ¬ ([y].length > fallbackMinLen) := by simp [fallbackMinLen]
  simp only [extrapEntry, C07_k1, this, if_false]
  rfl

end Fallback

/-! ### the mask of a Spectrum-valued extrapolation (round 7)
`maskResult` runs the generated dispatch and k-point formulas on mask bits, every operation being the generated
`specArithMask` (the binary-arithmetic template of `Spectrum`). -/
section Mask

/-- the arithmetic of `Spectrum`, as translated from the current template: the result is masked exactly where one of the
    operands is — for a corner entry as for any other (nothing is re-masked) -/
theorem C07_arith_mask (corner a b : Bool) :
    specArithMask corner a (some b) = (a || b) ∧ specArithMask corner a none = a := by
  revert corner a b; decide

/-- labels, the mask: for every number of grids 1…6 the extrapolated Spectrum is masked at an entry (corner or not) exactly
    when one of the k results of the model is masked there (complete finite table: 2 · (2 + 4 + … + 64) rows) -/
theorem C07_mask_union (corner : Bool) :
    (∀ m1 : Bool, maskResult corner [m1] = some m1) ∧
    (∀ m1 m2 : Bool, maskResult corner [m1, m2] = some (m1 || m2)) ∧
    (∀ m1 m2 m3 : Bool, maskResult corner [m1, m2, m3] = some (m1 || m2 || m3)) ∧
    (∀ m1 m2 m3 m4 : Bool, maskResult corner [m1, m2, m3, m4] = some (m1 || m2 || m3 || m4)) ∧
    (∀ m1 m2 m3 m4 m5 : Bool, maskResult corner [m1, m2, m3, m4, m5] = some (m1 || m2 || m3 || m4 || m5)) ∧
    (∀ m1 m2 m3 m4 m5 m6 : Bool, maskResult corner [m1, m2, m3, m4, m5, m6] = some (m1 || m2 || m3 || m4 || m5 || m6)) := by
  revert corner; decide

/-- a corner left unmasked by the model on all three grids stays unmasked; an interior entry masked on one grid is masked -/
example : maskResult true [false, false, false] = some false ∧ maskResult false [false, true, false] = some true := by decide

/-- counts outside 1…6 are refused on mask bits as on numbers -/
theorem C07_mask_range (corner : Bool) : maskResult corner [] = none ∧
    maskResult corner [false, false, false, false, false, false, false] = none := by
  revert corner; decide

end Mask
end DadiVerif
