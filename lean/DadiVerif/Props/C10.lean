import DadiVerif.Lemmas.PopOpsScramble
import DadiVerif.Lemmas.PopOpsFold
import DadiVerif.Lemmas.PopOpsProj
import DadiVerif.Lemmas.PopOpsFoldPath
import DadiVerif.Lemmas.PopOpsOffCorner
import DadiVerif.Lemmas.PopOpsScrFold
import DadiVerif.Lemmas.PopOpsSplit
import DadiVerif.Lemmas.PopOpsMisc
import DadiVerif.Lemmas.PopOpsMix
import DadiVerif.Lemmas.PopOpsRedeal
import DadiVerif.Lemmas.PopOpsFoldCombine
/-!
# C10 — population bookkeeping on spectra equals explicit index arithmetic, keeps labels

All statements are about the definitions of `Model/PopOps.lean` that the driver executes (and about the
definitions GENERATED from the current source: `Gen.c2NewIndex`, `Gen.c2NewNs`, `Gen.c2NewIds`,
`Gen.c2MaskStep`, `Gen.c2PropagatesFolded`, `Gen.filterForwardsMaskCorners`, `Gen.miscRows`).
They hold for every number of populations, every shape (unequal sample sizes), every rational
spectrum and every mask, unless a hypothesis says otherwise.

`pushL box f x j = Σ_{i ∈ box, f i = j} x i` is the explicit re-indexing of the property statement;
`S.val` is the entry as numpy's masked reductions see it (masked = 0); `S.box = boxIdx S.shape`
enumerates all multi-indices.
-/
namespace DadiVerif
open PopOps

/-! ## marginalize -/

/-- Summing one axis at a time (any order, any number of axes — the code goes from the highest axis to the
    lowest) equals ONE explicit sum over all dropped axes; the result entry is masked iff all its
    contributors are; the shape loses the same axes. -/
theorem C10_marginalize (ks : List Nat) (S : FS) (j : Idx) (hj : j ∈ boxIdx (dropAxes ks S.shape)) :
    (marginalizeCore ks S).shape = dropAxes ks S.shape ∧
    (marginalizeCore ks S).val j = pushL S.box (dropAxes ks) S.val j ∧
    (marginalizeCore ks S).msk j = allL S.box (dropAxes ks) S.msk j ∧
    (ks ≠ [] → (marginalizeCore ks S).dat j = pushL S.box (dropAxes ks) S.val j) :=
  ⟨marginalizeCore_shape ks S, marginalizeCore_val ks S j hj, marginalizeCore_msk ks S j hj,
   fun h => by rw [← marginalizeCore_val_eq_dat ks h S]; exact marginalizeCore_val ks S j hj⟩

example : [1] ∈ boxIdx (dropAxes [2, 0] [2, 3, 2]) ∧ dropAxes [2, 0] [2, 3, 2] = [3] ∧ ([2, 0] : List Nat) ≠ [] := by decide

/-- Deleting positions from the highest to the lowest (what the code does after `sorted(over)[::-1]`)
    deletes exactly the set `over`: `dropSet over 0` walks the list once and skips the positions in `over`. -/
theorem C10_marginalize_axes {α : Type} (over : List Nat) (hn : over.Nodup) (l : List α) :
    dropAxes (sortDesc over) l = dropSet over 0 l := dropAxes_sortDesc over hn l

/-- The public `marginalize(over, mask_corners)` on an unfolded spectrum: for a duplicate-free `over` of valid axes
    that leaves at least one axis, it returns the spectrum whose shape and labels have the positions `over` removed,
    whose entry `j` is the explicit sum over all source entries that agree with `j` on the kept axes, and whose mask is
    "all contributors masked", plus the two corners when `mask_corners`. -/
theorem C10_marginalize_public (over : List Nat) (mc : Bool) (S : FS) (hf : S.folded = false)
    (hn : over.Nodup) (hv : ∀ k ∈ over, k < S.ndim) (hl : over.length < S.ndim) (hne : over ≠ []) :
    ∃ out, marginalize over mc S = some out ∧
      out.shape = dropSet over 0 S.shape ∧
      out.labels = S.labels.map (dropSet over 0) ∧
      out.folded = false ∧
      ∀ j ∈ boxIdx out.shape,
        out.dat j = pushL S.box (dropSet over 0) S.val j ∧
        out.msk j = (allL S.box (dropSet over 0) S.msk j || (mc && isCorner out.shape j)) := by
  have hperm := sortDesc_perm over
  have hks : sortDesc over ≠ [] := fun h => hne (List.Perm.eq_nil (h ▸ hperm.symm))
  have hcond : ((sortDesc over).any (fun k => decide (S.ndim ≤ k)) || !(decide (sortDesc over).Nodup)
      || decide (S.ndim ≤ (sortDesc over).length)) = false := by
    have h1 : (sortDesc over).any (fun k => decide (S.ndim ≤ k)) = false := by
      rw [List.any_eq_false]; intro k hk
      have := hv k (hperm.mem_iff.1 hk); simp; omega
    have h2 : (sortDesc over).Nodup := hperm.nodup_iff.2 hn
    have h3 : ¬ S.ndim ≤ (sortDesc over).length := by rw [hperm.length_eq]; omega
    simp [h1, h2, h3]
  have hfun : (fun (l : List String) => dropAxes (sortDesc over) l) = dropSet over 0 := by
    funext l; exact dropAxes_sortDesc over hn l
  have hfunI : (dropAxes (sortDesc over) : Idx → Idx) = dropSet over 0 := by
    funext l; exact dropAxes_sortDesc over hn l
  have hshape : dropAxes (sortDesc over) S.shape = dropSet over 0 S.shape := dropAxes_sortDesc over hn _
  cases mc with
  | false =>
    refine ⟨_, by simp only [marginalize, hcond, hf]; rfl, ?_, ?_, rfl, ?_⟩
    · show (marginalizeCore (sortDesc over) S).shape = _
      rw [marginalizeCore_shape, hshape]
    · show S.labels.map (dropAxes (sortDesc over)) = _
      rw [← hfun]
    · intro j hj
      have hj' : j ∈ boxIdx (dropAxes (sortDesc over) S.shape) := by
        have : (marginalizeCore (sortDesc over) S).shape = dropAxes (sortDesc over) S.shape := marginalizeCore_shape _ _
        rw [← this]; exact hj
      obtain ⟨_, _, h3, h4⟩ := C10_marginalize (sortDesc over) S j hj'
      refine ⟨?_, ?_⟩
      · rw [← hfunI]; exact h4 hks
      · rw [← hfunI]; simpa using h3
  | true =>
    refine ⟨_, by simp only [marginalize, hcond, hf]; rfl, ?_, ?_, rfl, ?_⟩
    · show (marginalizeCore (sortDesc over) S).shape = _
      rw [marginalizeCore_shape, hshape]
    · show S.labels.map (dropAxes (sortDesc over)) = _
      rw [← hfun]
    · intro j hj
      have hj' : j ∈ boxIdx (dropAxes (sortDesc over) S.shape) := by
        have : (marginalizeCore (sortDesc over) S).shape = dropAxes (sortDesc over) S.shape := marginalizeCore_shape _ _
        rw [← this]; exact hj
      obtain ⟨_, _, h3, h4⟩ := C10_marginalize (sortDesc over) S j hj'
      refine ⟨?_, ?_⟩
      · rw [← hfunI]; exact h4 hks
      · rw [← hfunI]
        show ((marginalizeCore (sortDesc over) S).msk j || isCorner (marginalizeCore (sortDesc over) S).shape j) = _
        rw [h3]; simp [maskCorners]

example : let S := ofArrays [2, 3, 2] #[1, 2, 3, 4, 5, 6, 7, 8, 9, 10, 11, 12] (Array.replicate 12 false) false (some ["a", "b", "c"])
    S.folded = false ∧ ([0, 2] : List Nat).Nodup ∧ (∀ k ∈ ([0, 2] : List Nat), k < S.ndim) ∧ ([0, 2] : List Nat).length < S.ndim
    ∧ (marginalize [0, 2] true S).map (fun o => (o.labels, o.shape, o.msk [0], o.msk [1])) = some (some ["b"], [3], true, false) := by
  decide +kernel

/-! ## filter_pops -/

/-- `filter_pops(tokeep)` marginalises exactly the complement of `tokeep` (1-based): the `toremove` program yields a
    duplicate-free list whose members are the axes `q < ndim` with `q+1 ∉ tokeep`, and the result is
    `marginalize` of that list (with the corner flag the source passes on, see `C10_filter_forwards_mask_corners`). -/
theorem C10_filter (tokeep : List Nat) (mc : Bool) (S : FS) (rm : List Nat) (h : toRemove S.ndim tokeep = some rm) :
    rm.Nodup ∧ (∀ q, q ∈ rm ↔ (q < S.ndim ∧ q + 1 ∉ tokeep)) ∧
    filterPops tokeep mc S = marginalize rm (if Gen.filterForwardsMaskCorners then mc else true) S := by
  obtain ⟨h1, h2⟩ := toRemove_spec S.ndim tokeep rm h
  exact ⟨h1, h2, by simp [filterPops, h]⟩

example : toRemove 4 [3, 1] = some [1, 3] := by decide

/-! ## reorder_pops -/

/-- `reorder_pops`: for axes that cover `0..d-1`, source entry `i` lands at `j[k] = i[axes[k]]` (nothing else lands
    there), mask alike; shape and labels are permuted by the same map; the image lies in the new box. -/
theorem C10_reorder (axes : List Nat) (S : FS) (hcov : ∀ a, a < S.ndim → a ∈ axes) (hval : ∀ a ∈ axes, a < S.ndim)
    (i : Idx) (hi : i ∈ S.box) :
    (reorderCore axes S).dat (permIdx 0 axes i) = S.dat i ∧
    (reorderCore axes S).msk (permIdx 0 axes i) = S.msk i ∧
    (reorderCore axes S).shape = permIdx 0 axes S.shape ∧
    (reorderCore axes S).labels = S.labels.map (permIdx "" axes) ∧
    (reorderCore axes S).folded = S.folded ∧
    permIdx 0 axes i ∈ (reorderCore axes S).box := by
  have hinj : ∀ i' ∈ S.box, permIdx 0 axes i' = permIdx 0 axes i → i' = i := fun i' hi' h =>
    permIdx_inj axes S.ndim hcov i i' (mem_box_length _ _ hi) (mem_box_length _ _ hi') h
  exact ⟨pushL_inj S.box (nodup_boxIdx _) _ _ i hi hinj, anyL_inj S.box _ _ i hi hinj, rfl, rfl, rfl,
         permIdx_mem_box axes S.shape hval i hi⟩

example : (∀ a, a < 3 → a ∈ ([2, 0, 1] : List Nat)) ∧ (∀ a ∈ ([2, 0, 1] : List Nat), a < 3) ∧ [1, 2, 3] ∈ boxIdx [2, 3, 4] := by decide

/-- the public entry point accepts exactly the permutations of `1..ndim`, and then the 0-based axes cover `0..ndim-1` -/
theorem C10_reorder_public (neworder : List Nat) (S : FS) :
    (reorderPops neworder S = none ↔ sortAsc neworder ≠ (List.range S.ndim).map (· + 1)) ∧
    (sortAsc neworder = (List.range S.ndim).map (· + 1) →
      reorderPops neworder S = some (reorderCore (neworder.map (· - 1)) S) ∧
      (∀ a, a < S.ndim → a ∈ neworder.map (· - 1)) ∧ (∀ a ∈ neworder.map (· - 1), a < S.ndim) ∧
      (neworder.map (· - 1)).Perm (List.range S.ndim)) := by
  refine ⟨by unfold reorderPops; split <;> simp_all, fun h => ⟨by simp [reorderPops, h], ?_, ?_, ?_⟩⟩
  rotate_right
  · have h1 : neworder.Perm ((List.range S.ndim).map (· + 1)) := h ▸ (sortAsc_perm neworder).symm
    have h2 := h1.map (· - 1)
    rw [List.map_map] at h2
    have h3 : (List.range S.ndim).map ((· - 1) ∘ (· + 1)) = List.range S.ndim := by
      conv_rhs => rw [← List.map_id (List.range S.ndim)]
      apply List.map_congr_left; intro a _; simp
    rw [h3] at h2; exact h2
  · intro a ha
    have : a + 1 ∈ sortAsc neworder := by rw [h]; simp; exact ha
    have : a + 1 ∈ neworder := (sortAsc_perm _).mem_iff.1 this
    exact List.mem_map.2 ⟨a + 1, this, by simp⟩
  · intro a ha
    obtain ⟨p, hp, rfl⟩ := List.mem_map.1 ha
    have : p ∈ sortAsc neworder := (sortAsc_perm _).mem_iff.2 hp
    rw [h] at this; simp at this
    obtain ⟨q, hq, rfl⟩ := this
    simp; exact hq

example : let S := ofArrays [2, 3, 4] (Array.replicate 24 1) (Array.replicate 24 false) false (some ["a", "b", "c"])
    sortAsc [3, 1, 2] = (List.range S.ndim).map (· + 1) ∧ [1, 2, 3] ∈ S.box
    ∧ (reorderPops [3, 1, 2] S).map (fun o => (o.labels, o.shape)) = some (some ["c", "a", "b"], [4, 2, 3])
    ∧ permIdx 0 [2, 0, 1] [1, 2, 3] = [3, 1, 2] := by
  decide +kernel

/-! ## combine_two_pops -/

/-- T tie: the index / sample-size / label programs generated from the current source of `combine_two_pops` are the
    documented ones: entry `a` receives `i[a] + i[b]`, entry `b` disappears; the label is `ids[a]+ids[b]`;
    a result cell is masked when an already accumulated or the contributing cell is. -/
theorem C10_combine_two_index (a b : Nat) (i ns : List Nat) (ids : List String) (m c : Bool) :
    merge2 a b i = (i.set a (i.getD a 0 + i.getD b 0)).eraseIdx b ∧
    Gen.c2NewNs a b ns = (ns.set a (ns.getD a 0 + ns.getD b 0)).eraseIdx b ∧
    Gen.c2NewIds a b ids = (ids.set a (ids.getD a "" ++ "+" ++ ids.getD b "")).eraseIdx b ∧
    Gen.c2MaskStep m c = (m || c) ∧ Gen.c2Normalised = true :=
  ⟨rfl, rfl, rfl, rfl, rfl⟩

/-- `combine_two_pops`: every source entry is sent into the box of the new shape (nothing is lost), a result cell that
    ends up unmasked has only unmasked contributors and holds exactly the explicit sum `Σ_{merge2 a b i = j} data i`;
    a masked contributor masks its target; labels follow the generated program. -/
theorem C10_combine_two (a b : Nat) (S : FS) :
    (∀ i ∈ S.box, merge2 a b i ∈ (combineTwoCore a b S).box) ∧
    (∀ j, (combineTwoCore a b S).msk j = false →
        (∀ i ∈ S.box, merge2 a b i = j → S.msk i = false) ∧
        (combineTwoCore a b S).dat j = pushL S.box (merge2 a b) S.dat j) ∧
    (combineTwoCore a b S).shape = mergeShape a b S.shape ∧
    (combineTwoCore a b S).labels = S.labels.map (Gen.c2NewIds a b) :=
  ⟨fun i hi => merge2_mem_box a b S.shape i hi, fun j hj => combineTwoCore_unmasked a b S j hj, rfl, rfl⟩

/-- merged sample size: the two extents `s_a = n_a+1`, `s_b = n_b+1` become `n_a+n_b+1` -/
theorem C10_combine_two_shape (a b : Nat) (sh : List Nat) (hab : a < b) (hb : b < sh.length) (hpos : ∀ s ∈ sh, 1 ≤ s) :
    mergeShape a b sh = (sh.set a (sh.getD a 0 + sh.getD b 0 - 1)).eraseIdx b :=
  mergeShape_explicit a b sh hab hb hpos

example : let S := ofArrays [2, 2, 3] (Array.replicate 12 1) (Array.replicate 12 false) false (some ["a", "b", "c"])
    (combineTwoCore 0 2 S).labels = some ["a+c", "b"] ∧ (combineTwoCore 0 2 S).shape = [4, 2]
    ∧ (combineTwoCore 0 2 S).msk [1, 1] = false ∧ (combineTwoCore 0 2 S).msk [0, 0] = true
    ∧ merge2 0 2 [1, 1, 2] = [3, 1] := by
  decide +kernel

/-- **the public `combine_two_pops([p, q])` for EVERY order in which the caller lists the two populations** (ascending `[1,3]`,
    descending `[3,1]`): the pair the list programs see — GENERATED from `tocombine = sorted([_-1 for _ in tocombine])` — is
    (smaller − 1, larger − 1); the call is rejected exactly for invalid pairs; both orders give the same spectrum; and the
    GENERATED label program puts, axis by axis, `ids[a]+ids[b]` (a = the SMALLER index, in that order whatever the caller wrote) on
    axis `a`, leaves the labels below `b` where they are and moves those above `b` down by one — i.e. the label that disappears
    is the one of the larger index, never the freshly written one. -/
theorem C10_combine_two_public (p q : Nat) (S : FS) :
    Gen.c2Pair p q = (min p q - 1, max p q - 1) ∧
    (combineTwo p q S = none ↔ (p = 0 ∨ q = 0 ∨ p = q ∨ S.ndim < p ∨ S.ndim < q)) ∧
    combineTwo q p S = combineTwo p q S ∧
    (¬ (p = 0 ∨ q = 0 ∨ p = q ∨ S.ndim < p ∨ S.ndim < q) →
      combineTwo p q S = some (combineTwoCore (min p q - 1) (max p q - 1) S) ∧
      ∀ l, S.labels = some l → l.length = S.ndim →
        ∃ l', (combineTwoCore (min p q - 1) (max p q - 1) S).labels = some l' ∧ l'.length = S.ndim - 1 ∧
          ∀ k, k < S.ndim - 1 →
            l'.getD k "" = if k = min p q - 1 then l.getD (min p q - 1) "" ++ "+" ++ l.getD (max p q - 1) ""
                           else if k < max p q - 1 then l.getD k "" else l.getD (k + 1) "") := by
  refine ⟨c2Pair_eq p q, ?_, ?_, fun hv => ⟨?_, fun l hl hlen => ?_⟩⟩
  · unfold combineTwo; split <;> simp_all
  · unfold combineTwo
    rw [c2Pair_comm q p]
    have : (q = 0 ∨ p = 0 ∨ q = p ∨ S.ndim < q ∨ S.ndim < p) ↔ (p = 0 ∨ q = 0 ∨ p = q ∨ S.ndim < p ∨ S.ndim < q) := by omega
    simp only [this]
  · rw [combineTwo, if_neg hv, c2Pair_eq]
  · have hnd : S.ndim = l.length := hlen.symm
    set a := min p q - 1 with ha
    set b := max p q - 1 with hb
    have hab : a < b := by omega
    have hbl : b < l.length := by omega
    refine ⟨Gen.c2NewIds a b l, by simp [combineTwoCore, hl], ?_, fun k hk => ?_⟩
    · rw [c2NewIds_eq, List.length_eraseIdx, List.length_set]; simp [hbl]; omega
    · rw [c2NewIds_eq]
      by_cases hka : k = a
      · rw [if_pos hka, hka, getD_eraseIdx_lt _ _ _ _ hab, getD_set_self _ _ _ _ (by omega)]
      · rw [if_neg hka]
        by_cases hkb : k < b
        · rw [if_pos hkb, getD_eraseIdx_lt _ _ _ _ hkb, getD_set_ne _ _ _ _ _ (Ne.symm hka)]
        · rw [if_neg hkb]
          simp only [List.getD_eq_getElem?_getD]
          rw [List.getElem?_eraseIdx_of_ge (by omega), List.getElem?_set_ne (by omega)]

example : let S := ofArrays [2, 2, 3] (Array.replicate 12 1) (Array.replicate 12 false) false (some ["A", "B", "C"])
    ¬ ((3 : Nat) = 0 ∨ (1 : Nat) = 0 ∨ (3 : Nat) = 1 ∨ S.ndim < 3 ∨ S.ndim < 1)
    ∧ (combineTwo 3 1 S).map (fun o => (o.labels, o.shape)) = some (some ["A+C", "B"], [4, 2])
    ∧ (combineTwo 1 3 S).map (fun o => (o.labels, o.shape)) = some (some ["A+C", "B"], [4, 2])
    ∧ (combineTwo 3 2 S).map (fun o => (o.labels, o.shape)) = some (some ["A", "B+C"], [2, 4]) := by
  decide +kernel

/-! ## combine_pops -/

/-- Iterated pairwise merging into slot `a` (in any order `rs`) equals ONE explicit re-indexing along `mergeAll a rs`
    on every cell that ends up unmasked (and such a cell has no masked contributor). -/
theorem C10_combine (a : Nat) (rs : List Nat) (S : FS) (j : Idx)
    (hjb : j ∈ boxIdx (mergeAllShape a rs S.shape)) (hj : (combineIter a rs S).msk j = false) :
    (∀ i ∈ S.box, mergeAll a rs i = j → S.msk i = false) ∧
    (combineIter a rs S).dat j = pushL S.box (mergeAll a rs) S.dat j ∧
    (combineIter a rs S).shape = mergeAllShape a rs S.shape ∧
    (∀ i ∈ S.box, mergeAll a rs i ∈ boxIdx (mergeAllShape a rs S.shape)) :=
  ⟨(combineIter_unmasked a rs S j hjb hj).1, (combineIter_unmasked a rs S j hjb hj).2, combineIter_shape a rs S,
   fun i hi => mergeAll_mem_box a rs S.shape i hi⟩

example : let S := ofArrays [2, 3, 2, 2] (Array.replicate 24 1) (Array.replicate 24 false) false none
    [1, 1] ∈ boxIdx (mergeAllShape 0 [3, 2] S.shape) ∧ (combineIter 0 [3, 2] S).msk [1, 1] = false := by decide +kernel

/-- …and for the order the code uses (highest index first, all above the receiving slot) that re-indexing is the
    documented one: `new[a] = i[a] + Σ_{r ∈ rs} i[r]`, the merged axes removed. -/
theorem C10_combine_explicit (a : Nat) (rs : List Nat) (hd : rs.Pairwise (· > ·)) (ha : ∀ r ∈ rs, a < r) (i : Idx) :
    mergeAll a rs i = (dropAxes rs i).set a (i.getD a 0 + (rs.map fun r => i.getD r 0).sum) :=
  mergeAll_eq_explicit a rs hd ha i

example : ([3, 2] : List Nat).Pairwise (· > ·) ∧ (∀ r ∈ ([3, 2] : List Nat), 0 < r)
    ∧ mergeAll 0 [3, 2] [1, 2, 1, 1] = ([1, 2] : List Nat).set 0 (1 + (1 + 1)) := by decide

/-- The public `combine_pops(tocombine)`: with `sorted(tocombine) = t0 :: rest` (valid, duplicate-free, 1-based) it is the
    iteration above with slot `t0-1` and the remaining populations from the highest to the lowest, and the labels are
    those of the untouched axes with slot `t0-1` set to the `'+'`-join of the merged labels in index order. -/
theorem C10_combine_public (tc : List Nat) (S : FS) (t0 : Nat) (rest : List Nat) (hs : sortAsc tc = t0 :: rest)
    (hn : tc.Nodup) (hv : ∀ t ∈ tc, 1 ≤ t ∧ t ≤ S.ndim) :
    let a := t0 - 1
    let rs := rest.reverse.map (· - 1)
    rs.Pairwise (· > ·) ∧ (∀ r ∈ rs, a < r) ∧
    ∃ out, combinePops tc S = some out ∧
      out.shape = (combineIter a rs S).shape ∧ out.dat = (combineIter a rs S).dat ∧ out.msk = (combineIter a rs S).msk ∧
      out.labels = S.labels.map (fun l => (dropAxes rs l).set a ("+".intercalate ((t0 :: rest).map fun t => l.getD (t - 1) ""))) := by
  intro a rs
  have hperm : (sortAsc tc).Perm tc := sortAsc_perm _
  have hasc : (t0 :: rest).Pairwise (· < ·) := by rw [← hs]; exact sortAsc_asc tc hn
  have hv' : ∀ t ∈ t0 :: rest, 1 ≤ t ∧ t ≤ S.ndim := fun t ht => hv t (hperm.mem_iff.1 (hs ▸ ht))
  have hrs : rs.Pairwise (· > ·) := by
    rw [List.pairwise_cons] at hasc
    show (rest.reverse.map (· - 1)).Pairwise (· > ·)
    rw [List.pairwise_map, List.pairwise_reverse]
    refine hasc.2.imp_of_mem ?_
    intro x y hx _ hxy
    have := (hv' x (by simp [hx])).1
    show y - 1 > x - 1
    omega
  have har : ∀ r ∈ rs, a < r := by
    intro r hr
    obtain ⟨t, ht, rfl⟩ := List.mem_map.1 hr
    rw [List.mem_reverse] at ht
    rw [List.pairwise_cons] at hasc
    have h1 := hasc.1 t ht
    have h2 := (hv' t0 (by simp)).1
    show t0 - 1 < t - 1
    omega
  refine ⟨hrs, har, ?_⟩
  have hcond : ((t0 :: rest).isEmpty || (t0 :: rest).any (fun t => decide (t = 0 ∨ S.ndim < t)) || !(decide (t0 :: rest).Nodup)) = false := by
    have h1 : (t0 :: rest).any (fun t => decide (t = 0 ∨ S.ndim < t)) = false := by
      rw [List.any_eq_false]; intro t ht
      have := hv' t ht; simp; omega
    have h2 : (t0 :: rest).Nodup := by rw [← hs]; exact hperm.nodup_iff.2 hn
    rw [h1]; simp [h2]
  -- the chain of pairs GENERATED from the loop of `combine_pops`, each normalised by the GENERATED `c2Pair`, is the iteration
  have hiter : (Gen.cpPairs sortAsc (t0 :: rest)).foldl
        (fun acc pr => combineTwoCore (Gen.c2Pair pr.1 pr.2).1 (Gen.c2Pair pr.1 pr.2).2 acc) S = combineIter a rs S := by
    rw [cpPairs_cons]
    show _ = (rest.reverse.map (· - 1)).foldl (fun acc r => combineTwoCore (t0 - 1) r acc) S
    rw [List.foldl_map, List.foldl_map]
    refine foldl_c2Pair t0 rest.reverse (fun r hr => ?_) S
    rw [List.mem_reverse] at hr
    rw [List.pairwise_cons] at hasc
    exact hasc.1 r hr
  refine ⟨_, by simp only [combinePops, cpOrder_eq, hs, hcond]; rfl, ?_, ?_, ?_, ?_⟩
  · show (List.foldl _ S _).shape = _; rw [hiter]
  · show (List.foldl _ S _).dat = _; rw [hiter]
  · show (List.foldl _ S _).msk = _; rw [hiter]
  · simp only [hiter, cpLabelSlot_cons, cpLabelSrc_eq, cpLabelSep_eq]
    rw [combineIter_labels]
    cases hl : S.labels with
    | none => rfl
    | some l =>
      simp only [Option.map_some]
      congr 1
      exact labels_iter a rs har l _

example : let S := ofArrays [2, 3, 2, 2] (Array.replicate 24 1) (Array.replicate 24 false) false (some ["w", "x", "y", "z"])
    sortAsc [4, 1, 3] = 1 :: [3, 4] ∧ ([4, 1, 3] : List Nat).Nodup ∧ (∀ t ∈ ([4, 1, 3] : List Nat), 1 ≤ t ∧ t ≤ S.ndim)
    ∧ (combinePops [4, 1, 3] S).map (fun o => (o.labels, o.shape, o.msk [1, 1])) = some (some ["w+y+z", "x"], [4, 3], false)
    ∧ mergeAll 0 [3, 2] [1, 2, 1, 1] = [3, 2] := by
  decide +kernel

/-- **…for EVERY order in which the caller lists the merge set** (ascending, descending, unsorted — the docstring says "unordered
    set"): `combine_pops` depends on `tocombine` only through the GENERATED `cpOrder` (= `sorted(tocombine)`), so two listings of the
    same populations give the same spectrum, labels included; with `C10_combine_public` the joined label sits on the axis of the
    SMALLEST population number and lists the merged labels in index order, whatever the caller wrote. -/
theorem C10_combine_public_order (tc tc' : List Nat) (S : FS) (h : tc.Perm tc') :
    Gen.cpOrder sortAsc tc = sortAsc tc ∧ combinePops tc S = combinePops tc' S := by
  refine ⟨rfl, ?_⟩
  have e : Gen.cpOrder sortAsc tc = Gen.cpOrder sortAsc tc' := by rw [cpOrder_eq, cpOrder_eq, sortAsc_eq_of_perm h]
  unfold combinePops
  rw [e]

example : let S := ofArrays [2, 3, 2, 2] (Array.replicate 24 1) (Array.replicate 24 false) false (some ["w", "x", "y", "z"])
    ([4, 1, 3] : List Nat).Perm [3, 4, 1]
    ∧ (combinePops [3, 4, 1] S).map (fun o => (o.labels, o.shape)) = some (some ["w+y+z", "x"], [4, 3])
    ∧ (combinePops [4, 2] S).map (fun o => (o.labels, o.shape)) = some (some ["w", "x+z", "y"], [2, 4, 2]) := by
  refine ⟨by decide, by decide +kernel, by decide +kernel⟩

/-! ## scramble_pop_ids -/

/-- Scrambling = pooling (explicit sum over every entry with the same total allele count) followed by re-dealing with the
    multivariate hypergeometric weight Π C(n_l, c_l) / C(N, Σc); binomials are Mathlib's `Nat.choose`. -/
theorem C10_scramble (mc : Bool) (S : FS) (c : Idx) :
    (scrambleCore mc S).dat c
      = ((prodN (List.zipWith Nat.choose (S.shape.map (· - 1)) c) : ℚ) / ((S.shape.map (· - 1)).sum.choose c.sum : ℚ))
        * pushL S.box (fun i => [i.sum]) S.val [c.sum] ∧
    (scrambleCore mc S).shape = S.shape ∧
    (scrambleCore mc S).msk c = (mc && isCorner S.shape c) := by
  refine ⟨?_, rfl, rfl⟩
  show hypW _ c * pool S c.sum = _
  rw [hypW_eq]; rfl

/-- the re-dealing weights of one allele-count class sum to one (multivariate Vandermonde) -/
theorem C10_scramble_weights (ns : List ℕ) (t : ℕ) (ht : t ≤ ns.sum) :
    pushL (boxIdx (ns.map (· + 1))) (fun c => [c.sum]) (hypW ns) [t] = 1 := hyp_fibre_sum ns t ht

example : (3 : ℕ) ≤ ([2, 3, 1] : List ℕ).sum := by decide

/-! ## totals -/

/-- Every operation conserves the total count (sum over the whole box; masked source entries count as 0, as in
    `fs.sum()`): one-axis sums and hence `marginalize`, `combine_two_pops`, `reorder_pops`, `scramble_pop_ids`. -/
theorem C10_totals (S : FS) :
    (∀ ks, ks ≠ [] → ((boxIdx (dropAxes ks S.shape)).map (marginalizeCore ks S).dat).sum = (S.box.map S.val).sum) ∧
    (∀ a b, ((combineTwoCore a b S).box.map (combineTwoCore a b S).dat).sum = (S.box.map S.val).sum) ∧
    (∀ axes, (∀ a ∈ axes, a < S.ndim) → ((reorderCore axes S).box.map (reorderCore axes S).dat).sum = (S.box.map S.dat).sum) ∧
    (∀ mc, (∀ s ∈ S.shape, 1 ≤ s) → (S.box.map (scrambleCore mc S).dat).sum = (S.box.map S.val).sum) := by
  refine ⟨fun ks hks => ?_, fun a b => ?_, fun axes hax => ?_, fun mc hsh => scrambleCore_total mc S hsh⟩
  · rw [← pushL_total S.box (boxIdx (dropAxes ks S.shape)) (nodup_boxIdx _) (nodup_boxIdx _) (dropAxes ks)
        (fun i hi => dropAxes_mem_box ks S.shape i hi) S.val]
    apply congrArg
    apply List.map_congr_left
    intro j hj
    exact ((C10_marginalize ks S j hj).2.2.2 hks)
  · exact pushL_total S.box _ (nodup_boxIdx _) (nodup_boxIdx _) (merge2 a b) (fun i hi => merge2_mem_box a b S.shape i hi) S.val
  · exact pushL_total S.box _ (nodup_boxIdx _) (nodup_boxIdx _) (permIdx 0 axes) (fun i hi => permIdx_mem_box axes S.shape hax i hi) S.dat

example : ([2, 0] : List Nat) ≠ [] ∧ (∀ a ∈ ([2, 0, 1] : List Nat), a < [2, 3, 4].length) ∧ (∀ s ∈ ([2, 3, 4] : List Nat), 1 ≤ s) := by decide

/-! ## Misc.combine_pops (older routine), from the generated dispatch table -/

/-- T tie: every branch of the generated table is well-formed and is the canonical merge: loop variable `v` spans the
    axis it subscripts, the target subscripts are (sum of the two merged variables, then the remaining variable), the
    `zeros` extents are (n_a+n_b+1, n_rest+1). -/
theorem C10_misc_table : ∀ r ∈ Gen.miscRows, miscRowOk r = true := by decide

/-- …hence, for every branch and all loop values, the target index is "merge axes a,b; put the merged axis first" of the
    source index — the same `merge2` that `combine_two_pops` uses. -/
theorem C10_misc_agrees (v0 v1 v2 : Nat) :
    ∀ r ∈ Gen.miscRows, ∀ a b, r.idx = some [a, b] →
      miscDst r [v0, v1, v2] = miscCanonical a b (miscSrc r [v0, v1, v2]) := by
  intro r hr a b hidx
  simp only [Gen.miscRows, List.mem_cons, List.mem_nil_iff, or_false] at hr
  rcases hr with rfl | rfl | rfl | rfl <;> simp at hidx <;> obtain ⟨rfl, rfl⟩ := hidx <;>
    simp [miscDst, miscSrc, miscCanonical, merge2, Gen.c2NewIndex, sumAt]

/-- **every pair of the 3-population branch, semantically** — also `idx = [1, 2]`, whose loop nest reads the source through a
    3-cycle (a permutation that is not its own inverse; using the inverse there merges the wrong populations): for a 3-population
    spectrum and each of `[0,1]`, `[0,2]`, `[1,2]` the branch of the GENERATED table that `Misc.combine_pops` dispatches to returns
    `out[j] = Σ_{i : canonical a b i = j} fs[i]` — ONE explicit re-indexing "merge axes a and b (the same `merge2` as
    `combine_two_pops`), merged axis first" — with extents (n_a+n_b+1, n_rest+1), corners masked, unfolded, unlabelled. -/
theorem C10_misc_pairs (S : FS) (s0 s1 s2 : Nat) (hsh : S.shape = [s0, s1, s2]) (h0 : 1 ≤ s0) (h1 : 1 ≤ s1) (h2 : 1 ≤ s2)
    (a b : Nat) (hab : a < b) (hb : b < 3) :
    ∃ out, miscCombine Gen.miscRows [a, b] S = some out ∧
      out.shape = miscShape a b S.shape ∧
      (∀ j, out.dat j = pushL S.box (miscCanonical a b) S.dat j) ∧
      out.msk = isCorner out.shape ∧ out.folded = false ∧ out.labels = none :=
  miscCombine_pairs S s0 s1 s2 hsh h0 h1 h2 a b hab hb

example : miscShape 1 2 [3, 4, 5] = [8, 3] ∧ miscShape 0 2 [3, 4, 5] = [7, 4] ∧ miscShape 0 1 [3, 4, 5] = [6, 5]
    ∧ miscCanonical 1 2 [2, 3, 4] = [7, 2] ∧ miscCanonical 0 2 [2, 3, 4] = [6, 3] := by decide

/-! ## folding -/

/-- `fold` in closed form on the box: entry `i` becomes κ·(x i + x(mirror i)) with κ = 0 above the diagonal, ½ on it, 1 below -/
theorem C10_fold_closed (S : FS) (i : Idx) (hi : i ∈ S.box) :
    (foldCore S).dat i = foldCoef (nTotal S.shape) i.sum * (S.dat i + S.dat (mirror S.shape i)) :=
  foldCore_dat_closed S i hi

example : [1, 2] ∈ (ofArrays [2, 3] (Array.replicate 6 1) (Array.replicate 6 false) false none).box
    ∧ mirror [2, 3] [1, 2] = [0, 0] ∧ nTotal [2, 3] = 3 := by decide

/-- Re-indexing along any map that preserves the total allele count and commutes with the mirror commutes with folding:
    `fold (push f x) = push f (fold x)` on the target box. -/
theorem C10_commute_fold (shA shB : List Nat) (f : Idx → Idx) (x : Idx → ℚ)
    (hbox : ∀ i ∈ boxIdx shA, f i ∈ boxIdx shB) (hsum : ∀ i ∈ boxIdx shA, (f i).sum = i.sum)
    (hT : nTotal shA = nTotal shB) (hmir : ∀ i ∈ boxIdx shA, f (mirror shA i) = mirror shB (f i))
    (j : Idx) (hj : j ∈ boxIdx shB) :
    foldDat shB (pushL (boxIdx shA) f x) j = pushL (boxIdx shA) f (foldDat shA x) j :=
  fold_push_comm shA shB f x hbox hsum hT hmir j hj

/-- `combine_two_pops` satisfies those hypotheses (a < b): merging commutes with folding -/
theorem C10_commute_fold_combine (a b : Nat) (sh : List Nat) (hab : a < b)
    (x : Idx → ℚ) (j : Idx) (hj : j ∈ boxIdx (mergeShape a b sh)) :
    foldDat (mergeShape a b sh) (pushL (boxIdx sh) (merge2 a b) x) j = pushL (boxIdx sh) (merge2 a b) (foldDat sh x) j :=
  fold_push_comm sh _ (merge2 a b) x (fun i hi => merge2_mem_box a b sh i hi) (fun i _ => merge2_sum a b hab i)
    (nTotal_mergeShape a b sh hab).symm (fun i hi => (merge2_mirror a b sh hab i hi).symm) j hj

/-- `reorder_pops` satisfies them too (axes a permutation of 0..d-1): reordering commutes with folding -/
theorem C10_commute_fold_reorder (axes : List Nat) (sh : List Nat) (hp : axes.Perm (List.range sh.length)) (x : Idx → ℚ)
    (j : Idx) (hj : j ∈ boxIdx (permIdx 0 axes sh)) :
    foldDat (permIdx 0 axes sh) (pushL (boxIdx sh) (permIdx 0 axes) x) j = pushL (boxIdx sh) (permIdx 0 axes) (foldDat sh x) j :=
  fold_reorder_comm axes sh hp x j hj

example : ([2, 0, 1] : List Nat).Perm (List.range [3, 4, 5].length) ∧ [4, 0, 2] ∈ boxIdx (permIdx 0 [2, 0, 1] [3, 4, 5]) := by decide

example : (0 : Nat) < 2 ∧ [3, 1] ∈ boxIdx (mergeShape 0 2 [2, 3, 4]) := by decide

/-- marginalising a folded spectrum (the code unfolds = symmetrises, sums, folds again) gives the fold of the
    marginalised spectrum: `fold (push drop (sym x)) = fold (push drop x)` on the target box, where `sym` is what
    `unfold ∘ fold` produces. -/
theorem C10_commute_fold_marginalize (ks : List Nat) (sh : List Nat) (x : Idx → ℚ) (j : Idx)
    (hj : j ∈ boxIdx (dropAxes ks sh)) :
    foldDat (dropAxes ks sh) (pushL (boxIdx sh) (dropAxes ks) (symDat sh x)) j
      = foldDat (dropAxes ks sh) (pushL (boxIdx sh) (dropAxes ks) x) j :=
  fold_marg_sym ks sh x j hj

example : [1, 2] ∈ boxIdx (dropAxes [1] [2, 4, 3]) := by decide

/-- and `unfold (fold x)` is that symmetrisation, on the box -/
theorem C10_unfold_fold (S : FS) (i : Idx) (hi : i ∈ S.box) :
    (unfoldCore (foldCore S)).dat i = symDat S.shape S.dat i := unfold_fold_dat S i hi

/-! ## projection -/

/-- Summing a population and projecting another one commute, for ANY per-axis resampling kernel `w` (so in particular
    for the hypergeometric weights of `_project_one_axis`): sum over axis k' of the spectrum resampled on axis k = the
    marginal spectrum resampled on that axis (which sits at position `shiftAxis k' k` once k' is gone). -/
theorem C10_commute_project_kernel (w : Nat → Nat → ℚ) (sh : List Nat) (k k' m1 : Nat) (hne : k ≠ k') (hk : k < sh.length)
    (hk' : k' < sh.length) (x : Idx → ℚ) (j : Idx) (hj : j ∈ boxIdx ((sh.set k m1).eraseIdx k')) :
    pushL (boxIdx (sh.set k m1)) (fun i => i.eraseIdx k') (projDat w k (sh.getD k 0) x) j
      = projDat w (shiftAxis k' k) (sh.getD k 0) (pushL (boxIdx sh) (fun i => i.eraseIdx k') x) j :=
  proj_sum_comm w sh k k' m1 hne hk hk' x j hj

/-- …instantiated at the model of `_project_one_axis` and of the masked one-axis sum, on a spectrum without masked entries:
    `sum_{k'} (project_k S) = project_{k after deletion} (sum_{k'} S)`. -/
theorem C10_commute_project_marginalize (k k' m : Nat) (S : FS) (hne : k ≠ k') (hk : k < S.ndim) (hk' : k' < S.ndim)
    (hm : ∀ i, S.msk i = false) (j : Idx) (hj : j ∈ boxIdx ((S.shape.set k (m + 1)).eraseIdx k')) :
    (sumAxis k' (projectAxis k m S)).dat j = (projectAxis (shiftAxis k' k) m (sumAxis k' S)).dat j := by
  have hv1 : (projectAxis k m S).val = (projectAxis k m S).dat := by
    funext i; simp [FS.val, projectAxis, hm]
  have hv2 : S.val = S.dat := by funext i; simp [FS.val, hm]
  have hn : (S.shape.eraseIdx k').getD (shiftAxis k' k) 0 = S.shape.getD k 0 := getD_eraseIdx_ne _ k' k 0 hne
  show pushL (boxIdx (S.shape.set k (m + 1))) (fun i => i.eraseIdx k') (projectAxis k m S).val j = _
  rw [hv1]
  have e1 : (projectAxis k m S).dat = projDat (projW (S.shape.getD k 0 - 1) m) k (S.shape.getD k 0) S.dat := rfl
  have e2 : (projectAxis (shiftAxis k' k) m (sumAxis k' S)).dat
      = projDat (projW (S.shape.getD k 0 - 1) m) (shiftAxis k' k) (S.shape.getD k 0) (pushL S.box (fun i => i.eraseIdx k') S.dat) := by
    show projDat (projW ((S.shape.eraseIdx k').getD (shiftAxis k' k) 0 - 1) m) (shiftAxis k' k)
        ((S.shape.eraseIdx k').getD (shiftAxis k' k) 0) (pushL S.box (fun i => i.eraseIdx k') S.val) = _
    rw [hn, hv2]
  rw [e1, e2]
  exact proj_sum_comm _ S.shape k k' (m + 1) hne hk hk' S.dat j hj

example : (0 : Nat) ≠ 2 ∧ [1, 2] ∈ boxIdx (([4, 3, 5].set 0 (2 + 1)).eraseIdx 2) ∧ shiftAxis 2 0 = 0 ∧ shiftAxis 0 2 = 1 := by decide

/-! ## projection — the general statements (round 4)

`Obs S T` (Lemmas/PopOpsObs.lean) is observational equality: same shape, same mask on the box, same data at every
unmasked entry of the box (numpy leaves the data under the mask unspecified).  `Clean S`: no empty axis and no masked entry.
`AdmSizes ms sh`: one requested size per axis, `ms[k] + 1 ≤ sh[k]` (what `Spectrum.project` checks before it starts).
`projectCore ms S` is the loop of `Spectrum.project` (axis after axis, skipping axes that keep their size),
`project` the public function (Model/PopOps.lean, K-tied through the driver op `proj`). -/

/-- T/K tie of the weights: the windowed weight of the model of `_project_one_axis` is the hypergeometric weight
    C(m,j)·C(n−m,h−j)/C(n,h) with Mathlib's binomials (`hyp` of C08's Lemmas/Hypergeom.lean), exactly 0 outside the window,
    and every source count is distributed completely (rows sum to 1). -/
theorem C10_project_weights (n m h : ℕ) (hm : m ≤ n) (hh : h ≤ n) :
    (∀ j, projW n m h j = hyp m n h j) ∧ ((List.range (m + 1)).map fun j => projW n m h j).sum = 1 :=
  ⟨fun j => projW_eq_hyp n m h j hm hh, projW_rowsum n m h hm hh⟩

example : (2 : ℕ) ≤ 5 ∧ (3 : ℕ) ≤ 5 := by decide

/-- T tie of the window: the bounds GENERATED from `least, most = max(n - (proj_from - hits), 0), min(hits,n)` (integer arithmetic of the
    source, then a count) are, for a source count inside the axis, `m − (n − h) ≤ j ≤ min h m` — the window every mask statement
    about projection uses; the remaining statements of `_project_one_axis` and of `project` are the expected ones (the translator
    refuses anything else). -/
theorem C10_project_window (n m h j : ℕ) (hh : h ≤ n) :
    inWin n m h j = decide (m - (n - h) ≤ j ∧ j ≤ min h m) ∧
    Gen.projOneAxisStructure = true ∧ Gen.projectStructure = true :=
  ⟨inWin_eq n m h j hh, rfl, rfl⟩

example : (3 : ℕ) ≤ 5 ∧ inWin 5 2 3 1 = true ∧ inWin 5 2 3 0 = true ∧ inWin 5 2 5 1 = false := by decide

/-- One-axis projections of different populations commute exactly (all fields), hence the result of the loop of
    `Spectrum.project` does not depend on the order of the axes. -/
theorem C10_project_axes_commute (k m k2 m2 : Nat) (S : FS) (hne : k ≠ k2) :
    projectAxis k m (projectAxis k2 m2 S) = projectAxis k2 m2 (projectAxis k m S) :=
  projectAxis_comm k m k2 m2 S hne

/-- **(1) marginalize ∘ project = project ∘ marginalize, any number of axes on both sides.**  For a spectrum without masked
    entries, ANY list `ks` of axes that can be summed one after the other (the code: `sorted(over)[::-1]`) and ANY admissible
    sizes `ms` — also for the populations that are summed away (their projection is absorbed, rows sum to 1):
    summing `ks` after the projection loop = the projection loop with the sizes of the remaining axes after summing `ks`.
    Shape, mask and data. -/
theorem C10_commute_project_marginalize_all (ks ms : List Nat) (S : FS) (hc : Clean S) (hks : ValidDrops ks S.ndim)
    (hadm : AdmSizes ms S.shape) :
    Obs (marginalizeCore ks (projectCore ms S)) (projectCore (dropAxes ks ms) (marginalizeCore ks S)) :=
  marginalizeCore_projectCore ks ms S hc hks hadm

example : let S := ofArrays [2, 3, 2] #[1, 2, 3, 4, 5, 6, 7, 8, 9, 10, 11, 12] (Array.replicate 12 false) false none
    Clean S ∧ ValidDrops [2, 0] S.ndim ∧ AdmSizes [1, 1, 0] S.shape ∧ dropAxes [2, 0] [1, 1, 0] = [1] := by
  refine ⟨⟨by decide, by decide +kernel⟩, ⟨by decide, by decide, trivial⟩, ?_, by decide⟩
  exact List.Forall₂.cons (by decide) (List.Forall₂.cons (by decide) (List.Forall₂.cons (by decide) List.Forall₂.nil))

/-- …and for the public functions: `fs.project(ns).marginalize(over, mask_corners)` and
    `fs.marginalize(over, mask_corners).project([ns[k] for k not in over])` both succeed and agree in shape, mask, data at
    unmasked entries, labels and folding flag — every unfolded spectrum without masked entries, every duplicate-free `over`
    that leaves a population, all admissible sizes, both settings of `mask_corners`. -/
theorem C10_commute_project_marginalize_public (over ms : List Nat) (mc : Bool) (S : FS) (hf : S.folded = false) (hc : Clean S)
    (hn : over.Nodup) (hv : ∀ k ∈ over, k < S.ndim) (hl : over.length < S.ndim) (hadm : AdmSizes ms S.shape) :
    ∃ A B, (project ms S).bind (marginalize over mc) = some A ∧
      (marginalize over mc S).bind (project (dropSet over 0 ms)) = some B ∧
      Obs A B ∧ A.labels = B.labels ∧ A.folded = B.folded :=
  marginalize_project_public over ms mc S hf hc hn hv hl hadm

example : let S := ofArrays [2, 3, 2] #[1, 2, 3, 4, 5, 6, 7, 8, 9, 10, 11, 12] (Array.replicate 12 false) false (some ["a", "b", "c"])
    S.folded = false ∧ Clean S ∧ ([0, 2] : List Nat).Nodup ∧ (∀ k ∈ ([0, 2] : List Nat), k < S.ndim) ∧ ([0, 2] : List Nat).length < S.ndim
    ∧ dropSet [0, 2] 0 [1, 1, 0] = [1] := by
  refine ⟨rfl, ⟨by decide, by decide +kernel⟩, by decide, by decide, by decide, by decide⟩

/-- …hence also for `filter_pops` (which marginalises the complement of `tokeep`, `C10_filter`): keep some populations before
    or after projecting, the sizes of the kept ones are what matters. -/
theorem C10_commute_project_filter (tokeep ms rm : List Nat) (mc : Bool) (S : FS) (hf : S.folded = false) (hc : Clean S)
    (hrm : toRemove S.ndim tokeep = some rm) (hl : rm.length < S.ndim) (hadm : AdmSizes ms S.shape) :
    ∃ A B, (project ms S).bind (filterPops tokeep mc) = some A ∧
      (filterPops tokeep mc S).bind (project (dropSet rm 0 ms)) = some B ∧
      Obs A B ∧ A.labels = B.labels ∧ A.folded = B.folded := by
  obtain ⟨hn, hmem⟩ := toRemove_spec S.ndim tokeep rm hrm
  have hv : ∀ k ∈ rm, k < S.ndim := fun k hk => ((hmem k).1 hk).1
  obtain ⟨A, B, hA, hB, hobs, hlab, hfold⟩ :=
    marginalize_project_public rm ms (if Gen.filterForwardsMaskCorners then mc else true) S hf hc hn hv hl hadm
  refine ⟨A, B, ?_, ?_, hobs, hlab, hfold⟩
  · rw [project_unfolded ms S hf hadm] at hA ⊢
    rw [Option.bind_some] at hA ⊢
    rw [← hA]
    have hnd : ({ projectCore ms S with folded := false, labels := S.labels } : FS).ndim = S.ndim := projectCore_ndim ms S
    simp only [filterPops, hnd, hrm]
  · rw [← hB]
    simp only [filterPops, hrm]

example : toRemove 3 [2] = some [0, 2] ∧ ([0, 2] : List Nat).length < 3 ∧ dropSet [0, 2] 0 [1, 1, 0] = [1] := by decide

/-- **(1) for the spectra the constructor produces** (`StdMask`: at most the two corners masked) with `mask_corners=True`: everything the
    masked corners do under summing and projecting stays inside the corners of the result, so
    `fs.project(ns).marginalize(over)` = `fs.marginalize(over).project(…)` observationally, labels and flag included
    (reduction to the spectrum with the mask cleared, `C10_commute_project_marginalize_all`). -/
theorem C10_commute_project_marginalize_std (over ms : List Nat) (S : FS) (hf : S.folded = false) (hstd : StdMask S)
    (hn : over.Nodup) (hv : ∀ k ∈ over, k < S.ndim) (hl : over.length < S.ndim) (hadm : AdmSizes ms S.shape) :
    ∃ A B, (project ms S).bind (marginalize over true) = some A ∧
      (marginalize over true S).bind (project (dropSet over 0 ms)) = some B ∧
      Obs A B ∧ A.labels = B.labels ∧ A.folded = B.folded :=
  marginalize_project_public_std over ms S hf hstd hn hv hl hadm

example : let S := maskCorners (ofArrays [2, 3, 2] #[1, 2, 3, 4, 5, 6, 7, 8, 9, 10, 11, 12] (Array.replicate 12 false) false none)
    S.folded = false ∧ StdMask S ∧ S.msk [0, 0, 0] = true ∧ S.msk [1, 2, 1] = true ∧ S.msk [1, 1, 1] = false := by
  refine ⟨rfl, ⟨by decide, by decide +kernel⟩, by decide +kernel, by decide +kernel, by decide +kernel⟩

/-- **(2) reorder_pops ∘ project = project ∘ reorder_pops** with the sizes permuted like the populations
    (`[ns[p-1] for p in neworder]`), for ANY mask: shape, mask, data at unmasked entries. -/
theorem C10_commute_project_reorder (axes ms : List Nat) (S : FS) (hp : axes.Perm (List.range S.ndim))
    (hadm : AdmSizes ms S.shape) :
    Obs (reorderCore axes (projectCore ms S)) (projectCore (permIdx 0 axes ms) (reorderCore axes S)) :=
  reorderCore_projectCore axes ms S hp hadm

theorem C10_commute_project_reorder_public (neworder ms : List Nat) (S : FS) (hf : S.folded = false)
    (hno : sortAsc neworder = (List.range S.ndim).map (· + 1)) (hadm : AdmSizes ms S.shape) :
    ∃ A B, (project ms S).bind (reorderPops neworder) = some A ∧
      (reorderPops neworder S).bind (project (permIdx 0 (neworder.map (· - 1)) ms)) = some B ∧
      Obs A B ∧ A.labels = B.labels ∧ A.folded = B.folded :=
  reorder_project_public neworder ms S hf hno hadm

example : let S := ofArrays [2, 3, 4] (Array.replicate 24 1) (Array.replicate 24 false) false (some ["a", "b", "c"])
    ([2, 0, 1] : List Nat).Perm (List.range S.ndim) ∧ sortAsc [3, 1, 2] = (List.range S.ndim).map (· + 1)
    ∧ permIdx 0 [2, 0, 1] [1, 1, 2] = [2, 1, 1] := by decide

/-- **(3a) combine_two_pops ∘ project = project ∘ combine_two_pops** when the two merged populations keep their sizes, for ANY
    mask: the merged axis keeps its full size n_a+n_b and the other requested sizes move with their axes (`merge2 a b ms` is
    exactly that list); the corners the merge masks are the corners the projection reaches from masked corners. -/
theorem C10_commute_project_combine_two (a b : Nat) (ms : List Nat) (S : FS) (hab : a < b) (hb : b < S.ndim)
    (hadm : AdmSizes ms S.shape)
    (hma : ms.getD a 0 + 1 = S.shape.getD a 0) (hmb : ms.getD b 0 + 1 = S.shape.getD b 0) :
    Obs (combineTwoCore a b (projectCore ms S)) (projectCore (merge2 a b ms) (combineTwoCore a b S)) :=
  combineTwoCore_projectCore a b ms S hab hb hadm hma hmb

example : let S := ofArrays [2, 3, 4] (Array.replicate 24 1) ((Array.replicate 24 false).set! 5 true) false (some ["a", "b", "c"])
    (0 : Nat) < 2 ∧ 2 < S.ndim ∧ ([1, 1, 3] : List Nat).getD 0 0 + 1 = S.shape.getD 0 0
    ∧ ([1, 1, 3] : List Nat).getD 2 0 + 1 = S.shape.getD 2 0 ∧ merge2 0 2 [1, 1, 3] = [4, 1] ∧ S.msk [0, 1, 1] = true := by
  decide +kernel

theorem C10_commute_project_combine_two_public (p q : Nat) (ms : List Nat) (S : FS) (hf : S.folded = false)
    (hp : 1 ≤ p ∧ p ≤ S.ndim) (hq : 1 ≤ q ∧ q ≤ S.ndim) (hpq : p ≠ q) (hadm : AdmSizes ms S.shape)
    (hmp : ms.getD (p - 1) 0 + 1 = S.shape.getD (p - 1) 0) (hmq : ms.getD (q - 1) 0 + 1 = S.shape.getD (q - 1) 0) :
    ∃ A B, (project ms S).bind (combineTwo p q) = some A ∧
      (combineTwo p q S).bind (project (merge2 (min p q - 1) (max p q - 1) ms)) = some B ∧
      Obs A B ∧ A.labels = B.labels ∧ A.folded = B.folded :=
  combineTwo_project_public p q ms S hf hp hq hpq hadm hmp hmq

/-- …and for the iterated merges of `combine_pops` (highest index first, all above the receiving slot `a`): the untouched
    populations may be projected before or after, the sizes list is transformed by the same `mergeAll`. -/
theorem C10_commute_project_combine (a : Nat) (rs ms : List Nat) (S : FS) (hd : rs.Pairwise (· > ·))
    (har : ∀ r ∈ rs, a < r ∧ r < S.ndim) (hadm : AdmSizes ms S.shape)
    (hma : ms.getD a 0 + 1 = S.shape.getD a 0) (hmr : ∀ r ∈ rs, ms.getD r 0 + 1 = S.shape.getD r 0) :
    Obs (combineIter a rs (projectCore ms S)) (projectCore (mergeAll a rs ms) (combineIter a rs S)) :=
  combineIter_projectCore a rs ms S hd har hadm hma hmr

example : let S := ofArrays [2, 3, 2, 3] (Array.replicate 36 1) (Array.replicate 36 false) false none
    ([3, 2] : List Nat).Pairwise (· > ·) ∧ (∀ r ∈ ([3, 2] : List Nat), 0 < r ∧ r < S.ndim)
    ∧ ([1, 1, 1, 2] : List Nat).getD 0 0 + 1 = S.shape.getD 0 0
    ∧ (∀ r ∈ ([3, 2] : List Nat), ([1, 1, 1, 2] : List Nat).getD r 0 + 1 = S.shape.getD r 0)
    ∧ mergeAll 0 [3, 2] [1, 1, 1, 2] = [4, 1] ∧ merge2 0 2 [1, 1, 1] = [2, 1] := by decide

/-- **(3b/c) projecting the MERGED population is not a commutation but a mixture.**  The weight with which a source entry with
    (i_a, i_b) derived alleles reaches count `s` when the merged population (n_a+n_b chromosomes, the model's `projW`) is projected
    to `M` equals the sum over the splits M = ma + (M−ma) — the split is hypergeometric, `hyp na (na+nb) M ma` =
    C(n_a,ma)·C(n_b,M−ma)/C(n_a+n_b,M) — of the weight of reaching (sa, s−sa) when the two populations are projected separately to
    (ma, M−ma) and merged afterwards.  (Two Vandermonde convolutions; lifted to n-D spectra only numerically, L3 `merged_split`.) -/
theorem C10_project_merged_split (na nb M ia ib s : ℕ) (hia : ia ≤ na) (hib : ib ≤ nb) (hM : M ≤ na + nb) (hs : s ≤ M) :
    projW (na + nb) M (ia + ib) s
      = ∑ ma ∈ Finset.range (M + 1), hyp na (na + nb) M ma *
          ∑ sa ∈ Finset.range (s + 1), hyp ma na ia sa * hyp (M - ma) nb ib (s - sa) := by
  rw [projW_eq_hyp (na + nb) M (ia + ib) s hM (by omega)]
  exact hyp_split na nb M ia ib s hia hib hM hs

example : (1 : ℕ) ≤ 2 ∧ (2 : ℕ) ≤ 3 ∧ (3 : ℕ) ≤ 2 + 3 ∧ (1 : ℕ) ≤ 3 := by decide

/-- …and a single split does NOT reproduce it (so "project both, then combine" ≠ "combine, then project the merged axis"):
    n_a = n_b = 1, entry (1,0), M = 1: the pooled weight of count 1 is 1/2, the weight through the split (1,0) is 1. -/
theorem C10_project_merged_not_commuting :
    projW (1 + 1) 1 (1 + 0) 1 = 1 / 2 ∧
    (∑ sa ∈ Finset.range (1 + 1), hyp 1 1 1 sa * hyp (1 - 1) 1 0 (1 - sa)) = 1 := by
  refine ⟨?_, hyp_split_counterexample.2⟩
  rw [projW_eq_hyp (1 + 1) 1 (1 + 0) 1 (by decide) (by decide)]
  exact hyp_split_counterexample.1

/-! ## projection of the merged population and of the scrambled spectrum — n-D statements (round 5) -/

/-- **(3c) lifted to n-D spectra.**  For a spectrum of any dimension without masked entries and two populations a < b:
    projecting the MERGED population of `combine_two_pops` to `M` (`projectAxis a M (combineTwoCore a b S)`) equals, at EVERY cell of
    the box of the result, the hypergeometric mixture over the splits M = ma + (M − ma) — weights
    `hyp na (na+nb) M ma` = C(n_a,ma)·C(n_b,M−ma)/C(n_a+n_b,M) — of `splitTerm a b ma (M−ma) S` = "project population a to ma and
    population b to M − ma (`projectAxis`), then merge (`combineTwoCore`)".  All terms have the shape of the left-hand side, and on
    both sides and in every term exactly the two corners are masked.  (Fibre sums of the merge over boxes whose extents differ
    from split to split, `pushL_merge2_eq`; the weight identity `C10_project_merged_split` applied entry-wise, `mix_kernel`.) -/
theorem C10_project_merged_mixture (a b M : Nat) (S : FS) (hc : Clean S) (hab : a < b) (hb : b < S.ndim)
    (hM : M ≤ (S.shape.getD a 0 - 1) + (S.shape.getD b 0 - 1)) :
    (projectAxis a M (combineTwoCore a b S)).shape = (mergeShape a b S.shape).set a (M + 1) ∧
    (∀ ma, ma ≤ M → (splitTerm a b ma (M - ma) S).shape = (mergeShape a b S.shape).set a (M + 1)) ∧
    ∀ j ∈ boxIdx ((mergeShape a b S.shape).set a (M + 1)),
      (projectAxis a M (combineTwoCore a b S)).msk j = isCorner ((mergeShape a b S.shape).set a (M + 1)) j ∧
      (∀ ma, ma ≤ M → (splitTerm a b ma (M - ma) S).msk j = isCorner ((mergeShape a b S.shape).set a (M + 1)) j) ∧
      (projectAxis a M (combineTwoCore a b S)).dat j
        = ∑ ma ∈ Finset.range (M + 1), hyp (S.shape.getD a 0 - 1) ((S.shape.getD a 0 - 1) + (S.shape.getD b 0 - 1)) M ma *
            (splitTerm a b ma (M - ma) S).dat j :=
  projectAxis_combineTwo_mixture a b M S hc hab hb hM

example : let S := ofArrays [3, 2, 3] (Array.replicate 18 1) (Array.replicate 18 false) false none
    Clean S ∧ (0 : Nat) < 2 ∧ 2 < S.ndim ∧ 3 ≤ (S.shape.getD 0 0 - 1) + (S.shape.getD 2 0 - 1)
    ∧ (mergeShape 0 2 S.shape).set 0 (3 + 1) = [4, 2] ∧ [2, 1] ∈ boxIdx [4, 2]
    ∧ (splitTerm 0 2 1 2 S).shape = [4, 2] ∧ (splitTerm 0 2 2 1 S).shape = [4, 2] := by
  refine ⟨⟨by decide, by decide +kernel⟩, by decide, by decide, by decide, by decide, by decide, by decide, by decide⟩

/-- …and in the form the driver evaluates (K op `mixsplit`): the projected merged spectrum is observationally the model's
    `mixSplit a b M S` = Σ_ma `splitW na nb M ma` · `splitTerm a b ma (M−ma) S`, corners masked. -/
theorem C10_project_merged_mixture_model (a b M : Nat) (S : FS) (hc : Clean S) (hab : a < b) (hb : b < S.ndim)
    (hM : M ≤ (S.shape.getD a 0 - 1) + (S.shape.getD b 0 - 1)) :
    Obs (projectAxis a M (combineTwoCore a b S)) (mixSplit a b M S) ∧
    ∀ ma, ma ≤ M → splitW (S.shape.getD a 0 - 1) (S.shape.getD b 0 - 1) M ma
      = hyp (S.shape.getD a 0 - 1) ((S.shape.getD a 0 - 1) + (S.shape.getD b 0 - 1)) M ma :=
  ⟨mixSplit_obs a b M S hc hab hb hM, fun _ hma => splitW_eq _ _ _ _ hma⟩

example : let S := ofArrays [3, 2, 3] (Array.replicate 18 1) (Array.replicate 18 false) false none
    Clean S ∧ (0 : Nat) < 2 ∧ 2 < S.ndim ∧ 3 ≤ (S.shape.getD 0 0 - 1) + (S.shape.getD 2 0 - 1) ∧ (mixSplit 0 2 3 S).shape = [4, 2] := by
  refine ⟨⟨by decide, by decide +kernel⟩, by decide, by decide, by decide, by decide⟩

/-- …and for the public functions `fs.combine_two_pops([p, q]).project(ns)` (either order of `p`, `q`), `ns` keeping every sample
    size except that of the merged population, which goes to `M < n_a + n_b`: both calls succeed, the result is observationally
    `mixSplit`, keeps the labels of the merged spectrum and is unfolded. -/
theorem C10_project_merged_mixture_public (p q M : Nat) (S : FS) (hf : S.folded = false) (hc : Clean S)
    (hp : 1 ≤ p ∧ p ≤ S.ndim) (hq : 1 ≤ q ∧ q ≤ S.ndim) (hpq : p ≠ q)
    (hM : M < (S.shape.getD (min p q - 1) 0 - 1) + (S.shape.getD (max p q - 1) 0 - 1)) :
    ∃ T A, combineTwo p q S = some T ∧ project ((T.shape.map (· - 1)).set (min p q - 1) M) T = some A ∧
      Obs A (mixSplit (min p q - 1) (max p q - 1) M S) ∧ A.labels = T.labels ∧ A.folded = false :=
  combineTwo_project_merged_public p q M S hf hc hp hq hpq hM

example : let S := ofArrays [3, 2, 3] (Array.replicate 18 1) (Array.replicate 18 false) false (some ["a", "b", "c"])
    S.folded = false ∧ Clean S ∧ (1 ≤ 3 ∧ 3 ≤ S.ndim) ∧ (1 ≤ 1 ∧ 1 ≤ S.ndim) ∧ (3 : Nat) ≠ 1
    ∧ 3 < (S.shape.getD (min 3 1 - 1) 0 - 1) + (S.shape.getD (max 3 1 - 1) 0 - 1) := by
  refine ⟨rfl, ⟨by decide, by decide +kernel⟩, by decide, by decide, by decide, by decide⟩

/-- **scramble_pop_ids vs projection, the form that is true, any number of populations**:
    `project(scramble U) = re-deal(project(pool U))`.  For every spectrum without empty axes (any mask — masked entries count 0 in the
    pool, as in the code) and every admissible list of sizes `ms`, the loop of `Spectrum.project` applied to the scrambled spectrum
    gives shape `ms+1` and at EVERY cell `c` the multivariate hypergeometric weight Π C(m_l,c_l)/C(Σms,Σc) (`hypW ms c`) times the
    POOLED one-dimensional spectrum (`poolFS S`, entry t = Σ_{Σi=t} fs[i]) projected by `_project_one_axis` to Σ ms, read at Σ c.
    (One axis at a time: `redeal_step` — a shifted Vandermonde — and composition of 1-D projections.) -/
theorem C10_project_scramble (mc : Bool) (S : FS) (hpos : ∀ s ∈ S.shape, 1 ≤ s) (ms : List Nat) (hadm : AdmSizes ms S.shape) :
    (projectCore ms (scrambleCore mc S)).shape = ms.map (· + 1) ∧
    ∀ c ∈ boxIdx (ms.map (· + 1)),
      (projectCore ms (scrambleCore mc S)).dat c = hypW ms c * (projectAxis 0 ms.sum (poolFS S)).dat [c.sum] ∧
      (projectCore ms (scrambleCore mc S)).msk c = (mc && isCorner (ms.map (· + 1)) c) := by
  obtain ⟨h1, h2⟩ := projectCore_scramble mc S hpos ms hadm
  refine ⟨h1, fun c hc => ⟨h2 c hc, ?_⟩⟩
  have := projectCore_scramble_msk mc S hpos ms hadm c (by rw [h1]; exact hc)
  rwa [h1] at this

/-- …and for the public functions `fs.scramble_pop_ids(mask_corners).project(ns)` on an unfolded spectrum: succeeds, unfolded,
    unlabelled, the two corners masked iff `mask_corners`, data as above. -/
theorem C10_project_scramble_public (mc : Bool) (S : FS) (hf : S.folded = false) (hpos : ∀ s ∈ S.shape, 1 ≤ s) (ms : List Nat)
    (hadm : AdmSizes ms S.shape) :
    ∃ A, project ms (scramble mc S) = some A ∧ A.shape = ms.map (· + 1) ∧ A.folded = false ∧ A.labels = none ∧
      ∀ c ∈ boxIdx (ms.map (· + 1)),
        A.msk c = (mc && isCorner (ms.map (· + 1)) c) ∧
        A.dat c = hypW ms c * (projectAxis 0 ms.sum (poolFS S)).dat [c.sum] :=
  project_scramble_public mc S hf hpos ms hadm

example : let S := ofArrays [3, 2, 3] (Array.replicate 18 1) (Array.replicate 18 false) false none
    S.folded = false ∧ (∀ s ∈ S.shape, 1 ≤ s) ∧ AdmSizes [1, 1, 2] S.shape ∧ [1, 0, 2] ∈ boxIdx ([1, 1, 2].map (· + 1))
    ∧ (poolFS S).shape = [6] := by
  refine ⟨rfl, by decide, ?_, by decide, by decide⟩
  exact List.Forall₂.cons (by decide) (List.Forall₂.cons (by decide) (List.Forall₂.cons (by decide) List.Forall₂.nil))

/-- …in the form the driver evaluates (K op `projscr`): observationally the model's `redealProj mc ms S` -/
theorem C10_project_scramble_model (mc : Bool) (S : FS) (hpos : ∀ s ∈ S.shape, 1 ≤ s) (ms : List Nat) (hadm : AdmSizes ms S.shape) :
    Obs (projectCore ms (scrambleCore mc S)) (redealProj mc ms S) :=
  redealProj_obs mc S hpos ms hadm

example : (∀ s ∈ ([3, 2, 3] : List Nat), 1 ≤ s) ∧ AdmSizes [1, 1, 2] [3, 2, 3] := by
  refine ⟨by decide, ?_⟩
  exact List.Forall₂.cons (by decide) (List.Forall₂.cons (by decide) (List.Forall₂.cons (by decide) List.Forall₂.nil))

/-- …whereas `scramble` and `project` do NOT commute literally: for sample sizes (1,1) projected to (1,0) the re-deal weight of
    the cell (1,0) is 1/2 before the projection (two populations share the pooled allele) and 1 after it (one population left). -/
theorem C10_project_scramble_not_commuting : hypW [1, 1] [1, 0] = 1 / 2 ∧ hypW [1, 0] [1, 0] = 1 := by
  constructor <;> rw [hypW_eq] <;> norm_num [prodN, Nat.choose]

/-! ## masks (round 4) -/

/-- **the mask of iterated `combine_two_pops`, both directions**: after at least one merge a result cell is masked IF AND ONLY IF
    some contributor along the ONE re-indexing `mergeAll` is masked or the cell is one of the two corners of the result. -/
theorem C10_combine_mask (a r : Nat) (rs : List Nat) (S : FS) (j : Idx) :
    (combineIter a (r :: rs) S).msk j = true ↔
      ((∃ i ∈ S.box, mergeAll a (r :: rs) i = j ∧ S.msk i = true) ∨ isCorner (mergeAllShape a (r :: rs) S.shape) j = true) := by
  rw [combineIter_msk, Bool.or_eq_true, anyL_iff]

/-- **the folded path of `marginalize` end to end** (unfold → sum the axes → mask the corners → fold): for an unfolded spectrum
    without masked entries, `marginalize(over)(fold U)` is observationally `fold(marginalize(over)(U))` — same shape, same mask
    (= folded-out region ∪ the two corners), same data at every unmasked entry, same labels, folded. -/
theorem C10_marginalize_folded_path (over : List Nat) (U : FS) (hf : U.folded = false) (hc : Clean U)
    (hn : over.Nodup) (hv : ∀ k ∈ over, k < U.ndim) (hl : over.length < U.ndim) :
    ∃ R M, marginalize over true (foldCore U) = some R ∧ marginalize over true U = some M ∧
      Obs R (foldCore M) ∧ R.labels = (foldCore M).labels ∧ R.folded = true ∧
      ∀ j ∈ boxIdx R.shape, R.msk j = (foldedOut R.shape j || isCorner R.shape j) :=
  marginalize_fold_obs over U hf hc hn hv hl

example : let U := ofArrays [2, 3, 2] #[1, 2, 3, 4, 5, 6, 7, 8, 9, 10, 11, 12] (Array.replicate 12 false) false (some ["a", "b", "c"])
    U.folded = false ∧ Clean U ∧ ([2] : List Nat).Nodup ∧ (∀ k ∈ ([2] : List Nat), k < U.ndim) ∧ ([2] : List Nat).length < U.ndim
    ∧ (marginalize [2] true (foldCore U)).map (fun R => (R.shape, R.msk [0, 1], R.msk [1, 1], R.msk [1, 2], R.folded)) = some ([2, 3], false, true, true, true) := by
  refine ⟨rfl, ⟨by decide, by decide +kernel⟩, by decide, by decide, by decide, by decide +kernel⟩

/-- the mask of `unfold(fold U)` for a spectrum without masked entries is exactly the two corners -/
theorem C10_unfold_fold_mask (U : FS) (hc : Clean U) (i : Idx) (hi : i ∈ U.box) :
    (unfoldCore (foldCore U)).msk i = isCorner U.shape i := unfold_fold_msk U hc i hi

/-! ## scramble_pop_ids and folding (round 4) -/

/-- **scramble_pop_ids commutes with folding** (data).  `scrDat sh x` is the data of `scrambleCore` (pool by total allele
    count, re-deal with the multivariate hypergeometric weights); scrambling a folded spectrum — the code unfolds
    (= symmetrises, `C10_unfold_fold`), scrambles and folds — gives the fold of the scrambled spectrum. -/
theorem C10_commute_fold_scramble (mc : Bool) (S : FS) (sh : List Nat) (x : Idx → ℚ) (j : Idx) (hj : j ∈ boxIdx sh) :
    (scrambleCore mc S).dat = scrDat S.shape S.val ∧
    foldDat sh (scrDat sh (symDat sh x)) j = foldDat sh (scrDat sh x) j :=
  ⟨rfl, fold_scramble_sym sh x j hj⟩

example : [1, 2] ∈ boxIdx [2, 4] := by decide

/-! ## folded input of the commutations with `project` (round 5) -/

/-- **the observation relation for FOLDED spectra.**  `ObsF S T`: same shape, same mask on the box, and the same data at every
    entry whose mask bit equals its folded-out bit — the unmasked folded-in entries AND the masked folded-out entries, i.e. exactly
    the data `unfold` reads (`newdata = (data + reversed(data))/2`).  `unfold` maps `ObsF` to `Obs`, `fold` maps `Obs` to `ObsF`
    (folded-out entries of a fold are exactly 0), hence `project` on folded input (`unfold → loop → fold`) respects `ObsF`. -/
theorem C10_obsF_unfold_fold (S T : FS) :
    (ObsF S T → Obs (unfoldCore S) (unfoldCore T)) ∧ (Obs S T → ObsF (foldCore S) (foldCore T)) ∧
    (∀ ms, S.folded = true → T.folded = true → ObsF S T →
      (project ms S = none ∧ project ms T = none) ∨ ∃ A B, project ms S = some A ∧ project ms T = some B ∧ ObsF A B) :=
  ⟨obsF_unfoldCore, obs_foldCore, fun ms hS hT h => obsF_project ms hS hT h⟩

/-- **plain `Obs` is NOT enough** (the counterexample): `foldedWitness 0` and `foldedWitness 7` — one population, n = 3, mask =
    corner and folded-out entries, one unit at count 1, and 0 resp. 7 UNDER the folded-out mask at count 2 — are observationally
    equal (same mask, same data at every unmasked entry), but their unfoldings differ at the UNMASKED entry 1 (1/2 vs 4); they are
    not `ObsF`-related.  So the commutations with `project` on folded input can only be stated under `ObsF`. -/
theorem C10_obs_not_congruence_for_unfold :
    Obs (foldedWitness 0) (foldedWitness 7) ∧ ¬ Obs (unfoldCore (foldedWitness 0)) (unfoldCore (foldedWitness 7)) ∧
    ¬ ObsF (foldedWitness 0) (foldedWitness 7) := obs_not_congr_unfold

/-- `unfold ∘ fold` is observationally the identity on a mirror-symmetric spectrum with masked corners — what `unfold` returns and
    what one-axis sums, projections (`hyp_mirror`) and corner masking preserve. -/
theorem C10_unfold_fold_symmetric (Z : FS) (hs : Sym Z) (hcm : CornersMasked Z) : Obs (unfoldCore (foldCore Z)) Z :=
  unfold_fold_sym Z hs hcm

example : let Z := unfoldCore (foldCore (ofArrays [3, 2] #[1, 2, 3, 4, 5, 6] (Array.replicate 6 false) false none))
    (∀ s ∈ Z.shape, 1 ≤ s) ∧ Z.msk [0, 0] = true ∧ Z.msk [2, 1] = true ∧ Z.msk [1, 0] = false := by
  refine ⟨by decide, by decide +kernel, by decide +kernel, by decide +kernel⟩

/-- **marginalize ∘ project = project ∘ marginalize on FOLDED input** (public functions, end to end: each side unfolds, runs its
    loop, masks the corners, folds — twice): for a folded spectrum with the standard mask (folded-out entries and the two corners),
    every duplicate-free `over` that leaves a population and all admissible sizes, both sides succeed and are `ObsF`-equal, with
    the same labels, both folded. -/
theorem C10_commute_project_marginalize_folded (over ms : List Nat) (F : FS) (hf : F.folded = true) (hpos : ∀ s ∈ F.shape, 1 ≤ s)
    (hmask : ∀ i ∈ F.box, F.msk i = (foldedOut F.shape i || isCorner F.shape i))
    (hn : over.Nodup) (hv : ∀ k ∈ over, k < F.ndim) (hl : over.length < F.ndim) (hadm : AdmSizes ms F.shape) :
    ∃ A B, (project ms F).bind (marginalize over true) = some A ∧
      (marginalize over true F).bind (project (dropSet over 0 ms)) = some B ∧
      ObsF A B ∧ A.labels = B.labels ∧ A.folded = true ∧ B.folded = true :=
  marginalize_project_folded over ms F hf hpos hmask hn hv hl hadm

example : let F := foldCore (ofArrays [2, 3, 2] #[1, 2, 3, 4, 5, 6, 7, 8, 9, 10, 11, 12] (Array.replicate 12 false) false (some ["a", "b", "c"]))
    F.folded = true ∧ (∀ s ∈ F.shape, 1 ≤ s) ∧ (∀ i ∈ F.box, F.msk i = (foldedOut F.shape i || isCorner F.shape i))
    ∧ ([0, 2] : List Nat).Nodup ∧ (∀ k ∈ ([0, 2] : List Nat), k < F.ndim) ∧ ([0, 2] : List Nat).length < F.ndim := by
  refine ⟨rfl, by decide, by decide +kernel, by decide, by decide, by decide⟩

/-- **reorder_pops ∘ project = project ∘ reorder_pops on FOLDED input**, ANY mask (a permutation of the axes is a bijection of
    the boxes that commutes with the mirror, so it commutes with `fold` and `unfold` entry by entry): `ObsF`, labels, both folded. -/
theorem C10_commute_project_reorder_folded (neworder ms : List Nat) (F : FS) (hf : F.folded = true)
    (hno : sortAsc neworder = (List.range F.ndim).map (· + 1)) (hadm : AdmSizes ms F.shape) :
    ∃ A B, (project ms F).bind (reorderPops neworder) = some A ∧
      (reorderPops neworder F).bind (project (permIdx 0 (neworder.map (· - 1)) ms)) = some B ∧
      ObsF A B ∧ A.labels = B.labels ∧ A.folded = true ∧ B.folded = true :=
  reorder_project_folded neworder ms F hf hno hadm

example : let F := foldCore (ofArrays [2, 3, 4] (Array.replicate 24 1) (Array.replicate 24 false) false (some ["a", "b", "c"]))
    F.folded = true ∧ sortAsc [3, 1, 2] = (List.range F.ndim).map (· + 1) := by decide

/-- **combine_two_pops ∘ project = project ∘ combine_two_pops on FOLDED input** (the two merged populations keep their sizes), for
    a GENUINE folded spectrum: standard mask and zeros under the folded-out mask — what `fold` produces.  (The zeros are needed:
    `combine_two_pops` skips masked entries while `unfold` reads them, see `C10_obs_not_congruence_for_unfold`.)  Uses
    `combine(fold X) ~ fold(combine X)` (any mask, `ObsF`) and `unfold(combine F) ~ combine(unfold F)`. -/
theorem C10_commute_project_combine_two_folded (p q : Nat) (ms : List Nat) (F : FS) (hf : F.folded = true) (hpos : ∀ s ∈ F.shape, 1 ≤ s)
    (hmask : ∀ i ∈ F.box, F.msk i = (foldedOut F.shape i || isCorner F.shape i))
    (hzero : ∀ i ∈ F.box, foldedOut F.shape i = true → F.dat i = 0)
    (hp : 1 ≤ p ∧ p ≤ F.ndim) (hq : 1 ≤ q ∧ q ≤ F.ndim) (hpq : p ≠ q) (hadm : AdmSizes ms F.shape)
    (hmp : ms.getD (p - 1) 0 + 1 = F.shape.getD (p - 1) 0) (hmq : ms.getD (q - 1) 0 + 1 = F.shape.getD (q - 1) 0) :
    ∃ A B, (project ms F).bind (combineTwo p q) = some A ∧
      (combineTwo p q F).bind (project (merge2 (min p q - 1) (max p q - 1) ms)) = some B ∧
      ObsF A B ∧ A.labels = B.labels ∧ A.folded = true ∧ B.folded = true :=
  combineTwo_project_folded p q ms F hf hpos hmask hzero hp hq hpq hadm hmp hmq

example : let F := foldCore (ofArrays [2, 3, 2] (Array.replicate 12 1) (Array.replicate 12 false) false (some ["a", "b", "c"]))
    F.folded = true ∧ (∀ i ∈ F.box, F.msk i = (foldedOut F.shape i || isCorner F.shape i))
    ∧ (1 ≤ 3 ∧ 3 ≤ F.ndim) ∧ (1 ≤ 1 ∧ 1 ≤ F.ndim) ∧ (3 : Nat) ≠ 1
    ∧ ([1, 1, 1] : List Nat).getD (3 - 1) 0 + 1 = F.shape.getD (3 - 1) 0 ∧ ([1, 1, 1] : List Nat).getD (1 - 1) 0 + 1 = F.shape.getD (1 - 1) 0 := by
  refine ⟨rfl, by decide +kernel, by decide, by decide, by decide, by decide, by decide⟩

/-! ## the two obligations that the generated wiring must meet (they fail while the defect is in the source) -/

/-- `filter_pops(tokeep, mask_corners)` must hand its documented `mask_corners` argument to `marginalize` -/
theorem C10_filter_forwards_mask_corners : Gen.filterForwardsMaskCorners = true := by decide

/-- `combine_two_pops` must hand the folding status on: merging commutes with folding (`C10_commute_fold_combine`), so the
    merge of a folded spectrum IS the folded merged spectrum and has to say so -/
theorem C10_combine_keeps_folded (a b : Nat) (S : FS) : (combineTwoCore a b S).folded = S.folded := by
  simp [combineTwoCore, show Gen.c2PropagatesFolded = true by decide]

end DadiVerif
