import DadiVerif.Lemmas.Integrate
import DadiVerif.Lemmas.Precalc
import DadiVerif.Lemmas.Pivots
import DadiVerif.Lemmas.Positivity
import DadiVerif.Lemmas.GridReal
import DadiVerif.Lemmas.DriverProgram
import DadiVerif.Lemmas.KernelRun
import DadiVerif.Lemmas.KernelOrder
/-!
# C02 — every integration path solves the documented implicit scheme

Property theorems only (helper lemmas are in `Lemmas/`).  All statements quantify over every
grid size, every rational grid/density/parameter, every `delj` (hence both settings of the
delj switch and any value the Chang–Cooper formula may produce), every dimension the kernels
support, with no bound on sizes.  Definitions referenced here (`C.Vfunc`, `C.Mfunc*`, `C.atemp`,
`C.ctemp`, `C.bcFirst`, `C.bcLast`, `Py.pre*`, the wiring tables) are *generated from the current
source* by tools/translate.py on every run.
-/
namespace DadiVerif
open Gen Finset

/-- The Thomas sweep of `tridiag.c` returns a solution of the tridiagonal system whenever no pivot vanishes
    (any size). -/
theorem C02_thomas (rows : List Row) (hp : PivotsOk 1 0 rows) : Solves 0 rows (thomas rows) :=
  thomas_solves rows hp

/-- …and that solution is the only one: any solution has all components equal to the computed ones.
    (Stated through the homogeneous system: a solution with zero right-hand side is zero.) -/
theorem C02_unique_homogeneous (rows : List Row) (hp : PivotsOk 1 0 rows) (hr : ∀ row ∈ rows, row.r = 0)
    (xs : List ℚ) (hs : Solves 0 rows xs) : ∀ x ∈ xs, x = 0 := by
  apply solves_zero rows 1 0 0 xs hp hr
  cases rows with
  | nil => cases xs <;> simp_all [Solves]
  | cons row rs =>
    cases xs with
    | nil => simp_all [Solves]
    | cons x xs' =>
      obtain ⟨h1, h2⟩ := hs
      refine ⟨?_, h2⟩
      simp at h1 ⊢
      rw [hr row (List.mem_cons_self)] at h1
      linarith

/-- drift term: V(x) = x(1−x)/ν in 2–5 populations, times (β+1)²/(4β) in the one-population kernel -/
theorem C02_V_drift (x nu β : ℚ) :
    C.Vfunc x nu = x * (1 - x) / nu ∧ C.Vfunc_beta x nu β = x * (1 - x) / nu * ((β + 1)^2 / (4*β)) :=
  ⟨Vfunc_drift x nu, Vfunc_beta_drift x nu β⟩

/-- advection term of every kernel: migration from every other population plus selection with dominance -/
theorem C02_M_canonical (x : ℚ) (ms ys : List ℚ) (gamma h : ℚ) (hl : ms.length = ys.length) (h4 : ms.length ≤ 4) :
    Mkernel x ms ys gamma h
      = some (sumL (List.zipWith (fun m y => m * (y - x)) ms ys) + gamma * 2 * (h + (1 - 2*h) * x) * x * (1 - x)) := by
  have hs := Mkernel_isSome x ms ys gamma h hl h4
  obtain ⟨r, hr⟩ := Option.isSome_iff_exists.mp hs
  rw [hr, Mkernel_eq_Mgen x ms ys gamma h r hr]; rfl

/-- The assembled a/b/c rows of any kernel are the conservative scheme:
    (Aφ')_j = φ'_j/dt + Δ_j (F_{j+½} − F_{j−½}) + bc_j φ'_j, closed faces at both ends. -/
theorem C02_flux_form (L : Line) (φ : ℕ → ℚ) (j : ℕ) (hj : j < L.N) :
    L.apply φ j = φ j / L.dt + L.df j * (L.G φ (j+1) - L.G φ j) + L.bc j * φ j :=
  L.flux_form φ j hj

/-- …with the documented flux through face k (between nodes k−1 and k):
    F = M_{k−½}(δ φ_{k−1} + (1−δ) φ_k) − (V_k φ_k − V_{k−1} φ_{k−1}) / (2 Δx),
    for the line that `axisLine`/`mkLine` builds from the generated `atemp`, `ctemp`. -/
theorem C02_flux_documented (xs : Array ℚ) (V M : ℚ → ℚ) (delj : ℕ → ℚ) (nu dt : ℚ) (z o : Bool)
    (φ : ℕ → ℚ) (k : ℕ) (hk1 : 1 ≤ k) (hk2 : k + 1 ≤ xs.size) :
    let x : ℕ → ℚ := fun j => xs.getD j 0
    let Mh := M ((1/2 : ℚ) * (x k + x (k-1)))
    (mkLine xs V M delj nu z o dt).G φ k
      = Mh * (delj (k-1) * φ (k-1) + (1 - delj (k-1)) * φ k)
        - (V (x k) * φ k - V (x (k-1)) * φ (k-1)) / (2 * (x k - x (k-1))) := by
  intro x Mh
  obtain ⟨m, rfl⟩ : ∃ m, k = m + 1 := ⟨k - 1, by omega⟩
  simp only [Line.G, mkLine, C.atemp, C.ctemp, Nat.add_sub_cancel]
  rw [if_pos ⟨by omega, by omega⟩]
  simp only [Mh, x, Nat.add_sub_cancel]
  ring

/-- absorbing terms are present only at the two ends, and only on all-zero / all-one lines -/
theorem C02_bc_corners_only (xs : Array ℚ) (V M : ℚ → ℚ) (delj : ℕ → ℚ) (nu dt : ℚ) (z o : Bool) (j : ℕ) :
    (0 < j ∧ j + 1 < xs.size → (mkLine xs V M delj nu z o dt).bc j = 0) ∧
    (z = false ∧ o = false → (mkLine xs V M delj nu z o dt).bc j = 0) := by
  constructor
  · rintro ⟨h0, h1⟩
    simp only [mkLine]
    rw [if_neg (by omega), if_neg (by omega)]; simp
  · rintro ⟨rfl, rfl⟩
    simp [mkLine]

/-- One kernel call *is* the solution of that system: every entry of the updated density satisfies
    row j of its line (all dimensions, all axes, arbitrary grids/parameters), provided no pivot vanishes. -/
theorem C02_step_solves (grids : List (Array ℚ)) (k : ℕ) (P : AxisParams) (use : Bool)
    (eps : List ℕ → ℕ → ℚ) (dt : ℚ) (T : List ℕ → ℚ) (i : List ℕ) :
    let L := axisLine (grids.getD k #[]) P (otherCoords grids k i) use (eps i) dt
    let φ := fun j => T (i.insertIdx k j)
    PivotsOk 1 0 (L.rows φ) →
    ∀ j < L.N, L.apply (fun j' => listGetD (L.step φ) j') j = φ j / dt := by
  intro L φ hp j hj
  exact L.step_solves φ hp j hj

/-- wiring of the 15 C kernels (table regenerated from integration{1..5}D.c): kernel (d, ax) reads the other
    coordinates in axis order, pairs migration rate m_{ax,l} with coordinate l, uses ν_ax, γ_ax, h_ax,
    guards its absorbing terms by *all* other coordinates being 0 (resp. 1), indexes row-major. -/
def expectedKernel (d ax : ℕ) : C.KernelWiring :=
  let others := (List.range d).filter (· ≠ ax)
  { d := d, ax := ax, coordAxes := others, migPairs := others.map (fun l => (ax, l)),
    nuIdx := ax, gammaIdx := ax, hIdx := ax, zeroGuardAxes := others, oneGuardAxes := others,
    nGuard0 := d - 1, nGuard1 := d - 1, endpointsOk := true, stridesOk := true, usesBeta := d == 1 }

theorem C02_wiring_kernels :
    C.kernels = (List.range 5).flatMap (fun d => (List.range (d+1)).map (fun ax => expectedKernel (d+1) ax))
    ∧ C.abcShapeOk = true ∧ C.dfactorShapeOk = true ∧ C.xIntShapeOk = true ∧ C.dxShapeOk = true ∧ C.tridiagShapeOk = true := by
  decide

/-- wiring of the Python drivers: `one_pop…five_pops` call kernel (d, ax) with (φ, grids…, ν_ax, m_{ax,·}, γ_ax, h_ax, this_dt, delj switch)
    and compute dt from (ν_ax, [m_{ax,·}], γ_ax, h_ax) for every axis. -/
def popName (base : String) (d ax : ℕ) : String := if d == 1 then base else base ++ toString (ax+1)
def expectedDriverArgs (d ax : ℕ) : List String :=
  ["phi"] ++ (["xx", "yy", "zz", "aa", "bb"].take d) ++ [popName "nu" d ax]
    ++ ((List.range d).filter (· ≠ ax)).map (fun l => "m" ++ toString (ax+1) ++ toString (l+1))
    ++ [popName "gamma" d ax, popName "h" d ax] ++ (if d == 1 then ["beta"] else [])
    ++ ["this_dt", if d == 1 then "use_delj_trick=use_delj_trick" else "use_delj_trick"]
def expectedDtArgs (d ax : ℕ) : List String :=
  ["d" ++ (["x", "y", "z", "a", "b"].getD ax ""), popName "nu" d ax,
   if d == 1 then "[0]" else "[" ++ ", ".intercalate (((List.range d).filter (· ≠ ax)).map (fun l => "m" ++ toString (ax+1) ++ toString (l+1))) ++ "]",
   popName "gamma" d ax, popName "h" d ax]

theorem C02_wiring_drivers :
    Py.driverCalls.map (fun c => (c.d, c.ax, c.args))
      = (List.range 5).flatMap (fun d => (List.range (d+1)).map (fun ax => (d+1, ax, expectedDriverArgs (d+1) ax)))
    ∧ Py.dtCalls.map (fun c => (c.d, c.ax, c.args))
      = (List.range 5).flatMap (fun d => (List.range (d+1)).map (fun ax => (d+1, ax, expectedDtArgs (d+1) ax))) := by
  decide

/-! ### The time loops of the ten drivers, statement by statement

`Py.driverPrograms` is the translation of the time loops of `one_pop … five_pops` (4-D/5-D: constants are wrapped into constant
functions and take the same loop) and of `_one/_two/_three_pops_const_params` into a closed statement language (anything else in
a loop — `break`, another loop form, an extra statement — does not translate and is reported as a broken obligation).
`Prog.resolve` binds each call by NAME against the callee's signature: `_compute_dt`, `_inject_mutations_<d>D`, and for a kernel the
chain wrapper in `integration_c.pyx` → C function in `integration<d>D.c` → role of each C parameter in the body (size → `Vfunc`,
rate ↔ coordinate → `Mfunc`, `dt` → `compute_abc_nobc` and the right-hand side, switch → `compute_delj`), all generated. -/

/-- **every driver's translated time loop is the schedule of the model**, call by call and binding by binding: kernel (d, ax) is
    called with the density, the grids, and ν_ax, (m_{ax,l} paired with coordinate l), γ_ax, h_ax (β in 1-D) in the slots just
    re-evaluated, `this_dt`, the delj switch, under `if not frozen_ax`; the constant drivers call the pre-computed kernel of axis ax
    with the a/b/c arrays of that axis (whose ν, m, γ, h are `Py.preParams`); plus everything `C03_driver_schedule` and
    `C04_driver_flags` say. -/
theorem C02_driver_program : Py.driverPrograms.map Prog.resolve = Prog.expectedAll := by
  decide +kernel

/-- **…and that schedule, executed statement by statement, IS the model the correspondence harness runs**: for every translated
    driver, every environment (parameter functions, flags, T, initial time), any grids, delj setting and number of steps,
    running its resolved program with the kernel semantics `injectFn`/`stepAxisFn` equals `integrateFn` (time-dependent drivers:
    dt from the current values, the whole parameter set at `next_t`, `while t < T` with the clipped last step) resp.
    `integrateConst` (constant drivers) of `sweepFn`. -/
theorem C02_driver_program_is_model (P : Py.DriverProgram) (hP : P ∈ Py.driverPrograms) (grids : List (Array ℚ))
    (hd : grids.length = (Prog.resolve P).d) (use : Bool) (eps : ℕ → List ℕ → ℕ → ℚ) (E : Prog.PEnv) (fuel : ℕ)
    (vals0 : Py.Param → ℚ) (φ : List ℕ → ℚ) :
    let d := grids.length
    Prog.run (Prog.semFn grids use eps) E (Prog.resolve P) fuel vals0 φ
      = if (Prog.resolve P).const then
          integrateConst (sweepFn grids (Prog.frList d E) (Prog.nmList d E) use eps) E.tf (Prog.toStep d vals0) E.T fuel E.t0 φ
        else
          integrateFn (sweepFn grids (Prog.frList d E) (Prog.nmList d E) use eps) E.tf
            (fun τ => Prog.toStep d (fun p => E.pf p τ)) E.T fuel E.t0 (Prog.toStep d (fun p => E.pf p E.t0)) φ := by
  intro d
  have hmem : Prog.resolve P ∈ Prog.expectedAll := by
    rw [← C02_driver_program]; exact List.mem_map_of_mem hP
  simp only [Prog.expectedAll, List.mem_append, List.mem_map, List.mem_range] at hmem
  rcases hmem with ⟨k, _, hk⟩ | ⟨k, _, hk⟩
  · rw [← hk] at hd ⊢
    have e : grids.length = k + 1 := by simpa [Prog.expected] using hd
    have hc : (Prog.expected (k + 1) false).const = false := by simp [Prog.expected]
    rw [hc, Prog.run_expected_fn, ← Prog.sweepOf_semFn]
    simp only [d, e, Bool.false_eq_true, if_false]
  · rw [← hk] at hd ⊢
    have e : grids.length = k + 1 := by simpa [Prog.expected] using hd
    have hc : (Prog.expected (k + 1) true).const = true := by simp [Prog.expected]
    rw [hc, Prog.run_expected_const, ← Prog.sweepOf_semFn]
    simp only [d, e, if_true]

/-- non-vacuity: there are eight translated loops, of the dimensions and kinds expected, each with a non-empty body -/
example : Py.driverPrograms.map (fun P => (P.d, P.const, decide (P.body.length > 3))) =
    [(1, false, true), (2, false, true), (3, false, true), (4, false, true), (5, false, true),
     (1, true, true), (2, true, true), (3, true, true)] := by decide

/-- the constant / time-dependent dispatch of `one_pop`, `two_pops`, `three_pops`: all parameters are tested for being scalars, and
    every parameter of `_<n>_pops_const_params` receives the caller's argument of the same name (four_pops/five_pops have no such
    path: `C02_driver_program` shows their constants go through the time-dependent loop, `C02_const_fn` that this is the same) -/
theorem C02_driver_dispatch : Py.dispatches.all Prog.dispatchOk = true ∧ Py.dispatches.map (·.d) = [1, 2, 3] := by
  decide +kernel

/-- **precomputed-coefficient drivers = on-the-fly kernels**: for each of the six coefficient sets that the Python
    constant-parameter drivers assemble (`_one/_two/_three_pops_const_params`, update expressions regenerated from the source
    and read pointwise), the arrays a, b (+1/dt, added by the C precalc kernel), c are exactly the rows the on-the-fly C kernel
    builds, on every line, for every grid size ≥ 2, every V, M, delj; boundary terms included. -/
theorem C02_precalc (d ax : ℕ) (F : PreFormulas) (hF : preFormulas d ax = some F) (xs : Array ℚ) (hN : 2 ≤ xs.size)
    (V M : ℚ → ℚ) (delj : ℕ → ℚ) (nu dt : ℚ) (z o : Bool) (j : ℕ) (hj : j < xs.size) :
    let L := mkLine xs V M delj nu z o dt
    let x : ℕ → ℚ := fun j => xs.getD j 0
    let bcF := if z = true ∧ M (x 0) ≤ 0 then C.bcFirst nu (M (x 0)) (x 1 - x 0) else 0
    let bcL := if o = true ∧ M (x (xs.size - 1)) ≥ 0 then C.bcLast nu (M (x (xs.size - 1))) (x (xs.size - 2 + 1) - x (xs.size - 2)) else 0
    let Cf := preCoef F xs V M delj bcF bcL
    Cf.a j = L.a j ∧ Cf.b j + 1 / dt = L.b j ∧ Cf.c j = L.c j :=
  preCoef_eq_line F (preFormulas_ok d ax F hF) xs hN V M delj nu dt z o j hj

/-- …hence one pre-computed step (Thomas solve of the rows `(a, b + 1/dt, c, φ/dt)` that `implicit_precalc_*` / the 1-D driver hand
    to the solver) returns exactly the on-the-fly step, for every density -/
theorem C02_precalc_step (d ax : ℕ) (F : PreFormulas) (hF : preFormulas d ax = some F) (xs : Array ℚ) (hN : 2 ≤ xs.size)
    (V M : ℚ → ℚ) (delj : ℕ → ℚ) (nu dt : ℚ) (z o : Bool) (φ : ℕ → ℚ) :
    let x : ℕ → ℚ := fun j => xs.getD j 0
    let bcF := if z = true ∧ M (x 0) ≤ 0 then C.bcFirst nu (M (x 0)) (x 1 - x 0) else 0
    let bcL := if o = true ∧ M (x (xs.size - 1)) ≥ 0 then C.bcLast nu (M (x (xs.size - 1))) (x (xs.size - 2 + 1) - x (xs.size - 2)) else 0
    thomas ((preCoef F xs V M delj bcF bcL).rows xs.size dt φ) = (mkLine xs V M delj nu z o dt).step φ :=
  preCoef_step_eq F (preFormulas_ok d ax F hF) xs hN V M delj nu dt z o φ

/-- …the Python boundary-term formulas and guards, and the Python V and M functions, are the C ones -/
theorem C02_precalc_pieces (nu Mf Ml dx0 dxl x y z' m1 m2 g h β : ℚ) :
    Py.pre1D_bcFirst nu Mf Ml dx0 dxl = C.bcFirst nu Mf dx0 ∧ Py.pre1D_bcLast nu Mf Ml dx0 dxl = C.bcLast nu Ml dxl ∧
    (Py.pre1D_bcFirstGuard Mf Ml = true ↔ Mf ≤ 0) ∧ (Py.pre1D_bcLastGuard Mf Ml = true ↔ Ml ≥ 0) ∧
    Py.Vfunc x nu β = C.Vfunc_beta x nu β ∧ Py.Vfunc x nu 1 = C.Vfunc x nu ∧
    Py.Mfunc1D x g h = C.Mfunc1D x g h ∧ Py.Mfunc2D x y m1 g h = C.Mfunc2D x y m1 g h ∧
    Py.Mfunc3D x y z' m1 m2 g h = C.Mfunc3D x y z' m1 m2 g h := by
  obtain ⟨a, b, c, d⟩ := py_bc_eq nu Mf Ml dx0 dxl
  exact ⟨a, b, c, d, Py_Vfunc_eq_beta x nu β, Py_Vfunc_one x nu, Py_Mfunc1D_eq x g h, Py_Mfunc2D_eq x y m1 g h,
    Py_Mfunc3D_eq x y z' m1 m2 g h⟩

/-- a parameter passed as a constant and the same parameter passed as a function of time returning that constant give
    the same result: for any step function, any duration, any number of steps (induction on the step count) -/
theorem C02_const_fn {σ : Type} (step : StepParams → ℚ → σ → σ) (tf : ℚ) (P : StepParams) (T : ℚ) (fuel : ℕ) (t : ℚ) (φ : σ) :
    integrateFn step tf (fun _ => P) T fuel t P φ = integrateConst step tf P T fuel t φ :=
  integrateFn_const step tf P T fuel t φ

/-- wiring of the 2-D/3-D constant-parameter drivers (table regenerated from `_two/_three_pops_const_params`): along axis `ax` the
    coefficients are built from V(grid_ax, ν_ax) and M(grid_ax, other grids in axis order — each broadcast along its own axis —,
    m_{ax,l} in the same order, γ_ax, h_ax); the boundary terms use ν_ax, M at the [0,…,0] / [−1,…,−1] corner and dx[0] / dx[−1]. -/
def gridName (k : ℕ) : String := ["xx", "yy", "zz"].getD k ""
def axLetter (k : ℕ) : String := ["x", "y", "z"].getD k ""
def bcast (d k : ℕ) (sl : String) : String :=
  gridName k ++ "[" ++ ",".intercalate ((List.range d).map fun p => if p = k then sl else "nuax") ++ "]"
def mArgs (d ax : ℕ) (first : String) : List String :=
  [first] ++ (((List.range d).filter (· ≠ ax)).map fun l => bcast d l ":")
    ++ (((List.range d).filter (· ≠ ax)).map fun l => "m" ++ toString (ax+1) ++ toString (l+1))
    ++ ["gamma" ++ toString (ax+1), "h" ++ toString (ax+1)]
def corner (d : ℕ) (i : String) : String := "[" ++ ",".intercalate ((List.range d).map fun _ => i) ++ "]"
def preWiringOk (e : Py.PreWiring) : Bool :=
  let g := gridName e.ax; let a := axLetter e.ax; let nu := "nu" ++ toString (e.ax+1)
  if e.what == "V" ++ a then e.args == [g, nu]
  else if e.what == "V" ++ a ++ "Int" then
    e.args == ["(" ++ g ++ "[:-1]+" ++ g ++ "[1:])/2", nu] || e.args == ["(" ++ g ++ "[1:]+" ++ g ++ "[:-1])/2", nu]
  else if e.what == "M" ++ a then e.args == mArgs e.d e.ax (bcast e.d e.ax ":")
  else if e.what == "M" ++ a ++ "Int" then
    e.args == mArgs e.d e.ax ("(" ++ bcast e.d e.ax ":-1" ++ "+" ++ bcast e.d e.ax "1:" ++ ")/2")
      || e.args == mArgs e.d e.ax ("(" ++ bcast e.d e.ax "1:" ++ "+" ++ bcast e.d e.ax ":-1" ++ ")/2")
  else if e.what == "bc:M" ++ a ++ corner e.d "0" ++ "<=0" then
    e.args == ["b" ++ a ++ corner e.d "0", "(0.5/" ++ nu ++ "-M" ++ a ++ corner e.d "0" ++ ")*2/d" ++ a ++ "[0]"]
  else if e.what == "bc:M" ++ a ++ corner e.d "-1" ++ ">=0" then
    e.args == ["b" ++ a ++ corner e.d "-1", "-(-0.5/" ++ nu ++ "-M" ++ a ++ corner e.d "-1" ++ ")*2/d" ++ a ++ "[-1]"]
  else false

theorem C02_wiring_precalc :
    Py.preWiring.all preWiringOk = true
    ∧ Py.preWiring.map (fun e => (e.d, e.ax)) = (List.replicate 4 (2, 0)) ++ (List.replicate 4 (2, 1)) ++ (List.replicate 2 (2, 0))
        ++ (List.replicate 2 (2, 1)) ++ (List.replicate 6 (3, 0)) ++ (List.replicate 6 (3, 1)) ++ (List.replicate 6 (3, 2)) := by
  decide

/-- **The hypothesis `PivotsOk` of `C02_thomas`/`C02_step_solves` holds whenever the scheme is an M-matrix**: on a strictly increasing
    grid, for dt > 0, if the flux coefficients of every interval are non-negative (atemp ≥ 0 and ctemp ≥ 0 — the sign form of the
    mesh-Péclet condition) and ν > 0, then no Thomas pivot vanishes (each pivot is ≥ 1/dt), for every right-hand side, every
    delj, every corner flag.  In particular unconditionally without migration and selection (`C02_pivots_nomig`). -/
theorem C02_pivots_mmatrix : type_of% @mkLine_pivotsOk := @mkLine_pivotsOk

theorem C02_pivots_nomig (xs : Array ℚ) (hg : GridOk xs) (hx0 : 0 ≤ xs.getD 0 0) (hx1 : xs.getD (xs.size-1) 0 ≤ 1)
    (P : AxisParams) (hgam : P.gamma = 0) (hm : ∀ m ∈ P.ms, m = 0) (hnu : 0 < P.nu) (hβ : ∀ β, P.beta = some β → 0 < β)
    (ys : List ℚ) (use : Bool) (eps : ℕ → ℚ) (dt : ℚ) (hdt : 0 < dt) :
    ∀ φ, PivotsOk 1 0 ((axisLine xs P ys use eps dt).rows φ) :=
  axisLine_pivotsOk_nomig xs hg hx0 hx1 P hgam hm hnu hβ ys use eps dt hdt

/-- …and with migration/selection under the sign form of the Péclet condition (delj = 1/2) -/
theorem C02_pivots_peclet : type_of% @axisLine_pivotsOk_peclet := @axisLine_pivotsOk_peclet

/-- non-vacuity: a 5-point grid, ν=2, m=1, γ=−3, h=1/5, dt=1/100 — pivots are non-zero and the step solves. -/
example : PivotsOk 1 0
    ((axisLine #[0, 1/10, 3/10, 6/10, 1] { nu := 2, gamma := -3, h := 1/5, ms := [1], beta := none } [1/2] false (fun _ => 1) (1/100)).rows
      (fun j => (j : ℚ) + 1)) := by
  simp [PivotsOk, Line.rows, List.range, List.range.loop, axisLine, mkLine, Mkernel, deljC, AxisParams.V,
    Line.a, Line.b, Line.c, Line.df, Line.dxL, Line.dxR, C.Mfunc2D, C.Vfunc, C.atemp, C.ctemp, C.bcFirst, C.bcLast]
  norm_num

/-! ### The implicit step keeps non-negative densities non-negative (discrete maximum principle, M-matrix case) -/

/-- **Sign structure of the Thomas sweep** (`tridiag.c`, any size): non-positive off-diagonals, non-negative right-hand side and
    positive pivots give a non-negative solution — the forward pass keeps `u[j] ≥ 0`, `gam[j] ≤ 0`, the back substitution only adds. -/
theorem C02_nonneg_thomas (rows : List Row) (hp : PivotsPos 1 0 rows)
    (hs : ∀ row ∈ rows, row.a ≤ 0 ∧ row.c ≤ 0 ∧ 0 ≤ row.r) : ∀ x ∈ thomas rows, 0 ≤ x :=
  thomas_nonneg rows hp hs

/-- **One implicit step along any line of any kernel preserves non-negativity** when the flux coefficients of every interval are
    non-negative (the same M-matrix condition under which `C02_pivots_mmatrix` shows the pivots are ≥ 1/dt): increasing grid,
    dt > 0, ν > 0, any delj, any corner flags, any non-negative density. -/
theorem C02_nonneg_step_mmatrix : type_of% @mkLine_step_nonneg := @mkLine_step_nonneg

/-- …unconditionally without migration and selection (any ν > 0, β > 0, dt > 0, grid inside [0,1], delj switch on or off) -/
theorem C02_nonneg_step_nomig : type_of% @axisLine_step_nonneg_nomig := @axisLine_step_nonneg_nomig

/-- …and with migration / selection / dominance under the interval condition −V(x_i) ≤ M(x_{i+½})·dx_i ≤ V(x_{i+1}) (delj = 1/2) -/
theorem C02_nonneg_step_peclet : type_of% @axisLine_step_nonneg_peclet := @axisLine_step_nonneg_peclet

/-- **Whole neutral integrations without migration, in 1–5 populations, keep a non-negative density non-negative at every grid
    point**: any number of steps, any duration, any frozen / nomut flags, θ0 ≥ 0, every time step the `_compute_dt` rule produces
    (constant parameters). -/
theorem C02_nonneg_integrate_neutral : type_of% @integrateConst_nonneg_nomig := @integrateConst_nonneg_nomig

/-- the same with sizes and θ0 given as functions of time -/
theorem C02_nonneg_integrate_neutral_fn : type_of% @integrateFn_nonneg_nomig := @integrateFn_nonneg_nomig

/-- non-vacuity of the hypotheses of `C02_nonneg_integrate_neutral`: the 3-point grid {0, 1/2, 1} in two populations, ν = (1, 3) -/
example : GridsOk [#[0, 1/2, 1], #[0, 1/2, 1]] ∧ InjectGridsOk [#[0, 1/2, 1], #[0, 1/2, 1]]
    ∧ NeutralPops ⟨[⟨1, 0, 1/2, [0]⟩, ⟨3, 0, 1/2, [0]⟩], 1, none⟩ := by
  refine ⟨?_, ?_, ?_⟩
  · intro xs hxs
    simp only [List.mem_cons, List.not_mem_nil, or_false, or_self] at hxs
    subst hxs
    refine ⟨⟨by decide, ?_⟩, by norm_num, by norm_num⟩
    intro j hj
    have : j = 0 ∨ j = 1 := by simp at hj; omega
    rcases this with rfl | rfl <;> norm_num
  · intro l hl
    have : l = 0 ∨ l = 1 := by simp at hl; omega
    rcases this with rfl | rfl <;> norm_num
  · refine ⟨?_, by intro β h; cases h⟩
    intro p hp
    simp only [List.mem_cons, List.not_mem_nil, or_false] at hp
    rcases hp with rfl | rfl <;> simp

/-! ### The library's own grid meets the hypotheses of the theorems above -/

/-- **`Numerics.default_grid` (= `exponential_grid`, translated statement by statement into `Gen.GridReal`) is strictly increasing from
    exactly 0 to exactly 1** for every pts ≥ 2 and every crwd > 0 (in particular the default crwd): the hypotheses "increasing grid",
    x₀ = 0, x_last = 1 of the scheme, mass, marginal and positivity theorems are satisfied by the grid every library model uses.
    (Over ℝ with `Real.exp`; the float grid is compared in L3.) -/
theorem C02_default_grid_ok (pts : ℕ) (hp : 2 ≤ pts) (crwd : ℝ) (hc : 0 < crwd) :
    Gen.GridReal.grid pts crwd 0 = 0 ∧ Gen.GridReal.grid pts crwd (pts - 1) = 1
    ∧ (∀ i j, i < j → Gen.GridReal.grid pts crwd i < Gen.GridReal.grid pts crwd j)
    ∧ (∀ j, j < pts → 0 ≤ Gen.GridReal.grid pts crwd j ∧ Gen.GridReal.grid pts crwd j ≤ 1) :=
  gridReal_ok pts hp crwd hc

/-- the default grid is that function, with a positive default crowding parameter -/
theorem C02_default_grid_wiring : Gen.GridReal.defaultIsExponential = true ∧ (0:ℝ) < Gen.GridReal.crwdDefault := by
  refine ⟨rfl, ?_⟩
  unfold Gen.GridReal.crwdDefault; norm_num

/-! ### The interiors of the C kernels, statement by statement (round 6)

`C.kernelProgs` is the translation of the BODIES of `implicit_{d}D{x,y,z,a,b}` (15) and `implicit_precalc_{d}D{x,y,z}` (5): the loop
nest with its bounds, the arguments of every `compute_dx / compute_dfactor / compute_xInt / compute_delj / compute_abc_nobc /
Vfunc / Mfunc{d}D / tridiag_premalloc` call, every FLAT INDEX used to read and write `phi` as a linear form
Σ loop variable · Π extents, the corner guards and terms, the allocation lengths (loop variables are numbered by the loop that
binds them, locals named by what they hold — a renamed variable translates to the same program; anything else in a kernel body is
a `TranslateError`).  `KProg.resolve` binds every name against `C.kernelSigs` (which parameter is the density / the grid of axis p
/ ν / the i-th migration rate / dt / …, and which extent or literal the Cython wrapper passes for each `int` parameter).
`KProg.run` is the semantics of a resolved program on a flat row-major array. -/

/-- **every kernel body, resolved, is the program the model stands for** (`KProg.expected d ax pre`): kernel (d, ax) loops over the
    other axes in axis order from 0 to their extents (outermost loop of the 2-D/3-D kernels: the end the wrapper passes,
    `KProg.wrapperEndAxis` — known finding F-02), assembles dx, dfactor, xInt, V, VInt from grid ax and ν, calls
    `Mfunc{d}D(·, grid values of the OTHER axes at the loop variables in axis order, the rates in that order, γ, h)` for
    Mfirst (at grid[0]), Mlast (at grid[E−1]) and MInt (at xInt), `compute_delj(dx, MInt, VInt, E, delj, switch)`,
    `compute_abc_nobc(dx, dfactor, delj, MInt, V, dt, E, a, b, c)`, loads `r = phi[Σ_p var_p·Π_{q>p} extent_q]/dt`, adds the corner
    terms (with dx[0] / dx[E−2], the same ν) under "ALL other coordinates == 0 (== 1)" and the sign test, solves, and writes back at
    the SAME flat index; allocation lengths E resp. E−1; statements exchanged only where they touch disjoint data. -/
theorem C02_kernel_program_table :
    KProg.resolvedAll.map KProg.stripAllocs = KProg.expectedAll
    ∧ (KProg.resolvedAll.filter (·.pre)).all KProg.preAllocsOk = true := by
  decide +kernel

/-- the flat index of every kernel IS the row-major index of the multi-index that has the line variable in position ax and the
    variables of the loop nest in the other positions — for every shape (d ≤ 5) -/
theorem C02_kernel_index (d ax : ℕ) (hd : d ≤ 5) (hax : ax < d) (env : KProg.KEnv) (hs : env.shape.length = d)
    (vals : List ℕ) (hv : vals.length = d - 1) (j : ℕ) :
    KProg.evalIdx env vals j (KProg.expIdx d ax) = flatIdx env.shape (vals.insertIdx ax j) :=
  KProg.evalIdx_expIdx d ax hd hax env hs vals hv j

/-- …and the loop nest together with the line loop visits every entry of the array exactly once: every flat position below
    `prodL shape` is `flatIdx shape (i.insertIdx k j)` for exactly one line `i` of the box of the other axes and one `j < shape[k]` -/
theorem C02_kernel_visits_once (shape : List ℕ) (k : ℕ) (hk : k < shape.length) (m : ℕ) (hm : m < prodL shape) :
    ∃ i j, (i ∈ boxIdx (shape.eraseIdx k) ∧ j < shape.getD k 0 ∧ flatIdx shape (i.insertIdx k j) = m) ∧
      ∀ i' j', i' ∈ boxIdx (shape.eraseIdx k) → j' < shape.getD k 0 → flatIdx shape (i'.insertIdx k j') = m → i' = i ∧ j' = j := by
  have hidx := unflat_inBox shape m hm
  obtain ⟨hins, hj⟩ := insert_erase shape (unflat shape m) k hidx hk
  have hi := inBox_eraseIdx shape _ k hidx
  refine ⟨(unflat shape m).eraseIdx k, (unflat shape m).getD k 0, ⟨(KProg.inBox_boxIdx _ _).2 hi, hj, ?_⟩, ?_⟩
  · rw [hins, KProg.flatIdx_unflat shape m hm]
  · intro i' j' hi' hj' he
    have := KProg.lineIx_inj shape k hk i' _ j' _ ((KProg.inBox_boxIdx _ _).1 hi') hi hj' hj
      (by unfold KProg.lineIx; rw [he, hins, KProg.flatIdx_unflat shape m hm])
    exact this

/-- the coordinate arguments handed to `Mfunc{d}D` are the grid values of the OTHER axes at the loop variables, in axis order
    (`otherCoords`, what the model's `axisLine` is given) — and the corner guards test exactly these, all of them -/
theorem C02_kernel_coords (d ax : ℕ) (hd : d ≤ 5) (hax : ax < d) (env : KProg.KEnv) (hg : env.grids.length = d)
    (vals : List ℕ) (hv : vals.length = d - 1) (s : KProg.WState) (j n : ℕ) :
    (KProg.coordArgs d ax).map (KProg.evalExpr env vals s j) = otherCoords env.grids ax vals
    ∧ (KProg.guardCmps d ax n).all (KProg.evalCmp env vals s) = (otherCoords env.grids ax vals).all (· == (n : ℚ)) :=
  ⟨KProg.coordArgs_eval d ax hd hax env hg vals hv s j,
   KProg.all_guardCmps d ax n env vals s _ (fun s j => KProg.coordArgs_eval d ax hd hax env hg vals hv s j)⟩

/-- **running the translated body of an on-the-fly kernel IS the model step the driver runs**: for every kernel (d, ax) of the
    table, every shape / grids / parameters / delj setting (supplied exp values) / dt / density — the loop nest over the flat array,
    in place, equals `stepAxis grids ax P use eps dt` (whose every line is the solution of the scheme: `C02_step_solves`). -/
theorem C02_kernel_program (R : KProg.KProgR) (hR : R ∈ KProg.resolvedAll) (hpre : R.pre = false) (env : KProg.KEnv)
    (h : KProg.EnvOk R.d R.ax env) (hw : KProg.WrapperExtentsOk R.d R.ax false env.shape)
    (epsND : ND) (heps : env.eps = fun i j => epsND.get (i.insertIdx R.ax j)) (phi : Array ℚ) (hsz : phi.size = prodL env.shape) :
    (⟨env.shape, KProg.run R env phi⟩ : ND) = stepAxis env.grids R.ax env.P env.use epsND env.dt ⟨env.shape, phi⟩ := by
  have hmem : KProg.stripAllocs R ∈ KProg.expectedAll := by
    rw [← C02_kernel_program_table.1]; exact List.mem_map_of_mem hR
  have hstrip : KProg.stripAllocs R = R := by simp [KProg.stripAllocs, hpre]
  rw [hstrip] at hmem
  simp only [KProg.expectedAll, List.mem_append, List.mem_flatMap, List.mem_map, List.mem_range] at hmem
  rcases hmem with ⟨d, _, ax, _, rfl⟩ | ⟨d, _, ax, _, rfl⟩
  · have e := KProg.run_expected (d + 1) ax env h hw epsND heps phi hsz
    show (⟨env.shape, KProg.run (KProg.expected (d + 1) ax false) env phi⟩ : ND) = _
    rw [e]; rfl
  · simp [KProg.expected] at hpre

/-- the same for the pre-computed-coefficient kernels: running the translated body equals `preSolve` (solve
    `(a, b + 1/dt, c) x = φ/dt` along every line of axis ax, the coefficient arrays read at the same flat index as the density) -/
theorem C02_kernel_program_pre (R : KProg.KProgR) (hR : R ∈ KProg.resolvedAll) (hpre : R.pre = true) (env : KProg.KEnv)
    (hs : env.shape.length = R.d) (hw : KProg.WrapperExtentsOk R.d R.ax true env.shape) (a b c : ND)
    (ha : a.shape = env.shape) (hb : b.shape = env.shape) (hc : c.shape = env.shape) (hco : env.coefs = [a.data, b.data, c.data])
    (phi : Array ℚ) (hsz : phi.size = prodL env.shape) :
    (⟨env.shape, KProg.run R env phi⟩ : ND) = preSolve R.ax env.dt a b c ⟨env.shape, phi⟩ := by
  have hmem : KProg.stripAllocs R ∈ KProg.expectedAll := by
    rw [← C02_kernel_program_table.1]; exact List.mem_map_of_mem hR
  have hrun : KProg.run R env phi = KProg.run (KProg.stripAllocs R) env phi := by
    unfold KProg.stripAllocs; split <;> rfl
  have hd' : (KProg.stripAllocs R).d = R.d ∧ (KProg.stripAllocs R).ax = R.ax ∧ (KProg.stripAllocs R).pre = R.pre := by
    unfold KProg.stripAllocs; split <;> exact ⟨rfl, rfl, rfl⟩
  rw [hrun]
  obtain ⟨e1, e2, e3⟩ := hd'
  rw [← e1] at hs hw; rw [← e2] at hw ⊢; rw [← e3] at hpre
  generalize KProg.stripAllocs R = R' at *
  simp only [KProg.expectedAll, List.mem_append, List.mem_flatMap, List.mem_map, List.mem_range] at hmem
  rcases hmem with ⟨d, _, ax, _, rfl⟩ | ⟨d, hd, ax, hax, rfl⟩
  · simp [KProg.expected] at hpre
  · have hd5 : d ≤ 5 := by simp at hd; omega
    have e := KProg.run_expected_pre d ax env hd5 hax hs hw a b c ha hb hc hco phi hsz
    show (⟨env.shape, KProg.run (KProg.expected d ax true) env phi⟩ : ND) = _
    rw [e]; rfl

/-- the canonical statement order used by the table is sound: `KProg.canonOrder` exchanges adjacent statements only when they touch
    disjoint data (`KProg.indep`, computed from the statements), two such statements commute (`KProg.exec_comm`: frame + dependence
    lemmas for every statement form), hence running the resolved program equals running the statements in SOURCE order -/
theorem C02_kernel_source_order (K : Gen.C.KernelSig) (p : Gen.C.KernelProg) (env : KProg.KEnv) (phi : Array ℚ) :
    KProg.run (KProg.resolve K p) env phi = KProg.run (KProg.resolveSrc K p) env phi :=
  KProg.run_resolve_eq_src K p env phi

/-- **`C02_kernel_program` for the statements exactly as the C source has them**: for every translated on-the-fly kernel body p
    (with its signature entry K), running its statements in source order on the flat array is `stepAxis` -/
theorem C02_kernel_program_src (p : Gen.C.KernelProg) (hp : p ∈ Gen.C.kernelProgs) (hpre : p.pre = false) (K : Gen.C.KernelSig)
    (hK : KProg.sigOf p = some K) (env : KProg.KEnv)
    (h : KProg.EnvOk p.d p.ax env) (hw : KProg.WrapperExtentsOk p.d p.ax false env.shape)
    (epsND : ND) (heps : env.eps = fun i j => epsND.get (i.insertIdx p.ax j)) (phi : Array ℚ) (hsz : phi.size = prodL env.shape) :
    (⟨env.shape, KProg.run (KProg.resolveSrc K p) env phi⟩ : ND) = stepAxis env.grids p.ax env.P env.use epsND env.dt ⟨env.shape, phi⟩ := by
  rw [← C02_kernel_source_order]
  have hmem : KProg.resolve K p ∈ KProg.resolvedAll := by
    unfold KProg.resolvedAll
    refine List.mem_map.mpr ⟨p, hp, ?_⟩
    simp only [hK]
  exact C02_kernel_program (KProg.resolve K p) hmem hpre env h hw epsND heps phi hsz

/-- non-vacuity: the table has the 15 + 5 kernels; the hypotheses of `C02_kernel_program` are met by a 3 × 2 array in two populations -/
example : KProg.resolvedAll.map (fun R => (R.d, R.ax, R.pre)) =
    ((List.range 5).flatMap fun d => (List.range (d + 1)).map fun ax => (d + 1, ax, false))
      ++ [(2, 0, true), (2, 1, true), (3, 0, true), (3, 1, true), (3, 2, true)] := by decide +kernel

example : KProg.EnvOk 2 1
    { shape := [3, 2], grids := [#[0, 1/2, 1], #[0, 1]], coefs := [],
      P := { nu := 2, gamma := -1, h := 1/3, ms := [1/2], beta := none }, use := false, dt := 1/10, eps := fun _ _ => 1 }
    ∧ KProg.WrapperExtentsOk 4 2 false [3, 4, 5, 6] := by
  refine ⟨⟨by omega, by omega, by omega, rfl, rfl, ?_, by simp, rfl, by simp⟩, ?_⟩
  · intro k hk
    have : k = 0 ∨ k = 1 := by omega
    rcases this with rfl | rfl <;> simp
  · intro _ h; omega

end DadiVerif
