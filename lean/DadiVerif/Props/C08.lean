import DadiVerif.Lemmas.Projection
import DadiVerif.Lemmas.ProjThm
import DadiVerif.Lemmas.ProjLowPass
/-!
# C08 — projection is hypergeometric subsampling: conserving, composable, mask-monotone

Property theorems only (helper lemmas: Lemmas/Hypergeom.lean, Lemmas/Projection.lean).
Notation as in the code: `m = proj_to`, `n = proj_from`, `i = hits` (derived count in the source),
`j` = derived count in the projected spectrum.

The definitions the theorems talk about are the ones the driver executes:
`projWeight?`/`projW`/`cachedProjection` *evaluate the generated* `Gen.Proj.lncontrib` (the three `_lncomb`
terms of `Numerics._cached_projection` as a signed list of `gammaln` arguments, regenerated from the source
on every run), `inWindow` uses the generated `least`/`most`, `projLineData`/`projLineMask` are one line of
`Spectrum._project_one_axis`, `Spec.project` is `Spectrum.project`.  All statements hold for every size
(no bound on n), every rational data, every mask.
-/
namespace DadiVerif
open Finset Gen.Proj

/-! ## the weights -/

/-- **Weights are hypergeometric.**  exp of the code's log-space expression is, on the whole stored row `j ≤ m`,
    C(m,j)·C(n−m,i−j)/C(n,i) — the probability of drawing j derived alleles when m chromosomes are sampled
    without replacement from n of which i are derived — and exactly 0 (via the gammaln poles) when j > i. -/
theorem C08_weight_closed (m n i j : ℕ) (hm : m ≤ n) (hi : i ≤ n) (hj : j ≤ m) :
    projWeight? m n i j
      = some (if j ≤ i then ((m.choose j * (n - m).choose (i - j) : ℕ) : ℚ) / (n.choose i : ℕ) else 0) :=
  projWeight?_eq m n i j hm hi hj

/-- `_cached_projection(m, n, i)` returns the row of the m+1 hypergeometric weights; for n < m (upward) the
    short-circuit returns the zero row of length m+1. -/
theorem C08_cached_row (m n i : ℕ) :
    (m ≤ n → i ≤ n → cachedProjection m n i = some ((List.range (m+1)).map (hyp m n i))) ∧
    (n < m → cachedProjection m n i = some (List.replicate (m+1) 0)) := by
  constructor
  · intro hm hi
    unfold cachedProjection
    have hs : shortCircuit (m:ℤ) (n:ℤ) (i:ℤ) = false := by
      simp only [shortCircuit, decide_eq_false_iff_not]; omega
    have hr : (rowLen (m:ℤ) (n:ℤ) (i:ℤ)).toNat = m + 1 := by simp only [rowLen]; omega
    rw [hs, hr]
    simp only [Bool.false_eq_true, if_false]
    apply mapM_option_eq
    intro j hj
    have : j ≤ m := by simp at hj; omega
    exact projWeight?_eq m n i j hm hi this
  · intro hlt
    unfold cachedProjection
    have hs : shortCircuit (m:ℤ) (n:ℤ) (i:ℤ) = true := by
      simp only [shortCircuit, decide_eq_true_iff]; omega
    have hr : (zerosLen (m:ℤ) (n:ℤ) (i:ℤ)).toNat = m + 1 := by simp only [zerosLen]; omega
    rw [hs, hr]; rfl

/-- every row sums to one (Vandermonde) -/
theorem C08_rowsum (m n i : ℕ) (hm : m ≤ n) (hi : i ≤ n) : ∑ j ∈ range (m+1), projW m n i j = 1 := by
  rw [← hyp_rowsum m n i hm hi]
  refine Finset.sum_congr rfl (fun j hj => ?_)
  exact projW_eq m n i j hm hi (by simp at hj; omega)

/-- one-step weights (m = n−1): an entry with i derived alleles keeps them with probability (n−i)/n and
    loses one with probability i/n; nothing else is reachable. -/
theorem C08_one_step (n i : ℕ) (hi : i ≤ n) :
    projW n (n+1) i i = ((n + 1 - i : ℕ) : ℚ) / ((n + 1 : ℕ) : ℚ) ∧
    projW n (n+1) (i+1) i = ((i + 1 : ℕ) : ℚ) / ((n + 1 : ℕ) : ℚ) ∧
    (∀ i' j, i' ≤ n + 1 → j ≤ n → (i' < j ∨ j + 1 < i') → projW n (n+1) i' j = 0) := by
  refine ⟨?_, ?_, ?_⟩
  · rw [projW_eq n (n+1) i i (by omega) (by omega) hi]; exact hyp_step_same n i hi
  · rw [projW_eq n (n+1) (i+1) i (by omega) (by omega) hi]; exact hyp_step_drop n i hi
  · intro i' j hi' hj h
    rw [projW_eq n (n+1) i' j (by omega) hi' hj]; exact hyp_step_zero n i' j h

/-- **Support = the code's window.**  A weight is non-zero exactly for `least ≤ j ≤ most`
    (`least = max(m − (n − i), 0)`, `most = min(i, m)` as generated from `_project_one_axis`). -/
theorem C08_support (m n i j : ℕ) (hm : m ≤ n) (hi : i ≤ n) (hj : j ≤ m) :
    projW m n i j ≠ 0 ↔ (max ((m:ℤ) - ((n:ℤ) - (i:ℤ))) 0 ≤ (j:ℤ) ∧ (j:ℤ) ≤ min (i:ℤ) (m:ℤ)) := by
  rw [projW_eq m n i j hm hi hj, ← inWindow_iff_hyp m n i j hm hi hj]
  unfold inWindow least most
  rw [Bool.and_eq_true, decide_eq_true_iff, decide_eq_true_iff]

/-- all weights are ≥ 0 -/
theorem C08_weight_nonneg (m n i j : ℕ) (hm : m ≤ n) (hi : i ≤ n) (hj : j ≤ m) : 0 ≤ projW m n i j := by
  rw [projW_eq m n i j hm hi hj]; exact hyp_nonneg m n i j

/-! ## one line of `_project_one_axis` -/

/-- **Every projected entry is the expected count under sampling without replacement**: the windowed
    accumulation over `hits` equals Σ_i x_i · P(j | i). -/
theorem C08_entry (m n : ℕ) (x : ℕ → ℚ) (j : ℕ) (hm : m ≤ n) (hj : j ≤ m) :
    projLineData m n x j = ∑ i ∈ range (n+1), x i * hyp m n i j :=
  projLineData_eq m n x j hm hj

/-- the driver computes each axis with a weight table built once (what the cache does): same result. -/
theorem C08_table (m n : ℕ) (x : ℕ → ℚ) (j : ℕ) (hm : m ≤ n) (hj : j ≤ m) :
    projLineW (tableW (weightTable m n)) m n x j = projLineData m n x j := by
  rw [projLineData_eq m n x j hm hj]
  exact projLineW_eq _ m n x j hm hj (fun i hi => by rw [tableW_eq m n i j hi hj, projW_eq m n i j hm hi hj])

/-- **The total count is conserved** along every projected line (hence for the whole array, line by line). -/
theorem C08_total (m n : ℕ) (x : ℕ → ℚ) (hm : m ≤ n) :
    ∑ j ∈ range (m+1), projLineData m n x j = ∑ i ∈ range (n+1), x i := by
  have h1 : ∀ j ∈ range (m+1), projLineData m n x j = ∑ i ∈ range (n+1), x i * hyp m n i j := by
    intro j hj; exact projLineData_eq m n x j hm (by simp at hj; omega)
  rw [Finset.sum_congr rfl h1, Finset.sum_comm]
  refine Finset.sum_congr rfl (fun i hi => ?_)
  rw [← Finset.mul_sum, hyp_rowsum m n i hm (by simp at hi; omega), mul_one]

/-- **Projecting in two stages equals projecting once** (n → m → k = n → k). -/
theorem C08_compose (k m n : ℕ) (x : ℕ → ℚ) (l : ℕ) (hkm : k ≤ m) (hmn : m ≤ n) (hl : l ≤ k) :
    projLineData k m (projLineData m n x) l = projLineData k n x l := by
  rw [projLineData_eq k m _ l hkm hl, projLineData_eq k n x l (le_trans hkm hmn) hl]
  have h1 : ∀ j ∈ range (m+1), projLineData m n x j * hyp k m j l
      = ∑ i ∈ range (n+1), x i * (hyp m n i j * hyp k m j l) := by
    intro j hj
    rw [projLineData_eq m n x j hmn (by simp at hj; omega), Finset.sum_mul]
    exact Finset.sum_congr rfl (fun i _ => by ring)
  rw [Finset.sum_congr rfl h1, Finset.sum_comm]
  refine Finset.sum_congr rfl (fun i hi => ?_)
  rw [← Finset.mul_sum, hyp_compose k m n i l hkm hmn (by simp at hi; omega) hl]

/-- **Axes can be projected in any order**: on a two-axis slice (all other indices fixed) projecting axis A
    then axis B gives the same entries as B then A — data and mask. -/
theorem C08_axes_commute (m₁ n₁ m₂ n₂ : ℕ) (x : ℕ → ℕ → ℚ) (b : ℕ → ℕ → Bool) (a' b' : ℕ)
    (h₁ : m₁ ≤ n₁) (h₂ : m₂ ≤ n₂) (ha : a' ≤ m₁) (hb : b' ≤ m₂) :
    projLineData m₂ n₂ (fun q => projLineData m₁ n₁ (fun p => x p q) a') b'
      = projLineData m₁ n₁ (fun p => projLineData m₂ n₂ (fun q => x p q) b') a'
    ∧ projLineMask m₂ n₂ (fun q => projLineMask m₁ n₁ (fun p => b p q) a') b'
      = projLineMask m₁ n₁ (fun p => projLineMask m₂ n₂ (fun q => b p q) b') a' := by
  constructor
  · rw [projLineData_eq m₂ n₂ _ b' h₂ hb, projLineData_eq m₁ n₁ _ a' h₁ ha]
    have hL : ∀ q ∈ range (n₂+1), projLineData m₁ n₁ (fun p => x p q) a' * hyp m₂ n₂ q b'
        = ∑ p ∈ range (n₁+1), x p q * hyp m₁ n₁ p a' * hyp m₂ n₂ q b' := by
      intro q _; rw [projLineData_eq m₁ n₁ _ a' h₁ ha, Finset.sum_mul]
    have hR : ∀ p ∈ range (n₁+1), projLineData m₂ n₂ (fun q => x p q) b' * hyp m₁ n₁ p a'
        = ∑ q ∈ range (n₂+1), x p q * hyp m₁ n₁ p a' * hyp m₂ n₂ q b' := by
      intro p _; rw [projLineData_eq m₂ n₂ _ b' h₂ hb, Finset.sum_mul]
      exact Finset.sum_congr rfl (fun q _ => by ring)
    rw [Finset.sum_congr rfl hL, Finset.sum_congr rfl hR, Finset.sum_comm]
  · rw [Bool.eq_iff_iff, projLineMask_iff m₂ n₂ _ b' h₂ hb, projLineMask_iff m₁ n₁ _ a' h₁ ha]
    constructor
    · rintro ⟨q, hq, hm, hh⟩
      obtain ⟨p, hp, hbp, hhp⟩ := (projLineMask_iff m₁ n₁ _ a' h₁ ha).mp hm
      exact ⟨p, hp, (projLineMask_iff m₂ n₂ _ b' h₂ hb).mpr ⟨q, hq, hbp, hh⟩, hhp⟩
    · rintro ⟨p, hp, hm, hh⟩
      obtain ⟨q, hq, hbq, hhq⟩ := (projLineMask_iff m₂ n₂ _ b' h₂ hb).mp hm
      exact ⟨q, hq, (projLineMask_iff m₁ n₁ _ a' h₁ ha).mpr ⟨p, hp, hbq, hh⟩, hhq⟩

/-- **The neutral spectrum 1/i projects to itself**: if x_i = 1/i on the interior 1 ≤ i ≤ n−1 (the two corner
    entries are arbitrary — they are masked in practice) then every interior projected entry is 1/j. -/
theorem C08_neutral_fixed (m n : ℕ) (hm : m ≤ n) (x : ℕ → ℚ)
    (hx : ∀ i, 1 ≤ i → i + 1 ≤ n → x i = 1 / (i : ℚ)) (j : ℕ) (hj1 : 1 ≤ j) (hj2 : j + 1 ≤ m) :
    projLineData m n x j = 1 / (j : ℚ) := by
  obtain ⟨d, rfl⟩ : ∃ d, n = m + d := ⟨n - m, by omega⟩
  clear hm
  induction d generalizing m j with
  | zero =>
    rw [projLineData_eq m (m+0) x j (by omega) (by omega)]
    have hz : ∀ i ∈ range (m + 0 + 1), i ≠ j → x i * hyp m (m+0) i j = 0 := by
      intro i _ hne
      by_cases hji : j ≤ i
      · rw [hyp_of_le hji]
        have : (m + 0 - m).choose (i - j) = 0 := by
          have e : m + 0 - m = 0 := by omega
          rw [e]; exact Nat.choose_eq_zero_of_lt (by omega)
        rw [this]; simp
      · rw [hyp_of_lt (Nat.not_le.mp hji), mul_zero]
    rw [Finset.sum_eq_single_of_mem j (by simp; omega) hz, hx j hj1 (by omega), hyp_of_le (le_refl j)]
    have e : m + 0 - m = 0 := by omega
    rw [e, Nat.sub_self, Nat.choose_zero_right, Nat.mul_one]
    have := choose_pos_q (n := m + 0) (i := j) (by omega)
    have e2 : m + 0 = m := by omega
    rw [e2] at this ⊢
    field_simp
  | succ d ih =>
    have hc := C08_compose m (m+1) (m + (d+1)) x j (by omega) (by omega) (by omega)
    rw [← hc]
    set y := projLineData (m+1) (m + (d+1)) x with hy
    have hyv : ∀ j', 1 ≤ j' → j' + 1 ≤ m + 1 → y j' = 1 / (j' : ℚ) := by
      intro j' h1 h2
      have := ih (m+1) j' h1 h2 (by intro i hi1 hi2; exact hx i hi1 (by omega))
      have e : m + 1 + d = m + (d + 1) := by omega
      rw [e] at this
      exact this
    rw [projLineData_eq m (m+1) y j (by omega) (by omega)]
    have hsum : ∑ i ∈ range (m + 1 + 1), y i * hyp m (m+1) i j
        = y j * hyp m (m+1) j j + y (j+1) * hyp m (m+1) (j+1) j := by
      apply Finset.sum_eq_add j (j+1) (by omega)
      · intro c _ hc
        rw [hyp_step_zero m c j (by omega), mul_zero]
      · intro h; exfalso; apply h; simp; omega
      · intro h; exfalso; apply h; simp; omega
    rw [hsum, hyv j hj1 (by omega), hyv (j+1) (by omega) (by omega), hyp_step_same m j (by omega),
      hyp_step_drop m j (by omega)]
    have hjm : j ≤ m + 1 := by omega
    have hj0 : (j : ℚ) ≠ 0 := by exact_mod_cast (by omega : j ≠ 0)
    push_cast [Nat.cast_sub hjm]
    field_simp
    ring

/-! ## masks -/

/-- **A masked source entry masks exactly the entries it can contribute to**: projected entry j is masked
    iff some masked source entry i has a non-zero weight onto j. -/
theorem C08_mask (m n : ℕ) (b : ℕ → Bool) (j : ℕ) (hm : m ≤ n) (hj : j ≤ m) :
    projLineMask m n b j = true ↔ ∃ i ≤ n, b i = true ∧ projW m n i j ≠ 0 := by
  rw [projLineMask_iff m n b j hm hj]
  constructor
  · rintro ⟨i, hi, hb, hh⟩; exact ⟨i, hi, hb, by rwa [projW_eq m n i j hm hi hj]⟩
  · rintro ⟨i, hi, hb, hh⟩; exact ⟨i, hi, hb, by rwa [projW_eq m n i j hm hi hj] at hh⟩

/-- mask monotonicity: masking more source entries can only mask more projected entries;
    an unmasked source line gives an unmasked projected line -/
theorem C08_mask_mono (m n : ℕ) (b b' : ℕ → Bool) (j : ℕ) (hm : m ≤ n) (hj : j ≤ m)
    (hbb : ∀ i, b i = true → b' i = true) :
    (projLineMask m n b j = true → projLineMask m n b' j = true) ∧
    ((∀ i ≤ n, b i = false) → projLineMask m n b j = false) := by
  constructor
  · rw [projLineMask_iff m n b j hm hj, projLineMask_iff m n b' j hm hj]
    rintro ⟨i, hi, hb, hh⟩; exact ⟨i, hi, hbb i hb, hh⟩
  · intro hall
    by_contra hc
    rw [Bool.not_eq_false] at hc
    obtain ⟨i, hi, hb, _⟩ := (projLineMask_iff m n b j hm hj).mp hc
    rw [hall i hi] at hb
    exact Bool.false_ne_true hb

/-! ## folding -/

/-- projection commutes with the reversal of an axis (derived ↔ ancestral relabelling), data and mask:
    this is what makes `fold ∘ project ∘ unfold` a projection of the folded spectrum. -/
theorem C08_mirror (m n : ℕ) (x : ℕ → ℚ) (b : ℕ → Bool) (j : ℕ) (hm : m ≤ n) (hj : j ≤ m) :
    projLineData m n (fun i => x (n - i)) (m - j) = projLineData m n x j
    ∧ projLineMask m n (fun i => b (n - i)) (m - j) = projLineMask m n b j := by
  constructor
  · rw [projLineData_eq m n _ (m - j) hm (by omega), projLineData_eq m n x j hm hj]
    rw [← Finset.sum_range_reflect (fun i => x i * hyp m n i j)]
    refine Finset.sum_congr rfl (fun i hi => ?_)
    have hi' : i ≤ n := by simp at hi; omega
    have e : n + 1 - 1 - i = n - i := by omega
    simp only [e]
    have := hyp_mirror m n (n - i) j hm (by omega) hj
    have e1 : n - (n - i) = i := by omega
    rw [e1] at this
    rw [this]
  · rw [Bool.eq_iff_iff, projLineMask_iff m n _ (m - j) hm (by omega), projLineMask_iff m n b j hm hj]
    constructor
    · rintro ⟨i, hi, hb, hh⟩
      refine ⟨n - i, by omega, hb, ?_⟩
      have := hyp_mirror m n i (m - j) hm hi (by omega)
      have e2 : m - (m - j) = j := by omega
      rw [e2] at this
      rwa [this]
    · rintro ⟨i, hi, hb, hh⟩
      refine ⟨n - i, by omega, ?_, ?_⟩
      · have e1 : n - (n - i) = i := by omega
        simp only [e1]; exact hb
      · rwa [hyp_mirror m n i j hm hi hj]

/-- **Folded spectra project as fold(project(unfold))**, unfolded ones are projected directly: the code path of
    `Spectrum.project` (the statement list is checked by `C08_wiring`), whenever nothing is refused. -/
theorem C08_folded (S : Spec) (ns : List ℕ) (hd : ns.length = S.shape.length)
    (hup : (List.zipWith (fun (a b : ℕ) => upRefusedAt a b) ns S.sampleSizes).any id = false) :
    S.project ns = .ok (if S.folded then (Spec.projectAxes S.unfold ns S.sampleSizes).fold
                        else Spec.projectAxes S ns S.sampleSizes) := by
  unfold Spec.project
  simp only [hd, ne_eq, not_true_eq_false, if_false, hup, Bool.false_eq_true]
  cases S.folded <;> simp

/-! ## refusals -/

/-- **Projecting upward is refused** — by `project` (any axis larger than the source), by `_project_one_axis`,
    and a wrong number of sample sizes is refused too; nothing is computed in these cases. -/
theorem C08_up_refused (S : Spec) (ns : List ℕ) :
    (ns.length = S.shape.length → (∃ k, k < ns.length ∧ ns.getD k 0 > S.sampleSizes.getD k 0) → S.project ns = .error "up") ∧
    (ns.length ≠ S.shape.length → S.project ns = .error "dim") ∧
    (∀ ax m, ax < S.shape.length → m > S.shape.getD ax 1 - 1 → S.projectOneAxis m ax = .error "up") := by
  refine ⟨?_, ?_, ?_⟩
  · rintro hd ⟨k, hk, hgt⟩
    unfold Spec.project
    have hlen : S.sampleSizes.length = S.shape.length := by simp [Spec.sampleSizes]
    have : (List.zipWith (fun (a b : ℕ) => upRefusedAt a b) ns S.sampleSizes).any id = true := by
      rw [List.any_eq_true]
      refine ⟨upRefusedAt (ns.getD k 0) (S.sampleSizes.getD k 0), ?_, ?_⟩
      · rw [List.mem_iff_getElem]
        refine ⟨k, by simp [hlen, ← hd]; exact hk, ?_⟩
        have hk2 : k < S.sampleSizes.length := by rw [hlen, ← hd]; exact hk
        simp [List.getD_eq_getElem?_getD, hk, hk2]
      · simp only [id, upRefusedAt, decide_eq_true_iff]
        exact_mod_cast hgt
    simp only [hd, ne_eq, not_true_eq_false, if_false, this, if_true]
  · intro hd
    unfold Spec.project
    simp only [ne_eq, hd, not_false_eq_true, if_true]
  · intro ax m hax hm
    unfold Spec.projectOneAxis
    have h1 : ¬ (ax ≥ S.shape.length) := by omega
    have h2 : oneAxisRefuses (m:ℤ) ((S.shape.getD ax 1 - 1 : ℕ) : ℤ) = true := by
      simp only [oneAxisRefuses, decide_eq_true_iff]
      exact_mod_cast hm
    simp only [h1, if_false, h2, if_true]

/-! ## from lines to the whole array -/

/-- **`_project_one_axis` on a d-dimensional spectrum** (any d, any axis): every entry of the result is the
    projected line through it — data by `projLineData`, mask by `projLineMask` — the new axis has m+1 entries and the
    result is flagged unfolded.  All line theorems above therefore hold for every line of every axis of the arrays
    the driver computes with `Spec.projectAxis`/`Spec.project`. -/
theorem C08_axis_entry (S : Spec) (ax m : ℕ) (idx : List ℕ) (hax : ax < S.shape.length)
    (hm : m ≤ S.shape.getD ax 1 - 1) (hbox : InBox (S.shape.set ax (m+1)) idx) :
    (S.projectAxis ax m).getD idx
        = projLineData m (S.shape.getD ax 1 - 1) (fun i => S.getD (idx.set ax i)) (idx.getD ax 0)
    ∧ (S.projectAxis ax m).getM idx
        = projLineMask m (S.shape.getD ax 1 - 1) (fun i => S.getM (idx.set ax i)) (idx.getD ax 0)
    ∧ (S.projectAxis ax m).shape = S.shape.set ax (m+1) ∧ (S.projectAxis ax m).folded = false := by
  have hnl : (newLen (m:ℤ)).toNat = m + 1 := by simp only [newLen]; omega
  have hj : idx.getD ax 0 ≤ m := by
    have h1 := hbox.getD_lt ax (by simpa using hax)
    have e : (S.shape.set ax (m+1)).getD ax 0 = m + 1 := by simp [List.getD_eq_getElem?_getD, hax]
    rw [e] at h1
    omega
  unfold Spec.projectAxis
  simp only [hnl]
  refine ⟨?_, ?_, rfl, rfl⟩
  · rw [Spec.ofFn_getD _ _ _ _ idx hbox]
    exact C08_table m _ _ _ hm hj
  · rw [Spec.ofFn_getM _ _ _ _ idx hbox]

/-! ## whole arrays: d-dimensional spectra of the model, any d

`Spec.total` is the sum of the raw data array (`fs.data.sum()`), `sumBox sh f` the sum of `f` over all multi-indices of the
box `sh` (Fubini machinery of Lemmas/ProjBox.lean), `kerL ms ns src tgt = Π_k hyp(ms_k, ns_k, src_k, tgt_k)` the product of
the per-population hypergeometric weights.  Hypothesis `∀ s ∈ S.shape, 0 < s`: no axis of length 0 (every dadi spectrum has
at least one entry per axis: sample size ≥ 0).  `S.project ns = .ok P` says that `project` did not refuse, i.e. `ns` is
admissible (right length, no axis upward — `C08_up_refused`). -/
section arrays
open PBox

/-- the executable total is the sum over the index box (row-major enumeration) -/
theorem C08_total_box (S : Spec) : S.total = sumBox S.shape S.getD := total_eq_sumBox S

/-- **Every entry of the whole `project` is the expected count** under independent sampling without replacement in every
    population: the sum over the source box of the source entry times the product of the per-axis hypergeometric weights;
    the result has shape `ns + 1` and is unfolded. -/
theorem C08_entry_array (S P : Spec) (ns : List ℕ) (hf : S.folded = false) (hpos : ∀ s ∈ S.shape, 0 < s)
    (h : S.project ns = .ok P) :
    P.shape = ns.map (· + 1) ∧ P.folded = false ∧
    ∀ tgt, InBox P.shape tgt → P.getD tgt = sumBox S.shape (fun src => S.getD src * kerL ns S.sampleSizes src tgt) := by
  obtain ⟨_, hR⟩ := project_rel hf hpos h
  obtain ⟨_, _, hP⟩ := project_ok h
  refine ⟨hR.shape, ?_, fun tgt ht => ?_⟩
  · rw [hP, hf]; exact projectAxes_folded _ _ S hf
  · rw [hR.data tgt (by rw [← hR.shape]; exact ht)]
    show sumBox (box1 S.sampleSizes) _ = _
    rw [← shape_eq_box S hpos]

/-- **The total count is conserved by the whole array operation** (raw data, masked cells included):
    by `_project_one_axis` on any axis of a spectrum of any dimension, and by `project` to any admissible sizes —
    for folded spectra too (fold and unfold conserve the raw total). -/
theorem C08_total_array (S : Spec) :
    (∀ ax m, ax < S.shape.length → 0 < S.shape.getD ax 0 → m ≤ S.shape.getD ax 1 - 1 →
      (S.projectAxis ax m).total = S.total) ∧
    (∀ ns P, (∀ s ∈ S.shape, 0 < s) → S.project ns = .ok P → P.total = S.total) :=
  ⟨fun ax m hax hp hm => projectAxis_total S ax m hax hp hm, fun _ _ hpos h => project_total hpos h⟩

/-- **Projecting in two stages equals projecting once, for whole arrays**: `S.project(ns1).project(ns2)` and
    `S.project(ns2)` have the same shape, the same folding flag and agree entry by entry on the box, data and mask —
    folded or unfolded source; the one-stage projection is accepted whenever the two stages are. -/
theorem C08_compose_array (S P1 P12 : Spec) (ns1 ns2 : List ℕ) (hpos : ∀ s ∈ S.shape, 0 < s)
    (h1 : S.project ns1 = .ok P1) (h12 : P1.project ns2 = .ok P12) :
    ∃ P2, S.project ns2 = .ok P2 ∧ P12.shape = P2.shape ∧ P12.folded = P2.folded ∧
      ∀ idx, InBox P2.shape idx → P12.getD idx = P2.getD idx ∧ P12.getM idx = P2.getM idx :=
  compose_array hpos h1 h12

/-- **Two different axes can be projected in either order, for whole arrays of any dimension**: same shape, same
    entries (data and mask) on the whole box. -/
theorem C08_axes_commute_array (S : Spec) (a b m₁ m₂ : ℕ) (hab : a ≠ b) (ha : a < S.shape.length) (hb : b < S.shape.length)
    (hpa : 0 < S.shape.getD a 0) (hpb : 0 < S.shape.getD b 0)
    (h₁ : m₁ ≤ S.shape.getD a 1 - 1) (h₂ : m₂ ≤ S.shape.getD b 1 - 1) :
    ((S.projectAxis a m₁).projectAxis b m₂).shape = ((S.projectAxis b m₂).projectAxis a m₁).shape ∧
    ∀ idx, InBox ((S.projectAxis a m₁).projectAxis b m₂).shape idx →
      ((S.projectAxis a m₁).projectAxis b m₂).getD idx = ((S.projectAxis b m₂).projectAxis a m₁).getD idx ∧
      ((S.projectAxis a m₁).projectAxis b m₂).getM idx = ((S.projectAxis b m₂).projectAxis a m₁).getM idx :=
  axes_commute_array S a b m₁ m₂ hab ha hb hpa hpb h₁ h₂

/-- **A masked source entry masks exactly the entries it can reach under the whole `project`**: entry `tgt` of the
    projection is masked iff some masked source entry `src` lies, on every axis k, inside the window
    `tgt_k ≤ src_k ≤ tgt_k + (n_k − m_k)` (the support of the product of the weights). -/
theorem C08_mask_array (S P : Spec) (ns : List ℕ) (hf : S.folded = false) (hpos : ∀ s ∈ S.shape, 0 < s)
    (h : S.project ns = .ok P) (tgt : List ℕ) (ht : InBox P.shape tgt) :
    P.getM tgt = true ↔ ∃ src, InBox S.shape src ∧ S.getM src = true ∧
      ∀ k, k < S.shape.length → tgt.getD k 0 ≤ src.getD k 0
        ∧ src.getD k 0 - tgt.getD k 0 ≤ S.sampleSizes.getD k 0 - ns.getD k 0 := by
  obtain ⟨hL, hR⟩ := project_rel hf hpos h
  obtain ⟨hl, _, _⟩ := project_ok h
  have hsl := sampleSizes_length S
  have htb : InBox (box1 ns) tgt := by rw [← hR.shape]; exact ht
  rw [hR.mask tgt htb]
  unfold closedM
  have key : ∀ src, inBox (box1 S.sampleSizes) src →
      (kerL ns S.sampleSizes src tgt ≠ 0 ↔ ∀ k, k < S.shape.length → tgt.getD k 0 ≤ src.getD k 0
        ∧ src.getD k 0 - tgt.getD k 0 ≤ S.sampleSizes.getD k 0 - ns.getD k 0) := by
    intro src hs
    rw [kerL_ne_zero_iff hL src tgt hs htb.inBox,
      reach_iff ns S.sampleSizes src tgt (by omega) (by rw [inBox_length hs, box1_length])
        (by rw [htb.length, box1_length]; omega), hsl]
  constructor
  · rintro ⟨src, hs, hm, hk⟩
    exact ⟨src, by rw [shape_eq_box S hpos]; exact (inBox_iff _ _).mp hs, hm, (key src hs).mp hk⟩
  · rintro ⟨src, hs, hm, hk⟩
    have hs' : inBox (box1 S.sampleSizes) src := by rw [← shape_eq_box S hpos]; exact hs.inBox
    exact ⟨src, hs', hm, (key src hs').mpr hk⟩

/-- mask monotonicity for arrays: masking more source entries can only mask more projected entries, and a source
    without masked entries gives a projection without masked entries. -/
theorem C08_mask_mono_array (S S' P P' : Spec) (ns : List ℕ) (hf : S.folded = false) (hf' : S'.folded = false)
    (hpos : ∀ s ∈ S.shape, 0 < s) (hsh : S'.shape = S.shape)
    (h : S.project ns = .ok P) (h' : S'.project ns = .ok P') :
    ((∀ src, InBox S.shape src → S.getM src = true → S'.getM src = true) →
      ∀ tgt, InBox P.shape tgt → P.getM tgt = true → P'.getM tgt = true) ∧
    ((∀ src, InBox S.shape src → S.getM src = false) → ∀ tgt, InBox P.shape tgt → P.getM tgt = false) := by
  have hpos' : ∀ s ∈ S'.shape, 0 < s := by rw [hsh]; exact hpos
  have hss : S'.sampleSizes = S.sampleSizes := by unfold Spec.sampleSizes; rw [hsh]
  have hPs : P'.shape = P.shape := by
    rw [(C08_entry_array S' P' ns hf' hpos' h').1, (C08_entry_array S P ns hf hpos h).1]
  constructor
  · intro hsub tgt ht hm
    obtain ⟨src, hs, hms, hk⟩ := (C08_mask_array S P ns hf hpos h tgt ht).mp hm
    refine (C08_mask_array S' P' ns hf' hpos' h' tgt (by rw [hPs]; exact ht)).mpr ⟨src, by rw [hsh]; exact hs, hsub src hs hms, ?_⟩
    rw [hsh, hss]; exact hk
  · intro hnone tgt ht
    by_contra hc
    rw [Bool.not_eq_false] at hc
    obtain ⟨src, hs, hms, _⟩ := (C08_mask_array S P ns hf hpos h tgt ht).mp hc
    rw [hnone src hs] at hms
    exact Bool.false_ne_true hms

/-- **Projection commutes with reversing every axis, for whole arrays**: `reverse_array(S).project(ns)` is accepted and
    equals `reverse_array(S.project(ns))` entry by entry, data and mask (array form of `C08_mirror`). -/
theorem C08_mirror_array (S P : Spec) (ns : List ℕ) (hf : S.folded = false) (hpos : ∀ s ∈ S.shape, 0 < s)
    (h : S.project ns = .ok P) :
    ∃ Q, S.mirror.project ns = .ok Q ∧ Q.shape = P.shape ∧
      ∀ idx, InBox P.shape idx → Q.getD idx = P.getD (Spec.revIdx P.shape idx)
        ∧ Q.getM idx = P.getM (Spec.revIdx P.shape idx) := by
  obtain ⟨hL, hR⟩ := project_rel hf hpos h
  obtain ⟨hl, hup, _⟩ := project_ok h
  refine ⟨Spec.projectAxes S.mirror ns S.sampleSizes, ?_, ?_⟩
  · have := project_eq_ok S.mirror ns hl hup
    rwa [mirror_folded, hf] at this
  · have hQ := project_mirror_rel ns S.sampleSizes (rel_self_box S hpos) hL
    refine ⟨hQ.shape.trans hR.shape.symm, fun idx hb => ?_⟩
    have hb' : InBox (box1 ns) idx := by rw [← hR.shape]; exact hb
    rw [hR.shape, hQ.data idx hb', hR.data _ hb'.rev, Bool.eq_iff_iff, hQ.mask idx hb', hR.mask _ hb'.rev]
    exact ⟨rfl, Iff.rfl⟩

/-- **fold ∘ project = fold ∘ project ∘ unfold ∘ fold = fold ∘ project ∘ mirror, for d-dimensional arrays.**
    For an unfolded spectrum S whose projection to `ns` is P: projecting the folded spectrum `S.fold()` — the code path
    fold(project(unfold(·))) of `C08_folded` — is accepted and returns *the same spectrum* as folding the projection
    (`S.fold().project(ns) = S.project(ns).fold()`, data, mask, shape and flag), and the mirrored spectrum folds to the
    same result after projection.  Uses `C08_mirror` in array form and C09's fold algebra (part A of Lemmas/Fold.lean,
    restated in Lemmas/FoldAlg.lean for the regenerated programs of Generated/ProjFold.lean). -/
theorem C08_fold_commute (S P : Spec) (ns : List ℕ) (hf : S.folded = false) (hpos : ∀ s ∈ S.shape, 0 < s)
    (h : S.project ns = .ok P) :
    S.fold.project ns = .ok P.fold ∧ ∃ Q, S.mirror.project ns = .ok Q ∧ Q.fold = P.fold := by
  obtain ⟨hL, _⟩ := project_rel hf hpos h
  obtain ⟨hl, hup, hP⟩ := project_ok h
  rw [hf] at hP
  simp only [Bool.false_eq_true, if_false] at hP
  have hR := rel_self_box S hpos
  constructor
  · have := project_eq_ok S.fold ns hl hup
    rw [fold_folded] at this
    simp only [if_true] at this
    rw [this, hP]
    exact congrArg Except.ok (fold_project_unfold_fold ns S.sampleSizes hR hL)
  · refine ⟨Spec.projectAxes S.mirror ns S.sampleSizes, ?_, ?_⟩
    · have := project_eq_ok S.mirror ns hl hup
      rwa [mirror_folded, hf] at this
    · rw [hP]; exact fold_project_mirror ns S.sampleSizes hR hL

/-- **`fold` / `unfold` of the C08 model are the programs regenerated from the source** (`Spectrum.fold`,
    `Spectrum.unfold` as translated by C09's tools/gen_Fold.py; tools/gen_ProjFold.py puts C08's copy of these two programs
    into Generated/ProjFold.lean on every run), instantiated at multi-indices
    with mirror = reversal of every axis and total = sum of the index: every entry of the box, data and mask
    (corner masking of the constructor included). -/
theorem C08_fold_generated (S : Spec) (idx : List ℕ) (h : InBox S.shape idx) :
    S.fold.getD idx
      = Gen.ProjFold.fold_outData (Spec.revIdx S.shape) Spec.totalPerEntry (Spec.totalSamples S.shape) S.getD S.getM idx ∧
    S.fold.getM idx
      = (Gen.ProjFold.fold_outMask (Spec.revIdx S.shape) Spec.totalPerEntry (Spec.totalSamples S.shape) S.getD S.getM idx
          || (Gen.ProjFold.fold_maskCorners && Spec.isCorner S.shape idx)) ∧
    S.unfold.getD idx
      = Gen.ProjFold.unfold_outData (Spec.revIdx S.shape) Spec.totalPerEntry (Spec.totalSamples S.shape) S.getD S.getM idx ∧
    S.unfold.getM idx
      = (Gen.ProjFold.unfold_outMask (Spec.revIdx S.shape) Spec.totalPerEntry (Spec.totalSamples S.shape) S.getD S.getM idx
          || (Gen.ProjFold.unfold_maskCorners && Spec.isCorner S.shape idx)) :=
  ⟨fold_getD_gen S idx h, fold_getM_gen S idx h, unfold_getD_gen S idx h, unfold_getM_gen S idx h⟩

/-- wiring of the fold layer read off the source by C09's translator and used above: `reverse_array` reverses every axis,
    `_total_per_entry` is the sum of the multi-index, both constructors mask the corners, `fold` returns a folded and
    `unfold` an unfolded spectrum; `fold` raises on a folded and `unfold` on an unfolded spectrum (so `project` can only
    reach them in the order unfold → project → fold). -/
theorem C08_fold_wiring :
    Gen.ProjFold.reverseArrayAllAxes = true ∧ Gen.ProjFold.totalPerEntryIsIndexSum = true
    ∧ Gen.ProjFold.fold_maskCorners = true ∧ Gen.ProjFold.unfold_maskCorners = true
    ∧ Gen.ProjFold.fold_outFolded = true ∧ Gen.ProjFold.unfold_outFolded = false
    ∧ (∀ b, Gen.ProjFold.fold_raises b = b) ∧ (∀ b, Gen.ProjFold.unfold_raises b = !b) := by
  refine ⟨by decide, by decide, by decide, by decide, by decide, by decide, fun b => rfl, fun b => rfl⟩

end arrays

/-! ## glue read off the source -/

/-- statement-level wiring regenerated from the source: the cache key is the full argument tuple, the cache is a
    plain dict looked up before and stored after the computation; `_project_one_axis` calls
    `_cached_projection(n, proj_from, hits)` in the parameter order `(proj_to, proj_from, hits)`, loops over
    `range(proj_from+1)`, writes the window `least..most` of both data (`+=` product) and mask (`logical_or`);
    `project` checks the dimension and upward guards first, unfolds before and folds after, skips axes whose size
    is unchanged; row/zero-row lengths are `proj_to+1`, the new axis has `n+1` entries. -/
theorem C08_wiring :
    cacheKey = cacheArgs ∧ cacheArgs = ["proj_to", "proj_from", "hits"] ∧ cacheShapeOk = true
    ∧ cachedCallArgs = oneAxisArgs ∧ oneAxisShapeOk = true ∧ sampleSizesOk = true
    ∧ projectShapeOk = true ∧ dimGuardOk = true
    ∧ (∀ m n i : ℤ, rowLen m n i = m + 1 ∧ zerosLen m n i = m + 1 ∧ hitsCount n = n + 1 ∧ newLen m = m + 1)
    ∧ (∀ p s : ℤ, doAxis p s = true ↔ p ≠ s) := by
  refine ⟨by decide, by decide, by decide, by decide, by decide, by decide, by decide, by decide, ?_, ?_⟩
  · intro m n i; exact ⟨rfl, rfl, rfl, rfl⟩
  · intro p s; simp [doAxis]

/-- **Which target size meets which axis** (read off the per-axis loop of `Spectrum.project` on every run — loop header,
    loop targets, test and call are translated into `axisVisits` / `visitDoes` / `visitCall`, and `Spec.projectAxes`, the
    loop the driver executes, folds over them): every axis is visited exactly once, in the order 0, 1, …; axis k is paired
    with the k-th requested size `ns[k]`, tested against the k-th sample size, and `(ns[k], k)` is what
    `_project_one_axis(n, axis)` receives.  A source in which the requested sizes reach other axes (a permuted visiting order
    whose pairing is not permuted along, swapped call arguments, a reversed list) changes these definitions and this
    statement fails; an order that is computed from the data or the array size is outside the translated language. -/
theorem C08_axis_pairing (S : Spec) (ns sizes : List ℕ) (npop : ℕ) :
    axisVisits npop ns = (List.range ns.length).map (fun k => (k, ns.getD k 0))
    ∧ (∀ k m, visitCall ns sizes (k, m) = (m, k))
    ∧ (∀ k m, visitDoes ns sizes (k, m) = doAxis m (sizes.getD k 0))
    ∧ Spec.projectAxes S ns sizes = (List.range ns.length).foldl
        (fun o k => if doAxis (ns.getD k 0) (sizes.getD k 0) then o.projectAxis k (ns.getD k 0) else o) S :=
  ⟨PBox.range_zip_self ns, fun _ _ => rfl, fun _ _ => rfl, PBox.projectAxes_eq_range S ns sizes⟩

/-! ## projection inside the low-pass machinery (dadi/LowPass/LowPass.py) -/

section lowpass
open LPAx Gen.ProjLP

set_option linter.unusedTactic false in
set_option linter.unreachableTactic false in
/-- **The per-population loop of `lowpass_func` applies matrix k along axis k and restores the axis order.**
    `LowPass.make_low_pass_func_GATK_multisample` re-implements projection: its inner `lowpass_func` pushes the model
    spectrum `analytic` (d populations) through one projection matrix and one calling-error matrix per population.  The loop is
    regenerated from the source on every run: `loopVisits d` (header `enumerate(zip(proj_mats, heterr_mats))`), `loopBody d k`
    (the statement list `swapaxes(k, −1); dot; dot; swapaxes(k, −1)` as `AxStmt`s), and `LPAx.runBody` / `LPAx.runLoop`
    *execute* these lists: `swapaxes` / `moveaxis` permute the positions of an index assignment, `dot` contracts the last
    position and refuses a matrix with the wrong number of rows (`none` = numpy's ValueError).  For every number of populations,
    all sizes (equal or not) and all matrices with matching sizes:
    (1) glue — every population is visited once, in order; the k-th matrices of `proj_mats` / `heterr_mats` are the ones the
        precalculation returned under these names (`precalcUnpack = precalcReturn`), population k's projection matrix is
        `projection_matrix(nseq[k], nsub[k], Fx[k])` times a scalar; `analytic` is touched by nothing else between its
        definition and `output = analytic + simulated`;
    (2) one pass of the body for population k is exactly "projection matrix, then calling-error matrix, ALONG POSITION k":
        entry idx of the result is Σ_j (Σ_i A[idx, k ↦ i] · P_k[i, ·]) … with every other position — and the order of the
        positions — untouched; the shape changes at position k only;
    (3) the whole loop is the composition of these for k = 0, …, d−1, shape `k ↦ cols (heterr_mats[k])`;
    (4) different populations commute (the result does not depend on the order in which they are visited), and an identity
        calling-error matrix drops out (deep coverage: the loop is the per-axis projection matrices and nothing else).
    The proof accepts the two correct forms of the body — the axis swapped to the end and swapped back (the current source), or
    moved to the end with `moveaxis` and moved back.  A body that moves an axis with `moveaxis` and puts it back with `swapaxes`
    changes `loopBody` into neither; (2) then fails (see the counter-example below: for d = 3 such a body gives different
    entries). -/
theorem C08_lowpass_axes (d : ℕ) (mats : ℕ → ℕ → Mat) (s : St)
    (hP : ∀ k < d, s.shape k = (mats k 0).rows) (hH : ∀ k < d, (mats k 0).cols = (mats k 1).rows) :
    (loopVisits d = List.range d ∧ loopMatLists = ["proj_mats", "heterr_mats"]
      ∧ precalcUnpack = precalcReturn ∧ precalcStoreOk = true ∧ precalcParams = ["nsub", "nseq", "cov_dist", "sim_threshold", "Fx"]
      ∧ projMatsCall = ["nseq", "nsub", "Fx"] ∧ projMatParams = ["n_sequenced", "n_subsampling", "F"]
      ∧ projMatsScaledOk = true ∧ analyticShapeOk = true)
    ∧ (∀ k < d, ∀ t : St, t.shape k = (mats k 0).rows →
        runBody d k (mats k) t = some ⟨upd t.shape k (mats k 1).cols,
          along k (mats k 1).rows (mats k 1).get (along k (mats k 0).rows (mats k 0).get t.val)⟩)
    ∧ runLoop d mats s = some ⟨fun p => if p < d then (mats p 1).cols else s.shape p,
        (List.range d).foldl (fun A k =>
          along k (mats k 1).rows (mats k 1).get (along k (mats k 0).rows (mats k 0).get A)) s.val⟩
    ∧ (∀ a b : ℕ, a ≠ b → ∀ (Ma Mb : ℕ → Mat) (A : Idx → ℚ),
        bodyVal Ma a (bodyVal Mb b A) = bodyVal Mb b (bodyVal Ma a A))
    ∧ (∀ (k n : ℕ) (A : Idx → ℚ) (idx : Idx), idx k < n → along k n (fun i j => if i = j then 1 else 0) A idx = A idx) :=
  ⟨⟨rfl, by decide, by decide, by decide, by decide, by decide, by decide, by decide, by decide⟩,
   fun k hk t ht => runBody_eq d k (by first | exact Or.inl fun _ => rfl | exact Or.inr fun _ => rfl) hk (mats k) t ht (hH k hk),
   runLoop_eq d (by first | exact Or.inl fun _ => rfl | exact Or.inr fun _ => rfl) rfl mats s hP hH,
   fun _ _ hab Ma Mb A => bodyVal_comm hab Ma Mb A,
   fun k n A idx h => along_one k n A idx h⟩

end lowpass

/-! ## non-vacuity -/

/-- unequal target sizes, the later axes shrinking more than the first: every size lands on its own axis (3×4×5 → 3×2×2) -/
example : ((Spec.ofFn [3, 4, 5] (fun idx => (idx.getD 0 0 + 3 * idx.getD 1 0 + 7 * idx.getD 2 0 : ℕ)) (fun _ => false) false).project
    [2, 1, 1]).toOption.map (·.shape) = some [3, 2, 2] := by decide +kernel

/-- n = 6 → m = 4, i = 3: the row is C(4,j)·C(2,3−j)/C(6,3) = (0, 4/20, 12/20, 4/20, 0) -/
example : cachedProjection 4 6 3 = some [0, 1/5, 3/5, 1/5, 0] := by decide +kernel

/-- the neutral hypothesis is satisfiable and the conclusion is the non-trivial value 1/2 at j = 2 (n = 5 → m = 3) -/
example : projLineData 3 5 (fun i => if i = 0 then 7 else 1 / (i : ℚ)) 2 = 1/2 :=
  C08_neutral_fixed 3 5 (by omega) _ (fun i h1 _ => by simp [show i ≠ 0 by omega]) 2 (by omega) (by omega)

/-- a masked interior entry (i = 2 of n = 4) masks exactly j = 1, 2 of m = 3 -/
example : (List.range 4).map (projLineMask 3 4 (fun i => i == 2)) = [false, true, true, false] := by decide +kernel

/-- upward projection is refused on a concrete spectrum -/
example : (Spec.ofFn [4] (fun _ => 1) (fun _ => false) false).project [5] = .error "up" :=
  (C08_up_refused _ [5]).1 rfl ⟨0, by decide, by decide⟩

/-- the hypotheses of the array theorems are satisfiable: a 3×4 spectrum with a masked interior entry projects to 2×3 -/
def exS : Spec := Spec.ofFn [3, 4] (fun idx => (idx.getD 0 0 + 2 * idx.getD 1 0 : ℕ)) (fun idx => idx == [1, 2]) false

example : exS.folded = false ∧ (∀ s ∈ exS.shape, 0 < s) ∧ ∃ P, exS.project [1, 2] = .ok P :=
  ⟨rfl, by decide, _, PBox.project_eq_ok exS [1, 2] rfl (by decide)⟩

/-- two admissible stages 3×4 → 3×3 → 2×3 -/
example : ∃ P1 P12, exS.project [2, 2] = .ok P1 ∧ P1.project [1, 2] = .ok P12 := by
  refine ⟨_, _, PBox.project_eq_ok exS [2, 2] rfl (by decide), PBox.project_eq_ok _ [1, 2] ?_ ?_⟩
  · decide +kernel
  · decide +kernel

/-- the conserved total is a non-trivial number: 48 before and after -/
example : exS.total = 48 ∧ (exS.projectAxis 1 1).total = 48 := by decide +kernel

/-- three populations of EQUAL size (2 entries per axis), a different projection matrix per population, identity calling-error
    matrices, a spectrum that is not symmetric in its axes: the hypotheses of `C08_lowpass_axes` hold and the loop gives
    Σ over the source box of A[src] · Π_k P_k[src_k, tgt_k]  (entry (0,1,0) is the non-trivial number 1117/24) -/
def exLPmats : ℕ → ℕ → LPAx.Mat := fun k j =>
  if j = 0 then ⟨2, 2, fun i c => if i = 0 then (if c = 0 then 1 else 0) else (if c = 0 then (k + 1 : ℚ) / (k + 2) else 1 / (k + 2))⟩
  else ⟨2, 2, fun i c => if i = c then 1 else 0⟩
def exLPst : LPAx.St := ⟨fun _ => 2, fun idx => (idx 0 + 10 * idx 1 + 100 * idx 2 : ℕ)⟩

example : (∀ k < 3, exLPst.shape k = (exLPmats k 0).rows) ∧ (∀ k < 3, (exLPmats k 0).cols = (exLPmats k 1).rows) := by
  constructor <;> intro k _ <;> simp [exLPst, exLPmats]

example : (LPAx.runLoop 3 exLPmats exLPst).map (fun t => (t.val (fun p => if p = 1 then 1 else 0), t.shape 0)) = some (1117/24, 2) := by
  decide +kernel

/-- the seeded variant "move the axis to the end with `moveaxis`, put it back with `swapaxes`" is a different program in the
    model: on the same input entry (0,1,0) becomes 2197/24 -/
example : (LPAx.foldOpt (fun s k => LPAx.foldOpt (LPAx.step 3 (exLPmats k)) s [.move k 2, .dot 0, .dot 1, .swap k 2]) exLPst (List.range 3)).map
    (fun t => t.val (fun p => if p = 1 then 1 else 0)) = some (2197/24) := by
  decide +kernel

/-- two different axes of `exS` with admissible targets -/
example : (0 : ℕ) ≠ 1 ∧ 0 < exS.shape.length ∧ 1 < exS.shape.length ∧ 0 < exS.shape.getD 0 0 ∧ 0 < exS.shape.getD 1 0
    ∧ 1 ≤ exS.shape.getD 0 1 - 1 ∧ 2 ≤ exS.shape.getD 1 1 - 1 := by decide

end DadiVerif
