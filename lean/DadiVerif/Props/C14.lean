import DadiVerif.Lemmas.FileRoundTrip
/-!
# C14 — spectra survive file and pickle round trips with data, mask, folding and labels

Property theorems only (helper lemmas: `Lemmas/FileFormat.lean`, `Lemmas/FileRoundTrip.lean`).

* The WRITERS `toFile`, `arrayToFile`, the open modes `toFileGzMode …` and the pickle pair `reduceArgs` / `unpickle` are
  GENERATED from the current `dadi/Spectrum_mod.py` / `dadi/Numerics.py` (tools/gen_FileIO.py) — they are what the driver
  executes for `c14.tofile`, `c14.arr_to`, `c14.reduce`, `c14.unpickle`.
* The READERS `fromFile`, `arrayFromFile` and the constructor `construct` are the hand-written executable model
  (Model/FileFormat.lean) that the driver executes for `c14.fromfile`, `c14.arr_from`; they are tied to the code by
  correspondence (K) on written and on hand-made files.
* Numbers are opaque tokens (`Tok`: non-empty, free of Python whitespace).  That `'%.{p}g' % x` yields such a token and
  that reading it back gives a float which prints to the same token (the same float for p ≥ 17) is a trusted parameter,
  checked numerically by the harness — it is NOT proved here.  gzip and the UTF-8 codec are transports outside the model;
  what is proved about them is only that the modes the code opens files with are text modes (`C14_gzip_text_mode`).

All statements hold for every number of dimensions ≥ 1 (also > 5), every dimension size including 1 and 0, every
mask, any number of comment lines.
-/
set_option autoImplicit false
set_option linter.unusedVariables false
set_option linter.unusedSimpArgs false
namespace DadiVerif
open FileFormat Gen.FileIO

/-- **to_file → from_file.**  For every well-formed spectrum (≥ 1 dimension, entries are tokens, one mask bit per entry,
    labels — if any — one per dimension and free of `"` and line breaks) and all comment lines without line breaks, reading
    the text that `to_file` writes returns the same shape, entries, folded flag and labels, the same mask (plus the two
    corners if `mask_corners=True`, the reader's default), no `extrap_x`, and the comments as `to_file` wrote them
    (`strip`ped). -/
theorem C14_roundtrip (fs : Spec) (comments : List Str) (mc : Bool) (h : WellFormed fs)
    (hc : ∀ c ∈ comments, Clean c) :
    fromFile mc (toFile comments fs.shape fs.folded fs.popIds true fs.data fs.mask)
      = some ({ fs with mask := if mc then maskCorners fs.mask else fs.mask, extrapX := none },
              comments.map strip) := by
  have hlab : ∀ l, fs.popIds = some l → ∀ x ∈ l, Clean x := fun l hl x hx => ((h.labels l hl).2 x hx).2
  have hclean : ∀ l ∈ toFileLines comments fs.shape fs.folded fs.popIds true fs.data fs.mask, Clean l := by
    intro l hl
    simp only [toFileLines, if_true, List.mem_append, List.mem_map, List.mem_cons, List.mem_nil_iff, or_false] at hl
    rcases hl with (⟨c, hcm, rfl⟩ | rfl | rfl) | rfl
    · exact clean_commentLine (hc c hcm)
    · exact clean_headerLine _ _ _ _ hlab
    · exact clean_join _ (fun t ht => clean_of_noWs (h.toks t ht).2)
    · exact clean_maskLine _
  rw [toFile_eq_lines]
  unfold fromFile
  rw [lines_of_text _ hclean]
  simp only [toFileLines, if_true, List.map_append, List.map_cons, List.map_nil, List.append_assoc, List.cons_append,
    List.nil_append]
  have hhead : ∀ l, [term (headerLine fs.shape fs.folded fs.popIds true), term (joinWith SP fs.data),
      term (joinWith SP (fs.mask.map fmtD))].head? = some l → startsHash l = false := by
    intro l hl
    simp only [List.head?_cons, Option.some.injEq] at hl
    subst hl
    unfold term headerLine
    rw [List.append_assoc]
    exact startsHash_dims _ h.shape_ne _
  obtain ⟨htw, hdw⟩ := takeWhile_comments comments _ hhead
  rw [htw, hdw, comments_back]
  have hp : ∀ l, fs.popIds = some l → l ≠ [] ∧ ∀ x ∈ l, QUOTE ∉ x := by
    intro l hl
    have := h.labels l hl
    refine ⟨?_, fun x hx => (this.2 x hx).1⟩
    intro e
    have hs := h.shape_ne
    rw [e] at this
    exact hs (List.length_eq_zero_iff.mp this.1.symm)
  simp only [lineAt, List.drop_zero, List.drop_succ_cons, List.headD_cons, parseHeader_new _ h.shape_ne _ _ hp,
    if_neg h.shape_ne, splitWs_row _ h.toks, readCount_exact _ _ h.data_len, splitWs_maskLine,
    mask_step (prodL fs.shape) fs.mask (h.mask_len.trans h.data_len)]
  have hpl : ∀ l, fs.popIds = some l → l.length = fs.shape.length := fun l hl => (h.labels l hl).1
  by_cases hm : fs.mask = []
  · have hd0 : fs.data.length = 0 := by rw [← h.mask_len, hm]; rfl
    simp only [hm, if_true, construct_nomask _ _ _ _ _ _ h.data_len hpl, hd0, List.replicate_zero]
    cases mc <;> simp [maskCorners]
  · simp only [hm, if_false, construct_marr _ _ _ _ _ _ _ h.data_len h.mask_len hpl]

/-- the domain of `C14_roundtrip` is inhabited by a non-trivial case: 1×3 (a singleton axis), folded, labels with spaces,
    a masked middle entry and unmasked corners, the tokens `nan` and `1e-300` -/
example : WellFormed { shape := [1, 3], data := ["nan".toList, "1e-300".toList, "-inf".toList],
                       mask := [false, true, false], folded := true,
                       popIds := some ["pop 1".toList, " a b ".toList], extrapX := none } where
  shape_ne := by decide
  data_len := by decide
  mask_len := by decide
  toks := by
    intro t ht
    simp only [List.mem_cons, List.mem_nil_iff, or_false] at ht
    rcases ht with rfl | rfl | rfl <;> exact ⟨by decide, noWs_of_all _ (by decide)⟩
  labels := by
    intro l hl
    simp only [Option.some.injEq] at hl
    subst hl
    refine ⟨by decide, ?_⟩
    intro x hx
    simp only [List.mem_cons, List.mem_nil_iff, or_false] at hx
    rcases hx with rfl | rfl <;> exact ⟨by decide, fun c hc => by
      simp only [String.toList, List.mem_cons, List.mem_nil_iff, or_false] at hc
      revert c; decide⟩

/-- with comments that are already stripped (what every caller passes in practice) the comments come back unchanged -/
theorem C14_roundtrip_stripped (fs : Spec) (comments : List Str) (mc : Bool) (h : WellFormed fs)
    (hc : ∀ c ∈ comments, Clean c) (hs : ∀ c ∈ comments, strip c = c) :
    fromFile mc (toFile comments fs.shape fs.folded fs.popIds true fs.data fs.mask)
      = some ({ fs with mask := if mc then maskCorners fs.mask else fs.mask, extrapX := none }, comments) := by
  rw [C14_roundtrip fs comments mc h hc]
  congr 2
  exact List.map_id'' hs

/-- **pre-1.3 format** (`foldmaskinfo=False`: dimensions only in the header, no mask line).  The text parses to the same
    shape and entries, UNFOLDED, NO labels, NOTHING masked (apart from the corners if `mask_corners=True`) — whatever the
    folding status, labels and mask of the spectrum that was written. -/
theorem C14_old_format (fs : Spec) (comments : List Str) (mc : Bool) (hs : fs.shape ≠ [])
    (hd : fs.data.length = prodL fs.shape) (ht : ∀ t ∈ fs.data, Tok t) (hc : ∀ c ∈ comments, Clean c) :
    fromFile mc (toFile comments fs.shape fs.folded fs.popIds false fs.data fs.mask)
      = some ({ shape := fs.shape, data := fs.data,
                mask := if mc then maskCorners (List.replicate fs.data.length false)
                        else List.replicate fs.data.length false,
                folded := false, popIds := none, extrapX := none },
              comments.map strip) := by
  have hclean : ∀ l ∈ toFileLines comments fs.shape fs.folded fs.popIds false fs.data fs.mask, Clean l := by
    intro l hl
    simp only [toFileLines, Bool.false_eq_true, if_false, List.append_nil, List.mem_append, List.mem_map, List.mem_cons,
      List.mem_nil_iff, or_false] at hl
    rcases hl with ⟨c, hcm, rfl⟩ | rfl | rfl
    · exact clean_commentLine (hc c hcm)
    · have : headerLine fs.shape fs.folded fs.popIds false = dimsPart fs.shape := by simp [headerLine]
      rw [this]; exact clean_dimsPart _
    · exact clean_join _ (fun t h => clean_of_noWs (ht t h).2)
  sorry

end DadiVerif
