import DadiVerif.Lemmas.FileValues
import DadiVerif.Lemmas.FileRound17
/-!
# C14 — spectra survive file and pickle round trips with data, mask, folding and labels

Property theorems only (helper lemmas: `Lemmas/FileFormat.lean`, `Lemmas/FileRoundTrip.lean`).

* The WRITERS `toFile`, `arrayToFile`, the READERS `fromFile`, `arrayFromFile`, the open dispatch `toFileOpen` /
  `fromFileOpen` and the pickle pair `reduceArgs` / `unpickle` are all GENERATED from the current `dadi/Spectrum_mod.py` /
  `dadi/Numerics.py` (tools/gen_FileIO.py, statement by statement) — they are what the driver executes for `c14.tofile`,
  `c14.arr_to`, `c14.fromfile`, `c14.arr_from`, `c14.open`, `c14.reduce`, `c14.unpickle`.  Every theorem below is stated on
  these generated definitions.
* `fromFileSpec`, `arrayFromFileSpec` (Model/FileFormat.lean) are hand-written normal forms of the readers;
  `C14_reader_translated` / `C14_array_reader_translated` prove the generated readers equal to them (so a change of any translated reader statement breaks
  that theorem and, through it, every round-trip theorem).
* `Spectrum.__new__`, `Spectrum.mask_corners`, `Spectrum.unmask_all`, `Spectrum.__array_finalize__` are GENERATED too
  (`spectrumNew`, `maskCornersM`, `unmaskAllM`, `arrayFinalize`; every `Spectrum(...)` call of readers and unpickler is bound
  against the signature and defaults of `__new__` into `newSpec`).  `construct` (Model/FileFormat.lean) is the constructor's
  normal form; `C14_construct_translated` (+ the block theorems `C14_new_*`) proves the generated constructor equal to it for
  EVERY argument value.
* The format string of the data line `'%%.%ig' % precision` is the generated term `toFileFmt` / `arrayToFileFmt`
  (`C14_precision_format`: it is `%.<p>g` with the REQUESTED p for every p).
* Numbers are opaque tokens (`Tok`: non-empty, free of Python whitespace) in the file model.  What is assumed of
  `'%.{p}g' % x` and numpy's text parser is the explicit hypothesis structure `FmtContract` (Lemmas/FileValues.lean):
  parse (format p x) = round_p x, round_p idempotent, round_p = id for p ≥ 17, formatted entries are tokens.
  `C14_values_to_precision` / `C14_array_values_to_precision` prove the "same values to the written precision" clause FROM
  that contract.  For the CONCRETE exact model of `'%.{p}g'` + `strtod` on rationals (`roundSig`, `roundBin`, `rndModel`,
  Model/FileFormat.lean; the driver runs it, K compares it with the real chain) the contract's `exact17` and, for p ≥ 17, its
  idempotence are PROVED (`C14_round_exact17`), as are idempotence of each rounding and identity on values with ≤ p digits
  (`C14_round_idempotent`, `C14_round_fixed`); what remains assumed is `PrintfCorrect` (`C14_values_from_printf`): formatted
  entries are tokens and `printf`/`strtod` round correctly — plus, only for the "a second round trip changes nothing" clause at
  p = 16, idempotence of the composed rounding (validated numerically).
  gzip and the UTF-8 codec are transports outside the model; what is proved about them is that writer and reader choose
  the same transport and text mode for every file name (`C14_open_dispatch`, `C14_gzip_text_mode`).

All statements hold for every number of dimensions ≥ 1 (also > 5), every dimension size including 1 and 0, every
mask, any number of comment lines.
-/
set_option autoImplicit false
set_option linter.unusedVariables false
set_option linter.unusedSimpArgs false
namespace DadiVerif
open FileFormat Gen.FileIO

/-- **T obligation for `to_file`.**  The writer GENERATED from the current source (statement by statement) produces exactly
    the lines `toFileLines`: the stripped comments behind `# `, the header `d1 d2 … [folded|unfolded] ["label" …]`, the data
    row, the mask row — each terminated by `\n`.  Any change of what `to_file` writes breaks this statement. -/
theorem C14_writer_lines (comments : List Str) (shape : List Nat) (folded : Bool) (popIds : Option (List Str)) (fmi : Bool)
    (dataRow : List Str) (maskBits : List Bool) :
    toFile comments shape folded popIds fmi dataRow maskBits
      = (toFileLines comments shape folded popIds fmi dataRow maskBits).flatMap term := by
  unfold toFile toFileLines
  rw [comments_flat]
  cases fmi
  · simp [List.flatMap_append, term, headerLine, dimsPart, savetxtRow, NL]
  · cases popIds <;> cases folded <;>
      simp [List.flatMap_append, term, headerLine, dimsPart, savetxtRow, NL, flagWord, labelsPart, FOLDED, UNFOLDED]


/-- **T obligation for `array_to_file`**: comments, the dimensions line, one data line, `os.linesep` after each -/
theorem C14_array_writer_lines (comments : List Str) (shape : List Nat) (dataRow : List Str) :
    arrayToFile comments shape dataRow = (arrayToFileLines comments shape dataRow).flatMap term := by
  unfold arrayToFile arrayToFileLines linesep
  have : (comments.flatMap fun line => ['#', ' '] ++ strip line ++ [NL]) = (comments.map commentLine).flatMap term :=
    comments_flat comments
  rw [this]
  simp [List.flatMap_append, term, dimsPart, tofileSep, NL]


/-- **T obligation, `Spectrum.__array_finalize__`** (what `.view(subtype)`, `copy.copy`, slicing … run on the new array): mask
    and fill value come from the array viewed, and `folded` / `pop_ids` / `extrap_x` are carried over when that array has them
    (`'unspecified'` / None / None otherwise). -/
theorem C14_new_finalize_block (s o : Obj) :
    arrayFinalize s o = some { s with mask := o.mask, fillValue := o.fillValue,
                                      folded := some (o.folded.getD (.str UNSPECIFIED)), popIds := some (o.popIds.getD .none),
                                      extrapX := some (o.extrapX.getD .none) } := by
  rfl

/-- **T obligation, numpy part of the constructor** (`numpy.asanyarray`, `if mask is numpy.ma.nomask: mask = make_mask_none(…)`,
    `numpy.ma.masked_array(data, mask=mask, dtype=dtype, copy=copy, fill_value=fill_value, keep_mask=True, shrink=True)` bound
    against numpy's parameter list, `.view(subtype)`): the mask is `ctorMask` (argument OR-ed with the mask `data` brings), the
    fill value the `fill_value` argument. -/
theorem C14_new_mask_block (data mask : PyVal) (shape : List Nat) (toks : List Str) (own : Option Spec) (c : Bool) (t : Str)
    (hb : baseOf data = some (shape, toks, own)) :
    ((spectrumNew_if1 mask data).bind fun mask' =>
        (maNew data mask' (.ty "float") (.bool c) (.num t) (.bool true) (.bool true)).bind (viewSubtype arrayFinalize))
      = (ctorMask mask toks.length (ownMaskOf own toks.length)).map fun m => baseObj shape toks own m t := by
  have hown : (ownMaskOf own toks.length).length = toks.length := by
    rcases baseOf_cases data shape toks own hb with ⟨_, rfl⟩ | ⟨fs, _, rfl, h⟩
    · simp [ownMaskOf]
    · simpa [ownMaskOf] using h
  unfold spectrumNew_if1
  cases mask <;> simp [isNomask, makeMaskNone, hb, maNew, maskArgBits, ctorMask, viewSubtype, C14_new_finalize_block, baseObj,
    zipWith_or_replicate_false' _ _ hown]
  rename_i bits
  by_cases hl : bits.length = toks.length
  · simp [hl, viewSubtype, C14_new_finalize_block]
  · simp only [hl, if_false]
    match bits with
    | [] => simp
    | [b] => simp [viewSubtype, C14_new_finalize_block]
    | _ :: _ :: _ => simp

/-- **T obligation, folding status block** (`if hasattr(data, 'folded'): … elif data_folded is not None: … else: False`) -/
theorem C14_new_folded_block (df data : PyVal) (shape : List Nat) (toks : List Str) (own : Option Spec) (subarr : Obj)
    (hb : baseOf data = some (shape, toks, own)) :
    spectrumNew_if2 df data subarr = (ctorFoldedV df own).map fun v => { subarr with folded := some v } := by
  rcases baseOf_cases data shape toks own hb with ⟨rfl, rfl⟩ | ⟨fs, rfl, rfl, _⟩
  · by_cases h : isNone df = true <;> simp [spectrumNew_if2, spectrumNew_if5, hasAttr, ctorFoldedV, h]
  · by_cases h : (isNone df || pyEq df (.bool fs.folded)) = true
    · simp [spectrumNew_if2, spectrumNew_if3, hasAttr, getAttr, oOr, ctorFoldedV, h]
      cases hn : isNone df <;> simp [hn] at h ⊢
      intro h'; rw [h] at h'; cases h'
    · simp [spectrumNew_if2, spectrumNew_if3, spectrumNew_if4, hasAttr, getAttr, oOr, ctorFoldedV, h]
      cases hn : isNone df <;> simp [hn] at h ⊢
      simp [h]

/-- **T obligation, folding check** (`if data_folded:` … two `logger.warning` under `check_folding and not numpy.all(…)`): it
    only LOGS — the object is unchanged apart from its list of warnings (no exception, whatever the data). -/
theorem C14_new_folding_check_block (df : PyVal) (cf : Bool) (subarr : Obj) :
    spectrumNew_if6 df (.bool cf) subarr
      = (truthy df).map fun b => if b then { subarr with warnings := subarr.warnings ++ foldingWarnings spectrumNew_msg1 spectrumNew_msg2 cf subarr.shape subarr.data subarr.mask } else subarr := by
  unfold spectrumNew_if6
  cases truthy df with
  | none => rfl
  | some b =>
    cases b
    · rfl
    · cases cf <;> simp [spectrumNew_if7, spectrumNew_if8, truthy, oAnd, foldingWarnings]
      generalize allZeroAt subarr.data _ = z
      cases z <;> simp [Obj.warn] <;>
        (generalize allTrueAt subarr.mask _ = a; cases a <;> simp [Obj.warn])

/-- **T obligation, label block** (`if hasattr(data, 'pop_ids'): … else: if pop_ids is not None and len(pop_ids) != subarr.ndim:
    raise ValueError`) -/
theorem C14_new_popids_block (p data : PyVal) (shape : List Nat) (toks : List Str) (own : Option Spec) (subarr : Obj)
    (hb : baseOf data = some (shape, toks, own)) :
    spectrumNew_if9 p data subarr
      = (ctorPopV p own subarr.shape.length spectrumNew_msg3).map fun vw =>
          { subarr with popIds := some vw.1, warnings := subarr.warnings ++ vw.2 } := by
  rcases baseOf_cases data shape toks own hb with ⟨rfl, rfl⟩ | ⟨fs, rfl, rfl, _⟩
  · by_cases h : isNone p = true
    · simp [spectrumNew_if9, spectrumNew_if13, hasAttr, ctorPopV, h, oAnd]
    · simp [spectrumNew_if9, spectrumNew_if13, hasAttr, ctorPopV, h, oAnd]
      cases pyLen p with
      | none => rfl
      | some n => by_cases hn : n = subarr.shape.length <;> simp [hn]
  · by_cases h : (isNone p || pyEq p (labelsVal fs.popIds)) = true
    · simp [spectrumNew_if9, spectrumNew_if10, hasAttr, getAttr, oOr, ctorPopV, h]
      cases hn : isNone p <;> simp [hn] at h ⊢
      intro h'; rw [h] at h'; cases h'
    · simp [spectrumNew_if9, spectrumNew_if10, spectrumNew_if11, spectrumNew_if12, hasAttr, getAttr, oOr, ctorPopV, h]
      cases hn : isNone p <;> simp [hn] at h ⊢
      simp [h, Obj.warn]
      cases pyLen p with
      | none => rfl
      | some n => by_cases hn : n = subarr.shape.length <;> simp [hn]

/-- **T obligation, `if mask_corners: subarr.mask_corners()`** with the translated method `self.mask.flat[0] =
    self.mask.flat[-1] = True`: both corners masked; IndexError on an array without entries. -/
theorem C14_new_corners_block (mc : Bool) (subarr : Obj) :
    spectrumNew_if14 (.bool mc) subarr = (ctorCorners mc subarr.mask).map fun m => { subarr with mask := m } := by
  unfold spectrumNew_if14 maskCornersM ctorCorners
  cases mc
  · rfl
  · simp only [truthy, Option.bind_some, if_true]
    by_cases he : subarr.mask = []
    · simp [he, setFlat_nil]
    · have := setFlat_corners subarr.mask he
      cases h0 : setFlat subarr.mask 0 true with
      | none => rw [h0] at this; simp at this
      | some t1 =>
        rw [h0] at this
        simp only [Option.bind_some] at this ⊢
        simp [this, he]


/-- the rest of the constructor (folding status, folding check, labels, corners, `extrap_x`) on the object the numpy part built -/
theorem C14_new_tail (data df p x : PyVal) (mc cf : Bool) (shape : List Nat) (toks : List Str) (own : Option Spec)
    (m : List Bool) (t : Str) (hb : baseOf data = some (shape, toks, own)) :
    ((spectrumNew_if2 df data (baseObj shape toks own m t)).bind fun a =>
      (spectrumNew_if6 df (.bool cf) a).bind fun a =>
        (spectrumNew_if9 p data a).bind fun a =>
          (spectrumNew_if14 (.bool mc) a).bind fun y => Obj.toSpec { y with extrapX := some x })
      = (ctorFolded df own).bind fun f =>
          (ctorPopIds p own shape.length).bind fun pl =>
            (ctorExtrap x).bind fun ex =>
              (ctorCorners mc m).map fun m' =>
                { shape := shape, data := toks, mask := m', folded := f, popIds := pl, extrapX := ex } := by
  rw [C14_new_folded_block df data shape toks own _ hb, ctorFolded_of_V, ctorPopIds_of_V p own shape.length spectrumNew_msg3]
  cases hF : ctorFoldedV df own with
  | none => rfl
  | some fv =>
    simp only [Option.map_some, Option.bind_some, C14_new_folding_check_block]
    cases hT : truthy df with
    | none => rfl
    | some b =>
      simp only [Option.map_some, Option.bind_some]
      have hsh : ∀ w, (if b = true then ({ baseObj shape toks own m t with folded := some fv, warnings := w } : Obj)
          else { baseObj shape toks own m t with folded := some fv }).shape = shape := by
        intro w; cases b <;> rfl
      cases b <;>
      · simp only [Bool.false_eq_true, if_false, if_true]
        rw [C14_new_popids_block p data shape toks own _ hb]
        simp only [baseObj]
        cases hP : ctorPopV p own shape.length spectrumNew_msg3 with
        | none => cases asBool fv <;> rfl
        | some pv =>
          simp only [Option.map_some, Option.bind_some, C14_new_corners_block]
          cases hC : ctorCorners mc m with
          | none =>
            cases asBool fv <;> cases asLabels pv.1 <;> cases ctorExtrap x <;> rfl
          | some m' =>
            simp only [Option.map_some, Option.bind_some, Obj.toSpec, ctorExtrap]

/-- the numpy part in continuation form -/
theorem C14_new_mask_block_k {β : Type} (k : Obj → Option β) (data mask : PyVal) (shape : List Nat) (toks : List Str)
    (own : Option Spec) (c : Bool) (t : Str) (hb : baseOf data = some (shape, toks, own)) :
    ((spectrumNew_if1 mask data).bind fun a =>
        (maNew data a (.ty "float") (.bool c) (.num t) (.bool true) (.bool true)).bind fun a =>
          (viewSubtype arrayFinalize a).bind k)
      = (ctorMask mask toks.length (ownMaskOf own toks.length)).bind fun m => k (baseObj shape toks own m t) := by
  have := congrArg (fun o => o.bind k) (C14_new_mask_block data mask shape toks own c t hb)
  simpa [Option.bind_assoc, Option.bind_map, Function.comp_def] using this

/-- **T obligation for `Spectrum.__new__`.**  The constructor GENERATED statement by statement from the current source, called
    with `dtype=float`, `keep_mask=True` (the signature defaults; any `copy`, `shrink`, numeric `fill_value`), equals the normal
    form `construct` for EVERY value of `data`, `mask`, `data_folded`, `pop_ids`, `extrap_x` (accepted or rejected) and both
    values of `mask_corners` / `check_folding`.  Any change of a constructor statement breaks this or a block theorem above. -/
theorem C14_construct_translated (data mask df p x : PyVal) (mc cf c sh : Bool) (t : Str) :
    newSpec data mask (.bool mc) df (.bool cf) (.ty "float") (.bool c) (.num t) (.bool true) (.bool sh) p x
      = construct data mask (.bool mc) df (.bool cf) p x := by
  unfold newSpec spectrumNew construct
  cases hb : baseOf data with
  | none => simp [asanyarray, hb]
  | some b =>
    obtain ⟨shape, toks, own⟩ := b
    simp only [asanyarray, hb, Option.map_some, Option.bind_some, Option.bind_assoc]
    rw [C14_new_mask_block_k _ data mask shape toks own c t hb]
    cases ctorMask mask toks.length (ownMaskOf own toks.length) with
    | none => rfl
    | some m =>
      simp only [Option.bind_some]
      exact C14_new_tail data df p x mc cf shape toks own m t hb

/-- **the object the constructor builds, in full** (same hypotheses as `C14_construct_translated`, for an array-like `data`):
    besides the attributes of the typed view it has the fill value passed as `fill_value` and exactly these warnings — those
    of the folding check (only if `data_folded` is true AND `check_folding`) followed by the label-change warning (only if
    `data` is a Spectrum whose labels are replaced). -/
theorem C14_new_object (data mask df p x : PyVal) (mc cf c sh : Bool) (t : Str) (shape : List Nat) (toks : List Str)
    (own : Option Spec) (hb : baseOf data = some (shape, toks, own)) :
    spectrumNew data mask (.bool mc) df (.bool cf) (.ty "float") (.bool c) (.num t) (.bool true) (.bool sh) p x
      = (ctorMask mask toks.length (ownMaskOf own toks.length)).bind fun m =>
          (ctorFoldedV df own).bind fun fv => (truthy df).bind fun b =>
            (ctorPopV p own shape.length spectrumNew_msg3).bind fun pv =>
              (ctorCorners mc m).map fun m' =>
                { shape := shape, data := toks, mask := m', fillValue := .num t, folded := some fv, popIds := some pv.1,
                  extrapX := some x,
                  warnings := (if b then foldingWarnings spectrumNew_msg1 spectrumNew_msg2 cf shape toks m else []) ++ pv.2 } := by
  unfold spectrumNew
  simp only [asanyarray, hb, Option.map_some, Option.bind_some, Option.bind_assoc]
  rw [C14_new_mask_block_k _ data mask shape toks own c t hb]
  cases ctorMask mask toks.length (ownMaskOf own toks.length) with
  | none => rfl
  | some m =>
    simp only [Option.bind_some]
    rw [C14_new_folded_block df data shape toks own _ hb]
    cases ctorFoldedV df own with
    | none => rfl
    | some fv =>
      simp only [Option.map_some, Option.bind_some, C14_new_folding_check_block]
      cases truthy df with
      | none => rfl
      | some b =>
        simp only [Option.map_some, Option.bind_some]
        cases b <;>
        · simp only [Bool.false_eq_true, if_false, if_true]
          rw [C14_new_popids_block p data shape toks own _ hb]
          simp only [baseObj]
          cases ctorPopV p own shape.length spectrumNew_msg3 with
          | none => rfl
          | some pv =>
            simp only [Option.map_some, Option.bind_some, C14_new_corners_block]
            cases ctorCorners mc m with
            | none => rfl
            | some m' => simp

/-- **the defaults of the constructor's signature** that the file / pickle clauses rest on: no mask, corners masked, folding
    status taken from `data`, folding checked, `dtype=float`, a copy, fill value nan, `keep_mask`, no labels, no `extrap_x` — and
    the parameter ORDER `(data, mask, mask_corners, data_folded, check_folding, …)` against which positional arguments of every
    `Spectrum(...)` call are bound. -/
theorem C14_new_signature :
    newParams = ["data", "mask", "mask_corners", "data_folded", "check_folding", "dtype", "copy", "fill_value", "keep_mask",
                 "shrink", "pop_ids", "extrap_x"]
      ∧ newDefaults = [("mask", .nomask), ("mask_corners", .bool true), ("data_folded", .none), ("check_folding", .bool true),
                       ("dtype", .ty "float"), ("copy", .bool true), ("fill_value", .num NANTOK), ("keep_mask", .bool true),
                       ("shrink", .bool true), ("pop_ids", .none), ("extrap_x", .none)] := by
  decide

/-- **masked entries are written as nan by the generic array writer**: an object built by the constructor with the DEFAULT
    `fill_value` has fill value nan, so `data.filled()` (`filledRowWith` that fill value) is `filledRow` — the row
    `C14_array_masked` is about. -/
theorem C14_fill_value_nan (data mask df p x : PyVal) (mc cf c sh : Bool) (o : Obj)
    (h : spectrumNew data mask (.bool mc) df (.bool cf) (.ty "float") (.bool c)
           ((newDefaults.lookup "fill_value").getD .none) (.bool true) (.bool sh) p x = some o) :
    o.fillValue = .num NANTOK ∧ filledRowWith NANTOK o.data o.mask = filledRow o.data o.mask := by
  refine ⟨?_, rfl⟩
  have hd : (newDefaults.lookup "fill_value").getD PyVal.none = .num NANTOK := by decide
  rw [hd] at h
  cases hb : baseOf data with
  | none => simp [spectrumNew, asanyarray, hb] at h
  | some b =>
    obtain ⟨shape, toks, own⟩ := b
    rw [C14_new_object data mask df p x mc cf c sh NANTOK shape toks own hb] at h
    cases h1 : ctorMask mask toks.length (ownMaskOf own toks.length) with
    | none => rw [h1] at h; cases h
    | some m =>
      cases h2 : ctorFoldedV df own with
      | none => rw [h1, h2] at h; cases h
      | some fv =>
        cases h3 : truthy df with
        | none => rw [h1, h2, h3] at h; cases h
        | some b =>
          cases h4 : ctorPopV p own shape.length spectrumNew_msg3 with
          | none => rw [h1, h2, h3, h4] at h; cases h
          | some pv =>
            simp only [h1, h2, h3, h4, Option.bind_some] at h
            cases h5 : ctorCorners mc m with
            | none => rw [h5] at h; cases h
            | some m' =>
              rw [h5] at h
              simp only [Option.map_some, Option.some.injEq] at h
              subst h; rfl

/-- **`check_folding` never changes the object** (it only controls the two warnings of the folding check): the typed view
    of what the constructor returns is the same for `check_folding=True` and `False` — which is why the unpickler may pass
    `check_folding=False`. -/
theorem C14_check_folding_irrelevant (data mask df p x : PyVal) (mc c sh : Bool) (t : Str) :
    newSpec data mask (.bool mc) df (.bool true) (.ty "float") (.bool c) (.num t) (.bool true) (.bool sh) p x
      = newSpec data mask (.bool mc) df (.bool false) (.ty "float") (.bool c) (.num t) (.bool true) (.bool sh) p x := by
  rw [C14_construct_translated, C14_construct_translated]; rfl

/-- **`Spectrum.mask_corners()`** (translated: `self.mask.flat[0] = self.mask.flat[-1] = True`): on a spectrum with at least
    one entry exactly the first and the last flat entry become masked, nothing else changes; IndexError without entries. -/
theorem C14_mask_corners_method (o : Obj) :
    maskCornersM o = if o.mask = [] then none else some { o with mask := maskCorners o.mask } := by
  have h := C14_new_corners_block true o
  simp only [spectrumNew_if14, truthy, Option.bind_some, if_true] at h
  have h' : maskCornersM o = (ctorCorners true o.mask).map fun m => { o with mask := m } := by
    cases hm : maskCornersM o with
    | none => rw [hm] at h; simpa using h
    | some r => rw [hm] at h; simpa using h
  rw [h']
  by_cases he : o.mask = [] <;> simp [ctorCorners, he]

/-- **`Spectrum.unmask_all()`** (translated: `self.mask[<all slices>] = False`).  Stated in the form that holds whichever of
    the three spellings of "all slices" the source uses: IF the call returns, every entry is unmasked and nothing else changes.
    On the pinned tree the index is a LIST of slices, which numpy ≥ 1.23 rejects (IndexError): the call never returns
    (`unmaskAllM o = none`, agreed by K) — a defect of dadi outside the statement of C14, see notes/C14.md. -/
theorem C14_unmask_all_partial (o o' : Obj) (h : unmaskAllM o = some o') :
    o' = { o with mask := List.replicate o.mask.length false } := by
  unfold unmaskAllM at h
  cases hs : setAll o.mask _ false with
  | none => rw [hs] at h; cases h
  | some m =>
    rw [hs] at h
    simp only [Option.bind_some, Option.some.injEq] at h
    subst h
    rw [setAll_some _ _ _ _ hs]

/-- non-vacuity of the constructor theorems on the copy-constructor path: a Spectrum passed as `data` with another mask —
    masks are OR-ed, folding status and labels come from `data`, corners get masked, `extrap_x` is NOT inherited -/
example :
    newSpec (.spec { shape := [4], data := ["1".toList, "2".toList, "3".toList, "4".toList], mask := [false, true, false, false],
                     folded := true, popIds := some ["a".toList], extrapX := some "0.5".toList })
        (.marr [false, false, true, false]) (.bool true) .none (.bool true) (.ty "float") (.bool true) (.num NANTOK) (.bool true)
        (.bool true) .none .none
      = some { shape := [4], data := ["1".toList, "2".toList, "3".toList, "4".toList], mask := [true, true, true, true],
               folded := true, popIds := some ["a".toList], extrapX := none } := by
  decide

/-- **T obligation, label block of the reader** (`if len(shape_spl) > next_ii + 1: pop_ids = line.split('"')[1::2] else: None`,
    lambda-lifted by the translator): labels are the odd pieces of the RAW line split on `"`, present iff a token follows the flag. -/
theorem C14_reader_label_block (line : Str) (toks : List Str) (n : Nat) :
    fromFile_if2 line toks n = some (if toks.length > n + 1 then some (odds (splitOnC QUOTE line)) else none) := by
  unfold fromFile_if2
  by_cases h : toks.length > n + 1 <;> simp [h, QUOTE]

/-- **T obligation, header block of the reader** (old/new format detection, `[int(shape_spl[0])]`, the dimension-scanning
    `while shape_spl[next_ii] not in ['folded','unfolded']` loop incl. its IndexError / ValueError, the `folded` flag, the label
    block): the generated block IS `parseHeader`, for every line. -/
theorem C14_reader_header_block (line : Str) : fromFile_if1 line (splitWs line) = parseHeader line := by
  unfold fromFile_if1 parseHeader
  generalize splitWs line = toks
  have hF : (['f', 'o', 'l', 'd', 'e', 'd'] : Str) = FOLDED := rfl
  have hU : (['u', 'n', 'f', 'o', 'l', 'd', 'e', 'd'] : Str) = UNFOLDED := rfl
  simp only [hU]
  simp only [hF]
  by_cases hc : (!toks.contains FOLDED && !toks.contains UNFOLDED) = true
  · simp only [hc, if_true]
    cases toks.mapM parseInt <;> rfl
  · simp only [hc, if_false, Bool.false_eq_true]
    cases toks with
    | nil => rfl
    | cons t0 ts =>
      simp only [idx, List.getElem?_cons_zero, Option.bind_some]
      cases hp : parseInt t0 with
      | none => rfl
      | some d0 =>
        simp only [Option.bind_some, whileNotInAppendInt, List.drop_succ_cons, List.drop_zero, scanInts_scanDims]
        cases hs : scanDims ts with
        | none => rfl
        | some r =>
          obtain ⟨ds, f, after⟩ := r
          obtain ⟨hflag, hlen⟩ := scanDims_shape ts ds f after hs
          simp only [Option.map_some, Option.bind_some, List.singleton_append]
          have hi : (t0 :: ts)[1 + ds.length]? = some (if f then FOLDED else UNFOLDED) := by
            rw [Nat.add_comm, List.getElem?_cons_succ]; exact hflag
          rw [hi]
          simp only [Option.bind_some, C14_reader_label_block]
          have hfold : ((if f then FOLDED else UNFOLDED) == FOLDED) = f := by
            cases f
            · simp [flag_ne]
            · simp
          rw [hfold]
          have hgt : ((t0 :: ts).length > 1 + ds.length + 1) = ¬ (after.isEmpty = true) := by
            simp only [List.length_cons, hlen, List.isEmpty_iff]
            cases after <;> simp <;> omega
          simp only [hgt]
          cases after <;> simp

/-- **T obligation, mask block of the reader** (`if not maskline: mask = None else: numpy.fromstring(maskline, count=prod(shape))
    .reshape(*shape)`, then passed as `mask=` to the constructor): the generated block IS `maskOfLine`. -/
theorem C14_reader_mask_block (shape : List Nat) (hs : shape ≠ []) (l : Str) :
    (fromFile_if3 shape (strip l)).bind maskArg
      = maskOfLine (prodL shape) (splitWs l) := by
  unfold maskOfLine
  unfold fromFile_if3
  rw [strip_isEmpty]
  by_cases h : splitWs l = []
  · simp [h, maskArg]
  · simp only [h, decide_false, Bool.false_eq_true, if_false, npProdCount, if_neg hs, Option.bind_some, fromstring,
      splitWs_strip]
    cases hr : readCount (prodL shape) (splitWs l) with
    | none => rfl
    | some ts =>
      have := readCount_length _ _ _ hr
      simp [reshape, this, maskArg]

/-- **T obligation for `Spectrum.from_file`.**  The reader GENERATED statement by statement from the current source (open,
    `readline`, the comment loop `while line.startswith('#'): comments.append(line[1:].strip())`, header split and block,
    `numpy.fromstring(fid.readline().strip(), count=numpy.prod(shape), sep=' ')`, `reshape`, mask line, the constructor call
    `Spectrum(data, mask, mask_corners, data_folded=folded, pop_ids=pop_ids)` bound against the signature and defaults of
    `Spectrum.__new__`, the returned pair) equals the normal form `fromFileSpec` for EVERY text — accepted or rejected — and
    both `mask_corners`.  Any change of a translated reader statement breaks this (or one of the block theorems above). -/
theorem C14_reader_translated (mc : Bool) (text : Str) : fromFile mc text = fromFileSpec mc text := by
  unfold fromFile fromFileSpec openText
  generalize linesOf (univNL text) = ls
  simp only [readline_eq]
  have hw := whileStartsWith_hash (fun line => strip (List.drop 1 line)) ls []
  simp only [List.nil_append] at hw
  rw [hw]
  simp only [C14_reader_header_block, lineAt, List.drop_zero, List.drop_drop, Nat.reduceAdd]
  have hcm : (fun line => strip (List.drop 1 line)) = commentOf := rfl
  rw [hcm]
  generalize ls.dropWhile startsHash = rest
  cases hh : parseHeader (rest.headD []) with
  | none => rfl
  | some r =>
    obtain ⟨shape, folded, labels⟩ := r
    simp only [Option.bind_some]
    by_cases hs : shape = []
    · simp [hs, npProdCount]
    · simp only [npProdCount, if_neg hs, Option.bind_some, fromstring, splitWs_strip]
      cases hr : readCount (prodL shape) (splitWs ((rest.drop 1).headD [])) with
      | none => rfl
      | some data =>
        have hlen := readCount_length _ _ _ hr
        simp only [Option.bind_some, reshape, hlen, if_true]
        have hm := C14_reader_mask_block shape hs ((rest.drop 2).headD [])
        rw [← Option.bind_assoc, hm]
        cases hmask : maskOfLine (prodL shape) (splitWs ((rest.drop 2).headD [])) with
        | none => rfl
        | some mask =>
          simp only [Option.bind_some, C14_construct_translated]
          cases construct (PyVal.arr shape data) mask (PyVal.bool mc) (PyVal.bool folded) (PyVal.bool true)
            (labelsVal labels) PyVal.none <;> rfl

/-- **T obligation for `Numerics.array_from_file`** (comment loop, `tuple([int(d) for d in line.split()])`,
    `numpy.fromfile(fid, count=numpy.prod(shape), sep=' ')` reading across line ends, `reshape`): equals `arrayFromFileSpec`
    for every text. -/
theorem C14_array_reader_translated (text : Str) : arrayFromFile text = arrayFromFileSpec text := by
  unfold arrayFromFile arrayFromFileSpec openText
  generalize linesOf (univNL text) = ls
  simp only [readline_eq]
  have hw := whileStartsWith_hash (fun line => strip (List.drop 1 line)) ls []
  simp only [List.nil_append] at hw
  rw [hw]
  simp only [lineAt, List.drop_zero]
  have hcm : (fun line => strip (List.drop 1 line)) = commentOf := rfl
  rw [hcm]
  generalize ls.dropWhile startsHash = rest
  cases hh : (splitWs (rest.headD [])).mapM parseInt with
  | none => rfl
  | some shape =>
    simp only [Option.bind_some]
    by_cases hs : shape = []
    · simp [hs, npProdCount]
    · simp only [npProdCount, if_neg hs, Option.bind_some, fromfileText, reshape, List.length_take]
      generalize splitWs (rest.drop 1).flatten = toks
      by_cases hlt : toks.length < prodL shape
      · have : ¬ (min (prodL shape) toks.length = prodL shape) := by omega
        simp only [if_pos hlt, if_neg this]; rfl
      · have : min (prodL shape) toks.length = prodL shape := by omega
        simp only [if_neg hlt, if_pos this]; rfl

/-- **to_file → from_file.**  For every well-formed spectrum (≥ 1 dimension, entries are tokens, one mask bit per entry,
    labels — if any — one per dimension and free of `"` and line breaks) and all comment lines without line breaks, reading
    the text that `to_file` writes returns the same shape, entries, folded flag and labels, the same mask (plus the two
    corners if `mask_corners=True`, the reader's default), no `extrap_x`, and the comments as `to_file` wrote them
    (`strip`ped).  `hnz`: with `mask_corners=True` the spectrum must have at least one entry — on an array without entries (an
    axis of length 0) `Spectrum.__new__` raises IndexError in `mask_corners()` (translated; `C14_new_corners_block`). -/
theorem C14_roundtrip (fs : Spec) (comments : List Str) (mc : Bool) (h : WellFormed fs)
    (hc : ∀ c ∈ comments, Clean c) (hnz : mc = true → fs.data ≠ []) :
    fromFile mc (toFile comments fs.shape fs.folded fs.popIds true fs.data fs.mask)
      = some ({ fs with mask := if mc then maskCorners fs.mask else fs.mask, extrapX := none },
              comments.map strip) := by
  have hlab : ∀ l, fs.popIds = some l → ∀ x ∈ l, Clean x := fun l hl x hx => ((h.labels l hl).2 x hx).2
  have hclean : ∀ l ∈ toFileLines comments fs.shape fs.folded fs.popIds true fs.data fs.mask, Clean l := by
    intro l hl
    simp only [toFileLines, if_true, List.mem_append, List.mem_map, List.mem_cons, List.mem_nil_iff, or_false] at hl
    rcases hl with (⟨c, hcm, rfl⟩ | rfl | rfl) | rfl
    · exact clean_commentLine (hc c hcm)
    · exact clean_headerLine _ _ _ _ hlab
    · exact clean_join _ (fun t ht => clean_of_noWs (h.toks t ht).2)
    · exact clean_maskLine _
  rw [C14_writer_lines, C14_reader_translated]
  unfold fromFileSpec
  rw [lines_of_text _ hclean]
  simp only [toFileLines, if_true, List.map_append, List.map_cons, List.map_nil, List.append_assoc, List.cons_append,
    List.nil_append]
  have hhead : ∀ l, [term (headerLine fs.shape fs.folded fs.popIds true), term (joinWith SP fs.data),
      term (joinWith SP (fs.mask.map fmtD))].head? = some l → startsHash l = false := by
    intro l hl
    simp only [List.head?_cons, Option.some.injEq] at hl
    subst hl
    unfold term headerLine
    rw [List.append_assoc]
    exact startsHash_dims _ h.shape_ne _
  obtain ⟨htw, hdw⟩ := takeWhile_comments comments _ hhead
  rw [htw, hdw, comments_back]
  have hp : ∀ l, fs.popIds = some l → l ≠ [] ∧ ∀ x ∈ l, QUOTE ∉ x := by
    intro l hl
    have := h.labels l hl
    refine ⟨?_, fun x hx => (this.2 x hx).1⟩
    intro e
    have hs := h.shape_ne
    rw [e] at this
    exact hs (List.length_eq_zero_iff.mp this.1.symm)
  simp only [lineAt, List.drop_zero, List.drop_succ_cons, List.headD_cons, parseHeader_new _ h.shape_ne _ _ hp,
    if_neg h.shape_ne, splitWs_row _ h.toks, readCount_exact _ _ h.data_len, splitWs_maskLine, maskOfLine]
  have hpl : ∀ l, fs.popIds = some l → l.length = fs.shape.length := fun l hl => (h.labels l hl).1
  by_cases hm : fs.mask = []
  · have hd0 : fs.data.length = 0 := by rw [← h.mask_len, hm]; rfl
    simp only [hm, List.map_nil, ↓reduceIte]
    rw [construct_nomask fs.shape fs.data mc fs.folded true fs.popIds h.data_len hpl hnz, hd0]
    cases mc <;> simp [maskCorners]
  · have hne : fs.mask.map fmtD ≠ [] := by simpa using hm
    have hrc : readCount (prodL fs.shape) (fs.mask.map fmtD) = some (fs.mask.map fmtD) :=
      readCount_exact _ _ (by simpa using h.mask_len.trans h.data_len)
    simp only [if_neg hne, hrc, mapM_parseBit, Option.map_some]
    rw [construct_marr fs.shape fs.data fs.mask mc fs.folded true fs.popIds h.data_len h.mask_len hpl hnz]

/-- the domain of `C14_roundtrip` is inhabited by a non-trivial case: 1×3 (a singleton axis), folded, labels with spaces,
    a masked middle entry and unmasked corners, the tokens `nan` and `1e-300` -/
example : WellFormed { shape := [1, 3], data := ["nan".toList, "1e-300".toList, "-inf".toList],
                       mask := [false, true, false], folded := true,
                       popIds := some ["pop 1".toList, " a b ".toList], extrapX := none } where
  shape_ne := by decide
  data_len := by decide
  mask_len := by decide
  toks := by
    intro t ht
    simp only [List.mem_cons, List.mem_nil_iff, or_false] at ht
    rcases ht with rfl | rfl | rfl <;> exact ⟨by decide, noWs_of_all _ (by decide)⟩
  labels := by
    intro l hl
    simp only [Option.some.injEq] at hl
    subst hl
    refine ⟨by decide, ?_⟩
    intro x hx
    simp only [List.mem_cons, List.mem_nil_iff, or_false] at hx
    rcases hx with rfl | rfl <;> exact ⟨by decide, fun c hc => by
      simp only [String.toList, List.mem_cons, List.mem_nil_iff, or_false] at hc
      revert c; decide⟩

/-- with comments that are already stripped (what every caller passes in practice) the comments come back unchanged -/
theorem C14_roundtrip_stripped (fs : Spec) (comments : List Str) (mc : Bool) (h : WellFormed fs)
    (hc : ∀ c ∈ comments, Clean c) (hs : ∀ c ∈ comments, strip c = c) (hnz : mc = true → fs.data ≠ []) :
    fromFile mc (toFile comments fs.shape fs.folded fs.popIds true fs.data fs.mask)
      = some ({ fs with mask := if mc then maskCorners fs.mask else fs.mask, extrapX := none }, comments) := by
  rw [C14_roundtrip fs comments mc h hc hnz]
  congr 2
  rw [List.map_congr_left (g := id) hs, List.map_id]

/-- **pre-1.3 format** (`foldmaskinfo=False`: dimensions only in the header, no mask line).  The text parses to the same
    shape and entries, UNFOLDED, NO labels, NOTHING masked (apart from the corners if `mask_corners=True`) — whatever the
    folding status, labels and mask of the spectrum that was written. -/
theorem C14_old_format (fs : Spec) (comments : List Str) (mc : Bool) (hs : fs.shape ≠ [])
    (hd : fs.data.length = prodL fs.shape) (ht : ∀ t ∈ fs.data, Tok t) (hc : ∀ c ∈ comments, Clean c)
    (hnz : mc = true → fs.data ≠ []) :
    fromFile mc (toFile comments fs.shape fs.folded fs.popIds false fs.data fs.mask)
      = some ({ shape := fs.shape, data := fs.data,
                mask := if mc then maskCorners (List.replicate fs.data.length false)
                        else List.replicate fs.data.length false,
                folded := false, popIds := none, extrapX := none },
              comments.map strip) := by
  have hclean : ∀ l ∈ toFileLines comments fs.shape fs.folded fs.popIds false fs.data fs.mask, Clean l := by
    intro l hl
    simp only [toFileLines, Bool.false_eq_true, if_false, List.append_nil, List.mem_append, List.mem_map, List.mem_cons,
      List.mem_nil_iff, or_false] at hl
    rcases hl with ⟨c, hcm, rfl⟩ | rfl | rfl
    · exact clean_commentLine (hc c hcm)
    · have : headerLine fs.shape fs.folded fs.popIds false = dimsPart fs.shape := by simp [headerLine]
      rw [this]; exact clean_dimsPart _
    · exact clean_join _ (fun t h => clean_of_noWs (ht t h).2)
  rw [C14_writer_lines, C14_reader_translated]
  unfold fromFileSpec
  rw [lines_of_text _ hclean]
  simp only [toFileLines, Bool.false_eq_true, if_false, List.append_nil, List.map_append, List.map_cons, List.map_nil,
    List.append_assoc, List.cons_append, List.nil_append]
  have hhead : ∀ l, [term (headerLine fs.shape fs.folded fs.popIds false), term (joinWith SP fs.data)].head? = some l →
      startsHash l = false := by
    intro l hl
    simp only [List.head?_cons, Option.some.injEq] at hl
    subst hl
    unfold term headerLine
    rw [List.append_assoc]
    exact startsHash_dims _ hs _
  obtain ⟨htw, hdw⟩ := takeWhile_comments comments _ hhead
  rw [htw, hdw, comments_back]
  have hsw : splitWs ([] : Str) = [] := rfl
  simp only [lineAt, List.drop_zero, List.drop_succ_cons, List.drop_nil, List.headD_cons, List.headD_nil,
    parseHeader_old, if_neg hs, splitWs_row _ ht, readCount_exact _ _ hd, hsw, maskOfLine, ↓reduceIte]
  have hnone : ∀ l, (none : Option (List Str)) = some l → l.length = fs.shape.length := by intro l hl; cases hl
  have := construct_nomask fs.shape fs.data mc false true none hd hnone hnz
  simp only [labelsVal] at this ⊢
  rw [this]

/-- non-vacuity of `C14_old_format`, and the information that format loses: a folded, labelled spectrum with a masked
    entry comes back unfolded, unlabelled and with only the corners masked -/
example :
    fromFile true (toFile ["old".toList] [3] true (some ["p".toList]) false ["0".toList, "7".toList, "0".toList]
                    [true, true, true])
      = some ({ shape := [3], data := ["0".toList, "7".toList, "0".toList], mask := [true, false, true],
                folded := false, popIds := none, extrapX := none }, ["old".toList]) := by
  decide

/-- **generic array writer / reader** (`Numerics.array_to_file` → `array_from_file`): shape, entries and (stripped)
    comments come back, for every shape with ≥ 1 dimension. -/
theorem C14_array_rw (shape : List Nat) (dataRow : List Str) (comments : List Str) (hs : shape ≠ [])
    (hd : dataRow.length = prodL shape) (ht : ∀ t ∈ dataRow, Tok t) (hc : ∀ c ∈ comments, Clean c) :
    arrayFromFile (arrayToFile comments shape dataRow) = some ((shape, dataRow), comments.map strip) := by
  have hclean : ∀ l ∈ arrayToFileLines comments shape dataRow, Clean l := by
    intro l hl
    simp only [arrayToFileLines, List.mem_append, List.mem_map, List.mem_cons, List.mem_nil_iff, or_false] at hl
    rcases hl with ⟨c, hcm, rfl⟩ | rfl | rfl
    · exact clean_commentLine (hc c hcm)
    · exact clean_dimsPart _
    · exact clean_join _ (fun t h => clean_of_noWs (ht t h).2)
  rw [C14_array_writer_lines, C14_array_reader_translated]
  unfold arrayFromFileSpec
  rw [lines_of_text _ hclean]
  simp only [arrayToFileLines, List.map_append, List.map_cons, List.map_nil]
  have hhead : ∀ l, [term (dimsPart shape), term (joinWith SP dataRow)].head? = some l → startsHash l = false := by
    intro l hl
    simp only [List.head?_cons, Option.some.injEq] at hl
    subst hl
    exact startsHash_dims _ hs _
  obtain ⟨htw, hdw⟩ := takeWhile_comments comments _ hhead
  rw [htw, hdw, comments_back]
  have hlt : ¬ dataRow.length < prodL shape := by omega
  simp only [lineAt, List.drop_zero, List.drop_succ_cons, List.headD_cons, splitWs_dimsLine, mapM_parseInt, if_neg hs,
    List.flatten_cons, List.flatten_nil, List.append_nil, splitWs_row _ ht, if_neg hlt]
  rw [← hd, List.take_length]

/-- a Spectrum written through the generic array writer: `data.filled()` replaces every masked entry by the fill value
    (`nan`) before writing; the reader returns exactly that row -/
theorem C14_array_masked (fs : Spec) (comments : List Str) (h : WellFormed fs) (hc : ∀ c ∈ comments, Clean c) :
    arrayFillsMasked = true ∧
    arrayFromFile (arrayToFile comments fs.shape (filledRow fs.data fs.mask))
      = some ((fs.shape, filledRow fs.data fs.mask), comments.map strip) := by
  refine ⟨by decide, C14_array_rw _ _ _ h.shape_ne ?_ ?_ hc⟩
  · simp [filledRow, filledRowWith, List.length_zipWith, h.mask_len, h.data_len]
  · intro t ht
    unfold filledRow filledRowWith at ht
    obtain ⟨i, hi, rfl⟩ := List.getElem_of_mem ht
    rw [List.getElem_zipWith]
    split
    · exact tok_nan
    · exact h.toks _ (List.getElem_mem _)

example : arrayFromFile (arrayToFile [] [2, 1] (filledRow ["1".toList, "2.5".toList] [false, true]))
    = some (([2, 1], ["1".toList, "nan".toList]), []) := by decide

/-- **the pre-1.3 Spectrum format IS the generic array format**: `to_file(foldmaskinfo=False)` and `array_to_file` write the
    same text (comments, dimensions, one data line), whatever the folding status, labels and mask of the spectrum. -/
theorem C14_old_format_is_array_format (comments : List Str) (shape : List Nat) (folded : Bool) (popIds : Option (List Str))
    (dataRow : List Str) (maskBits : List Bool) :
    toFile comments shape folded popIds false dataRow maskBits = arrayToFile comments shape dataRow := by
  rw [C14_writer_lines, C14_array_writer_lines]
  simp [toFileLines, arrayToFileLines, headerLine]

/-- **cross-reading, array file → `Spectrum.from_file`**: a file written by `array_to_file` is read by `from_file` as the
    spectrum with that shape and those entries, unfolded, unlabelled, nothing masked (corners only with `mask_corners=True`);
    every shape with ≥ 1 axis, singleton axes included. -/
theorem C14_cross_array_to_spectrum (shape : List Nat) (dataRow : List Str) (comments : List Str) (mc : Bool)
    (hs : shape ≠ []) (hd : dataRow.length = prodL shape) (ht : ∀ t ∈ dataRow, Tok t) (hc : ∀ c ∈ comments, Clean c)
    (hnz : mc = true → dataRow ≠ []) :
    fromFile mc (arrayToFile comments shape dataRow)
      = some ({ shape := shape, data := dataRow,
                mask := if mc then maskCorners (List.replicate dataRow.length false)
                        else List.replicate dataRow.length false,
                folded := false, popIds := none, extrapX := none },
              comments.map strip) := by
  rw [← C14_old_format_is_array_format comments shape false none dataRow []]
  exact C14_old_format { shape := shape, data := dataRow, mask := [], folded := false, popIds := none, extrapX := none }
    comments mc hs hd ht hc hnz

/-- **cross-reading, pre-1.3 Spectrum file → `array_from_file`**: shape, entries and comments come back -/
theorem C14_cross_old_to_array (fs : Spec) (comments : List Str) (hs : fs.shape ≠ [])
    (hd : fs.data.length = prodL fs.shape) (ht : ∀ t ∈ fs.data, Tok t) (hc : ∀ c ∈ comments, Clean c) :
    arrayFromFile (toFile comments fs.shape fs.folded fs.popIds false fs.data fs.mask)
      = some ((fs.shape, fs.data), comments.map strip) := by
  rw [C14_old_format_is_array_format]
  exact C14_array_rw fs.shape fs.data comments hs hd ht hc

/-- singleton axes, both directions, on closed instances -/
example : fromFile false (arrayToFile ["c".toList] [1, 2, 1] ["5".toList, "nan".toList])
    = some ({ shape := [1, 2, 1], data := ["5".toList, "nan".toList], mask := [false, false], folded := false,
              popIds := none, extrapX := none }, ["c".toList]) := by decide
example : arrayFromFile (toFile [] [1, 2] true (some ["a".toList, "b c".toList]) false ["5".toList, "-inf".toList] [true, false])
    = some (([1, 2], ["5".toList, "-inf".toList]), []) := by decide

/-- **consistency the other way round**: the generic array reader REFUSES a current-format Spectrum file (the flag word is not
    an integer) instead of misreading it. -/
theorem C14_array_reader_rejects_new_format (fs : Spec) (comments : List Str) (h : WellFormed fs)
    (hc : ∀ c ∈ comments, Clean c) :
    arrayFromFile (toFile comments fs.shape fs.folded fs.popIds true fs.data fs.mask) = none := by
  have hlab : ∀ l, fs.popIds = some l → ∀ x ∈ l, Clean x := fun l hl x hx => ((h.labels l hl).2 x hx).2
  have hclean : ∀ l ∈ toFileLines comments fs.shape fs.folded fs.popIds true fs.data fs.mask, Clean l := by
    intro l hl
    simp only [toFileLines, if_true, List.mem_append, List.mem_map, List.mem_cons, List.mem_nil_iff, or_false] at hl
    rcases hl with (⟨c, hcm, rfl⟩ | rfl | rfl) | rfl
    · exact clean_commentLine (hc c hcm)
    · exact clean_headerLine _ _ _ _ hlab
    · exact clean_join _ (fun t ht => clean_of_noWs (h.toks t ht).2)
    · exact clean_maskLine _
  rw [C14_writer_lines, C14_array_reader_translated]
  unfold arrayFromFileSpec
  rw [lines_of_text _ hclean]
  simp only [toFileLines, if_true, List.map_append, List.map_cons, List.map_nil, List.append_assoc, List.cons_append,
    List.nil_append]
  have hhead : ∀ l, [term (headerLine fs.shape fs.folded fs.popIds true), term (joinWith SP fs.data),
      term (joinWith SP (fs.mask.map fmtD))].head? = some l → startsHash l = false := by
    intro l hl
    simp only [List.head?_cons, Option.some.injEq] at hl
    subst hl
    unfold term headerLine
    rw [List.append_assoc]
    exact startsHash_dims _ h.shape_ne _
  obtain ⟨htw, hdw⟩ := takeWhile_comments comments _ hhead
  rw [htw, hdw]
  simp only [lineAt, List.drop_zero, List.headD_cons, term, splitWs_header, mapM_parseInt_flag]

/-- **which file is opened how** (`if fname.endswith('.gz'): gzip.open(fname, mode) else: open(fname, mode)`, generated for
    writer and reader): for EVERY file name the reader picks the same transport as the writer (gzip exactly for the names
    ending in `.gz`), both in text mode, the writer writing and the reader reading. -/
theorem C14_open_dispatch (fname : Str) :
    (toFileOpen fname).1 = (fromFileOpen fname).1
      ∧ ((toFileOpen fname).1 = "gzip.open" ↔ endsWith ['.', 'g', 'z'] fname = true)
      ∧ textMode (toFileOpen fname) = true ∧ textMode (fromFileOpen fname) = true
      ∧ (toFileOpen fname).2.head? = some 'w' ∧ (fromFileOpen fname).2.head? = some 'r' := by
  unfold toFileOpen fromFileOpen
  by_cases h : endsWith ['.', 'g', 'z'] fname = true
  · rw [if_pos h, if_pos h]
    exact ⟨rfl, ⟨fun _ => h, fun _ => rfl⟩, by decide, by decide, by decide, by decide⟩
  · rw [if_neg h, if_neg h]
    exact ⟨rfl, ⟨fun e => absurd e (by decide), fun e => absurd e h⟩, by decide, by decide, by decide, by decide⟩

/-- both cases of the dispatch occur -/
example : (toFileOpen "a.fs.gz".toList).1 = "gzip.open" ∧ (toFileOpen "a.gz.fs".toList).1 = "open" := by decide

/-- **the written precision is the requested one.**  The `fmt=` argument of the `numpy.savetxt` call in `to_file`
    (`'%%.%ig' % precision`) and the format argument of `data.tofile` in `array_to_file`, translated with Python's
    %-formatting applied symbolically, are `'%.<p>g'` with the REQUESTED precision p — for every p (in particular every
    p ≥ 16, the property's range, and every p ≥ 17, where the round trip is exact): nothing caps, lowers or replaces it. -/
theorem C14_precision_format (p : Nat) :
    toFileFmt p = gFormat p ∧ arrayToFileFmt p = gFormat p
      ∧ precisionOf (toFileFmt p) = some p ∧ precisionOf (arrayToFileFmt p) = some p := by
  have h1 : toFileFmt p = gFormat p := by simp [toFileFmt, gFormat]
  have h2 : arrayToFileFmt p = gFormat p := by simp [arrayToFileFmt, gFormat]
  exact ⟨h1, h2, by rw [h1]; exact precisionOf_gFormat p, by rw [h2]; exact precisionOf_gFormat p⟩

/-- the default precision is 16 (the lower end of the property's range) in both writers -/
theorem C14_precision_default :
    toFileDefaults.lookup "precision" = some "16" ∧ arrayToFileDefaults.lookup "precision" = some "16" := by
  decide

/-- **same values to the written precision** (to_file → from_file), proved FROM the explicit contract on number formatting
    (`FmtContract`: parse (format p x) = round_p x, round_p idempotent, round_p = id for p ≥ 17, formatted entries are
    whitespace-free tokens), where "format p" is C's `printf` applied to the format string `'%.<p>g'` (`fmtS (gFormat p)`).
    For every spectrum of floats `vals` (≥ 1 axis, any mask, folded or not, labels), every REQUESTED precision p: the file
    `to_file(precision=p)` writes — entries formatted with the GENERATED format string `toFileFmt p` — reads back to a spectrum
    `g` with the same shape, mask (+ corners), folding and labels whose entries PARSE to `round_p` of the values written;
    writing these again and reading again changes nothing; and they are exactly the values written when p ≥ 17. -/
theorem C14_values_to_precision {F : Type} {fmtS : Str → F → Str} {parse : Str → Option F} {rnd : Nat → F → F}
    (fc : FmtContract (fun p => fmtS (gFormat p)) parse rnd) (p : Nat) (vals : List F) (shape : List Nat) (mask : List Bool)
    (folded : Bool) (popIds : Option (List Str)) (comments : List Str) (mc : Bool)
    (hs : shape ≠ []) (hlen : vals.length = prodL shape) (hm : mask.length = vals.length)
    (hl : ∀ l, popIds = some l → l.length = shape.length ∧ ∀ x ∈ l, QUOTE ∉ x ∧ Clean x)
    (hc : ∀ c ∈ comments, Clean c) (hnz : mc = true → vals ≠ []) :
    ∃ g : Spec, fromFile mc (toFile comments shape folded popIds true (vals.map (fmtS (toFileFmt p))) mask)
          = some (g, comments.map strip)
      ∧ g.shape = shape ∧ g.folded = folded ∧ g.popIds = popIds
      ∧ g.mask = (if mc then maskCorners mask else mask)
      ∧ g.data.mapM parse = some (vals.map (rnd p))
      ∧ ((vals.map (rnd p)).map (fmtS (toFileFmt p))).mapM parse = some (vals.map (rnd p))
      ∧ (17 ≤ p → g.data.mapM parse = some vals) := by
  rw [(C14_precision_format p).1]
  have hw : WellFormed { shape := shape, data := vals.map (fmtS (gFormat p)), mask := mask, folded := folded, popIds := popIds,
                         extrapX := none } :=
    { shape_ne := hs, data_len := by simpa using hlen, mask_len := by simpa using hm, toks := fc.toks p vals, labels := hl }
  have hrt := C14_roundtrip { shape := shape, data := vals.map (fmtS (gFormat p)), mask := mask, folded := folded,
                              popIds := popIds, extrapX := none } comments mc hw hc (by simpa using hnz)
  dsimp only at hrt
  refine ⟨_, hrt, rfl, rfl, rfl, rfl, fc.parse_row p vals, fc.stable_row p vals, ?_⟩
  intro hp
  have := fc.parse_row p vals
  rw [fc.exact_row p hp vals] at this
  exact this

/-- the contract is satisfiable (integers, no rounding) — and the theorem applied to it -/
example : FmtContract (F := Nat) (fun _ n => fmtI n) parseInt (fun _ n => n) := fmtContract_nat
example : ∃ g : Spec, fromFile true (toFile [] [1, 3] true none true ([7, 0, 12].map fmtI) [false, true, false]) = some (g, [])
    ∧ g.data.mapM parseInt = some [7, 0, 12] := by
  obtain ⟨g, h1, _, _, _, _, h2, _, _⟩ := C14_values_to_precision (fmtS := fun _ n => fmtI n) fmtContract_nat 16 [7, 0, 12] [1, 3]
    [false, true, false] true none [] true (by decide) (by decide) (by decide) (by intro l hl; cases hl) (by intro c hc; cases hc)
    (by decide)
  exact ⟨g, h1, h2⟩

/-- **same values to the written precision**, generic array writer / reader and (by `C14_old_format_is_array_format`) the
    pre-1.3 Spectrum format read by either reader: shape and comments come back, the entries (formatted with the GENERATED
    `arrayToFileFmt p`) parse to `round_p` of the values written, are stable under a second write/read, and are the values
    written when p ≥ 17. -/
theorem C14_array_values_to_precision {F : Type} {fmtS : Str → F → Str} {parse : Str → Option F} {rnd : Nat → F → F}
    (fc : FmtContract (fun p => fmtS (gFormat p)) parse rnd) (p : Nat) (vals : List F) (shape : List Nat) (comments : List Str)
    (hs : shape ≠ []) (hlen : vals.length = prodL shape) (hc : ∀ c ∈ comments, Clean c) :
    ∃ toks : List Str, arrayFromFile (arrayToFile comments shape (vals.map (fmtS (arrayToFileFmt p))))
          = some ((shape, toks), comments.map strip)
      ∧ (∀ mc, (mc = true → vals ≠ []) →
            ∃ g : Spec, fromFile mc (arrayToFile comments shape (vals.map (fmtS (arrayToFileFmt p)))) = some (g, comments.map strip)
              ∧ g.shape = shape ∧ g.data = toks)
      ∧ toks.mapM parse = some (vals.map (rnd p))
      ∧ ((vals.map (rnd p)).map (fmtS (arrayToFileFmt p))).mapM parse = some (vals.map (rnd p))
      ∧ (17 ≤ p → toks.mapM parse = some vals) := by
  rw [(C14_precision_format p).2.1]
  have hd : (vals.map (fmtS (gFormat p))).length = prodL shape := by simpa using hlen
  refine ⟨vals.map (fmtS (gFormat p)), C14_array_rw shape _ comments hs hd (fc.toks p vals) hc, ?_, fc.parse_row p vals,
    fc.stable_row p vals, ?_⟩
  · intro mc hnz
    exact ⟨_, C14_cross_array_to_spectrum shape _ comments mc hs hd (fc.toks p vals) hc (by simpa using hnz), rfl, rfl⟩
  · intro hp
    have := fc.parse_row p vals
    rw [fc.exact_row p hp vals] at this
    exact this

/-- **the concrete `round_p`: each rounding is idempotent.**  In the exact rational model of `'%.{p}g'` (`roundSig p`: nearest
    decimal with p significant digits, ties to even) and of `strtod` (`roundBin`: nearest double, 53 bits, ties to even,
    gradual underflow), rounding twice is rounding once — for every p ≥ 1 and every rational x; and the results have at most p
    significant digits / are doubles. -/
theorem C14_round_idempotent (p : Nat) (hp : 1 ≤ p) (x : Rat) :
    roundSig p (roundSig p x) = roundSig p x ∧ roundBin (roundBin x) = roundBin x
      ∧ DecimalDigits p (roundSig p x) ∧ IsDouble (roundBin x) ∧ IsDouble (rndModel p x) :=
  ⟨roundSig_idem p hp x, roundBin_idem x, roundSig_digits p hp x, roundBin_isDouble x, rndModel_isDouble p x⟩

/-- **the concrete `round_p` is the identity on what a file with p digits can hold**: a value with at most p significant
    decimal digits is not changed by `roundSig p` (nor by any larger precision), a double is not changed by `roundBin`, and a
    double with at most p significant decimal digits comes back from the file as itself. -/
theorem C14_round_fixed (p q : Nat) (hpq : p ≤ q) (x : Rat) (hx : DecimalDigits p x) :
    roundSig p x = x ∧ roundSig q x = x ∧ (IsDouble x → rndModel q x = x) :=
  ⟨roundSig_fixed p x hx, roundSig_fixed q x (decimalDigits_mono p q hpq x hx),
   fun hd => rndModel_fixed q x (decimalDigits_mono p q hpq x hx) hd⟩

/-- non-vacuity: 0.5, 1234.5 and 2^-1074 · 3 (a denormal) are doubles; 1234.5 has 5 significant decimal digits -/
example : DecimalDigits 5 (2469 / 2) ∧ IsDouble (2469 / 2) ∧ IsDouble (3 * (2 : Rat) ^ (-1074 : Int)) :=
  ⟨⟨12345, -1, by norm_num, by norm_num, by intro m hm; cases hm⟩,
   ⟨2469, -1, by norm_num, by norm_num, by intro m hm; cases hm; norm_num⟩,
   ⟨3, -1074, by norm_num, by norm_num, by intro m hm; cases hm; norm_num⟩⟩

/-- **17 significant digits identify a double** (the field `exact17` of the contract, PROVED for the concrete model): for
    every p ≥ 17 and every finite double x — normal or denormal, either sign, zero — writing with `'%.{p}g'` and reading
    with `strtod`, both correctly rounding, returns x; hence the composed rounding is idempotent for p ≥ 17. -/
theorem C14_round_exact17 (p : Nat) (hp : 17 ≤ p) (x : Rat) (hx : IsDouble x) :
    rndModel p x = x ∧ rndModel p (rndModel p x) = rndModel p x := by
  have h := rndModel_exact17 p hp x hx
  exact ⟨h, by rw [h, h]⟩

/-- **same values to the written precision, from what is assumed of the C library only.**  If `printf('%.{p}g')` / `strtod`
    produce tokens and round correctly (`PrintfCorrect`: parse (format p x) = `rndModel p x` — nothing else), then for every
    spectrum of finite doubles and every requested precision p the file `to_file(precision=p)` writes reads back with the
    same shape, mask (+ corners), folding and labels, entries equal to `rndModel p` of the values written — each within half
    a unit of the p-th significant digit and itself a double — and EXACTLY the values written for p ≥ 17: no longer an
    assumption but a consequence of `C14_round_exact17`. -/
theorem C14_values_from_printf {fmtS : Str → Dbl → Str} {parse : Str → Option Dbl}
    (hc : PrintfCorrect (fun p => fmtS (gFormat p)) parse) (p : Nat) (vals : List Dbl) (shape : List Nat) (mask : List Bool)
    (folded : Bool) (popIds : Option (List Str)) (comments : List Str) (mc : Bool)
    (hs : shape ≠ []) (hlen : vals.length = prodL shape) (hm : mask.length = vals.length)
    (hl : ∀ l, popIds = some l → l.length = shape.length ∧ ∀ x ∈ l, QUOTE ∉ x ∧ Clean x)
    (hcm : ∀ c ∈ comments, Clean c) (hnz : mc = true → vals ≠ []) :
    ∃ g : Spec, fromFile mc (toFile comments shape folded popIds true (vals.map (fmtS (toFileFmt p))) mask)
          = some (g, comments.map strip)
      ∧ g.shape = shape ∧ g.folded = folded ∧ g.popIds = popIds
      ∧ g.mask = (if mc then maskCorners mask else mask)
      ∧ g.data.mapM parse = some (vals.map (rndD p))
      ∧ (17 ≤ p → g.data.mapM parse = some vals) := by
  have fc := hc.core
  rw [(C14_precision_format p).1]
  have hw : WellFormed { shape := shape, data := vals.map (fmtS (gFormat p)), mask := mask, folded := folded, popIds := popIds,
                         extrapX := none } :=
    { shape_ne := hs, data_len := by simpa using hlen, mask_len := by simpa using hm, toks := fc.toks p vals, labels := hl }
  have hrt := C14_roundtrip { shape := shape, data := vals.map (fmtS (gFormat p)), mask := mask, folded := folded,
                              popIds := popIds, extrapX := none } comments mc hw hcm (by simpa using hnz)
  dsimp only at hrt
  refine ⟨_, hrt, rfl, rfl, rfl, rfl, fc.parse_row p vals, ?_⟩
  intro hp
  have := fc.parse_row p vals
  have he : vals.map (rndD p) = vals := by
    induction vals with
    | nil => rfl
    | cons x xs ih => simp [rndD_exact17 p hp x, List.map_congr_left (fun y _ => rndD_exact17 p hp y)]
  rw [he] at this
  exact this

/-- the hypothesis `PrintfCorrect` is satisfiable -/
example : ∃ (fmt : Nat → Dbl → Str) (parse : Str → Option Dbl), PrintfCorrect fmt parse := printfCorrect_exists

/-- **pickle.**  The tuple `Spectrum_pickler` returns, fed to `Spectrum_unpickler` (both generated from the source; the
    constructor call bound — positional arguments by POSITION, keywords by name, the rest from the defaults — against the
    signature of the translated `Spectrum.__new__`), rebuilds the same object: data, shape, mask, folded flag, labels and
    `extrap_x` — in particular the unpickler does NOT re-mask the corners and needs no folding check.  Holds for every spectrum
    whose mask and labels fit its shape (no condition on the entries). -/
theorem C14_pickle (fs : Spec) (hd : fs.data.length = prodL fs.shape) (hm : fs.mask.length = fs.data.length)
    (hp : ∀ l, fs.popIds = some l → l.length = fs.shape.length) :
    unpickle (reduceArgs fs) = some fs := by
  obtain ⟨shape, data, mask, folded, popIds, extrapX⟩ := fs
  simp only at hd hm hp
  have hz := zipWith_or_false_right' (prodL shape) mask (hm.trans hd)
  have hpp : ctorPopIds (labelsVal popIds) none shape.length = some popIds := by
    cases popIds with
    | none => rfl
    | some l => simp [ctorPopIds, labelsVal, hp l rfl]
  show (unpickleObj (reduceArgs _)).bind Obj.toSpec = _
  simp only [unpickleObj, reduceArgs, getData, getMask, getFolded, getPopIds, getExtrapX]
  have := C14_construct_translated (.arr shape data) (.marr mask) (.bool folded) (labelsVal popIds) (numVal extrapX)
    false false true true NANTOK
  unfold newSpec at this
  rw [show (['n', 'a', 'n'] : Str) = NANTOK from rfl, this]
  simp [construct, baseOf, hd, ctorMask, hm, ownMaskOf, hz, ctorFolded, hpp, ctorExtrap, asNum_numVal, ctorCorners]

/-- non-vacuity: unmasked corners, a masked interior entry, folded, labels, `extrap_x` set -/
example : unpickle (reduceArgs { shape := [2, 2], data := ["1".toList, "2".toList, "3".toList, "4".toList],
                                 mask := [false, true, false, false], folded := true,
                                 popIds := some ["a b".toList, "c".toList], extrapX := some "0.01".toList })
    = some { shape := [2, 2], data := ["1".toList, "2".toList, "3".toList, "4".toList],
             mask := [false, true, false, false], folded := true,
             popIds := some ["a b".toList, "c".toList], extrapX := some "0.01".toList } := by decide

/-- **what travels in a pickle, and what does not.**  The model's object has the attributes `objFields` (data, mask,
    fill_value, folded, pop_ids, extrap_x); the reduce tuple carries all of them EXCEPT `fill_value`.  The object the unpickler
    builds from the tuple has: the typed view `fs` again (every attribute the property names, and `extrap_x`), the constructor's
    DEFAULT fill value nan (a fill value changed by hand is not restored — outside the property), and NO warning logged (no
    folding check: `check_folding=False`; no label change). -/
theorem C14_pickle_state (fs : Spec) (hd : fs.data.length = prodL fs.shape) (hm : fs.mask.length = fs.data.length)
    (hp : ∀ l, fs.popIds = some l → l.length = fs.shape.length) :
    (∀ f ∈ reduceFields, f ∈ objFields) ∧ (∀ f ∈ objFields, f ∉ reduceFields → f = "fill_value") ∧
    ∃ o : Obj, unpickleObj (reduceArgs fs) = some o ∧ o.toSpec = some fs
      ∧ o.fillValue = .num NANTOK ∧ o.warnings = [] := by
  refine ⟨by decide, by decide, ?_⟩
  have hpk := C14_pickle fs hd hm hp
  change (unpickleObj (reduceArgs fs)).bind Obj.toSpec = some fs at hpk
  cases ho : unpickleObj (reduceArgs fs) with
  | none => rw [ho] at hpk; cases hpk
  | some o =>
    rw [ho] at hpk
    have hb : baseOf (getData fs) = some (fs.shape, fs.data, none) := by simp [getData, baseOf, hd]
    have hobj := C14_new_object (getData fs) (getMask fs) (getFolded fs) (getPopIds fs) (getExtrapX fs) false false true true
      NANTOK fs.shape fs.data none hb
    have hu : unpickleObj (reduceArgs fs) = spectrumNew (getData fs) (getMask fs) (.bool false) (getFolded fs) (.bool false)
        (.ty "float") (.bool true) (.num NANTOK) (.bool true) (.bool true) (getPopIds fs) (getExtrapX fs) := rfl
    rw [hu, hobj] at ho
    have hfw : ∀ sh d m, foldingWarnings spectrumNew_msg1 spectrumNew_msg2 false sh d m = [] := by
      intro sh d m; simp [foldingWarnings]
    cases h1 : ctorMask (getMask fs) fs.data.length (ownMaskOf none fs.data.length) with
    | none => rw [h1] at ho; cases ho
    | some m =>
      cases h2 : ctorFoldedV (getFolded fs) none with
      | none => rw [h1, h2] at ho; cases ho
      | some fv =>
        cases h3 : truthy (getFolded fs) with
        | none => rw [h1, h2, h3] at ho; cases ho
        | some b =>
          cases h4 : ctorPopV (getPopIds fs) none fs.shape.length spectrumNew_msg3 with
          | none => rw [h1, h2, h3, h4] at ho; cases ho
          | some pv =>
            have hpv2 : pv.2 = [] := by
              unfold ctorPopV at h4
              simp only at h4
              split at h4
              · cases h4; rfl
              · cases hl : pyLen (getPopIds fs) with
                | none => rw [hl] at h4; cases h4
                | some n =>
                  rw [hl] at h4
                  simp only [Option.bind_some] at h4
                  split at h4
                  · cases h4; rfl
                  · cases h4
            rw [h1, h2, h3, h4] at ho
            simp only [Option.bind_some, ctorCorners, Bool.false_eq_true, if_false, Option.map_some, Option.some.injEq] at ho
            subst ho
            exact ⟨_, rfl, hpk, rfl, by simp [hfw, hpv2]⟩

/-- **every pickle protocol, for a protocol-independent reason**: the reduce tuple determines the object.  Under the explicit
    hypothesis `PickleTransport` (the byte stream hands the argument tuple back unchanged, protocols 0–5 — the pickle module and
    numpy's array pickling are outside the model), `loads(dumps(fs, protocol))` = the registered rebuild function applied to
    the registered reducer's tuple = `fs`, whatever the protocol. -/
theorem C14_pickle_any_protocol {Stream : Type} {dump : Nat → List PyVal → Stream} {load : Stream → Option (List PyVal)}
    (pt : PickleTransport dump load) (proto : Nat) (hproto : proto ≤ 5) (fs : Spec)
    (hd : fs.data.length = prodL fs.shape) (hm : fs.mask.length = fs.data.length)
    (hp : ∀ l, fs.popIds = some l → l.length = fs.shape.length) :
    (load (dump proto (reduceArgs fs))).bind unpickle = some fs := by
  rw [pt.args_back proto hproto]
  exact C14_pickle fs hd hm hp

example : (some (reduceArgs { shape := [2], data := ["1".toList, "2".toList], mask := [false, true], folded := true,
                              popIds := some ["a b".toList], extrapX := none })).bind unpickle
    = some { shape := [2], data := ["1".toList, "2".toList], mask := [false, true], folded := true,
             popIds := some ["a b".toList], extrapX := none } :=
  C14_pickle_any_protocol pickleTransport_id 5 (by decide) _ (by decide) (by decide) (by intro l hl; cases hl; decide)

/-- the registration that makes `pickle` use the pair above -/
theorem C14_pickle_registered :
    copyregArgs = ["Spectrum", picklerName, reduceFunc] ∧ reduceFields.length = unpickleParams.length := by
  decide

/-- **gzip / plain transport.**  `to_file` writes `str` objects and `from_file` compares the lines it reads with the `str`
    `'#'`, so both files must be opened in TEXT mode: for `gzip.open` that needs a `t` in the mode string (its default is
    binary), for `open` the absence of `b`.  On the pinned tree this statement is FALSE (`'wb'` / `'rb'`: finding F-14) and
    the obligation is reported as not discharged. -/
theorem C14_gzip_text_mode :
    't' ∈ toFileGzMode ∧ 't' ∈ fromFileGzMode ∧ 'b' ∉ toFilePlainMode ∧ 'b' ∉ fromFilePlainMode
      ∧ 'b' ∉ arrayToFileMode ∧ 'b' ∉ arrayFromFileMode := by
  decide

end DadiVerif
