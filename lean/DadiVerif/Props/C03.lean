import DadiVerif.Lemmas.Bridge
import DadiVerif.Generated.EqSwitch
import DadiVerif.Lemmas.DriverProgram
/-!
# C03 — integration is linear in (density, θ0) and independent of the reference size

All statements are about `sweepFn` / `integrateConst` / `integrateFn` (Model/Integrate.lean) — the same
definitions the driver executes, built from the coefficient formulas, injection increments and time-step rule
*generated from the current source*.  They hold for every number of populations, every grid, every flag
setting, every number of time steps (induction on the step count), both `delj` settings.
-/
namespace DadiVerif
open Gen

/-- one full time step (inject + every non-frozen axis) is linear in (φ, θ0) jointly -/
theorem C03_step_linear (grids : List (Array ℚ)) (fr nm : List Bool) (use : Bool) (eps : ℕ → List ℕ → ℕ → ℚ)
    (pops : List PopParams) (β : Option ℚ) (θ1 θ2 dt a b : ℚ) (φ1 φ2 : List ℕ → ℚ) :
    sweepFn grids fr nm use eps ⟨pops, a * θ1 + b * θ2, β⟩ dt (lin a b φ1 φ2)
      = lin a b (sweepFn grids fr nm use eps ⟨pops, θ1, β⟩ dt φ1) (sweepFn grids fr nm use eps ⟨pops, θ2, β⟩ dt φ2) :=
  sweepFn_linear grids fr nm use eps pops β θ1 θ2 dt a b φ1 φ2

/-- whole constant-parameter integrations are linear in (φ, θ0): any duration, any number of steps -/
theorem C03_integrate_linear_const (grids : List (Array ℚ)) (fr nm : List Bool) (use : Bool) (eps : ℕ → List ℕ → ℕ → ℚ)
    (tf : ℚ) (pops : List PopParams) (β : Option ℚ) (θ1 θ2 T a b : ℚ) :
    ∀ (fuel : ℕ) (t : ℚ) (φ1 φ2 : List ℕ → ℚ),
      integrateConst (sweepFn grids fr nm use eps) tf ⟨pops, a * θ1 + b * θ2, β⟩ T fuel t (lin a b φ1 φ2)
        = lin a b (integrateConst (sweepFn grids fr nm use eps) tf ⟨pops, θ1, β⟩ T fuel t φ1)
                  (integrateConst (sweepFn grids fr nm use eps) tf ⟨pops, θ2, β⟩ T fuel t φ2) := by
  intro fuel
  induction fuel with
  | zero => intros; rfl
  | succ n ih =>
    intro t φ1 φ2
    simp only [integrateConst]
    have hdt : ∀ θ, stepDt tf ⟨pops, θ, β⟩ = stepDt tf ⟨pops, θ1, β⟩ := fun _ => rfl
    by_cases h : t < T
    · simp only [h, if_true, hdt (a * θ1 + b * θ2), hdt θ2]
      rw [sweepFn_linear]; exact ih _ _ _
    · simp only [h, if_false]

/-- …and so are integrations with time-dependent parameters (sizes, migration, selection, θ0 all functions of time) -/
theorem C03_integrate_linear_fn (grids : List (Array ℚ)) (fr nm : List Bool) (use : Bool) (eps : ℕ → List ℕ → ℕ → ℚ)
    (tf : ℚ) (popsf : ℚ → List PopParams) (βf : ℚ → Option ℚ) (θ1f θ2f : ℚ → ℚ) (T a b : ℚ) :
    ∀ (fuel : ℕ) (t : ℚ) (pc : List PopParams) (βc : Option ℚ) (θ1 θ2 : ℚ) (φ1 φ2 : List ℕ → ℚ),
      integrateFn (sweepFn grids fr nm use eps) tf (fun τ => ⟨popsf τ, a * θ1f τ + b * θ2f τ, βf τ⟩) T fuel t
          ⟨pc, a * θ1 + b * θ2, βc⟩ (lin a b φ1 φ2)
        = lin a b
            (integrateFn (sweepFn grids fr nm use eps) tf (fun τ => ⟨popsf τ, θ1f τ, βf τ⟩) T fuel t ⟨pc, θ1, βc⟩ φ1)
            (integrateFn (sweepFn grids fr nm use eps) tf (fun τ => ⟨popsf τ, θ2f τ, βf τ⟩) T fuel t ⟨pc, θ2, βc⟩ φ2) := by
  intro fuel
  induction fuel with
  | zero => intros; rfl
  | succ n ih =>
    intro t pc βc θ1 θ2 φ1 φ2
    simp only [integrateFn]
    have hdt : ∀ θ, stepDt tf ⟨pc, θ, βc⟩ = stepDt tf ⟨pc, θ1, βc⟩ := fun _ => rfl
    by_cases h : t < T
    · simp only [h, if_true, hdt (a * θ1 + b * θ2), hdt θ2]
      rw [sweepFn_linear]; exact ih _ _ _ _ _ _ _
    · simp only [h, if_false]

/-- the time-step rule: re-scaling (ν, m, γ) ↦ (kν, m/k, γ/k) multiplies dt by exactly k -/
theorem C03_dt_homog (tf : ℚ) (P : StepParams) (k : ℚ) (hk : 0 < k) :
    stepDt tf (P.scaled k) = (stepDt tf P).map (k * ·) :=
  stepDt_scaled tf P k hk

/-- …and every driver applies the rule to the right quantities: table of all `_compute_dt` call sites of
    `one_pop…five_pops` (regenerated from Integration.py): population k ↦ (ν_k, [m_kl]_{l≠k}, γ_k, h_k). -/
theorem C03_dt_wiring :
    Py.dtCalls.map (fun c => (c.d, c.ax, c.args))
      = (List.range 5).flatMap (fun d => (List.range (d+1)).map (fun ax =>
          (d+1, ax,
           ["d" ++ (["x", "y", "z", "a", "b"].getD ax ""),
            (if d + 1 == 1 then "nu" else "nu" ++ toString (ax+1)),
            (if d + 1 == 1 then "[0]" else "[" ++ ", ".intercalate (((List.range (d+1)).filter (· ≠ ax)).map
              (fun l => "m" ++ toString (ax+1) ++ toString (l+1))) ++ "]"),
            (if d + 1 == 1 then "gamma" else "gamma" ++ toString (ax+1)),
            (if d + 1 == 1 then "h" else "h" ++ toString (ax+1))])))
    ∧ Py.computeDtShapeOk = true := by
  decide

/-- **the schedule of every driver** (time loops of `one_pop … five_pops`, `_one/_two/_three_pops_const_params` translated
    statement by statement, calls bound by name against the callees' signatures): the loop is `while current_t < T`; the time-dependent
    drivers compute dt inside the loop from the slots (population k ↦ ν_k, [m_kl]_{l≠k}, γ_k, h_k bound to `_compute_dt`'s `nu`, `ms`,
    `gamma`, `h`), the constant ones once before it; `this_dt = min(dt, T − current_t)`; `next_t = current_t + this_dt`; EVERY
    parameter is re-evaluated at `next_t` (at `current_t` before the loop); the injection and every kernel get `this_dt`; the loop
    advances to `next_t` (`current_t += this_dt`); nothing else is in the loop (a `break`, a different loop form or an extra
    statement does not translate). -/
theorem C03_driver_schedule :
    Py.driverPrograms.map (fun P => Prog.schedule (Prog.resolve P)) = Prog.expectedAll.map Prog.schedule := by
  decide +kernel

/-- **…and that schedule is the model's**: the expected program of a d-population driver, executed by the statement semantics
    over `injectFn`/`stepAxisFn`, is `integrateFn` / `integrateConst` of `sweepFn` — the definitions all theorems of this file are
    about — for every d, every environment and every number of steps -/
theorem C03_driver_schedule_sem (grids : List (Array ℚ)) (use : Bool) (eps : ℕ → List ℕ → ℕ → ℚ) (E : Prog.PEnv) (fuel : ℕ)
    (vals0 : Py.Param → ℚ) (φ : List ℕ → ℚ) :
    let d := grids.length
    Prog.run (Prog.semFn grids use eps) E (Prog.expected d false) fuel vals0 φ
        = integrateFn (sweepFn grids (Prog.frList d E) (Prog.nmList d E) use eps) E.tf
            (fun τ => Prog.toStep d (fun p => E.pf p τ)) E.T fuel E.t0 (Prog.toStep d (fun p => E.pf p E.t0)) φ
    ∧ Prog.run (Prog.semFn grids use eps) E (Prog.expected d true) fuel vals0 φ
        = integrateConst (sweepFn grids (Prog.frList d E) (Prog.nmList d E) use eps) E.tf (Prog.toStep d vals0) E.T fuel E.t0 φ := by
  intro d
  exact ⟨by rw [Prog.run_expected_fn, ← Prog.sweepOf_semFn], by rw [Prog.run_expected_const, ← Prog.sweepOf_semFn]⟩

/-- non-vacuity: the translated `five_pops` loop evaluates 5 + 5 + 5 + 20 + 1 parameters, all at `next_t` -/
example : (Py.driverPrograms.map Prog.resolve)[4]?.map (fun R => (R.body.filter
    (fun s => match s with | .eval _ (.tv .next) => true | _ => false)).length) = some 36 := by decide +kernel

/-- one full time step is unchanged when sizes are multiplied by k, migration/selection/θ0 divided by k and dt multiplied by k -/
theorem C03_step_scale (grids : List (Array ℚ)) (fr nm : List Bool) (use : Bool) (eps : ℕ → List ℕ → ℕ → ℚ)
    (P : StepParams) (dt k : ℚ) (hk : 0 < k) (φ : List ℕ → ℚ) :
    sweepFn grids fr nm use eps (P.scaled k) (k * dt) φ = sweepFn grids fr nm use eps P dt φ :=
  sweepFn_scaled grids fr nm use eps P dt k hk φ

/-- whole constant-parameter integrations: (ν,T,m,γ,θ0) ↦ (kν,kT,m/k,γ/k,θ0/k) leaves *every intermediate density* unchanged -/
theorem C03_integrate_scale_const (grids : List (Array ℚ)) (fr nm : List Bool) (use : Bool) (eps : ℕ → List ℕ → ℕ → ℚ)
    (tf : ℚ) (P : StepParams) (T k : ℚ) (hk : 0 < k) (fuel : ℕ) (t : ℚ) (φ : List ℕ → ℚ) :
    integrateConst (sweepFn grids fr nm use eps) tf (P.scaled k) (k * T) fuel (k * t) φ
      = integrateConst (sweepFn grids fr nm use eps) tf P T fuel t φ :=
  integrateConst_scaled _ tf P T k hk (fun dt φ => sweepFn_scaled grids fr nm use eps P dt k hk φ) fuel t φ

/-- …and with time-dependent parameters p'(τ) = scale(p(τ/k)) -/
theorem C03_integrate_scale_fn (grids : List (Array ℚ)) (fr nm : List Bool) (use : Bool) (eps : ℕ → List ℕ → ℕ → ℚ)
    (tf : ℚ) (Pf : ℚ → StepParams) (T k : ℚ) (hk : 0 < k) (fuel : ℕ) (t : ℚ) (Pc : StepParams) (φ : List ℕ → ℚ) :
    integrateFn (sweepFn grids fr nm use eps) tf (fun τ => (Pf (τ / k)).scaled k) (k * T) fuel (k * t) (Pc.scaled k) φ
      = integrateFn (sweepFn grids fr nm use eps) tf Pf T fuel t Pc φ :=
  integrateFn_scaled _ tf Pf T k hk (fun P dt φ => sweepFn_scaled grids fr nm use eps P dt k hk φ) fuel t Pc φ

/-! ### regime switches
The invariance is exact, so every branch taken on the way has to be decided by quantities that do not change with the reference
size.  The switches of the kernels (fallback of Chang–Cooper's `delj`, sign tests of the boundary fluxes) are part of the
generated coefficient definitions, the positivity test of the time-step rule is inside `C03_dt_homog`; those of the equilibrium
constructors (`phi_1D_genic`: exact closed form / large-|γ| asymptote / value at x = 1; `phi_1D`: re-normalised quadrature) are
regenerated by `tools/gen_EqSwitch.py` as functions of the *arguments* of the call, each tested name replaced by the expression
that reaches it. -/

/-- the kernels' switches: the test selecting the closed form of `delj` (and `delj` itself), and the boundary-flux tests, give the
    same answer for (M, V) and (M/k, V/k) -/
theorem C03_kernel_switches_scale (use : Bool) (eps : ℕ → ℚ) (MI VI dx : ℕ → ℚ) (k : ℚ) (hk : 0 < k) (i : ℕ)
    (e m d Mfirst Mlast : ℚ) :
    C.delj_guard e (C.delj_wj (m / k) d) = C.delj_guard e (C.delj_wj m d)
    ∧ deljC use eps (fun i => MI i / k) (fun i => VI i / k) dx i = deljC use eps MI VI dx i
    ∧ Py.pre1D_bcFirstGuard (Mfirst / k) (Mlast / k) = Py.pre1D_bcFirstGuard Mfirst Mlast
    ∧ Py.pre1D_bcLastGuard (Mfirst / k) (Mlast / k) = Py.pre1D_bcLastGuard Mfirst Mlast := by
  have hk0 : k ≠ 0 := ne_of_gt hk
  refine ⟨?_, deljC_scaled use eps MI VI dx k hk0 i, ?_, ?_⟩
  · rw [delj_wj_scaled, delj_guard_scaled _ _ _ hk0]
  · simp only [Py.pre1D_bcFirstGuard, div_le_iff₀ hk, zero_mul]
  · simp only [Py.pre1D_bcLastGuard, ge_iff_le, le_div_iff₀ hk, zero_mul]

/-- non-vacuity: a tiny non-zero drift term takes the closed form (and `delj ≠ 1/2` there), a vanishing one the fallback -/
example : C.delj_guard 2 (C.delj_wj (1 / 10 ^ 9) (1 / 100)) = true ∧ C.delj_guard 2 (C.delj_wj 0 (1 / 100)) = false
    ∧ deljC true (fun _ => 2) (fun _ => 1 / 10 ^ 9) (fun _ => 1) (fun _ => 1 / 100) 0 ≠ 1 / 2 := by
  refine ⟨by norm_num [C.delj_guard, C.delj_wj], by norm_num [C.delj_guard, C.delj_wj], ?_⟩
  norm_num [deljC, C.delj_guard, C.delj_wj, C.delj_quot]

/-- the equilibrium constructors: every scalar test (`genic_switches`, `dom_switches`: in source order), every scalar that enters
    an array formula (`…_formula_args`) and the overall factor are unchanged by (γ, ν, θ0) ↦ (γ/k, kν, θ0/k) -/
theorem C03_equilibrium_switches_scale (gamma nu beta theta0 h k : ℚ) (hk : 0 < k) :
    EqSwitch.genic_switches (gamma / k) (k * nu) beta (theta0 / k) = EqSwitch.genic_switches gamma nu beta theta0
    ∧ EqSwitch.genic_formula_args (gamma / k) (k * nu) beta (theta0 / k) = EqSwitch.genic_formula_args gamma nu beta theta0
    ∧ EqSwitch.genic_prefactor (gamma / k) (k * nu) beta (theta0 / k) = EqSwitch.genic_prefactor gamma nu beta theta0
    ∧ EqSwitch.dom_switches (gamma / k) (k * nu) beta (theta0 / k) h = EqSwitch.dom_switches gamma nu beta theta0 h
    ∧ EqSwitch.dom_formula_args (gamma / k) (k * nu) beta (theta0 / k) h = EqSwitch.dom_formula_args gamma nu beta theta0 h
    ∧ EqSwitch.dom_prefactor (gamma / k) (k * nu) beta (theta0 / k) h = EqSwitch.dom_prefactor gamma nu beta theta0 h := by
  have hk0 : k ≠ 0 := ne_of_gt hk
  have e1 : gamma / k * (k * nu) = gamma * nu := by field_simp
  have e2 : k * nu * (theta0 / k) = nu * theta0 := by field_simp
  have e3 : (gamma / k == 0) = (gamma == 0) := div_beq_zero gamma k hk0
  refine ⟨?_, ?_, ?_, ?_, ?_, ?_⟩
  · simp only [EqSwitch.genic_switches, e1, e3]
  · simp only [EqSwitch.genic_formula_args, e1]
  · simp only [EqSwitch.genic_prefactor, e2]
  · simp only [EqSwitch.dom_switches, e1]
  · simp only [EqSwitch.dom_formula_args, e1]
  · simp only [EqSwitch.dom_prefactor, e2]

/-- non-vacuity / what the switches say at concrete points: ν = 1/100, γ = −400 (the model ν = 1/5, γ = −20 seen from a reference
    size 20 times smaller, effective selection −4) takes the branches of ν = 1/5, γ = −20 although its raw γ is below −300, and not
    those of ν = 1, γ = −400 (effective selection −400): the switches are not constant, and there are formula arguments to speak of -/
example : EqSwitch.genic_switches (-400) (1 / 100) 1 1 = EqSwitch.genic_switches (-20) (1 / 5) 1 1
    ∧ EqSwitch.genic_switches (-400) (1 / 100) 1 1 ≠ EqSwitch.genic_switches (-400) 1 1 1
    ∧ EqSwitch.dom_switches (-400) (1 / 100) 1 1 (1 / 5) ≠ EqSwitch.dom_switches (-400) 1 1 1 (1 / 5)
    ∧ EqSwitch.genic_formula_args (-400) (1 / 100) 1 1 ≠ [] ∧ EqSwitch.dom_formula_args (-10) 40 1 1 (1 / 5) ≠ [] := by
  refine ⟨by norm_num [EqSwitch.genic_switches], by norm_num [EqSwitch.genic_switches], by norm_num [EqSwitch.dom_switches],
    by simp [EqSwitch.genic_formula_args], by simp [EqSwitch.dom_formula_args]⟩

/-! ### from the density to the spectrum
`Spectrum.from_phi` is a linear functional of the density on each of its code paths (`C05_ND_linear`, `C05_direct_linear`,
`C05_inbreeding_linear` in Props/C05.lean prove exactly the hypothesis `hS` below for the semi-analytic, direct and inbreeding
paths, entry by entry; `lin a b φ ψ` is definitionally `fun js => a * φ js + b * ψ js`).  Stated for any such functional so that this
file does not depend on the sampling model. -/

/-- **(φ, θ0) ↦ spectrum entry is linear**: integrate (any duration, any number of steps), then apply a linear sampling functional -/
theorem C03_spectrum_linear (S : (List ℕ → ℚ) → ℚ) (hS : ∀ a b φ ψ, S (lin a b φ ψ) = a * S φ + b * S ψ)
    (grids : List (Array ℚ)) (fr nm : List Bool) (use : Bool) (eps : ℕ → List ℕ → ℕ → ℚ)
    (tf : ℚ) (pops : List PopParams) (β : Option ℚ) (θ1 θ2 T a b : ℚ) (fuel : ℕ) (t : ℚ) (φ1 φ2 : List ℕ → ℚ) :
    S (integrateConst (sweepFn grids fr nm use eps) tf ⟨pops, a * θ1 + b * θ2, β⟩ T fuel t (lin a b φ1 φ2))
      = a * S (integrateConst (sweepFn grids fr nm use eps) tf ⟨pops, θ1, β⟩ T fuel t φ1)
        + b * S (integrateConst (sweepFn grids fr nm use eps) tf ⟨pops, θ2, β⟩ T fuel t φ2) := by
  rw [C03_integrate_linear_const, hS]

/-- the same with time-dependent parameters -/
theorem C03_spectrum_linear_fn (S : (List ℕ → ℚ) → ℚ) (hS : ∀ a b φ ψ, S (lin a b φ ψ) = a * S φ + b * S ψ)
    (grids : List (Array ℚ)) (fr nm : List Bool) (use : Bool) (eps : ℕ → List ℕ → ℕ → ℚ)
    (tf : ℚ) (popsf : ℚ → List PopParams) (βf : ℚ → Option ℚ) (θ1f θ2f : ℚ → ℚ) (T a b : ℚ)
    (fuel : ℕ) (t : ℚ) (pc : List PopParams) (βc : Option ℚ) (θ1 θ2 : ℚ) (φ1 φ2 : List ℕ → ℚ) :
    S (integrateFn (sweepFn grids fr nm use eps) tf (fun τ => ⟨popsf τ, a * θ1f τ + b * θ2f τ, βf τ⟩) T fuel t
          ⟨pc, a * θ1 + b * θ2, βc⟩ (lin a b φ1 φ2))
      = a * S (integrateFn (sweepFn grids fr nm use eps) tf (fun τ => ⟨popsf τ, θ1f τ, βf τ⟩) T fuel t ⟨pc, θ1, βc⟩ φ1)
        + b * S (integrateFn (sweepFn grids fr nm use eps) tf (fun τ => ⟨popsf τ, θ2f τ, βf τ⟩) T fuel t ⟨pc, θ2, βc⟩ φ2) := by
  rw [C03_integrate_linear_fn, hS]

/-- **the spectrum is invariant under the reference-size re-scaling** (ν,T,m,γ,θ0) ↦ (kν,kT,m/k,γ/k,θ0/k): whatever is computed
    from the final density (any `S`, linear or not: sampling, folding, projection, likelihood) is unchanged -/
theorem C03_spectrum_scale {α : Type} (S : (List ℕ → ℚ) → α) (grids : List (Array ℚ)) (fr nm : List Bool) (use : Bool)
    (eps : ℕ → List ℕ → ℕ → ℚ) (tf : ℚ) (P : StepParams) (T k : ℚ) (hk : 0 < k) (fuel : ℕ) (t : ℚ) (φ : List ℕ → ℚ) :
    S (integrateConst (sweepFn grids fr nm use eps) tf (P.scaled k) (k * T) fuel (k * t) φ)
      = S (integrateConst (sweepFn grids fr nm use eps) tf P T fuel t φ) := by
  rw [C03_integrate_scale_const _ _ _ _ _ _ _ _ _ hk]

/-- non-vacuity of `hS`: evaluation at an index is such a functional -/
example (idx : List ℕ) : ∀ a b φ ψ, (fun f : List ℕ → ℚ => f idx) (lin a b φ ψ) = a * (fun f : List ℕ → ℚ => f idx) φ + b * (fun f : List ℕ → ℚ => f idx) ψ :=
  fun _ _ _ _ => rfl

/-! ### the arrays the driver actually computes
The statements above are about the functional form `sweepFn`.  The executable model tabulates after every injection and every
axis (`sweep`, `integrateConst (sweep …)`): these theorems show that every in-box entry of the tabulated result is the value of
the functional form, for any dimension and any number of steps — so linearity and re-scaling invariance hold entry by entry for
what `Driver/Integ.lean` runs and the correspondence harness compares with the implementation. -/

/-- one full time step: tabulated = functional on every valid index -/
theorem C03_tabulated_step (grids : List (Array ℚ)) (fr nm : List Bool) (use : Bool) (eps : ℕ → ND) (P : StepParams) (dt : ℚ) (T : ND)
    (hfit : GridsFit grids T.shape) (idx : List ℕ) (hidx : InBox T.shape idx) :
    (sweep grids fr nm use eps P dt T).get idx
      = sweepFn grids fr nm use (fun k i j => (eps k).get (i.insertIdx k j)) P dt T.get idx :=
  sweep_get grids fr nm use eps P dt T hfit idx hidx

/-- whole integrations, constant and time-dependent parameters: tabulated = functional on every valid index -/
theorem C03_tabulated_integrate (grids : List (Array ℚ)) (fr nm : List Bool) (use : Bool) (eps : ℕ → ND) (tf : ℚ)
    (P : StepParams) (Pf : ℚ → StepParams) (Tend : ℚ) (fuel : ℕ) (t : ℚ) (T : ND) (hfit : GridsFit grids T.shape)
    (idx : List ℕ) (hidx : InBox T.shape idx) :
    (integrateConst (sweep grids fr nm use eps) tf P Tend fuel t T).get idx
        = integrateConst (sweepFn grids fr nm use (fun k i j => (eps k).get (i.insertIdx k j))) tf P Tend fuel t T.get idx
    ∧ (integrateFn (sweep grids fr nm use eps) tf Pf Tend fuel t P T).get idx
        = integrateFn (sweepFn grids fr nm use (fun k i j => (eps k).get (i.insertIdx k j))) tf Pf Tend fuel t P T.get idx :=
  ⟨integrateConst_get grids fr nm use eps tf P Tend T.shape hfit fuel t T T.get rfl (fun _ _ => rfl) idx hidx,
   integrateFn_get grids fr nm use eps tf Pf Tend T.shape hfit fuel t P T T.get rfl (fun _ _ => rfl) idx hidx⟩

/-- corollary: the tabulated integration itself is invariant under the reference-size re-scaling, entry by entry -/
theorem C03_tabulated_integrate_scale (grids : List (Array ℚ)) (fr nm : List Bool) (use : Bool) (eps : ℕ → ND) (tf : ℚ)
    (P : StepParams) (Tend k : ℚ) (hk : 0 < k) (fuel : ℕ) (t : ℚ) (T : ND) (hfit : GridsFit grids T.shape)
    (idx : List ℕ) (hidx : InBox T.shape idx) :
    (integrateConst (sweep grids fr nm use eps) tf (P.scaled k) (k * Tend) fuel (k * t) T).get idx
      = (integrateConst (sweep grids fr nm use eps) tf P Tend fuel t T).get idx := by
  rw [(C03_tabulated_integrate grids fr nm use eps tf (P.scaled k) (fun _ => P) (k * Tend) fuel (k * t) T hfit idx hidx).1,
      (C03_tabulated_integrate grids fr nm use eps tf P (fun _ => P) Tend fuel t T hfit idx hidx).1,
      C03_integrate_scale_const]
  exact hk

/-- non-vacuity: a 3×3 array on two 3-point grids fits, and [1,2] is a valid index -/
example : GridsFit [#[0, 1/2, 1], #[0, 1/2, 1]] [3, 3] ∧ InBox [3, 3] [1, 2] := by
  refine ⟨⟨rfl, ?_⟩, by simp [InBox]⟩
  intro k hk
  have : k = 0 ∨ k = 1 := by simp at hk; omega
  rcases this with rfl | rfl <;> rfl

/-- non-vacuity of the scaling hypotheses and a concrete instance of `C03_dt_homog` -/
example : stepDt (1/1000) (StepParams.scaled ⟨[⟨2, -3, 1/5, [1]⟩, ⟨1/2, 0, 1/2, [3]⟩], 1, none⟩ 4)
    = (stepDt (1/1000) ⟨[⟨2, -3, 1/5, [1]⟩, ⟨1/2, 0, 1/2, [3]⟩], 1, none⟩).map (4 * ·) :=
  C03_dt_homog _ _ 4 (by norm_num)

end DadiVerif
