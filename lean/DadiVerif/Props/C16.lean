import DadiVerif.Lemmas.DemesConv
import DadiVerif.Generated.Admix
/-!
# C16 — demes graphs vs native dadi models: units, wiring, order, export

What is proved here is the *conversion layer* between a demes graph and a dadi program, about the definitions regenerated
from `dadi/Demes/Demes.py`, `dadi/Demes/__init__.py`, `dadi/PhiManip.py`, `dadi/Integration.py` (`Generated/Demes.lean`) and
their composition in `Model/DemesConv.lean` (the definitions the driver executes):

* **units** — the parameters handed to dadi (`T`, `nu(t)`, `M`) are unchanged when sizes and times of the graph are multiplied
  by `c` and rates divided by `c` with the reference size scaled along (the default `Ne` = root size does that), for constant,
  linear and exponential epochs including epochs cut by an interval boundary, for ARBITRARY `exp`/`log`/power functions;
  another `generation_time` / time unit is the same graph after `toGenerations`; an explicit other reference size `Ne/c`
  gives the C03 re-scaling (`T·c`, `nu·c`, `M/c`), which is a symmetry of the spectrum only if the equilibrium start uses the
  root's relative size (`C16_root_size`).
* **wiring** — `_integrate_phi` feeds population k with `nu[k]`, `gamma[k]`, `h[k]`, `frozen[k]`, `M[k,j]` as `m_{k+1,j+1}`;
  `_split_phi` copies the parent; `_admix_new_pop_phi` / `_admix_phi` pass the proportion of population j in slot j.
* **order** — the final `reorder_pops` puts the populations in `sampled_demes` order.
* **export** — every primitive logs exactly one record of the right kind with its own indices and proportions; end times
  are sums of younger durations; the `Nref` / `generation_time` scalings invert the import conversion.

Not modelled (validated by the harness only): the `demes` library itself, `DemesUtil.slice`, the numerical integration.
The theorems `C16_wiring`, `C16_export_events`, `C16_root_size` are obligations on the GENERATED tables: they fail on a
tree whose source wires a population wrongly / logs a wrong or no record / starts from the wrong equilibrium.
-/
namespace DadiVerif
open DemesConv Gen.Demes

/-! ## units -/

/-- integration time is scale-free -/
theorem C16_units_T {c : ℚ} (hc : c ≠ 0) (i0 i1 : ETime) (Ne : ℚ) :
    intTime (tscale c i0) (tscale c i1) (c * Ne) = intTime i0 i1 Ne := by
  unfold intTime
  rw [isInf_tscale, tval_tscale, tval_tscale]
  split_ifs
  · rfl
  · rw [← mul_sub, div_div, div_div, mul_comm (2 : ℚ) (c * Ne), mul_assoc, mul_div_mul_left _ _ hc, mul_comm Ne 2]

/-- scaled migration rate is scale-free (rates are divided by `c`) -/
theorem C16_units_M {c : ℚ} (hc : c ≠ 0) (Ne m : ℚ) : migEntry (c * Ne) (m / c) = migEntry Ne m := by
  unfold migEntry
  field_simp

/-- the start/end sizes `_sizes_at_time` finds on an interval scale with the graph (any size function, interval cutting the
    epoch or not), whatever `exp` and `log` are -/
theorem C16_units_sizes (ex lg : ℚ → ℚ) (pw : ℚ → ℚ → ℚ) {c : ℚ} (hc : c ≠ 0) (e : Epoch) (i0 i1 : ETime) :
    (epochSizes (e.scale c) (tscale c i0) (tscale c i1)).map (evalPair ex lg pw)
      = (epochSizes e i0 i1).map (fun p => (c * (evalPair ex lg pw p).1, c * (evalPair ex lg pw p).2)) := by
  have hs : (e.scale c).span = c * e.span := by
    simp [Epoch.span, Epoch.scale, tval_tscale, mul_sub]
  unfold epochSizes
  rw [hs]
  exact sizesAt_scale ex lg pw hc e.fn e.ss e.es e.st e.et e.span i0 i1

/-- **Unit / scale invariance of the size functions**: a deme's relative size at every dadi time `t` of every integration
    interval is the same for the scaled graph with the scaled reference size — constant, linear and exponential epochs,
    for arbitrary `exp`, `log` and power functions. -/
theorem C16_units_nu (ex lg : ℚ → ℚ) (pw : ℚ → ℚ → ℚ) {c : ℚ} (hc : c ≠ 0) (e : Epoch) (allConst : Bool)
    (i0 i1 : ETime) (Ne t : ℚ) :
    (demeNu (e.scale c) allConst (tscale c i0) (tscale c i1) (c * Ne) t).map (Sym.eval ex lg pw)
      = (demeNu e allConst i0 i1 Ne t).map (Sym.eval ex lg pw) := by
  have hsz := C16_units_sizes ex lg pw hc e i0 i1
  unfold demeNu
  rw [C16_units_T hc]
  have hfn : (e.scale c).fn = e.fn := rfl
  rcases h0 : epochSizes e i0 i1 with _ | ⟨a, b⟩
  · rw [h0] at hsz
    rcases h1 : epochSizes (e.scale c) (tscale c i0) (tscale c i1) with _ | p
    · rfl
    · rw [h1] at hsz; simp at hsz
  · rw [h0] at hsz
    rcases h1 : epochSizes (e.scale c) (tscale c i0) (tscale c i1) with _ | ⟨a', b'⟩
    · rw [h1] at hsz; simp at hsz
    · rw [h1] at hsz
      simp only [Option.map_some, evalPair, Option.some.injEq, Prod.mk.injEq] at hsz
      obtain ⟨ha, hb⟩ := hsz
      have hdiv : ∀ x : ℚ, c * x / (c * Ne) = x / Ne := fun x => mul_div_mul_left _ _ hc
      simp only [hfn]
      cases allConst <;> cases e.fn <;>
        simp [nuFn, nuConstList, nuConstFn, nuLinear, nuExp, Sym.eval, ha, hb, hdiv, mul_div_mul_left _ _ hc, ← mul_sub] <;>
        first | ring1 | (field_simp; try ring1)

/-- the same for a whole graph statement: `T`, `M` and every `nu` agree, so the dadi program is identical -/
theorem C16_units {c : ℚ} (hc : c ≠ 0) (ex lg : ℚ → ℚ) (pw : ℚ → ℚ → ℚ) (e : Epoch) (allConst : Bool) (i0 i1 : ETime) (Ne m t : ℚ) :
    intTime (tscale c i0) (tscale c i1) (c * Ne) = intTime i0 i1 Ne
    ∧ migEntry (c * Ne) (m / c) = migEntry Ne m
    ∧ (demeNu (e.scale c) allConst (tscale c i0) (tscale c i1) (c * Ne) t).map (Sym.eval ex lg pw)
        = (demeNu e allConst i0 i1 Ne t).map (Sym.eval ex lg pw) :=
  ⟨C16_units_T hc i0 i1 Ne, C16_units_M hc Ne m, C16_units_nu ex lg pw hc e allConst i0 i1 Ne t⟩

/-- non-vacuity: an exponential epoch cut in the middle really produces an `exp(log(·)·)` term, and a number under any
    interpretation -/
example : (epochSizes { fn := SizeFn.exponential, ss := 100, es := 400, st := some 50, et := some 10 } (some 30) (some 10)).isSome = true := by
  decide

/-- other time units: a sample time given in years with generation time `g` is the time in generations -/
theorem C16_units_generation_time {g : ℚ} (hg : g ≠ 0) (t : ℚ) : toGenerations (g * t) g = t := by
  unfold toGenerations
  field_simp

/-- explicit other reference size `Ne / c`: the parameters are the C03 re-scaling of the default ones
    (`T ↦ c·T`, `nu ↦ c·nu`, `M ↦ M / c`) -/
theorem C16_units_Ne {c : ℚ} (hc : c ≠ 0) (ex lg : ℚ → ℚ) (pw : ℚ → ℚ → ℚ) (i0 i1 : ETime) (Ne m : ℚ) (hNe : Ne ≠ 0)
    (N0 NF : Sym) (T t : ℚ) :
    intTime i0 i1 (Ne / c) = c * intTime i0 i1 Ne
    ∧ migEntry (Ne / c) m = migEntry Ne m / c
    ∧ (nuConstList N0 (Ne / c)).eval ex lg pw = c * (nuConstList N0 Ne).eval ex lg pw
    ∧ (nuLinear N0 NF (Ne / c) T t).eval ex lg pw = c * (nuLinear N0 NF Ne T t).eval ex lg pw
    ∧ (nuExp N0 NF (Ne / c) T t).eval ex lg pw = c * (nuExp N0 NF Ne T t).eval ex lg pw := by
  refine ⟨?_, ?_, ?_, ?_, ?_⟩
  · unfold intTime; split_ifs
    · simp
    · field_simp
  · unfold migEntry; field_simp
  · simp only [nuConstList, Sym.eval]; field_simp
  · simp only [nuLinear, Sym.eval]; field_simp
  · simp only [nuExp, Sym.eval]; field_simp

/-- …which is a symmetry of the spectrum (C03) only when the initial equilibrium is built with the root's relative size
    `N_root / Ne`: `_compute_sfs` must pass `nu=` to `phi_1D` (the infinite root epoch is never integrated). -/
theorem C16_root_size : rootNuPassed = true := by decide

/-! ## slicing (only ancient samples) -/

/-- **`DemesUtil.slice`, epochs of a deme**: the loop of `_shift_deme_time` computes exactly the specification `sliceSpec` — epochs
    older than the slice time are shifted, the epoch containing it ends at 0 with the size given by `_size_at` between its ORIGINAL
    start time (the previous epoch's original end time, or the deme's start) and its original end time, younger epochs are dropped;
    for every number of epochs and every position of the slice time. -/
theorem C16_slice_epochs (t : ℚ) (st : ETime) (eps : List InEpoch) :
    shiftEpochs t st eps = sliceSpec t st eps := by
  induction eps generalizing st with
  | nil => rfl
  | cons e rest ih =>
    unfold shiftEpochs sliceSpec
    by_cases h : e.et ≤ t
    · have h0 : ratMax 0 (e.et - t) = 0 := by
        unfold ratMax; split_ifs with h1
        · linarith
        · rfl
      simp [shiftStep, h0, h]
    · have h1 : ratMax 0 (e.et - t) = e.et - t := by
        unfold ratMax; split_ifs with h2
        · rfl
        · linarith
      have h2 : ¬ (e.et - t = 0) := by intro h3; apply h; linarith
      simp [shiftStep, h1, h, h2, ih]

/-- the size `_size_at` gives the cut epoch at the slice time is the size the import (`_sizes_at_time`) itself assigns to that epoch
    at time `t` on the unsliced graph — constant, exponential and linear, for arbitrary `exp` / `log` -/
theorem C16_slice_size (ex lg : ℚ → ℚ) (pw : ℚ → ℚ → ℚ) (fn : SizeFn) (hfn : fn ≠ SizeFn.other) (t ss es et : ℚ) (st : ETime)
    (ht : et ≠ t) :
    (sliceSizeAt fn t ss es st et).map (Sym.eval ex lg pw)
      = (sizesAt fn ss es st (some et) (tval st - et) st (some t)).map (fun p => p.2.eval ex lg pw) := by
  have h1 : teq st st = true := by cases st <;> simp [teq]
  have h2 : teq (some et) (some t) = false := by simp [teq, ht]
  cases fn <;> simp_all [sliceSizeAt, sizesAt, Sym.eval, tval]

/-- for a linear (or constant) epoch the sliced epoch is the original size function moved by `t`: its value at the shifted time `u`
    (interpolated between the shifted start `s - t` and 0, from `ss` to the size at the slice time) is the original value at `u + t` -/
theorem C16_slice_linear (t ss es s et u : ℚ) (h1 : s - et ≠ 0) (h2 : s - t ≠ 0) :
    ss + ((s - t) - u) / ((s - t) - 0) * ((ss + (s - t) / (s - et) * (es - ss)) - ss)
      = ss + (s - (u + t)) / (s - et) * (es - ss) := by
  field_simp
  ring

/-- non-vacuity: a constant epoch followed by an exponential one, cut inside the second: its end size is interpolated from the second
    epoch's original start 100, not from the shifted one -/
example : (shiftEpochs 30 (some 200) [{ fn := SizeFn.constant, ss := 50, es := 50, et := 100 }, { fn := SizeFn.linear, ss := 50, es := 150, et := 0 }]).map (·.et) = [70, 0]
    ∧ ((sliceSizeAt SizeFn.linear 30 50 150 (some 100) 0).map (Sym.eval id id fun x _ => x)) = some 120 := by
  decide +kernel

/-! ## wiring -/

/-- **Keyword wiring of `_integrate_phi`** for 1…5 demes: the branch for n populations calls the n-population integrator and
    population k receives `nu[k]`, `frozen[k]` and `M[k,j]` as `m_{k+1,j+1}`, and an entry of the gamma and h lists (all entries
    of which are the one scalar given to `SFS`: `C16_wiring_matrix`); `phi`, `xx`, `T`, `theta`, `deme_ids` go to their parameters. -/
theorem C16_wiring :
    integCalls.map (·.npop) = [1, 2, 3, 4, 5]
    ∧ ∀ c ∈ integCalls, c.fn = integName c.npop
      ∧ ∀ k < c.npop, look c (Slot.nu k) = some (Slot.nu k) ∧ look c (Slot.frozen k) = some (Slot.frozen k)
          ∧ (∃ j < c.npop, look c (Slot.gamma k) = some (Slot.gamma j)) ∧ (∃ j < c.npop, look c (Slot.h k) = some (Slot.h j))
          ∧ ∀ j < c.npop, j ≠ k → look c (Slot.M k j) = some (Slot.M k j) := by
  decide

/-- the migration matrix handed to `_integrate_phi`: the scaled rate of the migration source -> dest is stored at
    `M[index of dest, index of source]`, i.e. `M[i,j]` is dadi's `m_{i+1,j+1}` (rate INTO i FROM j); the frozen flags, the sizes
    and the sorted proportion lists follow the order of the live demes (shape checks of the translator) -/
theorem C16_wiring_matrix :
    migRowIsDest = true ∧ frozenFlagsFollowLiveOrder = true ∧ defaultNeIsRootStartSize = true
    ∧ sortedPropsShapeOk = true ∧ finalReorderShapeOk = true ∧ gammaHUniform = true ∧ sliceShapeOk = true := by decide

/-- the same through the Boolean specification the driver evaluates -/
theorem C16_wiring_spec : integCalls.all wiringOk = true := by decide

/-- weaker form that holds whatever the `frozen` keywords are fed from -/
theorem C16_wiring_partial :
    integCalls.map (·.npop) = [1, 2, 3, 4, 5] ∧ integCalls.all wiringOkNoFrozen = true := by decide

/-- `_split_phi`: for every number of populations and every parent index, the new (last) population is a copy of the parent
    (full proportion vector = unit vector at the parent) made by the constructor for that dimension -/
theorem C16_wiring_split :
    splitRows.all splitRowOk = true
    ∧ splitRows.map (fun r => (r.npop, r.parent)) = [(1, 0), (2, 0), (2, 1), (3, 0), (3, 1), (3, 2), (4, 0), (4, 1), (4, 2), (4, 3)] := by
  decide +kernel

/-- `_admix_new_pop_phi` / `_admix_phi`: the constructor / pulse for the dimension (and destination) is called with the
    sorted proportion list in order -/
theorem C16_wiring_admix :
    admixNewRows.all admixNewRowOk = true ∧ admixNewRows.map (·.npop) = [2, 3, 4]
    ∧ pulseRows.all pulseRowOk = true
    ∧ pulseRows.map (fun r => (r.npop, r.dest)) = [(2, 0), (2, 1), (3, 0), (3, 1), (3, 2), (4, 0), (4, 1), (4, 2), (4, 3),
        (5, 0), (5, 1), (5, 2), (5, 3), (5, 4)]
    ∧ ∀ r ∈ pulseRows, ∃ a ∈ Gen.Admix.rows, a.name = r.fn ∧ a.isPulse = true ∧ a.d = r.npop ∧ a.dest = r.dest
        ∧ a.srcNames = (List.range r.npop).filter (· ≠ r.dest) := by
  refine ⟨by decide, by decide, by decide, by decide, ?_⟩
  have h : pulseRows.all (fun r => Gen.Admix.rows.any (fun a => a.name == r.fn && a.isPulse && a.d == r.npop && a.dest == r.dest
      && a.srcNames == (List.range r.npop).filter (· ≠ r.dest))) = true := by decide
  intro r hr
  have := List.all_eq_true.1 h r hr
  obtain ⟨a, ha, hp⟩ := List.any_eq_true.1 this
  simp only [Bool.and_eq_true, beq_iff_eq] at hp
  exact ⟨a, ha, hp.1.1.1.1, hp.1.1.1.2, hp.1.1.2, hp.1.2, hp.2⟩

/-- the sorted proportion list: slot k carries the proportion of the k-th population other than the destination (and slot k
    of the list without destination the proportion of population k) — so, with `C16_wiring_admix`, each pulse / constructor
    parameter `f_j` receives population j's proportion -/
theorem C16_wiring_sorted (n : ℕ) (src : List ℕ) (props : List ℚ) (hnd : src.Nodup) (hlen : src.length = props.length)
    (hlt : ∀ s ∈ src, s < n) :
    (∀ i (hi : i < src.length), (sortedProps n src props none).getD (src[i]) 0 = props[i]'(hlen ▸ hi))
    ∧ (∀ k, k ∉ src → (sortedProps n src props none).getD k 0 = 0)
    ∧ ∀ d k, (sortedProps n src props (some d)).getD k 0
        = (sortedProps n src props none).getD (if k < d then k else k + 1) 0 := by
  obtain ⟨_, h1, h2⟩ := placeProps_spec n src props hnd hlen hlt
  refine ⟨h1, h2, ?_⟩
  intro d k
  simp only [sortedProps, eraseIdx_getD]
  split_ifs <;> rfl

example : sortedProps 4 [2, 0] [1/5, 3/10] (some 1) = [3/10, 1/5, 0] := by decide +kernel

/-! ## order of the sampled demes -/

/-- the final `reorder_pops(phi, [current.index(p)+1 for p in sampled])` leaves the populations in `sampled_demes` order -/
theorem C16_reorder (current sampled : List ℕ) (h : ∀ p ∈ sampled, p ∈ current) :
    applyOrder current (newOrder current sampled) = sampled :=
  applyOrder_newOrder current sampled h

example : newOrder [7, 3, 9] [9, 7, 3] = [3, 1, 2] ∧ applyOrder [7, 3, 9] [3, 1, 2] = [9, 7, 3] := by decide

/-! ## export -/

/-- **Every primitive logs exactly one record of the right kind with its own indices.**
    Pulses: for every pulse function of `PhiManip` (rows of the C06 wiring table: destination axis taken from the slice that
    is integrated out, source axes from the proportion parameters) the only record on every live path is
    `Pulse(sources = those axes + 1, dest = that axis + 1, proportions = its parameters in order)`.
    Constructors: one `Split` whose proportion list is, as a function of the parameters, the coefficient list the function
    applies.  `phi_1D` resets the log with one `Initiation(nu)`; `phi_1D_to_2D` logs `Split([1])`; `remove_pop`,
    `reorder_pops` log their argument; the integrators log one `IntegrationConst` / `IntegrationNonConst` with sizes
    `nu1..nun` and the rates in the dest-major order in which `output` reads them. -/
theorem C16_export_events :
    (∀ a ∈ Gen.Admix.rows, a.isPulse = true → pulseEventsOk a.name a.dest a.srcNames a.nf = true)
    ∧ (∀ a ∈ Gen.Admix.rows, a.isPulse = false →
        ∃ i g, splitEventOf a.name = some i ∧ splitProps[i]? = some (a.name, g) ∧ ∀ f, g f = a.coefs f)
    ∧ splitEventOf "phi_2D_to_3D_split_1" = splitEventOf "phi_2D_to_3D_admix"
    ∧ splitEventOf "phi_2D_to_3D_split_2" = splitEventOf "phi_2D_to_3D_admix"
    ∧ (∃ i g, splitEventOf "phi_1D_to_2D" = some i ∧ splitProps[i]? = some ("phi_1D_to_2D", g) ∧ ∀ f, g f = [1])
    ∧ simpleEventOk "phi_1D" (Ev.initiation true) true = true
    ∧ simpleEventOk "remove_pop" (Ev.remove true) false = true
    ∧ simpleEventOk "reorder_pops" (Ev.reorder true) false = true
    ∧ (∀ n ∈ [1, 2, 3, 4, 5], ∃ f, findPaths (integName n) = some f ∧ integEventsOk n f = true)
    ∧ migReadDestMajor = true ∧ pulseIndicesOneBased = true ∧ nonConstFromHistory = true := by
  refine ⟨?_, ?_, by decide, by decide, ?_, by decide, by decide, by decide, by decide, by decide, by decide, by decide⟩
  · have h : Gen.Admix.rows.all (fun a => !a.isPulse || pulseEventsOk a.name a.dest a.srcNames a.nf) = true := by decide
    intro a ha hp
    have := List.all_eq_true.1 h a ha
    simpa [hp] using this
  · intro a ha hp
    simp only [Gen.Admix.rows, List.mem_cons, List.not_mem_nil, or_false] at ha
    rcases ha with rfl | rfl | rfl | rfl | rfl | rfl | rfl | rfl | rfl | rfl | rfl | rfl | rfl | rfl | rfl | rfl | rfl <;>
      first
      | (exfalso; revert hp; decide)
      | exact ⟨0, _, by decide, rfl, fun f => rfl⟩
      | exact ⟨1, _, by decide, rfl, fun f => rfl⟩
      | exact ⟨2, _, by decide, rfl, fun f => rfl⟩
      | exact ⟨3, _, by decide, rfl, fun f => rfl⟩
      | exact ⟨4, _, by decide, rfl, fun f => rfl⟩
  · first
      | exact ⟨0, _, by decide, rfl, fun f => rfl⟩
      | exact ⟨1, _, by decide, rfl, fun f => rfl⟩
      | exact ⟨2, _, by decide, rfl, fun f => rfl⟩
      | exact ⟨3, _, by decide, rfl, fun f => rfl⟩
      | exact ⟨4, _, by decide, rfl, fun f => rfl⟩

/-- **Export names through `Reorder` / `Remove` records**: `output` carries the deme names along with the axes.  After
    `reorder_pops(phi, neworder)` axis i of the result is axis `neworder[i]-1` of the input (`applyOrder`, C06_reorder), and the
    names `output` attaches are exactly `younger[i] = older[neworder[i]-1]` — the permutation itself, not its inverse; after
    `remove_pop(phi, xx, k)` the names are the old ones without entry k-1. -/
theorem C16_export_reorder (older neworder : List ℕ) :
    reorderNames older neworder = applyOrder older neworder
    ∧ (reorderNames older neworder).length = neworder.length
    ∧ (∀ i (hi : i < neworder.length), (reorderNames older neworder).getD i 0 = older.getD (neworder[i] - 1) 0)
    ∧ ∀ k, removeNames older k = older.eraseIdx (k - 1) := by
  have h : reorderNames older neworder = applyOrder older neworder := by
    unfold reorderNames applyOrder; rfl
  refine ⟨h, by rw [h]; simp [applyOrder], ?_, fun k => rfl⟩
  intro i hi
  rw [h]
  simp [applyOrder, List.getD_eq_getElem?_getD, List.getElem?_map, List.getElem?_eq_getElem hi]

/-- a permutation that is not its own inverse separates the two directions -/
example : reorderNames [10, 20, 30] [2, 3, 1] = [20, 30, 10] := by decide

/-- weaker form: whatever pulse record a pulse function logs names the right sources and proportions
    (presence and destination not claimed) -/
theorem C16_export_events_partial :
    Gen.Admix.rows.all (fun a => !a.isPulse || pulseEventsWeak a.name a.srcNames a.nf) = true := by decide

/-- **Export times**: the end time `output` assigns to record i is the sum of the durations of all younger records; the last
    record ends at 0 -/
theorem C16_export_times (durs : List ℚ) (i : ℕ) (hi : i < durs.length) :
    (endTimes durs).length = durs.length ∧ (endTimes durs).getD i 0 = (durs.drop (i + 1)).sum :=
  ⟨endTimes_length durs, endTimes_getD durs i hi⟩

example : endTimes [0, 1/10, 0, 1/5, 0] = [3/10, 1/5, 1/5, 0, 0] := by decide +kernel

/-- **Export units**: the scalings `output` applies for a reference size `Nref` (and generation time `g`) are inverted by the
    import conversion with `Ne = Nref`: durations, relative sizes and scaled migration rates of the re-imported graph are
    those of the exported program -/
theorem C16_export_units {Nref g : ℚ} (hN : Nref ≠ 0) (hg : g ≠ 0) (t0 t1 nu m : ℚ) :
    intTime (some (toGenerations (expTime Nref g t0) g)) (some (toGenerations (expTime Nref g t1) g)) Nref = t0 - t1
    ∧ intTime (some (expTime Nref 1 t0)) (some (expTime Nref 1 t1)) Nref = t0 - t1
    ∧ (nuConstList (Sym.r (expSize Nref nu)) Nref).eval (fun x => x) (fun x => x) (fun x _ => x) = nu
    ∧ migEntry Nref (expRate Nref m) = m
    ∧ exportUnitsOk = true := by
  refine ⟨?_, ?_, ?_, ?_, by decide⟩
  · simp only [intTime, isInf, toGenerations, expTime, tval, Bool.false_eq_true, if_false]; field_simp
  · simp only [intTime, isInf, expTime, tval, Bool.false_eq_true, if_false]; field_simp
  · simp only [nuConstList, Sym.eval, expSize]; field_simp
  · simp only [migEntry, expRate]; field_simp

end DadiVerif
