import DadiVerif.Lemmas.DemesConv
import DadiVerif.Lemmas.DemesGraph
import DadiVerif.Lemmas.DemesAugment
import DadiVerif.Lemmas.DemesWiring
import DadiVerif.Lemmas.DemesUnits
import DadiVerif.Generated.Admix
import DadiVerif.Generated.DemesProg
import DadiVerif.Lemmas.DemesProgWiring
import DadiVerif.Lemmas.DemesProgParams
import DadiVerif.Lemmas.DemesProgCompute
import DadiVerif.Lemmas.DemesProgScale
import DadiVerif.Lemmas.DemesFrozen
import DadiVerif.Lemmas.DemesExport
import DadiVerif.Lemmas.DemesSlicePlan
/-!
# C16 — demes graphs vs native dadi models: units, wiring, order, export

What is proved here is the *conversion layer* between a demes graph and a dadi program, about the definitions regenerated
from `dadi/Demes/Demes.py`, `dadi/Demes/__init__.py`, `dadi/PhiManip.py`, `dadi/Integration.py` (`Generated/Demes.lean`) and
their composition in `Model/DemesConv.lean` (the definitions the driver executes):

* **units** — the parameters handed to dadi (`T`, `nu(t)`, `M`) are unchanged when sizes and times of the graph are multiplied
  by `c` and rates divided by `c` with the reference size scaled along (the default `Ne` = root size does that), for constant,
  linear and exponential epochs including epochs cut by an interval boundary, for ARBITRARY `exp`/`log`/power functions;
  another `generation_time` / time unit is the same graph after `toGenerations`; an explicit other reference size `Ne/c`
  gives the C03 re-scaling (`T·c`, `nu·c`, `M/c`), which is a symmetry of the spectrum only if the equilibrium start uses the
  root's relative size (`C16_root_size`).
* **wiring** — `_integrate_phi` feeds population k with `nu[k]`, `gamma[k]`, `h[k]`, `frozen[k]`, `M[k,j]` as `m_{k+1,j+1}`;
  `_split_phi` copies the parent; `_admix_new_pop_phi` / `_admix_phi` pass the proportion of population j in slot j.
* **order** — the final `reorder_pops` puts the populations in `sampled_demes` order.
* **export** — every primitive logs exactly one record of the right kind with its own indices and proportions; end times
  are sums of younger durations; the `Nref` / `generation_time` scalings invert the import conversion.

* **graph level (round 4)** — `DemesUtil.slice`, `_augment_with_ancient_samples`, the preparation in `SFS`, `_migration_rate_in_interval`,
  the epoch search of `_sizes_at_time` and the frozen flags are translated statement by statement; the loops of
  `_get_demographic_events` / `_get_integration_parameters` / `_compute_sfs` are composed from them in `Model/DemesConv.lean`.
  Proved: an ancient sample is a frozen branch (closed form of the augmentation), slicing shifts every time and keeps the size
  functions (constant, linear, exponential), the whole table of integration rows, `nu` terms, events and calls is invariant under a
  change of the reference size / of the time unit, and a permutation of the sampled demes changes only the final reordering.

Not modelled (validated by the harness only): the `demes` library itself (resolution, `discrete_demographic_events`), the numerical integration.
The theorems `C16_wiring`, `C16_export_events`, `C16_root_size` are obligations on the GENERATED tables: they fail on a
tree whose source wires a population wrongly / logs a wrong or no record / starts from the wrong equilibrium.
-/
namespace DadiVerif
open DemesConv Gen.Demes

/-! ## units -/

/-- integration time is scale-free -/
theorem C16_units_T {c : ℚ} (hc : c ≠ 0) (i0 i1 : ETime) (Ne : ℚ) :
    intTime (tscale c i0) (tscale c i1) (c * Ne) = intTime i0 i1 Ne := by
  unfold intTime
  rw [isInf_tscale, tval_tscale, tval_tscale]
  split_ifs
  · rfl
  · rw [← mul_sub, div_div, div_div, mul_comm (2 : ℚ) (c * Ne), mul_assoc, mul_div_mul_left _ _ hc, mul_comm Ne 2]

/-- scaled migration rate is scale-free (rates are divided by `c`) -/
theorem C16_units_M {c : ℚ} (hc : c ≠ 0) (Ne m : ℚ) : migEntry (c * Ne) (m / c) = migEntry Ne m := by
  unfold migEntry
  field_simp

/-- the start/end sizes `_sizes_at_time` finds on an interval scale with the graph (any size function, interval cutting the
    epoch or not), whatever `exp` and `log` are -/
theorem C16_units_sizes (ex lg : ℚ → ℚ) (pw : ℚ → ℚ → ℚ) {c : ℚ} (hc : c ≠ 0) (e : Epoch) (i0 i1 : ETime) :
    (epochSizes (e.scale c) (tscale c i0) (tscale c i1)).map (evalPair ex lg pw)
      = (epochSizes e i0 i1).map (fun p => (c * (evalPair ex lg pw p).1, c * (evalPair ex lg pw p).2)) := by
  have hs : (e.scale c).span = c * e.span := by
    simp [Epoch.span, Epoch.scale, tval_tscale, mul_sub]
  unfold epochSizes
  rw [hs]
  exact sizesAt_scale ex lg pw hc e.fn e.ss e.es e.st e.et e.span i0 i1

/-- **Unit / scale invariance of the size functions**: a deme's relative size at every dadi time `t` of every integration
    interval is the same for the scaled graph with the scaled reference size — constant, linear and exponential epochs,
    for arbitrary `exp`, `log` and power functions. -/
theorem C16_units_nu (ex lg : ℚ → ℚ) (pw : ℚ → ℚ → ℚ) {c : ℚ} (hc : c ≠ 0) (e : Epoch) (allConst : Bool)
    (i0 i1 : ETime) (Ne t : ℚ) :
    (demeNu (e.scale c) allConst (tscale c i0) (tscale c i1) (c * Ne) t).map (Sym.eval ex lg pw)
      = (demeNu e allConst i0 i1 Ne t).map (Sym.eval ex lg pw) := by
  have hsz := C16_units_sizes ex lg pw hc e i0 i1
  unfold demeNu
  rw [C16_units_T hc]
  have hfn : (e.scale c).fn = e.fn := rfl
  rcases h0 : epochSizes e i0 i1 with _ | ⟨a, b⟩
  · rw [h0] at hsz
    rcases h1 : epochSizes (e.scale c) (tscale c i0) (tscale c i1) with _ | p
    · rfl
    · rw [h1] at hsz; simp at hsz
  · rw [h0] at hsz
    rcases h1 : epochSizes (e.scale c) (tscale c i0) (tscale c i1) with _ | ⟨a', b'⟩
    · rw [h1] at hsz; simp at hsz
    · rw [h1] at hsz
      simp only [Option.map_some, evalPair, Option.some.injEq, Prod.mk.injEq] at hsz
      obtain ⟨ha, hb⟩ := hsz
      have hdiv : ∀ x : ℚ, c * x / (c * Ne) = x / Ne := fun x => mul_div_mul_left _ _ hc
      simp only [hfn]
      cases allConst <;> cases e.fn <;>
        simp [nuFn, nuConstList, nuConstFn, nuLinear, nuExp, Sym.eval, ha, hb, hdiv, mul_div_mul_left _ _ hc, ← mul_sub] <;>
        first | ring1 | (field_simp; try ring1)

/-- the same for a whole graph statement: `T`, `M` and every `nu` agree, so the dadi program is identical -/
theorem C16_units {c : ℚ} (hc : c ≠ 0) (ex lg : ℚ → ℚ) (pw : ℚ → ℚ → ℚ) (e : Epoch) (allConst : Bool) (i0 i1 : ETime) (Ne m t : ℚ) :
    intTime (tscale c i0) (tscale c i1) (c * Ne) = intTime i0 i1 Ne
    ∧ migEntry (c * Ne) (m / c) = migEntry Ne m
    ∧ (demeNu (e.scale c) allConst (tscale c i0) (tscale c i1) (c * Ne) t).map (Sym.eval ex lg pw)
        = (demeNu e allConst i0 i1 Ne t).map (Sym.eval ex lg pw) :=
  ⟨C16_units_T hc i0 i1 Ne, C16_units_M hc Ne m, C16_units_nu ex lg pw hc e allConst i0 i1 Ne t⟩

/-- non-vacuity: an exponential epoch cut in the middle really produces an `exp(log(·)·)` term, and a number under any
    interpretation -/
example : (epochSizes { fn := SizeFn.exponential, ss := 100, es := 400, st := some 50, et := some 10 } (some 30) (some 10)).isSome = true := by
  decide

/-- other time units: a sample time given in years with generation time `g` is the time in generations -/
theorem C16_units_generation_time {g : ℚ} (hg : g ≠ 0) (t : ℚ) : toGenerations (g * t) g = t := by
  unfold toGenerations
  field_simp

/-- explicit other reference size `Ne / c`: the parameters are the C03 re-scaling of the default ones
    (`T ↦ c·T`, `nu ↦ c·nu`, `M ↦ M / c`) -/
theorem C16_units_Ne {c : ℚ} (hc : c ≠ 0) (ex lg : ℚ → ℚ) (pw : ℚ → ℚ → ℚ) (i0 i1 : ETime) (Ne m : ℚ) (hNe : Ne ≠ 0)
    (N0 NF : Sym) (T t : ℚ) :
    intTime i0 i1 (Ne / c) = c * intTime i0 i1 Ne
    ∧ migEntry (Ne / c) m = migEntry Ne m / c
    ∧ (nuConstList N0 (Ne / c)).eval ex lg pw = c * (nuConstList N0 Ne).eval ex lg pw
    ∧ (nuLinear N0 NF (Ne / c) T t).eval ex lg pw = c * (nuLinear N0 NF Ne T t).eval ex lg pw
    ∧ (nuExp N0 NF (Ne / c) T t).eval ex lg pw = c * (nuExp N0 NF Ne T t).eval ex lg pw := by
  refine ⟨?_, ?_, ?_, ?_, ?_⟩
  · unfold intTime; split_ifs
    · simp
    · field_simp
  · unfold migEntry; field_simp
  · simp only [nuConstList, Sym.eval]; field_simp
  · simp only [nuLinear, Sym.eval]; field_simp
  · simp only [nuExp, Sym.eval]; field_simp

/-- …which is a symmetry of the spectrum (C03) only when the initial equilibrium is built with the root's relative size
    `N_root / Ne`: `_compute_sfs` must pass `nu=` to `phi_1D` (the infinite root epoch is never integrated). -/
theorem C16_root_size : rootNuPassed = true := by decide

/-! ## slicing (only ancient samples) -/

/-- **`DemesUtil.slice`, epochs of a deme**: the loop of `_shift_deme_time` computes exactly the specification `sliceSpec` — epochs
    older than the slice time are shifted, the epoch containing it ends at 0 with the size given by `_size_at` between its ORIGINAL
    start time (the previous epoch's original end time, or the deme's start) and its original end time, younger epochs are dropped;
    for every number of epochs and every position of the slice time. -/
theorem C16_slice_epochs (t : ℚ) (st : ETime) (eps : List InEpoch) :
    shiftEpochs t st eps = sliceSpec t st eps := by
  unfold shiftEpochs
  induction eps generalizing st with
  | nil => rfl
  | cons e rest ih =>
    unfold loopBreak sliceSpec
    by_cases h : e.et ≤ t
    · have h0 : ratMax 0 (e.et - t) = 0 := by
        unfold ratMax; split_ifs with h1
        · linarith
        · rfl
      simp [shiftStep, h0, h]
    · have h1 : ratMax 0 (e.et - t) = e.et - t := by
        unfold ratMax; split_ifs with h2
        · rfl
        · linarith
      have h2 : ¬ (e.et - t = 0) := by intro h3; apply h; linarith
      simp [shiftStep, h1, h, h2, ih]

/-- the size `_size_at` gives the cut epoch at the slice time is the size the import (`_sizes_at_time`) itself assigns to that epoch
    at time `t` on the unsliced graph — constant, exponential and linear, for arbitrary `exp` / `log` -/
theorem C16_slice_size (ex lg : ℚ → ℚ) (pw : ℚ → ℚ → ℚ) (fn : SizeFn) (hfn : fn ≠ SizeFn.other) (t ss es et : ℚ) (st : ETime)
    (ht : et ≠ t) :
    (sliceSizeAt fn t ss es st et).map (Sym.eval ex lg pw)
      = (sizesAt fn ss es st (some et) (tval st - et) st (some t)).map (fun p => p.2.eval ex lg pw) := by
  have h1 : teq st st = true := by cases st <;> simp [teq]
  have h2 : teq (some et) (some t) = false := by simp [teq, ht]
  cases fn <;> simp_all [sliceSizeAt, sizesAt, Sym.eval, tval]

/-- for a linear (or constant) epoch the sliced epoch is the original size function moved by `t`: its value at the shifted time `u`
    (interpolated between the shifted start `s - t` and 0, from `ss` to the size at the slice time) is the original value at `u + t` -/
theorem C16_slice_linear (t ss es s et u : ℚ) (h1 : s - et ≠ 0) (h2 : s - t ≠ 0) :
    ss + ((s - t) - u) / ((s - t) - 0) * ((ss + (s - t) / (s - et) * (es - ss)) - ss)
      = ss + (s - (u + t)) / (s - et) * (es - ss) := by
  field_simp
  ring

/-- non-vacuity: a constant epoch followed by an exponential one, cut inside the second: its end size is interpolated from the second
    epoch's original start 100, not from the shifted one -/
example : (shiftEpochs 30 (some 200) [{ fn := SizeFn.constant, ss := 50, es := 50, et := 100 }, { fn := SizeFn.linear, ss := 50, es := 150, et := 0 }]).map (·.et) = [70, 0]
    ∧ ((sliceSizeAt SizeFn.linear 30 50 150 (some 100) 0).map (Sym.eval id id fun x _ => x)) = some 120 := by
  decide +kernel

/-! ## wiring -/

/-- **Keyword wiring of `_integrate_phi`** for 1…5 demes: the branch for n populations calls the n-population integrator and
    population k receives `nu[k]`, `frozen[k]` and `M[k,j]` as `m_{k+1,j+1}`, and an entry of the gamma and h lists (all entries
    of which are the one scalar given to `SFS`: `C16_wiring_matrix`); `phi`, `xx`, `T`, `theta`, `deme_ids` go to their parameters. -/
theorem C16_wiring :
    integCalls.map (·.npop) = [1, 2, 3, 4, 5]
    ∧ ∀ c ∈ integCalls, c.fn = integName c.npop
      ∧ ∀ k < c.npop, look c (Slot.nu k) = some (Slot.nu k) ∧ look c (Slot.frozen k) = some (Slot.frozen k)
          ∧ (∃ j < c.npop, look c (Slot.gamma k) = some (Slot.gamma j)) ∧ (∃ j < c.npop, look c (Slot.h k) = some (Slot.h j))
          ∧ ∀ j < c.npop, j ≠ k → look c (Slot.M k j) = some (Slot.M k j) := by
  decide

/-- the migration matrix handed to `_integrate_phi`: the scaled rate of the migration source -> dest is stored at
    `M[index of dest, index of source]`, i.e. `M[i,j]` is dadi's `m_{i+1,j+1}` (rate INTO i FROM j); the frozen flags, the sizes
    and the sorted proportion lists follow the order of the live demes (shape checks of the translator) -/
theorem C16_wiring_matrix :
    migRowIsDest = true ∧ frozenFlagsFollowLiveOrder = true ∧ defaultNeIsRootStartSize = true
    ∧ sortedPropsShapeOk = true ∧ finalReorderShapeOk = true ∧ gammaHUniform = true ∧ sliceShapeOk = true := by decide

/-- the same through the Boolean specification the driver evaluates -/
theorem C16_wiring_spec : integCalls.all wiringOk = true := by decide

/-- weaker form that holds whatever the `frozen` keywords are fed from -/
theorem C16_wiring_partial :
    integCalls.map (·.npop) = [1, 2, 3, 4, 5] ∧ integCalls.all wiringOkNoFrozen = true := by decide

/-- `_split_phi`: for every number of populations and every parent index, the new (last) population is a copy of the parent
    (full proportion vector = unit vector at the parent) made by the constructor for that dimension -/
theorem C16_wiring_split :
    splitRows.all splitRowOk = true
    ∧ splitRows.map (fun r => (r.npop, r.parent)) = [(1, 0), (2, 0), (2, 1), (3, 0), (3, 1), (3, 2), (4, 0), (4, 1), (4, 2), (4, 3)] := by
  decide +kernel

/-- `_admix_new_pop_phi` / `_admix_phi`: the constructor / pulse for the dimension (and destination) is called with the
    sorted proportion list in order -/
theorem C16_wiring_admix :
    admixNewRows.all admixNewRowOk = true ∧ admixNewRows.map (·.npop) = [2, 3, 4]
    ∧ pulseRows.all pulseRowOk = true
    ∧ pulseRows.map (fun r => (r.npop, r.dest)) = [(2, 0), (2, 1), (3, 0), (3, 1), (3, 2), (4, 0), (4, 1), (4, 2), (4, 3),
        (5, 0), (5, 1), (5, 2), (5, 3), (5, 4)]
    ∧ ∀ r ∈ pulseRows, ∃ a ∈ Gen.Admix.rows, a.name = r.fn ∧ a.isPulse = true ∧ a.d = r.npop ∧ a.dest = r.dest
        ∧ a.srcNames = (List.range r.npop).filter (· ≠ r.dest) := by
  refine ⟨by decide, by decide, by decide, by decide, ?_⟩
  have h : pulseRows.all (fun r => Gen.Admix.rows.any (fun a => a.name == r.fn && a.isPulse && a.d == r.npop && a.dest == r.dest
      && a.srcNames == (List.range r.npop).filter (· ≠ r.dest))) = true := by decide
  intro r hr
  have := List.all_eq_true.1 h r hr
  obtain ⟨a, ha, hp⟩ := List.any_eq_true.1 this
  simp only [Bool.and_eq_true, beq_iff_eq] at hp
  exact ⟨a, ha, hp.1.1.1.1, hp.1.1.1.2, hp.1.1.2, hp.1.2, hp.2⟩

/-- the sorted proportion list: slot k carries the proportion of the k-th population other than the destination (and slot k
    of the list without destination the proportion of population k) — so, with `C16_wiring_admix`, each pulse / constructor
    parameter `f_j` receives population j's proportion -/
theorem C16_wiring_sorted (n : ℕ) (src : List ℕ) (props : List ℚ) (hnd : src.Nodup) (hlen : src.length = props.length)
    (hlt : ∀ s ∈ src, s < n) :
    (∀ i (hi : i < src.length), (sortedProps n src props none).getD (src[i]) 0 = props[i]'(hlen ▸ hi))
    ∧ (∀ k, k ∉ src → (sortedProps n src props none).getD k 0 = 0)
    ∧ ∀ d k, (sortedProps n src props (some d)).getD k 0
        = (sortedProps n src props none).getD (if k < d then k else k + 1) 0 := by
  obtain ⟨_, h1, h2⟩ := placeProps_spec n src props hnd hlen hlt
  refine ⟨h1, h2, ?_⟩
  intro d k
  simp only [sortedProps, eraseIdx_getD]
  split_ifs <;> rfl

example : sortedProps 4 [2, 0] [1/5, 3/10] (some 1) = [3/10, 1/5, 0] := by decide +kernel

/-! ## order of the sampled demes -/

/-- the final `reorder_pops(phi, [current.index(p)+1 for p in sampled])` leaves the populations in `sampled_demes` order -/
theorem C16_reorder (current sampled : List ℕ) (h : ∀ p ∈ sampled, p ∈ current) :
    applyOrder current (newOrder current sampled) = sampled :=
  applyOrder_newOrder current sampled h

example : newOrder [7, 3, 9] [9, 7, 3] = [3, 1, 2] ∧ applyOrder [7, 3, 9] [3, 1, 2] = [9, 7, 3] := by decide

/-! ## export -/

/-- **Every primitive logs exactly one record of the right kind with its own indices.**
    Pulses: for every pulse function of `PhiManip` (rows of the C06 wiring table: destination axis taken from the slice that
    is integrated out, source axes from the proportion parameters) the only record on every live path is
    `Pulse(sources = those axes + 1, dest = that axis + 1, proportions = its parameters in order)`.
    Constructors: one `Split` whose proportion list is, as a function of the parameters, the coefficient list the function
    applies.  `phi_1D` resets the log with one `Initiation(nu)`; `phi_1D_to_2D` logs `Split([1])`; `remove_pop`,
    `reorder_pops` log their argument; the integrators log one `IntegrationConst` / `IntegrationNonConst` with sizes
    `nu1..nun` and the rates in the dest-major order in which `output` reads them. -/
theorem C16_export_events :
    (∀ a ∈ Gen.Admix.rows, a.isPulse = true → pulseEventsOk a.name a.dest a.srcNames a.nf = true)
    ∧ (∀ a ∈ Gen.Admix.rows, a.isPulse = false →
        ∃ i g, splitEventOf a.name = some i ∧ splitProps[i]? = some (a.name, g) ∧ ∀ f, g f = a.coefs f)
    ∧ splitEventOf "phi_2D_to_3D_split_1" = splitEventOf "phi_2D_to_3D_admix"
    ∧ splitEventOf "phi_2D_to_3D_split_2" = splitEventOf "phi_2D_to_3D_admix"
    ∧ (∃ i g, splitEventOf "phi_1D_to_2D" = some i ∧ splitProps[i]? = some ("phi_1D_to_2D", g) ∧ ∀ f, g f = [1])
    ∧ simpleEventOk "phi_1D" (Ev.initiation true) true = true
    ∧ simpleEventOk "remove_pop" (Ev.remove true) false = true
    ∧ simpleEventOk "reorder_pops" (Ev.reorder true) false = true
    ∧ (∀ n ∈ [1, 2, 3, 4, 5], ∃ f, findPaths (integName n) = some f ∧ integEventsOk n f = true)
    ∧ migReadDestMajor = true ∧ pulseIndicesOneBased = true ∧ nonConstFromHistory = true := by
  refine ⟨?_, ?_, by decide, by decide, ?_, by decide, by decide, by decide, by decide, by decide, by decide, by decide⟩
  · have h : Gen.Admix.rows.all (fun a => !a.isPulse || pulseEventsOk a.name a.dest a.srcNames a.nf) = true := by decide
    intro a ha hp
    have := List.all_eq_true.1 h a ha
    simpa [hp] using this
  · intro a ha hp
    simp only [Gen.Admix.rows, List.mem_cons, List.not_mem_nil, or_false] at ha
    rcases ha with rfl | rfl | rfl | rfl | rfl | rfl | rfl | rfl | rfl | rfl | rfl | rfl | rfl | rfl | rfl | rfl | rfl <;>
      first
      | (exfalso; revert hp; decide)
      | exact ⟨0, _, by decide, rfl, fun f => rfl⟩
      | exact ⟨1, _, by decide, rfl, fun f => rfl⟩
      | exact ⟨2, _, by decide, rfl, fun f => rfl⟩
      | exact ⟨3, _, by decide, rfl, fun f => rfl⟩
      | exact ⟨4, _, by decide, rfl, fun f => rfl⟩
  · first
      | exact ⟨0, _, by decide, rfl, fun f => rfl⟩
      | exact ⟨1, _, by decide, rfl, fun f => rfl⟩
      | exact ⟨2, _, by decide, rfl, fun f => rfl⟩
      | exact ⟨3, _, by decide, rfl, fun f => rfl⟩
      | exact ⟨4, _, by decide, rfl, fun f => rfl⟩

/-- **Export names through `Reorder` / `Remove` records**: `output` carries the deme names along with the axes.  After
    `reorder_pops(phi, neworder)` axis i of the result is axis `neworder[i]-1` of the input (`applyOrder`, C06_reorder), and the
    names `output` attaches are exactly `younger[i] = older[neworder[i]-1]` — the permutation itself, not its inverse; after
    `remove_pop(phi, xx, k)` the names are the old ones without entry k-1. -/
theorem C16_export_reorder (older neworder : List ℕ) :
    reorderNames older neworder = applyOrder older neworder
    ∧ (reorderNames older neworder).length = neworder.length
    ∧ (∀ i (hi : i < neworder.length), (reorderNames older neworder).getD i 0 = older.getD (neworder[i] - 1) 0)
    ∧ ∀ k, removeNames older k = older.eraseIdx (k - 1) := by
  have h : reorderNames older neworder = applyOrder older neworder := by
    unfold reorderNames applyOrder; rfl
  refine ⟨h, by rw [h]; simp [applyOrder], ?_, fun k => rfl⟩
  intro i hi
  rw [h]
  simp [applyOrder, List.getD_eq_getElem?_getD, List.getElem?_map, List.getElem?_eq_getElem hi]

/-- a permutation that is not its own inverse separates the two directions -/
example : reorderNames [10, 20, 30] [2, 3, 1] = [20, 30, 10] := by decide

/-- weaker form: whatever pulse record a pulse function logs names the right sources and proportions
    (presence and destination not claimed) -/
theorem C16_export_events_partial :
    Gen.Admix.rows.all (fun a => !a.isPulse || pulseEventsWeak a.name a.srcNames a.nf) = true := by decide

/-- **Export times**: the end time `output` assigns to record i is the sum of the durations of all younger records; the last
    record ends at 0 -/
theorem C16_export_times (durs : List ℚ) (i : ℕ) (hi : i < durs.length) :
    (endTimes durs).length = durs.length ∧ (endTimes durs).getD i 0 = (durs.drop (i + 1)).sum :=
  ⟨endTimes_length durs, endTimes_getD durs i hi⟩

example : endTimes [0, 1/10, 0, 1/5, 0] = [3/10, 1/5, 1/5, 0, 0] := by decide +kernel

/-- **Export units**: the scalings `output` applies for a reference size `Nref` (and generation time `g`) are inverted by the
    import conversion with `Ne = Nref`: durations, relative sizes and scaled migration rates of the re-imported graph are
    those of the exported program -/
theorem C16_export_units {Nref g : ℚ} (hN : Nref ≠ 0) (hg : g ≠ 0) (t0 t1 nu m : ℚ) :
    intTime (some (toGenerations (expTime Nref g t0) g)) (some (toGenerations (expTime Nref g t1) g)) Nref = t0 - t1
    ∧ intTime (some (expTime Nref 1 t0)) (some (expTime Nref 1 t1)) Nref = t0 - t1
    ∧ (nuConstList (Sym.r (expSize Nref nu)) Nref).eval (fun x => x) (fun x => x) (fun x _ => x) = nu
    ∧ migEntry Nref (expRate Nref m) = m
    ∧ exportUnitsOk = true := by
  refine ⟨?_, ?_, ?_, ?_, by decide⟩
  · simp only [intTime, isInf, toGenerations, expTime, tval, Bool.false_eq_true, if_false]; field_simp
  · simp only [intTime, isInf, expTime, tval, Bool.false_eq_true, if_false]; field_simp
  · simp only [nuConstList, Sym.eval, expSize]; field_simp
  · simp only [migEntry, expRate]; field_simp

/-! ## graph level (round 4) -/

/-- **Ancestor order / proportion wiring, every arity.**  Whatever the order in which the graph lists the ancestors of a new deme
    (`src` = their axes, `props` their proportions): for 2, 3 and 4 existing populations `_admix_new_pop_phi` calls the constructor of
    that dimension and its k-th proportion parameter receives the proportion of the ancestor that sits on AXIS k (0 if none does); the
    remainder `1 - Σ` that the constructor gives the last axis is that axis's proportion.  For every pulse (2…5 populations, every
    destination) the k-th proportion parameter receives the proportion of the k-th axis other than the destination. -/
theorem C16_wiring_parents :
    admixNewRows.map (·.npop) = [2, 3, 4]
    ∧ (∀ r ∈ admixNewRows, ∀ (src : List ℕ) (props : List ℚ), src.Nodup → src.length = props.length → (∀ s ∈ src, s < r.npop) →
        r.fn = newPopName r.npop
        ∧ admixArgs r src props = (List.range (r.npop - 1)).map (axisProp src props)
        ∧ (props.sum = 1 → fullProps (admixArgs r src props) = (List.range r.npop).map (axisProp src props)))
    ∧ (∀ r ∈ pulseRows, ∀ (src : List ℕ) (props : List ℚ), src.Nodup → src.length = props.length →
        (∀ s ∈ src, s < r.npop ∧ s ≠ r.dest) →
        pulseArgs r src props = (List.range (r.npop - 1)).map (fun k => axisProp src props (if k < r.dest then k else k + 1))) := by
  refine ⟨by decide, ?_, ?_⟩
  · intro r hr src props hnd hlen hlt
    have hok : admixNewRows.all admixNewRowOk = true := by decide
    have h := List.all_eq_true.1 hok r hr
    simp only [admixNewRowOk, Bool.and_eq_true, beq_iff_eq] at h
    obtain ⟨⟨hfn, hsl⟩, hs⟩ := h
    have hn : 1 ≤ r.npop := by
      have : admixNewRows.all (fun r => decide (1 ≤ r.npop)) = true := by decide
      simpa using List.all_eq_true.1 this r hr
    have hargs := admixArgs_sorted r hs hsl src props hnd hlen hlt
    refine ⟨hfn, hargs, ?_⟩
    intro hsum
    rw [hargs]
    exact fullProps_axis r.npop hn src props hnd hlen hlt hsum
  · intro r hr src props hnd hlen hlt
    have hok : pulseRows.all (fun r => r.slots == List.range (r.npop - 1) && (r.sorted || (r.npop == 2 && decide (r.dest < 2) && r.slots == [0]))) = true := by
      decide
    have h := List.all_eq_true.1 hok r hr
    simp only [Bool.and_eq_true, Bool.or_eq_true, beq_iff_eq, decide_eq_true_eq] at h
    obtain ⟨hsl, hcase⟩ := h
    rcases hcase with hs | ⟨⟨hn, hd⟩, hsl0⟩
    · exact pulseArgs_sorted r hs hsl src props hnd hlen (fun s h => (hlt s h).1)
    · exact pulseArgs_two r hn hd hsl0 src props hnd hlen hlt

/-- ancestors listed against the axis order (`[B, A]` with A on axis 0): the constructor still gets A's share first -/
example : admixArgs { npop := 2, fn := "phi_2D_to_3D_admix", sorted := true, slots := [0] } [1, 0] [3/10, 7/10] = [7/10]
    ∧ axisProp [1, 0] [3/10, 7/10] 0 = 7/10 := by decide +kernel

/-- **Importing a sliced graph = importing the graph, moved by the slice time** (sizes stay continuous): an epoch cut by the slice time
    `t` is replaced by an epoch ending at 0 with the size `_size_at` computes; on every interval `(x, y)` of the sliced graph
    `_sizes_at_time` finds the sizes it finds for the original epoch on `(x + t, y + t)` — constant, linear and exponential size
    functions, for arbitrary `exp` / `log` with `log (exp z) = z`. -/
theorem C16_slice_sizes (ex lg : ℚ → ℚ) (pw : ℚ → ℚ → ℚ) (hlog : ∀ z, lg (ex z) = z) (fn : SizeFn) (t ss es s et es' : ℚ)
    (hss : ss ≠ 0) (h1 : s - et ≠ 0) (h2 : s - t ≠ 0) (hcut : et < t)
    (hes : (sliceSizeAt fn t ss es (some s) et).map (Sym.eval ex lg pw) = some es')
    (x y : ℚ) (hy0 : 0 ≤ y) :
    (sizesAt fn ss es' (some (s - t)) (some 0) (s - t - 0) (some x) (some y)).map (evalPair ex lg pw)
      = (sizesAt fn ss es (some s) (some et) (s - et) (some (x + t)) (some (y + t))).map (evalPair ex lg pw) := by
  have hety : ¬ et = y + t := by intro h; linarith
  have hett : ¬ et = t := by intro h; linarith
  cases fn with
  | other => simp [sizesAt]
  | constant =>
    have hes' : es' = ss := by
      simp [sliceSizeAt, Sym.eval] at hes
      exact hes.symm
    subst hes'
    by_cases hx : x = s - t <;> by_cases hy : y = 0
    · subst hx; subst hy; simp [sizesAt, teq, evalPair, Sym.eval, hett]
    · subst hx; simp [sizesAt, teq, evalPair, Sym.eval, hety, hy, Ne.symm hy]
    · subst hy
      have hx1 : ¬ s - t = x := fun h => hx h.symm
      have hx2 : ¬ s = x + t := fun h => hx (by linarith)
      simp [sizesAt, teq, evalPair, Sym.eval, hett, hx1, hx2]
    · have hx1 : ¬ s - t = x := fun h => hx h.symm
      have hx2 : ¬ s = x + t := fun h => hx (by linarith)
      simp [sizesAt, teq, evalPair, Sym.eval, hety, hx1, hx2, Ne.symm hy]
  | linear =>
    have hes' : es' = ss + (s - t) / (s - et) * (es - ss) := by
      simp [sliceSizeAt, Sym.eval, tval] at hes
      linarith [hes]
    subst hes'
    have e1 : ∀ u : ℚ, (s - t - u) / (s - t) * ((s - t) / (s - et) * (es - ss)) = (s - (u + t)) / (s - et) * (es - ss) := by
      intro u; field_simp; ring
    by_cases hx : x = s - t <;> by_cases hy : y = 0
    · subst hx; subst hy; simp [sizesAt, teq, evalPair, Sym.eval, tval, hett]
    · subst hx; simp [sizesAt, teq, evalPair, Sym.eval, tval, hety, Ne.symm hy, e1]
    · subst hy
      have hx1 : ¬ s - t = x := fun h => hx h.symm
      have hx2 : ¬ s = x + t := fun h => hx (by linarith)
      simp [sizesAt, teq, evalPair, Sym.eval, tval, hett, hx1, hx2, e1]
    · have hx1 : ¬ s - t = x := fun h => hx h.symm
      have hx2 : ¬ s = x + t := fun h => hx (by linarith)
      simp [sizesAt, teq, evalPair, Sym.eval, tval, hety, hx1, hx2, Ne.symm hy, e1]
  | exponential =>
    have hes' : es' = ss * ex (lg (es / ss) * (s - t) / (s - et)) := by
      simp [sliceSizeAt, Sym.eval, tval] at hes
      linarith [hes]
    have hratio : es' / ss = ex (lg (es / ss) * (s - t) / (s - et)) := by
      rw [hes']; field_simp
    have hkey : ∀ u : ℚ, lg (es' / ss) * (s - t - u) / (s - t) = lg (es / ss) * (s - (u + t)) / (s - et) := by
      intro u
      rw [hratio, hlog]
      field_simp
      ring
    have hes2 := hes'.symm
    by_cases hx : x = s - t <;> by_cases hy : y = 0
    · subst hx; subst hy; simp [sizesAt, teq, evalPair, Sym.eval, tval, hett, hes2]
    · subst hx; simp [sizesAt, teq, evalPair, Sym.eval, tval, hety, Ne.symm hy, hkey]
    · subst hy
      have hx1 : ¬ s - t = x := fun h => hx h.symm
      have hx2 : ¬ s = x + t := fun h => hx (by linarith)
      simp [sizesAt, teq, evalPair, Sym.eval, tval, hett, hx1, hx2, hkey, hes2]
    · have hx1 : ¬ s - t = x := fun h => hx h.symm
      have hx2 : ¬ s = x + t := fun h => hx (by linarith)
      simp [sizesAt, teq, evalPair, Sym.eval, tval, hety, hx1, hx2, Ne.symm hy, hkey]

/-- non-vacuity: a linear epoch 50 → 150 on (100, 0) cut at 30 (end size 120); the interval (40, 10) of the sliced graph -/
example : (sliceSizeAt SizeFn.linear 30 50 150 (some 100) 0).map (Sym.eval id id fun x _ => x) = some 120
    ∧ (sizesAt SizeFn.linear 50 120 (some (100 - 30)) (some 0) (100 - 30 - 0) (some 40) (some 10)).map (evalPair id id fun x _ => x) = some (80, 110)
    ∧ (sizesAt SizeFn.linear 50 150 (some 100) (some 0) (100 - 0) (some (40 + 30)) (some (10 + 30))).map (evalPair id id fun x _ => x) = some (80, 110) := by
  decide +kernel

/-- **`DemesUtil.slice` on a whole graph**: for `t ≠ 0` the sliced graph consists of the demes that start before `t` ago (start time
    and every epoch moved by `t`, the epoch containing `t` cut as in `C16_slice_epochs`; names, ancestors and proportions kept), the
    pulses older than `t` moved by `t`, and the migrations that start before `t` ago with both ends moved by `t` (the end not below 0);
    everything younger is dropped.  `t = 0` returns the graph. -/
theorem C16_slice_graph (t : ℚ) (g : Graph InEpoch) (ht : t ≠ 0) :
    (sliceGraph t g).demes = (g.demes.filter fun d => !tle d.start (some t)).map
        (fun d => { name := d.name, start := shiftStart t d.start, ancestors := d.ancestors, proportions := d.proportions,
                    epochs := sliceSpec t d.start d.epochs })
    ∧ (sliceGraph t g).pulses = (g.pulses.filter fun p => !decide (p.time ≤ t)).map (fun p => { p with time := p.time - t })
    ∧ (sliceGraph t g).migs = (g.migs.filter fun m => !tle m.st (some t)).map
        (fun m => { m with st := tsub m.st t, et := ratMax 0 (m.et - t) })
    ∧ sliceGraph 0 g = g.toOut := by
  have h0 : (t == 0) = false := by simpa using ht
  have hsp : ∀ d : GDeme InEpoch, loopBreak (shiftStep t) d.start d.epochs = sliceSpec t d.start d.epochs :=
    fun d => C16_slice_epochs t d.start d.epochs
  have hfm : ∀ {α β : Type} (c : α → Bool) (f : α → β) (l : List α),
      l.filterMap (fun x => if c x then none else some (f x)) = (l.filter fun x => !c x).map f := by
    intro α β c f l
    induction l with
    | nil => rfl
    | cons x xs ih =>
      simp only [List.filterMap_cons, List.filter_cons]
      cases c x <;> simp [ih]
  refine ⟨?_, ?_, ?_, by simp [sliceGraph]⟩
  · simp only [sliceGraph, h0, Bool.false_eq_true, if_false, shiftDeme, hsp]
    exact hfm (fun d => tle d.start (some t)) _ g.demes
  · simp only [sliceGraph, h0, Bool.false_eq_true, if_false]
    exact hfm (fun p => decide (p.time ≤ t)) _ g.pulses
  · simp only [sliceGraph, h0, Bool.false_eq_true, if_false]
    exact hfm (fun m => tle m.st (some t)) _ g.migs

/-- **An ancient sample is a frozen branch.**  `_augment_with_ancient_samples(g, sampled, times)` (sample names plain, one time per
    sample; `t` = the youngest sample time) returns exactly: the graph sliced at `t`, in which every deme sampled AT `t` (when `t > 0`)
    is renamed `<deme>_sampled_<t>` everywhere (deme, ancestor lists, migrations, pulses); plus, for every sample `(D, x)` with `x > t`, in
    the order of the samples, one new deme named `<D>_sampled_<x>` whose only ancestor is (the possibly renamed) `D`, which starts at
    `x - t` (i.e. at `x` in the unsliced graph), ends at 0 with one constant epoch; exactly these new demes are in the frozen list, and
    the list of sampled demes names them. -/
theorem C16_ancient_branch (g : Graph InEpoch) (sampled : List DName) (times : List ℚ) (hlen : sampled.length = times.length)
    (hbase : ∀ a ∈ sampled, a.stamps = []) :
    (augment g sampled times).demes
        = (sliceGraph (listMin times) g).demes.map (GDeme.rename (renameOf (listMin times)
            (((sampled.zip times).filter fun p => !decide (p.2 - listMin times > 0) && decide (listMin times > 0)).map (·.1))))
          ++ ((sampled.zip times).filter fun p => decide (p.2 - listMin times > 0)).map (branchDeme (renameOf (listMin times)
            (((sampled.zip times).filter fun p => !decide (p.2 - listMin times > 0) && decide (listMin times > 0)).map (·.1))) (listMin times))
    ∧ (augment g sampled times).migs
        = (sliceGraph (listMin times) g).migs.map (GMig.rename (renameOf (listMin times)
            (((sampled.zip times).filter fun p => !decide (p.2 - listMin times > 0) && decide (listMin times > 0)).map (·.1))))
    ∧ (augment g sampled times).pulses
        = (sliceGraph (listMin times) g).pulses.map (GPulse.rename (renameOf (listMin times)
            (((sampled.zip times).filter fun p => !decide (p.2 - listMin times > 0) && decide (listMin times > 0)).map (·.1))))
    ∧ (augment g sampled times).frozen = ((sampled.zip times).filter fun p => decide (p.2 - listMin times > 0)).map (fun p => p.1.sampledAt p.2)
    ∧ (augment g sampled times).sampled
        = (sampled.zip times).map (fun p => if p.2 - listMin times > 0 ∨ listMin times > 0 then p.1.sampledAt p.2 else p.1) := by
  -- what one pass of the translated loop does, in its three cases
  have F : AugFacts augStep augLoop := by
    refine ⟨fun _ _ _ => rfl, fun _ _ _ _ _ _ => rfl, ?_, ?_, ?_⟩
    · intro t s ii sd st h
      unfold augStep
      simp [h]
    · intro t s ii sd st h1 h2
      have e1 := funext (renameDeme_eq sd (sd.sampledAt (st + t)))
      have e2 := funext (renameMig_eq sd (sd.sampledAt (st + t)))
      have e3 := funext (renamePulse_eq sd (sd.sampledAt (st + t)))
      simp only at e1 e2 e3
      unfold augStep
      simp only [h1, h2, decide_true, decide_false, Bool.or_true, if_true, if_false, Bool.false_eq_true, e1, e2, e3]
    · intro t s ii sd st h1 h2
      unfold augStep
      simp [h1, h2]
  exact augment_spec F augment (fun g sampled times => by unfold augment; rfl) g sampled times hlen hbase

/-- the frozen flag of an integration follows the list of frozen names: the branch of an ancient sample is frozen, nothing else is -/
theorem C16_ancient_frozen (frozenList live : List DName) :
    freezeFlags frozenList live = live.map (fun d => decide (d ∈ frozenList))
    ∧ (freezeFlags frozenList live).length = live.length := by
  unfold freezeFlags
  refine ⟨?_, by simp⟩
  apply List.map_congr_left
  intro d _
  simp [List.contains_iff_mem]

/-- a root (deme 0, size 100, ends 20 ago) with two children: deme 1 grows linearly 50 → 150, deme 2 is constant; migration 1 → 2 -/
private def exGraph : Graph InEpoch :=
  { demes := [{ name := ⟨0, []⟩, start := none, ancestors := [], proportions := [], epochs := [{ fn := SizeFn.constant, ss := 100, es := 100, et := 20 }] }, { name := ⟨1, []⟩, start := some 20, ancestors := [⟨0, []⟩], proportions := [1], epochs := [{ fn := SizeFn.linear, ss := 50, es := 150, et := 0 }] }, { name := ⟨2, []⟩, start := some 20, ancestors := [⟨0, []⟩], proportions := [1], epochs := [{ fn := SizeFn.constant, ss := 80, es := 80, et := 0 }] }],
    migs := [{ source := ⟨1, []⟩, dest := ⟨2, []⟩, sym := none, rate := 1/100, st := some 20, et := 0 }],
    pulses := [] }

/-- non-vacuity: deme 1 sampled now and 7 time units ago: one frozen branch `1~7` of deme 1 starting at 7 -/
example :
    let g := exGraph
    ((augment g [⟨1, []⟩, ⟨1, []⟩] [0, 7]).demes.map fun d => (d.name, d.start, d.ancestors))
        = [(⟨0, []⟩, none, []), (⟨1, []⟩, some 20, [⟨0, []⟩]), (⟨2, []⟩, some 20, [⟨0, []⟩]), (⟨1, [7]⟩, some 7, [⟨1, []⟩])]
    ∧ (augment g [⟨1, []⟩, ⟨1, []⟩] [0, 7]).frozen = [⟨1, [7]⟩]
    ∧ (augment g [⟨1, []⟩, ⟨1, []⟩] [0, 7]).sampled = [⟨1, []⟩, ⟨1, [7]⟩] := by
  decide +kernel

/-- **Whole graph, other reference size** (`decide`-free, every graph of the modelled class): write the same history with sizes and
    times multiplied by `c > 0` and migration rates divided by `c`, and scale the reference size along (the default — the root's size —
    does): the table of integration rows (`T`, live demes in axis order, frozen flags, migration matrix, all-constant flag), the value of
    every `nu` function at every fraction of every integration time (arbitrary `exp`, `log`, power), and the complete list of calls
    `_compute_sfs` makes (integrations, events with the population order at that moment, reorderings, the final `reorder_pops`) are
    unchanged. -/
theorem C16_compose_scale (ex lg : ℚ → ℚ) (pw : ℚ → ℚ → ℚ) {c : ℚ} (hc : 0 < c) (g : Graph InEpoch) (lib : List (ℚ × DEvt))
    (sampled frozenList : List DName) (Ne frac : ℚ) :
    plan (g.rescale c c) frozenList (c * Ne) = plan g frozenList Ne
    ∧ evalNu ex lg pw (planNu (g.rescale c c) (c * Ne) frac) = evalNu ex lg pw (planNu g Ne frac)
    ∧ demoEvents (g.rescale c c) (libScale c lib) sampled = evsScale c (demoEvents g lib sampled)
    ∧ importSteps (g.rescale c c) (libScale c lib) sampled frozenList (c * Ne) = importSteps g lib sampled frozenList Ne
    ∧ (rootNe (g.rescale c c)) = (rootNe g).map (c * ·) :=
  ⟨plan_rescale hc g frozenList Ne, planNu_rescale ex lg pw hc g Ne frac, demoEvents_rescale hc c g lib sampled,
   importSteps_rescale hc g lib sampled frozenList Ne, rootNe_rescale c c g⟩

/-- non-vacuity / sanity of `C16_compose_scale`: a two-deme graph with a migration; doubling sizes and times (and the default reference
    size) leaves two rows with the same `T` and the same matrix -/
example :
    let g := exGraph
    (plan g [] 100).map (fun r => (r.T, r.live.map (·.base), r.M)) = [(0, [0], [[0]]), (1/10, [1, 2], [[0, 0], [2, 0]])]
    ∧ (plan (g.rescale 2 2) [] 200).map (fun r => (r.T, r.live.map (·.base), r.M)) = [(0, [0], [[0]]), (1/10, [1, 2], [[0, 0], [2, 0]])] := by
  decide +kernel

/-- **Whole graph, other time unit**: the same history written in years (every time of the graph and every sample time multiplied by
    the generation time `gt`; rates are per generation in every unit) is turned by `_convert_to_generations` into the graph and the
    sample times in generations — hence the same integration rows, `nu` terms, events and calls. -/
theorem C16_compose_units {gt : ℚ} (hgt : gt ≠ 0) (g : Graph InEpoch) (times : List ℚ) (lib : List (ℚ × DEvt))
    (sampled frozenList : List DName) (Ne : ℚ) :
    convertToGenerations false gt (g.tmap (fun y => gt * y)) (times.map fun x => gt * x) = (g, times)
    ∧ plan (convertToGenerations false gt (g.tmap (fun y => gt * y)) (times.map fun x => gt * x)).1 frozenList Ne = plan g frozenList Ne
    ∧ importSteps (convertToGenerations false gt (g.tmap (fun y => gt * y)) (times.map fun x => gt * x)).1 lib sampled frozenList Ne
        = importSteps g lib sampled frozenList Ne
    ∧ convertToGenerations true gt g times = (g, times) := by
  have hconv : convertToGenerations false gt (g.tmap (fun y => gt * y)) (times.map fun x => gt * x) = (g, times) := by
    unfold convertToGenerations
    simp only [Bool.false_eq_true, if_false, inGenerations_years hgt, List.map_map, Prod.mk.injEq, true_and]
    conv_rhs => rw [← List.map_id times]
    apply List.map_congr_left
    intro x _
    simp [mul_div_cancel_left₀ _ hgt]
  rw [hconv]
  exact ⟨rfl, rfl, rfl, rfl⟩

/-- **Whole graph, order of the sampled demes** (present-day samples): listing the sampled demes in another order (`sampled'` with the
    same members) changes neither the events (marginalisations included) nor any call of `_compute_sfs`; only the final `reorder_pops`
    differs, and it leaves the populations in the requested order — so the axes of the spectrum are permuted exactly like the list of
    sampled demes (`newOrderN` of a selection is the selection of `newOrderN`). -/
theorem C16_compose_order (g : Graph InEpoch) (lib : List (ℚ × DEvt)) (sampled sampled' frozenList : List DName) (Ne : ℚ)
    (hmem : ∀ x, sampled'.contains x = sampled.contains x) :
    demoEvents g lib sampled' = demoEvents g lib sampled
    ∧ importSteps g lib sampled' frozenList Ne
        = (match (importLoop (demoEvents g lib sampled) (firstIds g) (loopRows g frozenList Ne)).2 with
           | some ids => (importLoop (demoEvents g lib sampled) (firstIds g) (loopRows g frozenList Ne)).1 ++ [Step.reorder (newOrderN ids sampled')]
           | none => (importLoop (demoEvents g lib sampled) (firstIds g) (loopRows g frozenList Ne)).1 ++ [Step.fail])
    ∧ (∀ ids : List DName, (∀ p ∈ sampled', p ∈ ids) → applyOrderN ids (newOrderN ids sampled') = sampled')
    ∧ (∀ (ids : List DName) (is : List ℕ),
        newOrderN ids (is.filterMap fun i => sampled[i]?) = is.filterMap fun i => (newOrderN ids sampled)[i]?) := by
  refine ⟨demoEvents_congr g lib sampled sampled' hmem, ?_, fun ids h => applyOrderN_newOrderN ids sampled' h,
    fun ids is => newOrderN_select ids sampled is⟩
  unfold importSteps
  rw [demoEvents_congr g lib sampled sampled' hmem]
  rfl

example : newOrderN [⟨7, []⟩, ⟨3, []⟩, ⟨9, []⟩] [⟨9, []⟩, ⟨7, []⟩] = [3, 1]
    ∧ applyOrderN [⟨7, []⟩, ⟨3, []⟩, ⟨9, []⟩] [3, 1] = [⟨9, []⟩, ⟨7, []⟩] := by decide

/-- **Slicing commutes with the units** (times × `a`, sizes × `b`, rates / `b`; `a = b = c`: another reference size, `b = 1`: another time
    unit): the graph written in the other units, sliced at `a·t`, is the sliced graph written in those units — every deme (sizes of cut
    epochs evaluated, arbitrary `exp` / `log`), pulse and migration. -/
theorem C16_units_slice (ex lg : ℚ → ℚ) (pw : ℚ → ℚ → ℚ) {a b : ℚ} (ha : 0 < a) (hb : b ≠ 0) (t : ℚ) (g : Graph InEpoch) :
    (sliceGraph (a * t) (g.rescale a b)).demes.map (GDeme.ev ex lg pw) = ((sliceGraph t g).demes.map (GDeme.ev ex lg pw)).map (GDeme.rescaleEv a b)
    ∧ (sliceGraph (a * t) (g.rescale a b)).pulses = (sliceGraph t g).pulses.map (GPulse.rescale a)
    ∧ (sliceGraph (a * t) (g.rescale a b)).migs = (sliceGraph t g).migs.map (GMig.rescale a b) :=
  sliceGraph_rescale' ex lg pw ha hb t g

/-- **Unit conversion commutes with the augmentation**: `_augment_with_ancient_samples` on the graph and the sample times written in
    another time unit (every time × `gt`) returns the augmented graph written in that unit — every deme (sliced, renamed and added ones;
    sizes evaluated), migration and pulse with its times × `gt`, names carrying `gt·x` where they carried `x`, the same frozen list and
    sampled demes.  The frozen branch of a sample taken at `x` starts at `gt·x − gt·t`: converting before or after is the same. -/
theorem C16_units_ancient (ex lg : ℚ → ℚ) (pw : ℚ → ℚ → ℚ) {gt : ℚ} (hgt : 0 < gt) (g : Graph InEpoch) (sampled : List DName) (times : List ℚ)
    (hlen : sampled.length = times.length) (hbase : ∀ n ∈ sampled, n.stamps = []) (hg : g.namesBase) :
    (augment (g.rescale gt 1) sampled (times.map (gt * ·))).demes.map (GDeme.ev ex lg pw)
        = ((augment g sampled times).demes.map (GDeme.ev ex lg pw)).map (fun d => GDeme.rename (DName.smap gt) (GDeme.rescaleEv gt 1 d))
    ∧ (augment (g.rescale gt 1) sampled (times.map (gt * ·))).migs
        = (augment g sampled times).migs.map (fun m => GMig.rename (DName.smap gt) (GMig.rescale gt 1 m))
    ∧ (augment (g.rescale gt 1) sampled (times.map (gt * ·))).pulses
        = (augment g sampled times).pulses.map (fun p => GPulse.rename (DName.smap gt) (GPulse.rescale gt p))
    ∧ (augment (g.rescale gt 1) sampled (times.map (gt * ·))).frozen = (augment g sampled times).frozen.map (DName.smap gt)
    ∧ (augment (g.rescale gt 1) sampled (times.map (gt * ·))).sampled = (augment g sampled times).sampled.map (DName.smap gt) :=
  augment_rescale (fun g s t h1 h2 => C16_ancient_branch g s t h1 h2) ex lg pw hgt g sampled times hlen hbase hg

/-- **`SFS` prepares a graph written in years exactly like the graph in generations** (ancient samples included; the order bug of a
    conversion done first with the sample times left in years): with the frozen branches added in the graph's own unit and the conversion
    done afterwards — the order of the source, translated into `sfsPrepare` — the graph handed to the importer is the one obtained from the
    graph in generations: same demes (sizes evaluated), migrations, pulses, frozen list and sampled demes up to the time the new names
    carry, and the same sample times. -/
theorem C16_units_prepare (ex lg : ℚ → ℚ) (pw : ℚ → ℚ → ℚ) {gt : ℚ} (hgt : 0 < gt) (g : Graph InEpoch) (sampled : List DName) (times : List ℚ)
    (hlen : sampled.length = times.length) (hbase : ∀ n ∈ sampled, n.stamps = []) (hg : g.namesBase) :
    (sfsPrepare false gt (g.rescale gt 1) sampled (times.map (gt * ·))).1.demes.map (GDeme.ev ex lg pw)
        = ((sfsPrepare true 1 g sampled times).1.demes.map (GDeme.ev ex lg pw)).map (GDeme.rename (DName.smap gt))
    ∧ (sfsPrepare false gt (g.rescale gt 1) sampled (times.map (gt * ·))).1.migs
        = (sfsPrepare true 1 g sampled times).1.migs.map (GMig.rename (DName.smap gt))
    ∧ (sfsPrepare false gt (g.rescale gt 1) sampled (times.map (gt * ·))).1.pulses
        = (sfsPrepare true 1 g sampled times).1.pulses.map (GPulse.rename (DName.smap gt))
    ∧ (sfsPrepare false gt (g.rescale gt 1) sampled (times.map (gt * ·))).2.1 = (sfsPrepare true 1 g sampled times).2.1.map (DName.smap gt)
    ∧ (sfsPrepare false gt (g.rescale gt 1) sampled (times.map (gt * ·))).2.2.1 = (sfsPrepare true 1 g sampled times).2.2.1.map (DName.smap gt)
    ∧ (sfsPrepare false gt (g.rescale gt 1) sampled (times.map (gt * ·))).2.2.2 = (sfsPrepare true 1 g sampled times).2.2.2 := by
  have hne : gt ≠ 0 := ne_of_gt hgt
  have hany : (times.map (gt * ·)).any (fun x => x != 0) = times.any (fun x => x != 0) := by
    rw [List.any_map]
    congr 1
    funext x
    by_cases hx : x = 0
    · simp [hx]
    · have h0 : gt * x ≠ 0 := mul_ne_zero hne hx
      have h1 : (gt * x != 0) = true := bne_iff_ne.2 h0
      have h2 : (x != 0) = true := bne_iff_ne.2 hx
      show (gt * x != 0) = (x != 0)
      rw [h1, h2]
  obtain ⟨A1, A2, A3, A4, A5⟩ := C16_units_ancient ex lg pw hgt g sampled times hlen hbase hg
  unfold sfsPrepare convertToGenerations
  simp only [hany, Bool.not_false, Bool.not_true, Bool.false_eq_true, if_true, if_false]
  by_cases h : times.any (fun x => x != 0) = true
  · simp only [h, if_true, Graph.inGenerations, Graph.tmap]
    refine ⟨?_, ?_, ?_, A5, A4, ?_⟩
    · rw [List.map_map]
      have : List.map (GDeme.ev ex lg pw ∘ GDeme.tmap fun x => x / gt) (augment (g.rescale gt 1) sampled (times.map (gt * ·))).demes
          = ((augment (g.rescale gt 1) sampled (times.map (gt * ·))).demes.map (GDeme.ev ex lg pw)).map (GDeme.tmap fun x => x / gt) := by
        rw [List.map_map]
        apply List.map_congr_left
        intro d _
        exact tmap_ev ex lg pw _ d
      rw [this, A1, List.map_map]
      apply List.map_congr_left
      intro d _
      exact tmap_rescaleEv hne _ d
    · rw [A2, List.map_map]
      apply List.map_congr_left
      intro m _
      obtain ⟨s1, d1, sy, r, st, et⟩ := m
      cases st <;> simp [GMig.tmap, GMig.rename, GMig.rescale, tmapT, tscale, mul_div_cancel_left₀ _ hne]
    · rw [A3, List.map_map]
      apply List.map_congr_left
      intro p _
      simp [GPulse.tmap, GPulse.rename, GPulse.rescale, mul_div_cancel_left₀ _ hne]
    · simp [List.map_map, Function.comp_def]
  · have h' : times.any (fun x => x != 0) = false := by simpa using h
    obtain ⟨hd, hm, hp⟩ := hg
    simp only [h', Bool.false_eq_true, if_false, Graph.inGenerations, Graph.tmap, Graph.toOut, Graph.rescale, List.map_map]
    refine ⟨?_, ?_, ?_, ?_, rfl, ?_⟩
    · apply List.map_congr_left
      intro d hdm
      obtain ⟨h1, h2⟩ := hd d hdm
      have hb : GDeme.rename (DName.smap gt) (GDeme.ev ex lg pw (GDeme.toOut d)) = GDeme.ev ex lg pw (GDeme.toOut d) :=
        rename_base_deme gt _ h1 h2
      simp only [Function.comp_def, hb]
      obtain ⟨n, st, an, pr, ep⟩ := d
      simp only [GDeme.tmap, GDeme.ev, GDeme.toOut, GDeme.rescale, List.map_map, GDeme.mk.injEq, true_and]
      refine ⟨?_, ?_⟩
      · cases st <;> simp [tmapT, tscale, mul_div_cancel_left₀ _ hne]
      · apply List.map_congr_left
        intro e _
        simp [TimeScalable.tmap, OutEpoch.ev, InEpoch.toOut, InEpoch.rescale, Sym.eval, mul_div_cancel_left₀ _ hne]
    · apply List.map_congr_left
      intro m hmm
      obtain ⟨h1, h2⟩ := hm m hmm
      obtain ⟨s1, d1, sy, r, st, et⟩ := m
      simp only at h1 h2
      cases st <;> simp [GMig.tmap, GMig.rename, GMig.rescale, tmapT, tscale, mul_div_cancel_left₀ _ hne, smap_base gt _ h1, smap_base gt _ h2]
    · apply List.map_congr_left
      intro p hpm
      obtain ⟨h1, h2⟩ := hp p hpm
      obtain ⟨so, d1, pr, tm⟩ := p
      simp only at h1 h2
      simp only [Function.comp_def, GPulse.tmap, GPulse.rename, GPulse.rescale, mul_div_cancel_left₀ _ hne, smap_base gt _ h1, GPulse.mk.injEq,
        true_and, and_true]
      conv_lhs => rw [← List.map_id so]
      apply List.map_congr_left
      intro x hx
      exact (smap_base gt x (h2 x hx)).symm
    · conv_lhs => rw [← List.map_id sampled]
      apply List.map_congr_left
      intro x hx
      exact (smap_base gt x (hbase x hx)).symm
    · conv_rhs => rw [← List.map_id times]
      apply List.map_congr_left
      intro x _
      simp [mul_div_cancel_left₀ _ hne]

/-- non-vacuity: `exGraph` in years (generation time 25), deme 1 sampled now and 7 generations = 175 years ago: after the preparation the
    frozen branch starts 7 generations ago -/
example : exGraph.namesBase
    ∧ ((sfsPrepare false 25 (exGraph.rescale 25 1) [⟨1, []⟩, ⟨1, []⟩] [0, 175]).1.demes.map fun d => (d.name, d.start))
        = [(⟨0, []⟩, none), (⟨1, []⟩, some 20), (⟨2, []⟩, some 20), (⟨1, [175]⟩, some 7)] := by
  refine ⟨?_, by decide +kernel⟩
  refine ⟨?_, ?_, ?_⟩ <;> simp [exGraph]

/-- **The order in which the samples are listed** (ancient samples): permuting the (deme, time) pairs leaves the sliced / renamed part of
    the augmented graph, its migrations and pulses unchanged; only the order of the appended frozen branches (and of the frozen list)
    follows the order of the samples — the final `reorder_pops` (`C16_compose_order`) undoes that on the axes. -/
theorem C16_ancient_order (g : Graph InEpoch) (sampled sampled' : List DName) (times times' : List ℚ)
    (hlen : sampled.length = times.length) (hlen' : sampled'.length = times'.length)
    (hbase : ∀ a ∈ sampled, a.stamps = []) (hperm : (sampled'.zip times').Perm (sampled.zip times)) :
    (augment g sampled' times').demes.Perm (augment g sampled times).demes
    ∧ (augment g sampled' times').migs = (augment g sampled times).migs
    ∧ (augment g sampled' times').pulses = (augment g sampled times).pulses
    ∧ (augment g sampled' times').frozen.Perm (augment g sampled times).frozen
    ∧ (augment g sampled' times').demes.take (sliceGraph (listMin times) g).demes.length
        = (augment g sampled times).demes.take (sliceGraph (listMin times) g).demes.length :=
  augment_perm (fun g s t h1 h2 => C16_ancient_branch g s t h1 h2) g sampled sampled' times times' hlen hlen' hbase hperm

example : ((augment exGraph [⟨2, []⟩, ⟨1, []⟩, ⟨1, []⟩] [3, 0, 7]).demes.map (·.name)) = [⟨0, []⟩, ⟨1, []⟩, ⟨2, []⟩, ⟨2, [3]⟩, ⟨1, [7]⟩]
    ∧ ((augment exGraph [⟨1, []⟩, ⟨1, []⟩, ⟨2, []⟩] [7, 0, 3]).demes.map (·.name)) = [⟨0, []⟩, ⟨1, []⟩, ⟨2, []⟩, ⟨1, [7]⟩, ⟨2, [3]⟩] := by
  decide +kernel

/-- **What the two search loops of the import return.**  `_migration_rate_in_interval` on a resolved graph: the rate of the LAST migration
    source → dest whose time span contains the interval, 0 if none;  the epoch `_sizes_at_time` works with: the FIRST epoch of the deme whose
    time span contains the interval, or — the loop has no `break`-less exit — the deme's last epoch when none does. -/
theorem C16_import_search (migs : List GMig) (hasym : ∀ m ∈ migs, m.sym = none) (s d : DName) (eps : List Epoch) (i0 i1 : ETime) :
    (migRate migs s d i0 i1 = match (migs.filter fun m => m.source == s && m.dest == d && (tge m.st i0 && tle (some m.et) i1)).getLast? with
      | some m => m.rate
      | none => 0)
    ∧ ∀ e, epochSearch eps i0 i1 = some e →
        (epochCovers e.st e.et i0 i1 = true ∧ ∃ pre post, eps = pre ++ e :: post ∧ ∀ y ∈ pre, epochCovers y.st y.et i0 i1 = false)
        ∨ ((∀ y ∈ eps, epochCovers y.st y.et i0 i1 = false) ∧ eps.getLast? = some e) := by
  constructor
  · unfold migRate
    have hstep : ∀ m ∈ migs, ∀ r : ℚ, migRateStep r m s d i0 i1
        = if (m.source == s && m.dest == d && (tge m.st i0 && tle (some m.et) i1)) then m.rate else r := by
      intro m hm r
      unfold migRateStep
      rw [hasym m hm]
      simp only
      cases h1 : (m.source == s && m.dest == d) <;> cases h2 : (tge m.st i0 && tle (some m.et) i1) <;> simp [h1, h2]
    have hfold : ∀ (l : List GMig), (∀ m ∈ l, m ∈ migs) → ∀ init : ℚ,
        l.foldl (fun r m => migRateStep r m s d i0 i1) init
          = l.foldl (fun r m => if (m.source == s && m.dest == d && (tge m.st i0 && tle (some m.et) i1)) then m.rate else r) init := by
      intro l
      induction l with
      | nil => intro _ init; rfl
      | cons m ms ih =>
        intro hsub init
        simp only [List.foldl_cons]
        rw [hstep m (hsub m List.mem_cons_self), ih (fun x hx => hsub x (List.mem_cons_of_mem _ hx))]
    rw [hfold migs (fun m hm => hm), foldl_last_match]
    simp only [migRateInit]
    cases (migs.filter fun m => m.source == s && m.dest == d && (tge m.st i0 && tle (some m.et) i1)).getLast? <;> simp
  · intro e h
    unfold epochSearch forBreak at h
    cases hf : eps.find? (fun epoch => tge epoch.st i0 && tle epoch.et i1) with
    | some x =>
      rw [hf] at h
      simp only [Option.some.injEq] at h
      subst h
      left
      obtain ⟨hc, pre, post, hl, hpre⟩ := List.find?_eq_some_iff_append.1 hf
      refine ⟨hc, pre, post, hl, ?_⟩
      intro y hy
      have := hpre y hy
      unfold epochCovers
      cases h1 : tge y.st i0 <;> cases h2 : tle y.et i1 <;> simp_all
    | none =>
      rw [hf] at h
      right
      refine ⟨?_, h⟩
      intro y hy
      have := List.find?_eq_none.1 hf y hy
      simpa [epochCovers] using this

example : migRate exGraph.migs ⟨1, []⟩ ⟨2, []⟩ (some 20) (some 0) = 1/100 ∧ migRate exGraph.migs ⟨2, []⟩ ⟨1, []⟩ (some 20) (some 0) = 0
    ∧ (epochSearch (epochsOf (some 20) [{ fn := SizeFn.constant, ss := 5, es := 5, et := 10 }, { fn := SizeFn.linear, ss := 5, es := 9, et := 0 }]) (some 10) (some 4)).map (·.fn)
        = some SizeFn.linear := by
  decide +kernel

/-! ## round 5: the import loop translated statement by statement (`Generated/DemesProg.lean`)

`tools/gen_DemesProg.py` translates `_sizes_at_time`, `_migration_rate_in_interval`, `_make_nu_func`, `_get_integration_parameters`,
`_get_demographic_events`, `_integrate_phi`, `_apply_event`, `_compute_sfs` and the tail of `SFS` statement by statement (`phi` = the history of
the numerical calls, exceptions = `none`).  The driver executes these generated programs (ops `c16g gevents | gparams | gimport | gapply |
gintegrate`).  The theorems `C16_source_*` identify each of them (by `rfl`) with the reference program of `Model/DemesProg.lean`, about which the
lemma files prove the closed forms and invariances: a change of the source breaks the `rfl` of the function it touches. -/

theorem C16_source_sizes_at_time : @Gen.DemesProg.sizesAtTime = @sizesAtTimeRef := rfl
theorem C16_source_migration_rate : @Gen.DemesProg.migrationRateInInterval = @migrationRateInIntervalRef := rfl
theorem C16_source_make_nu_func : @Gen.DemesProg.makeNuFunc = @makeNuFuncRef := rfl
theorem C16_source_integration_parameters : @Gen.DemesProg.getIntegrationParameters = @getIntegrationParametersRef := rfl
theorem C16_source_demographic_events : @Gen.DemesProg.getDemographicEvents = @getDemographicEventsRef := rfl
theorem C16_source_integrate_phi : @Gen.DemesProg.integratePhi = @integratePhiRef := rfl
theorem C16_source_apply_event : @Gen.DemesProg.applyEvent = @applyEventRef := rfl
theorem C16_source_compute_sfs : @Gen.DemesProg.computeSfs = @computeSfsRef := rfl
theorem C16_source_sfs : @Gen.DemesProg.sfsImport = @sfsImportRef := rfl

/-- **`_integrate_phi`, every keyword receives the entry of its own index.**  For d = 1 … 5 populations (and `integration_params` of that
    size, the gamma / h lists filled with one scalar as `_compute_sfs` builds them) the generated dispatch + Python's binding of the call
    hands `dadi.Integration.<d>_pops` exactly: `nu<k>` = `nu[k-1]`, `frozen<k>` = `frozen[k-1]`, `m<i><j>` = `M[i-1, j-1]`, `T`, `theta0`,
    `deme_ids` — one call, appended to the history.  For any other number of populations no branch applies and `phi` is returned as it is.
    (seeded/C16-8, `frozen5=frozen[3]`, breaks this theorem.) -/
theorem C16_integrate_wiring {ν : Type} (d : ℕ) (phi : Trace ν) (p : IntegParams ν) (ids : List DName) (γ η : ℚ)
    (hids : ids.length = d) (hnu : p.nu.length = d) (hfr : p.frozen.length = d) (hg : p.gamma = List.replicate d γ)
    (hh : p.h = List.replicate d η) (hM : p.M.length = d) (hrow : ∀ r ∈ p.M, r.length = d) :
    (1 ≤ d ∧ d ≤ 5 → Gen.DemesProg.integratePhi phi p ids = some (phi ++ [PCall.integrate { fn := integName d, T := p.T, nu := p.nu, m := offDiag d p.M, gamma := List.replicate d γ, h := List.replicate d η, theta := p.theta, frozen := p.frozen, ids := ids }]))
    ∧ (d = 0 ∨ 5 < d → Gen.DemesProg.integratePhi phi p ids = some phi) := by
  have key : ∀ k ∈ [1, 2, 3, 4, 5], (match integCalls.find? (fun c => c.npop == k) with
      | some c => c.npop == k && wiringOk c
      | none => false) = true := by decide
  have rng : ∀ c ∈ integCalls, 1 ≤ c.npop ∧ c.npop ≤ 5 := by decide
  constructor
  · rintro ⟨h1, h5⟩
    have hk : d ∈ [1, 2, 3, 4, 5] := by
      simp only [List.mem_cons, List.not_mem_nil, or_false]; omega
    have := key d hk
    unfold Gen.DemesProg.integratePhi
    rw [hids]
    cases hf : integCalls.find? (fun c => c.npop == d) with
    | none => rw [hf] at this; simp at this
    | some c =>
      rw [hf] at this
      simp only [Bool.and_eq_true, beq_iff_eq] at this
      obtain ⟨hn, hw⟩ := this
      subst hn
      simp only [bindIntegrate_spec c hw p ids γ η hnu hfr hg hh hM hrow, Option.map_some]
  · intro h
    unfold Gen.DemesProg.integratePhi
    rw [hids]
    have : integCalls.find? (fun c => c.npop == d) = none := by
      rw [List.find?_eq_none]
      intro c hc
      have := rng c hc
      simp only [beq_iff_eq]
      omega
    rw [this]

/-- non-vacuity: three populations, the third frozen, an asymmetric matrix -/
example : Gen.DemesProg.integratePhi ([] : Trace ℕ) { nu := [7, 8, 9], T := 1/4, M := [[0, 12, 13], [21, 0, 23], [31, 32, 0]], gamma := [0, 0, 0], h := [1/2, 1/2, 1/2], theta := 1, frozen := [false, false, true] } [⟨0, []⟩, ⟨1, []⟩, ⟨2, []⟩]
    = some [PCall.integrate { fn := "three_pops", T := 1/4, nu := [7, 8, 9], m := [[0, 12, 13], [21, 0, 23], [31, 32, 0]], gamma := [0, 0, 0], h := [1/2, 1/2, 1/2], theta := 1, frozen := [false, false, true], ids := [⟨0, []⟩, ⟨1, []⟩, ⟨2, []⟩] }] := by
  decide +kernel

/-- the generated formulas under a division of the reference size (the facts `Lemmas/DemesProgParams.lean` needs, proved from their text) -/
theorem neFacts (ex lg : ℚ → ℚ) (pw : ℚ → ℚ → ℚ) : NeFacts ex lg pw := by
  have hd : ∀ x Ne c : ℚ, x / (Ne / c) = c * (x / Ne) := by
    intro x Ne c
    rw [div_div_eq_mul_div, mul_comm x c, mul_div_assoc]
  refine ⟨?_, ?_, ?_, ?_, ?_, ?_⟩
  · intro i0 i1 Ne c _
    unfold intTime
    split_ifs
    · simp
    · exact hd _ _ _
  · intro Ne m c hc
    unfold migEntry
    field_simp
  · intro N0 Ne c _
    simp only [nuConstList, Sym.eval, hd]
  · intro N0 NF Ne T t c _
    simp only [nuConstFn, Sym.eval, hd]
  · intro N0 NF Ne T t c hc
    simp only [nuLinear, Sym.eval, hd, mul_div_mul_left _ _ hc]
    ring
  · intro N0 NF Ne T t c hc
    simp only [nuExp, Sym.eval, hd, mul_div_mul_left _ _ hc]
    ring

/-- **The user's `Ne` reaches every place a size, a time or a rate is scaled.**  `_get_integration_parameters` (the generated program) called
    with the reference size `Ne / c` instead of `Ne` — same graph, same `demes_present`, same frozen list — returns: every integration time
    `c` times larger, every entry of every migration matrix `c` times smaller, every relative size `c` times larger (at every fraction of
    every integration time: constant, linear and exponential size functions, the infinite root epoch whose size seeds `phi_1D`, and the
    frozen branches of ancient samples, whose absolute size is 1), the frozen flags unchanged, and it raises in the same cases; with
    `Ne = None` it works with `_get_root_Ne(g)`.  This is the C03 re-scaling of the whole program (`C16_units_Ne` for one quantity), which
    holds only if `Ne` is passed on to `_make_nu_func`, to `T` and to the migration matrix alike (seeded/C16-7 scaled the migration
    matrix by the root size). -/
theorem C16_ne_threaded (ex lg : ℚ → ℚ) (pw : ℚ → ℚ → ℚ) {c : ℚ} (hc : c ≠ 0) (g : Graph InEpoch) (dp : PyDD (ETime × ETime) DName)
    (fz : List DName) (Ne frac : ℚ) :
    (Gen.DemesProg.getIntegrationParameters g dp fz (some (Ne / c))).map (evalParams ex lg pw frac)
      = ((Gen.DemesProg.getIntegrationParameters g dp fz (some Ne)).map (evalParams ex lg pw frac)).map (scaleParams c)
    ∧ Gen.DemesProg.getIntegrationParameters g dp fz none = (rootNe g).bind fun n => Gen.DemesProg.getIntegrationParameters g dp fz (some n) := by
  have hrow : migRowIsDest = true := by decide
  have hentry : ∀ Ne m : ℚ, migEntry Ne m = (2 * Ne) * m := fun _ _ => rfl
  rw [C16_source_integration_parameters]
  refine ⟨getIntegrationParametersRef_ne (neFacts ex lg pw) hrow hentry hc g dp fz Ne frac, ?_⟩
  rw [getIntegrationParametersRef_eq hrow hentry]
  cases h : rootNe g with
  | none => simp [neOf, h]
  | some n => simp [neOf, h, getIntegrationParametersRef_eq hrow hentry]

/-- non-vacuity: `exGraph` (a linear deme, a migration) with its two intervals, reference sizes 100 and 50 -/
private def exDp : PyDD (ETime × ETime) DName := [((none, some 20), [⟨0, []⟩]), ((some 20, some 0), [⟨1, []⟩, ⟨2, []⟩])]

example :
    ((Gen.DemesProg.getIntegrationParameters exGraph exDp [] (some 100)).map fun q => (evalParams id id (fun x _ => x) (1/2) q).1) = some [[1], [1, 4/5]]
    ∧ ((Gen.DemesProg.getIntegrationParameters exGraph exDp [] (some 100)).map fun q => (q.2.1, q.2.2.1)) = some ([[[0]], [[0, 0], [2, 0]]], [0, 1/10])
    ∧ ((Gen.DemesProg.getIntegrationParameters exGraph exDp [] (some 50)).map fun q => (evalParams id id (fun x _ => x) (1/2) q).1) = some [[2], [2, 8/5]]
    ∧ ((Gen.DemesProg.getIntegrationParameters exGraph exDp [] (some 50)).map fun q => (q.2.1, q.2.2.1)) = some ([[[0]], [[0, 0], [1, 0]]], [0, 1/5]) := by
  decide +kernel

/-! ### the generated programs are the hand-written composition -/

/-- the four facts about generated one-liners of `Generated/Demes.lean` the closed forms rest on (their text) -/
theorem demePresent_text : ∀ s e i0 i1 : ETime, demePresent s e i0 i1 = (tge s i0 && tle e i1) := fun _ _ _ _ => rfl
theorem marginalizeCond_text : ∀ (sp : List DName) (d : DName) (e : ETime) (ss : List ETime),
    marginalizeCond sp d e ss = ((!sp.contains d) && ((ss.length == 0) || (ss.all fun s => (!tle s e)))) := fun _ _ _ _ => rfl
theorem migEntry_text : ∀ Ne m : ℚ, migEntry Ne m = (2 * Ne) * m := fun _ _ => rfl

/-- **`_get_demographic_events` = the model's `demesPresent` and `demoEvents`.**  For a graph with distinct deme names the generated program
    raises unless exactly one deme starts at `inf`; otherwise it returns two dicts such that: a read `demo_events[t]` gives the events of
    `demoEvents` at `t` in its order; `sorted(demes_present.items())[::-1]` (what `_get_integration_parameters` iterates over) is
    `demesPresent g` with the demes replaced by their names, `sorted(list(demes_present.keys()))[::-1]` (`integration_intervals` of
    `_compute_sfs`) its intervals; a read `demes_present[iv]` gives the names of `liveIn g iv` for an integration interval. -/
theorem C16_source_events (g : Graph InEpoch) (hnd : (g.demes.map (·.name)).Nodup) (lib : LibEvents) (sp : List DName) :
    Gen.DemesProg.getDemographicEvents g lib sp
        = (if (g.demes.any fun d => decide (d.start = none)) && ((g.demes.filter fun d => decide (d.start = none)).length == 1)
           then some (evOf g lib sp, presOf g) else none)
    ∧ (∀ t, ddGet (evOf g lib sp) t = eventsAt (demoEvents g lib.toList sp) t)
    ∧ pySortedItemsDesc (presOf g) = (demesPresent g).map (fun p => (p.1, p.2.map (·.name)))
    ∧ pySortedKeysDesc (ddKeys (presOf g)) = (demesPresent g).map (·.1)
    ∧ ∀ iv, ddGet (presOf g) iv = if iv ∈ intervals g then (liveIn g iv.1 iv.2).map (·.name) else [] := by
  rw [C16_source_demographic_events]
  exact getDemographicEventsRef_spec demePresent_text marginalizeCond_text g hnd lib sp

/-- non-vacuity: `exGraph` with its split -/
example : (exGraph.demes.map (·.name)).Nodup
    ∧ pySortedItemsDesc (presOf exGraph) = [((none, some 20), [⟨0, []⟩]), ((some 20, some 0), [⟨1, []⟩, ⟨2, []⟩])] := by
  decide +kernel

/-- **`_get_integration_parameters` = one `paramRow` per interval**, in the order of `sorted(demes_present.items())[::-1]`: `T` by `intTime`,
    `freeze` by membership in the frozen list, the size closures of `_make_nu_func` on the sizes `_sizes_at_time` finds, and the matrix
    `migMatrix` (entry `[i][j]` = `2 Ne ·` rate of the migration from deme j into deme i) — the row `planRow` of the model;
    it raises exactly when `_get_root_Ne`, a `_sizes_at_time` or `_make_nu_func` does. -/
theorem C16_source_parameters (g : Graph InEpoch) (dp : PyDD (ETime × ETime) DName) (fz : List DName) (Ne : Option ℚ) :
    Gen.DemesProg.getIntegrationParameters g dp fz Ne
      = (neOf g Ne).bind fun Ne => ((pySortedItemsDesc dp).mapM (paramRow g fz Ne)).map fun rows =>
          (rows.map (·.2.2.1), rows.map (·.2.2.2), rows.map (·.1), rows.map (·.2.1)) := by
  rw [C16_source_integration_parameters]
  exact getIntegrationParametersRef_eq (by decide) migEntry_text g dp fz Ne

/-- **`_apply_event`, event kind by event kind** (`applyEventSpec`): the calls appended to the history and the populations afterwards -/
theorem C16_source_event {ν : Type} (phi : Trace ν) (ids : List DName) (e : DEvt) (t : ETime) (dp : PyDD (ETime × ETime) DName) :
    Gen.DemesProg.applyEvent phi ids e t dp = (applyEventSpec ids e).map fun r => (phi ++ r.1, r.2) := by
  rw [C16_source_apply_event]
  exact applyEventRef_eq phi ids e t dp

/-- a merger of the demes on axes 0 and 2 of four: the child is appended, then the parents are removed one by one -/
example : applyEventSpec (ν := ℕ) [⟨0, []⟩, ⟨1, []⟩, ⟨2, []⟩, ⟨3, []⟩] (DEvt.merge [⟨0, []⟩, ⟨2, []⟩] [1/4, 3/4] ⟨4, []⟩)
    = some ([PCall.admixNew [1/4, 3/4] [⟨0, []⟩, ⟨1, []⟩, ⟨2, []⟩, ⟨3, []⟩] [⟨0, []⟩, ⟨2, []⟩] [⟨0, []⟩, ⟨1, []⟩, ⟨2, []⟩, ⟨3, []⟩, ⟨4, []⟩],
             PCall.removePop 1, PCall.removePop 2], [⟨1, []⟩, ⟨3, []⟩, ⟨4, []⟩]) := by
  decide +kernel

/-- **The whole import (the tail of `SFS`) = the hand-written composition `importCF`**: for a graph with distinct deme names, the history of
    `phi` the generated program produces — `phi_1D` with the root's relative size, then per interval of `demesPresent g` the integration with
    the row of `paramRow` (keywords bound as `C16_integrate_wiring` says), the events of `demoEvents` at the interval's end applied as
    `applyEventSpec` says, the reordering to the next interval's deme order, finally `reorder_pops` to the order of `sampled_pops` and
    `from_phi` — is `importCF`, a function of `demesPresent`, `demoEvents`, `intTime`, `migMatrix`, `freezeFlags`, the size terms and the
    generated call table; it raises exactly when `importCF` is `none`. -/
theorem C16_source_import (g : Graph InEpoch) (hnd : (g.demes.map (·.name)).Nodup) (lib : LibEvents) (sp fz : List DName) (Ne : Option ℚ)
    (θ : ℚ) (γ η : Option ℚ) :
    Gen.DemesProg.sfsImport lib g sp fz Ne θ γ η = importCF g lib sp fz Ne θ γ η := by
  rw [C16_source_sfs]
  exact sfsImportRef_eq demePresent_text marginalizeCond_text (by decide) migEntry_text g hnd lib sp fz Ne θ γ η

/-- the generated size formulas under a common scaling of the sizes and the reference size (the facts `Lemmas/DemesProgScale.lean` needs) -/
theorem scaleFacts (ex lg : ℚ → ℚ) (pw : ℚ → ℚ → ℚ) : ScaleFacts ex lg pw := by
  refine ⟨?_, ?_, ?_, ?_⟩
  · intro a a' Ne c hc h
    simp only [nuConstList, Sym.eval, h, mul_div_mul_left _ _ hc]
  · intro a a' b b' Ne T t c hc h1 _
    simp only [nuConstFn, Sym.eval, h1, mul_div_mul_left _ _ hc]
  · intro a a' b b' Ne T t c hc h1 h2
    simp only [nuLinear, Sym.eval, h1, h2, mul_div_mul_left _ _ hc, ← mul_sub]
    rw [← mul_assoc, mul_comm (t / T) c, mul_assoc, mul_div_mul_left _ _ hc]
  · intro a a' b b' Ne T t c hc h1 h2
    simp only [nuExp, Sym.eval, h1, h2, mul_div_mul_left _ _ hc]

/-- **Whole import, other reference size of the graph — on the source.**  Write the same history with sizes and times multiplied by `c > 0`
    and migration rates divided by `c` (the library then reports the same discrete events at the scaled times), and scale an explicit
    reference size along (the default — the root's size — does by itself): the generated tail of `SFS` produces the same history of `phi`,
    call by call — `phi_1D` with the same relative root size, every `dadi.Integration.<d>_pops` call with the same `T`, migration matrix,
    frozen flags, deme order and the same value of every size argument at every fraction of `T` (arbitrary `exp`, `log`, power), every
    `_split_phi` / `_admix_*` / `remove_pop` / `reorder_pops` call with the same arguments — and raises in the same cases.
    (`C16_compose_scale` as a statement about the translated source.) -/
theorem C16_source_scale (ex lg : ℚ → ℚ) (pw : ℚ → ℚ → ℚ) {c : ℚ} (hc : 0 < c) (g : Graph InEpoch) (hnd : (g.demes.map (·.name)).Nodup)
    (lib : LibEvents) (sp fz : List DName) (Ne : Option ℚ) (θ : ℚ) (γ η : Option ℚ) (frac : ℚ) :
    (Gen.DemesProg.sfsImport (lib.scale c) (g.rescale c c) sp fz (Ne.map (c * ·)) θ γ η).map (Trace.ev ex lg pw frac)
      = (Gen.DemesProg.sfsImport lib g sp fz Ne θ γ η).map (Trace.ev ex lg pw frac) := by
  have hnd' : ((g.rescale c c).demes.map (·.name)).Nodup := by
    rw [show (g.rescale c c).demes = g.demes.map (GDeme.rescale c c) from rfl, map_name_rescale]
    exact hnd
  rw [C16_source_import g hnd, C16_source_import (g.rescale c c) hnd']
  exact importCF_rescale (scaleFacts ex lg pw) hc g lib sp fz Ne θ γ η frac

/-- **Whole import, order of the sampled demes — on the source** (present-day samples): another order `sampled'` of the same demes changes
    nothing up to the end of `_compute_sfs` (same marginalisations, same calls, same population order); only the final
    `reorder_pops(phi, [current.index(p)+1 for p in sampled'])` and the `pop_ids` of `from_phi` follow the new order. -/
theorem C16_source_order (g : Graph InEpoch) (hnd : (g.demes.map (·.name)).Nodup) (lib : LibEvents) (sp sp' fz : List DName) (Ne : Option ℚ)
    (θ : ℚ) (γ η : Option ℚ) (hmem : ∀ x, sp'.contains x = sp.contains x) :
    Gen.DemesProg.sfsImport lib g sp' fz Ne θ γ η = (importCore g lib sp fz Ne θ γ η).bind fun r =>
      (sp'.mapM fun x => (pyIndex r.2 x).map (· + 1)).map fun order => r.1 ++ [PCall.reorder order] ++ [PCall.fromPhi sp'] := by
  rw [C16_source_import g hnd, importCF_core, importCore_congr g lib sp sp' fz Ne θ γ η hmem]

/-- non-vacuity of the two theorems: `exGraph` with its split, sampled (2, 1); doubled -/
private def exLib : LibEvents := { pulses := [], branches := [], mergers := [], admixtures := [], splits := [{ parent := ⟨0, []⟩, children := [⟨1, []⟩, ⟨2, []⟩], time := 20 }] }

example : ((Gen.DemesProg.sfsImport exLib exGraph [⟨2, []⟩, ⟨1, []⟩] [] none 1 none none).map fun t => t.length) = some 5
    ∧ ((Gen.DemesProg.sfsImport (exLib.scale 2) (exGraph.rescale 2 2) [⟨2, []⟩, ⟨1, []⟩] [] none 1 none none).map fun t => t.length) = some 5 := by
  decide +kernel

/-! ## round 5: the frozen branch of an ancient sample under a change of the reference size -/

/-- **Ancient samples, sizes in other units.**  Write the graph with times × a, sizes × b, rates / b (a = b = c: another reference size) and
    the sample times × a: `_augment_with_ancient_samples` returns the augmented graph written in those units — sliced / renamed demes (sizes
    of cut epochs evaluated), migrations, pulses, names carrying `a·x` — EXCEPT that the appended frozen branches (exactly the demes of the
    frozen list, in its order) keep `start_size = 1`: their times are in the new unit, their size is not rescaled.  Equivalently: it is the
    rescaling of the augmented graph whose frozen branches have size `1 / b`.  So under a change of the reference size (b = c, Ne × c) every
    parameter dadi receives is unchanged (`C16_source_scale` applied to that graph) except the relative size of the frozen branches, which
    is `1 / (c·Ne)` instead of `1 / Ne`. -/
theorem C16_units_ancient_sizes (ex lg : ℚ → ℚ) (pw : ℚ → ℚ → ℚ) {a b : ℚ} (ha : 0 < a) (hb : b ≠ 0) (g : Graph InEpoch) (sampled : List DName)
    (times : List ℚ) (hlen : sampled.length = times.length) (hbase : ∀ n ∈ sampled, n.stamps = []) (hg : g.namesBase) :
    (augment (g.rescale a b) sampled (times.map (a * ·))).demes.map (GDeme.ev ex lg pw)
        = ((((augment g sampled times).demes.map (GDeme.ev ex lg pw)).take (sliceGraph (listMin times) g).demes.length)
            ++ (((augment g sampled times).demes.map (GDeme.ev ex lg pw)).drop (sliceGraph (listMin times) g).demes.length).map (GDeme.rescaleEv 1 (1 / b))).map
            (fun d => GDeme.rename (DName.smap a) (GDeme.rescaleEv a b d))
    ∧ ((augment g sampled times).demes.drop (sliceGraph (listMin times) g).demes.length).map (·.name) = (augment g sampled times).frozen
    ∧ (augment (g.rescale a b) sampled (times.map (a * ·))).migs
        = (augment g sampled times).migs.map (fun m => GMig.rename (DName.smap a) (GMig.rescale a b m))
    ∧ (augment (g.rescale a b) sampled (times.map (a * ·))).pulses
        = (augment g sampled times).pulses.map (fun p => GPulse.rename (DName.smap a) (GPulse.rescale a p))
    ∧ (augment (g.rescale a b) sampled (times.map (a * ·))).frozen = (augment g sampled times).frozen.map (DName.smap a)
    ∧ (augment (g.rescale a b) sampled (times.map (a * ·))).sampled = (augment g sampled times).sampled.map (DName.smap a) := by
  obtain ⟨h1, h2, h3, h4, h5, h6⟩ := augment_rescale_sizes (fun g s t h1 h2 => C16_ancient_branch g s t h1 h2) ex lg pw ha hb g sampled times hlen hbase hg
  refine ⟨?_, h2, h3, h4, h5, h6⟩
  rw [h1, List.map_append, List.map_map]
  congr 1
  apply List.map_congr_left
  intro d _
  simp only [Function.comp_def, GDeme.rescaleEv, List.map_map, EvEpoch.rescale, Option.map_map]
  congr 1
  congr 1
  · cases d.start <;> simp [tscale]
  · apply List.map_congr_left
    intro e _
    have hbb : ∀ x : ℚ, b * (1 / b * x) = x := fun x => by field_simp
    simp only [EvEpoch.rescale, hbb, one_mul]

/-- non-vacuity: deme 1 of `exGraph` sampled now and 7 ago; sizes and times doubled: the branch `1~14` starts at 14 and has size 1, not 2 -/
example :
    ((augment (exGraph.rescale 2 2) [⟨1, []⟩, ⟨1, []⟩] [0, 14]).demes.map fun d => (d.name, d.start, d.epochs.map (·.ss)))
      = [(⟨0, []⟩, none, [200]), (⟨1, []⟩, some 40, [100]), (⟨2, []⟩, some 40, [160]), (⟨1, [14]⟩, some 14, [1])] := by
  decide +kernel

/-- **A frozen population's size is never used — except by `_compute_dt`.**  In the model of the integrators (C02 / C04): one time step
    (mutation injection, which skips frozen populations, and the sweep over the axes, which skips the frozen axis — C04_frozen_axis_skipped —
    and reads for every other axis that axis's own parameters) is the same whatever the parameters of a frozen population are; and the
    constant-parameter driver gives the same density for two parameter sets that differ only in a frozen population PROVIDED they lead to
    the same time step.  The time step is `min` over ALL populations of `timescale_factor / max(0.25 / nu, Σm, …)`, frozen ones included:
    a frozen branch of relative size `1 / Ne` imposes `dt ≤ timescale_factor · 4 / Ne`.  That is the only dependence — it explains why a
    hand-written frozen model matches `from_demes` bit for bit only with the same `nu`, and why the spectra for two reference sizes differ
    by a time-discretisation error that vanishes with the step. -/
theorem C16_frozen_nu_only_dt (grids : List (Array ℚ)) (fr nm : List Bool) (use : Bool) (eps : ℕ → List ℕ → ℕ → ℚ) (tf : ℚ) (P : StepParams)
    (k : ℕ) (p : PopParams) (hk : fr.getD k false = true) :
    (∀ (dt : ℚ) (T : List ℕ → ℚ), sweepFn grids fr nm use eps (P.setPop k p) dt T = sweepFn grids fr nm use eps P dt T)
    ∧ (stepDt tf (P.setPop k p) = stepDt tf P → ∀ (Tend : ℚ) (fuel : ℕ) (t : ℚ) (φ : List ℕ → ℚ),
        integrateConst (fun P dt φ => sweepFn grids fr nm use eps P dt φ) tf (P.setPop k p) Tend fuel t φ
          = integrateConst (fun P dt φ => sweepFn grids fr nm use eps P dt φ) tf P Tend fuel t φ)
    ∧ stepDt tf P = (P.pops.map (popDt tf)).foldl optMin none :=
  ⟨fun dt T => sweepFn_frozen_indep grids fr nm use eps P dt T k p hk,
   fun hdt Tend fuel t φ => integrateConst_frozen grids fr nm use eps tf P Tend k p hk hdt fuel t φ, rfl⟩

/-- the dependence is real: two populations, the second frozen with relative size 1/1000 or 1/500: the time step halves -/
example :
    stepDt (1/1000) { pops := [{ nu := 1, gamma := 0, h := 1/2, ms := [0] }, { nu := 1/1000, gamma := 0, h := 1/2, ms := [0] }], theta0 := 1, beta := none } = some (1/250000)
    ∧ stepDt (1/1000) { pops := [{ nu := 1, gamma := 0, h := 1/2, ms := [0] }, { nu := 1/500, gamma := 0, h := 1/2, ms := [0] }], theta0 := 1, beta := none } = some (1/125000)
    ∧ stepDt (1/1000) { pops := [{ nu := 1, gamma := 0, h := 1/2, ms := [0] }, { nu := 1, gamma := 0, h := 1/2, ms := [0] }], theta0 := 1, beta := none } = some (1/250) := by
  decide +kernel

/-! ## round 5: export followed by import, and the hypothesis that excludes the known findings -/

/-- **Export, then import, at a `Split` record — and exactly which programs the known finding F-16f concerns.**  `Demes.output` renames every
    population at every `Split` record (older demes `d1_*` end at the record's time, younger `d2_*` start there; `boundaryGraph`).  On the
    model (library classification `classifyEvents`, hand-written from the demes source and K-tied; application by the generated
    `_apply_event` = `applyEventSpec`), for every number n = 1 … 4 of older populations (dadi integrates at most five):
    * **clean record** (the new population copies ONE older population p: exactly one non-zero proportion — `phi_1D_to_2D`,
      `phi_2D_to_3D_split_*`, a unit vector in `phi_3D_to_4D` / `phi_4D_to_5D`): the library reports n splits, n − 1 of them renamings with
      one child; applying them reproduces the program's event: ONE `_split_phi` call, whose parent `d1_p` sits on axis p at that moment, and
      afterwards the populations are `d2_0 … d2_n` in axis order — the same event list up to the deme names;
    * **admixture-created population** (two or more non-zero proportions): the older demes of non-zero proportion all end at the new deme's
      start, so the library reports a MERGER; `_apply_event` removes the merger's parents and the renaming split of such a parent then does
      not find it: the import raises (`'d1_1' is not in list`) — the open known finding `export:…:admixture…:raises`;
    * **pulse directly followed by a new population**: the pulse is exported at the record's time, which is the end time of its (renamed)
      destination: demes rejects such a pulse (`pulseValid`), while the same pulse strictly before that time is valid — the other open known
      finding.
    The hypothesis that excludes the known findings is therefore: every `Split` record has exactly one non-zero proportion, and a positive
    integration time separates every pulse from the next `Split` record. -/
theorem C16_export_roundtrip :
    (∀ n ∈ [1, 2, 3, 4], ∀ p ∈ List.range n,
        importBoundary (unitProps n p) 5
          = some ([PCall.split (((List.range n).map fun j => if j < p then eraName 2 j else eraName 1 j)) (eraName 1 p)
                    (((List.range n).map fun j => if j ≤ p then eraName 2 j else eraName 1 j) ++ [eraName 2 n])],
                  (List.range (n + 1)).map (eraName 2)))
    ∧ (∀ n ∈ [2, 3, 4], ∀ m ∈ List.range (2 ^ n), 2 ≤ ((List.range n).filter fun j => m.testBit j).length →
        (classifyEvents (boundaryGraph (maskProps n m) 5)).mergers.length = 1 ∧ importBoundary (maskProps n m) 5 = none)
    ∧ (∀ n ∈ [2, 3, 4], ∀ d ∈ List.range n, ∀ s ∈ List.range n, s ≠ d →
        pulseValid (boundaryGraph (unitProps n 0) 5) { sources := [eraName 1 s], dest := eraName 1 d, props := [1/10], time := 5 } = false
        ∧ pulseValid (boundaryGraph (unitProps n 0) 5) { sources := [eraName 1 s], dest := eraName 1 d, props := [1/10], time := 6 } = true) := by
  refine ⟨by decide +kernel, by decide +kernel, by decide +kernel⟩

/-- one row of the table spelled out: three populations, the new one copies population 1 -/
example : importBoundary (unitProps 3 1) 5
    = some ([PCall.split [eraName 2 0, eraName 1 1, eraName 1 2] (eraName 1 1) [eraName 2 0, eraName 2 1, eraName 1 2, eraName 2 3]],
            [eraName 2 0, eraName 2 1, eraName 2 2, eraName 2 3]) := by
  decide +kernel

/-! ## round 5: importing a sliced graph, whole graph -/

/-- the generated `_sizes_at_time` / `_size_at` / epoch search, as `Lemmas/DemesSlicePlan.lean` needs them -/
theorem sizesAt_shift (fn : SizeFn) (ss es s et x y t : ℚ) :
    sizesAt fn ss es (some (s - t)) (some (et - t)) (s - et) (some x) (some y) = sizesAt fn ss es (some s) (some et) (s - et) (some (x + t)) (some (y + t)) := by
  have e1 : s - t - x = s - (x + t) := by ring
  have e2 : s - t - y = s - (y + t) := by ring
  have e3 : (s - t = x) ↔ (s = x + t) := by constructor <;> intro h <;> linarith
  have e4 : (et - t = y) ↔ (et = y + t) := by constructor <;> intro h <;> linarith
  cases fn <;> simp only [sizesAt, teq, tval, e1, e2, beq_iff_eq, e3, e4] <;> rfl

theorem sizesAt_const (ss : ℚ) (st et : ETime) (sp : ℚ) (i0 i1 : ETime) : sizesAt SizeFn.constant ss ss st et sp i0 i1 = some (Sym.r ss, Sym.r ss) := by
  cases h1 : teq st i0 <;> cases h2 : teq et i1 <;> simp [sizesAt, h1, h2]

theorem sliceFacts (ex lg : ℚ → ℚ) (pw : ℚ → ℚ → ℚ) (hlog : ∀ z, lg (ex z) = z) (hexp : ∀ z, ex (lg z) = z) : SliceFacts ex lg pw := by
  refine ⟨fun _ _ _ => rfl, sizesAt_shift, sizesAt_const, ?_, ?_, ?_⟩
  · intro fn t ss es s et es' hss h1 h2 hle hconst hes x y hy
    rcases lt_or_eq_of_le hle with hlt | heq
    · exact C16_slice_sizes ex lg pw hlog fn t ss es s et es' hss h1 h2 hlt hes x y hy
    · -- the slice time is the epoch's own end: the sliced epoch is the epoch, moved
      subst heq
      have hshift := sizesAt_shift fn ss es s et x y et
      rw [sub_self] at hshift
      cases fn with
      | other => simp [sizesAt]
      | constant =>
        have h1' : es' = ss := by simpa [sliceSizeAt, Sym.eval] using hes.symm
        have h2' : es = ss := hconst rfl
        rw [h1', h2', sub_zero, sizesAt_const, sizesAt_const]
      | linear =>
        have : es' = es := by
          have h := hes
          simp only [sliceSizeAt, Option.map_some, Sym.eval, tval, Option.some.injEq] at h
          have h' : (SizeFn.linear == SizeFn.constant) = false := by decide
          have h'' : (SizeFn.linear == SizeFn.exponential) = false := by decide
          simp only [h', h'', Bool.false_eq_true, if_false, beq_self_eq_true, if_true, Option.map_some, Sym.eval, Option.some.injEq] at h
          rw [← h, div_self h1]; ring
        rw [this, sub_zero, hshift]
      | exponential =>
        have : es' = es := by
          have h := hes
          have h' : (SizeFn.exponential == SizeFn.constant) = false := by decide
          simp only [sliceSizeAt, h', Bool.false_eq_true, if_false, beq_self_eq_true, if_true, Option.map_some, Sym.eval, tval, Option.some.injEq] at h
          rw [← h, mul_div_assoc, div_self h1, mul_one, hexp]
          field_simp
        rw [this, sub_zero, hshift]
  · intro fn t ss es st et hfn
    cases fn <;> simp_all [sliceSizeAt]
  · intro t ss es st et
    simp [sliceSizeAt]

/-- **Importing a sliced graph, whole graph** (`C16_slice_sizes` for every deme, migration and interval at once).  Let `g` be a graph whose
    demes have well-formed epochs (end times strictly decreasing below the start, non-zero sizes, constant / linear / exponential size
    functions, an epoch starting at `inf` constant) and asymmetric migrations, `t > 0` the slice time, and `g'` the graph `DemesUtil.slice`
    returns, read by the importer (end sizes of cut epochs evaluated).  For EVERY interval `(x, y)` with `0 ≤ y < x` (`x` may be `inf`) in which
    the chosen epochs cover the interval, the row `_get_integration_parameters` computes for `g'` on `(x, y)` IS the row it computes for `g` on
    `(x + t, y + t)`: the same integration time, the same live demes in the same axis order (sliced copies of the original ones), the same
    frozen flags, the same migration matrix, the same all-constant flag — and `_sizes_at_time` finds for every live deme the same size function
    and the same start / end sizes (values; the epoch containing the slice time carries the size `_size_at` computed, arbitrary `exp` / `log`
    inverse to each other).  So the plan of the sliced graph is the plan of the original graph moved by the slice time. -/
theorem C16_slice_plan (ex lg : ℚ → ℚ) (pw : ℚ → ℚ → ℚ) (hlog : ∀ z, lg (ex z) = z) (hexp : ∀ z, ex (lg z) = z) (t : ℚ) (ht : 0 < t)
    (g : Graph InEpoch) (hwf : ∀ d ∈ g.demes, demeWf d) (hasym : ∀ m ∈ g.migs, m.sym = none) (fz : List DName) (Ne : ℚ) (x : ETime) (y : ℚ)
    (hy : 0 ≤ y) (hx : tgt x (some y) = true)
    (hcov : ∀ d ∈ liveIn g (tadd x t) (some (y + t)), ∃ e ∈ epochsOf d.start d.epochs, covers (tadd x t) (y + t) e = true) :
    planRow (sliceIn ex lg pw t g) fz Ne (x, some y) (liveIn (sliceIn ex lg pw t g) x (some y))
        = planRow g fz Ne (tadd x t, some (y + t)) (liveIn g (tadd x t) (some (y + t)))
    ∧ (liveIn (sliceIn ex lg pw t g) x (some y)).map (fun d => (demeSizes d x (some y)).map (evalSizes ex lg pw))
        = (liveIn g (tadd x t) (some (y + t))).map (fun d => (demeSizes d (tadd x t) (some (y + t))).map (evalSizes ex lg pw))
    ∧ (liveIn (sliceIn ex lg pw t g) x (some y)).map (·.name) = (liveIn g (tadd x t) (some (y + t))).map (·.name) := by
  have hsl : (sliceIn ex lg pw t g).demes = (g.demes.filter fun d => !tle d.start (some t)).map (sliceDemeIn ex lg pw t) := by
    obtain ⟨h1, _, _, _⟩ := C16_slice_graph t g (ne_of_gt ht)
    unfold sliceIn
    dsimp only
    rw [h1, List.map_map]
    apply List.map_congr_left
    intro d _
    simp only [Function.comp, sliceDemeIn, GDeme.mk.injEq, true_and, and_true]
    cases d.start <;> rfl
  have hstep : ∀ (r : ℚ) (m : GMig) (s d : DName) (i0 i1 : ETime), m.sym = none →
      migRateStep r m s d i0 i1 = if (m.source == s && m.dest == d && (tge m.st i0 && tle (some m.et) i1)) then m.rate else r := by
    intro r m s d i0 i1 hm
    unfold migRateStep
    rw [hm]
    simp only
    cases h1 : (m.source == s && m.dest == d) <;> cases h2 : (tge m.st i0 && tle (some m.et) i1) <;> simp [h1, h2]
  have hT : ∀ (x : ETime) (y t Ne : ℚ), intTime x (some y) Ne = intTime (tadd x t) (some (y + t)) Ne := by
    intro x y t Ne
    unfold intTime tadd
    cases x with
    | none => rfl
    | some v => simp only [isInf, tval, Bool.false_eq_true, if_false]; congr 2; ring
  obtain ⟨r1, r2⟩ := planRow_slice (sliceFacts ex lg pw hlog hexp) demePresent_text hstep hT t ht g (sliceIn ex lg pw t g) hsl rfl hwf hasym fz Ne x y hy hx hcov
  refine ⟨r1, r2, ?_⟩
  rw [liveIn_slice demePresent_text ex lg pw t ht g (sliceIn ex lg pw t g) hsl hwf x y hy hx, List.map_map]
  rfl

/-- non-vacuity: `exGraph` sliced at 5: on the interval (15, 0) of the sliced graph the importer finds the row of the original on (20, 5) -/
example :
    (∀ d ∈ exGraph.demes, demeWf d) ∧
    (planRow (sliceIn id id (fun x _ => x) 5 exGraph) [] 100 (some 15, some 0) (liveIn (sliceIn id id (fun x _ => x) 5 exGraph) (some 15) (some 0))).T = 3/40
    ∧ (planRow exGraph [] 100 (some 20, some 5) (liveIn exGraph (some 20) (some 5))).T = 3/40
    ∧ (liveIn (sliceIn id id (fun x _ => x) 5 exGraph) (some 15) (some 0)).map (·.name) = [⟨1, []⟩, ⟨2, []⟩] := by
  refine ⟨?_, by decide +kernel, by decide +kernel, by decide +kernel⟩
  intro d hd
  simp only [exGraph, List.mem_cons, List.not_mem_nil, or_false] at hd
  rcases hd with rfl | rfl | rfl <;> simp [demeWf, epochsWf, tgt, tle, tge] <;> norm_num

end DadiVerif
