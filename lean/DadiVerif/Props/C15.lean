import DadiVerif.Lemmas.ModelDSL
import DadiVerif.Lemmas.ModelPerm
import DadiVerif.Lemmas.ModelUnits
import DadiVerif.Lemmas.ModelUnitsRat
import DadiVerif.Lemmas.ModelBoundary
import DadiVerif.Generated.Models
import DadiVerif.Model.ModelPairs
/-!
# C15 — library models are well-formed and reduce to their nested special cases

All statements are about `Gen.Models.table` / `Gen.Models.sigs` — the DSL programs and primitive signatures that
`tools/gen_Models.py` regenerates from the current source of the six model files and of PhiManip/Integration/Spectrum_mod
on every run — and about the definitions of Model/ModelDSL.lean that the driver executes (`exec`, `canonTr`,
`wellFormed`, `normalForm`, `nestOK`, `swapOK`, `runTr`).

**Proved for every model of the table** (104 today) and every interpretation of the scalars and primitives:
* `C15_wellformed`, `C15_arity_exact`, `C15_checker_sound`: the parameter vector is consumed by one tuple unpacking of exactly
  the names in `__param_names__` (so a vector of another length is refused), every name used is bound, every primitive
  call binds against the source signature, is applied at the dimension the density has, `from_phi` receives one grid per
  population and the requested `ns`; in every typed interpretation the program runs to the end.
* `C15_nesting_*`: for each of the 128 nesting pairs of Model/ModelPairs.lean (zero migration, zero-length epoch, equal
  asymmetric rates, zero selection, equal selection, composites) the model instantiated at the nesting point has the
  same meaning as the simpler model, **in every interpretation satisfying `Lawful`** (`1*x = x*1 = x`; the integrators
  the source of which starts with `if T - initial_t == 0: return phi` are the identity at zero duration).
* `C15_swap_syntactic`: for the 33 symmetric two-population models, the model at the permuted parameter vector is the
  relabelled model, in every interpretation in which the primitives are equivariant under relabelling (`SwapLawful`).
* `C15_perm_equivariance` (round 4): the same for **any permutation of the population labels**, two- and three-population
  models (67 entries of `Pairs.permSymmetric`: every model of the table that has a symmetric partner, with every
  non-trivial permutation for which it has one), in every `PermLawful` interpretation (the laws are the finite list
  `permRules`/`permPairs`/`permFin` of Model/ModelPerm.lean).
* `C15_units` (round 4): **units**.  Every keyword of every primitive call, in every branch of every model, receives an
  expression of the unit its keyword expects (`nu*` Size, `T` Time, `m<ij>` Rate, `gamma*` Sel, `h*`/`f*`/`beta`
  dimensionless, …) under the reference-size convention, and strictly except at the listed reference-size sites
  (`C15_units_reference_sites`); `C15_units_homogeneous`, `C15_units_call_scale`: a well-united expression / call is
  homogeneous of the degree of its unit under every `UnitAction` (in particular the C03 rescaling over ℚ,
  `C15_units_rescaling_is_action`); `C15_program_scale`, `C15_program_scale_library`: the program-level form of C03.

**Not proved here (numerical, harness L3)**: that the real primitives form such an interpretation up to round-off
(zero-duration identity is exact; equivariance of `two_pops` under transposition holds only up to the operator-splitting
error, which shrinks with the time step), finiteness and non-negativity of the spectra, the `extrap_x` tag.
-/
namespace DadiVerif
open ModelDSL Gen.Models

set_option maxRecDepth 100000

/-! ## the finite checks over the generated table (`decide +kernel` over complete tables: every statement evaluates a
decision procedure of Model/ModelDSL.lean on `Gen.Models.table` / `Gen.Models.sigs` in the kernel) -/
namespace C15Facts
theorem table_wellFormed : table.all (wellFormed table sigs) = true := by decide +kernel
theorem ms_wellFormed : msTable.all msWellFormed = true := by decide +kernel
theorem table_names_unique : table.all (fun m => findModel table m.name == some m) = true := by decide +kernel
theorem sigs_names_unique : sigs.all (fun s => findSig sigs s.fn == some s) = true := by decide +kernel
theorem nest_zeroMigration : Pairs.zeroMigration.all (fun p => nestOK table sigs p.a p.b p.args) = true := by decide +kernel
theorem nest_zeroEpoch : Pairs.zeroEpoch.all (fun p => nestOK table sigs p.a p.b p.args) = true := by decide +kernel
theorem nest_equalRates : Pairs.equalRates.all (fun p => nestOK table sigs p.a p.b p.args) = true := by decide +kernel
theorem nest_zeroSelection : Pairs.zeroSelection.all (fun p => nestOK table sigs p.a p.b p.args) = true := by decide +kernel
theorem nest_equalSelection : Pairs.equalSelection.all (fun p => nestOK table sigs p.a p.b p.args) = true := by decide +kernel
theorem nest_composite : Pairs.composite.all (fun p => nestOK table sigs p.a p.b p.args) = true := by decide +kernel
theorem nest_branch :
    Pairs.branch.all (fun p => nestOKAt table sigs p.a p.argsA p.path p.b p.argsB) = true := by decide +kernel
/-- the models of the unchanged tree whose trace has a comparison (round 5; the harness counts them on every run) -/
def branchModels : List Name :=
  [nm! "Demographics2D.bottlegrowth_2d", nm! "Demographics2D.bottlegrowth_split", nm! "Demographics2D.bottlegrowth_split_mig",
   nm! "DemogSelModels.bottlegrowth_2d_sel", nm! "DemogSelModels.bottlegrowth_2d_sel_single_gamma",
   nm! "DemogSelModels.bottlegrowth_split_sel", nm! "DemogSelModels.bottlegrowth_split_sel_single_gamma",
   nm! "DemogSelModels.bottlegrowth_split_mig_sel", nm! "DemogSelModels.bottlegrowth_split_mig_sel_single_gamma"]
/-- argument wiring (round 2) -/
theorem table_wiring :
    table.all (fun m => match symbolicRun table sigs m.name (m.paramNames.map .param) with
                        | some t => wiringOK (integrators sigs) t
                        | none => false) = true := by decide +kernel
theorem swap_symmetric : Pairs.symmetric.all (fun p => swapOK table sigs swapRules12 p.name p.args) = true := by
  decide +kernel
end C15Facts

/-- every model function of the six files passes the checker, and the three ms-command builders unpack exactly the
    parameters they name -/
theorem C15_wellformed :
    table.all (wellFormed table sigs) = true ∧ msTable.all msWellFormed = true :=
  ⟨C15Facts.table_wellFormed, C15Facts.ms_wellFormed⟩

/-- the zero-duration law is claimed exactly for the functions whose source begins with the early return -/
theorem C15_zero_duration_integrators :
    integrators sigs =
      [nm! "Integration.one_pop", nm! "Integration.two_pops", nm! "Integration.three_pops",
       nm! "Integration.four_pops", nm! "Integration.five_pops"] := by
  decide +kernel

theorem mem_table_find {m : Model} (hm : m ∈ table) : findModel table m.name = some m := by
  have h := List.all_eq_true.mp C15Facts.table_names_unique m hm
  simpa using h

/-- **exact arity**: every model with named parameters runs (symbolically) on the vector of its named parameters and
    refuses every vector of another length, as Python's tuple unpacking does -/
theorem C15_arity_exact (m : Model) (hm : m ∈ table) (hne : m.paramNames ≠ []) :
    (exec table m.name (m.paramNames.map .param)).isSome = true ∧
    ∀ args : List Expr, args.length ≠ m.paramNames.length → exec table m.name args = none :=
  wellFormed_arity (List.all_eq_true.mp C15_wellformed.1 m hm) (mem_table_find hm) hne

/-- the models without named parameters (`snm_1d`, `snm_2d`: the argument is documented as unused) are the only ones that
    accept any vector -/
theorem C15_arity_unnamed :
    (table.filter (fun m => m.paramNames == [])).map (·.name)
      = [nm! "Demographics1D.snm_1d", nm! "Demographics2D.snm_2d"] := by
  decide +kernel

/-- **soundness of the checker**: in every interpretation whose primitives accept a density of the dimension their
    signature states (`from_phi`: one grid per population), every model of the table runs to the end — no primitive is
    applied at a wrong dimension -/
theorem C15_checker_sound (I : Interp) (dim : I.Φ → Nat) (hT : Typed I sigs dim) (ρ : Name → I.S)
    (m : Model) (hm : m ∈ table) :
    ∃ o, sem I ρ table sigs m.name (m.paramNames.map .param) = some o := by
  have hw := List.all_eq_true.mp C15_wellformed.1 m hm
  unfold wellFormed at hw
  simp only [Bool.and_eq_true] at hw
  unfold sem
  cases hs : symbolicRun table sigs m.name (m.paramNames.map .param) with
  | none => rw [hs] at hw; exact absurd hw.2 (by simp)
  | some t =>
      rw [hs] at hw
      exact checkTr_sound hT ρ t hw.2

/-- general form: whenever `nestOK` accepts a pair, the two models mean the same in every lawful interpretation -/
theorem C15_nesting_sound (I : Interp) (hI : Lawful I (integrators sigs)) (ρ : Name → I.S) (a b : Name)
    (args : List Expr) (h : nestOK table sigs a b args = true) :
    ∃ mb, findModel table b = some mb ∧
      sem I ρ table sigs a args = sem I ρ table sigs b (mb.paramNames.map .param) :=
  nestOK_sound hI ρ h

/-- the statement proved for every pair of a group -/
def NestsIn (ps : List Pairs.NestPair) : Prop :=
  ∀ p ∈ ps, ∀ I : Interp, Lawful I (integrators sigs) → ∀ ρ : Name → I.S,
    ∃ mb, findModel table p.b = some mb ∧
      sem I ρ table sigs p.a p.args = sem I ρ table sigs p.b (mb.paramNames.map .param)

theorem nestsIn_of_all {ps : List Pairs.NestPair}
    (h : ps.all (fun p => nestOK table sigs p.a p.b p.args) = true) : NestsIn ps :=
  fun p hp I hI ρ => nestOK_sound hI ρ (List.all_eq_true.mp h p hp)

/-- migration rates set to 0 (33 pairs, e.g. `sym_mig(nu1, nu2, 0, T) = no_mig(nu1, nu2, T)`) -/
theorem C15_nesting_zero_migration : NestsIn Pairs.zeroMigration := nestsIn_of_all C15Facts.nest_zeroMigration
/-- an epoch of length 0 (36 pairs, e.g. `IM_pre(1, 0, s, …) = IM(s, …)`, `bottlegrowth_split(nuB, nuF, T, 0) = bottlegrowth_2d`) -/
theorem C15_nesting_zero_epoch : NestsIn Pairs.zeroEpoch := nestsIn_of_all C15Facts.nest_zeroEpoch
/-- equal asymmetric rates (17 pairs, e.g. `split_asym_mig(nu1, nu2, T, m, m) = split_mig(nu1, nu2, T, m)`) -/
theorem C15_nesting_equal_rates : NestsIn Pairs.equalRates := nestsIn_of_all C15Facts.nest_equalRates
/-- zero selection (16 pairs, e.g. `split_mig_sel_single_gamma(nu1, nu2, T, m, 0) = split_mig(nu1, nu2, T, m)`) -/
theorem C15_nesting_zero_selection : NestsIn Pairs.zeroSelection := nestsIn_of_all C15Facts.nest_zeroSelection
/-- equal selection in both populations (8 pairs, e.g. `IM_sel(…, γ, γ) = IM_sel_single_gamma(…, γ)`) -/
theorem C15_nesting_equal_selection : NestsIn Pairs.equalSelection := nestsIn_of_all C15Facts.nest_equalSelection
/-- combinations, and the `_size` models with the same sizes in both epochs (18 pairs) -/
theorem C15_nesting_composite : NestsIn Pairs.composite := nestsIn_of_all C15Facts.nest_composite

/-- **one branch of a model with an `if`**: for the five pairs of `Pairs.branch` (the models with `if T >= Ts`, at `T = 0`, in
    the `else` branch "split before the size change"), whenever the comparisons along the path come out as stated
    (`0 >= Ts` is false, i.e. `Ts > 0`), the model means what the plain split model means — in particular with two *different*
    selection coefficients.  The tree-equal delegation pairs cannot see a slip inside one branch; these can. -/
theorem C15_nesting_branch (p : Pairs.BranchPair) (hp : p ∈ Pairs.branch)
    (I : Interp) (hI : Lawful I (integrators sigs)) (ρ : Name → I.S) :
    ∃ ta, normalForm table sigs p.a p.argsA = some ta ∧
      (PathHolds I ρ p.path ta → sem I ρ table sigs p.a p.argsA = sem I ρ table sigs p.b p.argsB) :=
  nestOKAt_sound hI ρ (List.all_eq_true.mp C15Facts.nest_branch p hp)

/-- the comparison that selects the branch is, in every one of these pairs, `0 >= Ts` with outcome `false` -/
theorem C15_nesting_branch_conditions :
    Pairs.branch.all (fun p => match normalForm table sigs p.a p.argsA with
      | some t => pathConds p.path t == [(⟨nm! ">=", .lit 0 1, .param (nm! "Ts")⟩, false)]
      | none => false) = true := by
  decide +kernel

/-- **argument wiring, every branch of every model**: in every integrator call, a keyword with a population index
    (`nu1`, `m21`, `gamma2`, …) that receives a bare model parameter of the same family with an index of the same length
    receives the one with the *same* index (`gamma2=gamma2`, `nu1=nu1a`, `m12=m12b`).  A copy-paste slip such as
    `gamma2=gamma1` in one branch of one model falsifies this statement. -/
theorem C15_wiring :
    table.all (fun m => match symbolicRun table sigs m.name (m.paramNames.map .param) with
                        | some t => wiringOK (integrators sigs) t
                        | none => false) = true :=
  C15Facts.table_wiring

/-- the wiring rule is not vacuous: it refuses `gamma2=gamma1` and `m12=m21`, accepts `gamma2=gamma2`, `nu1=nu1a`, and does
    not judge `m12=m1`, `gamma=gamma1` -/
example : wiredOK (nm! "gamma2") (.param (nm! "gamma1")) = false ∧ wiredOK (nm! "m12") (.param (nm! "m21")) = false
    ∧ wiredOK (nm! "gamma2") (.param (nm! "gamma2")) = true ∧ wiredOK (nm! "nu1") (.param (nm! "nu1a")) = true
    ∧ wiredOK (nm! "m12") (.param (nm! "m1")) = true ∧ wiredOK (nm! "gamma") (.param (nm! "gamma1")) = true := by
  decide +kernel

/-- the groups are not empty -/
theorem C15_nesting_counts :
    (Pairs.nesting.map fun g => (g.1, g.2.length))
      = [("zero_migration", 33), ("zero_epoch", 36), ("equal_rates", 17), ("zero_selection", 16),
         ("equal_selection", 8), ("composite", 18)] := by
  decide

/-- **label swap**: for every symmetric two-population model, the model at the permuted parameter vector is the model with
    populations 1 and 2 relabelled (evaluated at the relabelled sample sizes), in every lawful interpretation whose
    primitives are equivariant under the relabelling `τ` -/
theorem C15_swap_syntactic (p : Pairs.SwapPair) (hp : p ∈ Pairs.symmetric)
    (I : Interp) (hI : Lawful I (integrators sigs)) (τ : I.Φ → I.Φ) (τOut : I.Out → I.Out)
    (nsSwap : List (Name × Val I.S) → List (Name × Val I.S)) (hS : SwapLawful I swapRules12 τ τOut nsSwap)
    (ρ : Name → I.S) :
    ∃ m, findModel table p.name = some m ∧
      sem I ρ table sigs p.name p.args
        = (sem (I.withFinishArgs nsSwap) ρ table sigs p.name (m.paramNames.map .param)).map τOut :=
  swapOK_sound hI hS ρ (List.all_eq_true.mp C15Facts.swap_symmetric p hp)


/-! ## Round 4 — label-swap equivariance for any permutation of the population labels (two and three populations) -/
namespace C15Facts
theorem perm_symmetric2 :
    (Pairs.permSymmetric.filter (fun p => p.perm.length == 2)).all
      (fun p => permOK table sigs permRules permPairs permFin p.name p.perm p.args) = true := by decide +kernel
theorem perm_symmetric3 :
    (Pairs.permSymmetric.filter (fun p => p.perm.length != 2)).all
      (fun p => permOK table sigs permRules permPairs permFin p.name p.perm p.args) = true := by decide +kernel
theorem perm_symmetric :
    Pairs.permSymmetric.all (fun p => permOK table sigs permRules permPairs permFin p.name p.perm p.args) = true := by
  rw [List.all_eq_true]
  intro p hp
  by_cases h : (p.perm.length == 2) = true
  · exact List.all_eq_true.mp perm_symmetric2 p (List.mem_filter.mpr ⟨hp, h⟩)
  · exact List.all_eq_true.mp perm_symmetric3 p (List.mem_filter.mpr ⟨hp, by simpa using h⟩)
end C15Facts

/-- **label permutation**: for every entry `(model, π, permuted parameter vector)` of `Pairs.permSymmetric` — two- and
    three-population models, any permutation `π` of the population labels under which the model has a symmetric partner —
    the model at the permuted parameter vector is the model with its populations relabelled by `π` (evaluated at the
    relabelled sample sizes), in every lawful interpretation that is **permutation-lawful**: its primitives satisfy the
    finite list of laws `permRules` (integrators commute with a permutation of the axes and of their per-population
    keywords; `phi_1D_to_2D` is symmetric; `phi_2D_to_3D_split_2` is symmetric in the daughters; admixture `1 into 2` is
    `2 into 1` of the transposed density), `permPairs` (a population split into three at once is symmetric under S₃) and
    `permFin` (sampling commutes with relabelling) -/
theorem C15_perm_equivariance (p : Pairs.PermPair) (hp : p ∈ Pairs.permSymmetric)
    (I : Interp) (hI : Lawful I (integrators sigs)) (τ : List Nat → I.Φ → I.Φ) (τOut : List Nat → I.Out → I.Out)
    (nsPerm : List Nat → List (Name × Val I.S) → List (Name × Val I.S))
    (hP : PermLawful I permRules permPairs permFin τ τOut nsPerm) (ρ : Name → I.S) :
    ∃ m, findModel table p.name = some m ∧
      sem I ρ table sigs p.name p.args
        = (sem (I.withFinishArgs (nsPerm p.perm)) ρ table sigs p.name (m.paramNames.map .param)).map (τOut p.perm) :=
  permOK_sound hI hP ρ (List.all_eq_true.mp C15Facts.perm_symmetric p hp)

/-- what the table contains: 33 two-population entries (the transposition), 34 three-population entries over 17 models;
    the three-population models and the permutations each is symmetric under -/
theorem C15_perm_table :
    (Pairs.permSymmetric.filter (fun p => p.perm.length == 2)).length = 33
    ∧ (Pairs.permSymmetric.filter (fun p => p.perm.length == 3)).length = 34
    ∧ Pairs.permSymmetric.all (fun p => p.perm.length == 2 || p.perm.length == 3) = true
    ∧ (Pairs.permSymmetric.filter (fun p => p.perm.length == 3)).map (fun p => (p.name, p.perm))
      = [(nm! "Demographics3D.out_of_africa", [0, 2, 1]),
         (nm! "portik_models_3d.split_nomig", [0, 2, 1]), (nm! "portik_models_3d.split_symmig_all", [0, 2, 1]),
         (nm! "portik_models_3d.ancmig_adj_3", [0, 2, 1]), (nm! "portik_models_3d.ancmig_adj_2", [0, 2, 1]),
         (nm! "portik_models_3d.sim_split_no_mig", [0, 2, 1]), (nm! "portik_models_3d.sim_split_no_mig", [1, 0, 2]),
         (nm! "portik_models_3d.sim_split_no_mig", [1, 2, 0]), (nm! "portik_models_3d.sim_split_no_mig", [2, 0, 1]),
         (nm! "portik_models_3d.sim_split_no_mig", [2, 1, 0]),
         (nm! "portik_models_3d.sim_split_no_mig_size", [0, 2, 1]), (nm! "portik_models_3d.sim_split_no_mig_size", [1, 0, 2]),
         (nm! "portik_models_3d.sim_split_no_mig_size", [1, 2, 0]), (nm! "portik_models_3d.sim_split_no_mig_size", [2, 0, 1]),
         (nm! "portik_models_3d.sim_split_no_mig_size", [2, 1, 0]),
         (nm! "portik_models_3d.sim_split_sym_mig_all", [0, 2, 1]), (nm! "portik_models_3d.sim_split_sym_mig_all", [1, 0, 2]),
         (nm! "portik_models_3d.sim_split_sym_mig_all", [1, 2, 0]), (nm! "portik_models_3d.sim_split_sym_mig_all", [2, 0, 1]),
         (nm! "portik_models_3d.sim_split_sym_mig_all", [2, 1, 0]),
         (nm! "portik_models_3d.sim_split_sym_mig_adjacent", [2, 1, 0]),
         (nm! "portik_models_3d.sim_split_refugia_sym_mig_all", [0, 2, 1]), (nm! "portik_models_3d.sim_split_refugia_sym_mig_all", [1, 0, 2]),
         (nm! "portik_models_3d.sim_split_refugia_sym_mig_all", [1, 2, 0]), (nm! "portik_models_3d.sim_split_refugia_sym_mig_all", [2, 0, 1]),
         (nm! "portik_models_3d.sim_split_refugia_sym_mig_all", [2, 1, 0]),
         (nm! "portik_models_3d.sim_split_refugia_sym_mig_adjacent", [2, 1, 0]),
         (nm! "portik_models_3d.split_nomig_size", [0, 2, 1]), (nm! "portik_models_3d.ancmig_2_size", [0, 2, 1]),
         (nm! "portik_models_3d.sim_split_refugia_sym_mig_adjacent_size", [2, 1, 0]),
         (nm! "portik_models_3d.sim_split_sym_mig_adjacent_var", [1, 0, 2]),
         (nm! "portik_models_3d.sim_split_uni_mig_adjacent_var", [1, 0, 2]),
         (nm! "portik_models_3d.sim_split_refugia_sym_mig_adjacent_var", [1, 0, 2]),
         (nm! "portik_models_3d.sim_split_refugia_uni_mig_adjacent_var", [1, 0, 2])] := by
  decide +kernel

/-- the relabelling test is not vacuous: `split_nomig` is *not* symmetric under exchanging populations 1 and 2 (population 1
    split off first), and `ancmig_2_size` with `nu3a` in place of `nu3b` in the parameter vector is not the relabelled model -/
example :
    permOK table sigs permRules permPairs permFin (nm! "portik_models_3d.split_nomig") [1, 0, 2]
        [.param (nm! "nu2"), .param (nm! "nuA"), .param (nm! "nu1"), .param (nm! "nu3"), .param (nm! "T1"), .param (nm! "T2")] = false
    ∧ permOK table sigs permRules permPairs permFin (nm! "portik_models_3d.split_nomig") [0, 2, 1]
        [.param (nm! "nu1"), .param (nm! "nuA"), .param (nm! "nu2"), .param (nm! "nu3"), .param (nm! "T1"), .param (nm! "T2")] = false := by
  decide +kernel

/-- a permutation-lawful (and lawful) interpretation exists -/
@[reducible] def unitInterp : Interp where
  S := Unit
  Φ := Unit
  Out := Unit
  lit _ _ := ()
  sym _ := ()
  neg _ := ()
  add _ _ := ()
  sub _ _ := ()
  mul _ _ := ()
  div _ _ := ()
  pow _ _ := ()
  call1 _ _ := ()
  cmp _ _ _ := true
  start _ _ := some ()
  step _ _ _ := some ()
  finish _ _ _ := some ()

example : PermLawful unitInterp permRules permPairs permFin (fun _ x => x) (fun _ x => x) (fun _ a => a) :=
  ⟨fun _ _ _ _ _ _ => rfl, fun _ _ _ _ _ _ => rfl, fun _ _ _ _ _ => rfl, fun _ _ _ _ _ _ => rfl⟩

/-! ## Round 4 — units -/
namespace C15Facts
theorem kw_classified : sigs.all (fun s => s.params.all (fun p => (kwExpected p.1).isSome)) = true := by decide +kernel
/-- one pass over the symbolic run of every model: units under the reference-size convention, the reference-size sites,
    strict units of the reference-explicit run -/
theorem table_units_summary :
    table.all (modelUnitsSummaryOK table sigs Pairs.refSiteTable Pairs.refInsideModels) = true := by decide +kernel
theorem ref_tables :
    Pairs.refSiteTable.all (fun e => (findModel table e.1).isSome && !e.2.isEmpty) = true
    ∧ Pairs.refSiteTable.length = 28
    ∧ dedup (Pairs.refSiteTable.flatMap (·.2))
      = [(nm! "Integration.one_pop", nm! "nu"), (nm! "Integration.two_pops", nm! "nu1"),
         (nm! "Integration.two_pops", nm! "nu2")]
    ∧ Pairs.refInsideModels.all (fun n => (findModel table n).isSome && (Pairs.refSiteTable.lookup n).isSome) = true
    ∧ Pairs.refInsideModels.length = 11 := by
  decide +kernel

theorem summary_of_mem {m : Model} (hm : m ∈ table) :
    ∃ t, symbolicRun table sigs m.name (m.paramNames.map .param) = some t ∧ unitsTr true t = true
      ∧ refSitesOf t = (Pairs.refSiteTable.lookup m.name).getD []
      ∧ unitsTr false (refExplicit t) = !(Pairs.refInsideModels.contains m.name) := by
  have h := List.all_eq_true.mp table_units_summary m hm
  unfold modelUnitsSummaryOK at h
  cases hs : symbolicRun table sigs m.name (m.paramNames.map .param) with
  | none => rw [hs] at h; cases h
  | some t =>
      rw [hs] at h
      simp only [Bool.and_eq_true, beq_iff_eq] at h
      exact ⟨t, rfl, h.1.1, h.1.2, h.2⟩
end C15Facts

/-- every keyword of every primitive signature read from the source has an expected unit (a new keyword must be classified) -/
theorem C15_units_keywords_classified :
    sigs.all (fun s => s.params.all (fun p => (kwExpected p.1).isSome)) = true := C15Facts.kw_classified

/-- **units**: in every branch of every model of the table, every keyword of every PhiManip / Integration / from_phi call
    receives an expression of the unit the keyword expects — `nu*`: Size, `T`, `initial_t`: Time, `m<ij>`: Rate, `gamma*`: Sel,
    `theta0`: Theta, `h*`, `beta`, `f*`: dimensionless, `Fs`/`ploidys`: tuples of dimensionless numbers, densities / grids /
    flags / `ns`: not a number and independent of the parameters — and every `if` compares quantities of one unit; parameters
    are classified by name (`nu*` Size, `T*` Time, `m*` Rate, `gamma*` Sel, `s`, `F`, `f*`, `p*` dimensionless), products and
    quotients add and subtract exponents, sums need equal units, `**`, `exp`, `log` need dimensionless operands, the
    literal `0` has every unit.  Stated under the **reference-size convention** (a dimensionless quantity in a Size or
    Theta position is that multiple of the reference size / reference θ); the strict form is `C15_units_reference_sites`.
    A keyword that receives a parameter of another family (`T=nu1`, `m12=gamma1`) falsifies this statement. -/
theorem C15_units : table.all (modelUnitsOK table sigs true) = true := by
  rw [List.all_eq_true]
  intro m hm
  obtain ⟨t, hs, hu, _, _⟩ := C15Facts.summary_of_mem hm
  unfold modelUnitsOK
  rw [hs]; exact hu

/-- the check is not vacuous: it refuses `T=nu1`, `m12=gamma1`, `nu1=T`, `gamma=m`, an exponent with a unit (`x**(1/T)`),
    a sum of a size and a time; it accepts `nu=nuEu0*(nuEu/nuEu0)**(t/TEuAs)` (Size), `T=Ts-T`, `nu1=1-s` (reference-size
    convention only) -/
example :
    kwOK true (nm! "T") (.param (nm! "nu1")) = false ∧ kwOK true (nm! "m12") (.param (nm! "gamma1")) = false
    ∧ kwOK true (nm! "nu1") (.param (nm! "T")) = false ∧ kwOK true (nm! "gamma") (.param (nm! "m")) = false
    ∧ kwOK true (nm! "nu1") (.lam (.mul (.param (nm! "s")) (.pow (.div (.param (nm! "nu1")) (.param (nm! "s")))
          (.div (.lit 1 1) (.param (nm! "T")))))) = false
    ∧ kwOK true (nm! "T") (.add (.param (nm! "nu1")) (.param (nm! "T"))) = false
    ∧ kwOK false (nm! "nu2") (.lam (.mul (.param (nm! "nuEu0")) (.pow (.div (.param (nm! "nuEu")) (.param (nm! "nuEu0")))
          (.div .tvar (.param (nm! "TEuAs")))))) = true
    ∧ kwOK false (nm! "T") (.sub (.param (nm! "Ts")) (.param (nm! "T"))) = true
    ∧ kwOK true (nm! "nu1") (.sub (.lit 1 1) (.param (nm! "s"))) = true
    ∧ kwOK false (nm! "nu1") (.sub (.lit 1 1) (.param (nm! "s"))) = false := by
  decide +kernel

/-- **where a literal stands for the reference size** (strict units).  Apart from the two defaults every library call
    inherits — `theta0 = 1` (the reference θ) in every integrator and `nu = 1` (the ancestral size) in `PhiManip.phi_1D` — the
    arguments that are not strictly well-united are, for every model of the table, exactly the (primitive, keyword) pairs
    tabled in `Pairs.refSiteTable` (none for a model that is not tabled): 28 models, only `one_pop(nu=…)`,
    `two_pops(nu1=…, nu2=…)` — the literal sizes `1` of the `bottlegrowth_split*` family and of `IM_sel` (`nuPre = 1`), the
    fractions `s`, `1-s` of the Portik `vic_*`/`founder_*` models and of `IM`, and `exp(log(nu)·t/T)` in `growth`.  Every one of
    them is well-united under the reference-size convention (`C15_units`). -/
theorem C15_units_reference_sites :
    (∀ m ∈ table, refSites table sigs m = (Pairs.refSiteTable.lookup m.name).getD [])
    ∧ Pairs.refSiteTable.all (fun e => (findModel table e.1).isSome && !e.2.isEmpty) = true
    ∧ Pairs.refSiteTable.length = 28
    ∧ dedup (Pairs.refSiteTable.flatMap (·.2))
      = [(nm! "Integration.one_pop", nm! "nu"), (nm! "Integration.two_pops", nm! "nu1"),
         (nm! "Integration.two_pops", nm! "nu2")] := by
  refine ⟨fun m hm => ?_, C15Facts.ref_tables.1, C15Facts.ref_tables.2.1, C15Facts.ref_tables.2.2.1⟩
  obtain ⟨t, hs, _, hr, _⟩ := C15Facts.summary_of_mem hm
  unfold refSites
  rw [hs]; exact hr

/-- **homogeneity** (semantic content of the unit system): in every interpretation with an action `A.sc` of the unit group
    on its scalars (`UnitAction`: compatible with `+ - * /`, fixing the literal 0), an expression of unit `ut` evaluated at the
    rescaled parameters — every classified parameter `n` replaced by `sc (unit of n) (ρ n)`, the time variable by
    `sc Time τ` — is `sc ut` of its value (`Hom`; for the unit-polymorphic `poly`: `sc k` of its value for every `k`).
    `r = false`: strict units; `r = true`: the reference-size convention (sizes and θ are not rescaled). -/
theorem C15_units_homogeneous {I : Interp} (A : UnitAction I) (r tv : Bool) (ρ ρ' : Name → I.S)
    (hρ : ∀ n u, paramUnit n = some u → ρ' n = A.sc (u.ref r) (ρ n)) (τ τ' : I.S) (hτ : tv = true → τ' = A.sc U.Time τ)
    (e : Expr) (ut : UT) (h : unitOf r tv e = some ut) :
    Hom A ut (evalS I ρ' τ' e) (evalS I ρ τ e) :=
  evalS_hom A hρ hτ e ut h

/-- …for a whole call: when every keyword of a call is well-united, the evaluated arguments at the rescaled parameters are
    the arguments rescaled keyword by keyword (`ArgsHom`: a number by the unit its keyword expects, a size function
    `f' (sc Time τ) = sc Size (f τ)`, everything that is not a number unchanged) -/
theorem C15_units_call_scale {I : Interp} (A : UnitAction I) (r : Bool) (ρ ρ' : Name → I.S)
    (hρ : ∀ n u, paramUnit n = some u → ρ' n = A.sc (u.ref r) (ρ n)) (c : Call) (h : callOK r c = true) :
    ArgsHom A r (evalArgs I ρ' c.args) (evalArgs I ρ c.args) :=
  evalArgs_hom A hρ c.args h

/-- the rescaling interpretation over ℚ is such an action: for positive factors `(cS, cT, cR, cG, cθ)`,
    `sc u x = cS^u.size · cT^u.time · cR^u.rate · cG^u.sel · cθ^u.theta · x`; the rescaling of property C03 (sizes and times
    `× c`, rates, selection and θ0 `÷ c`) is `(c, c, 1/c, 1/c, 1/c)`, for which `sc u x = c ^ deg u · x` -/
theorem C15_units_rescaling_is_action (c : ℚ) (hc : 0 < c) (Φ Out : Type) (start step finish pow call1) :
    ∃ A : UnitAction (ratInterp Φ Out start step finish pow call1), ∀ u x, A.sc u x = c ^ u.deg * x :=
  ⟨ratAction Φ Out start step finish pow call1 (c03 c hc), fun u x => by
    show pw (c03 c hc) u * x = c ^ u.deg * x; rw [pw_c03]⟩

/-- concrete instance: the size function of `out_of_africa`, `nuEu0·(nuEu/nuEu0)^(t/TEuAs)`, has unit Size (strictly), so with
    all sizes and times doubled and the time argument doubled its value doubles — whatever `**` is -/
example (pow : ℚ → ℚ → ℚ) (ρ : Name → ℚ) (τ : ℚ) :
    let I := ratInterp Unit Unit (fun _ _ => some ()) (fun _ _ _ => some ()) (fun _ _ _ => some ()) pow (fun _ x => x)
    let e : Expr := .mul (.param (nm! "nuEu0")) (.pow (.div (.param (nm! "nuEu")) (.param (nm! "nuEu0"))) (.div .tvar (.param (nm! "TEuAs"))))
    evalS I (fun n => match paramUnit n with | some u => (2 : ℚ) ^ u.deg * ρ n | none => ρ n) (2 * τ) e = 2 * evalS I ρ τ e := by
  intro I e
  obtain ⟨A, hA⟩ := C15_units_rescaling_is_action 2 (by norm_num) Unit Unit (fun _ _ => some ()) (fun _ _ _ => some ())
    (fun _ _ _ => some ()) pow (fun _ x => x)
  have h := C15_units_homogeneous A false true ρ (fun n => match paramUnit n with | some u => (2 : ℚ) ^ u.deg * ρ n | none => ρ n)
    (fun n u hu => by simp only [hu]; exact (hA u (ρ n)).symm) τ (2 * τ) (fun _ => by rw [hA]; rfl) e (.u U.Size) (by decide +kernel)
  have h' : evalS I _ (2 * τ) e = A.sc U.Size (evalS I ρ τ e) := h
  rw [h', hA]; rfl

/-- **program-level scale invariance (C03 at the level of a model program)**: in every interpretation whose primitives are
    invariant under the rescaling of their keywords by the units the keywords expect (`PrimScaleLawful` — for the real
    kernels and the C03 rescaling these are `C03_integrate_scale_const/_fn`, `C03_inject_scale`; the φ-manipulations take
    no dimensional argument), a trace that passes the units check means the same at the rescaled parameters: every
    primitive call receives rescaled arguments, and every `if` takes the same branch -/
theorem C15_program_scale {I : Interp} (A : UnitAction I) (r : Bool) (hP : PrimScaleLawful I A r) (ρ ρ' : Name → I.S)
    (hρ : ∀ n u, paramUnit n = some u → ρ' n = A.sc (u.ref r) (ρ n)) (t : Tr) (h : unitsTr r t = true) :
    runTr I ρ' t = runTr I ρ t :=
  runTr_scale A hP hρ t h

/-- the 11 models of `Pairs.refInsideModels` are exactly those in which the reference size sits *inside* a size function
    (`s·(nu/s)^(t/T)` with `s` a fraction of the reference size, `exp(log(nu)·t/T)`), so that making it explicit at keyword
    level does not give a strictly well-united program; for the other 93 models it does -/
theorem C15_program_scale_exceptions :
    (∀ m ∈ table, modelRefExplicitOK table sigs m = !(Pairs.refInsideModels.contains m.name))
    ∧ Pairs.refInsideModels.all (fun n => (findModel table n).isSome && (Pairs.refSiteTable.lookup n).isSome) = true
    ∧ Pairs.refInsideModels.length = 11 := by
  refine ⟨fun m hm => ?_, C15Facts.ref_tables.2.2.2.1, C15Facts.ref_tables.2.2.2.2⟩
  obtain ⟨t, hs, _, _, hx⟩ := C15Facts.summary_of_mem hm
  unfold modelRefExplicitOK
  rw [hs]; exact hx

/-- **the library models are independent of the reference size**: a library model fixes the ancestral size and θ0 to the
    literal 1.  For every model of the table outside `C15_program_scale_exceptions`, its run `t` with the reference size and
    the reference θ made explicit (`refExplicit`: `nu=1 ↦ Nref·1`, `nu1=1-s ↦ Nref·(1-s)`, `theta0=1 ↦ theta_ref·1`) is
    strictly well-united, means what the model means at `Nref = theta_ref = 1`, and therefore — in every scale-lawful
    interpretation — the model equals the reference-explicit program at the rescaled parameters, reference size `sc Size 1`
    and reference θ `sc Theta 1` -/
theorem C15_program_scale_library (m : Model) (_hm : m ∈ table) (hx : modelRefExplicitOK table sigs m = true)
    {I : Interp} (A : UnitAction I) (hP : PrimScaleLawful I A false) (hmul : ∀ x, I.mul (I.lit 1 1) x = x)
    (ρ ρ' : Name → I.S) (hρ : ∀ n u, paramUnit n = some u → ρ' n = A.sc u (ρ n))
    (hN : ρ (nm! "Nref") = I.lit 1 1) (hθ : ρ (nm! "theta_ref") = I.lit 1 1) :
    ∃ t, symbolicRun table sigs m.name (m.paramNames.map .param) = some t ∧ unitsTr false (refExplicit t) = true ∧
      sem I ρ table sigs m.name (m.paramNames.map .param) = runTr I ρ' (refExplicit t) := by
  unfold modelRefExplicitOK at hx
  cases hs : symbolicRun table sigs m.name (m.paramNames.map .param) with
  | none => rw [hs] at hx; cases hx
  | some t =>
      rw [hs] at hx
      refine ⟨t, rfl, hx, ?_⟩
      unfold sem
      rw [hs]
      show runTr I ρ t = _
      rw [← runTr_refExplicit hmul hN hθ t]
      exact (runTr_scale A hP (r := false) (fun n u hu => by rw [U.ref_false]; exact hρ n u hu) (refExplicit t) hx).symm

/-- the hypotheses are satisfiable together (rationals, the C03 rescaling by 3, primitives that ignore their arguments),
    and `modelRefExplicitOK` holds for a model with a literal size and a model with a fraction -/
example : PrimScaleLawful (ratInterp Unit Unit (fun _ _ => some ()) (fun _ _ _ => some ()) (fun _ _ _ => some ()) (fun _ _ => 1) (fun _ x => x))
    (ratAction Unit Unit _ _ _ _ _ (c03 3 (by norm_num))) false :=
  ⟨fun _ _ _ _ => rfl, fun _ _ _ _ _ => rfl, fun _ _ _ _ _ => rfl⟩

example : (findModel table (nm! "Demographics2D.bottlegrowth_split_mig")).map (modelRefExplicitOK table sigs) = some true
    ∧ (findModel table (nm! "portik_models_2d.vic_anc_asym_mig")).map (modelRefExplicitOK table sigs) = some true := by
  decide +kernel

/-! ## Round 5 — value-dependent branches: both branches of a comparison mean the same on its boundary -/
namespace C15Facts
theorem table_boundary : table.all (modelBoundaryOK table sigs) = true := by decide +kernel
end C15Facts

/-- **branch boundaries**: a model body that branches on a comparison between parameters — `if T >= Ts: … else: …`, or a
    conditional expression `nu2 = nuEu if nuEu0 == nuEu else nuEu_func`, which the translator renders as the statement in both
    forms under an `ite` — is exercised by the comparison only on one side at a time.  For every model of the table and every
    comparison `if c` in its trace (`IsNode`), in every lawful interpretation that also satisfies `BoundaryLawful` (`x-x = 0`,
    `x*0 = 0*x = 0`, `0/x = 0`, `1**x = 1`, `exp 0 = 1`, and every primitive gives the same result for a size function that is
    constant and for the constant), at every valuation **on the boundary** of `c` (its two sides have the same value) with
    invertible sizes: the `then` formula and the `else` formula have the same meaning (in each, a nested `if` on the same
    comparison is decided accordingly), so whichever branch the comparison selects there, the model means what the other
    formula means there.  A guard that tests the wrong variable (`nu3 = nuAs if nuEu0 == nuEu else nuAs_func`: on the boundary
    `nuEu0 = nuEu` the `else` formula is the size function `nuAs_func`, the `then` formula the constant `nuAs`) falsifies it. -/
theorem C15_branch_boundary (m : Model) (hm : m ∈ table) :
    ∃ t, symbolicRun table sigs m.name (m.paramNames.map .param) = some t ∧
      ∀ c a b, IsNode t c a b → ∀ I : Interp, Lawful I (integrators sigs) → BoundaryLawful I → ∀ ρ : Name → I.S,
        OnBoundary I ρ c → SizesInvertible I ρ →
          runTr I ρ (prune c true a) = runTr I ρ (prune c false b)
          ∧ runTr I ρ (.ite c a b) = runTr I ρ (prune c true a)
          ∧ runTr I ρ (.ite c a b) = runTr I ρ (prune c false b) := by
  have h := List.all_eq_true.mp C15Facts.table_boundary m hm
  unfold modelBoundaryOK at h
  cases hs : symbolicRun table sigs m.name (m.paramNames.map .param) with
  | none => rw [hs] at h; cases h
  | some t =>
      rw [hs] at h
      exact ⟨t, rfl, fun c a b hn I hI hB ρ hb hsz => boundaryTr_sound hI hB h hn ρ hb hsz⟩

/-- where the statement has content today: the nine models of the table whose trace has a comparison, with the comparisons
    (all `T >= Ts`; `Ts = 0` in the `bottlegrowth_2d` family, which delegates with a literal) and the verdict of each -/
theorem C15_branch_boundary_table :
    (C15Facts.branchModels.map fun n =>
        match symbolicRun table sigs n ((findModel table n).map (·.paramNames.map .param) |>.getD []) with
        | some t => (n, (boundaryNodes (integrators sigs) t).map fun x => (x.1.op, x.1.lhs, x.1.rhs, x.2))
        | none => (n, []))
      = [(nm! "Demographics2D.bottlegrowth_2d", [(nm! ">=", .param (nm! "T"), .lit 0 1, true)]),
         (nm! "Demographics2D.bottlegrowth_split", [(nm! ">=", .param (nm! "T"), .param (nm! "Ts"), true)]),
         (nm! "Demographics2D.bottlegrowth_split_mig", [(nm! ">=", .param (nm! "T"), .param (nm! "Ts"), true)]),
         (nm! "DemogSelModels.bottlegrowth_2d_sel", [(nm! ">=", .param (nm! "T"), .lit 0 1, true)]),
         (nm! "DemogSelModels.bottlegrowth_2d_sel_single_gamma", [(nm! ">=", .param (nm! "T"), .lit 0 1, true)]),
         (nm! "DemogSelModels.bottlegrowth_split_sel", [(nm! ">=", .param (nm! "T"), .param (nm! "Ts"), true)]),
         (nm! "DemogSelModels.bottlegrowth_split_sel_single_gamma", [(nm! ">=", .param (nm! "T"), .param (nm! "Ts"), true)]),
         (nm! "DemogSelModels.bottlegrowth_split_mig_sel", [(nm! ">=", .param (nm! "T"), .param (nm! "Ts"), true)]),
         (nm! "DemogSelModels.bottlegrowth_split_mig_sel_single_gamma", [(nm! ">=", .param (nm! "T"), .param (nm! "Ts"), true)])] := by
  decide +kernel

/-- the conditional-expression form, as `tools/gen_Models.py` translates it (the statement in both forms under an `ite`, the
    rest of the body in both branches): two populations that grow exponentially from `nu10` to `nu1` and from `nu20` to `nu2`,
    a population without growth passed as a constant,
    `a1 = nu1 if nu10 == nu1 else f1;  a2 = nu2 if <guard> else f2;  two_pops(phi, xx, T, a1, a2)` -/
def exCondExprModel (guard : Cond) : Model :=
  let p (s : Name) : Expr := .param s
  let growth (n0 n1 : Name) : Expr := .lam (.mul (p n0) (.pow (.div (p n1) (p n0)) (.div .tvar (p (nm! "T")))))
  let rest : Prog :=
    .prim ⟨nm! "Integration.two_pops", [(nm! "phi", p (nm! "phi")), (nm! "xx", p (nm! "xx")), (nm! "T", p (nm! "T")),
                                        (nm! "nu1", p (nm! "a1")), (nm! "nu2", p (nm! "a2"))]⟩
      (.ret ⟨nm! "Spectrum.from_phi", [(nm! "phi", p (nm! "phi")), (nm! "ns", p (nm! "ns")),
                                       (nm! "xxs", .tcons (p (nm! "xx")) (.tcons (p (nm! "xx")) .tnil))]⟩)
  let second : Prog := .ite guard (.letE (nm! "a2") (p (nm! "nu2")) rest) (.letE (nm! "a2") (p (nm! "f2")) rest)
  { name := nm! "example.two_growth", paramNames := [nm! "nu10", nm! "nu1", nm! "nu20", nm! "nu2", nm! "T"],
    argNames := [nm! "params", nm! "ns", nm! "pts"],
    body :=
      .unpack [nm! "nu10", nm! "nu1", nm! "nu20", nm! "nu2", nm! "T"]
      (.letE (nm! "xx") (.call1 (nm! "Numerics.default_grid") (p (nm! "pts")))
      (.prim ⟨nm! "PhiManip.phi_1D", [(nm! "xx", p (nm! "xx"))]⟩
      (.prim ⟨nm! "PhiManip.phi_1D_to_2D", [(nm! "xx", p (nm! "xx")), (nm! "phi_1D", p (nm! "phi"))]⟩
      (.letE (nm! "f1") (growth (nm! "nu10") (nm! "nu1"))
      (.letE (nm! "f2") (growth (nm! "nu20") (nm! "nu2"))
      (.ite ⟨nm! "==", p (nm! "nu10"), p (nm! "nu1")⟩
        (.letE (nm! "a1") (p (nm! "nu1")) second)
        (.letE (nm! "a1") (p (nm! "f1")) second))))))) }

/-- the boundary check is not vacuous on the conditional-expression form: with each guard on its own population it is
    accepted (`nu10*(nu1/nu10)**(t/T)` at `nu1 = nu10` normalises to the constant `nu10`: `nu/nu = 1`, `1**x = 1`, `x*1 = x`, a
    time-free size function is the constant), and the model is well-formed; with the second guard testing the *first*
    population's sizes it is refused, although that model is still well-formed, well-wired and well-united -/
example :
    let good := exCondExprModel ⟨nm! "==", .param (nm! "nu20"), .param (nm! "nu2")⟩
    let bad := exCondExprModel ⟨nm! "==", .param (nm! "nu10"), .param (nm! "nu1")⟩
    modelBoundaryOK [good] sigs good = true ∧ wellFormed [good] sigs good = true
    ∧ modelBoundaryOK [bad] sigs bad = false ∧ wellFormed [bad] sigs bad = true ∧ modelUnitsOK [bad] sigs true bad = true
    ∧ (symbolicRun [good] sigs good.name (good.paramNames.map .param)).map branchCount = some 4
    -- label swap: the model at the permuted vector tests the *other* comparison first; `sortTr` (Model/ModelPerm.lean) puts
    -- nested comparisons in one order, so the correctly guarded model is still recognised as symmetric, the other is not
    ∧ permOK [good] sigs permRules permPairs permFin good.name [1, 0]
        [.param (nm! "nu20"), .param (nm! "nu2"), .param (nm! "nu10"), .param (nm! "nu1"), .param (nm! "T")] = true
    ∧ permOK [bad] sigs permRules permPairs permFin bad.name [1, 0]
        [.param (nm! "nu20"), .param (nm! "nu2"), .param (nm! "nu10"), .param (nm! "nu1"), .param (nm! "T")] = false := by
  decide +kernel

/-- the hypotheses of `C15_branch_boundary` are satisfiable together -/
example : Lawful unitInterp (integrators sigs) ∧ BoundaryLawful unitInterp ∧ SizesInvertible unitInterp (fun _ => ()) :=
  ⟨⟨fun _ => rfl, fun _ => rfl, fun _ => rfl, fun _ _ _ _ _ _ => rfl⟩,
   ⟨fun _ => rfl, fun _ => rfl, fun _ => rfl, fun _ => rfl, fun _ => rfl, rfl, fun _ _ _ _ => rfl, fun _ _ _ _ _ => rfl,
    fun _ _ _ _ _ => rfl⟩, fun _ _ => rfl⟩

/-! ## non-vacuity: concrete interpretations satisfying the hypotheses -/

/-- a lawful interpretation over the integers (a literal `n/d` is read as `n`) that records the primitives applied (zero-duration integrations are the
    identity by construction, as in the source) -/
@[reducible] def traceInterp : Interp where
  S := Int
  Φ := List Name
  Out := List Name
  lit a _ := (a : Int)
  sym _ := 0
  neg x := -x
  add x y := x + y
  sub x y := x - y
  mul x y := x * y
  div x y := x / y
  pow x _ := x
  call1 _ x := x
  cmp _ x y := decide (x ≥ y)
  start fn _ := some [fn]
  step fn φ args :=
    match args.lookup (nm! "T"), args.lookup (nm! "initial_t") with
    | some (.scalar t), some (.scalar t0) =>
        if (integrators sigs).contains fn ∧ t = 0 ∧ t0 = 0 then some φ else some (φ ++ [fn])
    | _, _ => some (φ ++ [fn])
  finish fn φ _ := some (φ ++ [fn])

theorem traceInterp_lawful : Lawful traceInterp (integrators sigs) where
  mul_one_left x := by show ((1 : Nat) : Int) * x = x; simp
  mul_one_right x := by show x * ((1 : Nat) : Int) = x; simp
  sub_zero x := by show x - ((0 : Nat) : Int) = x; simp
  zero_duration fn hfn φ args hT h0 := by
    show (match args.lookup (nm! "T"), args.lookup (nm! "initial_t") with
          | some (.scalar t), some (.scalar t0) =>
              if (integrators sigs).contains fn ∧ t = 0 ∧ t0 = 0 then some φ else some (φ ++ [fn])
          | _, _ => some (φ ++ [fn])) = some φ
    rw [hT, hI0 h0]
    simp only
    have h00 : traceInterp.lit 0 1 = (0 : Int) := rfl
    rw [if_pos ⟨by simpa using hfn, h00, h00⟩]
where hI0 {args : List (Name × Val traceInterp.S)} (h0 : args.lookup (nm! "initial_t") = some (.scalar (traceInterp.lit 0 1))) :
    args.lookup (nm! "initial_t") = some (.scalar (traceInterp.lit 0 1)) := h0

/-- the hypotheses of the nesting theorems are satisfiable, and the common value is a genuine run:
    `sym_mig` at `m = 0` and `no_mig` both give phi_1D → split → two_pops → from_phi -/
example :
    sem traceInterp (fun _ => 1) table sigs (nm! "portik_models_2d.sym_mig")
        [.param (nm! "nu1"), .param (nm! "nu2"), .lit 0 1, .param (nm! "T")]
      = some [nm! "PhiManip.phi_1D", nm! "PhiManip.phi_1D_to_2D", nm! "Integration.two_pops", nm! "Spectrum.from_phi"] := by
  decide +kernel

/-- …and a zero-length epoch really disappears: `anc_sym_mig(nu1, nu2, m, T, 0)` runs one integration, not two -/
example :
    sem traceInterp (fun _ => 1) table sigs (nm! "portik_models_2d.anc_sym_mig")
        [.param (nm! "nu1"), .param (nm! "nu2"), .param (nm! "m"), .param (nm! "T"), .lit 0 1]
      = some [nm! "PhiManip.phi_1D", nm! "PhiManip.phi_1D_to_2D", nm! "Integration.two_pops", nm! "Spectrum.from_phi"] := by
  decide +kernel

/-- …and on the boundary `T = Ts` the two branches of `bottlegrowth_split_mig` are the same genuine run: in the `then` branch the
    one-population epoch has length `T - Ts = 0`, in the `else` branch the first two-population epoch has length `Ts - T = 0` -/
example :
    (symbolicRun table sigs (nm! "Demographics2D.bottlegrowth_split_mig")
        [.param (nm! "nuB"), .param (nm! "nuF"), .param (nm! "m"), .param (nm! "T"), .param (nm! "Ts")]).map
      (fun t => ((selectBranch [true] t).bind (runTr traceInterp (fun _ => 1)), (selectBranch [false] t).bind (runTr traceInterp (fun _ => 1))))
      = some (some [nm! "PhiManip.phi_1D", nm! "PhiManip.phi_1D_to_2D", nm! "Integration.two_pops", nm! "Spectrum.from_phi"],
              some [nm! "PhiManip.phi_1D", nm! "PhiManip.phi_1D_to_2D", nm! "Integration.two_pops", nm! "Spectrum.from_phi"]) := by
  decide +kernel

/-- a typed interpretation: densities are their dimension, a primitive refuses a density of another dimension -/
@[reducible] def dimInterp : Interp where
  S := Unit
  Φ := Nat
  Out := Unit
  lit _ _ := ()
  sym _ := ()
  neg _ := ()
  add _ _ := ()
  sub _ _ := ()
  mul _ _ := ()
  div _ _ := ()
  pow _ _ := ()
  call1 _ _ := ()
  cmp _ _ _ := true
  start fn _ := (findSig sigs fn).bind fun s => if s.kind = .start then some s.dimOut else none
  step fn d _ := (findSig sigs fn).bind fun s => if s.kind = .step ∧ s.dimIn = d then some s.dimOut else none
  finish fn d _ := (findSig sigs fn).bind fun s => if s.kind = .finish ∧ (s.dimIn = 0 ∨ s.dimIn = d) then some () else none

theorem mem_sigs_find {s : Sig} (hs : s ∈ sigs) : findSig sigs s.fn = some s := by
  have h := List.all_eq_true.mp C15Facts.sigs_names_unique s hs
  simpa using h

theorem dimInterp_typed : Typed dimInterp sigs (fun d => d) where
  start_ok s hs hk args := ⟨s.dimOut, by show ((findSig sigs s.fn).bind _) = _; rw [mem_sigs_find hs]; simp [hk]; try rfl, rfl⟩
  step_ok s hs hk φ args hd :=
    ⟨s.dimOut, by show ((findSig sigs s.fn).bind _) = _; rw [mem_sigs_find hs]; simp [hk, hd]; try rfl, rfl⟩
  finish_ok s hs hk φ args hd _ :=
    ⟨(), by show ((findSig sigs s.fn).bind _) = _; rw [mem_sigs_find hs]; simp [hk, hd]; try rfl⟩

/-- the hypothesis of `C15_checker_sound` is satisfiable, and the interpretation is not trivially total: it refuses a
    three-population integration of a two-population density -/
example : dimInterp.step (nm! "Integration.three_pops") (2 : Nat) [] = none := by decide +kernel

end DadiVerif
