import DadiVerif.Lemmas.ModelDSL
import DadiVerif.Generated.Models
import DadiVerif.Model.ModelPairs
/-!
# C15 — library models are well-formed and reduce to their nested special cases

All statements are about `Gen.Models.table` / `Gen.Models.sigs` — the DSL programs and primitive signatures that
`tools/gen_Models.py` regenerates from the current source of the six model files and of PhiManip/Integration/Spectrum_mod
on every run — and about the definitions of Model/ModelDSL.lean that the driver executes (`exec`, `canonTr`,
`wellFormed`, `normalForm`, `nestOK`, `swapOK`, `runTr`).

**Proved for every model of the table** (104 today) and every interpretation of the scalars and primitives:
* `C15_wellformed`, `C15_arity_exact`, `C15_checker_sound`: the parameter vector is consumed by one tuple unpacking of exactly
  the names in `__param_names__` (so a vector of another length is refused), every name used is bound, every primitive
  call binds against the source signature, is applied at the dimension the density has, `from_phi` receives one grid per
  population and the requested `ns`; in every typed interpretation the program runs to the end.
* `C15_nesting_*`: for each of the 128 nesting pairs of Model/ModelPairs.lean (zero migration, zero-length epoch, equal
  asymmetric rates, zero selection, equal selection, composites) the model instantiated at the nesting point has the
  same meaning as the simpler model, **in every interpretation satisfying `Lawful`** (`1*x = x*1 = x`; the integrators
  the source of which starts with `if T - initial_t == 0: return phi` are the identity at zero duration).
* `C15_swap_syntactic`: for the 33 symmetric two-population models, the model at the permuted parameter vector is the
  relabelled model, in every interpretation in which the primitives are equivariant under relabelling (`SwapLawful`).

**Not proved here (numerical, harness L3)**: that the real primitives form such an interpretation up to round-off
(zero-duration identity is exact; equivariance of `two_pops` under transposition holds only up to the operator-splitting
error, which shrinks with the time step), finiteness and non-negativity of the spectra, the `extrap_x` tag.
-/
namespace DadiVerif
open ModelDSL Gen.Models

set_option maxRecDepth 100000

/-! ## the finite checks over the generated table (`decide +kernel` over complete tables: every statement evaluates a
decision procedure of Model/ModelDSL.lean on `Gen.Models.table` / `Gen.Models.sigs` in the kernel) -/
namespace C15Facts
theorem table_wellFormed : table.all (wellFormed table sigs) = true := by decide +kernel
theorem ms_wellFormed : msTable.all msWellFormed = true := by decide +kernel
theorem table_names_unique : table.all (fun m => findModel table m.name == some m) = true := by decide +kernel
theorem sigs_names_unique : sigs.all (fun s => findSig sigs s.fn == some s) = true := by decide +kernel
theorem nest_zeroMigration : Pairs.zeroMigration.all (fun p => nestOK table sigs p.a p.b p.args) = true := by decide +kernel
theorem nest_zeroEpoch : Pairs.zeroEpoch.all (fun p => nestOK table sigs p.a p.b p.args) = true := by decide +kernel
theorem nest_equalRates : Pairs.equalRates.all (fun p => nestOK table sigs p.a p.b p.args) = true := by decide +kernel
theorem nest_zeroSelection : Pairs.zeroSelection.all (fun p => nestOK table sigs p.a p.b p.args) = true := by decide +kernel
theorem nest_equalSelection : Pairs.equalSelection.all (fun p => nestOK table sigs p.a p.b p.args) = true := by decide +kernel
theorem nest_composite : Pairs.composite.all (fun p => nestOK table sigs p.a p.b p.args) = true := by decide +kernel
theorem nest_branch :
    Pairs.branch.all (fun p => nestOKAt table sigs p.a p.argsA p.path p.b p.argsB) = true := by decide +kernel
theorem table_wiring :
    table.all (fun m => match symbolicRun table sigs m.name (m.paramNames.map .param) with
                        | some t => wiringOK (integrators sigs) t
                        | none => false) = true := by decide +kernel
theorem swap_symmetric : Pairs.symmetric.all (fun p => swapOK table sigs swapRules12 p.name p.args) = true := by
  decide +kernel
end C15Facts

/-- every model function of the six files passes the checker, and the three ms-command builders unpack exactly the
    parameters they name -/
theorem C15_wellformed :
    table.all (wellFormed table sigs) = true ∧ msTable.all msWellFormed = true :=
  ⟨C15Facts.table_wellFormed, C15Facts.ms_wellFormed⟩

/-- the zero-duration law is claimed exactly for the functions whose source begins with the early return -/
theorem C15_zero_duration_integrators :
    integrators sigs =
      [nm! "Integration.one_pop", nm! "Integration.two_pops", nm! "Integration.three_pops",
       nm! "Integration.four_pops", nm! "Integration.five_pops"] := by
  decide +kernel

theorem mem_table_find {m : Model} (hm : m ∈ table) : findModel table m.name = some m := by
  have h := List.all_eq_true.mp C15Facts.table_names_unique m hm
  simpa using h

/-- **exact arity**: every model with named parameters runs (symbolically) on the vector of its named parameters and
    refuses every vector of another length, as Python's tuple unpacking does -/
theorem C15_arity_exact (m : Model) (hm : m ∈ table) (hne : m.paramNames ≠ []) :
    (exec table m.name (m.paramNames.map .param)).isSome = true ∧
    ∀ args : List Expr, args.length ≠ m.paramNames.length → exec table m.name args = none :=
  wellFormed_arity (List.all_eq_true.mp C15_wellformed.1 m hm) (mem_table_find hm) hne

/-- the models without named parameters (`snm_1d`, `snm_2d`: the argument is documented as unused) are the only ones that
    accept any vector -/
theorem C15_arity_unnamed :
    (table.filter (fun m => m.paramNames == [])).map (·.name)
      = [nm! "Demographics1D.snm_1d", nm! "Demographics2D.snm_2d"] := by
  decide +kernel

/-- **soundness of the checker**: in every interpretation whose primitives accept a density of the dimension their
    signature states (`from_phi`: one grid per population), every model of the table runs to the end — no primitive is
    applied at a wrong dimension -/
theorem C15_checker_sound (I : Interp) (dim : I.Φ → Nat) (hT : Typed I sigs dim) (ρ : Name → I.S)
    (m : Model) (hm : m ∈ table) :
    ∃ o, sem I ρ table sigs m.name (m.paramNames.map .param) = some o := by
  have hw := List.all_eq_true.mp C15_wellformed.1 m hm
  unfold wellFormed at hw
  simp only [Bool.and_eq_true] at hw
  unfold sem
  cases hs : symbolicRun table sigs m.name (m.paramNames.map .param) with
  | none => rw [hs] at hw; exact absurd hw.2 (by simp)
  | some t =>
      rw [hs] at hw
      exact checkTr_sound hT ρ t hw.2

/-- general form: whenever `nestOK` accepts a pair, the two models mean the same in every lawful interpretation -/
theorem C15_nesting_sound (I : Interp) (hI : Lawful I (integrators sigs)) (ρ : Name → I.S) (a b : Name)
    (args : List Expr) (h : nestOK table sigs a b args = true) :
    ∃ mb, findModel table b = some mb ∧
      sem I ρ table sigs a args = sem I ρ table sigs b (mb.paramNames.map .param) :=
  nestOK_sound hI ρ h

/-- the statement proved for every pair of a group -/
def NestsIn (ps : List Pairs.NestPair) : Prop :=
  ∀ p ∈ ps, ∀ I : Interp, Lawful I (integrators sigs) → ∀ ρ : Name → I.S,
    ∃ mb, findModel table p.b = some mb ∧
      sem I ρ table sigs p.a p.args = sem I ρ table sigs p.b (mb.paramNames.map .param)

theorem nestsIn_of_all {ps : List Pairs.NestPair}
    (h : ps.all (fun p => nestOK table sigs p.a p.b p.args) = true) : NestsIn ps :=
  fun p hp I hI ρ => nestOK_sound hI ρ (List.all_eq_true.mp h p hp)

/-- migration rates set to 0 (33 pairs, e.g. `sym_mig(nu1, nu2, 0, T) = no_mig(nu1, nu2, T)`) -/
theorem C15_nesting_zero_migration : NestsIn Pairs.zeroMigration := nestsIn_of_all C15Facts.nest_zeroMigration
/-- an epoch of length 0 (36 pairs, e.g. `IM_pre(1, 0, s, …) = IM(s, …)`, `bottlegrowth_split(nuB, nuF, T, 0) = bottlegrowth_2d`) -/
theorem C15_nesting_zero_epoch : NestsIn Pairs.zeroEpoch := nestsIn_of_all C15Facts.nest_zeroEpoch
/-- equal asymmetric rates (17 pairs, e.g. `split_asym_mig(nu1, nu2, T, m, m) = split_mig(nu1, nu2, T, m)`) -/
theorem C15_nesting_equal_rates : NestsIn Pairs.equalRates := nestsIn_of_all C15Facts.nest_equalRates
/-- zero selection (16 pairs, e.g. `split_mig_sel_single_gamma(nu1, nu2, T, m, 0) = split_mig(nu1, nu2, T, m)`) -/
theorem C15_nesting_zero_selection : NestsIn Pairs.zeroSelection := nestsIn_of_all C15Facts.nest_zeroSelection
/-- equal selection in both populations (8 pairs, e.g. `IM_sel(…, γ, γ) = IM_sel_single_gamma(…, γ)`) -/
theorem C15_nesting_equal_selection : NestsIn Pairs.equalSelection := nestsIn_of_all C15Facts.nest_equalSelection
/-- combinations, and the `_size` models with the same sizes in both epochs (18 pairs) -/
theorem C15_nesting_composite : NestsIn Pairs.composite := nestsIn_of_all C15Facts.nest_composite

/-- **one branch of a model with an `if`**: for the five pairs of `Pairs.branch` (the models with `if T >= Ts`, at `T = 0`, in
    the `else` branch "split before the size change"), whenever the comparisons along the path come out as stated
    (`0 >= Ts` is false, i.e. `Ts > 0`), the model means what the plain split model means — in particular with two *different*
    selection coefficients.  The tree-equal delegation pairs cannot see a slip inside one branch; these can. -/
theorem C15_nesting_branch (p : Pairs.BranchPair) (hp : p ∈ Pairs.branch)
    (I : Interp) (hI : Lawful I (integrators sigs)) (ρ : Name → I.S) :
    ∃ ta, normalForm table sigs p.a p.argsA = some ta ∧
      (PathHolds I ρ p.path ta → sem I ρ table sigs p.a p.argsA = sem I ρ table sigs p.b p.argsB) :=
  nestOKAt_sound hI ρ (List.all_eq_true.mp C15Facts.nest_branch p hp)

/-- the comparison that selects the branch is, in every one of these pairs, `0 >= Ts` with outcome `false` -/
theorem C15_nesting_branch_conditions :
    Pairs.branch.all (fun p => match normalForm table sigs p.a p.argsA with
      | some t => pathConds p.path t == [(⟨nm! ">=", .lit 0 1, .param (nm! "Ts")⟩, false)]
      | none => false) = true := by
  decide +kernel

/-- **argument wiring, every branch of every model**: in every integrator call, a keyword with a population index
    (`nu1`, `m21`, `gamma2`, …) that receives a bare model parameter of the same family with an index of the same length
    receives the one with the *same* index (`gamma2=gamma2`, `nu1=nu1a`, `m12=m12b`).  A copy-paste slip such as
    `gamma2=gamma1` in one branch of one model falsifies this statement. -/
theorem C15_wiring :
    table.all (fun m => match symbolicRun table sigs m.name (m.paramNames.map .param) with
                        | some t => wiringOK (integrators sigs) t
                        | none => false) = true :=
  C15Facts.table_wiring

/-- the wiring rule is not vacuous: it refuses `gamma2=gamma1` and `m12=m21`, accepts `gamma2=gamma2`, `nu1=nu1a`, and does
    not judge `m12=m1`, `gamma=gamma1` -/
example : wiredOK (nm! "gamma2") (.param (nm! "gamma1")) = false ∧ wiredOK (nm! "m12") (.param (nm! "m21")) = false
    ∧ wiredOK (nm! "gamma2") (.param (nm! "gamma2")) = true ∧ wiredOK (nm! "nu1") (.param (nm! "nu1a")) = true
    ∧ wiredOK (nm! "m12") (.param (nm! "m1")) = true ∧ wiredOK (nm! "gamma") (.param (nm! "gamma1")) = true := by
  decide +kernel

/-- the groups are not empty -/
theorem C15_nesting_counts :
    (Pairs.nesting.map fun g => (g.1, g.2.length))
      = [("zero_migration", 33), ("zero_epoch", 36), ("equal_rates", 17), ("zero_selection", 16),
         ("equal_selection", 8), ("composite", 18)] := by
  decide

/-- **label swap**: for every symmetric two-population model, the model at the permuted parameter vector is the model with
    populations 1 and 2 relabelled (evaluated at the relabelled sample sizes), in every lawful interpretation whose
    primitives are equivariant under the relabelling `τ` -/
theorem C15_swap_syntactic (p : Pairs.SwapPair) (hp : p ∈ Pairs.symmetric)
    (I : Interp) (hI : Lawful I (integrators sigs)) (τ : I.Φ → I.Φ) (τOut : I.Out → I.Out)
    (nsSwap : List (Name × Val I.S) → List (Name × Val I.S)) (hS : SwapLawful I swapRules12 τ τOut nsSwap)
    (ρ : Name → I.S) :
    ∃ m, findModel table p.name = some m ∧
      sem I ρ table sigs p.name p.args
        = (sem (I.withFinishArgs nsSwap) ρ table sigs p.name (m.paramNames.map .param)).map τOut :=
  swapOK_sound hI hS ρ (List.all_eq_true.mp C15Facts.swap_symmetric p hp)

/-! ## non-vacuity: concrete interpretations satisfying the hypotheses -/

/-- a lawful interpretation over the integers (a literal `n/d` is read as `n`) that records the primitives applied (zero-duration integrations are the
    identity by construction, as in the source) -/
@[reducible] def traceInterp : Interp where
  S := Int
  Φ := List Name
  Out := List Name
  lit a _ := (a : Int)
  sym _ := 0
  neg x := -x
  add x y := x + y
  sub x y := x - y
  mul x y := x * y
  div x y := x / y
  pow x _ := x
  call1 _ x := x
  cmp _ x y := decide (x ≥ y)
  start fn _ := some [fn]
  step fn φ args :=
    match args.lookup (nm! "T"), args.lookup (nm! "initial_t") with
    | some (.scalar t), some (.scalar t0) =>
        if (integrators sigs).contains fn ∧ t = 0 ∧ t0 = 0 then some φ else some (φ ++ [fn])
    | _, _ => some (φ ++ [fn])
  finish fn φ _ := some (φ ++ [fn])

theorem traceInterp_lawful : Lawful traceInterp (integrators sigs) where
  mul_one_left x := by show ((1 : Nat) : Int) * x = x; simp
  mul_one_right x := by show x * ((1 : Nat) : Int) = x; simp
  sub_zero x := by show x - ((0 : Nat) : Int) = x; simp
  zero_duration fn hfn φ args hT h0 := by
    show (match args.lookup (nm! "T"), args.lookup (nm! "initial_t") with
          | some (.scalar t), some (.scalar t0) =>
              if (integrators sigs).contains fn ∧ t = 0 ∧ t0 = 0 then some φ else some (φ ++ [fn])
          | _, _ => some (φ ++ [fn])) = some φ
    rw [hT, hI0 h0]
    simp only
    have h00 : traceInterp.lit 0 1 = (0 : Int) := rfl
    rw [if_pos ⟨by simpa using hfn, h00, h00⟩]
where hI0 {args : List (Name × Val traceInterp.S)} (h0 : args.lookup (nm! "initial_t") = some (.scalar (traceInterp.lit 0 1))) :
    args.lookup (nm! "initial_t") = some (.scalar (traceInterp.lit 0 1)) := h0

/-- the hypotheses of the nesting theorems are satisfiable, and the common value is a genuine run:
    `sym_mig` at `m = 0` and `no_mig` both give phi_1D → split → two_pops → from_phi -/
example :
    sem traceInterp (fun _ => 1) table sigs (nm! "portik_models_2d.sym_mig")
        [.param (nm! "nu1"), .param (nm! "nu2"), .lit 0 1, .param (nm! "T")]
      = some [nm! "PhiManip.phi_1D", nm! "PhiManip.phi_1D_to_2D", nm! "Integration.two_pops", nm! "Spectrum.from_phi"] := by
  decide +kernel

/-- …and a zero-length epoch really disappears: `anc_sym_mig(nu1, nu2, m, T, 0)` runs one integration, not two -/
example :
    sem traceInterp (fun _ => 1) table sigs (nm! "portik_models_2d.anc_sym_mig")
        [.param (nm! "nu1"), .param (nm! "nu2"), .param (nm! "m"), .param (nm! "T"), .lit 0 1]
      = some [nm! "PhiManip.phi_1D", nm! "PhiManip.phi_1D_to_2D", nm! "Integration.two_pops", nm! "Spectrum.from_phi"] := by
  decide +kernel

/-- a typed interpretation: densities are their dimension, a primitive refuses a density of another dimension -/
@[reducible] def dimInterp : Interp where
  S := Unit
  Φ := Nat
  Out := Unit
  lit _ _ := ()
  sym _ := ()
  neg _ := ()
  add _ _ := ()
  sub _ _ := ()
  mul _ _ := ()
  div _ _ := ()
  pow _ _ := ()
  call1 _ _ := ()
  cmp _ _ _ := true
  start fn _ := (findSig sigs fn).bind fun s => if s.kind = .start then some s.dimOut else none
  step fn d _ := (findSig sigs fn).bind fun s => if s.kind = .step ∧ s.dimIn = d then some s.dimOut else none
  finish fn d _ := (findSig sigs fn).bind fun s => if s.kind = .finish ∧ (s.dimIn = 0 ∨ s.dimIn = d) then some () else none

theorem mem_sigs_find {s : Sig} (hs : s ∈ sigs) : findSig sigs s.fn = some s := by
  have h := List.all_eq_true.mp C15Facts.sigs_names_unique s hs
  simpa using h

theorem dimInterp_typed : Typed dimInterp sigs (fun d => d) where
  start_ok s hs hk args := ⟨s.dimOut, by show ((findSig sigs s.fn).bind _) = _; rw [mem_sigs_find hs]; simp [hk]; try rfl, rfl⟩
  step_ok s hs hk φ args hd :=
    ⟨s.dimOut, by show ((findSig sigs s.fn).bind _) = _; rw [mem_sigs_find hs]; simp [hk, hd]; try rfl, rfl⟩
  finish_ok s hs hk φ args hd _ :=
    ⟨(), by show ((findSig sigs s.fn).bind _) = _; rw [mem_sigs_find hs]; simp [hk, hd]; try rfl⟩

/-- the hypothesis of `C15_checker_sound` is satisfiable, and the interpretation is not trivially total: it refuses a
    three-population integration of a two-population density -/
example : dimInterp.step (nm! "Integration.three_pops") (2 : Nat) [] = none := by decide +kernel

end DadiVerif
