import DadiVerif.Lemmas.Admix
/-!
# C06 — splits, admixture, pulses, removal and reordering conserve marginal densities

All statements are about the definitions of `Model/Admix.lean` that the driver executes (`depositAt`, `newPop`, `pulse`,
`applyRow`, `removeAxis`, `reorderAxes`, `split1D`, `trapzLine`) and, through them, about the definitions GENERATED
from the current `PhiManip.py` / `Numerics.py` (`Gen.Admix.lowerIdx … norm`, `Gen.Admix.rows` with the coefficient
vectors, guards and grid wiring of the 3 constructors and 14 pulse functions, `trapzTerm`, `split1Dval`).
They hold for every number of populations, every grid size ≥ 2, every strictly increasing grid, every rational density,
in exact arithmetic (round-off is compared by K at 1e-9).

Notation: `gv g k` = grid value, `trapzW g k` = trapezoid weight of node k, `adZ grids coefs idx` = mixed frequency
Σ_m coefs[m]·grids[m][idx[m]], `fullCoefs dest f` = proportions `f` with `1 - Σ f` inserted at position `dest`,
`Simplex f` = all f ≥ 0 and Σ f ≤ 1, `Grid01 g` = strictly increasing from 0 to 1, `uNat zz adz` = upper bracket index.

The last two theorems (`C06_simplex_reject`, `C06_wiring_grids`) are obligations on the GENERATED wiring; they fail
while the corresponding defects are in the source (guards evaluated on permuted arguments / missing in the 2-D functions;
wrong grid handed to the 4-D/5-D pulses).
-/
set_option linter.unusedSimpArgs false
set_option linter.unusedTactic false
set_option linter.unreachableTactic false
namespace DadiVerif
open Admix Finset

/-! ## trapezoid rule -/

/-- `Numerics.trapz` (as coded: Σ_k dx_k (y_{k+1}+y_k)/2 with the generated summand) is the weighted node sum Σ_k w_k y_k -/
theorem C06_trapz_weights (xx : Array ℚ) (y : ℕ → ℚ) :
    trapzLine xx y = ∑ k ∈ range xx.size, trapzW xx k * y k := trapzLine_eq_weights xx y

/-! ## one cell of `_admixture_intermediates` -/

/-- M8. The generated cell program deposits exactly the mass of the source cell: trapezoid weights of the new axis times
    the deposited values sum to φ — for ANY mixed frequency (also outside [0,1]) as long as the bracket has positive
    width and the normaliser does not vanish. -/
theorem C06_deposit_mass (zz : Array ℚ) (φ adz : ℚ) (h2 : 2 ≤ zz.size) (hok : DepositOk zz φ adz) :
    ∑ k ∈ range zz.size, trapzW zz k * depositAt zz φ adz k = φ := deposit_mass zz φ adz h2 hok

/-- On a strictly increasing grid every mixed frequency between the first and the last grid point is well treated: the
    clamped `searchsorted` bracket contains it, both fractions are ≥ 0, the normaliser is positive (so `C06_deposit_mass`
    applies). -/
theorem C06_deposit_ok (zz : Array ℚ) (φ adz : ℚ) (hg : GridOk zz) (hlo : gv zz 0 ≤ adz) (hhi : adz ≤ gv zz (zz.size - 1)) :
    DepositOk zz φ adz ∧
    gv zz (uNat zz adz - 1) ≤ adz ∧ adz ≤ gv zz (uNat zz adz) ∧
    0 ≤ Gen.Admix.fracLower zz φ adz ∧ 0 ≤ Gen.Admix.fracUpper zz φ adz :=
  ⟨depositOk_of_range zz φ adz hg hlo hhi, (bracket_contains zz adz hg hlo hhi).1, (bracket_contains zz adz hg hlo hhi).2,
   (frac_nonneg zz φ adz hg hlo hhi).1, (frac_nonneg zz φ adz hg hlo hhi).2⟩

example : GridOk #[0, 1/4, 1] ∧ gv #[0, 1/4, 1] 0 ≤ (1/2 : ℚ) ∧ (1/2 : ℚ) ≤ gv #[0, 1/4, 1] (3 - 1) ∧ uNat #[0, 1/4, 1] (1/2) = 2 := by
  refine ⟨⟨by decide, ?_⟩, by decide +kernel, by decide +kernel, by decide +kernel⟩
  intro j hj
  have : j = 0 ∨ j = 1 := by simp at hj; omega
  rcases this with rfl | rfl <;> decide +kernel

/-- Support and deposited frequency: the new axis receives mass only at the two adjacent indices `u-1`, `u` (which are
    the generated `lower_z_index`, `upper_z_index`), the two fractions sum to 1 and reproduce the mixed frequency by
    linear interpolation — the new population carries the parental mixture frequency. -/
theorem C06_support (zz : Array ℚ) (φ adz : ℚ) (h2 : 2 ≤ zz.size) :
    Gen.Admix.upperIdx zz φ adz = (uNat zz adz : ℤ) ∧ Gen.Admix.lowerIdx zz φ adz = ((uNat zz adz - 1 : ℕ) : ℤ) ∧
    1 ≤ uNat zz adz ∧ uNat zz adz < zz.size ∧
    (∀ k, k ≠ uNat zz adz - 1 → k ≠ uNat zz adz → depositAt zz φ adz k = 0) ∧
    (gv zz (uNat zz adz) - gv zz (uNat zz adz - 1) ≠ 0 →
      Gen.Admix.fracLower zz φ adz + Gen.Admix.fracUpper zz φ adz = 1 ∧
      Gen.Admix.fracLower zz φ adz * gv zz (uNat zz adz - 1) + Gen.Admix.fracUpper zz φ adz * gv zz (uNat zz adz) = adz) :=
  ⟨(cell_idx zz φ adz h2).1, (cell_idx zz φ adz h2).2, (uNat_bounds zz adz h2).1, (uNat_bounds zz adz h2).2,
   fun k hl hu => depositAt_off zz φ adz h2 k hl hu, fun h => ⟨frac_sum zz φ adz h2 h, frac_mean zz φ adz h2 h⟩⟩

/-- Mixed frequency exactly on grid point j (also j = 0 and j = n-1): everything goes to that one point, with the value
    φ / w_j that integrates back to φ. -/
theorem C06_on_grid (zz : Array ℚ) (φ : ℚ) (hg : GridOk zz) (j : ℕ) (hj : j < zz.size) (k : ℕ) :
    depositAt zz φ (gv zz j) k = if k = j then φ / trapzW zz j else 0 := deposit_on_grid zz φ hg j hj k

/-! ## constructors (split / admixture creating a new population) -/

/-- Integrating the new population out of `newPop` returns the joint density of the existing populations exactly:
    any number of populations, proportions in the closed simplex, all grids strictly increasing from 0 to 1, every
    index of the box. -/
theorem C06_newpop_marginal (grids : List (Array ℚ)) (zz : Array ℚ) (f : List ℚ) (P : Dens) (idx : Idx)
    (hs : Simplex f) (hz : Grid01 zz) (hgl : grids.length = f.length + 1) (hil : idx.length = f.length + 1)
    (hg : ∀ m, m < grids.length → Grid01 (grids.getD m #[]) ∧ idx.getD m 0 < (grids.getD m #[]).size) :
    (removeAxis zz idx.length (newPop grids zz f P)).f idx = P.f idx := by
  unfold newPop
  apply newPop_marginal grids zz _ P idx hz.1.1
  obtain ⟨h0, h1⟩ := adZ_simplex f.length f grids idx (le_refl _) hs hgl hil hg
  exact depositOk_of_range zz _ _ hz.1 (by rw [hz.2.1]; exact h0) (by rw [hz.2.2]; exact h1)

/-- the hypotheses are satisfiable (a grid from 0 to 1, a simplex vector, an index of the box) and the statement is not
    vacuous: on this instance the constructor's marginal, the pulse's marginal and the zero pulse hold by evaluation, while
    the pulse with proportion 1/3 does change the density itself -/
example : Grid01 #[0, 1/4, 1] ∧ Simplex [1/3] := by
  refine ⟨⟨⟨by decide, ?_⟩, by decide +kernel, by decide +kernel⟩, ?_, by norm_num⟩
  · intro j hj
    have : j = 0 ∨ j = 1 := by simp at hj; omega
    rcases this with rfl | rfl <;> decide +kernel
  · intro x hx; simp at hx; rw [hx]; norm_num

example : let g : Array ℚ := #[0, 1/4, 1]
    let P : Dens := ⟨[3, 3], fun i => ((i.getD 0 0 + 2 * i.getD 1 0 + 1 : ℕ) : ℚ)⟩
    (removeAxis g 2 (newPop [g, g] g [1/3] P)).f [1, 2] = P.f [1, 2] ∧
    (removeAxis g 0 (pulse [g, g] 0 [1/3] P)).f [2] = (removeAxis g 0 P).f [2] ∧
    (pulse [g, g] 0 [1/3] P).f [1, 2] ≠ P.f [1, 2] ∧
    (pulse [g, g] 1 [0] P).f [1, 2] = P.f [1, 2] := by
  decide +kernel

/-- the general form: whatever the coefficients and grids, as long as each cell's deposit is well defined -/
theorem C06_newpop_marginal_raw (grids : List (Array ℚ)) (zz : Array ℚ) (coefs : List ℚ) (P : Dens) (idx : Idx)
    (h2 : 2 ≤ zz.size) (hok : DepositOk zz (P.f idx) (adZ grids coefs idx)) :
    (removeAxis zz idx.length (newPopRaw grids zz coefs P)).f idx = P.f idx := newPop_marginal grids zz coefs P idx h2 hok

/-- A pure split (unit proportion vector e_m, new axis on the parent's grid) is a copy of the parent: at new index k the
    density is φ[idx]/w_k if k = idx[m] and 0 otherwise. -/
theorem C06_split_copy (grids : List (Array ℚ)) (m n : ℕ) (P : Dens) (idx : Idx) (k : ℕ)
    (hm : m ≤ n) (hgl : m < grids.length) (hil : m < idx.length)
    (hg : GridOk (grids.getD m #[])) (hbox : idx.getD m 0 < (grids.getD m #[]).size) :
    (newPopRaw grids (grids.getD m #[]) ((List.replicate n (0:ℚ)).insertIdx m 1) P).f (idx ++ [k])
      = if k = idx.getD m 0 then P.f idx / trapzW (grids.getD m #[]) k else 0 :=
  newPop_copy grids m n P idx k hm hgl hil hg hbox

/-- …and the proportion vectors the two 2-D → 3-D split functions pass (generated literals) are those unit vectors -/
theorem C06_split_literals :
    fullCoefs 1 [Gen.Admix.splitF_split_1] = (List.replicate 1 (0:ℚ)).insertIdx 0 1 ∧
    fullCoefs 1 [Gen.Admix.splitF_split_2] = (List.replicate 1 (0:ℚ)).insertIdx 1 1 := by
  constructor <;> simp [fullCoefs, Gen.Admix.splitF_split_1, Gen.Admix.splitF_split_2]

/-- `phi_1D_to_2D`: mass only on the diagonal, value φ_i·2/(x_{i+1}-x_{i-1}) = φ_i/w_i at interior points, symmetric in the two
    daughters; integrating either daughter out returns φ at the interior points and 0 at the two absorbing end points
    (the code does not carry `phi[0]`, `phi[-1]` over). -/
theorem C06_split_1D (xx : Array ℚ) (hg : GridOk xx) (P : Dens) (i j : ℕ) (hi : i < xx.size) :
    (split1D xx P).f [i, j] = (if i = j ∧ 1 ≤ i ∧ i + 1 < xx.size then P.f [i] * 2 / (gv xx (i + 1) - gv xx (i - 1)) else 0) ∧
    (split1D xx P).f [i, j] = (split1D xx P).f [j, i] ∧
    (removeAxis xx 1 (split1D xx P)).f [i] = (if 1 ≤ i ∧ i + 1 < xx.size then P.f [i] else 0) :=
  ⟨split1D_f xx P i j, split1D_symm xx P i j, split1D_marginal xx hg P i hi⟩

/-! ## pulses -/

/-- A pulse into population `dest` leaves the joint density of all other populations unchanged: integrating `dest` out
    of the result equals integrating it out of the input — any number of populations, any destination, proportions in
    the closed simplex, grids strictly increasing from 0 to 1. -/
theorem C06_pulse_marginal (grids : List (Array ℚ)) (dest : ℕ) (f : List ℚ) (P : Dens) (j : Idx)
    (hs : Simplex f) (hd : dest ≤ f.length) (hgl : grids.length = f.length + 1) (hjl : j.length = f.length)
    (hg : ∀ m, m < grids.length → Grid01 (grids.getD m #[]))
    (hbox : ∀ m, m < j.length → j.getD m 0 < (grids.getD (if m < dest then m else m + 1) #[]).size) :
    (removeAxis (grids.getD dest #[]) dest (pulse grids dest f P)).f j = (removeAxis (grids.getD dest #[]) dest P).f j := by
  unfold pulse
  have hgd := hg dest (by omega)
  apply pulse_marginal grids _ _ dest P j (by omega) hgd.1.1
  intro k hk
  have hil : (j.insertIdx dest k).length = f.length + 1 := by rw [List.length_insertIdx]; simp [hjl, hd]
  have hall : ∀ m, m < grids.length → Grid01 (grids.getD m #[]) ∧ (j.insertIdx dest k).getD m 0 < (grids.getD m #[]).size := by
    intro m hm
    refine ⟨hg m hm, ?_⟩
    rcases Nat.lt_trichotomy m dest with h | h | h
    · have := hbox m (by omega)
      rw [if_pos h] at this
      rw [List.getD_eq_getElem?_getD, List.getElem?_insertIdx_of_lt h, ← List.getD_eq_getElem?_getD]; exact this
    · subst h; rw [getD_insertIdx_self _ _ _ _ (by omega)]; exact hk
    · have := hbox (m - 1) (by omega)
      rw [if_neg (by omega)] at this
      have e : m - 1 + 1 = m := by omega
      rw [e] at this
      rw [List.getD_eq_getElem?_getD, List.getElem?_insertIdx_of_gt h, ← List.getD_eq_getElem?_getD]; exact this
  obtain ⟨h0, h1⟩ := adZ_simplex dest f grids (j.insertIdx dest k) hd hs hgl hil hall
  exact depositOk_of_range _ _ _ hgd.1 (by rw [hgd.2.1]; exact h0) (by rw [hgd.2.2]; exact h1)

/-- the general form -/
theorem C06_pulse_marginal_raw (grids : List (Array ℚ)) (g : Array ℚ) (coefs : List ℚ) (dest : ℕ) (P : Dens) (j : Idx)
    (hd : dest ≤ j.length) (h2 : 2 ≤ g.size)
    (hok : ∀ k, k < g.size → DepositOk g (P.f (j.insertIdx dest k)) (adZ grids coefs (j.insertIdx dest k))) :
    (removeAxis g dest (pulseRaw grids g g coefs dest P)).f j = (removeAxis g dest P).f j :=
  pulse_marginal grids g coefs dest P j hd h2 hok

/-- A pulse with all proportions 0 is the identity, exactly, at every index of the box. -/
theorem C06_pulse_zero (grids : List (Array ℚ)) (dest m : ℕ) (P : Dens) (idx : Idx)
    (hm : dest ≤ m) (hgl : dest < grids.length) (hil : dest < idx.length)
    (hg : GridOk (grids.getD dest #[])) (hbox : idx.getD dest 0 < (grids.getD dest #[]).size) :
    (pulse grids dest (List.replicate m 0) P).f idx = P.f idx := pulse_zero grids dest m P idx hm hgl hil hg hbox

example : let g : Array ℚ := #[0, 1/3, 1]
    (1 : ℕ) ≤ 2 ∧ 1 < [g, g, g].length ∧ 1 < ([2, 1, 0] : Idx).length ∧ ([2, 1, 0] : Idx).getD 1 0 < ([g, g, g].getD 1 #[]).size := by
  decide

/-! ## remove / reorder -/

/-- `remove_pop` is trapezoid marginalisation Σ_k w_k·φ[.., k, ..]; the public wrapper rejects a population number out of
    range or a grid of the wrong length; removing two populations in either order gives the same result. -/
theorem C06_remove (xx : Array ℚ) (P : Dens) :
    (∀ ax j, (removeAxis xx ax P).f j = ∑ k ∈ range xx.size, trapzW xx k * P.f (j.insertIdx ax k)) ∧
    (∀ ax, (removeAxis xx ax P).shape = P.shape.eraseIdx ax) ∧
    (∀ p, 1 ≤ p → p ≤ P.shape.length → xx.size = P.shape.getD (p - 1) 0 → removePop xx p P = some (removeAxis xx (p - 1) P)) ∧
    (∀ (xb : Array ℚ) a b j, a ≤ b → b ≤ j.length →
        (removeAxis xx a (removeAxis xb (b + 1) P)).f j = (removeAxis xb b (removeAxis xx a P)).f j) := by
  refine ⟨fun ax j => removeAxis_f xx ax P j, fun _ => rfl, ?_, fun xb a b j hab hb => removeAxis_comm xx xb a b P j hab hb⟩
  intro p h1 h2 h3
  unfold removePop
  rw [if_neg]
  rintro (h | h | h)
  · omega
  · omega
  · exact h h3

/-- `reorder_pops` is the axis permutation: the input entry at `i` is found at `j[k] = i[axes[k]]`, the shape is permuted
    alike, and reordering by the inverse permutation restores the density. -/
theorem C06_reorder (axes : List ℕ) (P : Dens) (i : Idx) (hi : i.length = P.shape.length)
    (hlen : axes.length = P.shape.length) (hnd : axes.Nodup) (hcov : ∀ a, a < P.shape.length → a ∈ axes)
    (hval : ∀ a ∈ axes, a < P.shape.length) :
    (reorderAxes axes P).f (axes.map fun a => i.getD a 0) = P.f i ∧
    (reorderAxes axes P).shape = axes.map (fun a => P.shape.getD a 0) ∧
    (reorderAxes (invAxes axes) (reorderAxes axes P)).f i = P.f i :=
  ⟨reorderAxes_entry axes P i hi hcov, rfl, reorderAxes_inv axes P i hi hlen hnd hcov hval⟩

example : ([2, 0, 1] : List ℕ).Nodup ∧ (∀ a, a < 3 → a ∈ ([2, 0, 1] : List ℕ)) ∧ (∀ a ∈ ([2, 0, 1] : List ℕ), a < 3)
    ∧ invAxes [2, 0, 1] = [1, 2, 0] := by decide

/-! ## the public functions: generated wiring against the intended functions -/

/-- T tie, coefficients: for every one of the 17 generated rows and all proportions, the coefficient vector the code
    evaluates (with its permuted helper arguments, e.g. `f1, 1-f1-f3` and then `1 - f1 - (1-f1-f3)`) IS the intended one:
    the proportions in population order with `1 - Σ f` at the destination (constructors: at the last old population). -/
theorem C06_wiring_coefs : ∀ r ∈ Gen.Admix.rows, ∀ f : List ℚ, f.length = r.nf → r.coefs f = fullCoefs (restPos r) f := by
  intro r hr f hf
  simp only [Gen.Admix.rows, List.mem_cons, List.mem_nil_iff, or_false] at hr
  rcases hr with rfl | rfl | rfl | rfl | rfl | rfl | rfl | rfl | rfl | rfl | rfl | rfl | rfl | rfl | rfl | rfl | rfl <;>
  dsimp only at hf <;>
  (first
    | (obtain ⟨a, rfl⟩ := List.length_eq_one_iff.1 hf)
    | (obtain ⟨a, b, rfl⟩ := List.length_eq_two.1 hf)
    | (obtain ⟨a, b, c, rfl⟩ := List.length_eq_three.1 hf)
    | (obtain ⟨a, b, c, d, rfl⟩ := length_eq_four.1 hf)) <;>
  simp [restPos, fullCoefs, Gen.Admix.coefs_phi_2D_to_3D_admix, Gen.Admix.coefs_phi_3D_to_4D, Gen.Admix.coefs_phi_4D_to_5D,
    Gen.Admix.coefs_phi_2D_admix_1_into_2, Gen.Admix.coefs_phi_2D_admix_2_into_1, Gen.Admix.coefs_phi_3D_admix_1_and_2_into_3,
    Gen.Admix.coefs_phi_3D_admix_1_and_3_into_2, Gen.Admix.coefs_phi_3D_admix_2_and_3_into_1, Gen.Admix.coefs_phi_4D_admix_into_1,
    Gen.Admix.coefs_phi_4D_admix_into_2, Gen.Admix.coefs_phi_4D_admix_into_3, Gen.Admix.coefs_phi_4D_admix_into_4,
    Gen.Admix.coefs_phi_5D_admix_into_1, Gen.Admix.coefs_phi_5D_admix_into_2, Gen.Admix.coefs_phi_5D_admix_into_3,
    Gen.Admix.coefs_phi_5D_admix_into_4, Gen.Admix.coefs_phi_5D_admix_into_5] <;>
  (try constructor) <;> ring_nf

/-- A row that is wired as intended computes the intended function: `applyRow` (what K compares with the real code)
    equals `pulse` / `newPop` (what the conservation theorems above are about). -/
theorem C06_apply (r : Gen.Admix.FnRow) (hr : r ∈ Gen.Admix.rows) (hw : rowGridsOk r = true)
    (f : List ℚ) (grids : List (Array ℚ)) (P : Dens) (hs : shapesOk r f grids P = true) (hg : r.guard f = false) :
    (r.isPulse = true → applyRow r f grids P = .ok (pulse grids r.dest f P)) ∧
    (r.isPulse = false → applyRow r f grids P = .ok (newPop (grids.take r.d) (grids.getD r.d #[]) f P)) := by
  have hfl : f.length = r.nf := by
    simp only [shapesOk, Bool.and_eq_true, beq_iff_eq] at hs
    exact hs.1.1.1.1.1.1
  have hc := C06_wiring_coefs r hr f hfl
  constructor
  · intro hp
    exact applyRow_pulse r f grids P hp hw (by rw [hc, restPos, if_pos hp]) hs hg
  · intro hp
    exact applyRow_newPop r f grids P hp hw (by rw [hc, restPos, if_neg (by simp [hp])]) hs hg

/-- Every proportion vector in the closed simplex is accepted by every public function (generated guards, exact
    arithmetic). -/
theorem C06_simplex_accept : ∀ r ∈ Gen.Admix.rows, ∀ f : List ℚ, f.length = r.nf → Simplex f → r.guard f = false := by
  intro r hr f hf hs
  simp only [Gen.Admix.rows, List.mem_cons, List.mem_nil_iff, or_false] at hr
  rcases hr with rfl | rfl | rfl | rfl | rfl | rfl | rfl | rfl | rfl | rfl | rfl | rfl | rfl | rfl | rfl | rfl | rfl <;>
  dsimp only at hf <;>
  (first
    | (obtain ⟨a, rfl⟩ := List.length_eq_one_iff.1 hf)
    | (obtain ⟨a, b, rfl⟩ := List.length_eq_two.1 hf)
    | (obtain ⟨a, b, c, rfl⟩ := List.length_eq_three.1 hf)
    | (obtain ⟨a, b, c, d, rfl⟩ := length_eq_four.1 hf)) <;>
  simp only [Simplex, List.mem_cons, List.mem_nil_iff, or_false, forall_eq_or_imp, forall_eq, List.sum_cons, List.sum_nil] at hs <;>
  simp only [Gen.Admix.guard_phi_2D_to_3D_admix, Gen.Admix.guard_phi_3D_to_4D, Gen.Admix.guard_phi_4D_to_5D,
    Gen.Admix.guard_phi_2D_admix_1_into_2, Gen.Admix.guard_phi_2D_admix_2_into_1, Gen.Admix.guard_phi_3D_admix_1_and_2_into_3,
    Gen.Admix.guard_phi_3D_admix_1_and_3_into_2, Gen.Admix.guard_phi_3D_admix_2_and_3_into_1, Gen.Admix.guard_phi_4D_admix_into_1,
    Gen.Admix.guard_phi_4D_admix_into_2, Gen.Admix.guard_phi_4D_admix_into_3, Gen.Admix.guard_phi_4D_admix_into_4,
    Gen.Admix.guard_phi_5D_admix_into_1, Gen.Admix.guard_phi_5D_admix_into_2, Gen.Admix.guard_phi_5D_admix_into_3,
    Gen.Admix.guard_phi_5D_admix_into_4, Gen.Admix.guard_phi_5D_admix_into_5,
    List.getD_cons_zero, List.getD_cons_succ, Bool.or_eq_false_iff, decide_eq_false_iff_not, not_lt, gt_iff_lt, and_true, true_and] <;>
  (try (repeat' constructor)) <;> (try linarith [hs.1, hs.2])

example : Simplex [1/2, 0, 1/2] ∧ Simplex [0, 0] ∧ Simplex [1] := by
  refine ⟨⟨?_, by norm_num⟩, ⟨?_, by norm_num⟩, ⟨?_, by norm_num⟩⟩ <;> intro x hx <;> simp at hx <;> rcases hx with rfl | rfl | rfl <;> norm_num

/-- OBLIGATION on the generated guards (false while F-06 is in the source): every public function rejects proportions that
    sum to more than 1.  On the pinned tree the 2-population functions evaluate no guard at all and the pulse variants
    whose destination is not the last population evaluate `f_a + … + (1 - Σ f) > 1`, which does not depend on Σ f. -/
theorem C06_simplex_reject : ∀ r ∈ Gen.Admix.rows, ∀ f : List ℚ, f.length = r.nf → f.sum > 1 → r.guard f = true := by
  intro r hr f hf hs
  simp only [Gen.Admix.rows, List.mem_cons, List.mem_nil_iff, or_false] at hr
  rcases hr with rfl | rfl | rfl | rfl | rfl | rfl | rfl | rfl | rfl | rfl | rfl | rfl | rfl | rfl | rfl | rfl | rfl <;>
  dsimp only at hf <;>
  (first
    | (obtain ⟨a, rfl⟩ := List.length_eq_one_iff.1 hf)
    | (obtain ⟨a, b, rfl⟩ := List.length_eq_two.1 hf)
    | (obtain ⟨a, b, c, rfl⟩ := List.length_eq_three.1 hf)
    | (obtain ⟨a, b, c, d, rfl⟩ := length_eq_four.1 hf)) <;>
  simp only [List.sum_cons, List.sum_nil] at hs <;>
  simp only [Gen.Admix.guard_phi_2D_to_3D_admix, Gen.Admix.guard_phi_3D_to_4D, Gen.Admix.guard_phi_4D_to_5D,
    Gen.Admix.guard_phi_2D_admix_1_into_2, Gen.Admix.guard_phi_2D_admix_2_into_1, Gen.Admix.guard_phi_3D_admix_1_and_2_into_3,
    Gen.Admix.guard_phi_3D_admix_1_and_3_into_2, Gen.Admix.guard_phi_3D_admix_2_and_3_into_1, Gen.Admix.guard_phi_4D_admix_into_1,
    Gen.Admix.guard_phi_4D_admix_into_2, Gen.Admix.guard_phi_4D_admix_into_3, Gen.Admix.guard_phi_4D_admix_into_4,
    Gen.Admix.guard_phi_5D_admix_into_1, Gen.Admix.guard_phi_5D_admix_into_2, Gen.Admix.guard_phi_5D_admix_into_3,
    Gen.Admix.guard_phi_5D_admix_into_4, Gen.Admix.guard_phi_5D_admix_into_5,
    List.getD_cons_zero, List.getD_cons_succ, Bool.or_eq_true, decide_eq_true_eq, gt_iff_lt] <;>
  (first | linarith | (left; linarith) | (right; linarith))

example : ([7/10, 6/10] : List ℚ).sum > 1 := by norm_num

/-- OBLIGATION on the generated grid wiring (false while F-06b is in the source): every public function writes back the
    axis its name says, uses public grid m for population m, puts the temporary population on the DESTINATION's grid
    and integrates the old destination with the destination's grid, and its proportion parameters name the other
    populations in ascending order.  On the pinned tree `phi_4D_admix_into_3/4` hand `yy` and `phi_5D_admix_into_2..5`
    hand `xx` (and integrate with `xx`), which is only harmless when all populations share one grid. -/
theorem C06_wiring_grids : ∀ r ∈ Gen.Admix.rows, rowGridsOk r = true := by decide

end DadiVerif
