import DadiVerif.Lemmas.Admix
import DadiVerif.Lemmas.AdmixMass
import DadiVerif.Lemmas.AdmixExt
import DadiVerif.Lemmas.AdmixComm
import DadiVerif.Lemmas.AdmixFloat
import DadiVerif.Lemmas.AdmixLoops
import DadiVerif.Lemmas.AdmixFilter
import DadiVerif.Lemmas.AdmixView
/-!
# C06 — splits, admixture, pulses, removal and reordering conserve marginal densities

All statements are about the definitions of `Model/Admix.lean` that the driver executes (`depositAt`, `newPop`, `pulse`,
`applyRow`, `removeAxis`, `reorderAxes`, `split1D`, `trapzLine`) and, through them, about the definitions GENERATED
from the current `PhiManip.py` / `Numerics.py` (`Gen.Admix.lowerIdx … norm`, `Gen.Admix.rows` with the coefficient
vectors, guards and grid wiring of the 3 constructors and 14 pulse functions, `trapzTerm`, `split1Dval`).
They hold for every number of populations, every grid size ≥ 2, every strictly increasing grid, every rational density,
in exact arithmetic (round-off is compared by K at 1e-9).

Notation: `gv g k` = grid value, `trapzW g k` = trapezoid weight of node k, `adZ grids coefs idx` = mixed frequency
Σ_m coefs[m]·grids[m][idx[m]], `fullCoefs dest f` = proportions `f` with `1 - Σ f` inserted at position `dest`,
`Simplex f` = all f ≥ 0 and Σ f ≤ 1, `Grid01 g` = strictly increasing from 0 to 1, `uNat zz adz` = upper bracket index.

`C06_simplex_reject`, `C06_wiring_grids` (and `C06_loops` of the round-4 part) are obligations on the GENERATED wiring; they
fail while the corresponding defects are in the source (guards evaluated on permuted arguments / missing in the 2-D
functions; wrong grid handed to the 4-D/5-D pulses; a loop that does not cover its axis, a scratch array that is not zeroed
per line, `trapz` along the wrong scratch axis).

Round 4 (second half of the file): total mass `totalMass` (full d-dimensional trapezoid sum) under reorder / remove / filter /
constructors / pulses and for the 17 public functions as K runs them; the mixture frequency for any number of parents;
the clamped bracket beyond the ends of the grid; pulse ∘ remove = remove ∘ pulse, two pulses; the generated loop structure;
the proportion guard in floating point (assumptions: `RoundNearest`, `RoundEFT` of Lemmas/AdmixFloat.lean);
`filter_pops` = marginal over the complement.

Round 6 (end of the file): the density as an array OBJECT — `Gen.Admix.memRows` (what each function does to the array it is
given) is what the docstrings promise (`C06_inplace`); basic-index stores through ANY injective strided view realise the
functional update and touch nothing else (`C06_view_store`); hence every pulse, run in place on a transposed / Fortran /
strided / reversed view, leaves in that view exactly what the functional model computes, and every constructor leaves the
memory alone (`C06_inplace_view`); a flattened alias of the leading axes is a view only for mergeable strides
(`C06_flatten_view`).
-/
set_option linter.unusedSimpArgs false
set_option linter.unusedTactic false
set_option linter.unreachableTactic false
namespace DadiVerif
open Admix Finset

/-! ## trapezoid rule -/

/-- `Numerics.trapz` (as coded: Σ_k dx_k (y_{k+1}+y_k)/2 with the generated summand) is the weighted node sum Σ_k w_k y_k -/
theorem C06_trapz_weights (xx : Array ℚ) (y : ℕ → ℚ) :
    trapzLine xx y = ∑ k ∈ range xx.size, trapzW xx k * y k := trapzLine_eq_weights xx y

/-! ## one cell of `_admixture_intermediates` -/

/-- M8. The generated cell program deposits exactly the mass of the source cell: trapezoid weights of the new axis times
    the deposited values sum to φ — for ANY mixed frequency (also outside [0,1]) as long as the bracket has positive
    width and the normaliser does not vanish. -/
theorem C06_deposit_mass (zz : Array ℚ) (φ adz : ℚ) (h2 : 2 ≤ zz.size) (hok : DepositOk zz φ adz) :
    ∑ k ∈ range zz.size, trapzW zz k * depositAt zz φ adz k = φ := deposit_mass zz φ adz h2 hok

/-- On a strictly increasing grid every mixed frequency between the first and the last grid point is well treated: the
    clamped `searchsorted` bracket contains it, both fractions are ≥ 0, the normaliser is positive (so `C06_deposit_mass`
    applies). -/
theorem C06_deposit_ok (zz : Array ℚ) (φ adz : ℚ) (hg : GridOk zz) (hlo : gv zz 0 ≤ adz) (hhi : adz ≤ gv zz (zz.size - 1)) :
    DepositOk zz φ adz ∧
    gv zz (uNat zz adz - 1) ≤ adz ∧ adz ≤ gv zz (uNat zz adz) ∧
    0 ≤ Gen.Admix.fracLower zz φ adz ∧ 0 ≤ Gen.Admix.fracUpper zz φ adz :=
  ⟨depositOk_of_range zz φ adz hg hlo hhi, (bracket_contains zz adz hg hlo hhi).1, (bracket_contains zz adz hg hlo hhi).2,
   (frac_nonneg zz φ adz hg hlo hhi).1, (frac_nonneg zz φ adz hg hlo hhi).2⟩

example : GridOk #[0, 1/4, 1] ∧ gv #[0, 1/4, 1] 0 ≤ (1/2 : ℚ) ∧ (1/2 : ℚ) ≤ gv #[0, 1/4, 1] (3 - 1) ∧ uNat #[0, 1/4, 1] (1/2) = 2 := by
  refine ⟨⟨by decide, ?_⟩, by decide +kernel, by decide +kernel, by decide +kernel⟩
  intro j hj
  have : j = 0 ∨ j = 1 := by simp at hj; omega
  rcases this with rfl | rfl <;> decide +kernel

/-- Support and deposited frequency: the new axis receives mass only at the two adjacent indices `u-1`, `u` (which are
    the generated `lower_z_index`, `upper_z_index`), the two fractions sum to 1 and reproduce the mixed frequency by
    linear interpolation — the new population carries the parental mixture frequency. -/
theorem C06_support (zz : Array ℚ) (φ adz : ℚ) (h2 : 2 ≤ zz.size) :
    Gen.Admix.upperIdx zz φ adz = (uNat zz adz : ℤ) ∧ Gen.Admix.lowerIdx zz φ adz = ((uNat zz adz - 1 : ℕ) : ℤ) ∧
    1 ≤ uNat zz adz ∧ uNat zz adz < zz.size ∧
    (∀ k, k ≠ uNat zz adz - 1 → k ≠ uNat zz adz → depositAt zz φ adz k = 0) ∧
    (gv zz (uNat zz adz) - gv zz (uNat zz adz - 1) ≠ 0 →
      Gen.Admix.fracLower zz φ adz + Gen.Admix.fracUpper zz φ adz = 1 ∧
      Gen.Admix.fracLower zz φ adz * gv zz (uNat zz adz - 1) + Gen.Admix.fracUpper zz φ adz * gv zz (uNat zz adz) = adz) :=
  ⟨(cell_idx zz φ adz h2).1, (cell_idx zz φ adz h2).2, (uNat_bounds zz adz h2).1, (uNat_bounds zz adz h2).2,
   fun k hl hu => depositAt_off zz φ adz h2 k hl hu, fun h => ⟨frac_sum zz φ adz h2 h, frac_mean zz φ adz h2 h⟩⟩

/-- Mixed frequency exactly on grid point j (also j = 0 and j = n-1): everything goes to that one point, with the value
    φ / w_j that integrates back to φ. -/
theorem C06_on_grid (zz : Array ℚ) (φ : ℚ) (hg : GridOk zz) (j : ℕ) (hj : j < zz.size) (k : ℕ) :
    depositAt zz φ (gv zz j) k = if k = j then φ / trapzW zz j else 0 := deposit_on_grid zz φ hg j hj k

/-! ## constructors (split / admixture creating a new population) -/

/-- Integrating the new population out of `newPop` returns the joint density of the existing populations exactly:
    any number of populations, proportions in the closed simplex, all grids strictly increasing from 0 to 1, every
    index of the box. -/
theorem C06_newpop_marginal (grids : List (Array ℚ)) (zz : Array ℚ) (f : List ℚ) (P : Dens) (idx : Idx)
    (hs : Simplex f) (hz : Grid01 zz) (hgl : grids.length = f.length + 1) (hil : idx.length = f.length + 1)
    (hg : ∀ m, m < grids.length → Grid01 (grids.getD m #[]) ∧ idx.getD m 0 < (grids.getD m #[]).size) :
    (removeAxis zz idx.length (newPop grids zz f P)).f idx = P.f idx := by
  unfold newPop
  apply newPop_marginal grids zz _ P idx hz.1.1
  obtain ⟨h0, h1⟩ := adZ_simplex f.length f grids idx (le_refl _) hs hgl hil hg
  exact depositOk_of_range zz _ _ hz.1 (by rw [hz.2.1]; exact h0) (by rw [hz.2.2]; exact h1)

/-- the hypotheses are satisfiable (a grid from 0 to 1, a simplex vector, an index of the box) and the statement is not
    vacuous: on this instance the constructor's marginal, the pulse's marginal and the zero pulse hold by evaluation, while
    the pulse with proportion 1/3 does change the density itself -/
example : Grid01 #[0, 1/4, 1] ∧ Simplex [1/3] := by
  refine ⟨⟨⟨by decide, ?_⟩, by decide +kernel, by decide +kernel⟩, ?_, by norm_num⟩
  · intro j hj
    have : j = 0 ∨ j = 1 := by simp at hj; omega
    rcases this with rfl | rfl <;> decide +kernel
  · intro x hx; simp at hx; rw [hx]; norm_num

example : let g : Array ℚ := #[0, 1/4, 1]
    let P : Dens := ⟨[3, 3], fun i => ((i.getD 0 0 + 2 * i.getD 1 0 + 1 : ℕ) : ℚ)⟩
    (removeAxis g 2 (newPop [g, g] g [1/3] P)).f [1, 2] = P.f [1, 2] ∧
    (removeAxis g 0 (pulse [g, g] 0 [1/3] P)).f [2] = (removeAxis g 0 P).f [2] ∧
    (pulse [g, g] 0 [1/3] P).f [1, 2] ≠ P.f [1, 2] ∧
    (pulse [g, g] 1 [0] P).f [1, 2] = P.f [1, 2] := by
  decide +kernel

/-- the general form: whatever the coefficients and grids, as long as each cell's deposit is well defined -/
theorem C06_newpop_marginal_raw (grids : List (Array ℚ)) (zz : Array ℚ) (coefs : List ℚ) (P : Dens) (idx : Idx)
    (h2 : 2 ≤ zz.size) (hok : DepositOk zz (P.f idx) (adZ grids coefs idx)) :
    (removeAxis zz idx.length (newPopRaw grids zz coefs P)).f idx = P.f idx := newPop_marginal grids zz coefs P idx h2 hok

/-- A pure split (unit proportion vector e_m, new axis on the parent's grid) is a copy of the parent: at new index k the
    density is φ[idx]/w_k if k = idx[m] and 0 otherwise. -/
theorem C06_split_copy (grids : List (Array ℚ)) (m n : ℕ) (P : Dens) (idx : Idx) (k : ℕ)
    (hm : m ≤ n) (hgl : m < grids.length) (hil : m < idx.length)
    (hg : GridOk (grids.getD m #[])) (hbox : idx.getD m 0 < (grids.getD m #[]).size) :
    (newPopRaw grids (grids.getD m #[]) ((List.replicate n (0:ℚ)).insertIdx m 1) P).f (idx ++ [k])
      = if k = idx.getD m 0 then P.f idx / trapzW (grids.getD m #[]) k else 0 :=
  newPop_copy grids m n P idx k hm hgl hil hg hbox

/-- …and the proportion vectors the two 2-D → 3-D split functions pass (generated literals) are those unit vectors -/
theorem C06_split_literals :
    fullCoefs 1 [Gen.Admix.splitF_split_1] = (List.replicate 1 (0:ℚ)).insertIdx 0 1 ∧
    fullCoefs 1 [Gen.Admix.splitF_split_2] = (List.replicate 1 (0:ℚ)).insertIdx 1 1 := by
  constructor <;> simp [fullCoefs, Gen.Admix.splitF_split_1, Gen.Admix.splitF_split_2]

/-- `phi_1D_to_2D`: mass only on the diagonal, value φ_i·2/(x_{i+1}-x_{i-1}) = φ_i/w_i at interior points, symmetric in the two
    daughters; integrating either daughter out returns φ at the interior points and 0 at the two absorbing end points
    (the code does not carry `phi[0]`, `phi[-1]` over). -/
theorem C06_split_1D (xx : Array ℚ) (hg : GridOk xx) (P : Dens) (i j : ℕ) (hi : i < xx.size) :
    (split1D xx P).f [i, j] = (if i = j ∧ 1 ≤ i ∧ i + 1 < xx.size then P.f [i] * 2 / (gv xx (i + 1) - gv xx (i - 1)) else 0) ∧
    (split1D xx P).f [i, j] = (split1D xx P).f [j, i] ∧
    (removeAxis xx 1 (split1D xx P)).f [i] = (if 1 ≤ i ∧ i + 1 < xx.size then P.f [i] else 0) :=
  ⟨split1D_f xx P i j, split1D_symm xx P i j, split1D_marginal xx hg P i hi⟩

/-! ## pulses -/

/-- A pulse into population `dest` leaves the joint density of all other populations unchanged: integrating `dest` out
    of the result equals integrating it out of the input — any number of populations, any destination, proportions in
    the closed simplex, grids strictly increasing from 0 to 1. -/
theorem C06_pulse_marginal (grids : List (Array ℚ)) (dest : ℕ) (f : List ℚ) (P : Dens) (j : Idx)
    (hs : Simplex f) (hd : dest ≤ f.length) (hgl : grids.length = f.length + 1) (hjl : j.length = f.length)
    (hg : ∀ m, m < grids.length → Grid01 (grids.getD m #[]))
    (hbox : ∀ m, m < j.length → j.getD m 0 < (grids.getD (if m < dest then m else m + 1) #[]).size) :
    (removeAxis (grids.getD dest #[]) dest (pulse grids dest f P)).f j = (removeAxis (grids.getD dest #[]) dest P).f j := by
  unfold pulse
  have hgd := hg dest (by omega)
  apply pulse_marginal grids _ _ dest P j (by omega) hgd.1.1
  intro k hk
  have hil : (j.insertIdx dest k).length = f.length + 1 := by rw [List.length_insertIdx]; simp [hjl, hd]
  have hall : ∀ m, m < grids.length → Grid01 (grids.getD m #[]) ∧ (j.insertIdx dest k).getD m 0 < (grids.getD m #[]).size := by
    intro m hm
    refine ⟨hg m hm, ?_⟩
    rcases Nat.lt_trichotomy m dest with h | h | h
    · have := hbox m (by omega)
      rw [if_pos h] at this
      rw [List.getD_eq_getElem?_getD, List.getElem?_insertIdx_of_lt h, ← List.getD_eq_getElem?_getD]; exact this
    · subst h; rw [getD_insertIdx_self _ _ _ _ (by omega)]; exact hk
    · have := hbox (m - 1) (by omega)
      rw [if_neg (by omega)] at this
      have e : m - 1 + 1 = m := by omega
      rw [e] at this
      rw [List.getD_eq_getElem?_getD, List.getElem?_insertIdx_of_gt h, ← List.getD_eq_getElem?_getD]; exact this
  obtain ⟨h0, h1⟩ := adZ_simplex dest f grids (j.insertIdx dest k) hd hs hgl hil hall
  exact depositOk_of_range _ _ _ hgd.1 (by rw [hgd.2.1]; exact h0) (by rw [hgd.2.2]; exact h1)

/-- the general form -/
theorem C06_pulse_marginal_raw (grids : List (Array ℚ)) (g : Array ℚ) (coefs : List ℚ) (dest : ℕ) (P : Dens) (j : Idx)
    (hd : dest ≤ j.length) (h2 : 2 ≤ g.size)
    (hok : ∀ k, k < g.size → DepositOk g (P.f (j.insertIdx dest k)) (adZ grids coefs (j.insertIdx dest k))) :
    (removeAxis g dest (pulseRaw grids g g coefs dest P)).f j = (removeAxis g dest P).f j :=
  pulse_marginal grids g coefs dest P j hd h2 hok

/-- A pulse with all proportions 0 is the identity, exactly, at every index of the box. -/
theorem C06_pulse_zero (grids : List (Array ℚ)) (dest m : ℕ) (P : Dens) (idx : Idx)
    (hm : dest ≤ m) (hgl : dest < grids.length) (hil : dest < idx.length)
    (hg : GridOk (grids.getD dest #[])) (hbox : idx.getD dest 0 < (grids.getD dest #[]).size) :
    (pulse grids dest (List.replicate m 0) P).f idx = P.f idx := pulse_zero grids dest m P idx hm hgl hil hg hbox

example : let g : Array ℚ := #[0, 1/3, 1]
    (1 : ℕ) ≤ 2 ∧ 1 < [g, g, g].length ∧ 1 < ([2, 1, 0] : Idx).length ∧ ([2, 1, 0] : Idx).getD 1 0 < ([g, g, g].getD 1 #[]).size := by
  decide

/-! ## remove / reorder -/

/-- `remove_pop` is trapezoid marginalisation Σ_k w_k·φ[.., k, ..]; the public wrapper rejects a population number out of
    range or a grid of the wrong length; removing two populations in either order gives the same result. -/
theorem C06_remove (xx : Array ℚ) (P : Dens) :
    (∀ ax j, (removeAxis xx ax P).f j = ∑ k ∈ range xx.size, trapzW xx k * P.f (j.insertIdx ax k)) ∧
    (∀ ax, (removeAxis xx ax P).shape = P.shape.eraseIdx ax) ∧
    (∀ p, 1 ≤ p → p ≤ P.shape.length → xx.size = P.shape.getD (p - 1) 0 → removePop xx p P = some (removeAxis xx (p - 1) P)) ∧
    (∀ (xb : Array ℚ) a b j, a ≤ b → b ≤ j.length →
        (removeAxis xx a (removeAxis xb (b + 1) P)).f j = (removeAxis xb b (removeAxis xx a P)).f j) := by
  refine ⟨fun ax j => removeAxis_f xx ax P j, fun _ => rfl, ?_, fun xb a b j hab hb => removeAxis_comm xx xb a b P j hab hb⟩
  intro p h1 h2 h3
  unfold removePop
  rw [if_neg]
  rintro (h | h | h)
  · omega
  · omega
  · exact h h3

/-- `reorder_pops` is the axis permutation: the input entry at `i` is found at `j[k] = i[axes[k]]`, the shape is permuted
    alike, and reordering by the inverse permutation restores the density. -/
theorem C06_reorder (axes : List ℕ) (P : Dens) (i : Idx) (hi : i.length = P.shape.length)
    (hlen : axes.length = P.shape.length) (hnd : axes.Nodup) (hcov : ∀ a, a < P.shape.length → a ∈ axes)
    (hval : ∀ a ∈ axes, a < P.shape.length) :
    (reorderAxes axes P).f (axes.map fun a => i.getD a 0) = P.f i ∧
    (reorderAxes axes P).shape = axes.map (fun a => P.shape.getD a 0) ∧
    (reorderAxes (invAxes axes) (reorderAxes axes P)).f i = P.f i :=
  ⟨reorderAxes_entry axes P i hi hcov, rfl, reorderAxes_inv axes P i hi hlen hnd hcov hval⟩

example : ([2, 0, 1] : List ℕ).Nodup ∧ (∀ a, a < 3 → a ∈ ([2, 0, 1] : List ℕ)) ∧ (∀ a ∈ ([2, 0, 1] : List ℕ), a < 3)
    ∧ invAxes [2, 0, 1] = [1, 2, 0] := by decide

/-! ## the public functions: generated wiring against the intended functions -/

/-- T tie, coefficients: for every one of the 17 generated rows and all proportions, the coefficient vector the code
    evaluates (with its permuted helper arguments, e.g. `f1, 1-f1-f3` and then `1 - f1 - (1-f1-f3)`) IS the intended one:
    the proportions in population order with `1 - Σ f` at the destination (constructors: at the last old population). -/
theorem C06_wiring_coefs : ∀ r ∈ Gen.Admix.rows, ∀ f : List ℚ, f.length = r.nf → r.coefs f = fullCoefs (restPos r) f := by
  intro r hr f hf
  simp only [Gen.Admix.rows, List.mem_cons, List.mem_nil_iff, or_false] at hr
  rcases hr with rfl | rfl | rfl | rfl | rfl | rfl | rfl | rfl | rfl | rfl | rfl | rfl | rfl | rfl | rfl | rfl | rfl <;>
  dsimp only at hf <;>
  (first
    | (obtain ⟨a, rfl⟩ := List.length_eq_one_iff.1 hf)
    | (obtain ⟨a, b, rfl⟩ := List.length_eq_two.1 hf)
    | (obtain ⟨a, b, c, rfl⟩ := List.length_eq_three.1 hf)
    | (obtain ⟨a, b, c, d, rfl⟩ := length_eq_four.1 hf)) <;>
  simp [restPos, fullCoefs, Gen.Admix.coefs_phi_2D_to_3D_admix, Gen.Admix.coefs_phi_3D_to_4D, Gen.Admix.coefs_phi_4D_to_5D,
    Gen.Admix.coefs_phi_2D_admix_1_into_2, Gen.Admix.coefs_phi_2D_admix_2_into_1, Gen.Admix.coefs_phi_3D_admix_1_and_2_into_3,
    Gen.Admix.coefs_phi_3D_admix_1_and_3_into_2, Gen.Admix.coefs_phi_3D_admix_2_and_3_into_1, Gen.Admix.coefs_phi_4D_admix_into_1,
    Gen.Admix.coefs_phi_4D_admix_into_2, Gen.Admix.coefs_phi_4D_admix_into_3, Gen.Admix.coefs_phi_4D_admix_into_4,
    Gen.Admix.coefs_phi_5D_admix_into_1, Gen.Admix.coefs_phi_5D_admix_into_2, Gen.Admix.coefs_phi_5D_admix_into_3,
    Gen.Admix.coefs_phi_5D_admix_into_4, Gen.Admix.coefs_phi_5D_admix_into_5] <;>
  (try constructor) <;> ring_nf

/-- A row that is wired as intended computes the intended function: `applyRow` (what K compares with the real code)
    equals `pulse` / `newPop` (what the conservation theorems above are about). -/
theorem C06_apply (r : Gen.Admix.FnRow) (hr : r ∈ Gen.Admix.rows) (hw : rowGridsOk r = true)
    (f : List ℚ) (grids : List (Array ℚ)) (P : Dens) (hs : shapesOk r f grids P = true) (hg : r.guard f = false) :
    (r.isPulse = true → applyRow r f grids P = .ok (pulse grids r.dest f P)) ∧
    (r.isPulse = false → applyRow r f grids P = .ok (newPop (grids.take r.d) (grids.getD r.d #[]) f P)) := by
  have hfl : f.length = r.nf := by
    simp only [shapesOk, Bool.and_eq_true, beq_iff_eq] at hs
    exact hs.1.1.1.1.1.1
  have hc := C06_wiring_coefs r hr f hfl
  constructor
  · intro hp
    exact applyRow_pulse r f grids P hp hw (by rw [hc, restPos, if_pos hp]) hs hg
  · intro hp
    exact applyRow_newPop r f grids P hp hw (by rw [hc, restPos, if_neg (by simp [hp])]) hs hg

/-- Every proportion vector in the closed simplex is accepted by every public function (generated guards, exact
    arithmetic). -/
theorem C06_simplex_accept : ∀ r ∈ Gen.Admix.rows, ∀ f : List ℚ, f.length = r.nf → Simplex f → r.guard f = false := by
  intro r hr f hf hs
  simp only [Gen.Admix.rows, List.mem_cons, List.mem_nil_iff, or_false] at hr
  rcases hr with rfl | rfl | rfl | rfl | rfl | rfl | rfl | rfl | rfl | rfl | rfl | rfl | rfl | rfl | rfl | rfl | rfl <;>
  dsimp only at hf <;>
  (first
    | (obtain ⟨a, rfl⟩ := List.length_eq_one_iff.1 hf)
    | (obtain ⟨a, b, rfl⟩ := List.length_eq_two.1 hf)
    | (obtain ⟨a, b, c, rfl⟩ := List.length_eq_three.1 hf)
    | (obtain ⟨a, b, c, d, rfl⟩ := length_eq_four.1 hf)) <;>
  simp only [Simplex, List.mem_cons, List.mem_nil_iff, or_false, forall_eq_or_imp, forall_eq, List.sum_cons, List.sum_nil] at hs <;>
  simp only [Gen.Admix.guard_phi_2D_to_3D_admix, Gen.Admix.guard_phi_3D_to_4D, Gen.Admix.guard_phi_4D_to_5D,
    Gen.Admix.guard_phi_2D_admix_1_into_2, Gen.Admix.guard_phi_2D_admix_2_into_1, Gen.Admix.guard_phi_3D_admix_1_and_2_into_3,
    Gen.Admix.guard_phi_3D_admix_1_and_3_into_2, Gen.Admix.guard_phi_3D_admix_2_and_3_into_1, Gen.Admix.guard_phi_4D_admix_into_1,
    Gen.Admix.guard_phi_4D_admix_into_2, Gen.Admix.guard_phi_4D_admix_into_3, Gen.Admix.guard_phi_4D_admix_into_4,
    Gen.Admix.guard_phi_5D_admix_into_1, Gen.Admix.guard_phi_5D_admix_into_2, Gen.Admix.guard_phi_5D_admix_into_3,
    Gen.Admix.guard_phi_5D_admix_into_4, Gen.Admix.guard_phi_5D_admix_into_5,
    List.getD_cons_zero, List.getD_cons_succ, Bool.or_eq_false_iff, decide_eq_false_iff_not, not_lt, gt_iff_lt, and_true, true_and] <;>
  (try (repeat' constructor)) <;> (try linarith [hs.1, hs.2])

example : Simplex [1/2, 0, 1/2] ∧ Simplex [0, 0] ∧ Simplex [1] := by
  refine ⟨⟨?_, by norm_num⟩, ⟨?_, by norm_num⟩, ⟨?_, by norm_num⟩⟩ <;> intro x hx <;> simp at hx <;> rcases hx with rfl | rfl | rfl <;> norm_num

/-- OBLIGATION on the generated guards (false while F-06 is in the source): every public function rejects proportions that
    sum to more than 1.  On the pinned tree the 2-population functions evaluate no guard at all and the pulse variants
    whose destination is not the last population evaluate `f_a + … + (1 - Σ f) > 1`, which does not depend on Σ f. -/
theorem C06_simplex_reject : ∀ r ∈ Gen.Admix.rows, ∀ f : List ℚ, f.length = r.nf → f.sum > 1 → r.guard f = true := by
  intro r hr f hf hs
  simp only [Gen.Admix.rows, List.mem_cons, List.mem_nil_iff, or_false] at hr
  rcases hr with rfl | rfl | rfl | rfl | rfl | rfl | rfl | rfl | rfl | rfl | rfl | rfl | rfl | rfl | rfl | rfl | rfl <;>
  dsimp only at hf <;>
  (first
    | (obtain ⟨a, rfl⟩ := List.length_eq_one_iff.1 hf)
    | (obtain ⟨a, b, rfl⟩ := List.length_eq_two.1 hf)
    | (obtain ⟨a, b, c, rfl⟩ := List.length_eq_three.1 hf)
    | (obtain ⟨a, b, c, d, rfl⟩ := length_eq_four.1 hf)) <;>
  simp only [List.sum_cons, List.sum_nil] at hs <;>
  simp only [Gen.Admix.guard_phi_2D_to_3D_admix, Gen.Admix.guard_phi_3D_to_4D, Gen.Admix.guard_phi_4D_to_5D,
    Gen.Admix.guard_phi_2D_admix_1_into_2, Gen.Admix.guard_phi_2D_admix_2_into_1, Gen.Admix.guard_phi_3D_admix_1_and_2_into_3,
    Gen.Admix.guard_phi_3D_admix_1_and_3_into_2, Gen.Admix.guard_phi_3D_admix_2_and_3_into_1, Gen.Admix.guard_phi_4D_admix_into_1,
    Gen.Admix.guard_phi_4D_admix_into_2, Gen.Admix.guard_phi_4D_admix_into_3, Gen.Admix.guard_phi_4D_admix_into_4,
    Gen.Admix.guard_phi_5D_admix_into_1, Gen.Admix.guard_phi_5D_admix_into_2, Gen.Admix.guard_phi_5D_admix_into_3,
    Gen.Admix.guard_phi_5D_admix_into_4, Gen.Admix.guard_phi_5D_admix_into_5,
    List.getD_cons_zero, List.getD_cons_succ, Bool.or_eq_true, decide_eq_true_eq, gt_iff_lt] <;>
  (first | linarith | (left; linarith) | (right; linarith))

example : ([7/10, 6/10] : List ℚ).sum > 1 := by norm_num

/-- OBLIGATION on the generated grid wiring (false while F-06b is in the source): every public function writes back the
    axis its name says, uses public grid m for population m, puts the temporary population on the DESTINATION's grid
    and integrates the old destination with the destination's grid, and its proportion parameters name the other
    populations in ascending order.  On the pinned tree `phi_4D_admix_into_3/4` hand `yy` and `phi_5D_admix_into_2..5`
    hand `xx` (and integrate with `xx`), which is only harmless when all populations share one grid. -/
theorem C06_wiring_grids : ∀ r ∈ Gen.Admix.rows, rowGridsOk r = true := by decide

/-! # Round 4 extension -/

/-! ## total mass (the full d-dimensional trapezoid sum `totalMass grids P` = iterated `Numerics.trapz`) -/

/-- `reorder_pops` preserves the total mass, the grids being permuted alike: for any permutation `axes` of the axes, and
    for the public function with its `sorted(neworder) == [1..ndim]` guard (whenever it does not raise). -/
theorem C06_reorder_mass (grids : List (Array ℚ)) (P : Dens) (hd : P.shape.length = grids.length) :
    (∀ axes : List ℕ, axes.length = grids.length → axes.Nodup → (∀ a, a < grids.length → a ∈ axes) →
        (∀ a ∈ axes, a < grids.length) →
        totalMass (axes.map fun a => grids.getD a #[]) (reorderAxes axes P) = totalMass grids P) ∧
    (∀ (neworder : List ℕ) (Q : Dens), reorderPops neworder P = some Q →
        totalMass (neworder.map fun n => grids.getD (n - 1) #[]) Q = totalMass grids P) :=
  ⟨fun axes hlen hnd hcov hval => reorderAxes_mass axes grids P hd hlen hnd hcov hval,
   fun neworder Q h => reorderPops_mass neworder grids P Q hd h⟩

example : let g1 : Array ℚ := #[0, 1/4, 1]
    let g2 : Array ℚ := #[0, 1]
    let P : Dens := ⟨[3, 2], fun i => ((i.getD 0 0 + 3 * i.getD 1 0 + 1 : ℕ) : ℚ)⟩
    (reorderPops [2, 1] P).map (fun Q => totalMass [g2, g1] Q) = some (15 / 4) ∧ totalMass [g1, g2] P = 15 / 4 ∧
      (reorderPops [2, 1] P).map (fun Q => Q.f [1, 2]) = some (P.f [2, 1]) ∧ P.f [2, 1] ≠ P.f [1, 2] := by
  decide +kernel

/-- Removing a population preserves the total mass (`remove_pop` with the removed population's grid; `filter_pops`, whose
    signature has ONE grid for all populations, whenever it does not raise). -/
theorem C06_remove_mass (P : Dens) :
    (∀ (grids : List (Array ℚ)) (a : ℕ), a < grids.length →
        totalMass (grids.eraseIdx a) (removeAxis (grids.getD a #[]) a P) = totalMass grids P) ∧
    (∀ (xx : Array ℚ) (p : ℕ) (Q : Dens), removePop xx p P = some Q →
        totalMass (List.replicate Q.shape.length xx) Q = totalMass (List.replicate P.shape.length xx) P) ∧
    (∀ (xx : Array ℚ) (keep : List ℕ) (Q : Dens), filterPops xx keep P = some Q →
        totalMass (List.replicate Q.shape.length xx) Q = totalMass (List.replicate P.shape.length xx) P) :=
  ⟨fun grids a ha => removeAxis_mass grids a P ha, fun xx p Q h => (removePop_mass xx p P Q h).2,
   fun xx keep Q h => filterPops_mass xx keep P Q h⟩

/-- Creating a population (split / admixture, any number of parents) preserves the total mass: the full trapezoid sum
    of the (d+1)-dimensional result equals that of the d-dimensional input. -/
theorem C06_newpop_mass (grids : List (Array ℚ)) (zz : Array ℚ) (f : List ℚ) (P : Dens)
    (hs : Simplex f) (hz : Grid01 zz) (hgl : grids.length = f.length + 1)
    (hg : ∀ m, m < grids.length → Grid01 (grids.getD m #[])) :
    totalMass (grids ++ [zz]) (newPop grids zz f P) = totalMass grids P := by
  unfold newPop
  apply newPopRaw_mass grids zz _ P hz.1.1
  intro idx hb
  obtain ⟨h0, h1⟩ := adZ_simplex f.length f grids idx (le_refl _) hs hgl (by rw [hb.1, hgl])
    (fun m hm => ⟨hg m hm, hb.2 m hm⟩)
  exact depositOk_of_range zz _ _ hz.1 (by rw [hz.2.1]; exact h0) (by rw [hz.2.2]; exact h1)

/-- A pulse of admixture preserves the total mass. -/
theorem C06_pulse_mass (grids : List (Array ℚ)) (dest : ℕ) (f : List ℚ) (P : Dens)
    (hs : Simplex f) (hd : dest ≤ f.length) (hgl : grids.length = f.length + 1)
    (hg : ∀ m, m < grids.length → Grid01 (grids.getD m #[])) :
    totalMass grids (pulse grids dest f P) = totalMass grids P := by
  unfold pulse
  have hgd := hg dest (by omega)
  apply pulseRaw_mass grids grids _ dest P (by omega) hgd.1.1
  intro idx hb
  obtain ⟨h0, h1⟩ := adZ_simplex dest f grids idx hd hs hgl (by rw [hb.1, hgl]) (fun m hm => ⟨hg m hm, hb.2 m hm⟩)
  exact depositOk_of_range _ _ _ hgd.1 (by rw [hgd.2.1]; exact h0) (by rw [hgd.2.2]; exact h1)

example : let g : Array ℚ := #[0, 1/4, 1]
    let P : Dens := ⟨[3, 3], fun i => ((i.getD 0 0 + 2 * i.getD 1 0 + 1 : ℕ) : ℚ)⟩
    totalMass [g, g] P = 19 / 4 ∧ totalMass [g, g] (pulse [g, g] 0 [1/3] P) = 19 / 4 ∧
    totalMass [g, g, g] (newPop [g, g] g [1/3] P) = 19 / 4 := by
  decide +kernel

/-! ## the new / the destination population carries the parental mixture frequency, any number of parents -/

/-- Constructor with parents 1..n+1 (proportions `f`, the last parent keeps `1 - Σ f`): for every source cell `idx`, along
    the new axis the deposit has first moment `(Σ_m c_m·x_m)·(zeroth moment)`, where `c = fullCoefs` are the documented
    proportions and `x_m` the cell's frequency in parent m — the linear-interpolation weights reproduce the parental
    mixture frequency, for any number of parents, any strictly increasing grid of the new population. -/
theorem C06_newpop_mixture (grids : List (Array ℚ)) (zz : Array ℚ) (f : List ℚ) (P : Dens) (idx : Idx)
    (hz : GridOk zz) (hgl : grids.length = f.length + 1) (hil : idx.length = f.length + 1) :
    ∑ k ∈ range zz.size, gv zz k * (newPop grids zz f P).f (idx ++ [k])
      = (∑ m ∈ range (f.length + 1), (if m < f.length then f.getD m 0 else 1 - f.sum) * gv (grids.getD m #[]) (idx.getD m 0))
        * ∑ k ∈ range zz.size, (newPop grids zz f P).f (idx ++ [k]) := by
  unfold newPop
  rw [newPopRaw_mixture grids zz _ P idx hz]
  congr 1
  have hlen : (fullCoefs f.length f).length = f.length + 1 := by unfold fullCoefs; rw [List.length_insertIdx]; simp
  rw [adZ_eq_sum _ grids idx (by omega) (by omega), hlen]
  apply Finset.sum_congr rfl
  intro m hm
  rw [fullCoefs_getD f.length f (le_refl _) m]
  have : m < f.length + 1 := Finset.mem_range.1 hm
  by_cases h : m < f.length
  · rw [if_pos h, if_pos h]
  · rw [if_neg h, if_neg h, if_pos (by omega)]

example : let g : Array ℚ := #[0, 1/4, 1]
    let P : Dens := ⟨[3, 3, 3], fun i => ((i.getD 0 0 + 2 * i.getD 1 0 + i.getD 2 0 + 1 : ℕ) : ℚ)⟩
    GridOk g ∧ ∑ k ∈ range 3, gv g k * (newPop [g, g, g] g [1/3, 1/2] P).f ([1, 2, 0] ++ [k])
      = (7 / 12) * ∑ k ∈ range 3, (newPop [g, g, g] g [1/3, 1/2] P).f ([1, 2, 0] ++ [k])
    ∧ ∑ k ∈ range 3, (newPop [g, g, g] g [1/3, 1/2] P).f ([1, 2, 0] ++ [k]) ≠ 0 := by
  refine ⟨⟨by decide, ?_⟩, by decide +kernel, by decide +kernel⟩
  intro j hj
  have : j = 0 ∨ j = 1 := by simp at hj; omega
  rcases this with rfl | rfl <;> decide +kernel

/-- Pulse of a point density: if, in the line through `idx` along the destination axis, all the mass sits in the cell with
    destination index `c`, then after the pulse that line has first moment `ad_z(c)·(zeroth moment)` with
    `ad_z(c) = Σ_m c_m·x_m` the documented mixture frequency of that cell (any number of populations, any destination). -/
theorem C06_pulse_mixture (grids : List (Array ℚ)) (dest : ℕ) (f : List ℚ) (P : Dens) (idx : Idx) (c : ℕ)
    (hd : dest < idx.length) (hg : GridOk (grids.getD dest #[])) (hc : c < (grids.getD dest #[]).size)
    (hpt : ∀ j, j ≠ c → P.f (idx.set dest j) = 0) :
    ∑ k ∈ range (grids.getD dest #[]).size, gv (grids.getD dest #[]) k * (pulse grids dest f P).f (idx.set dest k)
      = adZ grids (fullCoefs dest f) (idx.set dest c)
        * ∑ k ∈ range (grids.getD dest #[]).size, (pulse grids dest f P).f (idx.set dest k) :=
  pulseRaw_mixture grids _ _ dest P idx hd hg c hc hpt

/-! ## beyond the ends of the grid: the two clamps of `_admixture_intermediates` -/

/-- A mixed frequency that round-off pushed ABOVE the last grid point (`δ = ad_z - z_last > 0`): `searchsorted` returns
    `len(zz)`, `numpy.minimum(.., len(zz)-1)` brings the upper index back to the last point and the lower index, derived
    from the clamped one, is the point before it — they never coincide.  The deposit extrapolates linearly
    (`frac_lower < 0 < 1 < frac_upper`), stays well defined as long as `δ·(z_{n-2} - z_{n-3}) < (z_{n-1} - z_{n-2})²` and
    then still integrates to the source cell's mass.  Symmetrically BELOW the first grid point with the
    `numpy.maximum(.., 1)` clamp. -/
theorem C06_deposit_clamped (zz : Array ℚ) (φ adz : ℚ) (hg : GridOk zz) :
    (gv zz (zz.size - 1) < adz →
      Gen.Admix.upperIdx zz φ adz = ((zz.size - 1 : ℕ) : ℤ) ∧ Gen.Admix.lowerIdx zz φ adz = ((zz.size - 2 : ℕ) : ℤ) ∧
      ((adz - gv zz (zz.size - 1)) * delz0 zz (zz.size - 2) < (gv zz (zz.size - 1) - gv zz (zz.size - 2)) ^ 2 →
        Gen.Admix.fracLower zz φ adz < 0 ∧ 1 < Gen.Admix.fracUpper zz φ adz ∧
        ∑ k ∈ range zz.size, trapzW zz k * depositAt zz φ adz k = φ)) ∧
    (adz ≤ gv zz 0 →
      Gen.Admix.upperIdx zz φ adz = 1 ∧ Gen.Admix.lowerIdx zz φ adz = 0 ∧
      ((gv zz 0 - adz) * delz2 zz 1 < (gv zz 1 - gv zz 0) ^ 2 →
        1 ≤ Gen.Admix.fracLower zz φ adz ∧ Gen.Admix.fracUpper zz φ adz ≤ 0 ∧
        ∑ k ∈ range zz.size, trapzW zz k * depositAt zz φ adz k = φ)) := by
  have h2 := hg.1
  obtain ⟨hU, hL⟩ := cell_idx zz φ adz h2
  constructor
  · intro h
    have hu := uNat_above zz hg adz h
    refine ⟨by rw [hU, hu], by rw [hL, hu]; congr 1, ?_⟩
    intro hs
    obtain ⟨hok, h1, h3⟩ := depositOk_above zz φ adz hg h hs
    exact ⟨h1, h3, deposit_mass zz φ adz h2 hok⟩
  · intro h
    have hu := uNat_below zz hg adz h
    refine ⟨by rw [hU, hu]; rfl, by rw [hL, hu]; rfl, ?_⟩
    intro hs
    obtain ⟨hok, h1, h3⟩ := depositOk_below zz φ adz hg h hs
    exact ⟨h1, h3, deposit_mass zz φ adz h2 hok⟩

example : let g : Array ℚ := #[0, 1/4, 1]
    GridOk g ∧ gv g (3 - 1) < (1 + 1/1000 : ℚ) ∧
      ((1 + 1/1000 : ℚ) - gv g (3 - 1)) * delz0 g (3 - 2) < (gv g (3 - 1) - gv g (3 - 2)) ^ 2 ∧
      depositAt g 1 (1 + 1/1000) 1 < 0 := by
  refine ⟨⟨by decide, ?_⟩, by decide +kernel, by decide +kernel, by decide +kernel⟩
  intro j hj
  have : j = 0 ∨ j = 1 := by simp at hj; omega
  rcases this with rfl | rfl <;> decide +kernel

/-- the lower and the upper index of the generated cell program never coincide, so the order of the two fancy-index fills
    and `=` versus `+=` do not matter: the scratch row is the deposit -/
theorem C06_fill_distinct (zz : Array ℚ) (φ adz : ℚ) :
    Gen.Admix.lowerIdx zz φ adz ≠ Gen.Admix.upperIdx zz φ adz ∧
    ∀ (L : Gen.Admix.LoopRow) (k : ℕ), depositFill L zz φ adz k = depositAt zz φ adz k :=
  ⟨idx_distinct zz φ adz, fun L k => depositFill_eq L zz φ adz k⟩

/-! ## pulses: composition, pulse and removal -/

/-- A pulse commutes with the removal of a population `a` that does not contribute to it (its proportion is 0): pulse
    into `dest`, then integrate `a` out = integrate `a` out, then pulse among the remaining populations
    (`shiftAx x a` = position of axis x once axis a is gone). -/
theorem C06_pulse_remove_comm (grids : List (Array ℚ)) (dest a : ℕ) (f : List ℚ) (P : Dens) (j : Idx)
    (hgl : grids.length = f.length + 1) (hd : dest ≤ f.length) (ha : a ≤ f.length) (hne : dest ≠ a) (hj : a ≤ j.length)
    (h2 : 2 ≤ (grids.getD dest #[]).size) (h0 : f.getD (shiftAx a dest) 0 = 0) :
    (removeAxis (grids.getD a #[]) a (pulse grids dest f P)).f j
      = (pulse (grids.eraseIdx a) (shiftAx dest a) (f.eraseIdx (shiftAx a dest)) (removeAxis (grids.getD a #[]) a P)).f j :=
  pulse_remove_comm grids dest a f P j hgl hd ha hne hj h2 h0

example : let g : Array ℚ := #[0, 1/4, 1]
    let P : Dens := ⟨[3, 3, 3], fun i => ((i.getD 0 0 + 2 * i.getD 1 0 + i.getD 2 0 * i.getD 0 0 + 1 : ℕ) : ℚ)⟩
    (removeAxis g 2 (pulse [g, g, g] 0 [1/3, 0] P)).f [1, 2] = (pulse [g, g] 0 [1/3] (removeAxis g 2 P)).f [1, 2] ∧
    (removeAxis g 2 (pulse [g, g, g] 0 [1/3, 1/5] P)).f [1, 2] ≠ (pulse [g, g] 0 [1/3] (removeAxis g 2 P)).f [1, 2] := by
  decide +kernel

/-- Two pulses in a row: into the same population, the joint density of the others is still the input's; into any two
    populations, the total mass is still the input's. -/
theorem C06_pulse_compose (grids : List (Array ℚ)) (f1 f2 : List ℚ) (P : Dens)
    (hs1 : Simplex f1) (hs2 : Simplex f2) (hl : f2.length = f1.length) (hgl : grids.length = f1.length + 1)
    (hg : ∀ m, m < grids.length → Grid01 (grids.getD m #[])) :
    (∀ (dest : ℕ) (j : Idx), dest ≤ f1.length → j.length = f1.length →
        (∀ m, m < j.length → j.getD m 0 < (grids.getD (if m < dest then m else m + 1) #[]).size) →
        (removeAxis (grids.getD dest #[]) dest (pulse grids dest f2 (pulse grids dest f1 P))).f j
          = (removeAxis (grids.getD dest #[]) dest P).f j) ∧
    (∀ d1 d2 : ℕ, d1 ≤ f1.length → d2 ≤ f1.length →
        totalMass grids (pulse grids d2 f2 (pulse grids d1 f1 P)) = totalMass grids P) := by
  constructor
  · intro dest j hd hjl hbox
    rw [C06_pulse_marginal grids dest f2 _ j hs2 (by omega) (by omega) (by omega) hg hbox,
      C06_pulse_marginal grids dest f1 P j hs1 hd hgl hjl hg hbox]
  · intro d1 d2 h1 h2
    rw [C06_pulse_mass grids d2 f2 _ hs2 (by omega) (by omega) hg, C06_pulse_mass grids d1 f1 P hs1 h1 hgl hg]

/-! ## the generated loop / fancy-indexing structure -/

/-- OBLIGATION on the generated loop structure of the 17 functions (`Gen.Admix.loopRows`, same order as `rows`): every
    pulse runs one loop per non-destination axis over the whole extent of THAT axis, allocates (zeroes) the scratch array
    destination × destination inside the innermost loop, indexes its rows with `arange` over the destination extent, and
    writes `Numerics.trapz(phi_int, .., axis=0)` back along the destination axis. -/
theorem C06_loops : Gen.Admix.rows.length = Gen.Admix.loopRows.length ∧
    ∀ p ∈ List.zip Gen.Admix.rows Gen.Admix.loopRows, loopsOk p.1 p.2 = true := by
  refine ⟨by decide, by decide⟩

/-- …and then the loop-aware model that K compares with the code (`applyRowL`: fills in source order with their `=`/`+=`,
    lines outside a shortened loop keep the input, `trapz` along the generated scratch axis) IS the functional model
    `applyRow` of `C06_apply` and of the conservation theorems. -/
theorem C06_loops_apply : ∀ p ∈ List.zip Gen.Admix.rows Gen.Admix.loopRows, ∀ (f : List ℚ) (grids : List (Array ℚ)) (P : Dens),
    applyRowL p.1 p.2 f grids P = applyRow p.1 f grids P :=
  fun p hp f grids P => applyRowL_eq p.1 p.2 (C06_loops.2 p hp) f grids P

/-! ## the proportion guard in floating point -/

/-- T tie between the two generated guard tables: with exact arithmetic (`rnd = id`, `sum` = the exact left fold) the float
    guard of every function is its exact guard. -/
theorem C06_guard_float_exact : ∀ p ∈ List.zip Gen.Admix.guardsFl Gen.Admix.rows,
    p.1.name = p.2.name ∧ p.1.nf = p.2.nf ∧ ∀ f : List ℚ, p.1.guardFl id (fun l => l.foldl (· + ·) 0) f = p.2.guard f := by
  intro p hp
  simp only [Gen.Admix.guardsFl, Gen.Admix.rows, List.zip_cons_cons, List.zip_nil_right, List.mem_cons, List.mem_nil_iff, or_false] at hp
  rcases hp with rfl | rfl | rfl | rfl | rfl | rfl | rfl | rfl | rfl | rfl | rfl | rfl | rfl | rfl | rfl | rfl | rfl <;>
  exact ⟨rfl, rfl, fun f => rfl⟩

/-- The guard `if sum(fs) > 1: raise` as the FLOATING-POINT code evaluates it accepts every vector of representable
    proportions in the closed simplex — with NO slack — for every public function, under exactly these assumptions on the
    arithmetic: `RoundNearest rnd e` (rounding monotone; 0 and 1 representable; error ≤ e on [0,1]; everything up to the
    midpoint 1+2e rounds to ≤ 1 — IEEE binary64 round-to-nearest-even with e = 2⁻⁵⁴) when `sum` is the left-to-right
    fold (numpy scalars, CPython < 3.12), and in addition `RoundEFT rnd e u` (idempotent; two-sided error on [0,1];
    relative error ≤ u ≤ 1/8; Fast2Sum exact) when `sum` is CPython ≥ 3.12's Neumaier sum on Python floats. -/
theorem C06_simplex_accept_float (rnd : ℚ → ℚ) (e : ℚ) :
    (∀ fsum : List ℚ → ℚ, FloatSumOk rnd fsum → ∀ r ∈ Gen.Admix.guardsFl, ∀ f : List ℚ, f.length = r.nf → Simplex f →
        (∀ x ∈ f, rnd x = x) → r.guardFl rnd fsum f = false) ∧
    (RoundNearest rnd e → FloatSumOk rnd (seqSum rnd)) ∧
    (∀ u, RoundEFT rnd e u → FloatSumOk rnd (neumaierSum rnd)) := by
  refine ⟨?_, seqSum_ok rnd e, fun u => neumaierSum_ok rnd e u⟩
  intro fsum hsum r hr f hf hs hrep
  simp only [Gen.Admix.guardsFl, List.mem_cons, List.mem_nil_iff, or_false] at hr
  rcases hr with rfl | rfl | rfl | rfl | rfl | rfl | rfl | rfl | rfl | rfl | rfl | rfl | rfl | rfl | rfl | rfl | rfl <;>
  dsimp only at hf <;>
  (first
    | (obtain ⟨a, rfl⟩ := List.length_eq_one_iff.1 hf)
    | (obtain ⟨a, b, rfl⟩ := List.length_eq_two.1 hf)
    | (obtain ⟨a, b, c, rfl⟩ := List.length_eq_three.1 hf)
    | (obtain ⟨a, b, c, d, rfl⟩ := length_eq_four.1 hf)) <;>
  simp only [Gen.Admix.guardFl_phi_2D_to_3D_admix, Gen.Admix.guardFl_phi_3D_to_4D, Gen.Admix.guardFl_phi_4D_to_5D,
    Gen.Admix.guardFl_phi_2D_admix_1_into_2, Gen.Admix.guardFl_phi_2D_admix_2_into_1, Gen.Admix.guardFl_phi_3D_admix_1_and_2_into_3,
    Gen.Admix.guardFl_phi_3D_admix_1_and_3_into_2, Gen.Admix.guardFl_phi_3D_admix_2_and_3_into_1, Gen.Admix.guardFl_phi_4D_admix_into_1,
    Gen.Admix.guardFl_phi_4D_admix_into_2, Gen.Admix.guardFl_phi_4D_admix_into_3, Gen.Admix.guardFl_phi_4D_admix_into_4,
    Gen.Admix.guardFl_phi_5D_admix_into_1, Gen.Admix.guardFl_phi_5D_admix_into_2, Gen.Admix.guardFl_phi_5D_admix_into_3,
    Gen.Admix.guardFl_phi_5D_admix_into_4, Gen.Admix.guardFl_phi_5D_admix_into_5,
    List.getD_cons_zero, List.getD_cons_succ, decide_eq_false_iff_not, not_lt, gt_iff_lt] <;>
  exact hsum _ (by simp) (fun x hx => ⟨hs.1 x hx, hrep x hx⟩) hs.2

/-- the assumptions are consistent (exact arithmetic satisfies them with e = u = 0) -/
example : RoundEFT id 0 0 :=
  { mono := fun _ _ h => h, zero := rfl, one := rfl, err := fun x _ _ => by simp, tie := fun x h => by simpa using h,
    e_nonneg := le_refl _, idem := fun _ => rfl, err_lo := fun x _ _ => by simp, rel := fun x => by simp,
    u_nonneg := le_refl _, u_small := by norm_num, fast2sum := fun a b _ _ _ => by simp only [id]; ring }

/-- In the other direction the float guard (left-to-right `sum`, relative error ≤ u per addition) fires as soon as the
    exact sum exceeds `1/(1-u)^n` (n = number of proportions; binary64: 1 + n·2⁻⁵³ to first order): sums above 1 by less
    than that may be accepted by the float code. -/
theorem C06_simplex_reject_float (rnd : ℚ → ℚ) (u : ℚ) (hu0 : 0 ≤ u) (hu1 : u ≤ 1) (hrel : ∀ x, |rnd x - x| ≤ u * |x|) :
    ∀ r ∈ Gen.Admix.guardsFl, ∀ f : List ℚ, f.length = r.nf → (∀ x ∈ f, 0 ≤ x) → 1 < (1 - u) ^ r.nf * f.sum →
      r.guardFl rnd (seqSum rnd) f = true := by
  intro r hr f hf hx hs
  have key := seqSum_reject rnd u hu0 hu1 hrel f hx (by rw [hf]; exact hs)
  simp only [Gen.Admix.guardsFl, List.mem_cons, List.mem_nil_iff, or_false] at hr
  rcases hr with rfl | rfl | rfl | rfl | rfl | rfl | rfl | rfl | rfl | rfl | rfl | rfl | rfl | rfl | rfl | rfl | rfl <;>
  dsimp only at hf <;>
  (first
    | (obtain ⟨a, rfl⟩ := List.length_eq_one_iff.1 hf)
    | (obtain ⟨a, b, rfl⟩ := List.length_eq_two.1 hf)
    | (obtain ⟨a, b, c, rfl⟩ := List.length_eq_three.1 hf)
    | (obtain ⟨a, b, c, d, rfl⟩ := length_eq_four.1 hf)) <;>
  simp only [Gen.Admix.guardFl_phi_2D_to_3D_admix, Gen.Admix.guardFl_phi_3D_to_4D, Gen.Admix.guardFl_phi_4D_to_5D,
    Gen.Admix.guardFl_phi_2D_admix_1_into_2, Gen.Admix.guardFl_phi_2D_admix_2_into_1, Gen.Admix.guardFl_phi_3D_admix_1_and_2_into_3,
    Gen.Admix.guardFl_phi_3D_admix_1_and_3_into_2, Gen.Admix.guardFl_phi_3D_admix_2_and_3_into_1, Gen.Admix.guardFl_phi_4D_admix_into_1,
    Gen.Admix.guardFl_phi_4D_admix_into_2, Gen.Admix.guardFl_phi_4D_admix_into_3, Gen.Admix.guardFl_phi_4D_admix_into_4,
    Gen.Admix.guardFl_phi_5D_admix_into_1, Gen.Admix.guardFl_phi_5D_admix_into_2, Gen.Admix.guardFl_phi_5D_admix_into_3,
    Gen.Admix.guardFl_phi_5D_admix_into_4, Gen.Admix.guardFl_phi_5D_admix_into_5,
    List.getD_cons_zero, List.getD_cons_succ, decide_eq_true_eq, gt_iff_lt] <;>
  exact key

example : (1 : ℚ) < (1 - 1/8) ^ 2 * ([7/10, 7/10] : List ℚ).sum := by norm_num

/-! ## `filter_pops` as the iteration the code performs -/

/-- `filter_pops(phi, xx, tokeep)` — `toremove = [1..ndim]` minus `tokeep` (ValueError for a repeated / foreign entry), then
    `remove_pop(phi, xx, p)` for `p` in `sorted(toremove)[::-1]` — is, whenever it returns, the trapezoid marginal over
    exactly the populations that are not kept, the kept ones staying in population order whatever the order of `tokeep`
    (`margMask xx mask F`: sum out, with the weights of `xx`, the axes whose mask entry is false). -/
theorem C06_filter (xx : Array ℚ) (keep : List ℕ) (P Q : Dens) (h : filterPops xx keep P = some Q) (j : Idx)
    (hj : j.length = ((List.range P.shape.length).map fun a => keep.contains (a + 1)).count true) :
    Q.f j = margMask xx ((List.range P.shape.length).map fun a => keep.contains (a + 1)) P.f j :=
  filterPops_marg xx keep P Q h j hj

/-- what `margMask` says for three populations of which the first and the third are kept -/
example (xx : Array ℚ) (F : Idx → ℚ) (i k : ℕ) :
    margMask xx [true, false, true] F [i, k] = ∑ m ∈ range xx.size, trapzW xx m * F [i, m, k] := rfl

example : let g : Array ℚ := #[0, 1/4, 1]
    let P : Dens := ⟨[3, 3, 3], fun i => ((i.getD 0 0 + 2 * i.getD 1 0 + i.getD 2 0 * i.getD 0 0 + 1 : ℕ) : ℚ)⟩
    (filterPops g [3, 1] P).map (fun Q => Q.f [1, 2]) = some (13 / 2) ∧
    (filterPops g [3, 1] P).map (fun Q => Q.f [1, 2]) = (filterPops g [1, 3] P).map (fun Q => Q.f [1, 2]) ∧
    ((List.range 3).map fun a => ([3, 1] : List ℕ).contains (a + 1)) = [true, false, true] := by
  decide +kernel

/-! ## all ties together: every public function, as K runs it, preserves the total mass -/

/-- For each of the 17 public functions, through its generated row AND its generated loop structure (`applyRowL`, the model
    K compares with the code): proportions in the closed simplex, grids from 0 to 1 of the right lengths — the call returns
    (no guard fires) and the full trapezoid sum of the result equals that of the input. -/
theorem C06_fn_mass : ∀ p ∈ List.zip Gen.Admix.rows Gen.Admix.loopRows, ∀ (f : List ℚ) (grids : List (Array ℚ)) (P : Dens),
    shapesOk p.1 f grids P = true → Simplex f → (∀ m, m < grids.length → Grid01 (grids.getD m #[])) →
    ∃ Q, applyRowL p.1 p.2 f grids P = .ok Q ∧
      (p.1.isPulse = true → totalMass grids Q = totalMass grids P) ∧
      (p.1.isPulse = false → totalMass (grids.take p.1.d ++ [grids.getD p.1.d #[]]) Q = totalMass (grids.take p.1.d) P) := by
  intro p hp f grids P hsh hs hg
  have hr : p.1 ∈ Gen.Admix.rows := (List.of_mem_zip hp).1
  have hw := C06_wiring_grids p.1 hr
  have hfl : f.length = p.1.nf := by
    simp only [shapesOk, Bool.and_eq_true, beq_iff_eq] at hsh
    exact hsh.1.1.1.1.1.1
  have hgl : grids.length = if p.1.isPulse then p.1.d else p.1.d + 1 := by
    simp only [shapesOk, Bool.and_eq_true, beq_iff_eq] at hsh
    exact hsh.1.1.1.1.2
  have hguard := C06_simplex_accept p.1 hr f hfl hs
  obtain ⟨hpu, hco⟩ := C06_apply p.1 hr hw f grids P hsh hguard
  have hnd : p.1.nf + 1 = p.1.d := by
    simp only [rowGridsOk, Bool.and_eq_true, beq_iff_eq] at hw
    exact hw.1.2
  rw [C06_loops_apply p hp]
  cases hpul : p.1.isPulse with
  | true =>
    rw [hpul, if_pos rfl] at hgl
    have hdest : p.1.dest < p.1.d := by
      simp only [rowGridsOk, hpul, if_true, Bool.and_eq_true, beq_iff_eq, decide_eq_true_eq] at hw
      exact hw.2.1
    refine ⟨_, hpu hpul, fun _ => ?_, fun h => absurd h (by simp)⟩
    exact C06_pulse_mass grids p.1.dest f P hs (by omega) (by omega) hg
  | false =>
    rw [hpul] at hgl
    simp only [Bool.false_eq_true, if_false] at hgl
    refine ⟨_, hco hpul, fun h => absurd h (by simp), fun _ => ?_⟩
    have htl : (grids.take p.1.d).length = f.length + 1 := by rw [List.length_take]; omega
    apply C06_newpop_mass (grids.take p.1.d) (grids.getD p.1.d #[]) f P hs (hg p.1.d (by omega)) htl
    intro m hm
    have hm' : m < p.1.d := by rw [htl] at hm; omega
    have : (grids.take p.1.d).getD m #[] = grids.getD m #[] := by
      rw [List.getD_eq_getElem?_getD, List.getElem?_take_of_lt hm', ← List.getD_eq_getElem?_getD]
    rw [this]
    exact hg m (by omega)

example : let g : Array ℚ := #[0, 1/4, 1]
    let P : Dens := ⟨[3, 3], fun i => ((i.getD 0 0 + 2 * i.getD 1 0 + 1 : ℕ) : ℚ)⟩
    (findRow "phi_2D_admix_1_into_2").map (fun r => shapesOk r [1/3] [g, g] P) = some true ∧
    (findRow "phi_2D_to_3D_admix").map (fun r => shapesOk r [1/3] [g, g, g] P) = some true ∧
    (match applyByName "phi_2D_admix_1_into_2" [1/3] [g, g] P with | .ok Q => totalMass [g, g] Q | _ => 0) = 19 / 4 := by
  decide +kernel

/-! ## round 6: the density as an array object (memory layouts, in-place execution) -/

/-- OBLIGATION on the generated `Gen.Admix.memRows` (what the source does to the array object it is given): same 17 functions
    as `rows`, in the same order, then the six splitting / removing / reordering functions; every pulse is documented
    "in place", stores exactly once, into its own never re-bound parameter, by basic indexing, nothing through a name derived
    from it (`reshape`, `ravel`, `ascontiguousarray`, a slice ..), and returns that parameter; every other function is not
    documented in place and stores nothing into its argument.  Fails for a pulse that first makes its argument contiguous, that
    writes through a reshaped alias, that returns a copy, and for a constructor / removal that normalises its argument. -/
theorem C06_inplace :
    (Gen.Admix.memRows.take Gen.Admix.rows.length).map (fun m => (m.name, m.isPulse))
      = Gen.Admix.rows.map (fun r => (r.name, r.isPulse)) ∧
    (Gen.Admix.memRows.drop Gen.Admix.rows.length).map (·.name)
      = ["phi_1D_to_2D", "phi_2D_to_3D_split_1", "phi_2D_to_3D_split_2", "remove_pop", "filter_pops", "reorder_pops"] ∧
    ∀ m ∈ Gen.Admix.memRows, memOk m = true := by
  refine ⟨by decide, by decide, by decide⟩

/-- Stores `phi[idx] = val idx` through a view (offset, one stride per axis, any sign) whose entries live at distinct
    addresses: every stored entry reads back as the stored value, the other entries of the view and all memory outside the
    view keep their values — in whatever order the stores are made. -/
theorem C06_view_store (v : View) (hinj : v.InjOn) (val : Idx → ℚ) (l : List Idx) (hl : ∀ i ∈ l, i ∈ boxIdx v.shape) (b : Buf) :
    (∀ idx ∈ l, storeList v val l b (v.addr idx) = val idx) ∧
    (∀ idx ∈ boxIdx v.shape, idx ∉ l → storeList v val l b (v.addr idx) = b (v.addr idx)) ∧
    (∀ a, (∀ idx ∈ boxIdx v.shape, v.addr idx ≠ a) → storeList v val l b a = b a) :=
  storeList_spec v hinj val l hl b

/-- the hypothesis holds for the layouts the harness uses: the view `reorder_pops(.., [2,1])` returns of a C-contiguous 2×3
    array (shape 3×2, strides 1, 3), every second entry of a 7×5 array starting at (1,1), a view reversed along both axes -/
example : (⟨0, [1, 3], [3, 2]⟩ : View).InjOn ∧ (⟨6, [10, 2], [3, 2]⟩ : View).InjOn ∧ (⟨5, [-2, -1], [3, 2]⟩ : View).InjOn := by
  refine ⟨?_, ?_, ?_⟩ <;> (unfold View.InjOn; decide)

/-- …and a broadcast view (stride 0) is excluded -/
example : ¬ (⟨0, [0, 1], [2, 2]⟩ : View).InjOn := by
  unfold View.InjOn; decide

/-- For each of the 17 functions (generated row, loop row and memory row) on ANY injective strided view `v` of memory `b`,
    whenever the functional model `applyRowL` (the one of `C06_fn_mass`, `C06_loops_apply`, of all the conservation theorems)
    returns `Q` on the density the view stands for: a pulse leaves `Q` in the entries of the view, returns the view, and
    changes nothing else in memory; a constructor returns `Q` and leaves the memory as it was.  So the result does not depend
    on the memory layout, and the in-place promise holds for views as for contiguous arrays. -/
theorem C06_inplace_view : ∀ p ∈ List.zip Gen.Admix.rows Gen.Admix.loopRows, ∀ m ∈ Gen.Admix.memRows,
    m.name = p.1.name → m.isPulse = p.1.isPulse →
    ∀ (f : List ℚ) (grids : List (Array ℚ)) (b : Buf) (v : View), v.strides.length = v.shape.length → v.InjOn →
    ∀ Q : Dens, applyRowL p.1 p.2 f grids (readView b v) = .ok Q →
      (p.1.isPulse = true → ∃ b', applyInPlace p.1 p.2 m f grids b v = .ok b' (readView b' v) ∧
          (∀ idx ∈ boxIdx v.shape, b' (v.addr idx) = Q.f idx) ∧
          (∀ a, (∀ idx ∈ boxIdx v.shape, v.addr idx ≠ a) → b' a = b a)) ∧
      (p.1.isPulse = false → applyInPlace p.1 p.2 m f grids b v = .ok b Q) := by
  intro p hp m hm hn hpm f grids b v hs hinj Q hQ
  have hL := C06_loops.2 p hp
  have hmo := C06_inplace.2.2 m hm
  exact ⟨fun hpul => applyInPlace_pulse p.1 p.2 m hL hpul hn hpm hmo f grids b v hs hinj Q hQ,
    fun hpul => applyInPlace_new p.1 p.2 m hpul hn hpm hmo f grids b v hs Q hQ⟩

/-- instance: `phi_2D_admix_1_into_2` in place on the TRANSPOSED view of the memory 1..9 (what `reorder_pops(.., [2,1])`
    returns): the memory afterwards, read through the view, is what the function returns on the contiguous density, and its
    total mass is that of the input -/
example : (let g : Array ℚ := #[0, 1/4, 1]
    let b : Buf := fun a => ((a.toNat + 1 : ℕ) : ℚ)
    let v : View := ⟨0, [1, 3], [3, 3]⟩
    match applyInPlaceByName "phi_2D_admix_1_into_2" [1/3] [g, g] b v, applyByName "phi_2D_admix_1_into_2" [1/3] [g, g] (readView b v) with
     | .ok b' out, .ok Q => (boxIdx [3, 3]).all (fun idx => decide (b' (v.addr idx) = Q.f idx) && decide (out.f idx = Q.f idx)) &&
                            decide (totalMass [g, g] out = totalMass [g, g] (readView b v)) &&
                            decide (b' 9 = 10) && !decide (b' 1 = 2)
     | _, _ => false) = true := by
  decide +kernel

/-- Why ONE loop over `phi.reshape(-1, n)` is not the loop nest over the two spectator populations: a 2-D view `w` addressing
    the entries of a 3-D view row by row (`w[i*n1 + j, k] = v[i, j, k]`) exists only if the two leading strides can be merged,
    `s0 = n1·s1`.  For every other layout `reshape` hands back a copy and stores into it never reach the argument. -/
theorem C06_flatten_view (off s0 s1 s2 : ℤ) (n0 n1 n2 : ℕ) (h0 : 2 ≤ n0) (h1 : 2 ≤ n1) (h2 : 1 ≤ n2) (w : View)
    (hw : w.strides.length = 2)
    (h : ∀ i j k : ℕ, i < n0 → j < n1 → k < n2 →
      w.addr [i * n1 + j, k] = (⟨off, [s0, s1, s2], [n0, n1, n2]⟩ : View).addr [i, j, k]) :
    s0 = (n1 : ℤ) * s1 :=
  flatten_needs_merge off s0 s1 s2 n0 n1 n2 h0 h1 h2 w hw h

/-- satisfiable: a C-contiguous 2×3×2 array (strides 6, 2, 1) is addressed by the 6×2 view with strides 2, 1 … -/
example : ∀ i j k : ℕ, i < 2 → j < 3 → k < 2 →
    (⟨0, [2, 1], [6, 2]⟩ : View).addr [i * 3 + j, k] = (⟨0, [6, 2, 1], [2, 3, 2]⟩ : View).addr [i, j, k] := by
  intro i j k _ _ _
  simp only [View.addr, dotIS]
  push_cast
  ring

/-- … while the view `reorder_pops(.., [3,1,2])` returns of a C-contiguous 3×2×2 array (shape 2×3×2, strides 1, 4, 2) cannot
    be: 1 ≠ 3·4 -/
example : ¬ ∃ w : View, w.strides.length = 2 ∧ ∀ i j k : ℕ, i < 2 → j < 3 → k < 2 →
    w.addr [i * 3 + j, k] = (⟨0, [1, 4, 2], [2, 3, 2]⟩ : View).addr [i, j, k] := by
  rintro ⟨w, hw, h⟩
  have := C06_flatten_view 0 1 4 2 2 3 2 (by norm_num) (by norm_num) (by norm_num) w hw h
  norm_num at this

end DadiVerif
