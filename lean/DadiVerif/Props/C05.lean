import DadiVerif.Lemmas.FromPhiND
import DadiVerif.Lemmas.FromPhiAdmix
import DadiVerif.Lemmas.FromPhiInb
import DadiVerif.Lemmas.FromPhiConv
import DadiVerif.Lemmas.FromPhiIntegral
import DadiVerif.Lemmas.FromPhiMarg
import DadiVerif.Lemmas.FromPhiLimitTendsto
import DadiVerif.Lemmas.FromPhiTrapzND
/-!
# C05 — sampling a spectrum from φ is exact binomial integration on every code path

All statements are about the definitions the driver executes (Model/FromPhi.lean, with the closed formulas of
Generated/FromPhi.lean read off the current source) or about the pointwise definitions the tabulated versions are proved
equal to (`C05_fast_*`).  `scipy.special.betainc` at integer arguments is the parameter `betaI` (binomial tail): the
harness checks scipy against it.  Only numerical (not proved): the F → 0 limit of the inbreeding path, float round-off,
and the size of the trapezoid discretisation error between the direct and the semi-analytic path.
-/
namespace DadiVerif
open Finset Polynomial FromPhi Gen.FromPhi

/-! ## the incomplete-beta differences are exact integrals of the binomial sampling probability -/

/-- `betainc(d+1, n-d+1, ·)` (as the model evaluates it) is the value of a polynomial `I` with `I(0) = 0` and
    `I' = (n+1) · C(n,d) x^d (1-x)^(n-d)`; the sampling probability itself is Mathlib's Bernstein polynomial. -/
theorem C05_I_derivative (n d : ℕ) (hd : d ≤ n) :
    (∀ x : ℚ, betaI (beta1A d n).1 (beta1A d n).2 x = (Ipoly (d + 1) (n - d + 1)).eval x)
    ∧ derivative (Ipoly (d + 1) (n - d + 1)) = ((n + 1 : ℕ) : ℚ[X]) * bernsteinPolynomial ℚ n d
    ∧ (Ipoly (d + 1) (n - d + 1)).eval 0 = 0
    ∧ (∀ x : ℚ, bern n d x = (bernsteinPolynomial ℚ n d).eval x) := by
  refine ⟨fun x => by simp only [beta1A]; exact betaI_eq_eval _ _ x, ?_, Ipoly_eval_zero _ _, bern_eq_eval n d⟩
  have := Ipoly_derivative d (n - d)
  have e : d + (n - d) = n := by omega
  rw [e] at this
  exact this

example : betaI 2 3 (1/2) = 11/16 := by
  simp [betaI, sumRange, bern, FromPhi.choose, fact]; norm_num

/-- **exactness, one interval**: the k-th term of `_from_phi_1D_analytic(n, xx, phi)[d]` is `F(x_{k+1}) − F(x_k)` for a
    polynomial `F` whose derivative is the sampling probability times the linear piece through `(x_k, φ_k)` with the
    code's slope `s_k` — i.e. the exact integral of B_{n,d}·(linear interpolant) over the interval. -/
theorem C05_1D_exact (n d : ℕ) (hd : d ≤ n) (xc φ : ℕ → ℚ) (k : ℕ) :
    ∃ F : ℚ[X],
      derivative F = bernsteinPolynomial ℚ n d
          * (C (φ k) + C (s (φ k) (φ (k+1)) (xc k) (xc (k+1))) * (X - C (xc k)))
      ∧ entry1D n d xc φ k = F.eval (xc (k+1)) - F.eval (xc k) := by
  refine ⟨Fpoly n d (φ k - s (φ k) (φ (k+1)) (xc k) (xc (k+1)) * xc k) (s (φ k) (φ (k+1)) (xc k) (xc (k+1))), ?_, ?_⟩
  · rw [Fpoly_derivative n d hd]
    congr 1
    simp only [map_sub, map_mul]
    ring
  · rw [entry1D_eq_entryG, entryG_eq]

/-- the same as a Riemann integral over ℝ (fundamental theorem of calculus for polynomials): the k-th interval term is
    ∫_{x_k}^{x_{k+1}} C(n,d) t^d (1-t)^(n-d) · (φ_k + s_k (t − x_k)) dt -/
theorem C05_1D_integral (n d : ℕ) (hd : d ≤ n) (xc φ : ℕ → ℚ) (k : ℕ) :
    ((entry1D n d xc φ k : ℚ) : ℝ)
      = ∫ t in (xc k : ℝ)..(xc (k+1) : ℝ),
          (bernsteinPolynomial ℝ n d).eval t
            * ((φ k : ℝ) + ((s (φ k) (φ (k+1)) (xc k) (xc (k+1)) : ℚ) : ℝ) * (t - (xc k : ℝ))) := by
  rw [entry1D_eq_entryG, entryG_integral n d hd]
  congr 1
  funext t
  push_cast
  ring

/-- the linear piece of `C05_1D_exact` is the interpolant: it takes the values φ_k, φ_{k+1} at the two nodes
    (the guard the code needs: distinct nodes) -/
theorem C05_1D_interpolant (xc φ : ℕ → ℚ) (k : ℕ) (hk : xc (k+1) ≠ xc k) :
    (C (φ k) + C (s (φ k) (φ (k+1)) (xc k) (xc (k+1))) * (X - C (xc k)) : ℚ[X]).eval (xc k) = φ k
    ∧ (C (φ k) + C (s (φ k) (φ (k+1)) (xc k) (xc (k+1))) * (X - C (xc k)) : ℚ[X]).eval (xc (k+1)) = φ (k+1) := by
  have h : xc (k+1) - xc k ≠ 0 := sub_ne_zero.mpr hk
  constructor
  · simp
  · simp only [eval_add, eval_mul, eval_C, eval_sub, eval_X, s]
    field_simp
    ring

example : (1 : ℚ) ≠ 0 := one_ne_zero

/-- the whole 1-D spectrum entry is the sum of these exact interval integrals over the clamped grid -/
theorem C05_1D_sum (n N : ℕ) (x φ : ℕ → ℚ) (d : ℕ) :
    fromPhi1D n N x φ d = ∑ k ∈ range (N - 1), entry1D n d (fun k => clamp (x k)) φ k := by
  rw [fromPhi1D_def, sumRange_eq]

/-- the tabulated 1-D function run by the driver is the pointwise definition -/
theorem C05_fast_1D (n N : ℕ) (x φ : ℕ → ℚ) (d : ℕ) (hd : d ≤ n) :
    (fromPhi1DFast n N x φ).getD d 0 = fromPhi1D n N x φ d := fromPhi1DFast_getD n N x φ d hd

/-! ## linearity, mass, projection consistency in one dimension -/

theorem C05_linear (n N : ℕ) (x φ ψ : ℕ → ℚ) (a b : ℚ) (d : ℕ) :
    fromPhi1D n N x (fun k => a * φ k + b * ψ k) d = a * fromPhi1D n N x φ d + b * fromPhi1D n N x ψ d := by
  simp only [fromPhi1D_def, sumRange_eq, entry1D_eq_entryG, entryG_linear, Finset.sum_add_distrib, Finset.mul_sum]

/-- **mass**: the entries of the 1-D spectrum add up to the trapezoid mass of φ on the clamped grid -/
theorem C05_mass (n N : ℕ) (x φ : ℕ → ℚ)
    (hdist : ∀ k, k + 1 < N → clamp (x (k+1)) ≠ clamp (x k)) :
    ∑ d ∈ range (n+1), fromPhi1D n N x φ d = trapz N (fun k => clamp (x k)) φ := by
  simp only [fromPhi1D_def, sumRange_eq, entry1D_eq_entryG, trapz]
  rw [Finset.sum_comm]
  refine Finset.sum_congr rfl fun k hk => ?_
  have hk' : k < N - 1 := mem_range.mp hk
  exact entryG_sum_trapz n (fun k => clamp (x k)) φ k (hdist k (by omega))

example : ∀ k, k + 1 < 3 → clamp ((k + 1 : ℕ) / 2 : ℚ) ≠ clamp ((k : ℕ) / 2 : ℚ) := by
  intro k hk
  have : k = 0 ∨ k = 1 := by omega
  rcases this with rfl | rfl <;> simp [clamp, ratMin, ratMax] <;> norm_num

/-- **sample n, then project to m = sample m** (hypergeometric projection weights; every grid, every density) -/
theorem C05_project (m n N : ℕ) (hm : m ≤ n) (x φ : ℕ → ℚ) (j : ℕ) (hj : j ≤ m) :
    ∑ i ∈ range (n+1), hypW m n i j * fromPhi1D n N x φ i = fromPhi1D m N x φ j := by
  have hB : ∑ i ∈ range (n+1), C (hypW m n i j) * bernsteinPolynomial ℚ n i
      = ∑ j' ∈ range (m+1), C (if j' = j then (1 : ℚ) else 0) * bernsteinPolynomial ℚ m j' := by
    rw [bernstein_project m n j hm hj, Finset.sum_eq_single j]
    · simp
    · intro b _ hb; simp [hb]
    · intro hn; exact absurd (mem_range.mpr (by omega)) hn
  rw [transfer_fromPhi1D n m _ _ hB, Finset.sum_eq_single j]
  · simp
  · intro b _ hb; simp [hb]
  · intro hn; exact absurd (mem_range.mpr (by omega)) hn

/-- the one-step form used by `Spectrum.project` composed step by step: weights (n+1-i)/(n+1) and i/(n+1) -/
theorem C05_project_step (n N : ℕ) (x φ : ℕ → ℚ) (j : ℕ) (hj : j ≤ n) :
    hypW n (n+1) j j * fromPhi1D (n+1) N x φ j + hypW n (n+1) (j+1) j * fromPhi1D (n+1) N x φ (j+1)
      = fromPhi1D n N x φ j := by
  rw [← C05_project n (n+1) N (by omega) x φ j hj]
  symm
  apply Finset.sum_eq_add_of_mem (a := j) (b := j+1)
  · exact mem_range.mpr (by omega)
  · exact mem_range.mpr (by omega)
  · omega
  · intro i _ hi
    have : hypW n (n+1) i j = 0 := by
      unfold hypW
      split_ifs with h
      · have : 1 < i - j := by omega
        simp [Nat.choose_eq_zero_of_lt this]
      · rfl
    rw [this, zero_mul]

/-! ## d dimensions -/

theorem linalgOps_mem {ns : List ℕ} {grids : List (Array ℚ)} (hd : grids.length ≤ 5) {op : LineOp}
    (h : op ∈ linalgOps ns grids) :
    ∃ a, a < 5 ∧ a < grids.length ∧ op = analyticOp a (ns.getD a 0) (grids.getD a #[]).size (gridFn (grids.getD a #[])) := by
  unfold linalgOps at h
  obtain ⟨a, ha, rfl⟩ := List.mem_map.mp h
  have := List.mem_range.mp ha
  exact ⟨a, by omega, this, rfl⟩

theorem directOps_mem {het : String} {ns : List ℕ} {grids : List (Array ℚ)} {op : LineOp}
    (h : op ∈ directOps het ns grids) :
    ∃ a, a < grids.length ∧ op = directOp grids.length a (ns.getD a 0) (grids.getD a #[]).size (het == hetKey grids.length a)
      (gridFn (grids.getD a #[])) := by
  unfold directOps at h
  obtain ⟨a, ha, rfl⟩ := List.mem_map.mp h
  exact ⟨a, List.mem_range.mp ha, rfl⟩

theorem inbOps_mem {het : String} {ns : List ℕ} {grids : List (Array ℚ)} {Fs : List ℚ} {pls : List ℕ} {op : LineOp}
    (h : op ∈ inbOps het ns grids Fs pls) :
    ∃ a, a < grids.length ∧ op = inbOp grids.length a (ns.getD a 0) (pls.getD a 1) (grids.getD a #[]).size
      (inbFClamp (Fs.getD a 0)) (het == inbHetKey grids.length a) (gridFn (grids.getD a #[])) := by
  unfold inbOps at h
  obtain ⟨a, ha, rfl⟩ := List.mem_map.mp h
  exact ⟨a, List.mem_range.mp ha, rfl⟩

theorem linalgOpsFast_eq (ns : List ℕ) (grids : List (Array ℚ)) : linalgOpsFast ns grids = linalgOps ns grids := by
  simp only [linalgOpsFast, linalgOps, analyticOpFast_eq]

theorem directOpsFast_eq (het : String) (ns : List ℕ) (grids : List (Array ℚ)) :
    directOpsFast het ns grids = directOps het ns grids := by
  simp only [directOpsFast, directOps, directOpFast_eq]

theorem inbOpsFast_eq (het : String) (ns : List ℕ) (grids : List (Array ℚ)) (Fs : List ℚ) (pls : List ℕ) :
    inbOpsFast het ns grids Fs pls = inbOps het ns grids Fs pls := by
  simp only [inbOpsFast, inbOps, inbOpFast_eq]

theorem linalgOps_local (ns : List ℕ) (grids : List (Array ℚ)) (hd : grids.length ≤ 5) :
    ∀ op ∈ linalgOps ns grids, op.Local := by
  intro op h
  obtain ⟨a, ha, _, rfl⟩ := linalgOps_mem hd h
  exact analyticOp_local a _ _ ha _

theorem linalgOps_linear (ns : List ℕ) (grids : List (Array ℚ)) (hd : grids.length ≤ 5) :
    ∀ op ∈ linalgOps ns grids, op.Linear := by
  intro op h
  obtain ⟨a, ha, _, rfl⟩ := linalgOps_mem hd h
  exact analyticOp_linear a _ _ ha _

theorem directOps_local (het : String) (ns : List ℕ) (grids : List (Array ℚ)) : ∀ op ∈ directOps het ns grids, op.Local := by
  intro op h
  obtain ⟨a, _, rfl⟩ := directOps_mem h
  exact directOp_local _ _ _ _ _ _

theorem directOps_linear (het : String) (ns : List ℕ) (grids : List (Array ℚ)) : ∀ op ∈ directOps het ns grids, op.Linear := by
  intro op h
  obtain ⟨a, _, rfl⟩ := directOps_mem h
  exact directOp_linear _ _ _ _ _ _

theorem inbOps_local (het : String) (ns : List ℕ) (grids : List (Array ℚ)) (Fs : List ℚ) (pls : List ℕ) :
    ∀ op ∈ inbOps het ns grids Fs pls, op.Local := by
  intro op h
  obtain ⟨a, _, rfl⟩ := inbOps_mem h
  exact inbOp_local _ _ _ _ _ _ _ _

theorem inbOps_linear (het : String) (ns : List ℕ) (grids : List (Array ℚ)) (Fs : List ℚ) (pls : List ℕ) :
    ∀ op ∈ inbOps het ns grids Fs pls, op.Linear := by
  intro op h
  obtain ⟨a, _, rfl⟩ := inbOps_mem h
  exact inbOp_linear _ _ _ _ _ _ _ _

/-- **the arrays the driver computes are the pointwise definitions** (semi-analytic 2-D…5-D path) -/
theorem C05_fast_linalg (ns : List ℕ) (grids : List (Array ℚ)) (hd : grids.length ≤ 5) (T : ND)
    (hT : T.shape = (linalgOps ns grids).map (·.nIn)) (idx : List ℕ)
    (hidx : InBox ((linalgOps ns grids).map (·.nOut)) idx) :
    (sampleFast (linalgOpsFast ns grids) T).get idx = sampleND (linalgOps ns grids) T.get idx := by
  rw [linalgOpsFast_eq]
  exact sampleFast_get _ (linalgOps_local ns grids hd) T hT idx hidx

theorem C05_fast_direct (het : String) (ns : List ℕ) (grids : List (Array ℚ)) (T : ND)
    (hT : T.shape = (directOps het ns grids).map (·.nIn)) (idx : List ℕ)
    (hidx : InBox ((directOps het ns grids).map (·.nOut)) idx) :
    (sampleFast (directOpsFast het ns grids) T).get idx = sampleND (directOps het ns grids) T.get idx := by
  rw [directOpsFast_eq]
  exact sampleFast_get _ (directOps_local het ns grids) T hT idx hidx

theorem C05_fast_inbreeding (het : String) (ns : List ℕ) (grids : List (Array ℚ)) (Fs : List ℚ) (pls : List ℕ) (T : ND)
    (hT : T.shape = (inbOps het ns grids Fs pls).map (·.nIn)) (idx : List ℕ)
    (hidx : InBox ((inbOps het ns grids Fs pls).map (·.nOut)) idx) :
    (sampleFast (inbOpsFast het ns grids Fs pls) T).get idx = sampleND (inbOps het ns grids Fs pls) T.get idx := by
  rw [inbOpsFast_eq]
  exact sampleFast_get _ (inbOps_local het ns grids Fs pls) T hT idx hidx

/-- **every stage of the 2-D…5-D linear-algebra versions is the 1-D formula**: along axis a < 5 the generated slope, `c1`
    and scale factor reproduce the interval terms of `_from_phi_1D_analytic` (with `cached_dbeta` on the clamped grid);
    for a grid inside [0,1] the operator *is* `fromPhi1D`. -/
theorem C05_ND_stage (a n N : ℕ) (ha : a < 5) (x φ : ℕ → ℚ) (d : ℕ) (hx : ∀ k, clamp (x k) = x k) :
    (analyticOp a n N x).app φ d = fromPhi1D n N x φ d := by
  rw [analyticOp_app a n N ha, C05_1D_sum]
  have e : (fun k => clamp (x k)) = x := funext hx
  simp only [entry1D_eq_entryG, e]

/-- **d dimensions = iterated 1-D integration**: for grids inside [0,1] the list of operators the 2-D…5-D linear-algebra
    versions apply (last axis innermost, `sampleND`) is, axis by axis, the exact 1-D integration `fromPhi1D` of C05_1D_exact -/
theorem C05_ND_iterated (ns : List ℕ) (grids : List (Array ℚ)) (hd : grids.length ≤ 5)
    (hin : ∀ a, a < grids.length → ∀ k, clamp (gridFn (grids.getD a #[]) k) = gridFn (grids.getD a #[]) k) :
    linalgOps ns grids = (List.range grids.length).map fun a =>
      (⟨ns.getD a 0 + 1, (grids.getD a #[]).size,
        fromPhi1D (ns.getD a 0) (grids.getD a #[]).size (gridFn (grids.getD a #[]))⟩ : LineOp) := by
  unfold linalgOps
  apply List.map_congr_left
  intro a ha
  have ha' := List.mem_range.mp ha
  unfold analyticOp
  congr 1
  funext φ d
  exact C05_ND_stage a _ _ (by omega) _ φ d (hin a ha')

/-- linear in the density, every path, every dimension -/
theorem C05_ND_linear (ns : List ℕ) (grids : List (Array ℚ)) (hd : grids.length ≤ 5) (a b : ℚ) (φ ψ : List ℕ → ℚ)
    (idx : List ℕ) :
    sampleND (linalgOps ns grids) (fun js => a * φ js + b * ψ js) idx
      = a * sampleND (linalgOps ns grids) φ idx + b * sampleND (linalgOps ns grids) ψ idx :=
  sampleND_linear _ (linalgOps_linear ns grids hd) a b φ ψ idx

theorem C05_direct_linear (het : String) (ns : List ℕ) (grids : List (Array ℚ)) (a b : ℚ) (φ ψ : List ℕ → ℚ) (idx : List ℕ) :
    sampleND (directOps het ns grids) (fun js => a * φ js + b * ψ js) idx
      = a * sampleND (directOps het ns grids) φ idx + b * sampleND (directOps het ns grids) ψ idx :=
  sampleND_linear _ (directOps_linear het ns grids) a b φ ψ idx

theorem C05_inbreeding_linear (het : String) (ns : List ℕ) (grids : List (Array ℚ)) (Fs : List ℚ) (pls : List ℕ)
    (a b : ℚ) (φ ψ : List ℕ → ℚ) (idx : List ℕ) :
    sampleND (inbOps het ns grids Fs pls) (fun js => a * φ js + b * ψ js) idx
      = a * sampleND (inbOps het ns grids Fs pls) φ idx + b * sampleND (inbOps het ns grids Fs pls) ψ idx :=
  sampleND_linear _ (inbOps_linear het ns grids Fs pls) a b φ ψ idx

/-- grids inside [0,1] with distinct nodes (what `Numerics.default_grid` and every grid dadi builds satisfy) -/
def GridsOk (grids : List (Array ℚ)) : Prop :=
  ∀ a, a < grids.length →
    (∀ k, clamp (gridFn (grids.getD a #[]) k) = gridFn (grids.getD a #[]) k)
    ∧ (∀ k, k + 1 < (grids.getD a #[]).size → gridFn (grids.getD a #[]) (k+1) ≠ gridFn (grids.getD a #[]) k)

/-- **mass in d dimensions**: the total of the semi-analytic spectrum is the d-fold trapezoid mass of φ -/
theorem C05_ND_mass (ns : List ℕ) (grids : List (Array ℚ)) (hd : grids.length ≤ 5) (hg : GridsOk grids) (φ : List ℕ → ℚ) :
    boxSum ((linalgOps ns grids).map (·.nOut)) (sampleND (linalgOps ns grids) φ)
      = wSum ((List.range grids.length).map fun a =>
          ((grids.getD a #[]).size, tw (grids.getD a #[]).size (gridFn (grids.getD a #[])))) φ := by
  have h := sampleND_total (linalgOps ns grids)
    ((List.range grids.length).map fun a => tw (grids.getD a #[]).size (gridFn (grids.getD a #[])))
    (by simp [linalgOps]) ?_ φ
  · rw [h]
    congr 1
    simp only [linalgOps, List.map_map, List.zip_map']
    rfl
  · intro p hp
    simp only [linalgOps, List.zip_map', List.mem_map, List.mem_range] at hp
    obtain ⟨a, ha, rfl⟩ := hp
    exact analyticOp_mass a _ _ (by omega) _ (hg a ha).1 (hg a ha).2

/-- **mass of the direct path**: Σ entries = d-fold trapezoid of (ascertainment multiplier · φ) -/
theorem C05_direct_mass (het : String) (ns : List ℕ) (grids : List (Array ℚ)) (hd1 : 1 ≤ grids.length) (hd : grids.length ≤ 4)
    (φ : List ℕ → ℚ) :
    boxSum ((directOps het ns grids).map (·.nOut)) (sampleND (directOps het ns grids) φ)
      = wSum ((List.range grids.length).map fun a =>
          ((grids.getD a #[]).size, fun k => tw (grids.getD a #[]).size (gridFn (grids.getD a #[])) k
              * hetMult (het == hetKey grids.length a) (gridFn (grids.getD a #[]) k))) φ := by
  have h := sampleND_total (directOps het ns grids)
    ((List.range grids.length).map fun a => fun k => tw (grids.getD a #[]).size (gridFn (grids.getD a #[])) k
              * hetMult (het == hetKey grids.length a) (gridFn (grids.getD a #[]) k))
    (by simp [directOps]) ?_ φ
  · rw [h]
    congr 1
    simp only [directOps, List.map_map, List.zip_map']
    rfl
  · intro p hp
    simp only [directOps, List.zip_map', List.mem_map, List.mem_range] at hp
    obtain ⟨a, ha, rfl⟩ := hp
    exact directOp_mass _ a _ _ ⟨hd1, hd, ha⟩ _ _

/-- **ascertainment weights**: the direct path with `het_ascertained` on an axis is the plain direct path applied to
    x(1-x)·φ along that axis (1-D operator form) -/
theorem C05_het_asc (dim a n N : ℕ) (h : ValidAxis dim a) (x φ : ℕ → ℚ) (i : ℕ) :
    (directOp dim a n N true x).app φ i = (directOp dim a n N false x).app (fun k => x k * (1 - x k) * φ k) i := by
  rw [directOp_app, directOp_app]
  refine trapz_congr N x _ _ fun k _ => ?_
  simp only [directWeight_eq dim a h, hetMult]
  simp
  ring

/-- **sample n then project axis a to m = sample m on that axis**, d dimensions, semi-analytic path -/
theorem C05_ND_project (ns : List ℕ) (grids : List (Array ℚ)) (hd : grids.length ≤ 5) (a m : ℕ) (ha : a < grids.length)
    (hm : m ≤ ns.getD a 0) (φ : List ℕ → ℚ) (idx : List ℕ) (hidx : a < idx.length) (hj : idx.getD a 0 ≤ m) :
    sampleND ((linalgOps ns grids).set a (analyticOp a m (grids.getD a #[]).size (gridFn (grids.getD a #[])))) φ idx
      = ∑ i ∈ range (ns.getD a 0 + 1), hypW m (ns.getD a 0) i (idx.getD a 0) * sampleND (linalgOps ns grids) φ (idx.set a i) := by
  have hget : (linalgOps ns grids)[a]? = some (analyticOp a (ns.getD a 0) (grids.getD a #[]).size (gridFn (grids.getD a #[]))) := by
    simp [linalgOps, ha]
  -- the relation between the two operators holds for the output index in question; outside it we do not care, so we
  -- use weights that vanish there
  let c : ℕ → ℕ → ℚ := fun i j => if j ≤ m then hypW m (ns.getD a 0) i j else 0
  let op' : LineOp := ⟨m + 1, (grids.getD a #[]).size,
    fun f j => if j ≤ m then (analyticOp a m (grids.getD a #[]).size (gridFn (grids.getD a #[]))).app f j else 0⟩
  have hrel : ∀ f j, op'.app f j
      = ∑ i ∈ range (analyticOp a (ns.getD a 0) (grids.getD a #[]).size (gridFn (grids.getD a #[]))).nOut,
          c i j * (analyticOp a (ns.getD a 0) (grids.getD a #[]).size (gridFn (grids.getD a #[]))).app f i := by
    intro f j
    show (if j ≤ m then _ else 0) = ∑ i ∈ range (ns.getD a 0 + 1), c i j * _
    by_cases hjm : j ≤ m
    · simp only [hjm, if_true, c]
      exact analyticOp_project a m _ _ (by omega) hm _ f j hjm
    · simp [hjm, c]
  have key := sampleND_set (linalgOps ns grids) (linalgOps_linear ns grids hd) a _ op' c hget hrel φ idx hidx
  have hc : ∀ i, c i (idx.getD a 0) = hypW m (ns.getD a 0) i (idx.getD a 0) := fun i => by
    show (if idx.getD a 0 ≤ m then _ else 0) = _
    rw [if_pos hj]
  simp only [hc] at key
  refine Eq.trans ?_ key
  -- op' and the m-operator agree at the output index idx_a ≤ m: compare the two `sampleND`s through `sampleND_set` again
  have hrel1 : ∀ f j, op'.app f j = ∑ i ∈ range (m + 1), (if i = j ∧ j ≤ m then (1 : ℚ) else 0)
      * (analyticOp a m (grids.getD a #[]).size (gridFn (grids.getD a #[]))).app f i := by
    intro f j
    show (if j ≤ m then _ else 0) = _
    by_cases hjm : j ≤ m
    · rw [Finset.sum_eq_single j]
      · simp [hjm]
      · intro b _ hb; simp [hb]
      · intro hn; exact absurd (mem_range.mpr (by omega)) hn
    · simp [hjm]
  have hlin2 : ∀ o ∈ (linalgOps ns grids).set a (analyticOp a m (grids.getD a #[]).size (gridFn (grids.getD a #[]))), o.Linear := by
    intro o ho
    rcases List.mem_or_eq_of_mem_set ho with h | h
    · exact linalgOps_linear ns grids hd o h
    · rw [h]; exact analyticOp_linear a _ _ (by omega) _
  have hget2 : ((linalgOps ns grids).set a (analyticOp a m (grids.getD a #[]).size (gridFn (grids.getD a #[]))))[a]?
      = some (analyticOp a m (grids.getD a #[]).size (gridFn (grids.getD a #[]))) := by
    rw [List.getElem?_set_self]
    simp [linalgOps, ha]
  have key2 := sampleND_set _ hlin2 a _ op' _ hget2 hrel1 φ idx hidx
  rw [List.set_set] at key2
  rw [key2]
  show _ = ∑ i ∈ range (m + 1), _
  rw [Finset.sum_eq_single (idx.getD a 0)]
  · rw [if_pos ⟨rfl, hj⟩, one_mul]
    congr 1
    rw [← List.getElem_eq_getD (h := hidx) 0]
    exact (List.set_getElem_self hidx).symm
  · intro b _ hb
    rw [if_neg (fun h => hb h.1), zero_mul]
  · intro hn; exact absurd (mem_range.mpr (by omega)) hn

/-- **marginalise a population before or after sampling**: summing the spectrum over axis a equals sampling (with the
    remaining axes) the density integrated by the trapezoid rule over axis a -/
theorem C05_ND_marginal (ns : List ℕ) (grids : List (Array ℚ)) (hd : grids.length ≤ 5) (hg : GridsOk grids) (a : ℕ)
    (ha : a < grids.length) (φ : List ℕ → ℚ) (idx : List ℕ) (hidx : a < idx.length) :
    ∑ i ∈ range (ns.getD a 0 + 1), sampleND (linalgOps ns grids) φ (idx.set a i)
      = sampleND ((linalgOps ns grids).eraseIdx a)
          (fun js => trapz (grids.getD a #[]).size (gridFn (grids.getD a #[])) (fun k => φ (js.insertIdx a k)))
          (idx.eraseIdx a) := by
  have hget : (linalgOps ns grids)[a]? = some (analyticOp a (ns.getD a 0) (grids.getD a #[]).size (gridFn (grids.getD a #[]))) := by
    simp [linalgOps, ha]
  have hmass := analyticOp_mass a (ns.getD a 0) _ (by omega) _ (hg a ha).1 (hg a ha).2
  have key := sampleND_marginal (linalgOps ns grids) (linalgOps_linear ns grids hd) a _ _ hget hmass φ idx hidx
  simp only [trapz_eq_nodes]
  exact key

/-! ## sampling probabilities sum to one; the admixture-proportion path -/

/-- binomial sampling probabilities sum to one at every (also admixed, also out-of-range) frequency -/
theorem C05_binom_sum (n : ℕ) (y : ℚ) : ∑ i ∈ range (n+1), bern n i y = 1 := bern_sum n y

/-- **admix_props = identity is the direct path** (2, 3 and 4 dimensions; `propsFn none` is the identity the 3-D/4-D
    functions use for `admix_props=None`): the nested trapezoid rule of the product of binomial probabilities at the
    admixed frequencies, with the generated linear forms `admixX`, collapses to the per-axis trapezoid operators. -/
theorem C05_admix_identity (ns : List ℕ) (g0 g1 g2 g3 : Array ℚ) (φ : List ℕ → ℚ) (idx : List ℕ) :
    admixND 2 ns ([g0, g1].map fun g => (g.size, gridFn g)) (propsFn none 2) φ idx
        = sampleND (directOps "" ns [g0, g1]) φ idx
    ∧ admixND 3 ns ([g0, g1, g2].map fun g => (g.size, gridFn g)) (propsFn none 3) φ idx
        = sampleND (directOps "" ns [g0, g1, g2]) φ idx
    ∧ admixND 4 ns ([g0, g1, g2, g3].map fun g => (g.size, gridFn g)) (propsFn none 4) φ idx
        = sampleND (directOps "" ns [g0, g1, g2, g3]) φ idx :=
  ⟨admix_identity_two ns g0 g1 φ idx, admix_identity_three ns g0 g1 g2 φ idx, admix_identity_four ns g0 g1 g2 g3 φ idx⟩

/-- **admixed sampling probabilities sum to one**: whatever the proportion matrix `p` (rows need not even sum to one), the
    total of the admix-path spectrum is the d-fold trapezoid mass of φ -/
theorem C05_admix_mass (n0 n1 n2 n3 N0 N1 N2 N3 : ℕ) (x0 x1 x2 x3 : ℕ → ℚ) (p : ℕ → ℕ → ℚ) (φ : List ℕ → ℚ) :
    boxSum [n0 + 1, n1 + 1] (admixND 2 [n0, n1] [(N0, x0), (N1, x1)] p φ) = trapzND [(N0, x0), (N1, x1)] φ
    ∧ boxSum [n0 + 1, n1 + 1, n2 + 1] (admixND 3 [n0, n1, n2] [(N0, x0), (N1, x1), (N2, x2)] p φ)
        = trapzND [(N0, x0), (N1, x1), (N2, x2)] φ
    ∧ boxSum [n0 + 1, n1 + 1, n2 + 1, n3 + 1] (admixND 4 [n0, n1, n2, n3] [(N0, x0), (N1, x1), (N2, x2), (N3, x3)] p φ)
        = trapzND [(N0, x0), (N1, x1), (N2, x2), (N3, x3)] φ :=
  ⟨admix_mass_two n0 n1 N0 N1 x0 x1 p φ, admix_mass_three n0 n1 n2 N0 N1 N2 x0 x1 x2 p φ,
   admix_mass_four n0 n1 n2 n3 N0 N1 N2 N3 x0 x1 x2 x3 p φ⟩

/-! ## inbreeding -/

/-- **the beta-binomial sampling probabilities of one individual sum to one**, every ploidy P, every a + b > 0
    (`betaBinom P i a b` = exp(`BetaBinomln(i, P, a, b)`): rising-factorial form of C(P,i)·B(i+a, P−i+b)/B(a,b)) -/
theorem C05_betabinom_sum (P : ℕ) (a b : ℚ) (hab : 0 < a + b) : ∑ i ∈ range (P+1), betaBinom P i a b = 1 :=
  betaBinom_sum P a b hab

example : (0 : ℚ) < 1/3 + 5/3 := by norm_num

/-- the parameters the code passes satisfy the hypothesis: alpha + beta = (1−F)/F > 0 at interior grid points for 0 < F < 1 -/
theorem C05_betabinom_params (x F : ℚ) (hF0 : 0 < F) (hF1 : F < 1) :
    0 < inbAlphaMid 1 0 x F + inbBetaMid 1 0 x F := by
  simp only [inbAlphaMid, inbBetaMid]
  have h : 0 < (1 - F) / F := div_pos (by linarith) hF0
  have e : x * ((1 - F) / F) + (1 - x) * ((1 - F) / F) = (1 - F) / F := by ring
  rw [e]; exact h

/-- **the convolved sampling probabilities sum to one**: Σ_i `BetaBinomConvolution(i, n, a, b, ploidy=P)` = 1 for every
    number of individuals n, ploidy P and a + b > 0.  (The partitions `Numerics.part` lists are exactly the sorted vectors;
    with the multinomial coefficients of their value counts the sum is the multinomial expansion of (Σ_v BB(v))^n.) -/
theorem C05_conv_sum (n P : ℕ) (a b : ℚ) (hab : 0 < a + b) :
    ∑ i ∈ range (P * n + 1), betaBinomConv i n a b P = 1 := betaBinomConv_sum n P a b hab

example : betaBinomConv 1 1 (1/2) (1/2) 2 = 1/4 := by
  simp [betaBinomConv, part, convTerm, FromPhi.multinomial, fact, listProd, betaBinom, FromPhi.choose, rising, sumL, List.range,
    List.range.loop, List.range']
  norm_num

/-- `part` lists all and only the non-decreasing bounded vectors of the given length and sum, each once -/
theorem C05_part (n x lo hi : ℕ) (l : List ℕ) :
    (l ∈ part n x lo hi ↔ l.length = n ∧ l.sum = x ∧ (∀ v ∈ l, lo ≤ v ∧ v ≤ hi) ∧ l.Pairwise (· ≤ ·))
    ∧ (part n x lo hi).Nodup := ⟨mem_part n x lo hi l, part_nodup n x lo hi⟩

theorem inbFClamp_bounds (F : ℚ) (hF : 0 < F) : 0 < inbFClamp F ∧ inbFClamp F < 1 := by
  unfold inbFClamp ratMin
  split_ifs with h
  · exact ⟨hF, by linarith [show (1 : ℚ) - 1 / 10000000000 < 1 by norm_num]⟩
  · constructor <;> norm_num

/-- **inbred sampling probabilities sum to one, so the inbreeding path conserves the trapezoid mass**: for 1–3 populations,
    every ploidy P_a > 0 dividing the sample size, every F_a > 0 (clamped below 1 as the code does), the total of the
    spectrum is the d-fold trapezoid mass of (ascertainment multiplier · φ). -/
theorem C05_inbreeding_mass (het : String) (ns : List ℕ) (grids : List (Array ℚ)) (Fs : List ℚ) (pls : List ℕ)
    (hd1 : 1 ≤ grids.length) (hd : grids.length ≤ 3)
    (hF : ∀ a, a < grids.length → 0 < Fs.getD a 0)
    (hP : ∀ a, a < grids.length → 0 < pls.getD a 1 ∧ pls.getD a 1 ∣ ns.getD a 0) (φ : List ℕ → ℚ) :
    boxSum ((inbOps het ns grids Fs pls).map (·.nOut)) (sampleND (inbOps het ns grids Fs pls) φ)
      = wSum ((List.range grids.length).map fun a =>
          ((grids.getD a #[]).size, fun k => tw (grids.getD a #[]).size (gridFn (grids.getD a #[])) k
              * hetMult (het == inbHetKey grids.length a) (gridFn (grids.getD a #[]) k))) φ := by
  have h := sampleND_total (inbOps het ns grids Fs pls)
    ((List.range grids.length).map fun a => fun k => tw (grids.getD a #[]).size (gridFn (grids.getD a #[])) k
              * hetMult (het == inbHetKey grids.length a) (gridFn (grids.getD a #[]) k))
    (by simp [inbOps]) ?_ φ
  · rw [h]
    congr 1
    simp only [inbOps, List.map_map, List.zip_map']
    rfl
  · intro p hp
    simp only [inbOps, List.zip_map', List.mem_map, List.mem_range] at hp
    obtain ⟨a, ha, rfl⟩ := hp
    obtain ⟨hPpos, m, hm⟩ := hP a ha
    obtain ⟨hF0, hF1⟩ := inbFClamp_bounds _ (hF a ha)
    have := inbOp_mass grids.length a ⟨hd1, hd, ha⟩ m (pls.getD a 1) (grids.getD a #[]).size _ hF0 hF1
      (het == inbHetKey grids.length a) (gridFn (grids.getD a #[])) hPpos
    rw [← hm] at this
    exact this

/-! ## marginalising several populations, listed in any order (`Spectrum.marginalize`) -/

/-- the order in which `marginalize(over)` sums the axes out — **read off the source** (`Gen.FromPhi.margSumOrder`) — is a
    permutation of `over` in descending order, and the labels are deleted in the same order.  (Descending matters: every sum
    renumbers the axes behind it.) -/
theorem C05_marginalize_order (over : List ℕ) :
    (margSumOrder over).Perm over ∧ Desc (margSumOrder over) ∧ margIdsOrder over = margSumOrder over := by
  refine ⟨?_, ?_, rfl⟩
  · exact (List.reverse_perm _).trans (sortNat_perm over)
  · exact sortNat_reverse_desc over

/-- for every listing of distinct populations of a d-population spectrum the loop is a valid sequence of axis numbers -/
theorem C05_marginalize_valid (over : List ℕ) (d : ℕ) (hnd : over.Nodup) (hov : ∀ a ∈ over, a < d) :
    ValidSeq (margSumOrder over) d := by
  obtain ⟨hp, hdesc, _⟩ := C05_marginalize_order over
  exact validSeq_of_desc _ d (desc_nodup_strict hdesc (hp.nodup_iff.mpr hnd)) (fun a ha => hov a (hp.mem_iff.mp ha))

example : ValidSeq (margSumOrder [1, 3, 0]) 4 := C05_marginalize_valid [1, 3, 0] 4 (by decide) (by decide)

/-- **the result does not depend on the order in which the populations are listed** -/
theorem C05_marginalize_perm (over over' : List ℕ) (h : over.Perm over') (T : ND) :
    marginalize over T = marginalize over' T := by
  obtain ⟨hp, hdesc, hids⟩ := C05_marginalize_order over
  obtain ⟨hp', hdesc', hids'⟩ := C05_marginalize_order over'
  have e : margSumOrder over = margSumOrder over' := desc_eq_of_perm ((hp.trans h).trans hp'.symm) hdesc hdesc'
  unfold marginalize
  rw [hids, hids', e]

example : ([2, 0] : List ℕ).Perm [0, 2] := by decide

/-- node weights of the trapezoid rule on every axis -/
def gridWeights (grids : List (Array ℚ)) : List (ℕ → ℚ) :=
  (List.range grids.length).map fun a => tw (grids.getD a #[]).size (gridFn (grids.getD a #[]))

/-- **marginalising after sampling = sampling the marginalised density, for any set of populations listed in any order**
    (semi-analytic path, 2–5 dimensions): `marginalize(over)` of the array of the sampled spectrum succeeds, removes the same
    positions from the labels and from the axes, and every entry of the result is the spectrum sampled (with the operators
    of the populations left) from the density trapezoid-integrated over the removed axes. -/
theorem C05_marginalize (ns : List ℕ) (grids : List (Array ℚ)) (hd : grids.length ≤ 5) (hg : GridsOk grids)
    (over : List ℕ) (hnd : over.Nodup) (hov : ∀ a ∈ over, a < grids.length) (φ : List ℕ → ℚ) (T : ND)
    (hTs : T.shape = (linalgOps ns grids).map (·.nOut))
    (hT : ∀ idx, InBox T.shape idx → T.get idx = sampleND (linalgOps ns grids) φ idx) :
    ∃ R, marginalize over T = .ok (eraseAll (margSumOrder over) (List.range grids.length), R)
      ∧ R.shape = eraseAll (margSumOrder over) T.shape
      ∧ ∀ jdx, InBox R.shape jdx →
          R.get jdx = sampleND (eraseAll (margSumOrder over) (linalgOps ns grids))
            (margPhi (margSumOrder over) (((linalgOps ns grids).map (·.nIn)).zip (gridWeights grids)) φ) jdx := by
  have hl : (linalgOps ns grids).length = grids.length := by simp [linalgOps]
  have hm : ∀ p ∈ (linalgOps ns grids).zip (gridWeights grids), p.1.Mass p.2 := by
    intro p hp
    simp only [linalgOps, gridWeights, List.zip_map', List.mem_map, List.mem_range] at hp
    obtain ⟨a, ha, rfl⟩ := hp
    exact analyticOp_mass a _ _ (by omega) _ (hg a ha).1 (hg a ha).2
  have h := marginalize_sampled (linalgOps ns grids) (gridWeights grids) (linalgOps_linear ns grids hd)
    (by simp [linalgOps, gridWeights]) hm over (by rw [hl]; exact C05_marginalize_valid over _ hnd hov)
    (C05_marginalize_order over).2.2 φ T hTs hT
  rw [hl] at h
  exact h

/-- the hypotheses of `C05_marginalize` are satisfiable: two populations on a three-point grid, the second one listed -/
example : GridsOk [#[0, 1/2, 1], #[0, 1/2, 1]] ∧ ([1] : List ℕ).Nodup ∧ ∀ a ∈ ([1] : List ℕ), a < 2 := by
  refine ⟨?_, by decide, by decide⟩
  intro a ha
  have : a = 0 ∨ a = 1 := by simp at ha; omega
  have e : ∀ b : ℕ, b = 0 ∨ b = 1 → [#[(0 : ℚ), 1/2, 1], #[0, 1/2, 1]].getD b #[] = #[0, 1/2, 1] := by
    intro b hb; rcases hb with rfl | rfl <;> rfl
  rw [e a this]
  constructor
  · intro k
    rcases k with _ | _ | _ | k <;> simp [gridFn, clamp, ratMin, ratMax]
    norm_num
  · intro k hk
    have hk' : k = 0 ∨ k = 1 := by
      have : k + 1 < 3 := hk
      omega
    rcases hk' with rfl | rfl <;> simp [gridFn]

/-- the same on the direct (trapezoid) path, with or without ascertainment: the removed axes are integrated with the
    trapezoid weights times the ascertainment multiplier x(1−x) of the ascertained population -/
theorem C05_marginalize_direct (het : String) (ns : List ℕ) (grids : List (Array ℚ)) (hd1 : 1 ≤ grids.length) (hd : grids.length ≤ 4)
    (over : List ℕ) (hnd : over.Nodup) (hov : ∀ a ∈ over, a < grids.length) (φ : List ℕ → ℚ) (T : ND)
    (hTs : T.shape = (directOps het ns grids).map (·.nOut))
    (hT : ∀ idx, InBox T.shape idx → T.get idx = sampleND (directOps het ns grids) φ idx) :
    ∃ R, marginalize over T = .ok (eraseAll (margSumOrder over) (List.range grids.length), R)
      ∧ R.shape = eraseAll (margSumOrder over) T.shape
      ∧ ∀ jdx, InBox R.shape jdx →
          R.get jdx = sampleND (eraseAll (margSumOrder over) (directOps het ns grids))
            (margPhi (margSumOrder over) (((directOps het ns grids).map (·.nIn)).zip
              ((List.range grids.length).map fun a => fun k => tw (grids.getD a #[]).size (gridFn (grids.getD a #[])) k
                * hetMult (het == hetKey grids.length a) (gridFn (grids.getD a #[]) k))) φ) jdx := by
  have hl : (directOps het ns grids).length = grids.length := by simp [directOps]
  have hlin : ∀ o ∈ directOps het ns grids, o.Linear := by
    intro o ho
    simp only [directOps, List.mem_map, List.mem_range] at ho
    obtain ⟨a, _, rfl⟩ := ho
    exact directOp_linear _ _ _ _ _ _
  have hm : ∀ p ∈ (directOps het ns grids).zip ((List.range grids.length).map fun a => fun k =>
      tw (grids.getD a #[]).size (gridFn (grids.getD a #[])) k * hetMult (het == hetKey grids.length a) (gridFn (grids.getD a #[]) k)),
      p.1.Mass p.2 := by
    intro p hp
    simp only [directOps, List.zip_map', List.mem_map, List.mem_range] at hp
    obtain ⟨a, ha, rfl⟩ := hp
    exact directOp_mass _ a _ _ ⟨hd1, hd, ha⟩ _ _
  have h := marginalize_sampled (directOps het ns grids) _ hlin (by simp [directOps]) hm over
    (by rw [hl]; exact C05_marginalize_valid over _ hnd hov) (C05_marginalize_order over).2.2 φ T hTs hT
  rw [hl] at h
  exact h

/-! ## Round 5 — the inbreeding path as F → 0⁺, the delegation test, which copy of the grid is read -/

/-- **the delegation test of `from_phi_inbreeding` — read off the source — holds iff ALL inbreeding coefficients are 0** -/
theorem C05_inb_delegates (Fs : List ℚ) : inbDelegates Fs = true ↔ ∀ F ∈ Fs, F = 0 := by
  simp [inbDelegates]

example : inbDelegates [0, (2 : ℚ) / 5] = false ∧ inbDelegates [0, 0, 0] = true := by
  constructor <;> simp [inbDelegates]

/-- **`from_phi_inbreeding` hands the call to plain `from_phi` (same options) iff all F are 0**; with at least one F ≠ 0 —
    also when other populations have F exactly 0 — the inbreeding functions integrate -/
theorem C05_inb_dispatch (het : String) (force : Bool) (ns : List ℕ) (grids : List (Array ℚ)) (p : Option ND) (Fs : List ℚ)
    (pls : List ℕ) (T : ND) :
    ((∀ F ∈ Fs, F = 0) → fromPhiInb het force ns grids p Fs pls T = fromPhi het force ns grids p T)
    ∧ ((∃ F ∈ Fs, F ≠ 0) → fromPhiInb het force ns grids p Fs pls T = fromPhiInbMain het ns grids p Fs pls T) := by
  constructor
  · intro h
    unfold fromPhiInb
    rw [if_pos ((C05_inb_delegates Fs).mpr h)]
  · rintro ⟨F, hF, hne⟩
    unfold fromPhiInb
    have : ¬ inbDelegates Fs = true := fun hd => hne ((C05_inb_delegates Fs).mp hd F hF)
    rw [if_neg this]

/-- **a population with F = 0 among inbred ones is sampled binomially**: on such an axis the operator of the inbreeding path
    (the source's `F == 0` branch) is the operator of the direct path, ascertainment included -/
theorem C05_inbreeding_zero_axis (dim a : ℕ) (h : ValidInbAxis dim a) (n P N : ℕ) (het : Bool) (x : ℕ → ℚ) (φ : ℕ → ℚ) (i : ℕ) :
    (inbOp dim a n P N 0 het x).app φ i = (directOp dim a n N het x).app φ i := by
  have hv : ValidAxis dim a := ⟨h.1, by have := h.2.1; omega, h.2.2⟩
  rw [inbOp_app, directOp_app]
  refine trapz_congr N x _ _ fun k _ => ?_
  rw [inbWeight_zero dim a h, directWeight_eq dim a hv]

example : ValidInbAxis 2 1 := ⟨by omega, by omega, by omega⟩

/-- **F → 0⁺, one individual** (`exp(BetaBinomln)` with the generated parameters α = x(1−F)/F, β = (1−x)(1−F)/F): the
    beta-binomial probability differs from the binomial probability C(P,i)x^i(1−x)^(P−i) by at most C(P,i)·P²·F/(1−F) -/
theorem C05_betabinom_limit (P i : ℕ) (hi : i ≤ P) (x F : ℚ) (hx0 : 0 ≤ x) (hx1 : x ≤ 1) (hF0 : 0 < F) (hF1 : F < 1) :
    |betaBinom P i (inbAlphaMid 1 0 x F) (inbBetaMid 1 0 x F) - bern P i x| ≤ (P.choose i : ℚ) * ((P : ℚ) * P) * (F / (1 - F)) := by
  have hc : 0 < (1 - F) / F := div_pos (by linarith) hF0
  have h := betaBinom_sub_bern P i hi x ((1 - F) / F) hx0 hx1 hc
  simp only [inbAlphaMid, inbBetaMid]
  refine h.trans (le_of_eq ?_)
  have : (1 : ℚ) - F ≠ 0 := by linarith
  field_simp

example : (0 : ℚ) ≤ 1/3 ∧ (1/3 : ℚ) ≤ 1 ∧ (0 : ℚ) < 1/100 ∧ (1/100 : ℚ) < 1 := by norm_num

/-- **the convolution of m binomial(P, x) laws — summed over `Numerics.part` with multinomial coefficients, as
    `BetaBinomConvolution` does — is the binomial(P·m, x) law** (every ploidy, every number of individuals) -/
theorem C05_conv_binom (m P i : ℕ) (x : ℚ) :
    sumL ((part m i 0 P).map (convTerm P (fun v => bern P v x))) = bern (P * m) i x := conv_binom m P i x

/-- **F → 0⁺ through the convolution** (`BetaBinomConvolution(i, m, α, β, ploidy=P)`, every ploidy P and every number m of
    individuals): the convolved probability differs from the binomial(P·m, x) probability of the direct path by at most
    `inbLimitConst m P`·F/(1−F), `inbLimitConst m P` = (P+1)^m·m·2^P·P² -/
theorem C05_conv_limit (m P i : ℕ) (x F : ℚ) (hx0 : 0 ≤ x) (hx1 : x ≤ 1) (hF0 : 0 < F) (hF1 : F < 1) :
    |betaBinomConv i m (inbAlphaMid 1 0 x F) (inbBetaMid 1 0 x F) P - bern (P * m) i x| ≤ inbLimitConst m P * (F / (1 - F)) := by
  have hc : 0 < (1 - F) / F := div_pos (by linarith) hF0
  have h := betaBinomConv_sub_bern m P i x ((1 - F) / F) hx0 hx1 hc
  simp only [inbAlphaMid, inbBetaMid]
  refine h.trans (le_of_eq ?_)
  have : (1 : ℚ) - F ≠ 0 := by linarith
  field_simp

/-- **F → 0⁺, the sampling factor of `_from_phi_{1,2,3}D_direct_inbreeding` at a grid node** (any axis, ascertained or not,
    sample size P·m): it differs from (binomial factor at the node) × (ascertainment multiplier) by at most
    `inbLimitConst m P`·F/(1−F), where at the first / last node the code has replaced the frequency by 1e-20 / 1 − 1e-20
    (`inbXeff`, read off the generated end-point parameters) -/
theorem C05_inbreeding_factor_limit (dim a : ℕ) (h : ValidInbAxis dim a) (m P N : ℕ) (F : ℚ) (hF0 : 0 < F) (hF1 : F < 1)
    (het : Bool) (x : ℕ → ℚ) (k i : ℕ) (hP : 0 < P) (hx : 0 ≤ x k ∧ x k ≤ 1) :
    |inbWeight dim a (P * m) P N F het x k i - bern (P * m) i (inbXeff N x k) * hetMult het (x k)|
      ≤ inbLimitConst m P * (F / (1 - F)) :=
  inbWeight_sub_limit dim a h m P N F hF0 hF1 het x k i hP hx

/-- the same as a limit: the factor tends to the binomial factor as F → 0⁺ (`Filter.Tendsto` in ℚ) -/
theorem C05_inbreeding_factor_tendsto (dim a : ℕ) (h : ValidInbAxis dim a) (m P N : ℕ) (het : Bool)
    (x : ℕ → ℚ) (k i : ℕ) (hP : 0 < P) (hx : 0 ≤ x k ∧ x k ≤ 1) :
    Filter.Tendsto (fun F : ℚ => inbWeight dim a (P * m) P N F het x k i) (nhdsWithin 0 (Set.Ioi 0))
      (nhds (bern (P * m) i (inbXeff N x k) * hetMult het (x k))) :=
  inbWeight_tendsto dim a h m P N het x k i hP hx

theorem inbFClamp_mem (F : ℚ) (hF : 0 ≤ F) : 0 ≤ inbFClamp F ∧ inbFClamp F < 1 := by
  unfold inbFClamp ratMin
  split_ifs with h
  · exact ⟨hF, by linarith [show (1 : ℚ) - 1 / 10000000000 < 1 by norm_num]⟩
  · constructor <;> norm_num

/-- **`from_phi_inbreeding` against `from_phi(force_direct=True)`, entry by entry** (1–3 populations, any mixture of F = 0 and
    F > 0, every ploidy dividing the sample size, ascertainment or not, grids from 0 to 1): the two spectra differ by at most
    (Σ_a ε_a) · (d-fold trapezoid mass of |φ|), with ε_a = 0 for F_a = 0 and otherwise
    ε_a = `inbLimitConst`·F_a/(1−F_a) + 2^n·n·1e-20 (the second term is the end-point patch of the code).  In particular the
    difference vanishes linearly as all F → 0⁺, and a population with F = 0 contributes nothing. -/
theorem C05_inbreeding_vs_direct (het : String) (ns : List ℕ) (grids : List (Array ℚ)) (Fs : List ℚ) (pls : List ℕ)
    (hd1 : 1 ≤ grids.length) (hd : grids.length ≤ 3)
    (hg : ∀ a, a < grids.length → UnitGrid (grids.getD a #[]))
    (hF : ∀ a, a < grids.length → 0 ≤ Fs.getD a 0)
    (hP : ∀ a, a < grids.length → 0 < pls.getD a 1 ∧ pls.getD a 1 ∣ ns.getD a 0) (φ : List ℕ → ℚ) (idx : List ℕ) :
    |sampleND (inbOps het ns grids Fs pls) φ idx - sampleND (directOps het ns grids) φ idx|
      ≤ ((List.range grids.length).map fun a =>
            inbAxisEps (ns.getD a 0 / pls.getD a 1) (pls.getD a 1) (ns.getD a 0) (inbFClamp (Fs.getD a 0))).sum
        * wSum ((List.range grids.length).map fun a =>
            ((grids.getD a #[]).size, tw (grids.getD a #[]).size (gridFn (grids.getD a #[])))) (fun js => |φ js|) := by
  let L : PairList := (List.range grids.length).map fun a =>
    (inbOp grids.length a (ns.getD a 0) (pls.getD a 1) (grids.getD a #[]).size (inbFClamp (Fs.getD a 0))
        (het == inbHetKey grids.length a) (gridFn (grids.getD a #[])),
     directOp grids.length a (ns.getD a 0) (grids.getD a #[]).size (het == hetKey grids.length a) (gridFn (grids.getD a #[])),
     tw (grids.getD a #[]).size (gridFn (grids.getD a #[])),
     inbAxisEps (ns.getD a 0 / pls.getD a 1) (pls.getD a 1) (ns.getD a 0) (inbFClamp (Fs.getD a 0)))
  have hL : ∀ t ∈ L, CloseOps t.1 t.2.1 t.2.2.1 t.2.2.2 := by
    intro t ht
    obtain ⟨a, ha, rfl⟩ := List.mem_map.mp ht
    have ha' := List.mem_range.mp ha
    have hv : ValidInbAxis grids.length a := ⟨hd1, hd, ha'⟩
    obtain ⟨hPpos, m, hm⟩ := hP a ha'
    obtain ⟨hF0, hF1⟩ := inbFClamp_mem _ (hF a ha')
    have hdiv : ns.getD a 0 / pls.getD a 1 = m := by rw [hm]; exact Nat.mul_div_cancel_left m hPpos
    have := inbOp_close_directOp grids.length a hv m (pls.getD a 1) (grids.getD a #[]) _ hF0 hF1
      (het == hetKey grids.length a) hPpos (hg a ha')
    simp only [inbHetKey_eq grids.length a hv, hdiv]
    rw [hm]
    exact this
  have h := sampleND_sub_le L hL φ idx
  have e1 : plOps L = inbOps het ns grids Fs pls := by simp [plOps, L, inbOps]
  have e2 : plOps' L = directOps het ns grids := by simp [plOps', L, directOps]
  have e3 : plEps L = ((List.range grids.length).map fun a =>
      inbAxisEps (ns.getD a 0 / pls.getD a 1) (pls.getD a 1) (ns.getD a 0) (inbFClamp (Fs.getD a 0))).sum := by
    simp [plEps, L, List.map_map, Function.comp_def]
  have e4 : plW L = (List.range grids.length).map fun a =>
      ((grids.getD a #[]).size, tw (grids.getD a #[]).size (gridFn (grids.getD a #[]))) := by
    simp [plW, L, inbOp, List.map_map, Function.comp_def]
  rw [e1, e2, e3, e4] at h
  exact h

/-- the same bound for **the arrays the two entry points return** (what the driver computes): `from_phi_inbreeding` (not
    delegated) against `from_phi(force_direct=True)` on the same density array `T` -/
theorem C05_inbreeding_vs_direct_arrays (het : String) (ns : List ℕ) (grids : List (Array ℚ)) (Fs : List ℚ) (pls : List ℕ)
    (hd1 : 1 ≤ grids.length) (hd : grids.length ≤ 3)
    (hg : ∀ a, a < grids.length → UnitGrid (grids.getD a #[]))
    (hF : ∀ a, a < grids.length → 0 ≤ Fs.getD a 0)
    (hP : ∀ a, a < grids.length → 0 < pls.getD a 1 ∧ pls.getD a 1 ∣ ns.getD a 0) (T : ND)
    (hT : T.shape = (List.range grids.length).map fun a => (grids.getD a #[]).size) (idx : List ℕ)
    (hidx : InBox ((List.range grids.length).map fun a => ns.getD a 0 + 1) idx) :
    |(sampleFast (inbOpsFast het ns grids Fs pls) T).get idx - (sampleFast (directOpsFast het ns grids) T).get idx|
      ≤ ((List.range grids.length).map fun a =>
            inbAxisEps (ns.getD a 0 / pls.getD a 1) (pls.getD a 1) (ns.getD a 0) (inbFClamp (Fs.getD a 0))).sum
        * wSum ((List.range grids.length).map fun a =>
            ((grids.getD a #[]).size, tw (grids.getD a #[]).size (gridFn (grids.getD a #[])))) (fun js => |T.get js|) := by
  have e1 : (inbOps het ns grids Fs pls).map (·.nIn) = (List.range grids.length).map fun a => (grids.getD a #[]).size := by
    simp [inbOps, inbOp, List.map_map, Function.comp_def]
  have e2 : (directOps het ns grids).map (·.nIn) = (List.range grids.length).map fun a => (grids.getD a #[]).size := by
    simp [directOps, directOp, List.map_map, Function.comp_def]
  have e3 : (inbOps het ns grids Fs pls).map (·.nOut) = (List.range grids.length).map fun a => ns.getD a 0 + 1 := by
    simp [inbOps, inbOp, List.map_map, Function.comp_def]
  have e4 : (directOps het ns grids).map (·.nOut) = (List.range grids.length).map fun a => ns.getD a 0 + 1 := by
    simp [directOps, directOp, List.map_map, Function.comp_def]
  rw [C05_fast_inbreeding het ns grids Fs pls T (by rw [e1]; exact hT) idx (by rw [e3]; exact hidx),
    C05_fast_direct het ns grids T (by rw [e2]; exact hT) idx (by rw [e4]; exact hidx)]
  exact C05_inbreeding_vs_direct het ns grids Fs pls hd1 hd hg hF hP T.get idx

/-- the hypotheses of `C05_inbreeding_vs_direct` are satisfiable: a diploid with F = 0 next to a tetraploid with F = 1/10 -/
example : UnitGrid #[0, 1/2, 1] ∧ (0 : ℚ) ≤ ([0, 1/10] : List ℚ).getD 1 0
    ∧ (0 < ([2, 4] : List ℕ).getD 1 1 ∧ ([2, 4] : List ℕ).getD 1 1 ∣ ([4, 8] : List ℕ).getD 1 0) := by
  refine ⟨⟨by decide, by simp [gridFn], by simp [gridFn], ?_⟩, by norm_num, by decide, by decide⟩
  intro k hk
  have hk' : k = 0 ∨ k = 1 := by
    have : k + 1 < 3 := hk
    omega
  rcases hk' with rfl | rfl
  · simp [gridFn]
  · simp [gridFn]; norm_num

/-- **all F = 0 without the delegation**: had `from_phi_inbreeding` not handed the call over, its own functions would return
    exactly the direct-path spectrum — the delegation changes nothing but the route (and the bound above is 0) -/
theorem C05_inbreeding_all_zero (het : String) (ns : List ℕ) (grids : List (Array ℚ)) (Fs : List ℚ) (pls : List ℕ)
    (hd1 : 1 ≤ grids.length) (hd : grids.length ≤ 3) (hF : ∀ a, a < grids.length → Fs.getD a 0 = 0) :
    inbOps het ns grids Fs pls = (List.range grids.length).map fun a =>
      (⟨ns.getD a 0 + 1, (grids.getD a #[]).size,
        (directOp grids.length a (ns.getD a 0) (grids.getD a #[]).size (het == hetKey grids.length a) (gridFn (grids.getD a #[]))).app⟩ : LineOp) := by
  unfold inbOps
  apply List.map_congr_left
  intro a ha
  have ha' := List.mem_range.mp ha
  have hv : ValidInbAxis grids.length a := ⟨hd1, hd, ha'⟩
  have hz : inbFClamp (Fs.getD a 0) = 0 := by
    rw [hF a ha']; unfold inbFClamp ratMin; norm_num
  rw [hz, inbHetKey_eq grids.length a hv]
  unfold inbOp
  congr 1
  funext φ i
  exact C05_inbreeding_zero_axis grids.length a hv _ _ _ _ _ φ i

/-- **which copy of the grid every statement reads** (`Gen.FromPhi.clampTable`, regenerated from the source): every `betainc`
    argument — both calls of `_from_phi_1D_analytic`, both calls of `cached_dbeta` — reads the clamped copy; the cache key of
    `cached_dbeta` and the slopes / `c1` of the 2-D…5-D versions read the caller's array; the flags the model executes are
    these table entries; and the clamp is the projection onto [0,1] -/
theorem C05_clamp_table :
    (∀ e ∈ clampTable, e.2.2.1 = true → e.2.2.2 = true)
    ∧ (∀ e ∈ clampTable, e.2.2.1 = false → e.1 ≠ "_from_phi_1D_analytic" → e.2.2.2 = false)
    ∧ (clampTable.filter (·.2.2.1)).length = 4 ∧ clampTable.length = 22
    ∧ ("_from_phi_1D_analytic", "s", false, anGridS) ∈ clampTable ∧ ("_from_phi_1D_analytic", "c1", false, anGridC1) ∈ clampTable
    ∧ ("_from_phi_1D_analytic", "betainc:beta1", true, anGridB1) ∈ clampTable
    ∧ ("_from_phi_1D_analytic", "betainc:beta2", true, anGridB2) ∈ clampTable
    ∧ ("cached_dbeta", "betainc:dbeta1", true, dbGridB1) ∈ clampTable
    ∧ ("cached_dbeta", "betainc:dbeta2", true, dbGridB2) ∈ clampTable
    ∧ ("cached_dbeta", "key", false, !dbKeyUnclamped) ∈ clampTable
    ∧ (∀ x : ℚ, 0 ≤ clamp x ∧ clamp x ≤ 1 ∧ (0 ≤ x → x ≤ 1 → clamp x = x) ∧ dbClamp x = clamp x) := by
  refine ⟨by decide, by decide, by decide, by decide, by decide, by decide, by decide, by decide, by decide, by decide, by decide, ?_⟩
  intro x
  unfold dbClamp clamp ratMin ratMax
  refine ⟨?_, ?_, ?_, rfl⟩
  · split_ifs <;> linarith
  · split_ifs <;> linarith
  · intro h0 h1
    split_ifs <;> linarith

/-! ## Round 5 — the direct (trapezoid) path against the semi-analytic path -/

/-- **exact relation, one interval**: the semi-analytic term is F(x_{k+1}) − F(x_k), the term of the direct path is the trapezoid
    rule h·(F'(x_{k+1}) + F'(x_k))/2 for the *same* polynomial F' = B_{n,d}·(interpolant) of degree n+1 (F built from the generated
    `c1`/`c2` coefficients, `Fpoly`).  So direct − semi-analytic = Σ over intervals of the trapezoid error of F'. -/
theorem C05_direct_vs_analytic_exact (n d : ℕ) (hd : d ≤ n) (x φ : ℕ → ℚ) (k : ℕ) (hk : x (k+1) ≠ x k) :
    ∃ F : ℚ[X],
      derivative F = bernsteinPolynomial ℚ n d * (C (φ k) + C (s (φ k) (φ (k+1)) (x k) (x (k+1))) * (X - C (x k)))
      ∧ entry1D n d x φ k = F.eval (x (k+1)) - F.eval (x k)
      ∧ (x (k+1) - x k) * (bern n d (x (k+1)) * φ (k+1) + bern n d (x k) * φ k) / 2
          = (x (k+1) - x k) * ((derivative F).eval (x (k+1)) + (derivative F).eval (x k)) / 2 := by
  obtain ⟨F, hF, hE⟩ := C05_1D_exact n d hd x φ k
  refine ⟨F, hF, hE, ?_⟩
  obtain ⟨i0, i1⟩ := C05_1D_interpolant x φ k hk
  rw [hF, eval_mul, eval_mul, i0, i1, ← bern_eq_eval, ← bern_eq_eval]

/-- … and the line of the direct path is the sum of these trapezoid terms -/
theorem C05_direct_sum (dim a : ℕ) (h : ValidAxis dim a) (n N : ℕ) (x φ : ℕ → ℚ) (d : ℕ) :
    (directOp dim a n N false x).app φ d
      = ∑ k ∈ range (N - 1), (x (k+1) - x k) * (bern n d (x (k+1)) * φ (k+1) + bern n d (x k) * φ k) / 2 := by
  rw [directOp_app, trapz, sumRange_eq]
  refine Finset.sum_congr rfl fun k _ => ?_
  simp only [directWeight_eq dim a h, hetMult, Bool.false_eq_true, if_false, mul_one]

/-- **sample size 0: the two paths agree exactly** (the trapezoid rule is exact for the interpolant itself) -/
theorem C05_direct_eq_analytic_n0 (dim a : ℕ) (h : ValidAxis dim a) (N : ℕ) (x φ : ℕ → ℚ)
    (hx : ∀ k, clamp (x k) = x k) (hdist : ∀ k, k + 1 < N → x (k+1) ≠ x k) :
    (directOp dim a 0 N false x).app φ 0 = fromPhi1D 0 N x φ 0 := by
  rw [C05_direct_sum dim a h, fromPhi1D_def, sumRange_eq]
  have e : (fun k => clamp (x k)) = x := funext hx
  rw [e]
  refine Finset.sum_congr rfl fun k hk => ?_
  have hk' : k + 1 < N := by have := mem_range.mp hk; omega
  have := entryG_sum_trapz 0 x φ k (hdist k hk')
  simp only [zero_add, Finset.sum_range_one] at this
  rw [entry1D_eq_entryG, this]
  simp [bern, FromPhi.choose, fact]

/-- **direct vs semi-analytic, one population**: on a strictly increasing grid inside [0,1] with spacing ≤ hmax the entry d ≤ n of
    `_from_phi_1D_direct` differs from that of `_from_phi_1D_analytic` by at most 2·C(n,d)·n·hmax·(trapezoid mass of |φ|) — it
    vanishes as the grid is refined, for every density of bounded mass (no smoothness needed) -/
theorem C05_direct_vs_analytic_1D (n N d : ℕ) (hd : d ≤ n) (x φ : ℕ → ℚ) (hmax : ℚ)
    (hx : ∀ k, clamp (x k) = x k) (hlt : ∀ k, k + 1 < N → x k < x (k+1)) (hh : ∀ k, k + 1 < N → x (k+1) - x k ≤ hmax) :
    |(directOp 1 0 n N false x).app φ d - fromPhi1D n N x φ d|
      ≤ 2 * ((n.choose d : ℚ) * n * hmax) * trapz N x (fun k => |φ k|) := by
  have hx01 : ∀ k, k < N → 0 ≤ x k ∧ x k ≤ 1 := by
    intro k _
    rw [← hx k]
    unfold clamp ratMin ratMax
    constructor <;> split_ifs <;> linarith
  have e : (fun k => clamp (x k)) = x := funext hx
  have := direct_vs_analytic_line 1 0 ⟨le_refl _, by omega, by omega⟩ n N d hd x φ hmax hx01 hlt hh
  rw [fromPhi1D_def, sumRange_eq, e]
  simpa only [entry1D_eq_entryG] using this

example : ∀ k, k + 1 < 3 → ((k : ℕ) / 2 : ℚ) < ((k + 1 : ℕ) / 2 : ℚ) := by
  intro k _
  push_cast
  linarith

/-- **direct vs semi-analytic, 1–4 populations, entry by entry**: for grids strictly increasing inside [0,1] with spacings
    ≤ hs_a, every entry inside the box of `_from_phi_{d}D_direct` differs from that of `_from_phi_{d}D_linalg` by at most
    `dvaErr [ε_0, …, ε_{d−1}]` · (d-fold trapezoid mass of |φ|), ε_a = 2·2^{n_a}·n_a·hs_a,
    dvaErr = Σ_a ε_a·Π_{b>a}(1+ε_b) → 0 as the grids are refined -/
theorem C05_direct_vs_analytic_ND (ns : List ℕ) (grids : List (Array ℚ)) (hs : List ℚ) (hd1 : 1 ≤ grids.length) (hd : grids.length ≤ 4)
    (hg : ∀ a, a < grids.length →
      (∀ k, clamp (gridFn (grids.getD a #[]) k) = gridFn (grids.getD a #[]) k)
      ∧ (∀ k, k + 1 < (grids.getD a #[]).size → gridFn (grids.getD a #[]) k < gridFn (grids.getD a #[]) (k+1))
      ∧ (∀ k, k + 1 < (grids.getD a #[]).size → gridFn (grids.getD a #[]) (k+1) - gridFn (grids.getD a #[]) k ≤ hs.getD a 0)
      ∧ 0 ≤ hs.getD a 0)
    (φ : List ℕ → ℚ) (idx : List ℕ) (hidx : InBox ((linalgOps ns grids).map (·.nOut)) idx) :
    |sampleND (linalgOps ns grids) φ idx - sampleND (directOps "" ns grids) φ idx|
      ≤ dvaErr ((List.range grids.length).map fun a => dvaEps (ns.getD a 0) (hs.getD a 0))
        * wSum ((List.range grids.length).map fun a =>
            ((grids.getD a #[]).size, tw (grids.getD a #[]).size (gridFn (grids.getD a #[])))) (fun js => |φ js|) := by
  let L : PertList := (List.range grids.length).map fun a =>
    (analyticOp a (ns.getD a 0) (grids.getD a #[]).size (gridFn (grids.getD a #[])),
     directOp grids.length a (ns.getD a 0) (grids.getD a #[]).size false (gridFn (grids.getD a #[])),
     tw (grids.getD a #[]).size (gridFn (grids.getD a #[])),
     1 + dvaEps (ns.getD a 0) (hs.getD a 0), dvaEps (ns.getD a 0) (hs.getD a 0))
  have hL : ∀ t ∈ L, PertOk t := by
    intro t ht
    obtain ⟨a, ha, rfl⟩ := List.mem_map.mp ht
    have ha' := List.mem_range.mp ha
    obtain ⟨h1, h2, h3, h4⟩ := hg a ha'
    exact analytic_direct_pertOk grids.length a ⟨hd1, hd, ha'⟩ _ _ _ h1 h2 h3 h4
  have hM : ∀ t ∈ L, t.2.2.2.1 = 1 + t.2.2.2.2 := by
    intro t ht
    obtain ⟨a, _, rfl⟩ := List.mem_map.mp ht
    rfl
  have e1 : ptOps L = linalgOps ns grids := by simp [ptOps, L, linalgOps, List.map_map, Function.comp_def]
  have e2 : ptOps' L = directOps "" ns grids := by
    simp only [ptOps', L, directOps, List.map_map, Function.comp_def]
    apply List.map_congr_left
    intro a ha
    rw [hetKey_ne_empty grids.length a ⟨hd1, hd, List.mem_range.mp ha⟩]
  have e3 : ptE L = dvaErr ((List.range grids.length).map fun a => dvaEps (ns.getD a 0) (hs.getD a 0)) := by
    rw [ptE_eq L hM]
    simp [L, List.map_map, Function.comp_def]
  have e4 : ptW L = (List.range grids.length).map fun a =>
      ((grids.getD a #[]).size, tw (grids.getD a #[]).size (gridFn (grids.getD a #[]))) := by
    simp [ptW, L, analyticOp, List.map_map, Function.comp_def]
  have h := sampleND_sub_le_abs L hL φ idx (by rw [e1]; exact hidx)
  rw [e1, e2, e3, e4] at h
  exact h

/-- the same for **the arrays the two private functions return** (`_from_phi_{d}D_linalg` against `_from_phi_{d}D_direct`, what the
    driver computes) on the same density array `T` -/
theorem C05_direct_vs_analytic_arrays (ns : List ℕ) (grids : List (Array ℚ)) (hs : List ℚ) (hd1 : 1 ≤ grids.length) (hd : grids.length ≤ 4)
    (hg : ∀ a, a < grids.length →
      (∀ k, clamp (gridFn (grids.getD a #[]) k) = gridFn (grids.getD a #[]) k)
      ∧ (∀ k, k + 1 < (grids.getD a #[]).size → gridFn (grids.getD a #[]) k < gridFn (grids.getD a #[]) (k+1))
      ∧ (∀ k, k + 1 < (grids.getD a #[]).size → gridFn (grids.getD a #[]) (k+1) - gridFn (grids.getD a #[]) k ≤ hs.getD a 0)
      ∧ 0 ≤ hs.getD a 0)
    (T : ND) (hT : T.shape = (List.range grids.length).map fun a => (grids.getD a #[]).size) (idx : List ℕ)
    (hidx : InBox ((List.range grids.length).map fun a => ns.getD a 0 + 1) idx) :
    |(sampleFast (linalgOpsFast ns grids) T).get idx - (sampleFast (directOpsFast "" ns grids) T).get idx|
      ≤ dvaErr ((List.range grids.length).map fun a => dvaEps (ns.getD a 0) (hs.getD a 0))
        * wSum ((List.range grids.length).map fun a =>
            ((grids.getD a #[]).size, tw (grids.getD a #[]).size (gridFn (grids.getD a #[])))) (fun js => |T.get js|) := by
  have e1 : (linalgOps ns grids).map (·.nIn) = (List.range grids.length).map fun a => (grids.getD a #[]).size := by
    simp [linalgOps, analyticOp, List.map_map, Function.comp_def]
  have e2 : (directOps "" ns grids).map (·.nIn) = (List.range grids.length).map fun a => (grids.getD a #[]).size := by
    simp [directOps, directOp, List.map_map, Function.comp_def]
  have e3 : (linalgOps ns grids).map (·.nOut) = (List.range grids.length).map fun a => ns.getD a 0 + 1 := by
    simp [linalgOps, analyticOp, List.map_map, Function.comp_def]
  have e4 : (directOps "" ns grids).map (·.nOut) = (List.range grids.length).map fun a => ns.getD a 0 + 1 := by
    simp [directOps, directOp, List.map_map, Function.comp_def]
  rw [C05_fast_linalg ns grids (by omega) T (by rw [e1]; exact hT) idx (by rw [e3]; exact hidx),
    C05_fast_direct "" ns grids T (by rw [e2]; exact hT) idx (by rw [e4]; exact hidx)]
  exact C05_direct_vs_analytic_ND ns grids hs hd1 hd hg T.get idx (by rw [e3]; exact hidx)

/-! ## Round 5 — over-shooting grids in d ≥ 2 (`cached_dbeta` clamps a copy, slopes read the caller's grid) -/

/-- **what a stage of `_from_phi_{2..5}D_linalg` computes on ANY grid**: the sum over intervals of F_k(clamp x_{k+1}) − F_k(clamp x_k)
    with F_k' = B_{n,d}·(φ_k + s_k(X − x_k)), slope s_k from the caller's nodes — i.e. the exact integral, over the part of each
    interval inside [0,1], of the interpolant of the density on the grid it was defined on (which, for distinct nodes, takes the
    values φ_k, φ_{k+1} at the caller's nodes x_k, x_{k+1}) -/
theorem C05_ND_clamp_exact (a n N : ℕ) (ha : a < 5) (d : ℕ) (hd : d ≤ n) (x φ : ℕ → ℚ) :
    ∃ F : ℕ → ℚ[X],
      (∀ k, derivative (F k) = bernsteinPolynomial ℚ n d * (C (φ k) + C (s (φ k) (φ (k+1)) (x k) (x (k+1))) * (X - C (x k))))
      ∧ (analyticOp a n N x).app φ d = ∑ k ∈ range (N - 1), ((F k).eval (clamp (x (k+1))) - (F k).eval (clamp (x k))) := by
  refine ⟨fun k => Fpoly n d (φ k - s (φ k) (φ (k+1)) (x k) (x (k+1)) * x k) (s (φ k) (φ (k+1)) (x k) (x (k+1))), ?_, ?_⟩
  · intro k
    rw [Fpoly_derivative n d hd]
    congr 1
    simp only [map_sub, map_mul]
    ring
  · rw [analyticOp_app a n N ha]
    exact Finset.sum_congr rfl fun k _ => entryG_eq n d x _ φ k

/-- **mass on an over-shooting grid**: the entries of a stage add up to Σ_k ∫ over [clamp x_k, clamp x_{k+1}] of that interpolant -/
theorem C05_ND_clamp_mass (a n N : ℕ) (ha : a < 5) (x φ : ℕ → ℚ) :
    ∑ d ∈ range (n+1), (analyticOp a n N x).app φ d
      = ∑ k ∈ range (N - 1),
          ((φ k - s (φ k) (φ (k+1)) (x k) (x (k+1)) * x k) * (clamp (x (k+1)) - clamp (x k))
            + s (φ k) (φ (k+1)) (x k) (x (k+1)) / 2 * (clamp (x (k+1)) ^ 2 - clamp (x k) ^ 2)) := by
  simp only [analyticOp_app a n N ha]
  rw [Finset.sum_comm]
  exact Finset.sum_congr rfl fun k _ => entryG_sum n x _ φ k

/-- **over-shoot by δ changes a stage by at most δ·(total variation of the density along the line)**: for a grid whose nodes
    satisfy x_k ≤ clamp x_k < clamp x_{k+1} ≤ x_{k+1} (e.g. xx[0] = −1e-16, xx[-1] = nextafter(1,2)) and |clamp x_k − x_k| ≤ δ, the stage
    of the 2-D…5-D versions differs from the computation on the clamped grid — `fromPhi1D`, for which exactness, mass,
    projection and marginalisation are proved — by at most δ·Σ_k |φ_{k+1} − φ_k| -/
theorem C05_ND_overshoot (a n N d : ℕ) (ha : a < 5) (hd : d ≤ n) (x φ : ℕ → ℚ) (δ : ℚ)
    (hx : ∀ k, k + 1 < N → x k ≤ clamp (x k) ∧ clamp (x k) < clamp (x (k+1)) ∧ clamp (x (k+1)) ≤ x (k+1))
    (hδ : ∀ k, k < N → |clamp (x k) - x k| ≤ δ) :
    |(analyticOp a n N x).app φ d - fromPhi1D n N x φ d| ≤ δ * ∑ k ∈ range (N - 1), |φ (k+1) - φ k| :=
  overshoot_line a n N d ha hd x φ δ hx hδ

/-- the hypotheses are satisfiable by a grid over-shooting at both ends by 1e-16 -/
example : ∀ k, k + 1 < 3 →
    (gridFn #[-1/10^16, 1/2, 1 + 1/10^16] k ≤ clamp (gridFn #[-1/10^16, 1/2, 1 + 1/10^16] k)
      ∧ clamp (gridFn #[-1/10^16, 1/2, 1 + 1/10^16] k) < clamp (gridFn #[-1/10^16, 1/2, 1 + 1/10^16] (k+1))
      ∧ clamp (gridFn #[-1/10^16, 1/2, 1 + 1/10^16] (k+1)) ≤ gridFn #[-1/10^16, 1/2, 1 + 1/10^16] (k+1)) := by
  intro k hk
  have hk' : k = 0 ∨ k = 1 := by omega
  rcases hk' with rfl | rfl <;> simp [gridFn, clamp, ratMin, ratMax] <;> norm_num

/-! ## wiring read off the source -/

/-- the statement shapes the model relies on (loops, dot products, recursion into the lower dimension, `trapz` calls,
    cache stores, guards, argument order of every dispatched call) are present in the current source -/
theorem C05_wiring :
    analyticShapeOk = true ∧ dbCacheShapeOk = true ∧ dbKeyUnclamped = true ∧ linalg2DRequiresEqualGrids = true
    ∧ (∀ a, a < 5 → linStageShapeOk a = true) ∧ (∀ d, 1 ≤ d → d ≤ 4 → directShapeOk d = true)
    ∧ (∀ d, 2 ≤ d → d ≤ 4 → admixShapeOk d = true) ∧ admixDefaultIsIdentity = true
    ∧ inbDivisibilityGuardOk = true ∧ inbShapeOk = true ∧ betaBinomlnShapeOk = true ∧ lncombShapeOk = true
    ∧ partShapeOk = true ∧ partPrecalcShapeOk = true ∧ convolutionShapeOk = true
    ∧ dispatchWiringOk = true ∧ fromPhiGuardsOk = true ∧ fromPhiAttrsOk = true ∧ dispatchInbWiringOk = true
    ∧ inbAllZeroDelegates = true ∧ inbForceDirectDefault = true ∧ margShapeOk = true := by
  refine ⟨rfl, rfl, rfl, rfl, ?_, ?_, ?_, rfl, rfl, rfl, rfl, rfl, rfl, rfl, rfl, rfl, rfl, rfl, rfl, rfl, rfl, rfl⟩
  · intro a ha
    have : a = 0 ∨ a = 1 ∨ a = 2 ∨ a = 3 ∨ a = 4 := by omega
    rcases this with rfl | rfl | rfl | rfl | rfl <;> rfl
  · intro d h1 h4
    have : d = 1 ∨ d = 2 ∨ d = 3 ∨ d = 4 := by omega
    rcases this with rfl | rfl | rfl | rfl <;> rfl
  · intro d h1 h4
    have : d = 2 ∨ d = 3 ∨ d = 4 := by omega
    rcases this with rfl | rfl | rfl <;> rfl

/-- dispatch of `from_phi` as read off the source: without options every dimension 1..5 takes the semi-analytic path; an
    option forces the direct / admix path in 1..4 dimensions; in 5 dimensions no branch exists (the code then fails with
    UnboundLocalError — recorded, not a claimed violation); other dimensions are refused. -/
theorem C05_dispatch :
    dispatch 1 false false false = .ok (some "_from_phi_1D_analytic")
    ∧ (∀ d, 2 ≤ d → d ≤ 5 → dispatch d false false false = .ok (some ("_from_phi_" ++ toString d ++ "D_linalg")))
    ∧ (∀ d, 2 ≤ d → d ≤ 4 → ∀ het force, (het || force) = true →
        dispatch d het false force = .ok (some ("_from_phi_" ++ toString d ++ "D_direct")))
    ∧ (∀ d, 2 ≤ d → d ≤ 4 → ∀ force, dispatch d false true force = .ok (some ("_from_phi_" ++ toString d ++ "D_admix_props")))
    ∧ (∀ het admix force, (het || admix || force) = true → dispatch 5 het admix force = .ok none)
    ∧ dispatch 0 false false false = .error "ValueError:ndim" ∧ dispatch 6 false false false = .error "ValueError:ndim" := by
  refine ⟨rfl, ?_, ?_, ?_, ?_, rfl, rfl⟩
  · intro d h2 h5
    have : d = 2 ∨ d = 3 ∨ d = 4 ∨ d = 5 := by omega
    rcases this with rfl | rfl | rfl | rfl <;> decide
  · intro d h2 h4 het force h
    have : d = 2 ∨ d = 3 ∨ d = 4 := by omega
    rcases this with rfl | rfl | rfl <;> cases het <;> cases force <;> first | decide | simp at h
  · intro d h2 h4 force
    have : d = 2 ∨ d = 3 ∨ d = 4 := by omega
    rcases this with rfl | rfl | rfl <;> cases force <;> decide
  · intro het admix force h
    cases het <;> cases admix <;> cases force <;> first | decide | simp at h

end DadiVerif
