import DadiVerif.Lemmas.FoldCore
/-!
# C09 — folding and ancestral misidentification conserve counts; symmetric, idempotent;
# folding status, masks and labels survive arithmetic, slicing and likelihood evaluation

Property theorems only.  All statements are about the definitions the driver executes (`Fold.foldSpec`, `unfoldSpec`,
`reverseSpec`, `applyMisid`, `binop`, `inplace`, `inplaceSelfAfter`, `sliceSpec`, `unarySpec`, `autofold` of `Model/Fold.lean`),
which run what tools/gen_Fold.py *regenerates from the current source* on every run: the pointwise programs of `fold` /
`unfold` (`Gen.Fold.fold_outData`, `fold_outMask`, …), the statement lists of the two operator templates
(`binaryProgram`, `inplaceProgram`, executed by the interpreter `Fold.runT`), the attribute rules of the numpy subclass
hooks (`finalize_folded`, …), `misidExpr` (evaluated by `Fold.evalM`), `foldingRefused`, `cornerFlat`, `autofold_*`, the method lists.

Layout.  The helper lemmas of `Lemmas/FoldCore.lean` do not look into any generated definition; what they need to know about
the translation enters as a hypothesis (`FoldDataOK`, `BinaryProgramOK`, …).  Those hypotheses are the *program theorems*
of this file (`C09_fold_program`, `C09_fold_mask_program`, `C09_unfold_program`, `C09_unfold_mask_program`,
`C09_fold_guards`, `C09_binary_program`, `C09_inplace_program`): each says that one translated piece of source equals its
closed form, and is proved by unfolding *whatever intermediate definitions the translator emitted* (the generated tactics
`fold_program_unfold` / `unfold_program_unfold`; the interpreter for the templates) — no intermediate name occurs in a proof.
A source edit therefore breaks exactly the program theorem it falsifies and the property theorems that use it.

A spectrum `S` is a C-ordered flat array with `S.N` entries of any shape (any number of populations,
any sample sizes, even or odd total), arbitrary rational data and arbitrary mask.  For a flat index
`k < S.N`:  `S.x k` data, `S.m k` mask, `S.mir k = S.N-1-k` the allele-swapped mirror entry,
`S.tot k` the number of derived alleles of entry `k`, `S.T` the total sample size.
-/
set_option linter.unusedSimpArgs false
set_option linter.unusedTactic false
set_option linter.unreachableTactic false
namespace DadiVerif
open Fold Gen.Fold Finset

/-! ## the index structure: mirror = reversal of every axis; totals add up to the sample size -/

/-- Reversing the flat C-order array (`k ↦ N-1-k`, what the model executes) is `reverse_array`:
    the multi-index of the image is `(n₁-i₁, …, n_d-i_d)`; for every shape and every entry. -/
theorem C09_mirror_axes (shape : List ℕ) (k : ℕ) (hk : k < prodL shape) :
    unflat shape (mirrorFlat (prodL shape) k) = mirrorIdx shape (unflat shape k)
    ∧ mirrorFlat (prodL shape) (mirrorFlat (prodL shape) k) = k
    ∧ mirrorFlat (prodL shape) k < prodL shape :=
  ⟨unflat_mirror shape k hk, mirrorFlat_invol hk, mirrorFlat_lt hk⟩

example : unflat [3, 4] (mirrorFlat 12 5) = [1, 2] ∧ unflat [3, 4] 5 = [1, 1] := by decide

/-- An entry with `t` derived alleles is paired with one with `T − t`. -/
theorem C09_total_mirror (shape : List ℕ) (k : ℕ) (hk : k < prodL shape) :
    totalFlat shape (mirrorFlat (prodL shape) k) = totalSamples shape - totalFlat shape k
    ∧ totalFlat shape k ≤ totalSamples shape := by
  have := totalFlat_mirror hk
  constructor <;> omega

/-! ## the translated programs of `fold` / `unfold` equal their closed forms -/

/-- The translated straight-line data program of `Spectrum.fold` (`where_folded_out`, the reversed partial array, the two
    ambiguous halves, …) computes: major-allele entries 0, ambiguous entries half of entry + mirror, minor entries
    entry + mirror (`sfold`) — at every index of every index structure with an involutive, total-complementing mirror. -/
theorem C09_fold_program : FoldDataOK := by
  intro ι mirror total T x m i h
  have h1 := h.tot; have h2 := h.le; have h3 := h.invol
  fold_program_unfold
  simp only [sfold, decide_eq_true_eq, beq_iff_eq, cast_eq_half_iff, h3]
  split_ifs <;> first | (exfalso; omega) | ring

/-- The translated mask program of `Spectrum.fold` (before the constructor's corner masking): entry ∨ mirror ∨ folded-out. -/
theorem C09_fold_mask_program : FoldMaskOK := by
  intro ι mirror total T x m i h
  have h3 := h.invol
  fold_program_unfold
  simp only [fo, decide_gt_half, h3]
  first
    | done
    | (cases m i <;> cases m (mirror i) <;> cases decide (2 * total i > T) <;> cases decide (2 * total (mirror i) > T) <;> rfl)

/-- The translated data program of `Spectrum.unfold`: the symmetric split. -/
theorem C09_unfold_program : UnfoldDataOK := by
  intro ι mirror total T x m i h
  have h3 := h.invol
  unfold_program_unfold
  first | done | (simp only [h3]; ring)

/-- The translated mask program of `Spectrum.unfold`: `(m xor folded-out)`, or-ed with its mirror image. -/
theorem C09_unfold_mask_program : UnfoldMaskOK := by
  intro ι mirror total T x m i h
  have h3 := h.invol
  unfold_program_unfold
  simp only [fo, decide_gt_half, h3]
  first
    | done
    | (cases m i <;> cases m (mirror i) <;> cases decide (2 * total i > T) <;> cases decide (2 * total (mirror i) > T) <;> rfl)

/-- The generated guards: `fold` raises `ValueError` exactly on folded spectra, `unfold` exactly on unfolded ones. -/
theorem C09_fold_guards : GuardsOK := ⟨fun _ => rfl, rfl, fun _ => rfl, rfl⟩

example : ∃ (mirror : ℕ → ℕ) (total : ℕ → ℕ), ∀ i < 4, Loc mirror total 3 i :=
  ⟨fun i => 3 - i, fun i => i, fun i hi =>
    ⟨by show 3 - (3 - i) = i; omega, by show 3 - i = 3 - i; rfl, by show i ≤ 3; omega⟩⟩

/-! ## fold -/

/-- `fold` is defined exactly on unfolded spectra (otherwise `ValueError`); `unfold` exactly on folded ones. -/
theorem C09_fold_guard (S : Spec) :
    (S.folded = false → foldSpec S = .ok (foldOut S)) ∧ (S.folded = true → foldSpec S = .raise "ValueError")
    ∧ (S.folded = true → unfoldSpec S = .ok (unfoldOut S)) ∧ (S.folded = false → unfoldSpec S = .raise "ValueError") := by
  rw [foldSpec_eq_of S C09_fold_guards, unfoldSpec_eq_of S C09_fold_guards]
  refine ⟨?_, ?_, ?_, ?_⟩ <;> intro h <;> simp [h]

/-- Each entry and its allele-swapped mirror go to the minor-allele entry; ambiguous entries
    (`2·tot = T`, only for even `T`) are shared equally; major-allele entries are zeroed; the result is a folded spectrum
    of the same shape with the labels of the input (constructor keywords `data_folded=True, pop_ids=self.pop_ids`). -/
theorem C09_fold_pair (S F : Spec) (h : foldSpec S = .ok F) (k : ℕ) (hk : k < S.N) :
    F.x k = (if 2 * S.tot k > S.T then 0
             else if 2 * S.tot k = S.T then (S.x k + S.x (S.mir k)) / 2
             else S.x k + S.x (S.mir k))
    ∧ F.shape = S.shape ∧ F.folded = true ∧ F.popIds = S.popIds := by
  rw [foldSpec_eq_of S C09_fold_guards] at h
  split_ifs at h
  injection h with h; subst h
  exact ⟨foldOut_x_of S C09_fold_program hk, rfl, rfl, by simp [foldOut, fold_popIdsFromSelf]⟩

example : ∃ S F : Spec, foldSpec S = .ok F ∧ S.N = 12 :=
  ⟨⟨[3, 4], #[], #[], false, none⟩, _, (C09_fold_guard _).1 rfl, rfl⟩

/-- Folding conserves the total of the data array (all entries), for every shape, parity and data. -/
theorem C09_fold_total (S F : Spec) (h : foldSpec S = .ok F) : sumData F = sumData S := by
  rw [foldSpec_eq_of S C09_fold_guards] at h
  split_ifs at h
  injection h with h; subst h
  rw [sumData_eq, sumData_eq, foldOut_N]
  rw [Finset.sum_congr rfl (fun k hk => foldOut_x_of S C09_fold_program (mem_range.mp hk))]
  exact sfold_total S.N _ _ _ (fun k hk => S.loc hk)

/-- The mask of the folded spectrum is the union of the entry's mask, its mirror's mask, the
    "folded out" region, and the two corners (the constructor's default `mask_corners`). -/
theorem C09_fold_mask (S F : Spec) (h : foldSpec S = .ok F) (k : ℕ) (hk : k < S.N) :
    F.m k = (S.m k || S.m (S.mir k) || decide (2 * S.tot k > S.T) || (k == 0 || k == S.N - 1)) := by
  rw [foldSpec_eq_of S C09_fold_guards] at h
  split_ifs at h
  injection h with h; subst h
  rw [foldOut_m_of S C09_fold_mask_program rfl hk]; rfl

/-- Unmasked total: the sum over the unmasked entries of the folded spectrum is the sum of the input
    over the entries that are unmasked together with their mirror (corners counted as masked). -/
theorem C09_fold_total_unmasked (S F : Spec) (h : foldSpec S = .ok F) :
    sumUnmasked F
      = sumUnmasked { S with mask := tabulate S.N fun k => S.m k || S.m (S.mir k) || cornerFlat S.N k } := by
  rw [foldSpec_eq_of S C09_fold_guards] at h
  split_ifs at h
  injection h with h; subst h
  rw [sumUnmasked_eq, sumUnmasked_eq, foldOut_N]
  set u : ℕ → Bool := fun k => !(S.m k || S.m (mirrorFlat S.N k) || cornerFlat S.N k) with hu
  have husym : ∀ k < S.N, u (mirrorFlat S.N k) = u k := by
    intro k hk
    simp only [hu, mirrorFlat_invol hk, cornerFlat_mirror hk]
    cases S.m k <;> cases S.m (mirrorFlat S.N k) <;> rfl
  have hL : ∀ k ∈ range S.N, (if (foldOut S).m k then (0 : ℚ) else (foldOut S).x k)
      = sfold (mirrorFlat S.N) (totalFlat S.shape) (totalSamples S.shape) (fun j => if u j then S.x j else 0) k := by
    intro k hk
    have hk' := mem_range.mp hk
    rw [sfold_indicator S.x u (husym k hk'), foldOut_m_of S C09_fold_mask_program rfl hk',
      foldOut_x_of S C09_fold_program hk']
    simp only [hu]
    by_cases hf : fo (totalFlat S.shape) (totalSamples S.shape) k = true
    · have : sfold (mirrorFlat S.N) (totalFlat S.shape) (totalSamples S.shape) S.x k = 0 := by
        unfold sfold; unfold fo at hf; simp only [decide_eq_true_eq] at hf; rw [if_pos hf]
      simp [hf, this]
    · simp only [Bool.not_eq_true] at hf
      cases S.m k <;> cases S.m (mirrorFlat S.N k) <;> cases cornerFlat S.N k <;> simp [hf]
  have hR : ∀ k ∈ range S.N,
      (if ({ S with mask := tabulate S.N fun k => S.m k || S.m (S.mir k) || cornerFlat S.N k } : Spec).m k then (0 : ℚ)
        else ({ S with mask := tabulate S.N fun k => S.m k || S.m (S.mir k) || cornerFlat S.N k } : Spec).x k)
      = (fun j => if u j then S.x j else 0) k := by
    intro k hk
    have hk' := mem_range.mp hk
    have e : ({ S with mask := tabulate S.N fun k => S.m k || S.m (S.mir k) || cornerFlat S.N k } : Spec).m k
        = (S.m k || S.m (S.mir k) || cornerFlat S.N k) := by
      show (tabulate S.N _).getD k _ = _
      rw [tabulate_getD _ _ _ hk']
    rw [e]
    simp only [hu]
    cases S.m k <;> cases S.m (mirrorFlat S.N k) <;> cases cornerFlat S.N k <;> simp [Spec.x]
  rw [Finset.sum_congr rfl hL]
  have : ({ S with mask := tabulate S.N fun k => S.m k || S.m (S.mir k) || cornerFlat S.N k } : Spec).N = S.N := rfl
  rw [this, Finset.sum_congr rfl hR]
  exact sfold_total S.N _ _ _ (fun k hk => S.loc hk)

/-- …in particular `fs.fold().sum() = fs.sum()` whenever the mask is mirror-symmetric and contains the corners
    (e.g. the default mask of a `Spectrum`). -/
theorem C09_fold_total_symmetric_mask (S F : Spec) (h : foldSpec S = .ok F)
    (hsym : ∀ k < S.N, S.m (S.mir k) = S.m k) (hc : ∀ k < S.N, cornerFlat S.N k = true → S.m k = true) :
    sumUnmasked F = sumUnmasked S := by
  rw [C09_fold_total_unmasked S F h, sumUnmasked_eq, sumUnmasked_eq]
  refine Finset.sum_congr rfl (fun k hk => ?_)
  have hk' := mem_range.mp hk
  have e : ({ S with mask := tabulate S.N fun k => S.m k || S.m (S.mir k) || cornerFlat S.N k } : Spec).m k
      = (S.m k || S.m (S.mir k) || cornerFlat S.N k) := by
    show (tabulate S.N _).getD k _ = _
    rw [tabulate_getD _ _ _ hk']
  rw [e, hsym k hk']
  have := hc k hk'
  cases hm : S.m k <;> cases hcf : cornerFlat S.N k <;> simp_all [Spec.x]

example : ∃ S : Spec, (∀ k < S.N, S.m (S.mir k) = S.m k)
    ∧ (∀ k < S.N, cornerFlat S.N k = true → S.m k = true) ∧ S.N = 3 :=
  ⟨⟨[3], #[1, 2, 3], #[true, false, true], false, none⟩, by decide, by decide, rfl⟩

/-- The result is unchanged if the input is first mirrored (data, mask, flags, labels: the whole record). -/
theorem C09_fold_mirror (S : Spec) : foldSpec (reverseSpec S) = foldSpec S := by
  rw [foldSpec_eq_of _ C09_fold_guards, foldSpec_eq_of _ C09_fold_guards]
  have hf : (reverseSpec S).folded = S.folded := rfl
  rw [hf]
  split_ifs
  · rfl
  · congr 1
    apply spec_eq_of
    · rfl
    · apply tabulate_congr
      intro k hk
      have hk' : k < S.N := hk
      have hl := S.loc hk'
      rw [C09_fold_program _ _ _ _ _ _ ((reverseSpec S).loc hk), C09_fold_program _ _ _ _ _ _ hl]
      have h1 : (reverseSpec S).x k = S.x (mirrorFlat S.N k) := reverseSpec_x S hk'
      have h2 : (reverseSpec S).x (mirrorFlat S.N k) = S.x k := by
        rw [reverseSpec_x S (mirrorFlat_lt hk'), mirrorFlat_invol hk']
      show sfold (mirrorFlat S.N) (totalFlat S.shape) (totalSamples S.shape) (reverseSpec S).x k = _
      unfold sfold
      rw [h1, h2]
      split_ifs <;> ring
    · rw [foldOut_mask, foldOut_mask]
      apply tabulate_congr
      intro k hk
      have hk' : k < S.N := hk
      rw [C09_fold_mask_program _ _ _ _ _ _ ((reverseSpec S).loc hk), C09_fold_mask_program _ _ _ _ _ _ (S.loc hk')]
      have h1 : (reverseSpec S).m k = S.m (mirrorFlat S.N k) := reverseSpec_m S hk'
      have h2 : (reverseSpec S).m (mirrorFlat S.N k) = S.m k := by
        rw [reverseSpec_m S (mirrorFlat_lt hk'), mirrorFlat_invol hk']
      show ((reverseSpec S).m k || (reverseSpec S).m (mirrorFlat S.N k) || _ || _) = _
      rw [h1, h2]
      cases S.m k <;> cases S.m (mirrorFlat S.N k) <;> rfl
    · rfl
    · rfl

/-! ## the operands survive: `fold` / `unfold` are not in-place -/

/-- `x.fold()` and `x.unfold()` leave `x` itself as it was — data and mask on every entry (for every mask pattern, in
    particular masks that are not mirror-symmetric), shape, folding status, labels — whether they return or raise; and
    the spectrum they construct is not handed memory of `x` uncopied (so masking the result later, e.g. its corners,
    cannot reach `x`).  `foldSelfAfter` / `unfoldSelfAfter` are built from the generated state of `self.data` /
    `self.mask` after the translated statements (in-place updates through local aliases of the caller's buffers
    included).  Hence a model passed to a likelihood function with folded data (`model = model.fold()`,
    `C09_autofold`) is the same model afterwards. -/
theorem C09_fold_pure (S : Spec) :
    (∀ k < S.N, (foldSelfAfter S).x k = S.x k ∧ (foldSelfAfter S).m k = S.m k
              ∧ (unfoldSelfAfter S).x k = S.x k ∧ (unfoldSelfAfter S).m k = S.m k)
    ∧ (foldSelfAfter S).shape = S.shape ∧ (foldSelfAfter S).folded = S.folded ∧ (foldSelfAfter S).popIds = S.popIds
    ∧ (unfoldSelfAfter S).shape = S.shape ∧ (unfoldSelfAfter S).folded = S.folded ∧ (unfoldSelfAfter S).popIds = S.popIds
    ∧ fold_outSharesSelf = false ∧ unfold_outSharesSelf = false := by
  have hself : SelfAfterOK := by
    intro ι mirror total T x m i
    refine ⟨?_, ?_, ?_, ?_⟩
    · first | rfl | fold_program_unfold
    · first | rfl | fold_program_unfold
    · first | rfl | unfold_program_unfold
    · first | rfl | unfold_program_unfold
  refine ⟨fun k hk => ⟨?_, ?_, ?_, ?_⟩, ?_, ?_, ?_, ?_, ?_, ?_, by decide, by decide⟩
  · unfold foldSelfAfter; split_ifs
    · rfl
    · show (tabulate S.N _).getD k _ = _
      rw [tabulate_getD _ _ _ hk]; exact (hself _ _ _ _ _ _).1
  · unfold foldSelfAfter; split_ifs
    · rfl
    · show (tabulate S.N _).getD k _ = _
      rw [tabulate_getD _ _ _ hk]; exact (hself _ _ _ _ _ _).2.1
  · unfold unfoldSelfAfter; split_ifs
    · rfl
    · show (tabulate S.N _).getD k _ = _
      rw [tabulate_getD _ _ _ hk]; exact (hself _ _ _ _ _ _).2.2.1
  · unfold unfoldSelfAfter; split_ifs
    · rfl
    · show (tabulate S.N _).getD k _ = _
      rw [tabulate_getD _ _ _ hk]; exact (hself _ _ _ _ _ _).2.2.2
  all_goals first | (unfold foldSelfAfter; split_ifs <;> rfl) | (unfold unfoldSelfAfter; split_ifs <;> rfl)

/-- …as whole records, for a well-formed spectrum (arrays as long as the shape says). -/
theorem C09_fold_pure_record (S : Spec) (hd : S.data.size = S.N) (hm : S.mask.size = S.N) :
    foldSelfAfter S = S ∧ unfoldSelfAfter S = S := by
  obtain ⟨hk, h1, h2, h3, h4, h5, h6, _, _⟩ := C09_fold_pure S
  have sz : ∀ (A : Spec), (A = S ∨ (A.data.size = S.N ∧ A.mask.size = S.N)) → A.data.size = S.N ∧ A.mask.size = S.N := by
    rintro A (rfl | h)
    · exact ⟨hd, hm⟩
    · exact h
  have hF := sz (foldSelfAfter S) (by
    unfold foldSelfAfter; split_ifs
    · exact Or.inl rfl
    · exact Or.inr ⟨tabulate_size _ _, tabulate_size _ _⟩)
  have hU := sz (unfoldSelfAfter S) (by
    unfold unfoldSelfAfter; split_ifs
    · exact Or.inl rfl
    · exact Or.inr ⟨tabulate_size _ _, tabulate_size _ _⟩)
  exact ⟨spec_ext h1 hF.1 hF.2 hd hm (fun k h => ⟨(hk k h).1, (hk k h).2.1⟩) h2 h3,
         spec_ext h4 hU.1 hU.2 hd hm (fun k h => ⟨(hk k h).2.2.1, (hk k h).2.2.2⟩) h5 h6⟩

/-- non-vacuity: a 2×3 spectrum with a mask that is not mirror-symmetric (entry (0,1) masked, its mirror (1,1) not) -/
example : ∃ S : Spec, S.data.size = S.N ∧ S.mask.size = S.N ∧ S.m 1 = true ∧ S.m (S.mir 1) = false
    ∧ ∃ F, foldSpec S = .ok F ∧ F.m (S.mir 1) = true ∧ foldSelfAfter S = S :=
  let S : Spec := ⟨[2, 3], #[0, 1, 2, 3, 4, 5], #[false, true, false, false, false, false], false, some ["a", "b"]⟩
  ⟨S, rfl, rfl, rfl, rfl, foldOut S, (C09_fold_guard S).1 rfl, by decide, (C09_fold_pure_record S rfl rfl).1⟩

/-- The operator templates contain no statement that stores into `other` (the binary ones: nor into `self`), and no
    function of the likelihood family `f(model, data, …)` of `Inference.py` contains a statement that stores into one
    of its two arguments (item/attribute assignment, in-place operator, mutating method, `out=`): the only thing they do
    to the model is rebind the local name to `model.fold()` (`C09_autofold`), which leaves it alone (`C09_fold_pure`).
    (Syntactic scan of the current source by the translator; behaviour — operands compared before/after — is L3.) -/
theorem C09_operands_not_stored :
    templatesLeaveOperands = true ∧ likelihoodStoresIntoArgs = []
    ∧ (∀ f ∈ ["ll", "ll_per_bin", "ll_multinom", "ll_multinom_per_bin", "optimal_sfs_scaling", "optimally_scaled_sfs",
              "linear_Poisson_residual", "Anscombe_Poisson_residual"], f ∈ likelihoodFamily)
    ∧ (∀ f ∈ autofoldFunctions, f ∈ likelihoodFamily) := by
  decide

/-! ## unfold, and fold ∘ unfold ∘ fold = fold -/

/-- `unfold` is defined exactly on folded spectra; its data is the symmetric split `(y + mirror y)/2`,
    data and mask are mirror-symmetric, the total of the data array is conserved, labels are kept. -/
theorem C09_unfold_sym (F U : Spec) (h : unfoldSpec F = .ok U) :
    F.folded = true ∧ U.folded = false ∧ U.popIds = F.popIds ∧ U.shape = F.shape
    ∧ (∀ k < F.N, U.x k = (F.x k + F.x (F.mir k)) / 2 ∧ U.x (F.mir k) = U.x k ∧ U.m (F.mir k) = U.m k)
    ∧ sumData U = sumData F := by
  rw [unfoldSpec_eq_of F C09_fold_guards] at h
  split_ifs at h with hf
  injection h with h; subst h
  have hx := fun {k : ℕ} (hk : k < F.N) => unfoldOut_x_of F C09_unfold_program hk
  have hm := fun {k : ℕ} (hk : k < F.N) => unfoldOut_m_of F C09_unfold_mask_program rfl hk
  refine ⟨hf, rfl, by simp [unfoldOut, unfold_popIdsFromSelf], rfl, ?_, ?_⟩
  · intro k hk
    have hk2 := mirrorFlat_lt hk
    refine ⟨hx hk, ?_, ?_⟩
    · rw [hx hk2, hx hk, mirrorFlat_invol hk]; ring
    · rw [hm hk2, hm hk, mirrorFlat_invol hk, cornerFlat_mirror hk]
      cases F.m k <;> cases F.m (mirrorFlat F.N k) <;>
        cases fo (totalFlat F.shape) (totalSamples F.shape) k <;>
        cases fo (totalFlat F.shape) (totalSamples F.shape) (mirrorFlat F.N k) <;> rfl
  · rw [sumData_eq, sumData_eq, unfoldOut_N]
    rw [Finset.sum_congr rfl (fun k hk => hx (mem_range.mp hk))]
    rw [← Finset.sum_div, Finset.sum_add_distrib, sum_reflect F.x F.N]
    ring

example : ∃ F U : Spec, unfoldSpec F = .ok U :=
  ⟨⟨[3, 4], #[], #[], true, none⟩, _, (C09_fold_guard _).2.2.1 rfl⟩

/-- fold(unfold(fold(x))) = fold(x): the whole record — data on every entry (masked or not), the mask
    (the xor/or algebra of `unfold`, both corner maskings included), folding flag, labels, shape —
    for every shape (even and odd total sample size), all data and all mask patterns. -/
theorem C09_fuf (S : Spec) (hS : S.folded = false) :
    ∃ F U, foldSpec S = .ok F ∧ unfoldSpec F = .ok U ∧ foldSpec U = .ok F := by
  have hFx := fun (A : Spec) {k : ℕ} (hk : k < A.N) => foldOut_x_of A C09_fold_program hk
  have hFm := fun (A : Spec) {k : ℕ} (hk : k < A.N) => foldOut_m_of A C09_fold_mask_program rfl hk
  have hUx := fun (A : Spec) {k : ℕ} (hk : k < A.N) => unfoldOut_x_of A C09_unfold_program hk
  have hUm := fun (A : Spec) {k : ℕ} (hk : k < A.N) => unfoldOut_m_of A C09_unfold_mask_program rfl hk
  have hFf : ∀ A : Spec, (foldOut A).folded = true := fun _ => rfl
  have hUf : ∀ A : Spec, (unfoldOut A).folded = false := fun _ => rfl
  have hUp : ∀ A : Spec, (unfoldOut A).popIds = A.popIds := fun A => by simp [unfoldOut, unfold_popIdsFromSelf]
  have hFp : ∀ A : Spec, (foldOut A).popIds = A.popIds := fun A => by simp [foldOut, fold_popIdsFromSelf]
  refine ⟨foldOut S, unfoldOut (foldOut S), (C09_fold_guard S).1 hS, (C09_fold_guard _).2.2.1 (hFf S), ?_⟩
  rw [(C09_fold_guard _).1 (hUf _)]
  congr 1
  have hN : (unfoldOut (foldOut S)).N = S.N := rfl
  refine spec_ext (A := foldOut (unfoldOut (foldOut S))) (B := foldOut S) rfl ?_ ?_ ?_ ?_ ?_ rfl ?_
  · exact tabulate_size _ _
  · exact tabulate_size _ _
  · exact tabulate_size _ _
  · exact tabulate_size _ _
  · intro k hk
    have hk' : k < S.N := hk
    have hk2 := mirrorFlat_lt hk'
    have hl := S.loc hk'
    constructor
    · have hU : ∀ j < S.N, (unfoldOut (foldOut S)).x j
          = (sfold (mirrorFlat S.N) (totalFlat S.shape) (totalSamples S.shape) S.x j
             + sfold (mirrorFlat S.N) (totalFlat S.shape) (totalSamples S.shape) S.x (mirrorFlat S.N j)) / 2 := by
        intro j hj
        rw [hUx (foldOut S) hj]
        show ((foldOut S).x j + (foldOut S).x (mirrorFlat S.N j)) / 2 = _
        rw [hFx S hj, hFx S (mirrorFlat_lt hj)]
      rw [hFx (unfoldOut (foldOut S)) hk', hFx S hk']
      show sfold (mirrorFlat S.N) (totalFlat S.shape) (totalSamples S.shape) _ k = _
      rw [← sfold_unfold_sfold S.x hl]
      exact sfold_congr (hU k hk') (hU _ hk2)
    · have hc := cornerFlat_mirror hk'
      have key := mask_fuf S.m hl (cornerFlat S.N) hc
      simp only at key
      have hUm' : ∀ j < S.N, (unfoldOut (foldOut S)).m j
          = (((S.m j || S.m (mirrorFlat S.N j) || fo (totalFlat S.shape) (totalSamples S.shape) j || cornerFlat S.N j)
                ^^ fo (totalFlat S.shape) (totalSamples S.shape) j)
             || ((S.m (mirrorFlat S.N j) || S.m (mirrorFlat S.N (mirrorFlat S.N j))
                  || fo (totalFlat S.shape) (totalSamples S.shape) (mirrorFlat S.N j) || cornerFlat S.N (mirrorFlat S.N j))
                ^^ fo (totalFlat S.shape) (totalSamples S.shape) (mirrorFlat S.N j))
             || cornerFlat S.N j) := by
        intro j hj
        rw [hUm (foldOut S) hj]
        show (((foldOut S).m j ^^ _) || ((foldOut S).m (mirrorFlat S.N j) ^^ _) || _) = _
        rw [hFm S hj, hFm S (mirrorFlat_lt hj)]
        rfl
      rw [hFm (unfoldOut (foldOut S)) hk', hFm S hk']
      show ((unfoldOut (foldOut S)).m k || (unfoldOut (foldOut S)).m (mirrorFlat S.N k)
            || fo (totalFlat S.shape) (totalSamples S.shape) k || cornerFlat S.N k) = _
      rw [hUm' k hk', hUm' _ hk2]
      simp only [mirrorFlat_invol hk', hc] at key ⊢
      rw [← key]
      cases S.m k <;> cases S.m (mirrorFlat S.N k) <;> cases cornerFlat S.N k <;>
        cases fo (totalFlat S.shape) (totalSamples S.shape) k <;>
        cases fo (totalFlat S.shape) (totalSamples S.shape) (mirrorFlat S.N k) <;> rfl
  · rw [hFp, hUp, hFp]

/-! ## arithmetic templates: the translated statement lists; refusal of mixed folding; folding status, masks, labels survive -/

/-- The generated method lists are exactly the Python-3 arithmetic operators — normal, reflected and in-place form of
    `+ - * / // **` — plus the three Python-2 division names, which are exactly the names an ndarray does not have;
    no name occurs twice, and every name has a meaning in `methodOf`. -/
theorem C09_methods :
    (∀ n ∈ ["__add__", "__radd__", "__sub__", "__rsub__", "__mul__", "__rmul__", "__truediv__", "__rtruediv__",
            "__floordiv__", "__rfloordiv__", "__pow__", "__rpow__"], n ∈ binaryMethods ∧ n ∉ ndarrayLacks ∧ (methodOf n).isSome)
    ∧ (∀ n ∈ ["__iadd__", "__isub__", "__imul__", "__itruediv__", "__ifloordiv__", "__ipow__"],
         n ∈ inplaceMethods ∧ n ∉ ndarrayLacks ∧ (methodOf n).isSome)
    ∧ (∀ n ∈ binaryMethods, n ∈ ["__add__", "__radd__", "__sub__", "__rsub__", "__mul__", "__rmul__", "__truediv__", "__rtruediv__",
            "__floordiv__", "__rfloordiv__", "__pow__", "__rpow__"] ∨ n ∈ ["__div__", "__rdiv__"])
    ∧ (∀ n ∈ inplaceMethods, n ∈ ["__iadd__", "__isub__", "__imul__", "__itruediv__", "__ifloordiv__", "__ipow__"] ∨ n = "__idiv__")
    ∧ (∀ n ∈ binaryMethods ++ inplaceMethods, n ∈ ndarrayLacks ↔ n ∈ ["__div__", "__rdiv__", "__idiv__"])
    ∧ (binaryMethods ++ inplaceMethods).Nodup
    ∧ (∀ n ∈ binaryMethods ++ inplaceMethods, (methodOf n).isSome) := by
  decide

/-- **The constructor keeps the mask (and the data) it is given** — for spectra of EVERY shape, whole ones and slices alike, with every
    mask (corners open, entries beyond the fold unmasked, …), folded or not.  `ctor_selfMaskAfter` / `ctor_selfDataAfter` are the
    translation of the `if data_folded:` block of `Spectrum.__new__` (the consistency checks there only warn; the block contains
    no store, `ctor_foldedBlockStores = 0`); `ctorSpec` adds `if mask_corners: subarr.mask_corners()`.  Hence the result of the
    constructor has the mask passed, plus the two corners iff `mask_corners`; and every binary operator — which builds its result
    through this constructor with `data_folded = self.folded` and `mask_corners=False` — returns exactly the union of the operand
    masks on a folded spectrum of any shape, also where `_total_per_entry` of THAT shape exceeds half the total.
    An enforcement such as `subarr.mask[where_folded_out] = True` in the block changes the generated definition and breaks this proof
    (and `ctorMask_eq`, on which `C09_binary_program` rests). -/
theorem C09_ctor_keeps_mask :
    (∀ {ι : Type} (mirror : ι → ι) (total : ι → ℕ) (T : ℕ) (x : ι → ℚ) (m : ι → Bool) (i : ι),
        ctor_selfMaskAfter mirror total T x m i = m i ∧ ctor_selfDataAfter mirror total T x m i = x i)
    ∧ ctor_foldedBlockStores = 0
    ∧ (∀ (shape : List ℕ) (b : Bool) (x : ℕ → ℚ) (m : ℕ → Bool) (k : ℕ),
        ctorMask shape b x m k = m k ∧ ctorData shape b x m k = x k)
    ∧ (∀ (S : Spec) (mc : Bool) (k : ℕ), k < S.N →
        (ctorSpec S mc).m k = (S.m k || (mc && cornerFlat S.N k)) ∧ (ctorSpec S mc).x k = S.x k)
    ∧ (∀ (S : Spec) (mc : Bool), (ctorSpec S mc).folded = S.folded ∧ (ctorSpec S mc).popIds = S.popIds
        ∧ (ctorSpec S mc).shape = S.shape) := by
  have gen : ∀ {ι : Type} (mirror : ι → ι) (total : ι → ℕ) (T : ℕ) (x : ι → ℚ) (m : ι → Bool) (i : ι),
      ctor_selfMaskAfter mirror total T x m i = m i ∧ ctor_selfDataAfter mirror total T x m i = x i := by
    intro ι mirror total T x m i
    constructor <;> ctor_program_unfold
  have mdl : ∀ (shape : List ℕ) (b : Bool) (x : ℕ → ℚ) (m : ℕ → Bool) (k : ℕ),
      ctorMask shape b x m k = m k ∧ ctorData shape b x m k = x k := by
    intro shape b x m k
    unfold ctorMask ctorData
    cases b
    · exact ⟨rfl, rfl⟩
    · simp only [if_true]
      exact gen _ _ _ _ _ _
  refine ⟨gen, rfl, mdl, ?_, fun S mc => ⟨rfl, rfl, rfl⟩⟩
  intro S mc k hk
  constructor
  · show (tabulate S.N fun k => ctorMask S.shape S.folded S.x S.m k || (mc && cornerFlat S.N k)).getD k false = _
    rw [tabulate_getD _ _ _ hk, (mdl _ _ _ _ _).1]
  · show (tabulate S.N fun k => ctorData S.shape S.folded S.x S.m k).getD k 0 = _
    rw [tabulate_getD _ _ _ hk, (mdl _ _ _ _ _).2]

/-- **The binary template, executed statement by statement** (`binaryProgram`, translated from the source, run by `runT`)
    for every method name, every spectrum and every kind of operand — Spectrum, masked array, ndarray, scalar — is the
    closed form `binopClosed`: the folding check on `other` comes first; then the forwarded ndarray method works on the
    DATA arrays of both operands (`other.data` for masked operands), entries under a mask included; the mask is
    `mask_or(self.mask, other.mask)` for masked operands and `self.mask` otherwise; the constructor adds no corner
    masking, keeps `self.folded`, and takes the labels of `self`, or of `other` if `self` has none. -/
theorem C09_binary_program : BinaryProgramOK := by
  intro name S o
  unfold binop binopClosed guards
  by_cases hn : name ∈ binaryMethods
  swap
  · simp [hn]
  have hc : binaryMethods.contains name = true := by simpa using hn
  have fin : ∀ (d : Array ℚ) (f : ℕ → Bool) (oF : Bool) (oi : Option (List String)),
      (⟨S.shape, d, tabulate S.N fun k =>
          ctorMask S.shape (binopFolded S.folded oF) (fun j => d.getD j 0) (fun j => (tabulate S.N f).getD j false) k
            || (binopMaskCorners && cornerFlat S.N k),
        binopFolded S.folded oF, binopPopIds S.popIds oi⟩ : Spec)
      = ⟨S.shape, d, tabulate S.N f, S.folded, S.popIds.orElse fun _ => oi⟩ := by
    intro d f oF oi
    simp only [(C09_ctor_keeps_mask.2.2.1 _ _ _ _ _).1]
    rw [tabulate_getD_or]
    refine spec_eq_of rfl rfl ?_ ?_ ?_
    · dsimp only
      apply tabulate_congr; intro k _; simp [binopMaskCorners]
    · rfl
    · show binopPopIds S.popIds oi = _
      unfold binopPopIds; cases S.popIds <;> cases oi <;> simp
  have fin' : ∀ (d : Array ℚ) (f : ℕ → Bool) (oF : Bool),
      (⟨S.shape, d, tabulate S.N fun k =>
          ctorMask S.shape (binopFolded S.folded oF) (fun j => d.getD j 0) (fun j => (tabulate S.N f).getD j false) k
            || (binopMaskCorners && cornerFlat S.N k),
        binopFolded S.folded oF, S.popIds⟩ : Spec)
      = ⟨S.shape, d, tabulate S.N f, S.folded, S.popIds.orElse fun _ => none⟩ := by
    intro d f oF
    simp only [(C09_ctor_keeps_mask.2.2.1 _ _ _ _ _).1]
    rw [tabulate_getD_or]
    refine spec_eq_of rfl rfl ?_ ?_ ?_
    · dsimp only
      apply tabulate_congr; intro k _; simp [binopMaskCorners]
    · rfl
    · show S.popIds = _
      cases S.popIds <;> rfl
  cases o with
  | spectrum O =>
    by_cases hr : foldingRefused true S.folded O.folded = true
    · run_template [hc, hr, binaryProgram]
    by_cases hl : ndarrayLacks.contains name = true
    · run_template [hc, hr, hl, binaryProgram]
    by_cases hf : (O.data.size == S.N) = true
    swap
    · run_template [hc, hr, hl, hf, binaryProgram]
    cases hM : methodOf name with
    | none => run_template [hc, hr, hl, hf, hM, binaryProgram]
    | some M =>
      by_cases hd : arithDefined M S (.plain O.data) = true
      swap
      · run_template [hc, hr, hl, hf, hM, hd, binaryProgram]
      run_template [hc, hr, hl, hf, hM, hd, binaryProgram]
      rw [fin]; rfl
  | masked d mk =>
    by_cases hr : foldingRefused false S.folded false = true
    · run_template [hc, hr, binaryProgram]
    by_cases hl : ndarrayLacks.contains name = true
    · run_template [hc, hr, hl, binaryProgram]
    by_cases hf : (d.size == S.N) = true
    swap
    · run_template [hc, hr, hl, hf, binaryProgram]
    cases hM : methodOf name with
    | none => run_template [hc, hr, hl, hf, hM, binaryProgram]
    | some M =>
      by_cases hd : arithDefined M S (.plain d) = true
      swap
      · run_template [hc, hr, hl, hf, hM, hd, binaryProgram]
      run_template [hc, hr, hl, hf, hM, hd, binaryProgram]
      rw [fin']; rfl
  | plain d =>
    by_cases hr : foldingRefused false S.folded false = true
    · run_template [hc, hr, binaryProgram]
    by_cases hl : ndarrayLacks.contains name = true
    · run_template [hc, hr, hl, binaryProgram]
    by_cases hf : (d.size == S.N) = true
    swap
    · run_template [hc, hr, hl, hf, binaryProgram]
    cases hM : methodOf name with
    | none => run_template [hc, hr, hl, hf, hM, binaryProgram]
    | some M =>
      by_cases hd : arithDefined M S (.plain d) = true
      swap
      · run_template [hc, hr, hl, hf, hM, hd, binaryProgram]
      run_template [hc, hr, hl, hf, hM, hd, binaryProgram]
      rw [fin']
      refine congrArg Res.ok (spec_eq_of rfl rfl ?_ rfl rfl)
      dsimp only [binOut]
      apply tabulate_congr; intro k _; simp [Operand.maskAt]
  | scalar c =>
    by_cases hr : foldingRefused false S.folded false = true
    · run_template [hc, hr, binaryProgram]
    by_cases hl : ndarrayLacks.contains name = true
    · run_template [hc, hr, hl, binaryProgram]
    cases hM : methodOf name with
    | none => run_template [hc, hr, hl, hM, binaryProgram]
    | some M =>
      by_cases hd : arithDefined M S (.scalar c) = true
      swap
      · run_template [hc, hr, hl, hM, hd, binaryProgram]
      run_template [hc, hr, hl, hM, hd, binaryProgram]
      rw [fin']
      refine congrArg Res.ok (spec_eq_of rfl rfl ?_ rfl rfl)
      dsimp only [binOut]
      apply tabulate_congr; intro k _; simp [Operand.maskAt]

/-- **The in-place template, executed statement by statement** (`inplaceProgram`), is the closed form `inplaceClosed` for
    every method name, spectrum and kind of operand: folding check on `other` FIRST; then `self.data.<op>(other.data)` /
    `self.data.<op>(other)` on the data arrays, entries under a mask included; `self.mask = mask_or(self.mask, other.mask)`
    for masked operands only; shape, folding status and labels of `self` are not touched.  A call that raises has executed
    no statement that changes `self` (`inplaceSelfAfter … = some S`), and what a call that returns leaves in `self` is
    what it returns. -/
theorem C09_inplace_program : InplaceProgramOK := by
  intro name S o
  unfold inplace inplaceSelfAfter inplaceClosed guards
  by_cases hn : name ∈ inplaceMethods
  swap
  · simp [hn]
  have hc : inplaceMethods.contains name = true := by simpa using hn
  have hs : inplaceShapeOk = true := rfl
  cases o with
  | spectrum O =>
    by_cases hr : foldingRefused true S.folded O.folded = true
    · run_template [hc, hs, hr, inplaceProgram]
      simp
    by_cases hl : ndarrayLacks.contains name = true
    · run_template [hc, hs, hr, hl, inplaceProgram]
      simp
    by_cases hf : (O.data.size == S.N) = true
    swap
    · run_template [hc, hs, hr, hl, hf, inplaceProgram]
      simp
    cases hM : methodOf name with
    | none =>
      run_template [hc, hs, hr, hl, hf, hM, inplaceProgram]
      simp
    | some M =>
      by_cases hd : arithDefined M S (.plain O.data) = true
      swap
      · run_template [hc, hs, hr, hl, hf, hM, hd, inplaceProgram]
        simp
      run_template [hc, hs, hr, hl, hf, hM, hd, inplaceProgram]
      simp only [inplaceOut, Operand.isMasked, Operand.maskAt, Operand.dataAt, if_true, if_false, Bool.false_eq_true]
      refine ⟨by first | trivial | rfl, by simp, ?_⟩
      intro R hR
      injection hR with hR
      subst hR
      rfl
  | masked d mk =>
    by_cases hr : foldingRefused false S.folded false = true
    · run_template [hc, hs, hr, inplaceProgram]
      simp
    by_cases hl : ndarrayLacks.contains name = true
    · run_template [hc, hs, hr, hl, inplaceProgram]
      simp
    by_cases hf : (d.size == S.N) = true
    swap
    · run_template [hc, hs, hr, hl, hf, inplaceProgram]
      simp
    cases hM : methodOf name with
    | none =>
      run_template [hc, hs, hr, hl, hf, hM, inplaceProgram]
      simp
    | some M =>
      by_cases hd : arithDefined M S (.plain d) = true
      swap
      · run_template [hc, hs, hr, hl, hf, hM, hd, inplaceProgram]
        simp
      run_template [hc, hs, hr, hl, hf, hM, hd, inplaceProgram]
      simp only [inplaceOut, Operand.isMasked, Operand.maskAt, Operand.dataAt, if_true, if_false, Bool.false_eq_true]
      refine ⟨by first | trivial | rfl, by simp, ?_⟩
      intro R hR
      injection hR with hR
      subst hR
      rfl
  | plain d =>
    by_cases hr : foldingRefused false S.folded false = true
    · run_template [hc, hs, hr, inplaceProgram]
      simp
    by_cases hl : ndarrayLacks.contains name = true
    · run_template [hc, hs, hr, hl, inplaceProgram]
      simp
    by_cases hf : (d.size == S.N) = true
    swap
    · run_template [hc, hs, hr, hl, hf, inplaceProgram]
      simp
    cases hM : methodOf name with
    | none =>
      run_template [hc, hs, hr, hl, hf, hM, inplaceProgram]
      simp
    | some M =>
      by_cases hd : arithDefined M S (.plain d) = true
      swap
      · run_template [hc, hs, hr, hl, hf, hM, hd, inplaceProgram]
        simp
      run_template [hc, hs, hr, hl, hf, hM, hd, inplaceProgram]
      simp only [inplaceOut, Operand.isMasked, Operand.maskAt, Operand.dataAt, if_true, if_false, Bool.false_eq_true]
      refine ⟨by first | trivial | rfl, by simp, ?_⟩
      intro R hR
      injection hR with hR
      subst hR
      rfl
  | scalar c =>
    by_cases hr : foldingRefused false S.folded false = true
    · run_template [hc, hs, hr, inplaceProgram]
      simp
    by_cases hl : ndarrayLacks.contains name = true
    · run_template [hc, hs, hr, hl, inplaceProgram]
      simp
    cases hM : methodOf name with
    | none =>
      run_template [hc, hs, hr, hl,  hM, inplaceProgram]
      simp
    | some M =>
      by_cases hd : arithDefined M S (.scalar c) = true
      swap
      · run_template [hc, hs, hr, hl,  hM, hd, inplaceProgram]
        simp
      run_template [hc, hs, hr, hl,  hM, hd, inplaceProgram]
      simp only [inplaceOut, Operand.isMasked, Operand.maskAt, Operand.dataAt, if_true, if_false, Bool.false_eq_true]
      refine ⟨by first | trivial | rfl, by simp, ?_⟩
      intro R hR
      injection hR with hR
      subst hR
      rfl

/-- Arithmetic between a folded and an unfolded Spectrum is refused (`ValueError`) by every binary and every in-place
    template — for every name in the generated method lists —, before anything is computed or modified: the spectrum an
    in-place operator was applied to is afterwards exactly what it was (data under the mask, mask, flags, labels). -/
theorem C09_arith_refused (name : String) (S O : Spec) (hne : S.folded ≠ O.folded) :
    (name ∈ binaryMethods → binop name S (.spectrum O) = .raise "ValueError")
    ∧ (name ∈ inplaceMethods → inplace name S (.spectrum O) = .raise "ValueError"
                               ∧ inplaceSelfAfter name S (.spectrum O) = some S) := by
  -- proved by running the two translated statement lists (not through `C09_binary_program` / `C09_inplace_program`)
  have hr : foldingRefused true S.folded O.folded = true := by
    simp only [foldingRefused, Bool.true_and]
    cases hs : S.folded <;> cases ho : O.folded <;> simp_all
  have hw : foldingRefusedWhat = "ValueError" := rfl
  constructor <;> intro hn
  · have hc : binaryMethods.contains name = true := by simpa using hn
    unfold binop
    run_template [hc, hr, hw, binaryProgram]
  · have hc : inplaceMethods.contains name = true := by simpa using hn
    have hs : inplaceShapeOk = true := rfl
    unfold inplace inplaceSelfAfter
    run_template [hc, hs, hr, hw, inplaceProgram]
    first | done | simp

example : ∃ S O : Spec, S.folded ≠ O.folded := ⟨⟨[2], #[1, 2], #[false, false], false, none⟩, ⟨[2], #[1, 2], #[false, false], true, none⟩, by decide⟩

/-- Whenever a binary template returns, the two operands had the same folding status (if both are
    Spectra), the data is the pointwise operation on the operands' *data* — every entry, masked or not, for a Spectrum,
    a masked array (`other.data`), an ndarray and a scalar alike —, the mask is the union of the operands' masks (an
    ndarray or scalar has none: the mask of `self`; no corner masking), folding status and shape are those of
    `self`, labels are those of `self`, or of the other operand if `self` has none. -/
theorem C09_arith_keeps (name : String) (S R : Spec) (o : Operand) (h : binop name S o = .ok R) :
    ∃ M, methodOf name = some M ∧ name ∈ binaryMethods
      ∧ (o.isSpectrum = true → o.folded = S.folded)
      ∧ (∀ k < S.N, arith M (S.x k) (o.dataAt k) = some (R.x k) ∧ R.m k = (S.m k || o.maskAt k))
      ∧ (o.isMasked = false → ∀ k < S.N, R.m k = S.m k)
      ∧ R.folded = S.folded ∧ R.shape = S.shape ∧ R.popIds = S.popIds.orElse fun _ => o.popIds := by
  rw [C09_binary_program] at h
  obtain ⟨M, hM, hg, hd, rfl⟩ := binopClosed_ok h
  obtain ⟨hmem, hfr, _, _⟩ := guards_none hg
  refine ⟨M, hM, hmem, ?_, fun k hk => ⟨binOut_x hd hk, binOut_m hk⟩, ?_, rfl, rfl, rfl⟩
  · intro hs
    simp only [foldingRefused, hs, Bool.true_and] at hfr
    simpa using hfr
  · intro hm k hk
    rw [binOut_m hk]
    cases o <;> simp_all [Operand.isMasked, Operand.maskAt]

/-- The binary templates construct their result with `copy=True`: the new Spectrum owns its data and mask buffers.
    (Only this constructor flag is tied by translation; that no buffer is shared in fact — result vs operands, both
    directions, after later masking — is checked on the implementation by L3, aliasing is not part of the value-level model.) -/
theorem C09_arith_fresh : binopCopies = true := by decide

/-- … and through the binary templates (`data_folded = self.folded`, `mask_corners=False`): on a spectrum of any shape with any
    mask the result mask is exactly the union of the operand masks (`C09_ctor_keeps_mask` inside `C09_binary_program`). -/
theorem C09_ctor_keeps_mask_arith (name : String) (S R : Spec) (o : Operand) (h : binop name S o = .ok R) :
    ∀ k < S.N, R.m k = (S.m k || o.maskAt k) := by
  intro k hk
  obtain ⟨M, _, _, _, h4, _⟩ := C09_arith_keeps name S R o h
  exact (h4 k hk).2

/-- not vacuous, and the situation of the class: a SLICE `f[:3]` of a folded 1-D spectrum of 8 entries (folded, shape `[3]`, mask
    `[True, False, False]`): for that shape entry 2 lies beyond the fold (2 > int(2/2)), it is unmasked, and it stays unmasked in
    `f[:3] + 1`; the constructor called on it with `data_folded=True` keeps the mask too. -/
example : (ctorSpec ⟨[3], #[0, 5, 7], #[true, false, false], true, none⟩ false).mask = #[true, false, false]
    ∧ (ctorSpec ⟨[3], #[0, 5, 7], #[true, false, false], true, none⟩ true).mask = #[true, false, true]
    ∧ totalFlat [3] 2 > totalSamples [3] / 2
    ∧ ∃ R, binop "__add__" ⟨[3], #[0, 5, 7], #[true, false, false], true, none⟩ (.scalar 1) = .ok R
        ∧ R.mask = #[true, false, false] ∧ R.folded = true := by
  refine ⟨by decide, by decide, by decide, _, (C09_binary_program _ _ _).trans
    (binopClosed_eq_ok (by decide) (by simp [foldingRefused, Operand.isSpectrum]) (by decide) rfl rfl
      (arithDefined_ring _ _ _ (Or.inl rfl))), by decide, rfl⟩

/-- The same for the in-place templates; shape, folding status and labels of `self` are untouched, and the returned
    spectrum is `self` as the call left it. -/
theorem C09_inplace_keeps (name : String) (S R : Spec) (o : Operand) (h : inplace name S o = .ok R) :
    ∃ M, methodOf name = some M ∧ name ∈ inplaceMethods
      ∧ (o.isSpectrum = true → o.folded = S.folded)
      ∧ (∀ k < S.N, arith M (S.x k) (o.dataAt k) = some (R.x k) ∧ R.m k = (S.m k || o.maskAt k))
      ∧ (o.isMasked = false → R.mask = S.mask)
      ∧ R.folded = S.folded ∧ R.shape = S.shape ∧ R.popIds = S.popIds
      ∧ inplaceSelfAfter name S o = some R := by
  obtain ⟨h1, _, h3⟩ := C09_inplace_program name S o
  rw [h1] at h
  have hself := h3 R h
  obtain ⟨M, hM, hg, hd, rfl⟩ := inplaceClosed_ok h
  obtain ⟨hmem, hfr, _, _⟩ := guards_none hg
  refine ⟨M, hM, hmem, ?_, fun k hk => ⟨inplaceOut_x hd hk, inplaceOut_m hk⟩, ?_, rfl, rfl, rfl, hself⟩
  · intro hs
    simp only [foldingRefused, hs, Bool.true_and] at hfr
    simpa using hfr
  · intro hm
    simp [inplaceOut, hm]

example : ∃ S : Spec, binop "__add__" S (.scalar 1) = .ok (binOut ⟨.add, false⟩ S (.scalar 1))
    ∧ inplace "__imul__" S (.scalar 2) = .ok (inplaceOut ⟨.mul, false⟩ S (.scalar 2)) :=
  ⟨⟨[2], #[1, 2], #[false, true], true, some ["a"]⟩,
   (C09_binary_program _ _ _).trans (binopClosed_eq_ok (by decide) (by simp [foldingRefused, Operand.isSpectrum]) (by decide) rfl rfl
     (arithDefined_ring _ _ _ (Or.inl rfl))),
   (C09_inplace_program _ _ _).1.trans (inplaceClosed_eq_ok (by decide) (by simp [foldingRefused, Operand.isSpectrum]) (by decide) rfl rfl
     (arithDefined_ring _ _ _ (Or.inr (Or.inr rfl))))⟩

/-! ## ancestral misidentification -/

/-- `apply_anc_state_misid(fs, p)` — the generated expression `misidExpr` (translated from the `return` statement:
    `(1-p)*fs + p*reverse_array(fs)`), evaluated by `evalM` with Python's operator dispatch on the translated templates
    (`__rmul__` twice, then `__add__`) — is always defined and is the closed form `misidOut S p`: its data is
    the convex mix `(1−p)·x + p·mirror x` on every entry, its mask the union of mask and mirrored mask; shape, folding flag
    and labels are those of the input; for every rational `p`. -/
theorem C09_misid (S : Spec) (p : ℚ) :
    applyMisid S p = .ok (misidOut S p)
      ∧ (∀ k < S.N, (misidOut S p).x k = (1 - p) * S.x k + p * S.x (S.mir k)
                  ∧ (misidOut S p).m k = (S.m k || S.m (S.mir k)))
      ∧ (misidOut S p).shape = S.shape ∧ (misidOut S p).folded = S.folded ∧ (misidOut S p).popIds = S.popIds := by
  refine ⟨?_, fun k hk => ⟨misidOut_x S p hk, misidOut_m S p hk⟩, rfl, rfl, rfl⟩
  have hmem1 : "__rmul__" ∈ binaryMethods := by decide
  have hmem2 : "__add__" ∈ binaryMethods := by decide
  have hl1 : "__rmul__" ∉ ndarrayLacks := by decide
  have hl2 : "__add__" ∉ ndarrayLacks := by decide
  have hdef : ∀ (M : Method) (A : Spec) (o : Operand), (M.op = .add ∨ M.op = .mul) → arithDefined M A o = true :=
    fun M A o h => arithDefined_ring M A o (by rcases h with h | h <;> simp [h])
  have hA : ∀ c : ℚ, binop "__rmul__" S (.scalar c) = .ok (binOut ⟨.mul, true⟩ S (.scalar c)) := fun c =>
    (C09_binary_program _ _ _).trans
      (binopClosed_eq_ok hmem1 (by simp [foldingRefused, Operand.isSpectrum]) hl1 rfl rfl (hdef _ _ _ (Or.inr rfl)))
  have hB : ∀ c : ℚ, binop "__rmul__" (reverseSpec S) (.scalar c)
      = .ok (binOut ⟨.mul, true⟩ (reverseSpec S) (.scalar c)) := fun c =>
    (C09_binary_program _ _ _).trans
      (binopClosed_eq_ok hmem1 (by simp [foldingRefused, Operand.isSpectrum]) hl1 rfl rfl (hdef _ _ _ (Or.inr rfl)))
  have hC : ∀ c1 c2 : ℚ, binop "__add__" (binOut ⟨.mul, true⟩ S (.scalar c1))
        (.spectrum (binOut ⟨.mul, true⟩ (reverseSpec S) (.scalar c2)))
      = .ok (misidGen S c1 c2) := by
    intro c1 c2
    rw [← binOut_misid]
    refine (C09_binary_program _ _ _).trans (binopClosed_eq_ok hmem2 ?_ hl2 ?_ rfl (hdef _ _ _ (Or.inl rfl)))
    · simp [foldingRefused, Operand.folded, binOut, reverseSpec]
    · simp [Operand.fits, binOut, tabulate_size, reverseSpec_N, Spec.N, reverseSpec]
  -- the generated expression, evaluated: scalar * Spectrum reaches `__rmul__`, Spectrum + Spectrum reaches `__add__`
  simp only [applyMisid, misidExpr, evalM, evalBin, MOp.method, MOp.reflected, MRes.ofRes, hA, hB, hC]
  rfl

/-- Misidentification conserves the total; `p = 0` is the identity and `p = 1` the mirror image (on the data). -/
theorem C09_misid_total (S R : Spec) (p : ℚ) (h : applyMisid S p = .ok R) :
    sumData R = sumData S
    ∧ (p = 0 → ∀ k < S.N, R.x k = S.x k) ∧ (p = 1 → ∀ k < S.N, R.x k = S.x (S.mir k)) := by
  obtain ⟨hR', hx, _⟩ := C09_misid S p
  rw [h] at hR'; injection hR' with hR'; subst hR'
  refine ⟨?_, ?_, ?_⟩
  · rw [sumData_eq, sumData_eq, misidOut_N, Finset.sum_congr rfl (fun k hk => (hx k (mem_range.mp hk)).1)]
    rw [Finset.sum_add_distrib, ← Finset.mul_sum, ← Finset.mul_sum, sum_reflect S.x S.N]
    ring
  · intro hp k hk; rw [(hx k hk).1, hp]; ring
  · intro hp k hk; rw [(hx k hk).1, hp]; ring

example : ∃ S R : Spec, applyMisid S (1/4) = .ok R ∧ S.N = 6 :=
  let S : Spec := ⟨[2, 3], #[0, 1, 2, 3, 4, 5], #[true, false, false, false, false, true], false, some ["a", "b"]⟩
  ⟨S, misidOut S (1/4), (C09_misid S (1/4)).1, rfl⟩

/-- **Composition.**  Misidentifying with probability `p` and then with `q` is misidentifying once with `p + q − 2pq` (an
    entry ends up swapped iff exactly one of the two steps swapped it) — as whole records: data on every entry, mask,
    shape, folding flag, labels. -/
theorem C09_misid_compose (S : Spec) (p q : ℚ) :
    ∃ R, applyMisid S p = .ok R ∧ applyMisid R q = applyMisid S (p + q - 2 * p * q) := by
  refine ⟨misidOut S p, (C09_misid S p).1, ?_⟩
  rw [(C09_misid _ q).1, (C09_misid S _).1, misidOut_comp]

/-- **Mirror symmetry.**  Misidentifying the mirror image with `p` is misidentifying the spectrum itself with `1 − p`; in
    particular (`p = 0`) `p = 1` is the mirror image: data `mirror x`, mask `m ∨ mirror m`. -/
theorem C09_misid_mirror (S : Spec) (p : ℚ) :
    applyMisid (reverseSpec S) p = applyMisid S (1 - p)
    ∧ ∃ R, applyMisid S 1 = .ok R ∧ ∀ k < S.N, R.x k = S.x (S.mir k) ∧ R.m k = (S.m k || S.m (S.mir k)) := by
  refine ⟨?_, misidOut S 1, (C09_misid S 1).1, fun k hk => ⟨?_, misidOut_m S 1 hk⟩⟩
  · rw [(C09_misid _ p).1, (C09_misid S _).1, misidOut_reverse]
  · rw [misidOut_x S 1 hk]; ring

/-- **`p = 0`.**  The data is the input's on every entry; the mask is `m ∨ mirror m`; and the result is the input as a
    whole record — for a well-formed spectrum — *exactly when* the mask of the input is mirror-symmetric. -/
theorem C09_misid_zero (S : Spec) (hd : S.data.size = S.N) (hm : S.mask.size = S.N) :
    (∃ R, applyMisid S 0 = .ok R ∧ ∀ k < S.N, R.x k = S.x k ∧ R.m k = (S.m k || S.m (S.mir k)))
    ∧ (applyMisid S 0 = .ok S ↔ ∀ k < S.N, S.m (S.mir k) = S.m k) := by
  refine ⟨⟨misidOut S 0, (C09_misid S 0).1, fun k hk => ⟨?_, misidOut_m S 0 hk⟩⟩, ?_⟩
  · rw [misidOut_x S 0 hk]; ring
  · rw [(C09_misid S 0).1, ← misidOut_zero_iff S hd hm]
    constructor
    · intro h; injection h
    · intro h; rw [h]

/-- **Masks that are not mirror-symmetric** (e.g. the singletons of one population masked, the mirror entries not).  For
    every `p` — also `p = 0` — the result masks an entry as soon as the entry *or its mirror* is masked in the input, its mask
    is mirror-symmetric, and if the input's mask is not symmetric the result masks an entry the input did not
    (the data there is still the convex mix, `C09_misid`). -/
theorem C09_misid_mask (S R : Spec) (p : ℚ) (h : applyMisid S p = .ok R) :
    (∀ k < S.N, (R.m k = true ↔ (S.m k = true ∨ S.m (S.mir k) = true)) ∧ R.m (S.mir k) = R.m k)
    ∧ ((∃ k < S.N, S.m (S.mir k) ≠ S.m k) → ∃ k < S.N, R.m k = true ∧ S.m k = false) := by
  obtain ⟨hR', _⟩ := C09_misid S p
  rw [h] at hR'; injection hR' with hR'; subst hR'
  constructor
  · intro k hk
    refine ⟨?_, misidOut_m_sym S p hk⟩
    rw [misidOut_m S p hk]; simp
  · rintro ⟨k, hk, hne⟩
    have hk2 := mirrorFlat_lt hk
    cases hmk : S.m k
    · refine ⟨k, hk, ?_, hmk⟩
      rw [misidOut_m S p hk, hmk]
      cases hmk' : S.m (mirrorFlat S.N k)
      · exact absurd (hmk'.trans hmk.symm) hne
      · rfl
    · refine ⟨mirrorFlat S.N k, hk2, ?_, ?_⟩
      · rw [misidOut_m S p hk2, mirrorFlat_invol hk, hmk]; simp
      · cases hmk' : S.m (mirrorFlat S.N k)
        · rfl
        · exact absurd (hmk'.trans hmk.symm) hne

/-- non-vacuity: a 2×3 spectrum whose mask is not mirror-symmetric (entry (0,1) masked, its mirror (1,1) not) -/
example : ∃ S R : Spec, applyMisid S 0 = .ok R ∧ (∃ k < S.N, S.m (S.mir k) ≠ S.m k) ∧ R.m 4 = true ∧ S.m 4 = false :=
  let S : Spec := ⟨[2, 3], #[0, 1, 2, 3, 4, 5], #[false, true, false, false, false, false], false, none⟩
  ⟨S, misidOut S 0, (C09_misid S 0).1, ⟨1, by decide, by decide⟩, by decide, by decide⟩

/-- **`p = 1/2`: symmetrisation.**  The data is `(x + mirror x)/2` and mirror-symmetric, the mask mirror-symmetric; for an
    unfolded spectrum it is the data of `unfold(fold(x))`, whose mask is the same plus the two corners. -/
theorem C09_misid_half (S R : Spec) (h : applyMisid S (1/2) = .ok R) :
    (∀ k < S.N, R.x k = (S.x k + S.x (S.mir k)) / 2 ∧ R.x (S.mir k) = R.x k ∧ R.m (S.mir k) = R.m k)
    ∧ (S.folded = false → ∃ F U, foldSpec S = .ok F ∧ unfoldSpec F = .ok U
        ∧ ∀ k < S.N, U.x k = R.x k ∧ U.m k = (R.m k || cornerFlat S.N k)) := by
  obtain ⟨hR', _⟩ := C09_misid S (1/2)
  rw [h] at hR'; injection hR' with hR'; subst hR'
  have hx : ∀ k < S.N, (misidOut S (1/2)).x k = (S.x k + S.x (mirrorFlat S.N k)) / 2 := by
    intro k hk; rw [misidOut_x S _ hk]; ring
  constructor
  · intro k hk
    refine ⟨hx k hk, ?_, misidOut_m_sym S _ hk⟩
    rw [hx _ (mirrorFlat_lt hk), hx k hk, mirrorFlat_invol hk]; ring
  · intro hS
    refine ⟨foldOut S, unfoldOut (foldOut S), (C09_fold_guard S).1 hS, (C09_fold_guard _).2.2.1 rfl, fun k hk => ⟨?_, ?_⟩⟩
    · have hk2 := mirrorFlat_lt hk
      rw [unfoldOut_x_of (foldOut S) C09_unfold_program hk, hx k hk]
      show ((foldOut S).x k + (foldOut S).x (mirrorFlat S.N k)) / 2 = _
      rw [foldOut_x_of S C09_fold_program hk, foldOut_x_of S C09_fold_program hk2, sfold_add_mirror S.x (S.loc hk)]
    · have hk2 := mirrorFlat_lt hk
      have hc := cornerFlat_mirror hk
      have key := mask_uf S.m (S.loc hk) (cornerFlat S.N) hc
      simp only at key
      rw [unfoldOut_m_of (foldOut S) C09_unfold_mask_program rfl hk, misidOut_m S _ hk]
      show (((foldOut S).m k ^^ _) || ((foldOut S).m (mirrorFlat S.N k) ^^ _) || _) = _
      rw [foldOut_m_of S C09_fold_mask_program rfl hk, foldOut_m_of S C09_fold_mask_program rfl hk2]
      simp only [mirrorFlat_invol hk, hc] at key ⊢
      exact key

/-! ## views, slices, unary operations: the subclass hooks keep folding status and labels -/

/-- Whatever numpy derives from a Spectrum — a basic slice (`reverse_array` is one), the result of a unary ufunc, a copy, a
    deep copy, a view, `fs.log()` — comes out of the hooks `__array_finalize__` / `_update_from` / `__array_wrap__` (and the
    assignments of `log`), applied in numpy's order (`hooksOf`) with the *generated* rule of each hook for each attribute,
    with the folding status and the labels of the Spectrum it derives from. -/
theorem C09_hooks_keep (k : ViewKind) (S : Spec) :
    derivedFolded k S = some S.folded ∧ derivedPopIds k S = S.popIds := by
  cases k <;> exact ⟨rfl, rfl⟩

/-- Basic slicing returns a view with the folding status and the labels of the sliced spectrum, whose
    entries (data and mask) are the selected entries. -/
theorem C09_slice_keeps (S R : Spec) (sel : List AxisSel) (h : sliceSpec S sel = .ok R) :
    R.folded = S.folded ∧ R.popIds = S.popIds
    ∧ ∀ k < prodL (selCounts sel), R.x k = S.x (selSrc S.shape sel k) ∧ R.m k = S.m (selSrc S.shape sel k) := by
  unfold sliceSpec at h
  rw [(C09_hooks_keep .slice S).1, (C09_hooks_keep .slice S).2] at h
  split_ifs at h
  injection h with h; subst h
  refine ⟨rfl, rfl, fun k hk => ⟨?_, ?_⟩⟩
  · show (tabulate (prodL (selCounts sel)) _).getD k _ = _
    rw [tabulate_getD _ _ _ hk]
  · show (tabulate (prodL (selCounts sel)) _).getD k _ = _
    rw [tabulate_getD _ _ _ hk]

example : ∃ S R : Spec, sliceSpec S [⟨1, 2, 1, false⟩] = .ok R := ⟨⟨[3], #[1, 2, 3], #[false, false, false], true, none⟩, _, rfl⟩

/-- Unary operations — `-fs`, `+fs`, `abs(fs)`, `fs.copy()`, `copy.deepcopy(fs)`, `fs.view()`, `fs.log()` — are always
    defined and keep shape, folding status and labels; the mask is the operand's (for `log`: plus the entries outside its
    domain, `x ≤ 0`); the data is `−x`, `|x|` resp. `x` on every entry, masked or not (`log`: not a rational, not modelled). -/
theorem C09_unary_keeps (op : UnaryOp) (S : Spec) :
    ∃ R, unarySpec op S = .ok R ∧ R.folded = S.folded ∧ R.popIds = S.popIds ∧ R.shape = S.shape
      ∧ ∀ k < S.N, R.m k = (if op = .log then (S.m k || decide (S.x k ≤ 0)) else S.m k)
          ∧ (op = .neg → R.x k = - S.x k) ∧ (op = .abs → R.x k = |S.x k|)
          ∧ (op = .pos ∨ op = .copy ∨ op = .deepcopy ∨ op = .view → R.x k = S.x k) := by
  have habs : ∀ x : ℚ, ratAbs x = |x| := by
    intro x; unfold ratAbs
    split_ifs with hx
    · exact (abs_of_neg hx).symm
    · exact (abs_of_nonneg (not_lt.mp hx)).symm
  unfold unarySpec
  rw [(C09_hooks_keep op.kind S).1, (C09_hooks_keep op.kind S).2]
  refine ⟨_, rfl, rfl, rfl, rfl, fun k hk => ?_⟩
  have hm : ∀ (f : ℕ → Bool), (⟨S.shape, tabulate S.N fun k => unaryData op (S.x k), tabulate S.N f, S.folded, S.popIds⟩ : Spec).m k = f k :=
    fun f => m_of_mask rfl hk
  have hx : ∀ (f : ℕ → Bool), (⟨S.shape, tabulate S.N fun k => unaryData op (S.x k), tabulate S.N f, S.folded, S.popIds⟩ : Spec).x k
      = unaryData op (S.x k) := fun f => x_of_data (f := fun k => unaryData op (S.x k)) rfl hk
  rw [hm, hx]
  cases op <;> simp [unaryMask, unaryData, habs]

example : ∃ R, unarySpec .neg ⟨[2], #[1, -2], #[false, true], true, some ["a"]⟩ = .ok R ∧ R.x 1 = 2 ∧ R.m 1 = true ∧ R.folded = true :=
  ⟨_, rfl, by decide, by decide, rfl⟩

/-! ## automatic folding -/

/-- Every likelihood/residual function of `Inference.py` that folds the model does so exactly when the data
    is folded and the model is not (complete table of the generated guards). -/
theorem C09_autofold :
    ∀ fname ∈ autofoldFunctions, ∀ dataFolded modelFolded : Bool,
      autofold fname true dataFolded modelFolded = some (dataFolded && !modelFolded) := by
  decide

/-- …and `ll_per_bin` (hence `ll`, `ll_multinom`) and `optimal_sfs_scaling` are among them. -/
theorem C09_autofold_covers : "ll_per_bin" ∈ autofoldFunctions ∧ "optimal_sfs_scaling" ∈ autofoldFunctions := by
  decide

end DadiVerif
