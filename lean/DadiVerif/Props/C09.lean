import DadiVerif.Lemmas.Fold
/-!
# C09 — folding and ancestral misidentification conserve counts; symmetric, idempotent;
# folding status, masks and labels survive arithmetic, slicing and likelihood evaluation

Property theorems only (helper lemmas are in `Lemmas/Fold.lean`).  All statements are about the
definitions the driver executes (`Fold.foldSpec`, `unfoldSpec`, `reverseSpec`, `applyMisid`, `binop`,
`inplace`, `sliceSpec`, `autofold` of `Model/Fold.lean`), whose pointwise formulas (`Gen.Fold.fold_outData`,
`fold_outMask`, `unfold_*`, `misidCoef*`, `foldingRefused`, `binop*`, `cornerFlat`, `autofold_*`, the
method lists) are *regenerated from the current source* by tools/gen_Fold.py on every run.

A spectrum `S` is a C-ordered flat array with `S.N` entries of any shape (any number of populations,
any sample sizes, even or odd total), arbitrary rational data and arbitrary mask.  For a flat index
`k < S.N`:  `S.x k` data, `S.m k` mask, `S.mir k = S.N-1-k` the allele-swapped mirror entry,
`S.tot k` the number of derived alleles of entry `k`, `S.T` the total sample size.
-/
namespace DadiVerif
open Fold Gen.Fold Finset

/-! ## the index structure: mirror = reversal of every axis; totals add up to the sample size -/

/-- Reversing the flat C-order array (`k ↦ N-1-k`, what the model executes) is `reverse_array`:
    the multi-index of the image is `(n₁-i₁, …, n_d-i_d)`; for every shape and every entry. -/
theorem C09_mirror_axes (shape : List ℕ) (k : ℕ) (hk : k < prodL shape) :
    unflat shape (mirrorFlat (prodL shape) k) = mirrorIdx shape (unflat shape k)
    ∧ mirrorFlat (prodL shape) (mirrorFlat (prodL shape) k) = k
    ∧ mirrorFlat (prodL shape) k < prodL shape :=
  ⟨unflat_mirror shape k hk, mirrorFlat_invol hk, mirrorFlat_lt hk⟩

example : unflat [3, 4] (mirrorFlat 12 5) = [1, 2] ∧ unflat [3, 4] 5 = [1, 1] := by decide

/-- An entry with `t` derived alleles is paired with one with `T − t`. -/
theorem C09_total_mirror (shape : List ℕ) (k : ℕ) (hk : k < prodL shape) :
    totalFlat shape (mirrorFlat (prodL shape) k) = totalSamples shape - totalFlat shape k
    ∧ totalFlat shape k ≤ totalSamples shape := by
  have := totalFlat_mirror hk
  constructor <;> omega

/-! ## fold -/

/-- `fold` is defined exactly on unfolded spectra (otherwise `ValueError`). -/
theorem C09_fold_guard (S : Spec) :
    (S.folded = false → foldSpec S = .ok (foldOut S)) ∧ (S.folded = true → foldSpec S = .raise "ValueError") := by
  rw [foldSpec_eq]; constructor <;> intro h <;> simp [h]

/-- Each entry and its allele-swapped mirror go to the minor-allele entry; ambiguous entries
    (`2·tot = T`, only for even `T`) are shared equally; major-allele entries are zeroed.
    (The generated straight-line program of `Spectrum.fold` equals this closed form.) -/
theorem C09_fold_pair (S F : Spec) (h : foldSpec S = .ok F) (k : ℕ) (hk : k < S.N) :
    F.x k = (if 2 * S.tot k > S.T then 0
             else if 2 * S.tot k = S.T then (S.x k + S.x (S.mir k)) / 2
             else S.x k + S.x (S.mir k))
    ∧ F.shape = S.shape ∧ F.folded = true ∧ F.popIds = S.popIds := by
  rw [foldSpec_eq] at h
  split_ifs at h
  injection h with h; subst h
  exact ⟨foldOut_x S hk, rfl, rfl, foldOut_popIds S⟩

example : ∃ S F : Spec, foldSpec S = .ok F ∧ S.N = 12 :=
  ⟨⟨[3, 4], #[], #[], false, none⟩, _, (C09_fold_guard _).1 rfl, rfl⟩

/-- Folding conserves the total of the data array (all entries), for every shape, parity and data. -/
theorem C09_fold_total (S F : Spec) (h : foldSpec S = .ok F) : sumData F = sumData S := by
  rw [foldSpec_eq] at h
  split_ifs at h
  injection h with h; subst h
  rw [sumData_eq, sumData_eq, foldOut_N]
  rw [Finset.sum_congr rfl (fun k hk => foldOut_x S (mem_range.mp hk))]
  exact sfold_total S.N _ _ _ (fun k hk => S.loc hk)

/-- The mask of the folded spectrum is the union of the entry's mask, its mirror's mask, the
    "folded out" region, and the two corners (the constructor's default `mask_corners`). -/
theorem C09_fold_mask (S F : Spec) (h : foldSpec S = .ok F) (k : ℕ) (hk : k < S.N) :
    F.m k = (S.m k || S.m (S.mir k) || decide (2 * S.tot k > S.T) || (k == 0 || k == S.N - 1)) := by
  rw [foldSpec_eq] at h
  split_ifs at h
  injection h with h; subst h
  rw [foldOut_m S hk]; rfl

/-- Unmasked total: the sum over the unmasked entries of the folded spectrum is the sum of the input
    over the entries that are unmasked together with their mirror (corners counted as masked). -/
theorem C09_fold_total_unmasked (S F : Spec) (h : foldSpec S = .ok F) :
    sumUnmasked F
      = sumUnmasked { S with mask := tabulate S.N fun k => S.m k || S.m (S.mir k) || cornerFlat S.N k } := by
  rw [foldSpec_eq] at h
  split_ifs at h
  injection h with h; subst h
  rw [sumUnmasked_eq, sumUnmasked_eq, foldOut_N]
  set u : ℕ → Bool := fun k => !(S.m k || S.m (mirrorFlat S.N k) || cornerFlat S.N k) with hu
  have husym : ∀ k < S.N, u (mirrorFlat S.N k) = u k := by
    intro k hk
    simp only [hu, mirrorFlat_invol hk, cornerFlat_mirror hk]
    cases S.m k <;> cases S.m (mirrorFlat S.N k) <;> rfl
  have hL : ∀ k ∈ range S.N, (if (foldOut S).m k then (0 : ℚ) else (foldOut S).x k)
      = sfold (mirrorFlat S.N) (totalFlat S.shape) (totalSamples S.shape) (fun j => if u j then S.x j else 0) k := by
    intro k hk
    have hk' := mem_range.mp hk
    rw [sfold_indicator S.x u (husym k hk'), foldOut_m S hk', foldOut_x S hk']
    simp only [hu]
    by_cases hf : fo (totalFlat S.shape) (totalSamples S.shape) k = true
    · have : sfold (mirrorFlat S.N) (totalFlat S.shape) (totalSamples S.shape) S.x k = 0 := by
        unfold sfold; unfold fo at hf; simp only [decide_eq_true_eq] at hf; rw [if_pos hf]
      simp [hf, this]
    · simp only [Bool.not_eq_true] at hf
      cases S.m k <;> cases S.m (mirrorFlat S.N k) <;> cases cornerFlat S.N k <;> simp [hf]
  have hR : ∀ k ∈ range S.N,
      (if ({ S with mask := tabulate S.N fun k => S.m k || S.m (S.mir k) || cornerFlat S.N k } : Spec).m k then (0 : ℚ)
        else ({ S with mask := tabulate S.N fun k => S.m k || S.m (S.mir k) || cornerFlat S.N k } : Spec).x k)
      = (fun j => if u j then S.x j else 0) k := by
    intro k hk
    have hk' := mem_range.mp hk
    have e : ({ S with mask := tabulate S.N fun k => S.m k || S.m (S.mir k) || cornerFlat S.N k } : Spec).m k
        = (S.m k || S.m (S.mir k) || cornerFlat S.N k) := by
      show (tabulate S.N _).getD k _ = _
      rw [tabulate_getD _ _ _ hk']
    rw [e]
    simp only [hu]
    cases S.m k <;> cases S.m (mirrorFlat S.N k) <;> cases cornerFlat S.N k <;> simp [Spec.x]
  rw [Finset.sum_congr rfl hL]
  have : ({ S with mask := tabulate S.N fun k => S.m k || S.m (S.mir k) || cornerFlat S.N k } : Spec).N = S.N := rfl
  rw [this, Finset.sum_congr rfl hR]
  exact sfold_total S.N _ _ _ (fun k hk => S.loc hk)

/-- …in particular `fs.fold().sum() = fs.sum()` whenever the mask is mirror-symmetric and contains the corners
    (e.g. the default mask of a `Spectrum`). -/
theorem C09_fold_total_symmetric_mask (S F : Spec) (h : foldSpec S = .ok F)
    (hsym : ∀ k < S.N, S.m (S.mir k) = S.m k) (hc : ∀ k < S.N, cornerFlat S.N k = true → S.m k = true) :
    sumUnmasked F = sumUnmasked S := by
  rw [C09_fold_total_unmasked S F h, sumUnmasked_eq, sumUnmasked_eq]
  refine Finset.sum_congr rfl (fun k hk => ?_)
  have hk' := mem_range.mp hk
  have e : ({ S with mask := tabulate S.N fun k => S.m k || S.m (S.mir k) || cornerFlat S.N k } : Spec).m k
      = (S.m k || S.m (S.mir k) || cornerFlat S.N k) := by
    show (tabulate S.N _).getD k _ = _
    rw [tabulate_getD _ _ _ hk']
  rw [e, hsym k hk']
  have := hc k hk'
  cases hm : S.m k <;> cases hcf : cornerFlat S.N k <;> simp_all [Spec.x]

example : ∃ S : Spec, (∀ k < S.N, S.m (S.mir k) = S.m k)
    ∧ (∀ k < S.N, cornerFlat S.N k = true → S.m k = true) ∧ S.N = 3 :=
  ⟨⟨[3], #[1, 2, 3], #[true, false, true], false, none⟩, by decide, by decide, rfl⟩

/-- The result is unchanged if the input is first mirrored (data, mask, flags, labels: the whole record). -/
theorem C09_fold_mirror (S : Spec) : foldSpec (reverseSpec S) = foldSpec S := by
  rw [foldSpec_eq, foldSpec_eq]
  have hf : (reverseSpec S).folded = S.folded := rfl
  rw [hf]
  split_ifs
  · rfl
  · congr 1
    apply spec_eq_of
    · rfl
    · apply tabulate_congr
      intro k hk
      have hk' : k < S.N := hk
      have hl := S.loc hk'
      rw [fold_outData_eq _ _ ((reverseSpec S).loc hk), fold_outData_eq _ _ hl]
      have h1 : (reverseSpec S).x k = S.x (mirrorFlat S.N k) := reverseSpec_x S hk'
      have h2 : (reverseSpec S).x (mirrorFlat S.N k) = S.x k := by
        rw [reverseSpec_x S (mirrorFlat_lt hk'), mirrorFlat_invol hk']
      show sfold (mirrorFlat S.N) (totalFlat S.shape) (totalSamples S.shape) (reverseSpec S).x k = _
      unfold sfold
      rw [h1, h2]
      split_ifs <;> ring
    · rw [foldOut_mask, foldOut_mask]
      apply tabulate_congr
      intro k hk
      have hk' : k < S.N := hk
      rw [fold_outMask_eq, fold_outMask_eq]
      have h1 : (reverseSpec S).m k = S.m (mirrorFlat S.N k) := reverseSpec_m S hk'
      have h2 : (reverseSpec S).m (mirrorFlat S.N k) = S.m k := by
        rw [reverseSpec_m S (mirrorFlat_lt hk'), mirrorFlat_invol hk']
      show ((reverseSpec S).m k || (reverseSpec S).m (mirrorFlat S.N k) || _ || _) = _
      rw [h1, h2]
      cases S.m k <;> cases S.m (mirrorFlat S.N k) <;> rfl
    · rfl
    · rfl

/-! ## the operands survive: `fold` / `unfold` are not in-place -/

/-- `x.fold()` and `x.unfold()` leave `x` itself as it was — data and mask on every entry (for every mask pattern, in
    particular masks that are not mirror-symmetric), shape, folding status, labels — whether they return or raise; and
    the spectrum they construct is not handed memory of `x` uncopied (so masking the result later, e.g. its corners,
    cannot reach `x`).  `foldSelfAfter` / `unfoldSelfAfter` are built from the generated state of `self.data` /
    `self.mask` after the translated statements (in-place updates through local aliases of the caller's buffers
    included).  Hence a model passed to a likelihood function with folded data (`model = model.fold()`,
    `C09_autofold`) is the same model afterwards. -/
theorem C09_fold_pure (S : Spec) :
    (∀ k < S.N, (foldSelfAfter S).x k = S.x k ∧ (foldSelfAfter S).m k = S.m k
              ∧ (unfoldSelfAfter S).x k = S.x k ∧ (unfoldSelfAfter S).m k = S.m k)
    ∧ (foldSelfAfter S).shape = S.shape ∧ (foldSelfAfter S).folded = S.folded ∧ (foldSelfAfter S).popIds = S.popIds
    ∧ (unfoldSelfAfter S).shape = S.shape ∧ (unfoldSelfAfter S).folded = S.folded ∧ (unfoldSelfAfter S).popIds = S.popIds
    ∧ fold_outSharesSelf = false ∧ unfold_outSharesSelf = false := by
  refine ⟨fun k hk => ⟨?_, ?_, ?_, ?_⟩, ?_, ?_, ?_, ?_, ?_, ?_, by decide, by decide⟩
  · unfold foldSelfAfter; split_ifs
    · rfl
    · show (tabulate S.N _).getD k _ = _
      rw [tabulate_getD _ _ _ hk]; rfl
  · unfold foldSelfAfter; split_ifs
    · rfl
    · show (tabulate S.N _).getD k _ = _
      rw [tabulate_getD _ _ _ hk]; rfl
  · unfold unfoldSelfAfter; split_ifs
    · rfl
    · show (tabulate S.N _).getD k _ = _
      rw [tabulate_getD _ _ _ hk]; rfl
  · unfold unfoldSelfAfter; split_ifs
    · rfl
    · show (tabulate S.N _).getD k _ = _
      rw [tabulate_getD _ _ _ hk]; rfl
  all_goals first | (unfold foldSelfAfter; split_ifs <;> rfl) | (unfold unfoldSelfAfter; split_ifs <;> rfl)

/-- …as whole records, for a well-formed spectrum (arrays as long as the shape says). -/
theorem C09_fold_pure_record (S : Spec) (hd : S.data.size = S.N) (hm : S.mask.size = S.N) :
    foldSelfAfter S = S ∧ unfoldSelfAfter S = S := by
  obtain ⟨hk, h1, h2, h3, h4, h5, h6, _, _⟩ := C09_fold_pure S
  have key : ∀ A : Spec, A.data.size = S.N → A.mask.size = S.N → (∀ k < S.N, A.x k = S.x k ∧ A.m k = S.m k) →
      A.shape = S.shape → A.folded = S.folded → A.popIds = S.popIds → A = S := by
    intro A had ham hx hs hf hp
    apply spec_eq_of hs ?_ ?_ hf hp
    · apply Array.ext (by rw [had, hd])
      intro k h1 h2
      have hkN : k < S.N := by rw [← had]; exact h1
      have := (hx k hkN).1
      simpa [Spec.x, Array.getD, h1, h2] using this
    · apply Array.ext (by rw [ham, hm])
      intro k h1 h2
      have hkN : k < S.N := by rw [← ham]; exact h1
      have := (hx k hkN).2
      simpa [Spec.m, Array.getD, h1, h2] using this
  have sz : ∀ (A : Spec), (A = S ∨ (A.data.size = S.N ∧ A.mask.size = S.N)) → A.data.size = S.N ∧ A.mask.size = S.N := by
    rintro A (rfl | h)
    · exact ⟨hd, hm⟩
    · exact h
  have hF := sz (foldSelfAfter S) (by
    unfold foldSelfAfter; split_ifs
    · exact Or.inl rfl
    · exact Or.inr ⟨tabulate_size _ _, tabulate_size _ _⟩)
  have hU := sz (unfoldSelfAfter S) (by
    unfold unfoldSelfAfter; split_ifs
    · exact Or.inl rfl
    · exact Or.inr ⟨tabulate_size _ _, tabulate_size _ _⟩)
  exact ⟨key _ hF.1 hF.2 (fun k h => ⟨(hk k h).1, (hk k h).2.1⟩) h1 h2 h3,
         key _ hU.1 hU.2 (fun k h => ⟨(hk k h).2.2.1, (hk k h).2.2.2⟩) h4 h5 h6⟩

/-- non-vacuity: a 2×3 spectrum with a mask that is not mirror-symmetric (entry (0,1) masked, its mirror (1,1) not) -/
example : ∃ S : Spec, S.data.size = S.N ∧ S.mask.size = S.N ∧ S.m 1 = true ∧ S.m (S.mir 1) = false
    ∧ ∃ F, foldSpec S = .ok F ∧ F.m (S.mir 1) = true ∧ foldSelfAfter S = S :=
  let S : Spec := ⟨[2, 3], #[0, 1, 2, 3, 4, 5], #[false, true, false, false, false, false], false, some ["a", "b"]⟩
  ⟨S, rfl, rfl, rfl, rfl, foldOut S, (C09_fold_guard S).1 rfl, by decide, (C09_fold_pure_record S rfl rfl).1⟩

/-- The operator templates contain no statement that stores into `other` (the binary ones: nor into `self`), and no
    function of the likelihood family `f(model, data, …)` of `Inference.py` contains a statement that stores into one
    of its two arguments (item/attribute assignment, in-place operator, mutating method, `out=`): the only thing they do
    to the model is rebind the local name to `model.fold()` (`C09_autofold`), which leaves it alone (`C09_fold_pure`).
    (Syntactic scan of the current source by the translator; behaviour — operands compared before/after — is L3.) -/
theorem C09_operands_not_stored :
    templatesLeaveOperands = true ∧ likelihoodStoresIntoArgs = []
    ∧ (∀ f ∈ ["ll", "ll_per_bin", "ll_multinom", "ll_multinom_per_bin", "optimal_sfs_scaling", "optimally_scaled_sfs",
              "linear_Poisson_residual", "Anscombe_Poisson_residual"], f ∈ likelihoodFamily)
    ∧ (∀ f ∈ autofoldFunctions, f ∈ likelihoodFamily) := by
  decide

/-! ## unfold, and fold ∘ unfold ∘ fold = fold -/

/-- `unfold` is defined exactly on folded spectra; its data is the symmetric split `(y + mirror y)/2`,
    data and mask are mirror-symmetric, the total of the data array is conserved, labels are kept. -/
theorem C09_unfold_sym (F U : Spec) (h : unfoldSpec F = .ok U) :
    F.folded = true ∧ U.folded = false ∧ U.popIds = F.popIds ∧ U.shape = F.shape
    ∧ (∀ k < F.N, U.x k = (F.x k + F.x (F.mir k)) / 2 ∧ U.x (F.mir k) = U.x k ∧ U.m (F.mir k) = U.m k)
    ∧ sumData U = sumData F := by
  rw [unfoldSpec_eq] at h
  split_ifs at h with hf
  injection h with h; subst h
  refine ⟨hf, rfl, unfoldOut_popIds F, rfl, ?_, ?_⟩
  · intro k hk
    have hk2 := mirrorFlat_lt hk
    refine ⟨unfoldOut_x F hk, ?_, ?_⟩
    · rw [unfoldOut_x F hk2, unfoldOut_x F hk, mirrorFlat_invol hk]; ring
    · rw [unfoldOut_m F hk2, unfoldOut_m F hk, mirrorFlat_invol hk, cornerFlat_mirror hk]
      cases F.m k <;> cases F.m (mirrorFlat F.N k) <;>
        cases fo (totalFlat F.shape) (totalSamples F.shape) k <;>
        cases fo (totalFlat F.shape) (totalSamples F.shape) (mirrorFlat F.N k) <;> rfl
  · rw [sumData_eq, sumData_eq, unfoldOut_N]
    rw [Finset.sum_congr rfl (fun k hk => unfoldOut_x F (mem_range.mp hk))]
    rw [← Finset.sum_div, Finset.sum_add_distrib, sum_reflect F.x F.N]
    ring

example : ∃ F U : Spec, unfoldSpec F = .ok U :=
  ⟨⟨[3, 4], #[], #[], true, none⟩, _, by rw [unfoldSpec_eq]; rfl⟩

/-- fold(unfold(fold(x))) = fold(x): the whole record — data on every entry (masked or not), the mask
    (the xor/or algebra of `unfold`, both corner maskings included), folding flag, labels, shape —
    for every shape (even and odd total sample size), all data and all mask patterns. -/
theorem C09_fuf (S : Spec) (hS : S.folded = false) :
    ∃ F U, foldSpec S = .ok F ∧ unfoldSpec F = .ok U ∧ foldSpec U = .ok F := by
  refine ⟨foldOut S, unfoldOut (foldOut S), (C09_fold_guard S).1 hS, ?_, ?_⟩
  · rw [unfoldSpec_eq]; rfl
  · rw [(C09_fold_guard _).1 (unfoldOut_folded _)]
    congr 1
    apply spec_eq_of
    · rfl
    · apply tabulate_congr
      intro k hk
      have hk' : k < S.N := hk
      have hk2 := mirrorFlat_lt hk'
      have hl := S.loc hk'
      have hU : ∀ j < S.N, (unfoldOut (foldOut S)).x j
          = (sfold (mirrorFlat S.N) (totalFlat S.shape) (totalSamples S.shape) S.x j
             + sfold (mirrorFlat S.N) (totalFlat S.shape) (totalSamples S.shape) S.x (mirrorFlat S.N j)) / 2 := by
        intro j hj
        rw [unfoldOut_x (foldOut S) hj]
        show ((foldOut S).x j + (foldOut S).x (mirrorFlat S.N j)) / 2 = _
        rw [foldOut_x S hj, foldOut_x S (mirrorFlat_lt hj)]
      have e1 := fold_outData_eq (unfoldOut (foldOut S)).x (unfoldOut (foldOut S)).m hl
      have e2 := fold_outData_eq S.x S.m hl
      show fold_outData (mirrorFlat S.N) (totalFlat S.shape) (totalSamples S.shape) _ _ k = _
      rw [e1, e2, ← sfold_unfold_sfold S.x hl]
      exact sfold_congr (hU k hk') (hU _ hk2)
    · rw [foldOut_mask, foldOut_mask]
      apply tabulate_congr
      intro k hk
      have hk' : k < S.N := hk
      have hk2 := mirrorFlat_lt hk'
      have hl := S.loc hk'
      have hc := cornerFlat_mirror hk'
      have key := mask_fuf S.m hl (cornerFlat S.N) hc
      simp only at key
      show (fold_outMask (mirrorFlat S.N) (totalFlat S.shape) (totalSamples S.shape) _ (unfoldOut (foldOut S)).m k
            || (fold_maskCorners && cornerFlat S.N k))
          = (fold_outMask (mirrorFlat S.N) (totalFlat S.shape) (totalSamples S.shape) _ S.m k
            || (fold_maskCorners && cornerFlat S.N k))
      rw [fold_outMask_eq, fold_outMask_eq]
      have hUm : ∀ j < S.N, (unfoldOut (foldOut S)).m j
          = (((S.m j || S.m (mirrorFlat S.N j) || fo (totalFlat S.shape) (totalSamples S.shape) j || cornerFlat S.N j)
                ^^ fo (totalFlat S.shape) (totalSamples S.shape) j)
             || ((S.m (mirrorFlat S.N j) || S.m (mirrorFlat S.N (mirrorFlat S.N j))
                  || fo (totalFlat S.shape) (totalSamples S.shape) (mirrorFlat S.N j) || cornerFlat S.N (mirrorFlat S.N j))
                ^^ fo (totalFlat S.shape) (totalSamples S.shape) (mirrorFlat S.N j))
             || cornerFlat S.N j) := by
        intro j hj
        rw [unfoldOut_m (foldOut S) hj]
        show (((foldOut S).m j ^^ _) || ((foldOut S).m (mirrorFlat S.N j) ^^ _) || _) = _
        rw [foldOut_m S hj, foldOut_m S (mirrorFlat_lt hj)]
        rfl
      rw [hUm k hk', hUm _ hk2]
      simp only [mirrorFlat_invol hk', hc, fold_maskCorners, Bool.true_and] at key ⊢
      rw [← key]
      cases S.m k <;> cases S.m (mirrorFlat S.N k) <;> cases cornerFlat S.N k <;>
        cases fo (totalFlat S.shape) (totalSamples S.shape) k <;>
        cases fo (totalFlat S.shape) (totalSamples S.shape) (mirrorFlat S.N k) <;> rfl
    · rfl
    · show (if fold_popIdsFromSelf then (unfoldOut (foldOut S)).popIds else none) = (foldOut S).popIds
      rw [unfoldOut_popIds]; simp [fold_popIdsFromSelf]

/-! ## ancestral misidentification -/

/-- `apply_anc_state_misid(fs, p)` is always defined; its data is the convex mix
    `(1−p)·x + p·mirror x` on every entry, its mask the union of mask and mirrored mask;
    shape, folding flag and labels are those of the input; for every rational `p`. -/
theorem C09_misid (S : Spec) (p : ℚ) :
    ∃ R, applyMisid S p = .ok R
      ∧ (∀ k < S.N, R.x k = (1 - p) * S.x k + p * S.x (S.mir k) ∧ R.m k = (S.m k || S.m (S.mir k)))
      ∧ R.shape = S.shape ∧ R.folded = S.folded ∧ R.popIds = S.popIds := by
  have hmem1 : "__rmul__" ∈ binaryMethods := by decide
  have hmem2 : "__add__" ∈ binaryMethods := by decide
  have hl1 : "__rmul__" ∉ ndarrayLacks := by decide
  have hl2 : "__add__" ∉ ndarrayLacks := by decide
  have hdef : ∀ (M : Method) (A : Spec) (o : Operand), (M.op = .add ∨ M.op = .mul) → arithDefined M A o = true :=
    fun M A o h => arithDefined_ring M A o (by rcases h with h | h <;> simp [h])
  have hA : binop "__rmul__" S (.scalar (misidCoefSelf p)) = .ok (binOut ⟨.mul, true⟩ S (.scalar (misidCoefSelf p))) :=
    binop_eq_ok hmem1 (by simp [foldingRefused, Operand.isSpectrum]) hl1 rfl rfl (hdef _ _ _ (Or.inr rfl))
  have hB : binop "__rmul__" (reverseSpec S) (.scalar (misidCoefMirror p))
      = .ok (binOut ⟨.mul, true⟩ (reverseSpec S) (.scalar (misidCoefMirror p))) :=
    binop_eq_ok hmem1 (by simp [foldingRefused, Operand.isSpectrum]) hl1 rfl rfl (hdef _ _ _ (Or.inr rfl))
  set A := binOut ⟨.mul, true⟩ S (.scalar (misidCoefSelf p)) with hAdef
  set B := binOut ⟨.mul, true⟩ (reverseSpec S) (.scalar (misidCoefMirror p)) with hBdef
  have hAN : A.N = S.N := rfl
  have hBN : B.N = S.N := rfl
  have hC : binop "__add__" A (.spectrum B) = .ok (binOut ⟨.add, false⟩ A (.spectrum B)) := by
    have hfit : (Operand.spectrum B).fits A.N = true := by
      simp [Operand.fits, hBdef, binOut, tabulate_size, reverseSpec_N, hAN]
    have hfold : foldingRefused (Operand.spectrum B).isSpectrum A.folded (Operand.spectrum B).folded = false := by
      simp [foldingRefused, Operand.folded, hAdef, hBdef, binOut, binopFolded, reverseSpec]
    exact binop_eq_ok hmem2 hfold hl2 hfit rfl (hdef _ _ _ (Or.inl rfl))
  refine ⟨binOut ⟨.add, false⟩ A (.spectrum B), ?_, ?_, rfl, ?_, ?_⟩
  · unfold applyMisid misidLeftMethod misidSumMethod
    rw [hA, hB]; exact hC
  · intro k hk
    have hAx : A.x k = misidCoefSelf p * S.x k := by
      have := binOut_x (hdef ⟨.mul, true⟩ S (.scalar (misidCoefSelf p)) (Or.inr rfl)) hk
      simp [arith, Operand.dataAt] at this
      exact this.symm
    have hBx : B.x k = misidCoefMirror p * S.x (mirrorFlat S.N k) := by
      have := binOut_x (hdef ⟨.mul, true⟩ (reverseSpec S) (.scalar (misidCoefMirror p)) (Or.inr rfl)) (k := k) hk
      simp [arith, Operand.dataAt] at this
      rw [reverseSpec_x S hk] at this
      exact this.symm
    have hRx := binOut_x (hdef ⟨.add, false⟩ A (.spectrum B) (Or.inl rfl)) (k := k) hk
    simp [arith, Operand.dataAt] at hRx
    constructor
    · rw [← hRx, hAx, hBx]; simp [misidCoefSelf, misidCoefMirror]
    · rw [binOut_m (M := ⟨.add, false⟩) (S := A) (o := .spectrum B) hk]
      have h1 : A.m k = S.m k := by
        rw [binOut_m (M := ⟨.mul, true⟩) (S := S) hk]; simp [Operand.maskAt]
      have h2 : B.m k = S.m (mirrorFlat S.N k) := by
        rw [binOut_m (M := ⟨.mul, true⟩) (S := reverseSpec S) (k := k) hk, reverseSpec_m S hk]; simp [Operand.maskAt]
      simp [Operand.maskAt, h1, h2]
  · simp [binOut, binopFolded, hAdef]
  · simp only [binOut, Operand.isSpectrum, Operand.popIds, if_true, hAdef, hBdef, reverseSpec, binopPopIds_eq]
    cases S.popIds <;> simp

/-- Misidentification conserves the total; `p = 0` is the identity and `p = 1` the mirror image (on the data). -/
theorem C09_misid_total (S R : Spec) (p : ℚ) (h : applyMisid S p = .ok R) :
    sumData R = sumData S
    ∧ (p = 0 → ∀ k < S.N, R.x k = S.x k) ∧ (p = 1 → ∀ k < S.N, R.x k = S.x (S.mir k)) := by
  obtain ⟨R', hR', hx, hs, _, _⟩ := C09_misid S p
  rw [h] at hR'; injection hR' with hR'; subst hR'
  have hN : R.N = S.N := by unfold Spec.N; rw [hs]
  refine ⟨?_, ?_, ?_⟩
  · rw [sumData_eq, sumData_eq, hN, Finset.sum_congr rfl (fun k hk => (hx k (mem_range.mp hk)).1)]
    rw [Finset.sum_add_distrib, ← Finset.mul_sum, ← Finset.mul_sum, sum_reflect S.x S.N]
    ring
  · intro hp k hk; rw [(hx k hk).1, hp]; ring
  · intro hp k hk; rw [(hx k hk).1, hp]; ring

example : ∃ S R : Spec, applyMisid S (1/4) = .ok R ∧ S.N = 6 :=
  let S : Spec := ⟨[2, 3], #[0, 1, 2, 3, 4, 5], #[true, false, false, false, false, true], false, some ["a", "b"]⟩
  ⟨S, (C09_misid S (1/4)).choose, (C09_misid S (1/4)).choose_spec.1, rfl⟩

/-! ## arithmetic templates: refusal of mixed folding; folding status, masks, labels survive -/

/-- The generated method lists contain every Python-3 arithmetic operator, reflected and in-place forms. -/
theorem C09_methods :
    (∀ n ∈ ["__add__", "__radd__", "__sub__", "__rsub__", "__mul__", "__rmul__", "__truediv__", "__rtruediv__",
            "__floordiv__", "__rfloordiv__", "__pow__", "__rpow__"], n ∈ binaryMethods ∧ n ∉ ndarrayLacks ∧ (methodOf n).isSome)
    ∧ (∀ n ∈ ["__iadd__", "__isub__", "__imul__", "__itruediv__", "__ifloordiv__", "__ipow__"],
         n ∈ inplaceMethods ∧ n ∉ ndarrayLacks ∧ (methodOf n).isSome) := by
  decide

/-- Arithmetic between a folded and an unfolded Spectrum is refused (`ValueError`) by every binary and
    every in-place template, before anything is computed or modified. -/
theorem C09_arith_refused (name : String) (S O : Spec) (hne : S.folded ≠ O.folded) :
    (name ∈ binaryMethods → binop name S (.spectrum O) = .raise "ValueError")
    ∧ (name ∈ inplaceMethods → inplace name S (.spectrum O) = .raise "ValueError") := by
  have hr : foldingRefused (Operand.spectrum O).isSpectrum S.folded (Operand.spectrum O).folded = true := by
    simp only [foldingRefused, Operand.isSpectrum, Operand.folded, Bool.true_and]
    cases hs : S.folded <;> cases ho : O.folded <;> simp_all
  constructor <;> intro hn
  · unfold binop guards
    simp [hn, hr, foldingRefusedWhat]
  · unfold inplace guards
    simp [hn, hr, foldingRefusedWhat]

example : ∃ S O : Spec, S.folded ≠ O.folded := ⟨⟨[2], #[1, 2], #[false, false], false, none⟩, ⟨[2], #[1, 2], #[false, false], true, none⟩, by decide⟩

/-- Whenever a binary template returns, the two operands had the same folding status (if both are
    Spectra), the data is the pointwise operation on the operands' *data* (masked entries included), the
    mask is the union of the operands' masks (no corner masking), folding status and shape are those of
    `self`, labels are those of `self`, or of the other operand if `self` has none. -/
theorem C09_arith_keeps (name : String) (S R : Spec) (o : Operand) (h : binop name S o = .ok R) :
    ∃ M, methodOf name = some M ∧ name ∈ binaryMethods
      ∧ (o.isSpectrum = true → o.folded = S.folded)
      ∧ (∀ k < S.N, arith M (S.x k) (o.dataAt k) = some (R.x k) ∧ R.m k = (S.m k || o.maskAt k))
      ∧ R.folded = S.folded ∧ R.shape = S.shape ∧ R.popIds = S.popIds.orElse fun _ => o.popIds := by
  obtain ⟨M, hM, hg, hd, rfl⟩ := binop_ok h
  obtain ⟨hmem, hfr, _, _⟩ := guards_none hg
  refine ⟨M, hM, hmem, ?_, fun k hk => ⟨binOut_x hd hk, binOut_m hk⟩, rfl, rfl, ?_⟩
  · intro hs
    simp only [foldingRefused, hs, Bool.true_and] at hfr
    simpa using hfr
  · simp only [binOut, binopPopIds_eq]
    cases o <;> simp [Operand.isSpectrum, Operand.popIds]

/-- The binary templates construct their result with `copy=True`: the new Spectrum owns its data and mask buffers.
    (Only this constructor flag is tied by translation; that no buffer is shared in fact — result vs operands, both
    directions, after later masking — is checked on the implementation by L3, aliasing is not part of the value-level model.) -/
theorem C09_arith_fresh : binopCopies = true := rfl

/-- The same for the in-place templates; labels of `self` are untouched. -/
theorem C09_inplace_keeps (name : String) (S R : Spec) (o : Operand) (h : inplace name S o = .ok R) :
    ∃ M, methodOf name = some M ∧ name ∈ inplaceMethods
      ∧ (o.isSpectrum = true → o.folded = S.folded)
      ∧ (∀ k < S.N, arith M (S.x k) (o.dataAt k) = some (R.x k) ∧ R.m k = (S.m k || o.maskAt k))
      ∧ R.folded = S.folded ∧ R.shape = S.shape ∧ R.popIds = S.popIds := by
  obtain ⟨M, hM, hg, hd, rfl⟩ := inplace_ok h
  obtain ⟨hmem, hfr, _, _⟩ := guards_none hg
  refine ⟨M, hM, hmem, ?_, fun k hk => ⟨inplaceOut_x hd hk, inplaceOut_m hk⟩, rfl, rfl, rfl⟩
  intro hs
  simp only [foldingRefused, hs, Bool.true_and] at hfr
  simpa using hfr

example : ∃ S : Spec, binop "__add__" S (.scalar 1) = .ok (binOut ⟨.add, false⟩ S (.scalar 1))
    ∧ inplace "__imul__" S (.scalar 2) = .ok (inplaceOut ⟨.mul, false⟩ S (.scalar 2)) :=
  ⟨⟨[2], #[1, 2], #[false, true], true, some ["a"]⟩,
   binop_eq_ok (by decide) (by simp [foldingRefused, Operand.isSpectrum]) (by decide) rfl rfl
     (arithDefined_ring _ _ _ (Or.inl rfl)),
   inplace_eq_ok (by decide) (by simp [foldingRefused, Operand.isSpectrum]) (by decide) rfl rfl
     (arithDefined_ring _ _ _ (Or.inr (Or.inr rfl)))⟩

/-! ## slicing and automatic folding -/

/-- Basic slicing returns a view with the folding status and the labels of the sliced spectrum, whose
    entries (data and mask) are the selected entries. -/
theorem C09_slice_keeps (S R : Spec) (sel : List AxisSel) (h : sliceSpec S sel = .ok R) :
    R.folded = S.folded ∧ R.popIds = S.popIds
    ∧ ∀ k < prodL (selCounts sel), R.x k = S.x (selSrc S.shape sel k) ∧ R.m k = S.m (selSrc S.shape sel k) := by
  unfold sliceSpec at h
  split_ifs at h
  injection h with h; subst h
  refine ⟨rfl, rfl, fun k hk => ⟨?_, ?_⟩⟩
  · show (tabulate (prodL (selCounts sel)) _).getD k _ = _
    rw [tabulate_getD _ _ _ hk]
  · show (tabulate (prodL (selCounts sel)) _).getD k _ = _
    rw [tabulate_getD _ _ _ hk]

example : ∃ S R : Spec, sliceSpec S [⟨1, 2, 1, false⟩] = .ok R := ⟨⟨[3], #[1, 2, 3], #[false, false, false], true, none⟩, _, rfl⟩

/-- Every likelihood/residual function of `Inference.py` that folds the model does so exactly when the data
    is folded and the model is not (complete table of the generated guards). -/
theorem C09_autofold :
    ∀ fname ∈ autofoldFunctions, ∀ dataFolded modelFolded : Bool,
      autofold fname true dataFolded modelFolded = some (dataFolded && !modelFolded) := by
  decide

/-- …and `ll_per_bin` (hence `ll`, `ll_multinom`) and `optimal_sfs_scaling` are among them. -/
theorem C09_autofold_covers : "ll_per_bin" ∈ autofoldFunctions ∧ "optimal_sfs_scaling" ∈ autofoldFunctions := by
  decide

end DadiVerif
