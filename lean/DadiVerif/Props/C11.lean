import DadiVerif.Lemmas.Likelihood
import DadiVerif.Lemmas.LikResid
import Mathlib.Analysis.SpecialFunctions.Gamma.Basic
/-!
# C11 — likelihoods are Poisson/multinomial over jointly unmasked entries, optimal theta

All theorems are about the definitions the driver executes (`Lik.ll`, `llPerBin`, `llMultinom`, `optimalScaling`,
`optimallyScaled`, `linResid`, `anscombe` of Model/Likelihood.lean), instantiated at `ℝ` with `Real.log`
(resp. `Real.sqrt`, real powers); `lgam` (= `gammaln`) is an arbitrary function unless stated.  The entry-wise
formulas, the auto-fold switches and the corner switch of `Numerics.intersect_masks` inside those definitions are
regenerated from the current source on every run (Generated/Likelihood.lean).  Spectra have any shape/size.

Vocabulary (Lemmas/Likelihood.lean): `effModel M D` = the model, folded if the data are folded and it is not;
`joint m d` = list of (model value, data value) of the entries masked in neither; `pterm log lgam (m, d)` =
`−m + d·log m − lgam (d+1)`; `sumM`, `sumD` = Σ model, Σ data over such a list.
-/
namespace DadiVerif
open Lik Gen.Lik

/-! ## the Poisson log-likelihood -/

/-- `ll` is the sum of `−m + d·log m − gammaln(d+1)` over the entries masked in neither spectrum whose model value
    is positive (`numpy.ma.log` masks the others) — for every shape, mask pattern and folding status. -/
theorem C11_ll_def (lgam : ℝ → ℝ) (M D : MSpec ℝ) :
    (ll Real.log lgam M D).val
      = (((joint (effModel M D).cells D.cells).filter fun p => decide (0 < p.1)).map (pterm Real.log lgam)).sum :=
  ll_val Real.log lgam M D

/-- with a positive model on the jointly unmasked entries the sum runs over *exactly* those entries. -/
theorem C11_ll_joint (lgam : ℝ → ℝ) (M D : MSpec ℝ) (hm : ∀ p ∈ joint (effModel M D).cells D.cells, 0 < p.1) :
    (ll Real.log lgam M D).val = ((joint (effModel M D).cells D.cells).map (pterm Real.log lgam)).sum := by
  rw [C11_ll_def, List.filter_eq_self.mpr]
  intro p hp
  simpa using hm p hp

/-- the summand is the Poisson log-probability: for a count `k` and mean `m > 0`, with `lgam = log ∘ Γ`,
    `−m + k·log m − log Γ(k+1) = log (e^{−m} m^k / k!)`. -/
theorem C11_poisson_logpmf (m : ℝ) (hm : 0 < m) (k : ℕ) :
    pterm Real.log (fun x => Real.log (Real.Gamma x)) (m, (k : ℝ))
      = Real.log (Real.exp (-m) * m ^ k / (k.factorial : ℝ)) := by
  have hk : (0 : ℝ) < (k.factorial : ℝ) := by exact_mod_cast Nat.factorial_pos k
  simp only [pterm]
  rw [Real.Gamma_nat_eq_factorial, Real.log_div (by positivity) hk.ne', Real.log_mul (Real.exp_pos _).ne' (by positivity),
    Real.log_exp, Real.log_pow]

/-- mask algebra of the three-term expression: an entry of `ll_per_bin` is masked iff it is masked in the model, or in
    the data, or the model value is not positive; the visible values are the Poisson terms. -/
theorem C11_mask (log lgam : ℝ → ℝ) (M D : MSpec ℝ) :
    (llPerBin log lgam M D).map Cell.mask
        = List.zipWith (fun a b => a.mask || b.mask || !decide (0 < a.val)) (effModel M D).cells D.cells
    ∧ (llPerBin log lgam M D).map Cell.val
        = List.zipWith (fun a b => pterm log lgam (a.val, b.val)) (effModel M D).cells D.cells := by
  rw [llPerBin_eq]
  refine ⟨ll_list_mask log lgam _ _, ?_⟩
  simp [llPerBinL, List.map_zipWith, pterm]

/-! ## the optimal scaling -/

/-- `optimal_sfs_scaling` is Σ data / Σ model over the entries masked in neither.
    FULL STRENGTH: needs `Numerics.intersect_masks` not to re-mask the corners (`intersectMaskCorners = false`, read from
    the source); on a tree where the two `dadi.Spectrum(...)` calls use the default `mask_corners=True` this theorem
    does not check and the harness produces the failing input (visible corner + differing masks). -/
theorem C11_theta (M D : MSpec ℝ) :
    (optimalScaling M D).val
      = sumD (joint (effModel M D).cells D.cells) / sumM (joint (effModel M D).cells D.cells) := by
  rw [optimalScaling_eq]
  exact theta_val _ _ (Or.inl rfl)

/-- proved on every tree: the same when the two masks coincide, or when both corner entries are masked in at
    least one of the spectra (what is missing: spectra with a visible corner and differing masks). -/
theorem C11_theta_partial (M D : MSpec ℝ)
    (h : (effModel M D).cells.map Cell.mask = D.cells.map Cell.mask ∨
         maskCorners (jointMask (effModel M D).cells D.cells) = jointMask (effModel M D).cells D.cells) :
    (optimalScaling M D).val
      = sumD (joint (effModel M D).cells D.cells) / sumM (joint (effModel M D).cells D.cells) := by
  rw [optimalScaling_eq]
  exact theta_val _ _ (Or.inr h)

/-- `optimally_scaled_sfs` is the (unfolded) model times that factor; `ll_multinom` is `ll` of it. -/
theorem C11_multinom_is_ll_at_theta (log lgam : ℝ → ℝ) (M D : MSpec ℝ) :
    (optimallyScaled M D).cells = M.cells.map (Cell.mul (optimalScaling M D))
    ∧ llMultinom log lgam M D = ll log lgam (optimallyScaled M D) D :=
  ⟨rfl, rfl⟩

/-- the multinomial log-likelihood is the maximum of the Poisson log-likelihood over positive rescalings of the model
    (model positive and Σ data > 0 on the jointly unmasked entries).  FULL STRENGTH, see `C11_theta`. -/
theorem C11_multinom_max (lgam : ℝ → ℝ) (M D : MSpec ℝ) (θ : ℝ) (hθ : 0 < θ)
    (hm : ∀ p ∈ joint (effModel M D).cells D.cells, 0 < p.1)
    (hD : 0 < sumD (joint (effModel M D).cells D.cells)) :
    (ll Real.log lgam (scaleSpec (Cell.plain θ) M) D).val ≤ (llMultinom Real.log lgam M D).val :=
  llMultinom_max_aux lgam M D θ hθ (Or.inl rfl) hm hD

theorem C11_multinom_max_partial (lgam : ℝ → ℝ) (M D : MSpec ℝ) (θ : ℝ) (hθ : 0 < θ)
    (h : (effModel M D).cells.map Cell.mask = D.cells.map Cell.mask ∨
         maskCorners (jointMask (effModel M D).cells D.cells) = jointMask (effModel M D).cells D.cells)
    (hm : ∀ p ∈ joint (effModel M D).cells D.cells, 0 < p.1)
    (hD : 0 < sumD (joint (effModel M D).cells D.cells)) :
    (ll Real.log lgam (scaleSpec (Cell.plain θ) M) D).val ≤ (llMultinom Real.log lgam M D).val :=
  llMultinom_max_aux lgam M D θ hθ (Or.inr h) hm hD

/-- invariance under rescaling the model (any non-zero factor; every field of the result, any `log`, `lgam`). -/
theorem C11_scale_inv (log lgam : ℝ → ℝ) (M D : MSpec ℝ) (c : ℝ) (hc : c ≠ 0) :
    llMultinom log lgam (scaleSpec (Cell.plain c) M) D = llMultinom log lgam M D :=
  llMultinom_scale log lgam c hc M D

/-- Gibbs: among all models that are positive on the jointly unmasked entries, `model = const·data` (same masks)
    maximises the multinomial log-likelihood; data ≥ 0 with zeros allowed, `lgam 1 = 0` (true of log Γ).
    FULL STRENGTH, see `C11_theta`. -/
theorem C11_gibbs (lgam : ℝ → ℝ) (hg : lgam 1 = 0) (M D : MSpec ℝ) (c : ℝ) (hc : 0 < c)
    (hm : ∀ p ∈ joint (effModel M D).cells D.cells, 0 < p.1)
    (hd : ∀ p ∈ joint (effModel M D).cells D.cells, 0 ≤ p.2)
    (hD : 0 < sumD (joint (effModel M D).cells D.cells)) :
    (llMultinom Real.log lgam M D).val ≤ (llMultinom Real.log lgam (propModel c (effModel M D) D) D).val :=
  llMultinom_gibbs_aux lgam hg M D c hc (Or.inl rfl) (Or.inl rfl) hm hd hD

theorem C11_gibbs_partial (lgam : ℝ → ℝ) (hg : lgam 1 = 0) (M D : MSpec ℝ) (c : ℝ) (hc : 0 < c)
    (h : (effModel M D).cells.map Cell.mask = D.cells.map Cell.mask ∨
         maskCorners (jointMask (effModel M D).cells D.cells) = jointMask (effModel M D).cells D.cells)
    (hP : (propModel c (effModel M D) D).cells.map Cell.mask = D.cells.map Cell.mask ∨
         maskCorners (jointMask (propModel c (effModel M D) D).cells D.cells)
           = jointMask (propModel c (effModel M D) D).cells D.cells)
    (hm : ∀ p ∈ joint (effModel M D).cells D.cells, 0 < p.1)
    (hd : ∀ p ∈ joint (effModel M D).cells D.cells, 0 ≤ p.2)
    (hD : 0 < sumD (joint (effModel M D).cells D.cells)) :
    (llMultinom Real.log lgam M D).val ≤ (llMultinom Real.log lgam (propModel c (effModel M D) D) D).val :=
  llMultinom_gibbs_aux lgam hg M D c hc (Or.inr h) (Or.inr hP) hm hd hD

/-- the hypothesis "model > 0 on the joint set" cannot be dropped: with a zero model entry the factor
    Σdata/Σmodel still counts that entry while `numpy.ma.log` removes it from the sum, and θ = 1 beats it
    (model (1, 0), data (1, 1): −2 + log 2 < −1). -/
theorem C11_nonpos_partial (lgam : ℝ → ℝ) :
    let M : MSpec ℝ := ⟨[2], [⟨1, false, false⟩, ⟨0, false, false⟩], false⟩
    let D : MSpec ℝ := ⟨[2], [⟨1, false, false⟩, ⟨1, false, false⟩], false⟩
    (llMultinom Real.log lgam M D).val < (ll Real.log lgam (scaleSpec (Cell.plain 1) M) D).val := by
  intro M D
  have hc : CornerOK (effModel M D).cells D.cells := Or.inr (Or.inl (by simp [M, D, effModel]))
  have hj : joint (effModel M D).cells D.cells = [(1, 1), (0, 1)] := by simp [M, D, effModel, joint]
  rw [llMultinom_val Real.log lgam M D hc (by rw [hj]; simp), ll_scaled_spec_val Real.log lgam (Cell.plain 1) rfl, hj]
  have h2 : Real.log 2 < 1 := by
    have := Real.log_lt_sub_one_of_pos (by norm_num : (0 : ℝ) < 2) (by norm_num)
    linarith
  norm_num [sumD, sumM, pterm, Cell.plain, List.filter_cons]
  linarith

/-! ## auto-folding -/

/-- every entry point folds an unfolded model against folded data (the statement is present in all five functions)
    and then behaves exactly as on the folded model. -/
theorem C11_autofold (log lgam sqrt : ℝ → ℝ) (pw : Int → Nat → ℝ → ℝ) (mk : Option ℝ) (M D : MSpec ℝ) :
    (autofold_ll_per_bin = true ∧ autofold_optimal_sfs_scaling = true ∧
      autofold_linear_Poisson_residual = true ∧ autofold_Anscombe_Poisson_residual = true)
    ∧ effModel M D = (if D.folded && !M.folded then foldSpec M else M)
    ∧ llPerBin log lgam M D = llPerBin log lgam (effModel M D) D
    ∧ ll log lgam M D = ll log lgam (effModel M D) D
    ∧ optimalScaling M D = optimalScaling (effModel M D) D
    ∧ llMultinom log lgam M D = llMultinom log lgam (effModel M D) D
    ∧ linResid sqrt mk M D = linResid sqrt mk (effModel M D) D
    ∧ anscombe pw mk M D = anscombe pw mk (effModel M D) D := by
  refine ⟨⟨rfl, rfl, rfl, rfl⟩, rfl, ?_, ?_, ?_, ?_, ?_, ?_⟩
  · rw [llPerBin_eq, llPerBin_eq, effModel_idem]
  · rw [ll, ll, llPerBin_eq, llPerBin_eq, effModel_idem]
  · rw [optimalScaling_eq, optimalScaling_eq, effModel_idem]
  · rw [llMultinom, llMultinom, llMultinomPerBin_eq, llMultinomPerBin_eq, effModel_idem]
  · rw [linResid_eq, linResid_eq, effModel_idem]
  · rw [anscombe_eq, anscombe_eq, effModel_idem]

/-! ## residuals -/

/-- linear Poisson residual, entry by entry: value (model − data)/√model; masked iff masked in either input, or
    model < 0, or (a level is given and model ≤ level and data ≤ level); for model > 0 its sign is that of model − data. -/
theorem C11_resid_linear (mk : Option ℝ) (M D : MSpec ℝ) :
    linResid Real.sqrt mk M D = List.zipWith (linResidCell Real.sqrt mk) (effModel M D).cells D.cells ∧
    ∀ m d : Cell ℝ,
      (linResidCell Real.sqrt mk m d).val = (m.val - d.val) / Real.sqrt m.val ∧
      (linResidCell Real.sqrt mk m d).mask = (m.mask || d.mask || decide (m.val < 0) || levelMask mk m.val d.val) ∧
      (0 < m.val → ((0 < (linResidCell Real.sqrt mk m d).val ↔ d.val < m.val) ∧
                    ((linResidCell Real.sqrt mk m d).val < 0 ↔ m.val < d.val))) := by
  refine ⟨linResid_eq _ _ _ _, fun m d => ⟨linResid_val _ _ _ _, linResid_mask _ _ _ _, fun hm => ?_⟩⟩
  have hs : 0 < Real.sqrt m.val := Real.sqrt_pos.mpr hm
  rw [linResid_val]
  constructor
  · rw [div_pos_iff_of_pos_right hs]; exact sub_pos
  · rw [div_neg_iff]
    constructor
    · rintro (⟨_, h⟩ | ⟨h, _⟩)
      · exact absurd hs (not_lt.mpr h.le)
      · linarith
    · intro h; exact Or.inr ⟨by linarith, hs⟩

/-- Anscombe residual with real powers, entry by entry: value 1.5·(t(model) − t(data))/model^(1/6),
    t(x) = x^(2/3) − x^(−1/3)/9; masked iff masked in either input, or model ≤ 0, or data ≤ 0 (data = 0 included), or
    (a level is given and model ≤ level and data ≤ level); for model, data > 0 it is positive exactly when the model
    is high (the documented sign, opposite to Pierce–Schafer). -/
theorem C11_resid_anscombe (mk : Option ℝ) (M D : MSpec ℝ) :
    anscombe rpw mk M D = List.zipWith (anscombeCell rpw mk) (effModel M D).cells D.cells ∧
    ∀ m d : Cell ℝ,
      (anscombeCell rpw mk m d).val = 3 / 2 * (anscombeT rpw m.val - anscombeT rpw d.val) / m.val ^ ((1 : ℝ) / 6) ∧
      (anscombeCell rpw mk m d).mask
        = (m.mask || d.mask || !decide (0 < m.val) || !decide (0 < d.val) || levelMask mk m.val d.val) ∧
      (0 < m.val → 0 < d.val → ((0 < (anscombeCell rpw mk m d).val ↔ d.val < m.val) ∧
                                ((anscombeCell rpw mk m d).val < 0 ↔ m.val < d.val))) := by
  refine ⟨anscombe_eq _ _ _ _, fun m d => ⟨?_, anscombe_mask _ _ _ _, fun hm hd => ?_⟩⟩
  · rw [anscombe_val]; simp [rpw]
  · have hp : 0 < rpw 1 6 m.val := by simpa [rpw] using Real.rpow_pos_of_pos hm _
    rw [anscombe_val]
    constructor
    · rw [div_pos_iff_of_pos_right hp, ← anscombeT_lt_iff hd hm]
      constructor <;> intro h <;> nlinarith
    · rw [div_neg_iff, ← anscombeT_lt_iff hm hd]
      constructor
      · rintro (⟨_, h⟩ | ⟨h, _⟩)
        · exact absurd hp (not_lt.mpr h.le)
        · nlinarith
      · intro h; exact Or.inr ⟨by nlinarith, hp⟩

/-! ## non-vacuity -/

/-- a 1-D spectrum with default corner masks, one more data entry masked, a zero count: the hypotheses of
    `C11_multinom_max_partial` / `C11_gibbs_partial` hold. -/
example :
    let M : MSpec ℝ := ⟨[5], [⟨9, true, false⟩, ⟨3, false, false⟩, ⟨2, false, false⟩, ⟨1, false, false⟩, ⟨9, true, false⟩], false⟩
    let D : MSpec ℝ := ⟨[5], [⟨0, true, false⟩, ⟨4, false, false⟩, ⟨7, true, false⟩, ⟨0, false, false⟩, ⟨0, true, false⟩], false⟩
    (maskCorners (jointMask (effModel M D).cells D.cells) = jointMask (effModel M D).cells D.cells) ∧
    (∀ p ∈ joint (effModel M D).cells D.cells, 0 < p.1) ∧ (∀ p ∈ joint (effModel M D).cells D.cells, 0 ≤ p.2) ∧
    0 < sumD (joint (effModel M D).cells D.cells) := by
  intro M D
  have hj : joint (effModel M D).cells D.cells = [(3, 4), (1, 0)] := by simp [M, D, effModel, joint]
  refine ⟨by simp [M, D, effModel, jointMask, maskCorners, List.range, List.range.loop], ?_, ?_, ?_⟩ <;>
    rw [hj] <;> norm_num [sumD]

/-- folded data against an unfolded model: `effModel` is the folded model (3 entries, n = 2). -/
example :
    let M : MSpec ℝ := ⟨[3], [⟨9, true, false⟩, ⟨3, false, false⟩, ⟨9, true, false⟩], false⟩
    let D : MSpec ℝ := ⟨[3], [⟨0, true, false⟩, ⟨4, false, false⟩, ⟨0, true, false⟩], true⟩
    effModel M D = foldSpec M := by
  intro M D; simp [M, D, effModel]

end DadiVerif
