import DadiVerif.Lemmas.Likelihood
import DadiVerif.Lemmas.LikResid
import DadiVerif.Lemmas.LikFoldReal
import Mathlib.Analysis.SpecialFunctions.Gamma.Basic
/-!
# C11 — likelihoods are Poisson/multinomial over jointly unmasked entries, optimal theta

All theorems are about the definitions the driver executes (`Lik.ll`, `llPerBin`, `llMultinom`, `optimalScaling`,
`optimallyScaled`, `linResid`, `anscombe` of Model/Likelihood.lean), instantiated at `ℝ` with `Real.log`
(resp. `Real.sqrt`, real powers); `lgam` (= `gammaln`) is an arbitrary function unless stated.  The entry-wise
formulas, the auto-fold switches and the corner switch of `Numerics.intersect_masks` inside those definitions are
regenerated from the current source on every run (Generated/Likelihood.lean).  Spectra have any shape/size.

Vocabulary (Lemmas/Likelihood.lean): `effModel M D` = the model, folded if the data are folded and it is not;
`joint m d` = list of (model value, data value) of the entries masked in neither; `pterm log lgam (m, d)` =
`−m + d·log m − lgam (d+1)`; `sumM`, `sumD` = Σ model, Σ data over such a list.
-/
namespace DadiVerif
open Lik Gen.Lik Finset

/-! ## the Poisson log-likelihood -/

/-- `ll` is the sum of `−m + d·log m − gammaln(d+1)` over the entries masked in neither spectrum whose model value
    is positive (`numpy.ma.log` masks the others) — for every shape, mask pattern and folding status. -/
theorem C11_ll_def (lgam : ℝ → ℝ) (M D : MSpec ℝ) :
    (ll Real.log lgam M D).val
      = (((joint (effModel M D).cells D.cells).filter fun p => decide (0 < p.1)).map (pterm Real.log lgam)).sum :=
  ll_val Real.log lgam M D

/-- with a positive model on the jointly unmasked entries the sum runs over *exactly* those entries. -/
theorem C11_ll_joint (lgam : ℝ → ℝ) (M D : MSpec ℝ) (hm : ∀ p ∈ joint (effModel M D).cells D.cells, 0 < p.1) :
    (ll Real.log lgam M D).val = ((joint (effModel M D).cells D.cells).map (pterm Real.log lgam)).sum := by
  rw [C11_ll_def, List.filter_eq_self.mpr]
  intro p hp
  simpa using hm p hp

/-- the summand is the Poisson log-probability: for a count `k` and mean `m > 0`, with `lgam = log ∘ Γ`,
    `−m + k·log m − log Γ(k+1) = log (e^{−m} m^k / k!)`. -/
theorem C11_poisson_logpmf (m : ℝ) (hm : 0 < m) (k : ℕ) :
    pterm Real.log (fun x => Real.log (Real.Gamma x)) (m, (k : ℝ))
      = Real.log (Real.exp (-m) * m ^ k / (k.factorial : ℝ)) := by
  have hk : (0 : ℝ) < (k.factorial : ℝ) := by exact_mod_cast Nat.factorial_pos k
  simp only [pterm]
  rw [Real.Gamma_nat_eq_factorial, Real.log_div (by positivity) hk.ne', Real.log_mul (Real.exp_pos _).ne' (by positivity),
    Real.log_exp, Real.log_pow]

/-- mask algebra of the three-term expression: an entry of `ll_per_bin` is masked iff it is masked in the model, or in
    the data, or the model value is not positive; the visible values are the Poisson terms. -/
theorem C11_mask (log lgam : ℝ → ℝ) (M D : MSpec ℝ) :
    (llPerBin log lgam M D).map Cell.mask
        = List.zipWith (fun a b => a.mask || b.mask || !decide (0 < a.val)) (effModel M D).cells D.cells
    ∧ (llPerBin log lgam M D).map Cell.val
        = List.zipWith (fun a b => pterm log lgam (a.val, b.val)) (effModel M D).cells D.cells := by
  rw [llPerBin_eq]
  refine ⟨ll_list_mask log lgam _ _, ?_⟩
  simp [llPerBinL, List.map_zipWith, pterm]

/-! ## the optimal scaling -/

/-- `optimal_sfs_scaling` is Σ data / Σ model over the entries masked in neither.
    FULL STRENGTH: needs `Numerics.intersect_masks` not to re-mask the corners (`intersectMaskCorners = false`, read from
    the source); on a tree where the two `dadi.Spectrum(...)` calls use the default `mask_corners=True` this theorem
    does not check and the harness produces the failing input (visible corner + differing masks). -/
theorem C11_theta (M D : MSpec ℝ) :
    (optimalScaling M D).val
      = sumD (joint (effModel M D).cells D.cells) / sumM (joint (effModel M D).cells D.cells) := by
  rw [optimalScaling_eq]
  exact theta_val _ _ (Or.inl rfl)

/-- proved on every tree: the same when the two masks coincide, or when both corner entries are masked in at
    least one of the spectra (what is missing: spectra with a visible corner and differing masks). -/
theorem C11_theta_partial (M D : MSpec ℝ)
    (h : (effModel M D).cells.map Cell.mask = D.cells.map Cell.mask ∨
         maskCorners (jointMask (effModel M D).cells D.cells) = jointMask (effModel M D).cells D.cells) :
    (optimalScaling M D).val
      = sumD (joint (effModel M D).cells D.cells) / sumM (joint (effModel M D).cells D.cells) := by
  rw [optimalScaling_eq]
  exact theta_val _ _ (Or.inr h)

/-- `optimally_scaled_sfs` is the (unfolded) model times that factor; `ll_multinom` is `ll` of it. -/
theorem C11_multinom_is_ll_at_theta (log lgam : ℝ → ℝ) (M D : MSpec ℝ) :
    (optimallyScaled M D).cells = M.cells.map (Cell.mul (optimalScaling M D))
    ∧ llMultinom log lgam M D = ll log lgam (optimallyScaled M D) D :=
  ⟨rfl, rfl⟩

/-- the multinomial log-likelihood is the maximum of the Poisson log-likelihood over positive rescalings of the model
    (model positive and Σ data > 0 on the jointly unmasked entries).  FULL STRENGTH, see `C11_theta`. -/
theorem C11_multinom_max (lgam : ℝ → ℝ) (M D : MSpec ℝ) (θ : ℝ) (hθ : 0 < θ)
    (hm : ∀ p ∈ joint (effModel M D).cells D.cells, 0 < p.1)
    (hD : 0 < sumD (joint (effModel M D).cells D.cells)) :
    (ll Real.log lgam (scaleSpec (Cell.plain θ) M) D).val ≤ (llMultinom Real.log lgam M D).val :=
  llMultinom_max_aux lgam M D θ hθ (Or.inl rfl) hm hD

theorem C11_multinom_max_partial (lgam : ℝ → ℝ) (M D : MSpec ℝ) (θ : ℝ) (hθ : 0 < θ)
    (h : (effModel M D).cells.map Cell.mask = D.cells.map Cell.mask ∨
         maskCorners (jointMask (effModel M D).cells D.cells) = jointMask (effModel M D).cells D.cells)
    (hm : ∀ p ∈ joint (effModel M D).cells D.cells, 0 < p.1)
    (hD : 0 < sumD (joint (effModel M D).cells D.cells)) :
    (ll Real.log lgam (scaleSpec (Cell.plain θ) M) D).val ≤ (llMultinom Real.log lgam M D).val :=
  llMultinom_max_aux lgam M D θ hθ (Or.inr h) hm hD

/-- invariance under rescaling the model (any non-zero factor; every field of the result, any `log`, `lgam`). -/
theorem C11_scale_inv (log lgam : ℝ → ℝ) (M D : MSpec ℝ) (c : ℝ) (hc : c ≠ 0) :
    llMultinom log lgam (scaleSpec (Cell.plain c) M) D = llMultinom log lgam M D :=
  llMultinom_scale log lgam c hc M D

/-- Gibbs: among all models that are positive on the jointly unmasked entries, `model = const·data` (same masks)
    maximises the multinomial log-likelihood; data ≥ 0 with zeros allowed, `lgam 1 = 0` (true of log Γ).
    FULL STRENGTH, see `C11_theta`. -/
theorem C11_gibbs (lgam : ℝ → ℝ) (hg : lgam 1 = 0) (M D : MSpec ℝ) (c : ℝ) (hc : 0 < c)
    (hm : ∀ p ∈ joint (effModel M D).cells D.cells, 0 < p.1)
    (hd : ∀ p ∈ joint (effModel M D).cells D.cells, 0 ≤ p.2)
    (hD : 0 < sumD (joint (effModel M D).cells D.cells)) :
    (llMultinom Real.log lgam M D).val ≤ (llMultinom Real.log lgam (propModel c (effModel M D) D) D).val :=
  llMultinom_gibbs_aux lgam hg M D c hc (Or.inl rfl) (Or.inl rfl) hm hd hD

theorem C11_gibbs_partial (lgam : ℝ → ℝ) (hg : lgam 1 = 0) (M D : MSpec ℝ) (c : ℝ) (hc : 0 < c)
    (h : (effModel M D).cells.map Cell.mask = D.cells.map Cell.mask ∨
         maskCorners (jointMask (effModel M D).cells D.cells) = jointMask (effModel M D).cells D.cells)
    (hP : (propModel c (effModel M D) D).cells.map Cell.mask = D.cells.map Cell.mask ∨
         maskCorners (jointMask (propModel c (effModel M D) D).cells D.cells)
           = jointMask (propModel c (effModel M D) D).cells D.cells)
    (hm : ∀ p ∈ joint (effModel M D).cells D.cells, 0 < p.1)
    (hd : ∀ p ∈ joint (effModel M D).cells D.cells, 0 ≤ p.2)
    (hD : 0 < sumD (joint (effModel M D).cells D.cells)) :
    (llMultinom Real.log lgam M D).val ≤ (llMultinom Real.log lgam (propModel c (effModel M D) D) D).val :=
  llMultinom_gibbs_aux lgam hg M D c hc (Or.inr h) (Or.inr hP) hm hd hD

/-- the hypothesis "model > 0 on the joint set" cannot be dropped: with a zero model entry the factor
    Σdata/Σmodel still counts that entry while `numpy.ma.log` removes it from the sum, and θ = 1 beats it
    (model (1, 0), data (1, 1): −2 + log 2 < −1). -/
theorem C11_nonpos_partial (lgam : ℝ → ℝ) :
    let M : MSpec ℝ := ⟨[2], [⟨1, false, false⟩, ⟨0, false, false⟩], false⟩
    let D : MSpec ℝ := ⟨[2], [⟨1, false, false⟩, ⟨1, false, false⟩], false⟩
    (llMultinom Real.log lgam M D).val < (ll Real.log lgam (scaleSpec (Cell.plain 1) M) D).val := by
  intro M D
  have hc : CornerOK (effModel M D).cells D.cells := Or.inr (Or.inl (by simp [M, D, effModel]))
  have hj : joint (effModel M D).cells D.cells = [(1, 1), (0, 1)] := by simp [M, D, effModel, joint]
  rw [llMultinom_val Real.log lgam M D hc (by rw [hj]; simp), ll_scaled_spec_val Real.log lgam (Cell.plain 1) rfl, hj]
  have h2 : Real.log 2 < 1 := by
    have := Real.log_lt_sub_one_of_pos (by norm_num : (0 : ℝ) < 2) (by norm_num)
    linarith
  norm_num [sumD, sumM, pterm, Cell.plain, List.filter_cons]
  linarith

/-! ## auto-folding -/

/-- every entry point folds an unfolded model against folded data (the statement is present in all five functions)
    and then behaves exactly as on the folded model. -/
theorem C11_autofold (log lgam sqrt : ℝ → ℝ) (pw : Int → Nat → ℝ → ℝ) (mk : Option ℝ) (M D : MSpec ℝ) :
    (autofold_ll_per_bin = true ∧ autofold_optimal_sfs_scaling = true ∧
      autofold_linear_Poisson_residual = true ∧ autofold_Anscombe_Poisson_residual = true)
    ∧ effModel M D = (if D.folded && !M.folded then foldSpec M else M)
    ∧ llPerBin log lgam M D = llPerBin log lgam (effModel M D) D
    ∧ ll log lgam M D = ll log lgam (effModel M D) D
    ∧ optimalScaling M D = optimalScaling (effModel M D) D
    ∧ llMultinom log lgam M D = llMultinom log lgam (effModel M D) D
    ∧ linResid sqrt mk M D = linResid sqrt mk (effModel M D) D
    ∧ anscombe pw mk M D = anscombe pw mk (effModel M D) D := by
  refine ⟨⟨rfl, rfl, rfl, rfl⟩, rfl, ?_, ?_, ?_, ?_, ?_, ?_⟩
  · rw [llPerBin_eq, llPerBin_eq, effModel_idem]
  · rw [ll, ll, llPerBin_eq, llPerBin_eq, effModel_idem]
  · rw [optimalScaling_eq, optimalScaling_eq, effModel_idem]
  · rw [llMultinom, llMultinom, llMultinomPerBin_eq, llMultinomPerBin_eq, effModel_idem]
  · rw [linResid_eq, linResid_eq, effModel_idem]
  · rw [anscombe_eq, anscombe_eq, effModel_idem]

/-! ## residuals -/

/-- linear Poisson residual, entry by entry: value (model − data)/√model; masked iff masked in either input, or
    model < 0, or (a level is given and model ≤ level and data ≤ level); for model > 0 its sign is that of model − data. -/
theorem C11_resid_linear (mk : Option ℝ) (M D : MSpec ℝ) :
    linResid Real.sqrt mk M D = List.zipWith (linResidCell Real.sqrt mk) (effModel M D).cells D.cells ∧
    ∀ m d : Cell ℝ,
      (linResidCell Real.sqrt mk m d).val = (m.val - d.val) / Real.sqrt m.val ∧
      (linResidCell Real.sqrt mk m d).mask = (m.mask || d.mask || decide (m.val < 0) || levelMask mk m.val d.val) ∧
      (0 < m.val → ((0 < (linResidCell Real.sqrt mk m d).val ↔ d.val < m.val) ∧
                    ((linResidCell Real.sqrt mk m d).val < 0 ↔ m.val < d.val))) := by
  refine ⟨linResid_eq _ _ _ _, fun m d => ⟨linResid_val _ _ _ _, linResid_mask _ _ _ _, fun hm => ?_⟩⟩
  have hs : 0 < Real.sqrt m.val := Real.sqrt_pos.mpr hm
  rw [linResid_val]
  constructor
  · rw [div_pos_iff_of_pos_right hs]; exact sub_pos
  · rw [div_neg_iff]
    constructor
    · rintro (⟨_, h⟩ | ⟨h, _⟩)
      · exact absurd hs (not_lt.mpr h.le)
      · linarith
    · intro h; exact Or.inr ⟨by linarith, hs⟩

/-- Anscombe residual with real powers, entry by entry: value 1.5·(t(model) − t(data))/model^(1/6),
    t(x) = x^(2/3) − x^(−1/3)/9; masked iff masked in either input, or model ≤ 0, or data ≤ 0 (data = 0 included), or
    (a level is given and model ≤ level and data ≤ level); for model, data > 0 it is positive exactly when the model
    is high (the documented sign, opposite to Pierce–Schafer). -/
theorem C11_resid_anscombe (mk : Option ℝ) (M D : MSpec ℝ) :
    anscombe rpw mk M D = List.zipWith (anscombeCell rpw mk) (effModel M D).cells D.cells ∧
    ∀ m d : Cell ℝ,
      (anscombeCell rpw mk m d).val = 3 / 2 * (anscombeT rpw m.val - anscombeT rpw d.val) / m.val ^ ((1 : ℝ) / 6) ∧
      (anscombeCell rpw mk m d).mask
        = (m.mask || d.mask || !decide (0 < m.val) || !decide (0 < d.val) || levelMask mk m.val d.val) ∧
      (0 < m.val → 0 < d.val → ((0 < (anscombeCell rpw mk m d).val ↔ d.val < m.val) ∧
                                ((anscombeCell rpw mk m d).val < 0 ↔ m.val < d.val))) := by
  refine ⟨anscombe_eq _ _ _ _, fun m d => ⟨?_, anscombe_mask _ _ _ _, fun hm hd => ?_⟩⟩
  · rw [anscombe_val]; simp [rpw]
  · have hp : 0 < rpw 1 6 m.val := by simpa [rpw] using Real.rpow_pos_of_pos hm _
    rw [anscombe_val]
    constructor
    · rw [div_pos_iff_of_pos_right hp, ← anscombeT_lt_iff hd hm]
      constructor <;> intro h <;> nlinarith
    · rw [div_neg_iff, ← anscombeT_lt_iff hm hd]
      constructor
      · rintro (⟨_, h⟩ | ⟨h, _⟩)
        · exact absurd hp (not_lt.mpr h.le)
        · nlinarith
      · intro h; exact Or.inr ⟨by nlinarith, hp⟩

/-! ## Round 4: the fold behind the auto-fold is the fold model of C09; values and totals under folding

Vocabulary (Lemmas/LikFold.lean, LikFoldReal.lean): `toC09 M` = the C09 spectrum (`Fold.Spec`) with the values and masks of a
rational spectrum `M`; `ofC09` back; `castSpec` = a rational spectrum seen in the `ℝ` instance of the model (every float is
rational); `valAt cs k`, `maskAt cs k` = value / mask of flat entry `k`; `Fold.mirrorFlat N k = N-1-k`. -/

/-- The fold the likelihood model executes (`Lik.foldSpec`, hand-written, any scalar type) is, on rational spectra with as many
    finite cells as the shape says, the spectrum C09's model of `Spectrum.fold` constructs (`Fold.foldOut`, whose pointwise
    programs are regenerated from the source): every value (masked entries too), every mask, the folded flag.  C09's
    `Fold.foldSpec` returns it for an unfolded model, and the `ℝ` instance is its image under `ℚ → ℝ`. -/
theorem C11_fold_is_C09 (M : MSpec ℚ) (hlen : M.cells.length = prodL M.shape) (hbad : ∀ c ∈ M.cells, c.bad = false) :
    foldSpec M = ofC09 (Fold.foldOut (toC09 M))
    ∧ (M.folded = false → Fold.foldSpec (toC09 M) = .ok (Fold.foldOut (toC09 M)) ∧ foldViaC09 M = some (foldSpec M))
    ∧ foldSpec (castSpec M) = castSpec (foldSpec M) := by
  refine ⟨foldSpec_eq_C09 M hlen hbad, fun hM => ⟨?_, foldViaC09_eq M hM hlen hbad⟩, foldSpec_cast M⟩
  rw [Fold.foldSpec_eq]
  have : (toC09 M).folded = false := hM
  simp [this]

example : ∃ M : MSpec ℚ, M.cells.length = prodL M.shape ∧ (∀ c ∈ M.cells, c.bad = false) ∧ M.folded = false ∧
    (foldSpec M).cells = [⟨16, true, false⟩, ⟨6, false, false⟩, ⟨3, false, false⟩, ⟨0, true, false⟩, ⟨0, true, false⟩] :=
  ⟨⟨[5], [⟨7, true, false⟩, ⟨1, false, false⟩, ⟨3, false, false⟩, ⟨5, false, false⟩, ⟨9, true, false⟩], false⟩,
    by decide, by decide, rfl, by
      simp [foldSpec, foldCells, foldCell, foldedOut, ambiguous, Lik.totalFlat, Lik.totalSamples, unflat, prodL, List.range, List.range.loop]
      norm_num⟩

/-- **auto-fold, by value.**  Folded data `D`, unfolded well-formed model `M` (rational-valued), `F` = what C09's
    `Spectrum.fold` returns for `M`.  Then every entry point gives on `M` what it gives on `F` — `ll`, `ll_per_bin`,
    `ll_multinom`, `optimal_sfs_scaling` and both residuals, whole results (value, mask, finiteness) — and `F` is: value
    0 / half the pair sum / the pair sum on folded-out / ambiguous / kept entries, mask = own ∨ mirror ∨ folded-out ∨ corner. -/
theorem C11_autofold_value (log lgam sqrt : ℝ → ℝ) (pw : Int → Nat → ℝ → ℝ) (mk : Option ℝ) (M D : MSpec ℚ)
    (hD : D.folded = true) (hM : M.folded = false)
    (hlen : M.cells.length = prodL M.shape) (hbad : ∀ c ∈ M.cells, c.bad = false)
    (F : Fold.Spec) (hF : Fold.foldSpec (toC09 M) = .ok F) :
    (ll log lgam (castSpec M) (castSpec D) = ll log lgam (castSpec (ofC09 F)) (castSpec D)
     ∧ llPerBin log lgam (castSpec M) (castSpec D) = llPerBin log lgam (castSpec (ofC09 F)) (castSpec D)
     ∧ llMultinom log lgam (castSpec M) (castSpec D) = llMultinom log lgam (castSpec (ofC09 F)) (castSpec D)
     ∧ optimalScaling (castSpec M) (castSpec D) = optimalScaling (castSpec (ofC09 F)) (castSpec D)
     ∧ linResid sqrt mk (castSpec M) (castSpec D) = linResid sqrt mk (castSpec (ofC09 F)) (castSpec D)
     ∧ anscombe pw mk (castSpec M) (castSpec D) = anscombe pw mk (castSpec (ofC09 F)) (castSpec D))
    ∧ ∀ k < prodL M.shape,
        F.x k = (if 2 * Fold.totalFlat M.shape k > Fold.totalSamples M.shape then 0
                 else if 2 * Fold.totalFlat M.shape k = Fold.totalSamples M.shape
                   then (valAt M.cells k + valAt M.cells (Fold.mirrorFlat (prodL M.shape) k)) / 2
                 else valAt M.cells k + valAt M.cells (Fold.mirrorFlat (prodL M.shape) k))
        ∧ F.m k = (maskAt M.cells k || maskAt M.cells (Fold.mirrorFlat (prodL M.shape) k)
                    || decide (2 * Fold.totalFlat M.shape k > Fold.totalSamples M.shape)
                    || Gen.Fold.cornerFlat (prodL M.shape) k) := by
  obtain ⟨e1, e2⟩ := effModel_cast_fold M D hD hM hlen hbad F hF
  refine ⟨⟨?_, ?_, ?_, ?_, ?_, ?_⟩, ?_⟩
  · rw [ll, ll, llPerBin_eq, llPerBin_eq, e1, e2]
  · rw [llPerBin_eq, llPerBin_eq, e1, e2]
  · rw [llMultinom, llMultinom, llMultinomPerBin_eq, llMultinomPerBin_eq, e1, e2]
  · rw [optimalScaling_eq, optimalScaling_eq, e1, e2]
  · rw [linResid_eq, linResid_eq, e1, e2]
  · rw [anscombe_eq, anscombe_eq, e1, e2]
  · intro k hk
    have hf : (toC09 M).folded = false := hM
    rw [Fold.foldSpec_eq, hf] at hF
    simp only [Bool.false_eq_true, if_false, Fold.Res.ok.injEq] at hF
    subst hF
    have hkN : k < (toC09 M).N := hk
    rw [Fold.foldOut_x (toC09 M) hkN, Fold.foldOut_m (toC09 M) hkN]
    simp only [Fold.sfold, Fold.fo, toC09_x, toC09_m, toC09_N, toC09_shape]
    refine ⟨?_, ?_⟩ <;> trivial

/-- the same for the executable instance (`ℚ`, `log`/`gammaln`/`sqrt`/powers arbitrary functions = the driver's tables) -/
theorem C11_autofold_value_rat (log lgam sqrt : ℚ → ℚ) (pw : Int → Nat → ℚ → ℚ) (mk : Option ℚ) (M D : MSpec ℚ)
    (hD : D.folded = true) (hM : M.folded = false)
    (hlen : M.cells.length = prodL M.shape) (hbad : ∀ c ∈ M.cells, c.bad = false)
    (F : Fold.Spec) (hF : Fold.foldSpec (toC09 M) = .ok F) :
    ll log lgam M D = ll log lgam (ofC09 F) D
    ∧ llMultinom log lgam M D = llMultinom log lgam (ofC09 F) D
    ∧ optimalScaling M D = optimalScaling (ofC09 F) D
    ∧ linResid sqrt mk M D = linResid sqrt mk (ofC09 F) D
    ∧ anscombe pw mk M D = anscombe pw mk (ofC09 F) D := by
  obtain ⟨a1, a2⟩ := autofold_rat M D hD hM hlen hbad F hF
  refine ⟨?_, ?_, ?_, ?_, ?_⟩
  · simp only [ll, llPerBin, flag_ll_per_bin, a1, a2]
  · simp only [llMultinom, llMultinomPerBin_rat log lgam M D hD hM hlen hbad F hF rfl rfl]
  · simp only [optimalScaling, flag_optimal_sfs_scaling, a1, a2]
  · simp only [linResid, flag_linear, a1, a2]
  · simp only [anscombe, flag_anscombe, a1, a2]

/-- non-vacuity of the hypotheses of `C11_autofold_value(_rat)`: folded data, unfolded model, 2×3 (T = 3, odd) -/
example : ∃ (M D : MSpec ℚ) (F : Fold.Spec), D.folded = true ∧ M.folded = false ∧ M.cells.length = prodL M.shape ∧
    (∀ c ∈ M.cells, c.bad = false) ∧ Fold.foldSpec (toC09 M) = .ok F :=
  ⟨⟨[2, 3], [⟨1, true, false⟩, ⟨2, false, false⟩, ⟨3, false, false⟩, ⟨4, false, false⟩, ⟨5, true, false⟩, ⟨6, true, false⟩], false⟩,
   ⟨[2, 3], [⟨0, true, false⟩, ⟨7, false, false⟩, ⟨1, false, false⟩, ⟨0, true, false⟩, ⟨0, true, false⟩, ⟨0, true, false⟩], true⟩,
   _, rfl, rfl, by decide, by decide, (C11_fold_is_C09 _ (by decide) (by decide)).2.1 rfl |>.1⟩

/-- **model total under folding, folded data with any mask.**  The total of the folded model over the entries visible in both
    it and the folded data `D` (the denominator of `optimal_sfs_scaling`) is the total of the unfolded model over the entries
    that are visible together with their mirror image, are no corner, and whose image under folding (`foldImage`: the entry
    itself, or its mirror if it is folded out) is visible in `D`.  Side condition: `D`'s mask does not tell apart the two
    members of an ambiguous pair (`2·tot = T`; true of every mask `Spectrum.fold` produces). -/
theorem C11_fold_joint_total (M D : MSpec ℚ) (hD : D.folded = true) (hM : M.folded = false)
    (hlenM : M.cells.length = prodL M.shape) (hlenD : D.cells.length = M.cells.length)
    (hbad : ∀ c ∈ M.cells, c.bad = false)
    (hamb : ∀ k < M.cells.length, 2 * Fold.totalFlat M.shape k = Fold.totalSamples M.shape →
      maskAt D.cells (Fold.mirrorFlat M.cells.length k) = maskAt D.cells k) :
    sumM (joint (effModel (castSpec M) (castSpec D)).cells (castSpec D).cells)
      = ((∑ k ∈ range M.cells.length,
            (if !(maskAt M.cells k || maskAt M.cells (Fold.mirrorFlat M.cells.length k)
                  || Gen.Fold.cornerFlat M.cells.length k
                  || maskAt D.cells (foldImage M.shape M.cells.length k)) then valAt M.cells k else 0) : ℚ) : ℝ) := by
  have e : effModel (castSpec M) (castSpec D) = castSpec (foldSpec M) := by
    rw [effModel_cast]; simp [hD, hM]
  rw [e]
  exact fold_joint_total_general M D hlenM hlenD hbad hamb

/-- **folding conserves the totals over the jointly unmasked entries, hence the optimal scaling, when the joint mask is
    mirror-symmetric and contains the corners**: for unfolded model and data (rational-valued, same shape),
    Σ model and Σ data over the entries visible in both `model.fold()` and `data.fold()` equal Σ model and Σ data over the
    entries visible in both unfolded spectra, and `optimal_sfs_scaling(model, data.fold())` (which folds the model)
    equals `optimal_sfs_scaling(model, data)`.  FULL STRENGTH (uses `intersectMaskCorners = false`, see `C11_theta`). -/
theorem C11_fold_theta_consistent (Mu Du : MSpec ℚ) (hM : Mu.folded = false) (hD : Du.folded = false) (wf : WF2 Mu Du)
    (hs : JointSym Mu Du) (hc : JointCorners Mu Du) :
    sumM (joint (effModel (castSpec Mu) (castSpec (foldSpec Du))).cells (castSpec (foldSpec Du)).cells)
        = sumM (joint (castSpec Mu).cells (castSpec Du).cells)
    ∧ sumD (joint (effModel (castSpec Mu) (castSpec (foldSpec Du))).cells (castSpec (foldSpec Du)).cells)
        = sumD (joint (castSpec Mu).cells (castSpec Du).cells)
    ∧ (optimalScaling (castSpec Mu) (castSpec (foldSpec Du))).val = (optimalScaling (castSpec Mu) (castSpec Du)).val := by
  have e : effModel (castSpec Mu) (castSpec (foldSpec Du)) = castSpec (foldSpec Mu) := by
    rw [effModel_cast]; simp [foldSpec, hM]
  obtain ⟨s1, s2⟩ := joint_fold_sums Mu Du wf hs hc
  rw [e]
  exact ⟨s1, s2, theta_fold_consistent Mu Du hM hD wf hs hc (Or.inl rfl) (Or.inl rfl)⟩

/-- non-vacuity: default corner masks plus a symmetric pair (1, 4) masked in the data only -/
example : ∃ Mu Du : MSpec ℚ, Mu.folded = false ∧ Du.folded = false ∧ WF2 Mu Du ∧ JointSym Mu Du ∧ JointCorners Mu Du :=
  ⟨⟨[6], [⟨9, true, false⟩, ⟨1, false, false⟩, ⟨1, false, false⟩, ⟨1, false, false⟩, ⟨1, false, false⟩, ⟨9, true, false⟩], false⟩,
   ⟨[6], [⟨0, true, false⟩, ⟨3, true, false⟩, ⟨1, false, false⟩, ⟨1, false, false⟩, ⟨1, true, false⟩, ⟨0, true, false⟩], false⟩,
   rfl, rfl, ⟨rfl, by decide, by decide, by decide, by decide⟩, by unfold JointSym; decide, by unfold JointCorners; decide⟩

/-- …and it fails without the symmetry: corners masked, entry 4 masked in the data but its mirror 1 not.  Unfolded, the
    scaling is (3+1+1)/(1+1+1) = 5/3; against the folded data the pair (1,4) is lost on both sides and it is (1+1)/(1+1) = 1. -/
theorem C11_fold_theta_asymmetric :
    let Mu : MSpec ℚ := ⟨[6], [⟨9, true, false⟩, ⟨1, false, false⟩, ⟨1, false, false⟩, ⟨1, false, false⟩, ⟨1, false, false⟩, ⟨9, true, false⟩], false⟩
    let Du : MSpec ℚ := ⟨[6], [⟨0, true, false⟩, ⟨3, false, false⟩, ⟨1, false, false⟩, ⟨1, false, false⟩, ⟨1, true, false⟩, ⟨0, true, false⟩], false⟩
    WF2 Mu Du ∧ JointCorners Mu Du ∧ ¬ JointSym Mu Du
    ∧ (optimalScaling (castSpec Mu) (castSpec Du)).val = 5 / 3
    ∧ (optimalScaling (castSpec Mu) (castSpec (foldSpec Du))).val = 1 := by
  intro Mu Du
  have hFD : (foldSpec Du).cells = [⟨0, true, false⟩, ⟨4, true, false⟩, ⟨2, false, false⟩, ⟨0, true, false⟩, ⟨0, true, false⟩, ⟨0, true, false⟩] := by
    simp [Du, foldSpec, foldCells, foldCell, foldedOut, ambiguous, Lik.totalFlat, Lik.totalSamples, unflat, prodL, List.range, List.range.loop]
    norm_num
  have hFM : (foldSpec Mu).cells = [⟨18, true, false⟩, ⟨2, false, false⟩, ⟨2, false, false⟩, ⟨0, true, false⟩, ⟨0, true, false⟩, ⟨0, true, false⟩] := by
    simp [Mu, foldSpec, foldCells, foldCell, foldedOut, ambiguous, Lik.totalFlat, Lik.totalSamples, unflat, prodL, List.range, List.range.loop]
    norm_num
  refine ⟨⟨rfl, by decide, by decide, by decide, by decide⟩, by unfold JointCorners; decide, by unfold JointSym; decide, ?_, ?_⟩
  · rw [optimalScaling_eq, theta_val _ _ (Or.inl rfl)]
    have e : effModel (castSpec Mu) (castSpec Du) = castSpec Mu := by rw [effModel_cast]; rfl
    rw [e]
    norm_num [Mu, Du, castSpec, castCell, joint, sumD, sumM]
  · rw [optimalScaling_eq, theta_val _ _ (Or.inl rfl)]
    have e : effModel (castSpec Mu) (castSpec (foldSpec Du)) = castSpec (foldSpec Mu) := by
      rw [effModel_cast]; rfl
    rw [e]
    simp only [castSpec_cells, hFD, hFM]
    norm_num [castCell, joint, sumD, sumM]

/-! ## Round 4: the closed form of `ll_multinom` -/

/-- `ll_multinom = ll(model, data) + Σdata·log θ̂ − (θ̂ − 1)·Σmodel`, θ̂ = Σdata/Σmodel, **all three sums over the entries
    masked in neither spectrum** (model folded first if the data are) — for a model positive there and Σdata > 0 (so that
    θ̂ > 0 and `log(θ̂·m) = log θ̂ + log m`).  This is the identity a per-bin-free implementation may use; `ll_multinom` itself
    is the per-bin sum `ll(θ̂·model)` (`C11_multinom_is_ll_at_theta`).  FULL STRENGTH, see `C11_theta`. -/
theorem C11_multinom_closed_form (lgam : ℝ → ℝ) (M D : MSpec ℝ)
    (hm : ∀ p ∈ joint (effModel M D).cells D.cells, 0 < p.1)
    (hD : 0 < sumD (joint (effModel M D).cells D.cells)) :
    (llMultinom Real.log lgam M D).val
      = (ll Real.log lgam M D).val
        + sumD (joint (effModel M D).cells D.cells) * Real.log (optimalScaling M D).val
        - ((optimalScaling M D).val - 1) * sumM (joint (effModel M D).cells D.cells) := by
  rw [C11_theta]
  exact llMultinom_closed_aux lgam M D (Or.inl rfl) hm hD

/-- the closed form evaluated with each spectrum's OWN mask (`data.sum()`, `model.sum()` of the two masked arrays: Σ over
    the entries visible in the data, resp. in the model) equals `ll_multinom` when the two index sets coincide with the joint
    one — the masks of (folded) model and data are equal; on every tree. -/
theorem C11_multinom_closed_form_own_masks (lgam : ℝ → ℝ) (M D : MSpec ℝ)
    (he : (effModel M D).cells.map Cell.mask = D.cells.map Cell.mask)
    (hm : ∀ p ∈ joint (effModel M D).cells D.cells, 0 < p.1)
    (hD : 0 < sumD (joint (effModel M D).cells D.cells)) :
    closedFormOwn lgam M D = (llMultinom Real.log lgam M D).val :=
  closedFormOwn_eq_of_masks_eq lgam M D he hm hD

/-- …and differs from it otherwise: model (·, 1, 1, ·), data (·, 2, [5 masked], ·).  Jointly visible: one entry,
    θ̂ = 2; own sums: Σdata = 2 but Σmodel = 2 instead of 1, so the own-mask closed form is `ll_multinom − 1`. -/
theorem C11_multinom_closed_form_counterexample (lgam : ℝ → ℝ) :
    let M : MSpec ℝ := ⟨[4], [⟨9, true, false⟩, ⟨1, false, false⟩, ⟨1, false, false⟩, ⟨9, true, false⟩], false⟩
    let D : MSpec ℝ := ⟨[4], [⟨0, true, false⟩, ⟨2, false, false⟩, ⟨5, true, false⟩, ⟨0, true, false⟩], false⟩
    (effModel M D).cells.map Cell.mask ≠ D.cells.map Cell.mask
    ∧ closedFormOwn lgam M D = (llMultinom Real.log lgam M D).val - 1 := by
  intro M D
  have hE : effModel M D = M := by simp [effModel, M, D]
  have hj : joint (effModel M D).cells D.cells = [(1, 2)] := by simp [hE, M, D, joint]
  have hc : CornerOK (effModel M D).cells D.cells :=
    Or.inr (Or.inr (by simp [hE, M, D, jointMask, maskCorners, List.range, List.range.loop]))
  refine ⟨by simp [hE, M, D], ?_⟩
  rw [llMultinom_closed_aux lgam M D hc (by rw [hj]; simp) (by rw [hj]; norm_num [sumD])]
  unfold closedFormOwn
  rw [optimalScaling_eq, theta_val _ _ hc, hj, hE]
  norm_num [sumD, sumM, maSum, M, D, List.filter_cons]
  ring

example : ∃ (M D : MSpec ℝ), (effModel M D).cells.map Cell.mask = D.cells.map Cell.mask ∧
    (∀ p ∈ joint (effModel M D).cells D.cells, 0 < p.1) ∧ 0 < sumD (joint (effModel M D).cells D.cells) := by
  refine ⟨⟨[3], [⟨9, true, false⟩, ⟨3, false, false⟩, ⟨9, true, false⟩], false⟩,
          ⟨[3], [⟨0, true, false⟩, ⟨4, false, false⟩, ⟨0, true, false⟩], false⟩, ?_, ?_, ?_⟩ <;>
    simp [effModel, joint, sumD]

/-! ## Round 4: non-integer data, and entries with model = 0 -/

/-- the summand is the Poisson log-probability continued to real `d` through the Gamma function (projected data are not
    integers): for mean `m > 0` and `d > −1`, `−m + d·log m − log Γ(d+1) = log (e^{−m} m^d / Γ(d+1))`; the statement also
    covers the one case the code can meet with `m = 0` without the value being −∞, `m = 0 ∧ d = 0` (probability 1, log 0…
    never evaluated: `0·log 0 = 0`).  `d = 0, m > 0` gives `−m`. -/
theorem C11_poisson_logpmf_real (m d : ℝ) (hd : -1 < d) (hm : 0 < m ∨ (m = 0 ∧ d = 0)) :
    pterm Real.log (fun x => Real.log (Real.Gamma x)) (m, d)
      = Real.log (Real.exp (-m) * m ^ d / Real.Gamma (d + 1)) := by
  rcases hm with hm | ⟨rfl, rfl⟩
  · have hG : 0 < Real.Gamma (d + 1) := Real.Gamma_pos_of_pos (by linarith)
    have hp : 0 < m ^ d := Real.rpow_pos_of_pos hm d
    simp only [pterm]
    rw [Real.log_div (by positivity) hG.ne', Real.log_mul (Real.exp_pos _).ne' hp.ne', Real.log_exp, Real.log_rpow hm]
  · simp [pterm]

example : pterm Real.log (fun x => Real.log (Real.Gamma x)) (3, 0) = -3 := by simp [pterm]

/-- `ll` as the code evaluates it when the model has exact zeros: an entry with `model = 0` is dropped by `numpy.ma.log`;
    if its data value is 0 too that is the correct contribution (log-probability 0, `lgam 1 = 0`), so with every jointly
    unmasked entry either `model > 0` or `model = data = 0` the sum still runs over exactly the jointly unmasked entries.
    (`model = 0 < data` has probability 0 and is dropped all the same: `C11_nonpos_partial`.) -/
theorem C11_ll_joint_zero (lgam : ℝ → ℝ) (hg : lgam 1 = 0) (M D : MSpec ℝ)
    (hm : ∀ p ∈ joint (effModel M D).cells D.cells, 0 < p.1 ∨ (p.1 = 0 ∧ p.2 = 0)) :
    (ll Real.log lgam M D).val = ((joint (effModel M D).cells D.cells).map (pterm Real.log lgam)).sum := by
  rw [C11_ll_def]
  apply sum_filter_of_zero
  intro p hp hq
  rcases hm p hp with h | ⟨h1, h2⟩
  · simp [h] at hq
  · simp [pterm, h1, h2, hg]

example : ∃ (M D : MSpec ℝ), (∀ p ∈ joint (effModel M D).cells D.cells, 0 < p.1 ∨ (p.1 = 0 ∧ p.2 = 0)) ∧
    ∃ p ∈ joint (effModel M D).cells D.cells, p.1 = 0 := by
  refine ⟨⟨[3], [⟨2, false, false⟩, ⟨0, false, false⟩, ⟨9, true, false⟩], false⟩,
          ⟨[3], [⟨1, false, false⟩, ⟨0, false, false⟩, ⟨0, true, false⟩], false⟩, ?_, ?_⟩ <;>
    simp [effModel, joint]

/-! ## Round 4: residuals — domain, sign on every visible entry, the `mask` level, zeros -/

/-- linear residual, the domain made explicit: the entry is non-finite (division by `√model = 0`) exactly for `model ≤ 0`
    (finite inputs), so every finite entry — in particular every visible finite entry, for every `mask` level — has
    `model > 0` and there: residual > 0 ⇔ model > data, < 0 ⇔ model < data, = 0 ⇔ model = data. -/
theorem C11_resid_linear_sign (mk : Option ℝ) (m d : Cell ℝ) :
    (linResidCell Real.sqrt mk m d).bad = (m.bad || d.bad || decide (m.val ≤ 0))
    ∧ ((linResidCell Real.sqrt mk m d).bad = false →
        0 < m.val ∧ (0 < (linResidCell Real.sqrt mk m d).val ↔ d.val < m.val)
        ∧ ((linResidCell Real.sqrt mk m d).val < 0 ↔ m.val < d.val)
        ∧ ((linResidCell Real.sqrt mk m d).val = 0 ↔ m.val = d.val)) := by
  refine ⟨linResid_bad mk m d, fun hb => ?_⟩
  have hm := linResid_visible_pos mk m d hb
  have hs : 0 < Real.sqrt m.val := Real.sqrt_pos.mpr hm
  obtain ⟨_, _, h3⟩ := (C11_resid_linear mk ⟨[], [], false⟩ ⟨[], [], false⟩).2 m d
  refine ⟨hm, (h3 hm).1, (h3 hm).2, ?_⟩
  rw [linResid_val, div_eq_zero_iff]
  constructor
  · rintro (h | h)
    · linarith
    · exact absurd h hs.ne'
  · intro h; left; linarith

/-- Anscombe residual (real powers), the domain made explicit: every visible entry, with or without a `mask` level, has
    `model > 0` and `data > 0`, is finite when the inputs are, and there the residual is > 0 ⇔ model > data (the documented
    sign: positive when the model is high, opposite to Pierce–Schafer), < 0 ⇔ model < data, = 0 ⇔ model = data. -/
theorem C11_resid_anscombe_sign (mk : Option ℝ) (m d : Cell ℝ) (hv : (anscombeCell rpw mk m d).mask = false) :
    0 < m.val ∧ 0 < d.val ∧ (anscombeCell rpw mk m d).bad = (m.bad || d.bad)
    ∧ (0 < (anscombeCell rpw mk m d).val ↔ d.val < m.val)
    ∧ ((anscombeCell rpw mk m d).val < 0 ↔ m.val < d.val)
    ∧ ((anscombeCell rpw mk m d).val = 0 ↔ m.val = d.val) := by
  obtain ⟨hm, hd⟩ := anscombe_visible_pos rpw mk m d hv
  obtain ⟨_, _, h3⟩ := (C11_resid_anscombe mk ⟨[], [], false⟩ ⟨[], [], false⟩).2 m d
  obtain ⟨s1, s2⟩ := h3 hm hd
  refine ⟨hm, hd, anscombe_bad_of_pos mk m d hm, s1, s2, ?_⟩
  constructor
  · intro h0
    by_contra hne
    rcases lt_or_gt_of_ne hne with h | h
    · have := s2.mpr h; linarith
    · have := s1.mpr h; linarith
  · intro h
    rcases lt_trichotomy (anscombeCell rpw mk m d).val 0 with hlt | h0 | hgt
    · have := s2.mp hlt; linarith
    · exact h0
    · have := s1.mp hgt; linarith

example : ∃ m d : Cell ℝ, (anscombeCell rpw (some 1) m d).mask = false :=
  ⟨⟨2, false, false⟩, ⟨3, false, false⟩, by rw [anscombe_mask]; norm_num [levelMask]⟩

/-- zeros: an entry whose data value is exactly 0 (empty bin), or whose model value is 0, is masked in the Anscombe residual
    for every `mask` argument, `None` included — because both `x^(−1/3)` terms go through `numpy.ma.power`, whose domain check
    masks `x = 0` for a negative exponent (generated table `anscombePowers` read from the source; `**` would not mask). -/
theorem C11_resid_anscombe_zero :
    anscombeZeroMasked "data" = true ∧ anscombeZeroMasked "model" = true
    ∧ ∀ (pw : Int → Nat → ℝ → ℝ) (mk : Option ℝ) (m d : Cell ℝ), (d.val = 0 ∨ m.val = 0) →
        (anscombeCell pw mk m d).mask = true :=
  ⟨by decide, by decide, fun pw mk m d h => anscombe_zero_masked pw mk m d h⟩

/-- the `mask` argument (a level `k`): it hides exactly the entries with `model ≤ k ∧ data ≤ k` on top of the level-free
    mask, in both residuals.  Relation to the docstring ("the level in model below which the returned residual array is
    masked"): every entry the level hides has `model ≤ k` — but not every entry with `model ≤ k` is hidden: one with
    `data > k` stays visible (witness: model 1, data 5, level 2, both residuals). -/
theorem C11_resid_level (k : ℝ) (m d : Cell ℝ) :
    ((linResidCell Real.sqrt (some k) m d).mask
        = ((linResidCell Real.sqrt none m d).mask || (decide (m.val ≤ k) && decide (d.val ≤ k))))
    ∧ ((anscombeCell rpw (some k) m d).mask
        = ((anscombeCell rpw none m d).mask || (decide (m.val ≤ k) && decide (d.val ≤ k))))
    ∧ ((linResidCell Real.sqrt (some k) m d).mask = true → (linResidCell Real.sqrt none m d).mask = false → m.val ≤ k)
    ∧ (linResidCell Real.sqrt (some 2) ⟨1, false, false⟩ ⟨5, false, false⟩).mask = false
    ∧ (anscombeCell rpw (some 2) ⟨1, false, false⟩ ⟨5, false, false⟩).mask = false := by
  refine ⟨?_, ?_, ?_, ?_, ?_⟩
  · rw [linResid_mask, linResid_mask]; simp [levelMask]
  · rw [anscombe_mask, anscombe_mask]; simp [levelMask]
  · intro h1 h0
    rw [linResid_mask] at h1 h0
    simp only [levelMask, Bool.or_false] at h0
    rw [h0] at h1
    simp only [Bool.false_or] at h1
    exact (levelMask_le k m.val d.val h1).1
  · rw [linResid_mask]; norm_num [levelMask]
  · rw [anscombe_mask]; norm_num [levelMask]

/-! ## Round 4: the array layout is irrelevant for the reductions -/

/-- Without auto-fold (data unfolded, or model already folded) `ll`, the optimal scaling and `ll_multinom` only depend on the
    multiset of (model cell, data cell) pairs: listing the entries of the n-D arrays in any other order (C order, Fortran
    order, any simultaneous permutation of both spectra) gives the same values.  So the row-major flattening of the model is
    no assumption for these functions; the layout matters only for the fold, where reversing the flat array is reversing every
    axis (`C09_mirror_axes`).  FULL STRENGTH for θ / `ll_multinom` (see `C11_theta`). -/
theorem C11_layout_irrelevant (lgam : ℝ → ℝ) (M D M' D' : MSpec ℝ)
    (hperm : (M'.cells.zip D'.cells).Perm (M.cells.zip D.cells))
    (hf : D.folded = false ∨ M.folded = true) (hf' : D'.folded = false ∨ M'.folded = true) :
    (ll Real.log lgam M' D').val = (ll Real.log lgam M D).val
    ∧ (optimalScaling M' D').val = (optimalScaling M D).val
    ∧ (joint M.cells D.cells ≠ [] → (llMultinom Real.log lgam M' D').val = (llMultinom Real.log lgam M D).val) := by
  have e : effModel M D = M := by rcases hf with h | h <;> simp [effModel, h]
  have e' : effModel M' D' = M' := by rcases hf' with h | h <;> simp [effModel, h]
  have hj : (joint M'.cells D'.cells).Perm (joint M.cells D.cells) := by
    unfold joint; exact (hperm.filter _).map _
  have hD : sumD (joint M'.cells D'.cells) = sumD (joint M.cells D.cells) := (hj.map _).sum_eq
  have hM : sumM (joint M'.cells D'.cells) = sumM (joint M.cells D.cells) := (hj.map _).sum_eq
  refine ⟨?_, ?_, fun hne => ?_⟩
  · rw [C11_ll_def, C11_ll_def, e, e']
    exact ((hj.filter _).map _).sum_eq
  · rw [C11_theta, C11_theta, e, e', hD, hM]
  · have hne' : joint M'.cells D'.cells ≠ [] := fun h0 => hne (List.Perm.eq_nil (h0 ▸ hj.symm))
    rw [llMultinom_val Real.log lgam M D (Or.inl rfl) (by rw [e]; exact hne),
      llMultinom_val Real.log lgam M' D' (Or.inl rfl) (by rw [e']; exact hne'), e, e', hD, hM]
    exact (((hj.map _).filter _).map _).sum_eq

/-- non-vacuity: a 2×2 array listed row-major and column-major -/
example : ∃ (M D M' D' : MSpec ℝ), (M'.cells.zip D'.cells).Perm (M.cells.zip D.cells) ∧ M'.cells ≠ M.cells ∧
    (D.folded = false ∨ M.folded = true) ∧ (D'.folded = false ∨ M'.folded = true) ∧ joint M.cells D.cells ≠ [] := by
  refine ⟨⟨[2, 2], [⟨9, true, false⟩, ⟨1, false, false⟩, ⟨2, false, false⟩, ⟨9, true, false⟩], false⟩,
          ⟨[2, 2], [⟨0, true, false⟩, ⟨3, false, false⟩, ⟨4, false, false⟩, ⟨0, true, false⟩], false⟩,
          ⟨[2, 2], [⟨9, true, false⟩, ⟨2, false, false⟩, ⟨1, false, false⟩, ⟨9, true, false⟩], false⟩,
          ⟨[2, 2], [⟨0, true, false⟩, ⟨4, false, false⟩, ⟨3, false, false⟩, ⟨0, true, false⟩], false⟩, ?_, ?_, Or.inl rfl, Or.inl rfl, ?_⟩
  · simp only [List.zip_cons_cons, List.zip_nil_right]
    exact List.Perm.cons _ (List.Perm.swap _ _ _)
  · simp
  · simp [joint]

/-! ## non-vacuity -/

/-- a 1-D spectrum with default corner masks, one more data entry masked, a zero count: the hypotheses of
    `C11_multinom_max_partial` / `C11_gibbs_partial` hold. -/
example :
    let M : MSpec ℝ := ⟨[5], [⟨9, true, false⟩, ⟨3, false, false⟩, ⟨2, false, false⟩, ⟨1, false, false⟩, ⟨9, true, false⟩], false⟩
    let D : MSpec ℝ := ⟨[5], [⟨0, true, false⟩, ⟨4, false, false⟩, ⟨7, true, false⟩, ⟨0, false, false⟩, ⟨0, true, false⟩], false⟩
    (maskCorners (jointMask (effModel M D).cells D.cells) = jointMask (effModel M D).cells D.cells) ∧
    (∀ p ∈ joint (effModel M D).cells D.cells, 0 < p.1) ∧ (∀ p ∈ joint (effModel M D).cells D.cells, 0 ≤ p.2) ∧
    0 < sumD (joint (effModel M D).cells D.cells) := by
  intro M D
  have hj : joint (effModel M D).cells D.cells = [(3, 4), (1, 0)] := by simp [M, D, effModel, joint]
  refine ⟨by simp [M, D, effModel, jointMask, maskCorners, List.range, List.range.loop], ?_, ?_, ?_⟩ <;>
    rw [hj] <;> norm_num [sumD]

/-- folded data against an unfolded model: `effModel` is the folded model (3 entries, n = 2). -/
example :
    let M : MSpec ℝ := ⟨[3], [⟨9, true, false⟩, ⟨3, false, false⟩, ⟨9, true, false⟩], false⟩
    let D : MSpec ℝ := ⟨[3], [⟨0, true, false⟩, ⟨4, false, false⟩, ⟨0, true, false⟩], true⟩
    effModel M D = foldSpec M := by
  intro M D; simp [M, D, effModel]

end DadiVerif
