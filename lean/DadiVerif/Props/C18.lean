import DadiVerif.Lemmas.LowPassAxis
import DadiVerif.Lemmas.LowPassInb
/-!
# C18 — the low-pass calling model redistributes probability and vanishes at deep coverage

Property theorems only (helpers: Lemmas/LowPass{Sums,Part,Mat,Cov,ND,Axis,Inb}.lean).
The definitions are the ones the driver executes (Model/LowPass.lean, namespace `DadiVerif.LowPass`), whose closed
formulas are the *generated* `Gen.LowPass.*` (re-read from dadi/LowPass/LowPass.py on every run): `part`, `pw`
(partitions zipped with their probabilities), `projEntry`/`projRow`, `hetErr`, `callEntry`, `nocall`,
`probEnough`, `mkAxis`/`axesOf`, `corrected`.
Sizes are written `2·N` sequenced and `2·m` subsampled haplotypes (the code requires even numbers); all statements
hold for every N, m, every rational coverage distribution, every rational 0 ≤ F < 1, any number of populations.
-/
namespace DadiVerif
open Finset LowPass

/-! ## the source has the shape the model's loop skeleton assumes -/

/-- structural facts read off the current source by the translator (BetaBinomln / multinomln / part formulas,
    `projection_inbreeding` skeleton, Fx = 1 refused) -/
theorem C18_shapes :
    Gen.LowPass.betaBinomShapeOk = true ∧ Gen.LowPass.multinomlnShapeOk = true ∧ Gen.LowPass.partShapeOk = true ∧
    Gen.LowPass.projInbShapeOk = true ∧ Gen.LowPass.fxOneRefused = true ∧
    Gen.LowPass.hetValue = 1 ∧ Gen.LowPass.homAltValue = 2 ∧
    Gen.LowPass.cachedProjArgs = ["n_subsampling", "n_sequenced", "allele_freq"] := by decide

/-! ## genotype partitions -/

/-- **All and only.**  `part x n minv maxv` lists exactly the non-decreasing vectors of length n with entries in
    [minv, maxv] and sum x … -/
theorem C18_part_complete (x n minv maxv : ℕ) (l : List ℕ) :
    l ∈ part x n minv maxv ↔
      l.length = n ∧ l.sum = x ∧ (∀ v ∈ l, minv ≤ v ∧ v ≤ maxv) ∧ l.Pairwise (· ≤ ·) :=
  mem_part n x minv maxv l

/-- … each exactly once. -/
theorem C18_part_once (x n minv maxv : ℕ) : (part x n minv maxv).Nodup := part_nodup n x minv maxv

example : part 4 4 0 2 = [[0, 0, 2, 2], [0, 1, 1, 2], [1, 1, 1, 1]] := by decide

/-- a genotype configuration of allele count x among n diploids has `het + 2·homAlt = x` and
    `homRef + het + homAlt = n` (what the no-call and calling-error formulas rely on) -/
theorem C18_part_counts (x n : ℕ) (g : List ℕ) (hg : g ∈ part x n 0 2) :
    x = g.count 1 + 2 * g.count 2 ∧ n = g.count 0 + g.count 1 + g.count 2 :=
  ⟨(part_facts hg).2.2.2.1, (part_facts hg).2.2.2.2⟩

/-- **Partition probabilities** (F = 0: multinomial ways·2^het; 0 < F < 1: beta-binomial weights) are positive and
    sum to one, for every allele count 0 ≤ x ≤ 2n. -/
theorem C18_part_prob_sum (x n : ℕ) (hx : x ≤ 2 * n) (F : ℚ) (hF0 : 0 ≤ F) (hF1 : F < 1) :
    lsum (partProbs x n F) = 1 ∧ ∀ q ∈ partProbs x n F, 0 < q := by
  constructor
  · exact pw_sum x n hx F hF0 hF1
  · intro q hq
    simp only [partProbs, List.mem_map] at hq
    obtain ⟨gp, hgp, rfl⟩ := hq
    exact pw_prob_pos x n hx F hF0 hF1 hgp

example : partProbs 4 4 0 = [3/35, 24/35, 8/35] := by decide +kernel

/-- the single-individual genotype probabilities of `part_inbreeding_probability` (in the pinned source:
    exp(BetaBinomln(k, 2, α, β)) with α = p(1−F)/F, β = (1−p)(1−F)/F, evaluated exactly) are the classical
    (1−p)² + Fp(1−p), 2p(1−p)(1−F), p² + Fp(1−p) -/
theorem C18_inbreeding_closed (p F : ℚ) (hF0 : F ≠ 0) (hF1 : F ≠ 1) :
    Gen.LowPass.inbP00 p F = (1 - p) ^ 2 + F * p * (1 - p) ∧
    Gen.LowPass.inbP01 p F = 2 * p * (1 - p) * (1 - F) ∧
    Gen.LowPass.inbP11 p F = p ^ 2 + F * p * (1 - p) :=
  inbP_closed p F hF0 hF1

/-- **F → 0, algebraic form.**  (a) For every 0 < F < 1 the code's un-normalised weight of a polymorphic
    configuration equals `polyWeight g F`, a *polynomial in F* (so the F > 0 branch extends continuously to F = 0);
    (b) normalising the polynomial weights at F = 0 gives exactly the probabilities of the F = 0 branch.
    *partial*: the ε–δ statement itself (continuity of a rational function with non-vanishing denominator) is not
    formalised, and round-off of the code's log-gamma route for tiny F is outside exact arithmetic (see the
    numerical oracle in the harness). -/
theorem C18_F_continuity_partial (x n : ℕ) (hx0 : 0 < x) (hx1 : x < 2 * n) (g : List ℕ) (hg : g ∈ part x n 0 2) :
    (∀ F : ℚ, 0 < F → F < 1 → partWeight F g = polyWeight g F) ∧
    polyWeight g 0 / lsum ((part x n 0 2).map fun g' => polyWeight g' 0)
      = partWeight 0 g / lsum ((part x n 0 2).map (partWeight 0)) := by
  refine ⟨?_, poly_limit_eq x n hx0 hx1 g hg⟩
  intro F hF0 hF1
  obtain ⟨hl, hs, hb, _, _⟩ := part_facts hg
  have hguard : g.sum ≠ 0 ∧ g.sum ≠ 2 * g.length := by rw [hs, hl]; omega
  simp only [partWeight, hF0.ne', if_false]
  exact inbWeightOf_poly g hguard F hF0 hF1

/-! ## projection matrix -/

/-- **Rows of `projection_matrix` are probability vectors**, with or without inbreeding: non-negative, sum one.
    (F = 0: Vandermonde; F > 0: mixture over genotype partitions of "draw m of the N individuals".) -/
theorem C18_projection_rows (N m : ℕ) (hm : m ≤ N) (F : ℚ) (hF0 : 0 ≤ F) (hF1 : F < 1) (af : ℕ) (haf : af ≤ 2 * N) :
    (∀ j, 0 ≤ projEntry (2 * N) (2 * m) F af j) ∧
    ∑ j ∈ range (2 * m + 1), projEntry (2 * N) (2 * m) F af j = 1 ∧
    projRow (2 * N) (2 * m) F af = (List.range (2 * m + 1)).map (projEntry (2 * N) (2 * m) F af) :=
  ⟨fun j => projEntry_nonneg N m F hF0 hF1 af j haf, projEntry_rowsum N m hm F hF0 hF1 af haf, projRow_eq _ _ F af⟩

example : projRow 6 4 (3/10) 2 = [46/285, 98/285, 47/95, 0, 0] := by decide +kernel

/-- `projection_inbreeding(g, k)` is a probability vector on 0..k for every genotype vector g over {0,1,2} with
    at least k/2 individuals -/
theorem C18_projection_inbreeding_rows (g : List ℕ) (hb : ∀ v ∈ g, v ≤ 2) (k : ℕ) (hk : k / 2 ≤ g.length) :
    (∀ s, 0 ≤ projInb g k s) ∧ ∑ s ∈ range (k + 1), projInb g k s = 1 :=
  ⟨fun s => projInb_nonneg g k s, projInb_rowsum g hb k hk⟩

/-! ## heterozygote miscall matrix -/

/-- 0 ≤ prob_het_err ≤ 1 for every coverage distribution with some mass on depths ≥ 1 -/
theorem C18_het_err_le_one (c : List ℚ) (hc : ∀ v ∈ c, 0 ≤ v) (ht : 0 < covTail c) :
    0 ≤ hetErr c ∧ hetErr c ≤ 1 := hetErr_unit c hc ht

example : hetErr [1/10, 1/5, 3/10, 1/4, 3/20] = 23/48 := by decide +kernel

/-- **No index wraps.**  For a configuration with h heterozygotes, ne ≤ h errors, nr ≤ ne of them towards the
    reference, the generated target index `allele_freq + (n_error − n_ref) − n_ref` lies in 0..2m
    (because h ≤ af and af + h ≤ 2m); distinct n_ref give distinct targets, so numpy's fancy `+=` loses nothing. -/
theorem C18_calling_targets (af m : ℕ) (g : List ℕ) (hg : g ∈ part af m 0 2) (ne nr nr' : ℕ)
    (hne : ne ≤ g.count 1) (hnr : nr ≤ ne) :
    0 ≤ Gen.LowPass.afsAfterError (af : ℕ) (ne : ℕ) (nr : ℕ) ∧
    Gen.LowPass.afsAfterError (af : ℕ) (ne : ℕ) (nr : ℕ) ≤ ((2 * m : ℕ) : ℤ) ∧
    (Gen.LowPass.afsAfterError (af : ℕ) (ne : ℕ) (nr : ℕ) = Gen.LowPass.afsAfterError (af : ℕ) (ne : ℕ) (nr' : ℕ)
      → nr = nr') := by
  refine ⟨(afs_in_range hg hne hnr).1, (afs_in_range hg hne hnr).2, ?_⟩
  unfold Gen.LowPass.afsAfterError
  intro h; omega

/-- **Rows of `calling_error_matrix` are probability vectors** (with or without inbreeding) -/
theorem C18_calling_rows (c : List ℚ) (hc : ∀ v ∈ c, 0 ≤ v) (ht : 0 < covTail c)
    (m : ℕ) (F : ℚ) (hF0 : 0 ≤ F) (hF1 : F < 1) (af : ℕ) (haf : af ≤ 2 * m) :
    (∀ t, 0 ≤ callEntry c (2 * m) F af t) ∧ ∑ t ∈ range (2 * m + 1), callEntry c (2 * m) F af t = 1 := by
  obtain ⟨he0, he1⟩ := hetErr_unit c hc ht
  exact ⟨fun t => callEntryE_nonneg _ he0 he1 m F hF0 hF1 af t haf, callEntryE_rowsum _ m F hF0 hF1 af haf⟩

/-! ## no-call and enough-coverage probabilities -/

/-- the three generated `P_case` expressions, summed and weighted, in closed form:
    A = Σ_d c_d 2^{-d}, B = Σ_d d c_d 2^{-d}; the negative exponent `num_heterozygous − 1 = −1` only ever
    multiplies 0 -/
theorem C18_nocall_closed (c : List ℚ) (g : List ℕ) (pr : ℚ) :
    nocallPart c g pr = pr *
      (covAt c 0 ^ g.count 2 * covA c ^ g.count 1
        + (g.count 2 : ℚ) * covAt c 1 * covAt c 0 ^ (g.count 2 - 1) * covA c ^ g.count 1
        + covAt c 0 ^ g.count 2 * ((g.count 1 : ℚ) * covB c * covA c ^ (g.count 1 - 1))) :=
  nocallPart_eq c g pr

/-- **No-call probabilities lie in [0, 1]** for every sub-probability coverage distribution: the bracket is
    P(at most one alternative read) in a product distribution -/
theorem C18_nocall_unit (c : List ℚ) (hc : ∀ v ∈ c, 0 ≤ v) (hs : lsum c ≤ 1) (N : ℕ) (F : ℚ) (hF0 : 0 ≤ F) (hF1 : F < 1)
    (af : ℕ) (haf : af ≤ 2 * N) : 0 ≤ nocall c (2 * N) F af ∧ nocall c (2 * N) F af ≤ 1 :=
  nocall_unit c hc hs N F hF0 hF1 af haf

example : nocall [1/10, 1/5, 3/10, 1/4, 3/20] 6 0 2 = 1701/5120 := by decide +kernel

/-- **P(enough individuals covered) ∈ [0, 1]**; it is a tail of the binomial (c₀ + tail)^(N−1) -/
theorem C18_enough_unit (c : List ℚ) (hc : ∀ v ∈ c, 0 ≤ v) (hs : lsum c ≤ 1) (N m : ℕ) (hm1 : 1 ≤ m) (hmN : m ≤ N) :
    0 ≤ probEnough c (2 * N) (2 * m) ∧ probEnough c (2 * N) (2 * m) ≤ 1 ∧
    probEnough c (2 * N) (2 * m)
      = ∑ k ∈ Ico (m - 1) N, covAt c 0 ^ (N - 1 - k) * covTail c ^ k * ((N - 1).choose k : ℚ) :=
  ⟨(probEnough_unit c hc hs N m hm1 hmN).1, (probEnough_unit c hc hs N m hm1 hmN).2, probEnough_eq c N m hm1 hmN⟩

example : probEnough [1/10, 1/5, 3/10, 1/4, 3/20] 6 4 = 99/100 := by decide +kernel

/-! ## the corrected model -/

/-- **The correction never creates sites.**  For any number of populations, if every axis is sub-stochastic
    (`AxisOk`: non-negative kernel with row sums ≤ 1, no-call probabilities in [0,1]), the model spectrum is
    non-negative and every simulated output has total ≤ 1 (checked at run time: the code normalises it to 1), the
    corrected spectrum's total is at most the uncorrected total — whatever `sim_threshold`. -/
theorem C18_total_le (A : List Axis) (hA : ∀ a ∈ A, AxisOk a) (thr : ℚ)
    (model : List ℕ → ℚ) (sim : List ℕ → List ℕ → ℚ)
    (hmodel : ∀ i, inBox (A.map (·.nIn)) i → 0 ≤ model i)
    (hsim : ∀ i, inBox (A.map (·.nIn)) i → sumOut A (sim i) ≤ 1) :
    sumOut A (corrected A thr model sim) ≤ sumIn A model := by
  rw [corrected_total, sumIn_eq_box, sumIn_eq_box]
  apply sumBox_le
  intro i hi
  have hm := hmodel i hi
  obtain ⟨hr0, hr1⟩ := rowProd_unit A hA i hi
  obtain ⟨hp0, hp1⟩ := pncND_unit A hA i hi
  by_cases hu : Gen.LowPass.useSim (pncND A i) thr = true
  · have hs := hsim i hi
    simp only [hu, if_true, b2r, Gen.LowPass.analyticEntry]
    nlinarith
  · simp only [hu, b2r, Gen.LowPass.analyticEntry]
    have h1 : 0 ≤ 1 - pncND A i := by linarith
    have h2 : (1 - pncND A i) * rowProd A i ≤ 1 := by nlinarith
    have : model i * (1 - 0) * (1 - pncND A i) * rowProd A i = model i * ((1 - pncND A i) * rowProd A i) := by ring
    simp only [Bool.false_eq_true, if_false, add_zero]
    rw [this]
    nlinarith

/-- **… for the matrices the code actually builds.**  For any list of populations satisfying `PopOk`, the axes
    that `low_cov_precalc_…` prepares (`axesOf`: projection·prob_enough (product over populations) followed by the
    calling-error matrix, and the 1-D no-call vectors) are sub-stochastic, hence the corrected model has at most
    the total of the uncorrected one. -/
theorem C18_total_le_pops (pops : List Pop) (h : ∀ p ∈ pops, PopOk p) (thr : ℚ)
    (model : List ℕ → ℚ) (sim : List ℕ → List ℕ → ℚ)
    (hmodel : ∀ i, inBox ((axesOf pops).map (·.nIn)) i → 0 ≤ model i)
    (hsim : ∀ i, inBox ((axesOf pops).map (·.nIn)) i → sumOut (axesOf pops) (sim i) ≤ 1) :
    (∀ a ∈ axesOf pops, AxisOk a) ∧
    sumOut (axesOf pops) (corrected (axesOf pops) thr model sim) ≤ sumIn (axesOf pops) model := by
  have hA : ∀ a ∈ axesOf pops, AxisOk a := by
    intro a ha
    simp only [axesOf, List.mem_map] at ha
    obtain ⟨p, hp, rfl⟩ := ha
    obtain ⟨hc, hs, ht, hF0, hF1, N, m, e1, e2, _, hmN⟩ := h p hp
    obtain ⟨hpe0, hpe1⟩ := foldl_unit pops h 1 (by norm_num) (le_refl _)
    rw [e1, e2]
    exact mkAxis_ok p.c hc hs ht N m hmN p.F hF0 hF1 (peAll pops) hpe0 hpe1
  exact ⟨hA, C18_total_le _ hA thr model sim hmodel hsim⟩

example : PopOk ⟨[1/10, 1/5, 3/10, 1/4, 3/20], 6, 4, 1/5⟩ := by
  refine ⟨by decide +kernel, by decide +kernel, by decide +kernel, by norm_num, by norm_num, 3, 2, rfl, rfl, by norm_num, by norm_num⟩

/-! ## deep coverage -/

/-- **Deep-coverage identity (limit form).**  If the no-call probability vanishes on the box (then nothing is
    simulated for any threshold ≥ 0) the corrected model is the model pushed through the per-axis kernels … -/
theorem C18_deep_identity (A : List Axis) (thr : ℚ) (hthr : 0 ≤ thr) (model : List ℕ → ℚ)
    (sim : List ℕ → List ℕ → ℚ) (hp : ∀ i, inBox (A.map (·.nIn)) i → pncND A i = 0) (j : List ℕ) :
    corrected A thr model sim j = projected A model j := by
  unfold corrected projected Gen.LowPass.outputEntry
  rw [sumIn_eq_box, sumIn_eq_box, sumIn_eq_box]
  have hu : ∀ i, inBox (A.map (·.nIn)) i → Gen.LowPass.useSim (pncND A i) thr = false := by
    intro i hi
    rw [hp i hi]
    simp only [Gen.LowPass.useSim, decide_eq_false_iff_not, not_lt]
    exact hthr
  have h2 : sumBox (A.map (·.nIn)) (fun i => if Gen.LowPass.useSim (pncND A i) thr = true
      then Gen.LowPass.simTerm (model i) (sim i j) else 0) = 0 := by
    rw [sumBox_congr _ _ (fun _ => 0) (fun i hi => by simp [hu i hi])]
    exact sumBox_zero _
  rw [h2, add_zero]
  apply sumBox_congr
  intro i hi
  have hu' := hu i hi
  rw [hp i hi] at hu'
  simp [hp i hi, hu', b2r, Gen.LowPass.analyticEntry]

/-- … and each kernel is the plain projection matrix when enough individuals are always covered (pe = 1) and
    heterozygotes are never miscalled (prob_het_err = 0: the calling-error matrix is then the identity) … -/
theorem C18_deep_kernel (N m : ℕ) (F : ℚ) (hF0 : 0 ≤ F) (hF1 : F < 1) (i j : ℕ) (hj : j < 2 * m + 1) :
    kernel 1 (projEntry (2 * N) (2 * m) F) (callEntryE 0 (2 * m) F) (2 * m) i j = projEntry (2 * N) (2 * m) F i j :=
  kernel_deep _ _ (2 * m) i j hj (fun k hk => callEntryE_zero m F hF0 hF1 k j (by omega))

/-- … and `prob_enough` is exactly 1 as soon as depth 0 has probability 0.
    *partial* (`C18_deep_limit` is numerical): with finite depths the no-call probability and prob_het_err are
    positive (≤ (D+1)·2^{-D} and 2·2^{-D} when every individual has depth D); the harness checks
    |corrected − projection| ≤ (D + 2 + nsub)·2^{-D}·total on the real code. -/
theorem C18_deep_enough (c : List ℚ) (h0 : covAt c 0 = 0) (ht : covTail c = 1) (N m : ℕ) (hm1 : 1 ≤ m) (hmN : m ≤ N) :
    probEnough c (2 * N) (2 * m) = 1 := probEnough_deep c h0 ht N m hm1 hmN

example : probEnough [0, 0, 0, 1] 8 4 = 1 := by decide +kernel

end DadiVerif
