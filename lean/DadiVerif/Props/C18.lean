import DadiVerif.Lemmas.LowPassAxis
import DadiVerif.Lemmas.LowPassInb
import DadiVerif.Lemmas.LowPassDefined
import DadiVerif.Lemmas.LowPassDeepPops
import DadiVerif.Lemmas.LowPassCont
import DadiVerif.Lemmas.LowPassMixAll
import DadiVerif.Lemmas.LowPassSim
import DadiVerif.Lemmas.LowPassDeepEntry
/-!
# C18 — the low-pass calling model redistributes probability and vanishes at deep coverage

Property theorems only (helpers: Lemmas/LowPass{Sums,Geno,Part,Mat,Cov,ND,Axis,Inb,Defined,Deep,DeepAxis,DeepPops,Cont,Count,Rep,HW,MixAll,Sim,DeepEntry}.lean).
The definitions are the ones the driver executes (Model/LowPass.lean, namespace `DadiVerif.LowPass`), whose closed
formulas are the *generated* `Gen.LowPass.*` (re-read from dadi/LowPass/LowPass.py on every run): `part`, `pw`
(partitions zipped with their probabilities), `projEntry`/`projRow`, `hetErr`, `callEntry`, `nocall`,
`probEnough`, `mkAxis`/`axesOf`, `corrected`.
Sizes are written `2·N` sequenced and `2·m` subsampled haplotypes (the code requires even numbers); all statements
hold for every N, m, every rational coverage distribution, every rational 0 ≤ F < 1, any number of populations.
-/
namespace DadiVerif
open Finset LowPass Filter Topology

/-! ## the source has the shape the model's loop skeleton assumes -/

/-- structural facts read off the current source by the translator (BetaBinomln / multinomln / part formulas,
    `projection_inbreeding` skeleton, Fx = 1 refused) -/
theorem C18_shapes :
    Gen.LowPass.betaBinomShapeOk = true ∧ Gen.LowPass.multinomlnShapeOk = true ∧ Gen.LowPass.partShapeOk = true ∧
    Gen.LowPass.projInbShapeOk = true ∧ Gen.LowPass.fxOneRefused = true ∧
    Gen.LowPass.hetValue = 1 ∧ Gen.LowPass.homAltValue = 2 ∧
    Gen.LowPass.cachedProjArgs = ["n_subsampling", "n_sequenced", "allele_freq"] := by decide

/-! ## genotype partitions -/

/-- **All and only.**  `part x n minv maxv` lists exactly the non-decreasing vectors of length n with entries in
    [minv, maxv] and sum x … -/
theorem C18_part_complete (x n minv maxv : ℕ) (l : List ℕ) :
    l ∈ part x n minv maxv ↔
      l.length = n ∧ l.sum = x ∧ (∀ v ∈ l, minv ≤ v ∧ v ≤ maxv) ∧ l.Pairwise (· ≤ ·) :=
  mem_part n x minv maxv l

/-- … each exactly once. -/
theorem C18_part_once (x n minv maxv : ℕ) : (part x n minv maxv).Nodup := part_nodup n x minv maxv

example : part 4 4 0 2 = [[0, 0, 2, 2], [0, 1, 1, 2], [1, 1, 1, 1]] := by decide

/-- a genotype configuration of allele count x among n diploids has `het + 2·homAlt = x` and
    `homRef + het + homAlt = n` (what the no-call and calling-error formulas rely on) -/
theorem C18_part_counts (x n : ℕ) (g : List ℕ) (hg : g ∈ part x n 0 2) :
    x = g.count 1 + 2 * g.count 2 ∧ n = g.count 0 + g.count 1 + g.count 2 :=
  ⟨(part_facts hg).2.2.2.1, (part_facts hg).2.2.2.2⟩

/-- **Partition probabilities** (F = 0: multinomial ways·2^het; 0 < F < 1: beta-binomial weights) are positive and
    sum to one, for every allele count 0 ≤ x ≤ 2n. -/
theorem C18_part_prob_sum (x n : ℕ) (hx : x ≤ 2 * n) (F : ℚ) (hF0 : 0 ≤ F) (hF1 : F < 1) :
    lsum (partProbs x n F) = 1 ∧ ∀ q ∈ partProbs x n F, 0 < q := by
  constructor
  · exact pw_sum x n hx F hF0 hF1
  · intro q hq
    simp only [partProbs, List.mem_map] at hq
    obtain ⟨gp, hgp, rfl⟩ := hq
    exact pw_prob_pos x n hx F hF0 hF1 hgp

example : partProbs 4 4 0 = [3/35, 24/35, 8/35] := by decide +kernel

/-- the single-individual genotype probabilities of `part_inbreeding_probability` (in the pinned source:
    exp(BetaBinomln(k, 2, α, β)) with α = p(1−F)/F, β = (1−p)(1−F)/F, evaluated exactly) are the classical
    (1−p)² + Fp(1−p), 2p(1−p)(1−F), p² + Fp(1−p) -/
theorem C18_inbreeding_closed (p F : ℚ) (hF0 : F ≠ 0) (hF1 : F ≠ 1) :
    Gen.LowPass.inbP00 p F = (1 - p) ^ 2 + F * p * (1 - p) ∧
    Gen.LowPass.inbP01 p F = 2 * p * (1 - p) * (1 - F) ∧
    Gen.LowPass.inbP11 p F = p ^ 2 + F * p * (1 - p) :=
  inbP_closed p F hF0 hF1

/-- **F → 0, algebraic form.**  (a) For every 0 < F < 1 the code's un-normalised weight of a polymorphic
    configuration equals `polyWeight g F`, a *polynomial in F* (so the F > 0 branch extends continuously to F = 0);
    (b) normalising the polynomial weights at F = 0 gives exactly the probabilities of the F = 0 branch.
    *partial*: the ε–δ statement itself (continuity of a rational function with non-vanishing denominator) is not
    formalised, and round-off of the code's log-gamma route for tiny F is outside exact arithmetic (see the
    numerical oracle in the harness). -/
theorem C18_F_continuity_partial (x n : ℕ) (hx0 : 0 < x) (hx1 : x < 2 * n) (g : List ℕ) (hg : g ∈ part x n 0 2) :
    (∀ F : ℚ, 0 < F → F < 1 → partWeight F g = polyWeight g F) ∧
    polyWeight g 0 / lsum ((part x n 0 2).map fun g' => polyWeight g' 0)
      = partWeight 0 g / lsum ((part x n 0 2).map (partWeight 0)) := by
  refine ⟨?_, poly_limit_eq x n hx0 hx1 g hg⟩
  intro F hF0 hF1
  obtain ⟨hl, hs, hb, _, _⟩ := part_facts hg
  have hguard : g.sum ≠ 0 ∧ g.sum ≠ 2 * g.length := by rw [hs, hl]; omega
  simp only [partWeight, hF0.ne', if_false]
  exact inbWeightOf_poly g hguard F hF0 hF1

/-! ## projection matrix -/

/-- **Rows of `projection_matrix` are probability vectors**, with or without inbreeding: non-negative, sum one.
    (F = 0: Vandermonde; F > 0: mixture over genotype partitions of "draw m of the N individuals".) -/
theorem C18_projection_rows (N m : ℕ) (hm : m ≤ N) (F : ℚ) (hF0 : 0 ≤ F) (hF1 : F < 1) (af : ℕ) (haf : af ≤ 2 * N) :
    (∀ j, 0 ≤ projEntry (2 * N) (2 * m) F af j) ∧
    ∑ j ∈ range (2 * m + 1), projEntry (2 * N) (2 * m) F af j = 1 ∧
    projRow (2 * N) (2 * m) F af = (List.range (2 * m + 1)).map (projEntry (2 * N) (2 * m) F af) :=
  ⟨fun j => projEntry_nonneg N m F hF0 hF1 af j haf, projEntry_rowsum N m hm F hF0 hF1 af haf, projRow_eq _ _ F af⟩

example : projRow 6 4 (3/10) 2 = [46/285, 98/285, 47/95, 0, 0] := by decide +kernel

/-- `projection_inbreeding(g, k)` is a probability vector on 0..k for every genotype vector g over {0,1,2} with
    at least k/2 individuals -/
theorem C18_projection_inbreeding_rows (g : List ℕ) (hb : ∀ v ∈ g, v ≤ 2) (k : ℕ) (hk : k / 2 ≤ g.length) :
    (∀ s, 0 ≤ projInb g k s) ∧ ∑ s ∈ range (k + 1), projInb g k s = 1 :=
  ⟨fun s => projInb_nonneg g k s, projInb_rowsum g hb k hk⟩

/-! ## heterozygote miscall matrix -/

/-- 0 ≤ prob_het_err ≤ 1 for every coverage distribution with some mass on depths ≥ 1 -/
theorem C18_het_err_le_one (c : List ℚ) (hc : ∀ v ∈ c, 0 ≤ v) (ht : 0 < covTail c) :
    0 ≤ hetErr c ∧ hetErr c ≤ 1 := hetErr_unit c hc ht

example : hetErr [1/10, 1/5, 3/10, 1/4, 3/20] = 23/48 := by decide +kernel

/-- **No index wraps.**  For a configuration with h heterozygotes, ne ≤ h errors, nr ≤ ne of them towards the
    reference, the generated target index `allele_freq + (n_error − n_ref) − n_ref` lies in 0..2m
    (because h ≤ af and af + h ≤ 2m); distinct n_ref give distinct targets, so numpy's fancy `+=` loses nothing. -/
theorem C18_calling_targets (af m : ℕ) (g : List ℕ) (hg : g ∈ part af m 0 2) (ne nr nr' : ℕ)
    (hne : ne ≤ g.count 1) (hnr : nr ≤ ne) :
    0 ≤ Gen.LowPass.afsAfterError (af : ℕ) (ne : ℕ) (nr : ℕ) ∧
    Gen.LowPass.afsAfterError (af : ℕ) (ne : ℕ) (nr : ℕ) ≤ ((2 * m : ℕ) : ℤ) ∧
    (Gen.LowPass.afsAfterError (af : ℕ) (ne : ℕ) (nr : ℕ) = Gen.LowPass.afsAfterError (af : ℕ) (ne : ℕ) (nr' : ℕ)
      → nr = nr') := by
  refine ⟨(afs_in_range hg hne hnr).1, (afs_in_range hg hne hnr).2, ?_⟩
  unfold Gen.LowPass.afsAfterError
  intro h; omega

/-- **Rows of `calling_error_matrix` are probability vectors** (with or without inbreeding) -/
theorem C18_calling_rows (c : List ℚ) (hc : ∀ v ∈ c, 0 ≤ v) (ht : 0 < covTail c)
    (m : ℕ) (F : ℚ) (hF0 : 0 ≤ F) (hF1 : F < 1) (af : ℕ) (haf : af ≤ 2 * m) :
    (∀ t, 0 ≤ callEntry c (2 * m) F af t) ∧ ∑ t ∈ range (2 * m + 1), callEntry c (2 * m) F af t = 1 := by
  obtain ⟨he0, he1⟩ := hetErr_unit c hc ht
  exact ⟨fun t => callEntryE_nonneg _ he0 he1 m F hF0 hF1 af t haf, callEntryE_rowsum _ m F hF0 hF1 af haf⟩

/-! ## no-call and enough-coverage probabilities -/

/-- the three generated `P_case` expressions, summed and weighted, in closed form:
    A = Σ_d c_d 2^{-d}, B = Σ_d d c_d 2^{-d}; the negative exponent `num_heterozygous − 1 = −1` only ever
    multiplies 0 -/
theorem C18_nocall_closed (c : List ℚ) (af : ℕ) (g : List ℕ) (pr : ℚ) :
    nocallPart c af g pr = pr *
      (covAt c 0 ^ g.count 2 * covA c ^ g.count 1
        + (g.count 2 : ℚ) * covAt c 1 * covAt c 0 ^ (g.count 2 - 1) * covA c ^ g.count 1
        + covAt c 0 ^ g.count 2 * ((g.count 1 : ℚ) * covB c * covA c ^ (g.count 1 - 1))) :=
  nocallPart_eq c af g pr

/-- **No-call probabilities lie in [0, 1]** for every sub-probability coverage distribution: the bracket is
    P(at most one alternative read) in a product distribution -/
theorem C18_nocall_unit (c : List ℚ) (hc : ∀ v ∈ c, 0 ≤ v) (hs : lsum c ≤ 1) (N : ℕ) (F : ℚ) (hF0 : 0 ≤ F) (hF1 : F < 1)
    (af : ℕ) (haf : af ≤ 2 * N) : 0 ≤ nocall c (2 * N) F af ∧ nocall c (2 * N) F af ≤ 1 :=
  nocall_unit c hc hs N F hF0 hF1 af haf

example : nocall [1/10, 1/5, 3/10, 1/4, 3/20] 6 0 2 = 1701/5120 := by decide +kernel

/-- **P(enough individuals covered) ∈ [0, 1]**; it is a tail of the binomial (c₀ + tail)^(N−1) -/
theorem C18_enough_unit (c : List ℚ) (hc : ∀ v ∈ c, 0 ≤ v) (hs : lsum c ≤ 1) (N m : ℕ) (hm1 : 1 ≤ m) (hmN : m ≤ N) :
    0 ≤ probEnough c (2 * N) (2 * m) ∧ probEnough c (2 * N) (2 * m) ≤ 1 ∧
    probEnough c (2 * N) (2 * m)
      = ∑ k ∈ Ico (m - 1) N, covAt c 0 ^ (N - 1 - k) * covTail c ^ k * ((N - 1).choose k : ℚ) :=
  ⟨(probEnough_unit c hc hs N m hm1 hmN).1, (probEnough_unit c hc hs N m hm1 hmN).2, probEnough_eq c N m hm1 hmN⟩

example : probEnough [1/10, 1/5, 3/10, 1/4, 3/20] 6 4 = 99/100 := by decide +kernel

/-! ## the corrected model -/

/-- **The correction never creates sites.**  For any number of populations, if every axis is sub-stochastic
    (`AxisOk`: non-negative kernel with row sums ≤ 1, no-call probabilities in [0,1]), the model spectrum is
    non-negative and every simulated output has total ≤ 1 (checked at run time: the code normalises it to 1), the
    corrected spectrum's total is at most the uncorrected total — whatever `sim_threshold`. -/
theorem C18_total_le (A : List Axis) (hA : ∀ a ∈ A, AxisOk a) (thr : ℚ)
    (model : List ℕ → ℚ) (sim : List ℕ → List ℕ → ℚ)
    (hmodel : ∀ i, inBox (A.map (·.nIn)) i → 0 ≤ model i)
    (hsim : ∀ i, inBox (A.map (·.nIn)) i → sumOut A (sim i) ≤ 1) :
    sumOut A (corrected A thr model sim) ≤ sumIn A model := by
  rw [corrected_total, sumIn_eq_box, sumIn_eq_box]
  apply sumBox_le
  intro i hi
  have hm := hmodel i hi
  obtain ⟨hr0, hr1⟩ := rowProd_unit A hA i hi
  obtain ⟨hp0, hp1⟩ := pncND_unit A hA i hi
  by_cases hu : Gen.LowPass.useSim (pncND A i) thr = true
  · have hs := hsim i hi
    simp only [hu, if_true, b2r, Gen.LowPass.analyticEntry]
    nlinarith
  · simp only [hu, b2r, Gen.LowPass.analyticEntry]
    have h1 : 0 ≤ 1 - pncND A i := by linarith
    have h2 : (1 - pncND A i) * rowProd A i ≤ 1 := by nlinarith
    have : model i * (1 - 0) * (1 - pncND A i) * rowProd A i = model i * ((1 - pncND A i) * rowProd A i) := by ring
    simp only [Bool.false_eq_true, if_false, add_zero]
    rw [this]
    nlinarith

/-- **… for the matrices the code actually builds.**  For any list of populations satisfying `PopOk`, the axes
    that `low_cov_precalc_…` prepares (`axesOf`: projection·prob_enough (product over populations) followed by the
    calling-error matrix, and the 1-D no-call vectors) are sub-stochastic, hence the corrected model has at most
    the total of the uncorrected one. -/
theorem C18_total_le_pops (pops : List Pop) (h : ∀ p ∈ pops, PopOk p) (thr : ℚ)
    (model : List ℕ → ℚ) (sim : List ℕ → List ℕ → ℚ)
    (hmodel : ∀ i, inBox ((axesOf pops).map (·.nIn)) i → 0 ≤ model i)
    (hsim : ∀ i, inBox ((axesOf pops).map (·.nIn)) i → sumOut (axesOf pops) (sim i) ≤ 1) :
    (∀ a ∈ axesOf pops, AxisOk a) ∧
    sumOut (axesOf pops) (corrected (axesOf pops) thr model sim) ≤ sumIn (axesOf pops) model := by
  have hA : ∀ a ∈ axesOf pops, AxisOk a := by
    intro a ha
    simp only [axesOf, List.mem_map] at ha
    obtain ⟨p, hp, rfl⟩ := ha
    obtain ⟨hc, hs, ht, hF0, hF1, N, m, e1, e2, _, hmN⟩ := h p hp
    obtain ⟨hpe0, hpe1⟩ := foldl_unit pops h 1 (by norm_num) (le_refl _)
    rw [e1, e2]
    exact mkAxis_ok p.c hc hs ht N m hmN p.F hF0 hF1 (peAll pops) hpe0 hpe1
  exact ⟨hA, C18_total_le _ hA thr model sim hmodel hsim⟩

example : PopOk ⟨[1/10, 1/5, 3/10, 1/4, 3/20], 6, 4, 1/5⟩ := by
  refine ⟨by decide +kernel, by decide +kernel, by decide +kernel, by norm_num, by norm_num, 3, 2, rfl, rfl, by norm_num, by norm_num⟩

/-! ## deep coverage -/

/-- **Deep-coverage identity (limit form).**  If the no-call probability vanishes on the box (then nothing is
    simulated for any threshold ≥ 0) the corrected model is the model pushed through the per-axis kernels … -/
theorem C18_deep_identity (A : List Axis) (thr : ℚ) (hthr : 0 ≤ thr) (model : List ℕ → ℚ)
    (sim : List ℕ → List ℕ → ℚ) (hp : ∀ i, inBox (A.map (·.nIn)) i → pncND A i = 0) (j : List ℕ) :
    corrected A thr model sim j = projected A model j := by
  unfold corrected projected Gen.LowPass.outputEntry
  rw [sumIn_eq_box, sumIn_eq_box, sumIn_eq_box]
  have hu : ∀ i, inBox (A.map (·.nIn)) i → Gen.LowPass.useSim (pncND A i) thr = false := by
    intro i hi
    rw [hp i hi]
    simp only [Gen.LowPass.useSim, decide_eq_false_iff_not, not_lt]
    exact hthr
  have h2 : sumBox (A.map (·.nIn)) (fun i => if Gen.LowPass.useSim (pncND A i) thr = true
      then Gen.LowPass.simTerm (model i) (sim i j) else 0) = 0 := by
    rw [sumBox_congr _ _ (fun _ => 0) (fun i hi => by simp [hu i hi])]
    exact sumBox_zero _
  rw [h2, add_zero]
  apply sumBox_congr
  intro i hi
  have hu' := hu i hi
  rw [hp i hi] at hu'
  simp [hp i hi, hu', b2r, Gen.LowPass.analyticEntry]

/-- … and each kernel is the plain projection matrix when enough individuals are always covered (pe = 1) and
    heterozygotes are never miscalled (prob_het_err = 0: the calling-error matrix is then the identity) … -/
theorem C18_deep_kernel (N m : ℕ) (F : ℚ) (hF0 : 0 ≤ F) (hF1 : F < 1) (i j : ℕ) (hj : j < 2 * m + 1) :
    kernel 1 (projEntry (2 * N) (2 * m) F) (callEntryE 0 (2 * m) F) (2 * m) i j = projEntry (2 * N) (2 * m) F i j :=
  kernel_deep _ _ (2 * m) i j hj (fun k hk => callEntryE_zero m F hF0 hF1 k j (by omega))

/-- … and `prob_enough` is exactly 1 as soon as depth 0 has probability 0.
    *partial* (`C18_deep_limit` is numerical): with finite depths the no-call probability and prob_het_err are
    positive (≤ (D+1)·2^{-D} and 2·2^{-D} when every individual has depth D); the harness checks
    |corrected − projection| ≤ (D + 2 + nsub)·2^{-D}·total on the real code. -/
theorem C18_deep_enough (c : List ℚ) (h0 : covAt c 0 = 0) (ht : covTail c = 1) (N m : ℕ) (hm1 : 1 ≤ m) (hmN : m ≤ N) :
    probEnough c (2 * N) (2 * m) = 1 := probEnough_deep c h0 ht N m hm1 hmN

example : probEnough [0, 0, 0, 1] 8 4 = 1 := by decide +kernel

/-! ## round 4: definedness, cached partitions, deep coverage for d populations, continuity at F = 0 -/

/-- **The guards of `probability_of_no_call_1D_GATK_multisample` are the right ones.**  For every coverage distribution
    with non-negative entries and some mass — in particular with *exactly zero* mass at depth 0 and/or 1 — every power the
    code evaluates (generated conditions `nocallDefined`: one `zpowOk base exponent` per `**` of the three `P_case`
    expressions, the arm of the `if` that is executed only) has a non-negative exponent or a non-zero base, for every allele
    count and every genotype configuration: no `0 ** -1`, hence no `0 * inf = nan`.  (The model's `zpowR 0 (-1) = 0` is
    therefore never consulted where Python would differ.) -/
theorem C18_nocall_defined (c : List ℚ) (hc : ∀ v ∈ c, 0 ≤ v) (hpos : 0 < lsum c) :
    (∀ af g, nocallDefinedAt c af g = true) ∧ ∀ nseq, nocallOk c nseq = true :=
  ⟨fun af g => nocallDefinedAt_true c (covA_pos c hc hpos).ne' af g, fun nseq => nocallOk_true c hc hpos nseq⟩

example : covAt [0, 0, 1/2, 1/2] 0 = 0 ∧ covAt [0, 0, 1/2, 1/2] 1 = 0 ∧ nocallOk [0, 0, 1/2, 1/2] 6 = true :=
  ⟨by decide +kernel, by decide +kernel, (C18_nocall_defined _ (by decide +kernel) (by decide +kernel)).2 6⟩

/-- the other generated formulas are defined too: the only division of `prob_het_err` is by the mass of the depths ≥ 1,
    and every exponent in the loop of `probability_enough_individuals_covered` is non-negative -/
theorem C18_formulas_defined (c : List ℚ) (ht : covTail c ≠ 0) (N m : ℕ) (hm1 : 1 ≤ m) :
    hetErrOk c = true ∧ probEnoughOk c (2 * N) (2 * m) = true :=
  ⟨hetErrOk_true c ht, probEnoughOk_true c N m hm1⟩

example : hetErrOk [0, 0, 1/2, 1/2] = true ∧ probEnoughOk [0, 0, 1/2, 1/2] 6 4 = true := by decide +kernel

/-- **Cached partitions are never mutated.**  `Numerics.cached_part` returns the very list stored in `_part_cache`; the
    generated effect table lists every in-place operation of LowPass.py (and of the `cached_part` users in Numerics.py) with
    the verdict of a may-alias analysis of the current source: none of them can reach a cached list, although cached lists do
    flow into `flatten_nested_list`, `part_inbreeding_probability`, `projection_inbreeding` and `simulate_reads`. -/
theorem C18_cached_not_mutated :
    (∀ s ∈ Gen.LowPass.inPlaceSites, s.2.2.2 = false) ∧
    ("flatten_nested_list", "nested_list") ∈ Gen.LowPass.cachedReceivers ∧
    ("projection_inbreeding", "partition") ∈ Gen.LowPass.cachedReceivers ∧
    ("part_inbreeding_probability", "parts") ∈ Gen.LowPass.cachedReceivers ∧
    "partitions_and_probabilities" ∈ Gen.LowPass.cachedReturners := by decide

/-- **Deep coverage, exact form, any number of populations.**  `AB` pairs each correction axis with a reference axis.  If
    on the support of the model spectrum the no-call probability vanishes and the kernels coincide with the reference
    kernels, then for every `sim_threshold ≥ 0` the corrected model equals the reference projection entry-wise — the
    simulated tables are irrelevant (nothing on the support is simulated). -/
theorem C18_deep_exact (AB : List (Axis × Axis))
    (h : ∀ ab ∈ AB, ab.1.nIn = ab.2.nIn ∧ ab.1.nOut = ab.2.nOut ∧
      ∀ i, i < ab.1.nIn → ∀ j, j < ab.1.nOut → ab.1.K i j = ab.2.K i j)
    (thr : ℚ) (hthr : 0 ≤ thr) (model : List ℕ → ℚ) (sim : List ℕ → List ℕ → ℚ)
    (hp : ∀ i, inBox ((AB.map (·.1)).map (·.nIn)) i → model i ≠ 0 → pncND (AB.map (·.1)) i = 0)
    (j : List ℕ) (hj : inBox ((AB.map (·.1)).map (·.nOut)) j) :
    corrected (AB.map (·.1)) thr model sim j = projected (AB.map (·.2)) model j :=
  corrected_exact AB h thr hthr model sim hp j hj

/-- non-vacuity: a two-population instance whose no-call probability vanishes away from the (masked) corner -/
example : ∃ (AB : List (Axis × Axis)) (model : List ℕ → ℚ),
    (∀ ab ∈ AB, ab.1.nIn = ab.2.nIn ∧ ab.1.nOut = ab.2.nOut ∧
      ∀ i, i < ab.1.nIn → ∀ j, j < ab.1.nOut → ab.1.K i j = ab.2.K i j) ∧
    (∀ i, inBox ((AB.map (·.1)).map (·.nIn)) i → model i ≠ 0 → pncND (AB.map (·.1)) i = 0) ∧ model [1, 2] ≠ 0 := by
  let a : Axis := { nIn := 3, nOut := 2, K := fun i j => if i = j then 1 else 0, pnc := fun i => if i = 0 then 1 else 0 }
  refine ⟨[(a, a), (a, a)], fun i => if i = [1, 2] then 1 else 0, ?_, ?_, by simp⟩
  · intro ab hab
    have : ab = (a, a) := by simpa using hab
    subst this; exact ⟨rfl, rfl, fun _ _ _ _ => rfl⟩
  · intro i _ hm
    have : i = [1, 2] := by by_contra hne; simp [hne] at hm
    subst this; simp [pncND, a]

/-- **Deep coverage, quantitative form, any number of populations** (ℓ¹ norm over the output spectrum).  ε bounds the
    no-call probability on the support of the model, δ the ℓ¹ distance of every row of every axis kernel from the reference
    kernel, σ the ℓ¹ distance of a simulated table from the reference row (needed only where an entry is simulated). -/
theorem C18_deep_bound (δ ε σ : ℚ) (hδ : 0 ≤ δ) (hε0 : 0 ≤ ε) (hσ0 : 0 ≤ σ) (AB : List (Axis × Axis))
    (h : ∀ ab ∈ AB, PairOk δ ab) (thr : ℚ) (model : List ℕ → ℚ) (sim : List ℕ → List ℕ → ℚ)
    (hε : ∀ i, inBox ((AB.map (·.1)).map (·.nIn)) i → model i ≠ 0 → pncND (AB.map (·.1)) i ≤ ε)
    (hσ : ∀ i, inBox ((AB.map (·.1)).map (·.nIn)) i → model i ≠ 0 →
      Gen.LowPass.useSim (pncND (AB.map (·.1)) i) thr = true →
      sumBox ((AB.map (·.1)).map (·.nOut)) (fun j => |sim i j - kerND (AB.map (·.2)) i j|) ≤ σ) :
    sumBox ((AB.map (·.1)).map (·.nOut))
        (fun j => |corrected (AB.map (·.1)) thr model sim j - projected (AB.map (·.2)) model j|)
      ≤ (ε + (AB.length : ℚ) * δ + σ) * sumBox ((AB.map (·.1)).map (·.nIn)) (fun i => |model i|) :=
  corrected_l1 δ ε σ hδ hε0 hσ0 AB h thr model sim hε hσ

/-- **One population, any coverage**: every row of the kernel the code builds, `(prob_enough·projection_matrix)·calling_error`,
    is within (1 − prob_enough) + 2·n_sub·prob_het_err (ℓ¹) of the row of `projection_matrix` (for F = 0 the
    hypergeometric projection) -/
theorem C18_deep_axis (p : Pop) (hp : PopOk p) (pe : ℚ) (hpe0 : 0 ≤ pe) (hpe1 : pe ≤ 1) (i : ℕ) (hi : i < p.nseq + 1) :
    ∑ j ∈ range (p.nsub + 1), |(mkAxis p.c p.nseq p.nsub p.F pe).K i j - (refAxis p).K i j|
      ≤ (1 - pe) + 2 * (((p.nsub : ℕ) : ℚ) * hetErr p.c) ∧
    ∀ j, j < p.nsub + 1 → (refAxis p).K i j = projEntry p.nseq p.nsub p.F i j :=
  ⟨mkAxis_dev_gen p hp pe hpe0 hpe1 i hi, fun j hj => refAxis_K_eq p i j hi hj⟩

/-- **No mass below depth D**: prob_het_err ≤ 2·2^{-D}; the no-call probability of a polymorphic allele count is at most
    (1 + af·D)·2^{-D} (D ≥ 2); enough individuals are covered with probability exactly one (the condition the code needs
    is only P(depth 0) = 0) -/
theorem C18_deep_depth (c : List ℚ) (hc : ∀ v ∈ c, 0 ≤ v) (hs : lsum c = 1) (D : ℕ) (hD : 2 ≤ D)
    (hdeep : ∀ d, d < D → covAt c d = 0) (N m : ℕ) (hm1 : 1 ≤ m) (hmN : m ≤ N) (F : ℚ) (hF0 : 0 ≤ F) (hF1 : F < 1) :
    hetErr c ≤ 2 * (1 / 2) ^ D ∧
    (∀ af, 1 ≤ af → af ≤ 2 * N → nocall c (2 * N) F af ≤ (1 + (af : ℚ) * (D : ℚ)) * (1 / 2) ^ D) ∧
    probEnough c (2 * N) (2 * m) = 1 := by
  have h0 : covAt c 0 = 0 := hdeep 0 (by omega)
  have ht : covTail c = 1 := by have := lsum_eq_head_tail c; rw [h0, hs] at this; linarith
  exact ⟨hetErr_le_deep c hc (by rw [ht]; norm_num) D hdeep,
    fun af h1 h2 => nocall_le_deep c hc hs.le D hD hdeep N F hF0 hF1 af h1 h2,
    probEnough_deep c h0 ht N m hm1 hmN⟩

/-- **Deep coverage for the matrices the code builds, any number of populations.**  If every population is well-formed, its
    coverage distribution sums to one and no depth below `D = deepDepth pops ≥ 2` has positive probability, and the model
    spectrum vanishes at the all-zero corner (it is masked there), then the corrected model is within
    `deepBound pops + σ` (relative, ℓ¹) of the plain projection of the model spectrum through `projection_matrix` —
    `deepBound = (1 + max nseq·D)·2^{-D} + (number of populations)·4·max nsub·2^{-D}`; σ bounds the deviation of the
    simulated tables, only where entries are simulated. -/
theorem C18_deep_coverage (pops : List Pop) (h : ∀ p ∈ pops, PopOk p ∧ lsum p.c = 1) (hD : 2 ≤ deepDepth pops)
    (thr σ : ℚ) (hσ0 : 0 ≤ σ) (model : List ℕ → ℚ) (sim : List ℕ → List ℕ → ℚ)
    (hcorner : ∀ i, (∀ k ∈ i, k = 0) → model i = 0)
    (hσ : ∀ i, inBox ((axesOf pops).map (·.nIn)) i → model i ≠ 0 →
      Gen.LowPass.useSim (pncND (axesOf pops) i) thr = true →
      sumBox ((axesOf pops).map (·.nOut)) (fun j => |sim i j - kerND (refAxesOf pops) i j|) ≤ σ) :
    sumBox ((axesOf pops).map (·.nOut))
        (fun j => |corrected (axesOf pops) thr model sim j - projected (refAxesOf pops) model j|)
      ≤ (deepBound pops + σ) * sumBox ((axesOf pops).map (·.nIn)) (fun i => |model i|) := by
  set D := deepDepth pops with hDdef
  set Mq := maxOf (pops.map (·.nseq)) with hMq
  set M := maxOf (pops.map (·.nsub)) with hM
  have hdeep : PopsDeep D pops := fun p hp => ⟨(h p hp).1, (h p hp).2, deepCov_of_deepDepth pops p hp⟩
  have hMq' : ∀ p ∈ pops, p.nseq ≤ Mq := fun p hp => le_maxOf _ _ (List.mem_map.mpr ⟨p, hp, rfl⟩)
  have hM' : ∀ p ∈ pops, p.nsub ≤ M := fun p hp => le_maxOf _ _ (List.mem_map.mpr ⟨p, hp, rfl⟩)
  have hpairs := deepPairs_ok D M (by omega) pops hdeep hM'
  have hA : ∀ a ∈ axesOf pops, AxisOk a := by
    rw [← deepPairs_fst]; exact pair_ok1 _ _ hpairs
  have hpnc := pops_pnc_le D Mq hD pops hdeep hMq'
  have key := corrected_l1 (deepDelta D M) (deepEps D Mq) σ (deepDelta_nonneg D M) (deepEps_nonneg D Mq) hσ0
    (deepPairs pops) hpairs thr model sim
  rw [deepPairs_fst, deepPairs_snd] at key
  have hlen : (deepPairs pops).length = pops.length := by simp [deepPairs]
  rw [hlen] at key
  have := key
    (fun i hi hm => pncND_le (deepEps D Mq) (deepEps_nonneg D Mq) (axesOf pops) hA hpnc i hi
      (fun hall => hm (hcorner i hall)))
    hσ
  simpa [deepBound, ← hDdef, ← hMq, ← hM] using this

/-- … and **the simulated-regime switch is irrelevant** as soon as `sim_threshold` is at least the no-call bound
    `(1 + max nseq·D)·2^{-D}` (e.g. the default 1e-2 for D ≥ 14, nseq ≤ 40): nothing on the support is simulated and the bound
    holds with σ = 0, whatever the simulated tables are. -/
theorem C18_deep_coverage_analytic (pops : List Pop) (h : ∀ p ∈ pops, PopOk p ∧ lsum p.c = 1) (hD : 2 ≤ deepDepth pops)
    (thr : ℚ) (hthr : deepEps (deepDepth pops) (maxOf (pops.map (·.nseq))) ≤ thr)
    (model : List ℕ → ℚ) (sim : List ℕ → List ℕ → ℚ) (hcorner : ∀ i, (∀ k ∈ i, k = 0) → model i = 0) :
    sumBox ((axesOf pops).map (·.nOut))
        (fun j => |corrected (axesOf pops) thr model sim j - projected (refAxesOf pops) model j|)
      ≤ deepBound pops * sumBox ((axesOf pops).map (·.nIn)) (fun i => |model i|) := by
  have hdeep : PopsDeep (deepDepth pops) pops := fun p hp => ⟨(h p hp).1, (h p hp).2, deepCov_of_deepDepth pops p hp⟩
  have hM' : ∀ p ∈ pops, p.nsub ≤ maxOf (pops.map (·.nsub)) := fun p hp => le_maxOf _ _ (List.mem_map.mpr ⟨p, hp, rfl⟩)
  have hMq' : ∀ p ∈ pops, p.nseq ≤ maxOf (pops.map (·.nseq)) := fun p hp => le_maxOf _ _ (List.mem_map.mpr ⟨p, hp, rfl⟩)
  have hA : ∀ a ∈ axesOf pops, AxisOk a := by
    rw [← deepPairs_fst]; exact pair_ok1 _ _ (deepPairs_ok _ _ (by omega) pops hdeep hM')
  have hpnc := pops_pnc_le _ _ hD pops hdeep hMq'
  have := C18_deep_coverage pops h hD thr 0 (le_refl _) model sim hcorner (by
    intro i hi hm hu
    exfalso
    have hle := pncND_le _ (deepEps_nonneg _ _) (axesOf pops) hA hpnc i hi (fun hall => hm (hcorner i hall))
    have : ¬ (pncND (axesOf pops) i > thr) := not_lt.mpr (le_trans hle hthr)
    simp [Gen.LowPass.useSim, this] at hu)
  simpa using this

example : PopOk ⟨[0, 0, 0, 0, 0, 0, 1/2, 1/2], 6, 4, 1/5⟩ ∧ lsum [0, 0, 0, 0, 0, 0, 1/2, (1/2 : ℚ)] = 1 ∧
    deepDepth [⟨[0, 0, 0, 0, 0, 0, 1/2, 1/2], 6, 4, 1/5⟩, ⟨[0, 0, 0, 0, 0, 0, 0, 1], 4, 2, 0⟩] = 6 ∧
    deepBound [⟨[0, 0, 0, 0, 0, 0, 1/2, 1/2], 6, 4, 1/5⟩, ⟨[0, 0, 0, 0, 0, 0, 0, 1], 4, 2, 0⟩] = 69/64 := by
  refine ⟨⟨by decide +kernel, by decide +kernel, by decide +kernel, by norm_num, by norm_num, 3, 2, rfl, rfl, by norm_num, by norm_num⟩,
    by decide +kernel, by decide +kernel, by decide +kernel⟩

/-- **Continuity at F = 0⁺ (ε–δ form, in the topology of ℚ).**  For every allele count 0 ≤ x ≤ 2n and every genotype
    configuration, the probability computed by the code's F > 0 branch (`part_inbreeding_probability`, normalised) tends to
    the probability computed by its F = 0 branch (multinomial ways·2^het, normalised) as F → 0⁺; `pw x n F` is the list of
    these probabilities. -/
theorem C18_F_continuity (x n : ℕ) (hx : x ≤ 2 * n) (g : List ℕ) (hg : g ∈ part x n 0 2) :
    Tendsto (fun F : ℚ => partProb x n F g) (𝓝[>] 0) (𝓝 (partProb x n 0 g)) ∧
    ∀ F, pw x n F = (part x n 0 2).map fun g => (g, partProb x n F g) :=
  ⟨partProb_tendsto x n hx g hg, fun F => pw_eq_map x n F⟩

/-- … hence everything computed *through* the partition probabilities is continuous at F = 0⁺: the calling-error matrix and
    the no-call probabilities tend to their F = 0 values, and the F > 0 branch of `projection_matrix` tends to the
    Hardy–Weinberg mixture of the individual-subsampling rows.
    (Kept under its round-4 name; superseded by `C18_F_continuity_matrices`: since round 5 the mixture is proved to be the
    hypergeometric row returned by the F = 0 branch of `projection_matrix` for every size, `C18_projection_branches_agree`.) -/
theorem C18_F_continuity_matrices_partial (e : ℚ) (c : List ℚ) (N m af : ℕ) :
    (af ≤ 2 * m → ∀ t, Tendsto (fun F => callEntryE e (2 * m) F af t) (𝓝[>] 0) (𝓝 (callEntryE e (2 * m) 0 af t))) ∧
    (af ≤ 2 * N → Tendsto (fun F => nocall c (2 * N) F af) (𝓝[>] 0) (𝓝 (nocall c (2 * N) 0 af))) ∧
    (af ≤ 2 * N → ∀ nsub j, Tendsto (fun F => projEntry (2 * N) nsub F af j) (𝓝[>] 0) (𝓝 (projMix0 (2 * N) nsub af j))) ∧
    (∀ nseq nsub, projMixRow0 nseq nsub af = (List.range (nsub + 1)).map (projMix0 nseq nsub af)) :=
  ⟨fun h t => callEntryE_tendsto e m af t h, fun h => nocall_tendsto c N af h, fun h nsub j => projEntry_tendsto N nsub af j h,
    fun nseq nsub => projMixRow0_eq nseq nsub af⟩

/-- **The two branches of `projection_matrix` agree at F = 0, for every size.**  The Hardy–Weinberg mixture over the genotype
    configurations of an allele count of the individual-subsampling rows (`projMix0`: what the F > 0 branch computes, evaluated
    with the F = 0 partition probabilities) is the hypergeometric row `_cached_projection(2m, 2N, af)[j]` returned by the F = 0
    branch: Σ_g ways(g)·#{m-subsets of g with allele count j} = C(N,m)·C(2m,j)·C(2N−2m, af−j) and Σ_g ways(g) = C(2N, af)
    (ways(g) = N!/(r! h! a!)·2^h, the generated `waysF0`; the subset counts are those of `projection_inbreeding`). -/
theorem C18_projection_branches_agree (N m af j : ℕ) (hm : m ≤ N) (haf : af ≤ 2 * N) :
    projMix0 (2 * N) (2 * m) af j = projEntry (2 * N) (2 * m) 0 af j ∧
    projEntry (2 * N) (2 * m) 0 af j = hypW (2 * m) (2 * N) af j ∧
    lsum ((part af N 0 2).map waysOf) = (((2 * N).choose af : ℕ) : ℚ) := by
  have h0 : projEntry (2 * N) (2 * m) 0 af j = hypW (2 * m) (2 * N) af j := by simp [projEntry]
  exact ⟨by rw [h0]; exact projMix0_eq_hypW N m af j hm haf, h0, ways_total af N⟩

example : projMix0 6 4 3 2 = 3 / 5 ∧ hypW 4 6 3 2 = 3 / 5 := by decide +kernel

/-- **`projection_matrix` is continuous across its F = 0 / F > 0 branches, for every size**: every entry of the matrix the
    F > 0 branch builds (mixture over genotype partitions of `projection_inbreeding` rows with the inbreeding partition
    probabilities) tends, as F → 0⁺, to the entry the F = 0 branch returns (the hypergeometric projection). -/
theorem C18_F_continuity_projection (N m af j : ℕ) (hm : m ≤ N) (haf : af ≤ 2 * N) :
    Tendsto (fun F => projEntry (2 * N) (2 * m) F af j) (𝓝[>] 0) (𝓝 (projEntry (2 * N) (2 * m) 0 af j)) := by
  rw [← (C18_projection_branches_agree N m af j hm haf).1]
  exact projEntry_tendsto N (2 * m) af j haf

/-- **Everything the model computes through the genotype-partition probabilities is continuous at F = 0⁺** (full form of
    `C18_F_continuity_matrices_partial`): the calling-error matrix, the no-call vector and the projection matrix tend to the
    values their F = 0 code paths return. -/
theorem C18_F_continuity_matrices (e : ℚ) (c : List ℚ) (N m af : ℕ) (hm : m ≤ N) :
    (af ≤ 2 * m → ∀ t, Tendsto (fun F => callEntryE e (2 * m) F af t) (𝓝[>] 0) (𝓝 (callEntryE e (2 * m) 0 af t))) ∧
    (af ≤ 2 * N → Tendsto (fun F => nocall c (2 * N) F af) (𝓝[>] 0) (𝓝 (nocall c (2 * N) 0 af))) ∧
    (af ≤ 2 * N → ∀ j, Tendsto (fun F => projEntry (2 * N) (2 * m) F af j) (𝓝[>] 0) (𝓝 (projEntry (2 * N) (2 * m) 0 af j))) :=
  ⟨fun h t => callEntryE_tendsto e m af t h, fun h => nocall_tendsto c N af h,
    fun h j => C18_F_continuity_projection N m af j hm h⟩

/-- explicit modulus for the generated single-individual genotype probabilities: |p_k(F) − p_k(0)| ≤ F/4, F/2, F/4 -/
theorem C18_F_lipschitz_genotype (p F : ℚ) (hp0 : 0 ≤ p) (hp1 : p ≤ 1) (hF0 : 0 < F) (hF1 : F < 1) :
    |Gen.LowPass.inbP00 p F - (1 - p) ^ 2| ≤ F / 4 ∧ |Gen.LowPass.inbP01 p F - 2 * p * (1 - p)| ≤ F / 2 ∧
    |Gen.LowPass.inbP11 p F - p ^ 2| ≤ F / 4 :=
  inbP_lipschitz p F hp0 hp1 hF0 hF1

/-! ## round 5: the deep-coverage bound, entry by entry -/

/-- **Deep coverage, entry-wise, for the matrices the code builds, any number of populations.**  If every population is
    well-formed, its coverage distribution sums to one, no depth below `D = deepDepth pops ≥ 2` has mass and the model spectrum
    vanishes at the all-zero corner, then *every entry* of the corrected model is within
    `(deepEntryBound pops + σ)·‖model‖₁` of the entry of the plain projection through `projection_matrix`, with
    `deepEntryBound = ((1 + D) + Σ_p nsub_p)·2^{-D}` — (1 + D)·2^{-D} bounds the no-call probability of every polymorphic entry,
    nsub_p·2^{-D} every entry of one population's `(prob_enough·projection)·calling_error` minus its projection matrix; σ bounds
    the entries of a simulated table minus the projection row, only where entries are simulated.  (Sharper than the ℓ¹
    theorem `C18_deep_coverage` read entry by entry, and at most the constant Σ_p (D + 2 + nsub_p)·2^{-D} that the harness used
    to check heuristically.) -/
theorem C18_deep_coverage_entrywise (pops : List Pop) (h : ∀ p ∈ pops, PopOk p ∧ lsum p.c = 1) (hD : 2 ≤ deepDepth pops)
    (thr σ : ℚ) (hσ0 : 0 ≤ σ) (model : List ℕ → ℚ) (sim : List ℕ → List ℕ → ℚ)
    (hcorner : ∀ i, (∀ k ∈ i, k = 0) → model i = 0)
    (j : List ℕ) (hj : inBox ((axesOf pops).map (·.nOut)) j)
    (hσ : ∀ i, inBox ((axesOf pops).map (·.nIn)) i → model i ≠ 0 →
      Gen.LowPass.useSim (pncND (axesOf pops) i) thr = true → |sim i j - kerND (refAxesOf pops) i j| ≤ σ) :
    |corrected (axesOf pops) thr model sim j - projected (refAxesOf pops) model j|
      ≤ (deepEntryBound pops + σ) * sumBox ((axesOf pops).map (·.nIn)) (fun i => |model i|) :=
  deep_entry_pops pops h hD thr σ hσ0 model sim hcorner j hj hσ

/-- … and with `sim_threshold ≥ (1 + D)·2^{-D}` nothing on the support of the model is simulated: the entry-wise bound holds
    with σ = 0, whatever the simulated tables are; the per-population ingredients: no-call ≤ (1 + D)·2^{-D} at every
    polymorphic allele count -/
theorem C18_deep_coverage_entrywise_analytic (pops : List Pop) (h : ∀ p ∈ pops, PopOk p ∧ lsum p.c = 1)
    (hD : 2 ≤ deepDepth pops) (thr : ℚ)
    (hthr : (1 + ((deepDepth pops : ℕ) : ℚ)) * (1 / 2) ^ (deepDepth pops) ≤ thr)
    (model : List ℕ → ℚ) (sim : List ℕ → List ℕ → ℚ) (hcorner : ∀ i, (∀ k ∈ i, k = 0) → model i = 0)
    (j : List ℕ) (hj : inBox ((axesOf pops).map (·.nOut)) j) :
    |corrected (axesOf pops) thr model sim j - projected (refAxesOf pops) model j|
      ≤ deepEntryBound pops * sumBox ((axesOf pops).map (·.nIn)) (fun i => |model i|) := by
  have hdeep : PopsDeep (deepDepth pops) pops := fun p hp => ⟨(h p hp).1, (h p hp).2, deepCov_of_deepDepth pops p hp⟩
  have hA : ∀ a ∈ axesOf pops, AxisOk a := by
    rw [← deepPairs_fst]; exact pairE_ok1 _ _ (deepPairs_okE _ (by omega) pops hdeep)
  have hpnc := pops_pnc_le_sharp _ hD pops hdeep
  have := C18_deep_coverage_entrywise pops h hD thr 0 (le_refl _) model sim hcorner j hj (by
    intro i hi hm hu
    exfalso
    have hle := pncND_le _ (by positivity) (axesOf pops) hA hpnc i hi (fun hall => hm (hcorner i hall))
    have : ¬ (pncND (axesOf pops) i > thr) := not_lt.mpr (le_trans hle hthr)
    simp [Gen.LowPass.useSim, this] at hu)
  simpa using this

example : deepEntryBound [⟨[0, 0, 0, 0, 0, 0, 1/2, 1/2], 6, 4, 1/5⟩, ⟨[0, 0, 0, 0, 0, 0, 0, 1], 4, 2, 0⟩] = 13/64 := by
  decide +kernel

/-! ## round 5: the simulated regime -/

/-- **The closed steps of the simulator lose no locus and invent no call** (generated from `simulate_reads`,
    `simulate_GATK_multisample_calling`, `subsample_genotypes_1D` of the current source): a locus is either kept as polymorphic
    or recorded in entry 0, never both; the four masked stores of the genotype-call table cover every pair of read counts
    (nothing of the `numpy.empty` array stays uninitialised) and give 99 = no call exactly without reads; reads are non-negative
    and add up to the depth; a locus that passes the enough-calls filter is never skipped by `subsample_genotypes_1D`, so all
    populations contribute the same number of rows to `called_freqs`. -/
theorem C18_sim_steps :
    (∀ t : ℤ, Gen.LowPass.simKeep t = !Gen.LowPass.simDrop t) ∧
    (∀ r a : ℤ, 0 ≤ r → 0 ≤ a → Gen.LowPass.simCall r a
        = if r = 0 ∧ a = 0 then Gen.LowPass.simNoCall else if a = 0 then 0 else if r = 0 then 2 else 1) ∧
    (∀ g d b : ℕ, g ≤ 2 → b ≤ d →
      0 ≤ Gen.LowPass.simNRef (g : ℕ) (d : ℕ) (b : ℕ) ∧ 0 ≤ Gen.LowPass.simNAlt (g : ℕ) (d : ℕ) (b : ℕ) ∧
      Gen.LowPass.simNRef (g : ℕ) (d : ℕ) (b : ℕ) + Gen.LowPass.simNAlt (g : ℕ) (d : ℕ) (b : ℕ) = (d : ℕ)) ∧
    (∀ c n : ℤ, Gen.LowPass.simEnough c n = true → Gen.LowPass.simSubSkip c n = false) ∧
    Gen.LowPass.simShapeOk = true ∧ Gen.LowPass.simHetP = 1 / 2 := by
  refine ⟨?_, ?_, ?_, ?_, by decide, by decide +kernel⟩
  · intro t
    unfold Gen.LowPass.simKeep Gen.LowPass.simDrop
    by_cases h : t < 2
    · simp [h]
    · simp [h]; omega
  · intro r a hr ha
    unfold Gen.LowPass.simCall Gen.LowPass.simNoCall
    by_cases h1 : r = 0 <;> by_cases h2 : a = 0
    · subst h1; subst h2; simp
    · subst h1
      have : 0 < a := by omega
      simp [h2, this]
    · subst h2
      have : 0 < r := by omega
      simp [h1, this]
    · have h3 : 0 < r := by omega
      have h4 : 0 < a := by omega
      simp [h1, h2, h3, h4]
  · intro g d b hg hb
    unfold Gen.LowPass.simNRef Gen.LowPass.simNAlt
    interval_cases g
    · simp
    · simp; omega
    · simp
  · intro c n h
    unfold Gen.LowPass.simEnough at h
    unfold Gen.LowPass.simSubSkip
    simp only [decide_eq_true_eq, decide_eq_false_iff_not, not_lt] at h ⊢
    exact h

/-- **Every simulated locus is accounted for exactly once.**  Whenever the recorded draws fit the sizes (`blockRows` succeeds:
    all populations hand the same number of rows to `called_freqs`), the rows one aggregate partition passes to
    `numpy.histogramdd` together with the loci it records directly in entry 0 (fewer than two alternative reads, or too few
    calls) are exactly as many as the loci it simulated: the polymorphism filter and its complement, the enough-calls filter and
    its complement lose and duplicate nothing.  (*partial*: that `histogramdd` then drops no row — every subsampled allele count
    lies in 0..nsub — is checked on the real code, L3 `locus-count`, not proved.) -/
theorem C18_sim_rows_conserved (pops : List Pop) (gss : List (List ℕ)) (b : BlockDraw) (rows : List (List ℤ))
    (h : blockRows pops gss b = some rows) : rows.length = b.loci.length :=
  blockRows_length C18_sim_steps.1 pops gss b rows h

example : blockRows [⟨[1/4, 1/4, 1/2], 4, 2, 0⟩] [[1, 1]] ⟨[[[(2, 2), (0, 0)]], [[(2, 1), (2, 1)]], [[(0, 0), (1, 0)]]], [[[0], [1]]]⟩
    = some [[0], [2], [1]] := by decide +kernel

/-- **A simulated table is a probability table, whatever the random draws.**  `simTable pops af draws` is
    `simulate_GATK_multisample_calling(cov, af, nseq, nsub, nsim, Fx)` as a function of the recorded draws (depths, alternative
    reads of heterozygotes, subsampling permutations): the empirical frequencies of the calling procedure.  For *any* draws —
    possible or not — its entries are non-negative, every counted multi-index lies in the output box, and its total is 1 as
    soon as one locus is binned (0 otherwise: the code would divide 0 by 0). -/
theorem C18_sim_table_stochastic (pops : List Pop) (af : List ℕ) (draws : List BlockDraw) :
    (∀ j, 0 ≤ simTable pops af draws j) ∧
    sumOut (axesOf pops) (simTable pops af draws) ≤ 1 ∧
    (∀ L, simBinned pops af draws = some L → (∀ x ∈ L, inBox ((axesOf pops).map (·.nOut)) x) ∧
      (L ≠ [] → sumOut (axesOf pops) (simTable pops af draws) = 1)) := by
  refine ⟨simTable_nonneg pops af draws, ?_, ?_⟩
  · rw [sumOut_eq_box, axesOf_nOut]; exact simTable_total_le pops af draws
  · intro L hL
    rw [sumOut_eq_box, axesOf_nOut]
    refine ⟨simBinned_inBox pops af draws L hL, fun hne => ?_⟩
    rw [simTable_total, hL]
    simp [hne]

/-- non-vacuity: four loci of a heterozygous individual (depths 2, 2, 3, 3; alternative reads 1, 2, 2, 0): two without two
    alternative reads (entry 0), one called homozygous-alternative (entry 2), one called heterozygous (entry 1) -/
example : (List.range 3).map (fun j => simTable [⟨[0, 1/4, 1/2, 1/4], 2, 2, 0⟩] [1]
      [⟨[[[(2, 1)]], [[(2, 2)]], [[(3, 2)]], [[(3, 0)]]], [[]]⟩] [j]) = [1/2, 1/4, 1/4] := by decide +kernel

/-- … and with subsampling (two individuals sequenced, one kept; two genotype configurations of allele count 2): possible
    draws, one locus per row of `called_freqs` -/
example : (List.range 3).map (fun j => simTable [⟨[1/4, 1/4, 1/2], 4, 2, 0⟩] [2]
      [⟨[[[(1, 0), (2, 0)]], [[(0, 0), (1, 0)]]], [[[1]]]⟩, ⟨[[[(2, 2), (0, 0)]], [[(2, 1), (2, 1)]]], [[[0], [1]]]⟩] [j])
        = [1/4, 1/4, 1/2] ∧
    drawsFit [⟨[1/4, 1/4, 1/2], 4, 2, 0⟩] [2]
      [⟨[[[(1, 0), (2, 0)]], [[(0, 0), (1, 0)]]], [[[1]]]⟩, ⟨[[[(2, 2), (0, 0)]], [[(2, 1), (2, 1)]]], [[[0], [1]]]⟩] = true := by
  constructor <;> decide +kernel

/-- **The correction never creates sites — in the simulated regime too, without assuming anything about the simulated
    tables.**  For well-formed populations, any `sim_threshold`, any non-negative model spectrum and *any* family of random
    draws (one list of blocks per simulated allele-count tuple), the corrected model whose simulated tables are the tables the
    simulator computes from those draws has at most the total of the uncorrected model. -/
theorem C18_total_le_simulated (pops : List Pop) (h : ∀ p ∈ pops, PopOk p) (thr : ℚ)
    (model : List ℕ → ℚ) (draws : List ℕ → List BlockDraw)
    (hmodel : ∀ i, inBox ((axesOf pops).map (·.nIn)) i → 0 ≤ model i) :
    sumOut (axesOf pops) (corrected (axesOf pops) thr model (fun i => simTable pops i (draws i)))
      ≤ sumIn (axesOf pops) model :=
  (C18_total_le_pops pops h thr model (fun i => simTable pops i (draws i)) hmodel
    (fun i _ => (C18_sim_table_stochastic pops i (draws i)).2.1)).2


end DadiVerif
